import IndicatorVerif.Model.Registry
import IndicatorVerif.Model.Stream
import IndicatorVerif.Spec.Indicators
import IndicatorVerif.Model.Strategies
import IndicatorVerif.Model.StrategyOps
import IndicatorVerif.Model.Assets
import IndicatorVerif.Model.NetMachines
import IndicatorVerif.Model.NetSma
import IndicatorVerif.Model.NetWindow
/-
  ivdriver: runs the executable models on cases received over a line protocol (stdin → stdout).
  One case per line, one result per line.  Floats travel as 16-digit hex bit patterns.
-/
open Ind

def hexDigit (c : Char) : Option Nat :=
  if '0' ≤ c ∧ c ≤ '9' then some (c.toNat - '0'.toNat)
  else if 'a' ≤ c ∧ c ≤ 'f' then some (c.toNat - 'a'.toNat + 10)
  else if 'A' ≤ c ∧ c ≤ 'F' then some (c.toNat - 'A'.toNat + 10)
  else none

def parseHex (s : String) : Option Nat :=
  if s.isEmpty then none else
  s.foldl (fun acc c => match acc, hexDigit c with
    | some a, some d => some (a * 16 + d)
    | _, _ => none) (some 0)

def hexOfNat (n : Nat) (digits : Nat) : String :=
  let rec go (n : Nat) (k : Nat) (acc : List Char) : List Char :=
    match k with
    | 0 => acc
    | k + 1 => go (n / 16) k (Nat.digitChar (n % 16) :: acc)
  String.ofList (go n digits [])

def floatOfHex (s : String) : Option Float := (parseHex s).map (fun n => Float.ofBits n.toUInt64)
def hexOfFloat (f : Float) : String :=
  -- canonical NaN
  if f.isNaN then "7ff8000000000001" else hexOfNat f.toBits.toNat 16

def splitList (s : String) (sep : String) : List String :=
  if s == "-" || s.isEmpty then [] else s.splitOn sep

def parseFloats (s : String) : Option (List Float) := (splitList s ",").mapM floatOfHex
def parseNats (s : String) : Option (List Nat) := (splitList s ",").mapM String.toNat?
def parseInts (s : String) : Option (List Int) := (splitList s ",").mapM String.toInt?
def parseStreams (s : String) : Option (List (List Float)) :=
  if s == "_" then some [] else (s.splitOn ";").mapM parseFloats

def showFloats (l : List Float) : String :=
  if l.isEmpty then "-" else ",".intercalate (l.map hexOfFloat)
def showStreams (l : List (List Float)) : String :=
  if l.isEmpty then "_" else ";".intercalate (l.map showFloats)
def showInts (l : List Int) : String :=
  if l.isEmpty then "-" else ",".intercalate (l.map toString)
def showOptNat : Option Nat → String
  | some n => toString n
  | none => "none"

/-! ### IND -/
def runInd (name ns fs streams : String) (withSpec : Bool := true) : String :=
  match parseNats ns, parseFloats fs, parseStreams streams with
  | some ns, some fs, some env =>
    match lookup (α := Float) name ns fs with
    | none => "ERR unknown-indicator"
    | some e =>
      let outs := e.outs.map (Sig.evalL env)
      let offs := ",".intercalate (e.outs.map (fun s => showOptNat (Sig.off s)))
      let needs := ",".intercalate (e.outs.map (fun s => toString (Sig.need s)))
      let arrs : Array (Array Float) := (env.map List.toArray).toArray
      let n := (env.map List.length).foldl Nat.min (match env with | [] => 0 | l :: _ => l.length)
      let x (j i : Nat) : Float := (arrs.getD j #[]).getD i 0.0
      let (specS, starts) := match (if withSpec then Spec.formulas (α := Float) n name ns fs x else none) with
        | none => ("_", "-")
        | some ps => (showStreams (ps.map (fun (a : PS Float) => a.toList n)),
                      ",".intercalate (ps.map (fun (a : PS Float) => toString a.start)))
      s!"ok idle={e.idle} arity={e.arity} offs={offs} needs={needs} starts={starts} | {showStreams outs} | {specS}"
  | _, _, _ => "ERR parse"

/-- the same registry entry evaluated at the integer element type (truncating division) -/
def runIndZ (name ns streams : String) : String :=
  match parseNats ns, (if streams == "_" then some [] else (streams.splitOn ";").mapM parseInts) with
  | some ns, some env =>
    match lookup (α := Int) name ns [] with
    | none => "ERR unknown-indicator"
    | some e =>
      let outs := e.outs.map (Sig.evalL env)
      "ok idle=" ++ toString e.idle ++ " | " ++ ";".intercalate (outs.map (fun l => if l.isEmpty then "-" else ",".intercalate (l.map toString)))
  | _, _ => "ERR parse"

/-! ### HELPER (C16): integer element type, exact -/
def intCmpBeq (a b : Int) : Bool := a == b

def runHelper (name params streams : String) : String :=
  match parseInts params, (if streams == "_" then some [] else (streams.splitOn ";").mapM parseInts) with
  | some ps, some ins =>
    let p (k : Nat) : Nat := (ps.getD k 0).toNat
    let pi (k : Nat) : Int := ps.getD k 0
    let a := ins.getD 0 []
    let b := ins.getD 1 []
    let c := ins.getD 2 []
    let lens : List Nat := match name with
      | "Operate" | "Add" | "Subtract" | "Multiply" =>
          let r := Stream.operateM (fun x y => x * 3 + y) a b
          [a.length - r.2.1.length, b.length - r.2.2.length]
      | "Operate3" =>
          let r := Stream.operate3M (fun x y z => x * 5 + y * 3 + z) a b c
          [a.length - r.2.1.length, b.length - r.2.2.1.length, c.length - r.2.2.2.length]
      | "OperateShared" => [a.length]
      | "Operate3Shared" | "Operate3SharedLast" => [a.length, b.length]
      | "DivideI" => [a.length, b.length]
      | "Head" => [a.length - (Stream.headM (p 0) a).2.length]
      | "First" => [a.length - (Stream.firstM (p 0) a).2.length]
      | "Seq" => []
      | _ => [a.length]
    let cons := " | consumed=" ++ (if lens.isEmpty then "-" else ",".intercalate (lens.map toString))
    let one (l : List Int) := "ok " ++ showInts l ++ cons
    match name with
    | "Pipe" | "Buffered" | "Waitable" => one (Stream.pipeM a)
    | "Map" => one (Stream.mapM (fun x => x * pi 0 + pi 1) a)
    | "MapWithPrevious" => one (Stream.mapWithPreviousM (fun prev x => prev * pi 1 + x) (pi 0) a)
    | "Filter" => one (Stream.filterM (fun x => x % 2 == 0) a)
    | "Skip" => one (Stream.skipM (p 0) a)
    | "Head" => one (Stream.headM (p 0) a).1
    | "First" => one (Stream.firstM (p 0) a).1
    | "Last" => one (Stream.lastM 0 (p 0) a)
    | "Shift" => one (Stream.shiftM (p 0) (pi 1) a)
    | "Count" => one (Stream.countM (· + 1) (pi 0) a)
    | "Since" => one (Stream.sinceM intCmpBeq (· + 1) (0 : Int) (none, 0) a)
    | "Echo" => one (Stream.echoM 0 (p 0) (p 1) a)
    | "Seq" => one (Stream.seqM (pi 0) (pi 1) (pi 2) 100000)
    | "Duplicate" => "ok " ++ (if p 0 = 0 then "_" else ";".intercalate ((Stream.duplicateM (p 0) a).map showInts)) ++ cons
    | "Operate" => one (Stream.operateM (fun x y => x * 3 + y) a b).1
    | "Operate3" => one (Stream.operate3M (fun x y z => x * 5 + y * 3 + z) a b c).1
    | "Add" => one (Stream.operateM (· + ·) a b).1
    | "Subtract" => one (Stream.operateM (· - ·) a b).1
    | "Multiply" => one (Stream.operateM (· * ·) a b).1
    | "Change" => one (Stream.changeM (· - ·) (p 0) a)
    | "IncrementBy" => one (Stream.mapM (· + pi 0) a)
    | "DecrementBy" => one (Stream.mapM (· - pi 0) a)
    | "MultiplyBy" => one (Stream.mapM (· * pi 0) a)
    | "Abs" => one (Stream.mapM (fun x => (x.natAbs : Int)) a)
    | "Sign" => one (Stream.mapM (fun x => if x > 0 then 1 else if x < 0 then -1 else 0) a)
    | "KeepPositives" => one (Stream.mapM (fun x => if x > 0 then x else 0) a)
    | "KeepNegatives" => one (Stream.mapM (fun x => if x < 0 then x else 0) a)
    | "DivideI" => one (Stream.operateM Int.tdiv a b).1
    | "DivideByI" => one (Stream.mapM (fun x => Int.tdiv x (pi 0)) a)
    | "ChangeRatioI" => one (Stream.changeRatioM (· - ·) Int.tdiv (p 0) a)
    | "ChangePercentI" => one (Stream.changePercentM (· - ·) Int.tdiv (· * ·) 100 (p 0) a)
    | "OperateShared" => one (Stream.operateM (fun x y => x * 3 + y) a a).1
    | "Operate3Shared" => one (Stream.operate3M (fun x y z => x * 5 + y * 3 + z) a a b).1
    | "Operate3SharedLast" => one (Stream.operate3M (fun x y z => x * 5 + y * 3 + z) a b b).1
    | _ => "ERR unknown-helper"
  | _, _ => "ERR parse"

/-! ### HELPERF: float helpers that divide (ChangeRatio, ChangePercent, Divide…) -/
def runHelperF (name params streams : String) : String :=
  match parseNats params, parseStreams streams with
  | some ps, some ins =>
    let p (k : Nat) : Nat := ps.getD k 0
    let a := ins.getD 0 []
    let b := ins.getD 1 []
    let lens : List Nat := if name == "Divide" then [a.length, b.length] else [a.length]
    let one (l : List Float) := "ok " ++ showFloats l ++ " | consumed=" ++ ",".intercalate (lens.map toString)
    match name with
    | "ChangeRatio" => one (Stream.changeRatioM (· - ·) (· / ·) (p 0) a)
    | "ChangePercent" => one (Stream.changePercentM (· - ·) (· / ·) (· * ·) 100.0 (p 0) a)
    | "Divide" => one (Stream.operateM (· / ·) a b).1
    | "DivideBy" => one (Stream.mapM (· / Float.ofNat (p 0)) a)
    | "Sqrt" => one (Stream.mapM Float.sqrt a)
    | "Pow2" => one (Stream.mapM (fun x => x * x) a)
    | "PowInv" => one (Stream.mapM (fun x => 1.0 / x) a)
    | "RoundDigits0" => one (Stream.mapM (fun x => Float.round (x * 1.0) / 1.0) a)
    | "CountF" =>
        let from0 : Float := Float.ofNat (p 0) / 10.0
        let from1 : Float := if p 1 == 1 then -from0 else from0
        one ((a.foldl (fun (st : Float × List Float) _ => (st.1 + 1.0, st.1 :: st.2)) (from1, [])).2.reverse)
    | "KeepPositivesF" => one (Stream.mapM (fun x => if x > 0.0 then x else 0.0) a)
    | "KeepNegativesF" => one (Stream.mapM (fun x => if x < 0.0 then x else 0.0) a)
    | "AbsF" => one (Stream.mapM (fun x => if x < 0.0 then -x else if x == 0.0 then 0.0 else x) a)
    | "SignF" => one (Stream.mapM (fun x => if x > 0.0 then 1.0 else if x < 0.0 then -1.0 else 0.0) a)
    | _ => "ERR unknown-helper"
  | _, _ => "ERR parse"

/-! ### RING / BST (C17): operation sequences over Int -/
def runRing (capS ops : String) : String :=
  match capS.toNat? with
  | none => "ERR parse"
  | some cap =>
    let step (st : RingBuf Int × List String) (op : String) : RingBuf Int × List String :=
      let (r, out) := st
      match op.splitOn ":" with
      | ["put", v] =>
        match v.toInt? with
        | some x => let (r', o) := r.put x; (r', s!"{o}" :: out)
        | none => (r, "bad" :: out)
      | ["get"] =>
        match r.get with
        | (r', some x) => (r', s!"{x}" :: out)
        | (r', none) => (r', "none" :: out)
      | ["at", i] =>
        match i.toNat? with
        | some k => (r, s!"{r.atIdx k}" :: out)
        | none => (r, "bad" :: out)
      | ["full"] => (r, (if r.isFull then "t" else "f") :: out)
      | ["empty"] => (r, (if r.isEmpty then "t" else "f") :: out)
      | _ => (r, "bad" :: out)
    let (_, outs) := (splitList ops ",").foldl step (RingBuf.new (0 : Int) cap, [])
    "ok " ++ ",".intercalate outs.reverse

abbrev intCmp : Cmp Int := Bst.intCmp
def floatCmp : Cmp Float := { le := fun a b => a ≤ b, lt := fun a b => a < b, eq := fun a b => a == b }

def runBst (ops : String) (wantShape : Bool) : String :=
  let step (st : BTree Int × List String) (op : String) : BTree Int × List String :=
    let (t, out) := st
    match op.splitOn ":" with
    | ["ins", v] =>
      match v.toInt? with
      | some x => (Bst.insert intCmp x t, "-" :: out)
      | none => (t, "bad" :: out)
    | ["rem", v] =>
      match v.toInt? with
      | some x => let (t', b) := Bst.remove intCmp x t; (t', (if b then "t" else "f") :: out)
      | none => (t, "bad" :: out)
    | ["has", v] =>
      match v.toInt? with
      | some x => (t, (if Bst.contains intCmp x t then "t" else "f") :: out)
      | none => (t, "bad" :: out)
    | ["min"] => (t, s!"{Bst.minD 0 t}" :: out)
    | ["max"] => (t, s!"{Bst.maxD 0 t}" :: out)
    | _ => (t, "bad" :: out)
  let (t, outs) := (splitList ops ",").foldl step (BTree.nil, [])
  "ok " ++ ",".intercalate outs.reverse ++ (if wantShape then " | " ++ t.shape toString else "")

def runBstF (ops : String) : String :=
  let step (st : BTree Float × List String) (op : String) : BTree Float × List String :=
    let (t, out) := st
    match op.splitOn ":" with
    | ["ins", v] =>
      match floatOfHex v with
      | some x => (Bst.insert floatCmp x t, "-" :: out)
      | none => (t, "bad" :: out)
    | ["rem", v] =>
      match floatOfHex v with
      | some x => let (t', b) := Bst.remove floatCmp x t; (t', (if b then "t" else "f") :: out)
      | none => (t, "bad" :: out)
    | ["has", v] =>
      match floatOfHex v with
      | some x => (t, (if Bst.contains floatCmp x t then "t" else "f") :: out)
      | none => (t, "bad" :: out)
    | ["min"] => (t, hexOfFloat (Bst.minD 0.0 t) :: out)
    | ["max"] => (t, hexOfFloat (Bst.maxD 0.0 t) :: out)
    | _ => (t, "bad" :: out)
  let (_, outs) := (splitList ops ",").foldl step (BTree.nil, [])
  "ok " ++ ",".intercalate outs.reverse

/-! ### STRAT: base strategies on OHLCV snapshots -/
def actOfFloat (f : Float) : Int := if f == 1.0 then 1 else if f == -1.0 then -1 else 0

def runStrat (name ns fs streams : String) : String :=
  match parseNats ns, parseFloats fs, parseStreams streams with
  | some ns, some fs, some env =>
    match Strat.lookupS (α := Float) name ns fs with
    | none => "ERR unknown-strategy"
    | some e =>
      let acts := (Sig.evalL env e.sig).map actOfFloat
      s!"ok idle={e.idle} off={showOptNat (Sig.off e.sig)} need={Sig.need e.sig} | {showInts acts}"
  | _, _, _ => "ERR parse"

/-! ### TREE: combinators / decorators over scripted action words, postfix program -/
def parseWords (s : String) : Option (List (List Action)) :=
  if s == "_" then some [] else
  (s.splitOn ";").mapM (fun w => (parseInts w).map (fun l => l.map Action.ofInt))

def popN (k : Nat) (st : List (List Action)) : Option (List (List Action) × List (List Action)) :=
  if st.length < k then none else some ((st.take k).reverse, st.drop k)

def runTree (prog words closings : String) : String :=
  match parseWords words, parseFloats closings with
  | some ws, some cl =>
    let step (st : Option (List (List Action))) (tok : String) : Option (List (List Action)) :=
      match st with
      | none => none
      | some stack =>
        match tok.splitOn ":" with
        | ["w", i] => (i.toNat?).bind (fun k => (ws[k]?).map (fun w => w :: stack))
        | ["And", k] => (k.toNat?).bind (fun k => (popN k stack).map (fun (args, rest) => Action.andS args :: rest))
        | ["Or", k] => (k.toNat?).bind (fun k => (popN k stack).map (fun (args, rest) => Action.orS args :: rest))
        | ["Majority", k] => (k.toNat?).bind (fun k => (popN k stack).map (fun (args, rest) => Action.majorityS args :: rest))
        | ["Split"] => (popN 2 stack).map (fun (args, rest) => Action.splitS (args.getD 0 []) (args.getD 1 []) :: rest)
        | ["Agree"] => (popN 2 stack).map (fun (args, rest) => Action.agreeS (args.getD 0 []) (args.getD 1 []) :: rest)
        | ["Inverse"] => (popN 1 stack).map (fun (args, rest) => Action.inverseS (args.getD 0 []) :: rest)
        | ["NoLoss"] => (popN 1 stack).map (fun (args, rest) => StratOps.noLossS (args.getD 0 []) cl :: rest)
        | ["StopLoss", pct] =>
          (floatOfHex pct).bind (fun p => (popN 1 stack).map (fun (args, rest) => StratOps.stopLossS p (args.getD 0 []) cl :: rest))
        | ["Normalize"] => (popN 1 stack).map (fun (args, rest) => Action.normalize (args.getD 0 []) :: rest)
        | ["Denormalize"] => (popN 1 stack).map (fun (args, rest) => Action.denormalize (args.getD 0 []) :: rest)
        | _ => none
    match (prog.splitOn ",").foldl step (some []) with
    | some [res] =>
      let acts := res.map Action.toInt
      let out := StratOps.outcome cl res
      let tx := Action.countTransactions res
      s!"ok {showInts acts} | {showFloats out} | {showInts (tx.map Int.ofNat)}"
    | _ => "ERR bad-program"
  | _, _ => "ERR parse"

/-! ### REPO / SYNC / CSVFILE -/
def showSnaps (l : List Snap) : String := ",".intercalate (l.map (fun s => s!"{s.day}.{s.id}"))

def showObs : Repo.Obs → String
  | .done => "ok"
  | .snaps none => "err"
  | .snaps (some l) => "ok:" ++ showSnaps l
  | .day none => "err"
  | .day (some d) => s!"ok:{d}"
  | .names l => "ok:" ++ ",".intercalate l

/-- parse `a:name:d1,d2 | g:name | s:name:d | l:name | A`, numbering appended snapshots -/
def parseRepoOps (ops : String) : Option (List Repo.Op) :=
  let step (st : Option (Nat × List Repo.Op)) (op : String) : Option (Nat × List Repo.Op) :=
    match st with
    | none => none
    | some (serial, acc) =>
      match op.splitOn ":" with
      | ["a", n, ds] =>
        match parseNats (if ds.isEmpty then "-" else ds) with
        | some days =>
          let xs := (List.range days.length).map (fun i => ({ day := days.getD i 0, id := serial + i + 1 } : Snap))
          some (serial + days.length, acc ++ [Repo.Op.append n xs])
        | none => none
      | ["g", n] => some (serial, acc ++ [Repo.Op.get n])
      | ["s", n, d] => (d.toNat?).map (fun k => (serial, acc ++ [Repo.Op.since n k]))
      | ["l", n] => some (serial, acc ++ [Repo.Op.last n])
      | ["A"] => some (serial, acc ++ [Repo.Op.assets])
      | _ => none
  ((ops.splitOn ";").foldl step (some (0, []))).map (·.2)

/-- the history is run op by op so that "c:src:dst" (copy inside one repository = Append(dst, Get(src))) can be expanded
    into the model's own Get and Append with the snapshots the model holds at that point; "z:name" (an asset that exists
    without content) is an empty append -/
def runRepo (impl ops : String) : String :=
  let isSql := impl == "sql"
  let step (st : Option (Nat × Repo.Store × Repo.Table × List String)) (op : String) :
      Option (Nat × Repo.Store × Repo.Table × List String) :=
    match st with
    | none => none
    | some (serial, s, t, out) =>
      let run (o : Repo.Op) (serial' : Nat) : Option (Nat × Repo.Store × Repo.Table × List String) :=
        if isSql then let (t', ob) := Repo.sqlStep t o; some (serial', s, t', out ++ [showObs ob])
        else let (s', ob) := Repo.memStep s o; some (serial', s', t, out ++ [showObs ob])
      match op.splitOn ":" with
      | ["a", n, ds] =>
        match parseNats (if ds.isEmpty then "-" else ds) with
        | some days =>
          let xs := (List.range days.length).map (fun i => ({ day := days.getD i 0, id := serial + i + 1 } : Snap))
          run (Repo.Op.append n xs) (serial + days.length)
        | none => none
      | ["z", n] => run (Repo.Op.append n []) serial
      | ["c", src, dst] =>
        if isSql then run (Repo.Op.append dst (Repo.rowsOf t src)) serial
        else match Repo.lookup s src with
          | none => some (serial, s, t, out ++ ["err"])
          | some xs => run (Repo.Op.append dst xs) serial
      | ["g", n] => run (Repo.Op.get n) serial
      | ["s", n, d] => (d.toNat?).bind (fun k => run (Repo.Op.since n k) serial)
      | ["l", n] => run (Repo.Op.last n) serial
      | ["A"] => run Repo.Op.assets serial
      | _ => none
  match (ops.splitOn ";").foldl step (some (0, [], [], [])) with
  | none => "ERR parse"
  | some (_, _, _, out) => "ok " ++ ";".intercalate out

def parseSpec (spec : String) (serial : Nat) : Nat × Repo.Store :=
  if spec == "-" || spec.isEmpty then (serial, []) else
  (spec.splitOn ";").foldl (fun (st : Nat × Repo.Store) part =>
    match part.splitOn ":" with
    | [n, ds] =>
      let days := (parseNats (if ds.isEmpty then "-" else ds)).getD []
      let xs := (List.range days.length).map (fun i => ({ day := days.getD i 0, id := st.1 + i + 1 } : Snap))
      (st.1 + days.length, Repo.append st.2 n xs)
    | [n] => (st.1, Repo.append st.2 n [])
    | _ => st) (serial, [])

def runSync (defDayS assets failSrc failTgt runsS srcSpec tgtSpec : String) : String :=
  match defDayS.toNat?, runsS.toNat? with
  | some defDay, some runs =>
    let (serial, src) := parseSpec srcSpec 0
    let (_, tgt0) := parseSpec tgtSpec serial
    let fs := splitList failSrc ","
    let ft := splitList failTgt ","
    let names0 := if assets == "-" then Repo.sortNames (tgt0.map (·.1)) else assets.splitOn ","
    let (tgt, errs) := (List.range runs).foldl (fun (st : Repo.Store × List String) i =>
      let fg : String → Bool := if i == 0 then fs.contains else fun _ => false
      let fa : String → Bool := if i == 0 then ft.contains else fun _ => false
      let r := SyncM.run src defDay fg fa st.1 names0
      (r.1, st.2 ++ [if r.2 then "t" else "f"])) (tgt0, [])
    let all := Repo.sortNames (Repo.dedup ((src.map (·.1)) ++ (tgt0.map (·.1)) ++ (if assets == "-" then [] else names0)))
    let dump := ";".intercalate (all.map (fun n => match Repo.lookup tgt n with
      | none => n ++ "=err"
      | some l => n ++ "=" ++ showSnaps l))
    "ok err=" ++ ",".intercalate errs ++ " | " ++ dump
  | _, _ => "ERR parse"

def runCsvFile (ops : String) : String :=
  let step (st : CsvFile.File × Nat × List String) (op : String) : CsvFile.File × Nat × List String :=
    let (f, next, out) := st
    let mk (k : Nat) : List Nat := (List.range k).map (fun i => next + i + 1)
    match op.splitOn ":" with
    | ["w", k] => let k := k.toNat!; (CsvFile.write f (mk k), next + k, out ++ ["ok"])
    | ["a", k] =>
      let k := k.toNat!
      match CsvFile.appendF f (mk k) with
      | some f' => (f', next + k, out ++ ["ok"])
      | none => (f, next + k, out ++ ["err"])
    | ["aw", k] => let k := k.toNat!; (CsvFile.appendOrWrite f (mk k), next + k, out ++ ["ok"])
    | ["z"] => (some (false, []), next, out ++ ["ok"])
    | ["r"] =>
      match CsvFile.read f with
      | none => (f, next, out ++ ["rerr"])
      | some rows => (f, next, out ++ ["r=" ++ ",".intercalate (rows.map toString)])
    | _ => (f, next, out ++ ["bad"])
  let (_, _, out) := (ops.splitOn ";").foldl step (none, 0, [])
  "ok " ++ ";".intercalate out

def parseIntList (s : String) : Option (List Int) :=
  if s == "-" then some [] else (s.splitOn ",").mapM String.toInt?

/-- NET diamond fixed cap as bs: run the Duplicate → Operate → Operate network model to a terminal state -/
def runNet (name fixed cap as bs : String) : String :=
  match name, cap.toNat?, parseIntList as, parseIntList bs with
  | "diamond", some c, some a, some b =>
    let (term, clean, out, _) := NetM.diamondRun (fixed == "1") c a b
    if !term then "fuel"
    else (if clean then "ok" else "deadlock") ++ " | " ++ (if out.isEmpty then "-" else ",".intercalate (out.map toString))
  | "change", some c, some a, some [k, b] =>
    let (term, clean, out) := NetM.changeRun c b.toNat k.toNat a
    if !term then "fuel"
    else (if clean then "ok" else "deadlock") ++ " | " ++ (if out.isEmpty then "-" else ",".intercalate (out.map toString))
  | "msum", some c, some a, some [p, b] =>
    let (term, clean, out) := NetM.msumRun c b.toNat p.toNat a
    if !term then "fuel"
    else (if clean then "ok" else "deadlock") ++ " | " ++ (if out.isEmpty then "-" else ",".intercalate (out.map toString))
  | "sma", some c, some a, some [p, b] =>
    let (term, clean, out) := NetM.smaRun c b.toNat p.toNat a
    if !term then "fuel"
    else (if clean then "ok" else "deadlock") ++ " | " ++ (if out.isEmpty then "-" else ",".intercalate (out.map toString))
  | "wmax", some c, some a, some [p, b] =>
    let (term, clean, out) := NetM.winRun (NetM.maxStep p.toNat) [0] c b.toNat p.toNat a
    if !term then "fuel"
    else (if clean then "ok" else "deadlock") ++ " | " ++ (if out.isEmpty then "-" else ",".intercalate (out.map toString))
  | "wmin", some c, some a, some [p, b] =>
    let (term, clean, out) := NetM.winRun (NetM.minStep p.toNat) [0] c b.toNat p.toNat a
    if !term then "fuel"
    else (if clean then "ok" else "deadlock") ++ " | " ++ (if out.isEmpty then "-" else ",".intercalate (out.map toString))
  | "ema", some c, some a, some [p, mul] =>
    let (term, clean, out) := NetM.emaRun c p.toNat mul a
    if !term then "fuel"
    else (if clean then "ok" else "deadlock") ++ " | " ++ (if out.isEmpty then "-" else ",".intercalate (out.map toString))
  | _, _, _, _ => "ERR bad-net"

def handle (line : String) : String :=
  match (line.trimAscii.toString).splitOn " " with
  | [id, "IND", name, ns, fs, streams] => id ++ " " ++ runInd name ns fs streams
  | [id, "INDM", name, ns, fs, streams] => id ++ " " ++ runInd name ns fs streams false
  | [id, "INDZ", name, ns, streams] => id ++ " " ++ runIndZ name ns streams
  | [id, "STRAT", name, ns, fs, streams] => id ++ " " ++ runStrat name ns fs streams
  | [id, "TREE", prog, words, closings] => id ++ " " ++ runTree prog words closings
  | [id, "REPO", impl, ops] => id ++ " " ++ runRepo impl ops
  | [id, "SYNC", _workers, defDay, assets, failSrc, failTgt, _impl, runs, srcSpec, tgtSpec] =>
      id ++ " " ++ runSync defDay assets failSrc failTgt runs srcSpec tgtSpec
  | [id, "CSVFILE", ops] => id ++ " " ++ runCsvFile ops
  | [id, "NET", name, fixed, cap, as, bs] => id ++ " " ++ runNet name fixed cap as bs
  | [id, "HELPER", name, ps, streams] => id ++ " " ++ runHelper name ps streams
  | [id, "HELPERF", name, ps, streams] => id ++ " " ++ runHelperF name ps streams
  | [id, "RING", _typ, cap, ops] => id ++ " " ++ runRing cap ops
  | [id, "BST", _typ, ops] => id ++ " " ++ runBst ops false
  | [id, "BSTSHAPE", _typ, ops] => id ++ " " ++ runBst ops true
  | [id, "BSTF", ops] => id ++ " " ++ runBstF ops
  | id :: _ => id ++ " ERR bad-command"
  | [] => "? ERR empty"

partial def loop (h : IO.FS.Stream) (out : IO.FS.Stream) : IO Unit := do
  let line ← h.getLine
  if line.isEmpty then return ()
  out.putStrLn (handle line)
  loop h out

def main : IO Unit := do
  let stdin ← IO.getStdin
  let stdout ← IO.getStdout
  loop stdin stdout
