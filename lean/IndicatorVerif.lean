import IndicatorVerif.Model.Arith
import IndicatorVerif.Model.Ring
import IndicatorVerif.Model.Bst
import IndicatorVerif.Model.Stream
