import IndicatorVerif.Proofs.Bst
import IndicatorVerif.Model.Prims
/-
  The sliding search tree of MovingMax / MovingMin for ANY linearly ordered element type whose `Arith` comparisons are
  the order's (generic copy of the state invariant in Proofs/ExtremaReal.lean; instantiated at ℤ in Props/C01Int.lean).
-/
set_option linter.unusedSectionVars false
namespace SigG
open Sig Ind
variable {α : Type} [Arith α] [LinearOrder α] (hlaw : Bst.Lawful (Ind.cmpA : Cmp α))

/-- the window of `p` values ending at position `i` -/
def windowG (p : Nat) (f : Nat → α) (i : Nat) : List α := (List.range p).map (fun j => f (i + 1 - p + j))

/-- the last `min m p` values before position `m`, oldest first -/
def lastK (g : Nat → α) (p m : Nat) : List α := (List.range (min m p)).map (fun j => g (m - min m p + j))

theorem lastK_succ_small (g : Nat → α) (p m : Nat) (h : m < p) : lastK g p (m + 1) = lastK g p m ++ [g m] := by
  have e1 : min m p = m := by omega
  have e2 : min (m + 1) p = m + 1 := by omega
  simp only [lastK, e1, e2, Nat.sub_self, Nat.zero_add, List.range_succ, List.map_append, List.map_cons, List.map_nil]

theorem lastK_full (g : Nat → α) (p m : Nat) (hp : 1 ≤ p) (h : p ≤ m) :
    lastK g p m = g (m - p) :: (List.range (p - 1)).map (fun j => g (m - p + 1 + j)) := by
  have e1 : min m p = p := by omega
  obtain ⟨q, rfl⟩ : ∃ q, p = q + 1 := ⟨p - 1, by omega⟩
  simp only [lastK, e1, List.range_succ_eq_map, List.map_cons, List.map_map, Nat.add_zero, Nat.add_sub_cancel]
  congr 1
  apply List.map_congr_left; intro j _; simp only [Function.comp]; congr 1; omega

theorem lastK_succ_full (g : Nat → α) (p m : Nat) (hp : 1 ≤ p) (h : p ≤ m) :
    lastK g p (m + 1) = (List.range (p - 1)).map (fun j => g (m - p + 1 + j)) ++ [g m] := by
  have e1 : min (m + 1) p = p := by omega
  obtain ⟨q, rfl⟩ : ∃ q, p = q + 1 := ⟨p - 1, by omega⟩
  simp only [lastK, e1, List.range_succ, List.map_append, List.map_cons, List.map_nil, Nat.add_sub_cancel]
  congr 1
  · apply List.map_congr_left; intro j _; congr 1; omega
  · congr 2; omega

/-- a full window ending at position `m` -/
theorem lastK_window (g : Nat → α) (p m : Nat) (h : p ≤ m + 1) : lastK g p (m + 1) = windowG p g m := by
  have e1 : min (m + 1) p = p := by omega
  simp only [lastK, e1, windowG]

include hlaw in
/-- state of the sliding tree before consuming element `m`: ordered, holds exactly the last `min m p` values -/
theorem ext_state (pick : BTree α → α) (g : Nat → α) (p : Nat) (hp : 1 ≤ p) (m : Nat) :
    Bst.Ordered (scanSt2 (bstStep pick p) (.nil, 0) g (fun k => if k < p then zero else g (k - p)) m).1 ∧
    (scanSt2 (bstStep pick p) (.nil, 0) g (fun k => if k < p then zero else g (k - p)) m).1.toList.Perm (lastK g p m) ∧
    (scanSt2 (bstStep pick p) (.nil, 0) g (fun k => if k < p then zero else g (k - p)) m).2 = min m p := by
  induction m with
  | zero => simp [scanSt2, Bst.Ordered, BTree.toList, lastK]
  | succ m ih =>
    obtain ⟨ho, hperm, hcnt⟩ := ih
    simp only [scanSt2, bstStep]
    set st := scanSt2 (bstStep pick p) (.nil, 0) g (fun k => if k < p then zero else g (k - p)) m with hst
    have hio := Bst.insert_ordered cmpA hlaw (g m) st.1 ho
    have hip := Bst.insert_perm (cmpA : Cmp α) (g m) st.1
    by_cases hlt : m < p
    · have hc : st.2 < p := by rw [hcnt]; omega
      simp only [hc, if_true]
      refine ⟨hio, ?_, by omega⟩
      rw [lastK_succ_small g p m hlt]
      exact (hip.trans (List.Perm.cons _ hperm)).trans (List.perm_append_singleton _ _).symm
    · have hge : p ≤ m := by omega
      have hc : ¬ st.2 < p := by rw [hcnt]; omega
      simp only [hc, hlt, if_false]
      refine ⟨Bst.remove_ordered cmpA hlaw _ _ hio, ?_, by rw [hcnt]; omega⟩
      obtain ⟨_, hrp⟩ := Bst.remove_spec cmpA hlaw (g (m - p)) _ hio
      refine hrp.trans ?_
      have h1 : (Bst.insert cmpA (g m) st.1).toList.Perm (g (m - p) :: ((List.range (p - 1)).map (fun j => g (m - p + 1 + j)) ++ [g m])) := by
        refine hip.trans ?_
        rw [lastK_full g p m hp hge] at hperm
        refine (List.Perm.cons _ hperm).trans ?_
        refine (List.Perm.swap _ _ _).trans (List.Perm.cons _ ?_)
        exact (List.perm_append_singleton _ _).symm
      have := h1.erase (g (m - p))
      rw [List.erase_cons_head] at this
      rw [lastK_succ_full g p m hp hge]
      exact this


end SigG
