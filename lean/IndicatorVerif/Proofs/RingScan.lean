import IndicatorVerif.Proofs.ExtremaReal
import IndicatorVerif.Proofs.Ring
/-
  Wma and MovingStd: a ring fed by `Put` only holds the last `period` values; the weighted sum over the ring
  and the running-sum standard deviation are the window formulas.
-/
noncomputable section
namespace Sig
open Ind ArithReal PS

/-- a ring of capacity `p` that has only ever been written by `Put`: contents `l`, unwritten slots still zero -/
structure Fill (r : RingBuf ℝ) (p : Nat) (l : List ℝ) : Prop where
  inv : RingBuf.Inv r
  cap : r.buffer.length = p
  zero0 : r.zero = 0
  list : r.toList = l
  fresh : r.count < p → r.begin_ = 0 ∧ ∀ j, r.count ≤ j → r.buffer.getD j 0 = 0

theorem fill_new (p : Nat) (hp : 1 ≤ p) : Fill (RingBuf.new (0 : ℝ) p) p [] := by
  refine ⟨RingBuf.new_inv 0 p (by omega), by simp [RingBuf.new], rfl, RingBuf.new_toList 0 p, ?_⟩
  intro _
  refine ⟨rfl, fun j _ => ?_⟩
  simp only [RingBuf.new, List.getD_eq_getElem?_getD]
  by_cases hj : j < p
  · simp [List.getElem?_replicate, hj]
  · simp [List.getElem?_replicate, hj]

theorem fill_put (r : RingBuf ℝ) (p : Nat) (l : List ℝ) (x : ℝ) (h : Fill r p l) :
    Fill (r.put x).1 p ((if l.length = p then l.tail else l) ++ [x]) ∧
    (r.put x).2 = (if l.length = p then l.head?.getD 0 else 0) := by
  obtain ⟨hinv, hcap, hz, hlist, hfresh⟩ := h
  have hlen : l.length = r.count := by rw [← hlist, RingBuf.toList_length]
  obtain ⟨f1, f2, f3, f4⟩ := RingBuf.facts r hinv
  have hps := RingBuf.put_spec r x hinv
  have hcp := RingBuf.count_put r x hinv
  by_cases hf : r.isFull = true
  · have hk := f4.mp hf
    have hlp : l.length = p := by omega
    simp only [hlp, if_true]
    refine ⟨⟨hps.1, by simp [RingBuf.put, hcap], by simp [RingBuf.put, hz], ?_, ?_⟩, ?_⟩
    · rw [hps.2]; simp [hf, hlist]
    · intro hlt; simp only [hf, if_true] at hcp; omega
    · have := RingBuf.put_returns_oldest r x hinv hf
      rw [hlist] at this
      rw [← this]; rfl
  · have hnf : ¬ r.count = r.buffer.length := fun e => hf (f4.mpr e)
    have hlt : r.count < p := by omega
    have hlp : ¬ l.length = p := by omega
    obtain ⟨hb0, hfz⟩ := hfresh hlt
    have hend : r.end_ = r.count := by
      rw [f2, hb0]; simp only [Nat.zero_add]; rw [if_pos (by omega)]
    simp only [hlp, if_false]
    simp only [hf, Bool.false_eq_true, if_false] at hcp
    refine ⟨⟨hps.1, by simp [RingBuf.put, hcap], by simp [RingBuf.put, hz], ?_, ?_⟩, ?_⟩
    · rw [hps.2]; simp [hf, hlist]
    · intro hlt'
      refine ⟨by simp [RingBuf.put, hf, hb0], ?_⟩
      intro j hj
      simp only [RingBuf.put]
      rw [RingBuf.getD_set_ne _ _ _ _ _ (by omega)]
      exact hfz j (by omega)
    · simp only [RingBuf.put, hz, hend]
      exact hfz _ (le_refl _)

theorem lastK_length (g : Nat → ℝ) (p m : Nat) : (lastK g p m).length = min m p := by simp [lastK]

theorem lastK_step (g : Nat → ℝ) (p m : Nat) (hp : 1 ≤ p) :
    (if (lastK g p m).length = p then (lastK g p m).tail else lastK g p m) ++ [g m] = lastK g p (m + 1) := by
  rw [lastK_length]
  by_cases h : m < p
  · have : ¬ min m p = p := by omega
    simp only [this, if_false, lastK_succ_small g p m h]
  · have : min m p = p := by omega
    simp only [this, if_true, lastK_full g p m hp (by omega), List.tail_cons, lastK_succ_full g p m hp (by omega)]

theorem lastK_head (g : Nat → ℝ) (p m : Nat) (hp : 1 ≤ p) (h : p ≤ m) : (lastK g p m).head?.getD 0 = g (m - p) := by
  rw [lastK_full g p m hp h]; rfl

/-! ### Wma -/

theorem wma_state (g : Nat → ℝ) (p : Nat) (hp : 1 ≤ p) (m : Nat) :
    Fill (scanSt (wmaStep p) (RingBuf.new (Ind.zero : ℝ) p) g m) p (lastK g p m) := by
  induction m with
  | zero =>
    have : (Ind.zero : ℝ) = 0 := by simp [Ind.zero]
    rw [this]; simpa [scanSt, lastK] using fill_new p hp
  | succ m ih =>
    simp only [scanSt, wmaStep]
    have := (fill_put _ p _ (g m) ih).1
    rwa [lastK_step g p m hp] at this

theorem foldl_congr_mem {β γ : Type} (f f' : β → γ → β) (l : List γ) (a : β)
    (h : ∀ s i, i ∈ l → f s i = f' s i) : l.foldl f a = l.foldl f' a := by
  induction l generalizing a with
  | nil => rfl
  | cons x t ih =>
    simp only [List.foldl_cons]
    rw [h a x (by simp)]
    exact ih _ (fun s i hi => h s i (List.mem_cons_of_mem _ hi))

theorem fill_atIdx (r : RingBuf ℝ) (g : Nat → ℝ) (p m : Nat) (hm : p ≤ m + 1) (h : Fill r p (lastK g p (m + 1)))
    (k : Nat) (hk : k < p) : r.atIdx k = g (m + 1 - p + k) := by
  have hc : r.count = p := by
    have := congrArg List.length h.list
    rw [RingBuf.toList_length, lastK_length] at this; omega
  rw [RingBuf.atIdx_eq r k (by omega)]
  have : r.toList[k]'(by rw [RingBuf.toList_length]; omega) = (lastK g p (m + 1))[k]'(by rw [lastK_length]; omega) := by
    congr 1; exact h.list
  rw [this]
  have e1 : min (m + 1) p = p := by omega
  simp [lastK, e1]

theorem fill_isFull (r : RingBuf ℝ) (g : Nat → ℝ) (p m : Nat) (hm : p ≤ m + 1) (h : Fill r p (lastK g p (m + 1))) :
    r.isFull = true := by
  have hc : r.count = p := by
    have := congrArg List.length h.list
    rw [RingBuf.toList_length, lastK_length] at this; omega
  exact (RingBuf.isFull_iff r h.inv).mpr (by rw [hc, h.cap])

theorem Agree.wma {x : Nat → Nat → ℝ} {e : Sig ℝ} {P : PS ℝ} (p : Nat) (hp : 1 ≤ p) (h : Agree x e P) :
    Agree x (Ind.wma p e) (PS.wma p P) := by
  have hoff := h.offD
  constructor
  · simp [Ind.wma, off, h.1, PS.wma]
  · intro i hi
    simp only [PS.wma] at hi ⊢
    simp only [Ind.wma, den, hoff]
    have hg : (fun m => den x e (P.start + m)) = fun m => P.val (P.start + m) := by
      funext m; exact h.2 _ (by omega)
    rw [hg]
    set g := fun m => P.val (P.start + m) with hgd
    set m := i - P.start with hmd
    have hm : p ≤ m + 1 := by omega
    have hst := wma_state g p hp (m + 1)
    simp only [scanSt] at hst
    simp only [scanOut, wmaStep]
    have hfull := fill_isFull _ g p m hm hst
    simp only [wmaStep] at hst hfull
    simp only [hfull, Bool.not_true, Bool.false_eq_true, if_false, wmaSum]
    congr 1
    apply foldl_congr_mem
    intro s k hk
    have hk' := List.mem_range.mp hk
    have hi' : P.start + (p - 1) ≤ i := hi
    rw [fill_atIdx _ g p m hm hst k hk']
    simp only [hgd]
    have e : P.start + (m + 1 - p + k) = i + 1 - p + k := by omega
    rw [e]

/-! ### MovingStd -/

theorem std_state (g : Nat → ℝ) (p : Nat) (hp : 1 ≤ p) (m : Nat) :
    Fill (scanSt (stdStep p) (RingBuf.new (Ind.zero : ℝ) p, (Ind.zero : ℝ)) g m).1 p (lastK g p m) ∧
    (scanSt (stdStep p) (RingBuf.new (Ind.zero : ℝ) p, (Ind.zero : ℝ)) g m).2 = (lastK g p m).sum := by
  induction m with
  | zero =>
    have : (Ind.zero : ℝ) = 0 := by simp [Ind.zero]
    rw [this]
    exact ⟨by simpa [scanSt, lastK] using fill_new p hp, by simp [scanSt, lastK]⟩
  | succ m ih =>
    obtain ⟨hf, hs⟩ := ih
    simp only [scanSt, stdStep]
    obtain ⟨h1, h2⟩ := fill_put _ p _ (g m) hf
    rw [lastK_step g p m hp] at h1
    refine ⟨h1, ?_⟩
    simp only [sub_eq, add_eq]
    rw [h2, hs, ← lastK_step g p m hp, lastK_length]
    by_cases hlt : m < p
    · have : ¬ min m p = p := by omega
      simp [this]
    · have e : min m p = p := by omega
      simp only [e, if_true, lastK_full g p m hp (by omega), List.head?_cons, Option.getD_some, List.tail_cons,
        List.sum_cons, List.sum_append, List.sum_nil]
      ring

theorem foldl_add_eq_sum {γ : Type} (f : γ → ℝ) (l : List γ) (a : ℝ) :
    l.foldl (fun s i => s + f i) a = a + (l.map f).sum := by
  induction l generalizing a with
  | nil => simp
  | cons x t ih => simp only [List.foldl_cons, List.map_cons, List.sum_cons, ih]; ring

theorem Agree.movingStd {x : Nat → Nat → ℝ} {e : Sig ℝ} {P : PS ℝ} (p : Nat) (hp : 1 ≤ p) (h : Agree x e P) :
    Agree x (Ind.movingStd p e) (PS.mstd p P) := by
  have hoff := h.offD
  constructor
  · simp [Ind.movingStd, off, h.1, PS.mstd]
  · intro i hi
    simp only [PS.mstd] at hi ⊢
    simp only [Ind.movingStd, den, hoff]
    have hg : (fun m => den x e (P.start + m)) = fun m => P.val (P.start + m) := by
      funext m; exact h.2 _ (by omega)
    rw [hg]
    set g := fun m => P.val (P.start + m) with hgd
    set m := i - P.start with hmd
    have hm : p ≤ m + 1 := by omega
    obtain ⟨hst, hsum⟩ := std_state g p hp (m + 1)
    simp only [scanSt] at hst hsum
    simp only [scanOut, stdStep]
    have hfull := fill_isFull _ g p m hm hst
    simp only [stdStep] at hst hfull hsum
    simp only [hfull, if_true, stdOf, arith_sqrt, div_eq, sub_eq, add_eq, arith_sq]
    have hi' : P.start + (p - 1) ≤ i := hi
    have hw : lastK g p (m + 1) = PS.window p P.val i := by
      rw [lastK_window g p m hm, hgd, window_rebase P p i hi']
    have hat : ∀ k, k ∈ List.range p →
        ((scanSt (stdStep p) (RingBuf.new (Ind.zero : ℝ) p, (Ind.zero : ℝ)) g m).1.put (g m)).1.atIdx k = P.val (i + 1 - p + k) := by
      intro k hk
      rw [fill_atIdx _ g p m hm hst k (List.mem_range.mp hk)]
      simp only [hgd]
      congr 1; omega
    rw [hsum, hw, Sig.sumL_eq_sum, Sig.sumL_eq_sum]
    rw [foldl_congr_mem _ (fun s k => s + (P.val (i + 1 - p + k) - (PS.window p P.val i).sum / (Arith.nat p : ℝ)) *
        (P.val (i + 1 - p + k) - (PS.window p P.val i).sum / (Arith.nat p : ℝ))) _ _ (fun s k hk => by rw [hat k hk])]
    rw [foldl_add_eq_sum]
    have z0 : (Ind.zero : ℝ) = 0 := by simp [Ind.zero]
    rw [z0, zero_add]
    congr 2
    simp only [PS.window, List.map_map]
    rfl

end Sig

namespace Sig
open Ind ArithReal
/-- helper.Count(1, c): 1, 2, 3, … — one value per element of `c` -/
theorem Agree.countOne {x : Nat → Nat → ℝ} {e : Sig ℝ} {P : PS ℝ} (h : Agree x e P) :
    Agree x (Ind.count Ind.one e) ⟨P.start, fun i => ((i - P.start + 1 : ℕ) : ℝ)⟩ := by
  have hoff := h.offD
  constructor
  · simp [Ind.count, off, h.1]
  · intro i hi
    simp only [Ind.count, den, hoff, scanOut]
    have key : ∀ m, scanSt (fun (i : ℝ) (_ : ℝ) => (i + Ind.one, i)) Ind.one (fun m => den x e (P.start + m)) m = ((m + 1 : ℕ) : ℝ) := by
      intro m
      induction m with
      | zero => simp [scanSt, Ind.one]
      | succ m ih => simp only [scanSt, ih]; simp [Ind.one]
    rw [key]
end Sig

namespace Ind
theorem halfRound_pos (p : Nat) (hp : 1 ≤ p) : 1 ≤ halfRound p := by unfold halfRound; omega
theorem halfRound_le (p : Nat) (hp : 1 ≤ p) : halfRound p ≤ p := by unfold halfRound; omega
theorem roundSqrt_pos (p : Nat) (hp : 1 ≤ p) : 1 ≤ roundSqrt p := by
  unfold roundSqrt
  cases h : (List.range (p + 2)).find? (fun r => 4 * p < (2 * r + 1) * (2 * r + 1)) with
  | none =>
    have := List.find?_eq_none.mp h (p + 1) (List.mem_range.mpr (by omega))
    simp only [decide_eq_true_eq, not_lt] at this
    nlinarith
  | some r =>
    have hr := List.find?_some h
    simp only [decide_eq_true_eq] at hr
    simp only [Option.getD_some]
    by_contra h0
    have : r = 0 := by omega
    subst this; omega
end Ind
