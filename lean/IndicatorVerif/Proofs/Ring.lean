import IndicatorVerif.Model.Ring
/-
  Refinement of the ring buffer to a bounded FIFO (list, oldest first).  Core-only.
-/
namespace RingBuf
variable {α : Type}

/-- representation invariant -/
structure Inv (r : RingBuf α) : Prop where
  cap_pos : 0 < r.buffer.length
  begin_lt : r.begin_ < r.buffer.length
  end_lt : r.end_ < r.buffer.length
  empty_eq : r.empty = true → r.begin_ = r.end_

theorem mod2 {a c : Nat} (h : a < 2 * c) : a % c = if a < c then a else a - c := by
  by_cases hc : a < c
  · simp [hc, Nat.mod_eq_of_lt hc]
  · simp [hc]
    rw [Nat.mod_eq_sub_mod (by omega), Nat.mod_eq_of_lt (by omega)]

theorem new_inv (z : α) (n : Nat) (h : 0 < n) : Inv (RingBuf.new z n) := by
  constructor <;> simp [RingBuf.new, h]

theorem new_toList (z : α) (n : Nat) : (RingBuf.new z n).toList = [] := by
  simp [RingBuf.new, toList, count]

theorem count_le (r : RingBuf α) (h : Inv r) : r.count ≤ r.buffer.length := by
  unfold count
  split
  · omega
  · split
    · omega
    · have := h.begin_lt; have := h.end_lt
      rw [mod2 (by omega)]; split <;> omega

theorem toList_length (r : RingBuf α) : r.toList.length = r.count := by simp [toList]

/-- position of the i-th oldest element -/
def pos (r : RingBuf α) (i : Nat) : Nat := (r.begin_ + i) % r.buffer.length

theorem isFull_iff (r : RingBuf α) (h : Inv r) : r.isFull = true ↔ r.count = r.buffer.length := by
  have hb := h.begin_lt; have he := h.end_lt; have hc := h.cap_pos
  unfold isFull count
  by_cases hemp : r.empty = true
  · simp [hemp]; omega
  · simp only [Bool.not_eq_true] at hemp
    by_cases hbe : r.end_ = r.begin_
    · simp [hemp, hbe]
    · simp [hemp, hbe]
      rw [mod2 (by omega)]; split <;> omega

theorem isEmpty_iff (r : RingBuf α) (h : Inv r) : r.isEmpty = true ↔ r.toList = [] := by
  have hb := h.begin_lt; have he := h.end_lt; have hc := h.cap_pos
  unfold isEmpty
  rw [← List.length_eq_zero_iff, toList_length]
  unfold count
  by_cases hemp : r.empty = true
  · simp [hemp]
  · simp only [Bool.not_eq_true] at hemp
    by_cases hbe : r.end_ = r.begin_
    · simp only [hemp, hbe, Bool.false_eq_true, if_false, beq_self_eq_true, if_true]
      constructor
      · intro hh; cases hh
      · intro hh; omega
    · simp only [hemp, Bool.false_eq_true, if_false, beq_iff_eq, hbe, false_iff]
      rw [mod2 (by omega)]; split <;> omega

/-- the write position is `begin + count` (mod cap) -/
theorem end_eq (r : RingBuf α) (h : Inv r) : r.end_ = (r.begin_ + r.count) % r.buffer.length := by
  have hb := h.begin_lt; have he := h.end_lt; have hc := h.cap_pos
  unfold count
  by_cases hemp : r.empty = true
  · simp [hemp, Nat.mod_eq_of_lt hb]; exact (h.empty_eq hemp).symm
  · simp only [Bool.not_eq_true] at hemp
    by_cases hbe : r.end_ = r.begin_
    · simp [hemp, hbe, Nat.mod_eq_of_lt hb]
    · simp only [hemp, Bool.false_eq_true, if_false, beq_iff_eq, hbe]
      rw [mod2 (a := r.end_ + r.buffer.length - r.begin_) (by omega)]
      split
      · rw [mod2 (by omega)]; split <;> omega
      · rw [mod2 (by omega)]; split <;> omega

theorem atIdx_eq (r : RingBuf α) (i : Nat) (hi : i < r.count) : r.atIdx i = r.toList[i]'(by simpa [toList] using hi) := by
  simp [toList, atIdx]

/-- the facts about `count` that the operation proofs use (so that `count` stays folded) -/
theorem facts (r : RingBuf α) (h : Inv r) :
    r.count ≤ r.buffer.length ∧
    r.end_ = (if r.begin_ + r.count < r.buffer.length then r.begin_ + r.count
              else r.begin_ + r.count - r.buffer.length) ∧
    (r.empty = true ↔ r.count = 0) ∧ (r.isFull = true ↔ r.count = r.buffer.length) := by
  have hb := h.begin_lt; have hc := h.cap_pos
  have h1 := count_le r h
  refine ⟨h1, ?_, ?_, isFull_iff r h⟩
  · have := end_eq r h
    rw [mod2 (by omega)] at this; exact this
  · have := isEmpty_iff r h
    rw [← List.length_eq_zero_iff, toList_length] at this
    exact this

theorem count_of (b e c : Nat) (hb : b < c) (he : e < c) (k : Nat) (hk : 1 ≤ k) (hkc : k ≤ c)
    (hek : e = if b + k < c then b + k else b + k - c) :
    (if (e == b) = true then c else (e + c - b) % c) = k := by
  by_cases hbe : e = b
  · simp [hbe]; split at hek <;> omega
  · simp only [beq_iff_eq, hbe, if_false]
    rw [mod2 (by omega)]; split at hek <;> split <;> omega

theorem count_put (r : RingBuf α) (x : α) (h : Inv r) :
    (r.put x).1.count = if r.isFull then r.buffer.length else r.count + 1 := by
  have hb := h.begin_lt; have he := h.end_lt; have hc := h.cap_pos
  obtain ⟨f1, f2, f3, f4⟩ := facts r h
  generalize hk : r.count = k at *
  by_cases hf : r.isFull = true
  · have hkc := f4.mp hf
    simp only [hf, if_true]
    simp only [count, put, nextIndex, List.length_set, hf, if_true, Bool.false_eq_true, if_false]
    apply count_of _ _ _ (Nat.mod_lt _ hc) (Nat.mod_lt _ hc) _ hc (Nat.le_refl _)
    rw [mod2 (a := r.end_ + 1) (by omega), mod2 (a := r.begin_ + 1) (by omega)]
    split at f2 <;> split <;> split <;> split <;> omega
  · have hkc : k ≠ r.buffer.length := fun hh => hf (f4.mpr hh)
    simp only [hf, Bool.false_eq_true, if_false]
    simp only [count, put, nextIndex, List.length_set, hf, Bool.false_eq_true, if_false]
    apply count_of _ _ _ hb (Nat.mod_lt _ hc) _ (by omega) (by omega)
    rw [mod2 (a := r.end_ + 1) (by omega)]
    split at f2 <;> split <;> split <;> omega

theorem put_inv (r : RingBuf α) (x : α) (h : Inv r) : Inv (r.put x).1 := by
  have hb := h.begin_lt; have hc := h.cap_pos
  constructor
  · simp [put]; exact hc
  · simp only [put, nextIndex, List.length_set]
    split
    · exact Nat.mod_lt _ hc
    · exact hb
  · simp only [put, nextIndex, List.length_set]; exact Nat.mod_lt _ hc
  · simp [put]

theorem getD_set_ne (l : List α) (i j : Nat) (x z : α) (h : i ≠ j) : (l.set i x).getD j z = l.getD j z := by
  simp [List.getD, List.getElem?_set, h]

theorem getD_set_eq (l : List α) (i : Nat) (x z : α) (h : i < l.length) : (l.set i x).getD i z = x := by
  simp [List.getD, List.getElem?_set, h]

theorem atIdx_put (r : RingBuf α) (x : α) (h : Inv r) (i : Nat) (hi : i < (r.put x).1.count) :
    (r.put x).1.atIdx i =
      if i + 1 < (r.put x).1.count then r.atIdx (if r.isFull then i + 1 else i) else x := by
  have hb := h.begin_lt; have he := h.end_lt; have hc := h.cap_pos
  have hcp := count_put r x h
  obtain ⟨f1, f2, f3, f4⟩ := facts r h
  rw [hcp] at hi ⊢
  generalize hk : r.count = k at *
  by_cases hf : r.isFull = true
  · have hkc := f4.mp hf
    simp only [hf, if_true] at hi ⊢
    simp only [atIdx, put, nextIndex, List.length_set, hf, if_true]
    rw [mod2 (a := r.begin_ + 1) (by omega)]
    by_cases hlast : i + 1 < r.buffer.length
    · simp only [hlast, if_true]
      rw [getD_set_ne]
      · congr 1
        rw [mod2 (a := r.begin_ + (i + 1)) (by omega)]
        split <;> (rw [mod2 (by omega)]; split <;> split <;> omega)
      · split at f2 <;> split <;> (rw [mod2 (by omega)]; split <;> omega)
    · simp only [hlast, if_false]
      have : (if r.begin_ + 1 < r.buffer.length then r.begin_ + 1 else r.begin_ + 1 - r.buffer.length) + i
          = r.end_ + r.buffer.length ∨
          (if r.begin_ + 1 < r.buffer.length then r.begin_ + 1 else r.begin_ + 1 - r.buffer.length) + i
          = r.end_ := by
        split at f2 <;> split <;> omega
      rcases this with h1 | h1
      · rw [h1, Nat.add_mod_right, Nat.mod_eq_of_lt he, getD_set_eq _ _ _ _ he]
      · rw [h1, Nat.mod_eq_of_lt he, getD_set_eq _ _ _ _ he]
  · have hkc : k ≠ r.buffer.length := fun hh => hf (f4.mpr hh)
    simp only [hf, Bool.false_eq_true, if_false] at hi ⊢
    simp only [atIdx, put, List.length_set, hf, Bool.false_eq_true, if_false]
    by_cases hlast : i + 1 < k + 1
    · simp only [hlast, if_true]
      rw [getD_set_ne]
      rw [mod2 (by omega)]; split at f2 <;> split <;> omega
    · simp only [hlast, if_false]
      have hik : i = k := by omega
      subst hik
      have : (r.begin_ + i) % r.buffer.length = r.end_ := by
        rw [mod2 (by omega)]; split at f2 <;> split <;> omega
      rw [this, getD_set_eq _ _ _ _ he]

/-- **put**: FIFO push with overwrite of the oldest element when full. -/
theorem put_spec (r : RingBuf α) (x : α) (h : Inv r) :
    Inv (r.put x).1 ∧
    (r.put x).1.toList = (if r.isFull then r.toList.tail else r.toList) ++ [x] := by
  refine ⟨put_inv r x h, ?_⟩
  have hcp := count_put r x h
  have hfull := isFull_iff r h
  have hcnt := count_le r h
  have hc := h.cap_pos
  apply List.ext_getElem
  · by_cases hf : r.isFull = true
    · have := hfull.mp hf
      simp [hf, toList_length, hcp]; omega
    · simp [hf, toList_length, hcp]
  · intro i h1 h2
    have hi : i < (r.put x).1.count := by simpa [toList_length] using h1
    have hat := atIdx_put r x h i hi
    rw [← atIdx_eq _ _ hi, hat]
    by_cases hf : r.isFull = true
    · have hkc := hfull.mp hf
      simp only [hf, if_true] at hcp ⊢
      by_cases hlast : i + 1 < (r.put x).1.count
      · simp only [hlast, if_true]
        rw [List.getElem_append_left (by simp [toList_length]; omega)]
        simp only [List.getElem_tail]
        rw [atIdx_eq _ _ (by omega)]
      · simp only [hlast, if_false]
        rw [List.getElem_append_right (by simp [toList_length]; omega)]
        simp
    · simp only [hf, Bool.false_eq_true, if_false] at hcp ⊢
      by_cases hlast : i + 1 < (r.put x).1.count
      · simp only [hlast, if_true]
        rw [List.getElem_append_left (by simp [toList_length]; omega)]
        rw [atIdx_eq _ _ (by omega)]
      · simp only [hlast, if_false]
        rw [List.getElem_append_right (by simp [toList_length]; omega)]
        simp


/-- when full, `Put` returns the element it displaces (the oldest) -/
theorem put_returns_oldest (r : RingBuf α) (x : α) (h : Inv r) (hf : r.isFull = true) :
    some (r.put x).2 = r.toList.head? := by
  have hb := h.begin_lt
  obtain ⟨f1, f2, f3, f4⟩ := facts r h
  have hk := f4.mp hf
  have hpos : 0 < r.count := by have := h.cap_pos; omega
  have hend : r.end_ = r.begin_ := by unfold isFull at hf; simp at hf; exact hf.2
  have : r.toList.head? = some (r.atIdx 0) := by
    rw [atIdx_eq r 0 hpos, List.head?_eq_getElem?]
    simp [toList_length, hpos]
  rw [this]
  simp [put, atIdx, hend, Nat.mod_eq_of_lt hb]

theorem count_get (r : RingBuf α) (h : Inv r) (hne : r.empty = false) :
    (r.get).1.count = r.count - 1 ∧ Inv (r.get).1 := by
  have hb := h.begin_lt; have he := h.end_lt; have hc := h.cap_pos
  obtain ⟨f1, f2, f3, f4⟩ := facts r h
  have hk0 : r.count ≠ 0 := fun hh => by have := f3.mpr hh; simp [hne] at this
  generalize hk : r.count = k at *
  have inv' : Inv (r.get).1 := by
    constructor
    · simp [get, hne]; exact hc
    · simp only [get, hne, Bool.false_eq_true, if_false, nextIndex]; exact Nat.mod_lt _ hc
    · simp only [get, hne, Bool.false_eq_true, if_false]; exact he
    · simp only [get, hne, Bool.false_eq_true, if_false, beq_iff_eq]; exact id
  refine ⟨?_, inv'⟩
  simp only [count, get, hne, Bool.false_eq_true, if_false, nextIndex, beq_iff_eq]
  rw [mod2 (a := r.begin_ + 1) (by omega)]
  by_cases h1 : k = 1
  · have : (if r.begin_ + 1 < r.buffer.length then r.begin_ + 1 else r.begin_ + 1 - r.buffer.length) = r.end_ := by
      split at f2 <;> split <;> omega
    simp [this]; omega
  · have hne' : ¬ (if r.begin_ + 1 < r.buffer.length then r.begin_ + 1 else r.begin_ + 1 - r.buffer.length) = r.end_ := by
      split at f2 <;> split <;> omega
    simp only [hne', if_false]
    have hne2 : ¬ (r.end_ = if r.begin_ + 1 < r.buffer.length then r.begin_ + 1 else r.begin_ + 1 - r.buffer.length) :=
      fun hh => hne' hh.symm
    simp only [hne2, if_false]
    rw [mod2 (by split <;> omega)]
    split at f2 <;> split <;> split <;> omega

theorem atIdx_get (r : RingBuf α) (h : Inv r) (hne : r.empty = false) (i : Nat) (hi : i + 1 < r.count + 1) :
    (r.get).1.atIdx i = r.atIdx (i + 1) := by
  have hb := h.begin_lt; have hc := h.cap_pos
  obtain ⟨f1, _, _, _⟩ := facts r h
  simp only [atIdx, get, hne, Bool.false_eq_true, if_false, nextIndex]
  congr 1
  rw [mod2 (a := r.begin_ + 1) (by omega)]
  rw [mod2 (a := r.begin_ + (i + 1)) (by omega)]
  split <;> (rw [mod2 (by omega)]; split <;> split <;> omega)

/-- **get**: FIFO pop. -/
theorem get_spec (r : RingBuf α) (h : Inv r) :
    (r.toList = [] → r.get = (r, none)) ∧
    (∀ y ys, r.toList = y :: ys → (r.get).2 = some y ∧ (r.get).1.toList = ys ∧ Inv (r.get).1) := by
  obtain ⟨f1, f2, f3, f4⟩ := facts r h
  constructor
  · intro hnil
    have : r.count = 0 := by rw [← toList_length, hnil]; rfl
    have hemp := f3.mpr this
    simp [get, hemp]
  · intro y ys hl
    have hcnt : r.count = ys.length + 1 := by rw [← toList_length, hl]; rfl
    have hne : r.empty = false := by
      cases he : r.empty with
      | false => rfl
      | true => have := f3.mp he; omega
    obtain ⟨hc', inv'⟩ := count_get r h hne
    refine ⟨?_, ?_, inv'⟩
    · have h0 : r.atIdx 0 = y := by
        rw [atIdx_eq r 0 (by omega)]; simp [hl]
      simp only [get, hne, Bool.false_eq_true, if_false]
      rw [← h0]; simp [atIdx, Nat.mod_eq_of_lt h.begin_lt]
    · apply List.ext_getElem
      · rw [toList_length, hc', hcnt]; simp
      · intro i h1 h2
        have hi : i < (r.get).1.count := by simpa [toList_length] using h1
        rw [← atIdx_eq _ _ hi, atIdx_get r h hne i (by omega)]
        rw [atIdx_eq r (i + 1) (by omega)]
        simp [hl]

/-! ### all histories: refinement to the bounded FIFO -/

inductive Op (α : Type) where
  | put (x : α) | get | at (i : Nat) | isFull | isEmpty

inductive Out (α : Type) where
  | displaced (o : Option α)   -- `some oldest` when the ring was full, otherwise unspecified (`none`)
  | got (o : Option α)
  | value (o : Option α)       -- `At(i)` for `i <` number of stored elements, else unspecified
  | flag (b : Bool)
  deriving DecidableEq

/-- implementation step with the observation the specification constrains -/
def step (r : RingBuf α) : Op α → RingBuf α × Out α
  | .put x => let (r', o) := r.put x; (r', .displaced (if r.isFull then some o else none))
  | .get => let (r', o) := r.get; (r', .got o)
  | .at i => (r, .value (if i < r.count then some (r.atIdx i) else none))
  | .isFull => (r, .flag r.isFull)
  | .isEmpty => (r, .flag r.isEmpty)

/-- the bounded FIFO specification: contents oldest-first and a capacity -/
def specStep (cap : Nat) (l : List α) : Op α → List α × Out α
  | .put x => if l.length = cap then (l.tail ++ [x], .displaced l.head?) else (l ++ [x], .displaced none)
  | .get => (l.tail, .got l.head?)
  | .at i => (l, .value l[i]?)
  | .isFull => (l, .flag (l.length == cap))
  | .isEmpty => (l, .flag l.isEmpty)

def run (r : RingBuf α) : List (Op α) → List (Out α)
  | [] => []
  | op :: ops => let (r', o) := step r op; o :: run r' ops

def specRun (cap : Nat) (l : List α) : List (Op α) → List (Out α)
  | [] => []
  | op :: ops => let (l', o) := specStep cap l op; o :: specRun cap l' ops

theorem step_refines (r : RingBuf α) (h : Inv r) (op : Op α) :
    Inv (step r op).1 ∧ (step r op).1.buffer.length = r.buffer.length ∧
    (step r op).1.toList = (specStep r.buffer.length r.toList op).1 ∧
    (step r op).2 = (specStep r.buffer.length r.toList op).2 := by
  have hfull := isFull_iff r h
  have hemp := isEmpty_iff r h
  cases op with
  | put x =>
    obtain ⟨i1, i2⟩ := put_spec r x h
    by_cases hf : r.isFull = true
    · have hl : r.toList.length = r.buffer.length := by rw [toList_length]; exact hfull.mp hf
      refine ⟨i1, by simp [step, put], ?_, ?_⟩
      · simp [step, specStep, hl, i2, hf]
      · simp only [step, specStep, hl, hf, if_true]
        rw [put_returns_oldest r x h hf]
    · have hl : r.toList.length ≠ r.buffer.length := by
        rw [toList_length]; exact fun hh => hf (hfull.mpr hh)
      refine ⟨i1, by simp [step, put], ?_, ?_⟩
      · simp [step, specStep, hl, i2, hf]
      · simp [step, specStep, hl, hf]
  | get =>
    obtain ⟨g1, g2⟩ := get_spec r h
    cases hl : r.toList with
    | nil =>
      have := g1 hl
      refine ⟨by simp [step, this]; exact h, by simp [step, this], ?_, ?_⟩
      · simp [step, specStep, this, hl]
      · simp [step, specStep, this]
    | cons y ys =>
      obtain ⟨a, b, c⟩ := g2 y ys hl
      refine ⟨by simpa [step] using c, ?_, ?_, ?_⟩
      · simp only [step, get]; split <;> simp
      · simp [step, specStep, b]
      · simp [step, specStep, a]
  | «at» i =>
    refine ⟨h, rfl, rfl, ?_⟩
    simp only [step, specStep]
    by_cases hi : i < r.count
    · simp only [hi, if_true]
      rw [atIdx_eq r i hi]
      simp [toList_length, hi]
    · simp only [hi, if_false]
      have : r.toList.length ≤ i := by rw [toList_length]; omega
      simp [List.getElem?_eq_none this]
  | isFull =>
    refine ⟨h, rfl, rfl, ?_⟩
    simp only [step, specStep, toList_length]
    cases hf : r.isFull with
    | true => simp [hfull.mp hf]
    | false =>
      have : r.count ≠ r.buffer.length := fun hh => by have := hfull.mpr hh; simp [hf] at this
      simp [this]
  | isEmpty =>
    refine ⟨h, rfl, rfl, ?_⟩
    simp only [step, specStep]
    cases he : r.isEmpty with
    | true => simp [hemp.mp he]
    | false =>
      have : r.toList ≠ [] := fun hh => by have := hemp.mpr hh; simp [he] at this
      cases hl : r.toList with
      | nil => exact absurd hl this
      | cons _ _ => simp

/-- **Refinement, all histories**: from any state satisfying the invariant, every operation sequence
    yields exactly the observations of the bounded FIFO started from the ring's contents. -/
theorem run_refines (ops : List (Op α)) : ∀ (r : RingBuf α), Inv r →
    run r ops = specRun r.buffer.length r.toList ops := by
  induction ops with
  | nil => intro r _; rfl
  | cons op ops ih =>
    intro r h
    obtain ⟨i1, i2, i3, i4⟩ := step_refines r h op
    simp only [run, specRun]
    rw [ih _ i1, i2, i3, i4]

/-- … in particular from a new ring of any capacity ≥ 1. -/
theorem run_new_refines (z : α) (cap : Nat) (hc : 0 < cap) (ops : List (Op α)) :
    run (RingBuf.new z cap) ops = specRun cap [] ops := by
  rw [run_refines ops _ (new_inv z cap hc), new_toList]
  simp [RingBuf.new]

end RingBuf
