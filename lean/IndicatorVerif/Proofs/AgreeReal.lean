import IndicatorVerif.Proofs.ArithReal
import IndicatorVerif.Proofs.Agree
import IndicatorVerif.Model.Prims
/-
  `Agree` rules for the stateful primitives over ℝ: the running computations of the Go code equal
  the window / recurrence formulas of the specification.
-/
noncomputable section
namespace Sig
open Ind

/-- prefix sums of a positional stream -/
def T (g : Nat → ℝ) (m : Nat) : ℝ := ((List.range m).map g).sum

theorem T_succ (g : Nat → ℝ) (m : Nat) : T g (m + 1) = T g m + g m := by
  simp [T, List.range_succ]

theorem sumL_eq_sum (l : List ℝ) : PS.sumL l = l.sum := by
  unfold PS.sumL
  have : ∀ (acc : ℝ), List.foldl (fun a b => a + b) acc l = acc + l.sum := by
    induction l with
    | nil => intro acc; simp
    | cons x t ih => intro acc; simp [List.foldl, ih, add_assoc]
  simpa using this 0

theorem window_sum (g : Nat → ℝ) (a p : Nat) :
    ((List.range p).map (fun j => g (a + j))).sum = T g (a + p) - T g a := by
  induction p with
  | zero => simp
  | succ p ih =>
    rw [List.range_succ, List.map_append, List.sum_append, ih, ← Nat.add_assoc, T_succ]
    simp
    ring

/-- state of the running sum `sum = sum + c - b` after `m` steps -/
theorem running_state (g : Nat → ℝ) (p : Nat) (m : Nat) :
    scanSt2 (sumStep (α := ℝ)) 0 g (fun k => if k < p then 0 else g (k - p)) m = T g m - T g (m - p) := by
  induction m with
  | zero => simp [scanSt2, T]
  | succ m ih =>
    simp only [scanSt2, sumStep, ih]
    by_cases h : m < p
    · have e1 : m - p = 0 := by omega
      have e2 : m + 1 - p = 0 := by omega
      simp only [h, e1, e2, if_true, T_succ]
      simp [T]
    · have e2 : m + 1 - p = (m - p) + 1 := by omega
      simp [h, e2, T_succ]
      ring

theorem Agree.movingSum {x : Nat → Nat → ℝ} {e : Sig ℝ} {P : PS ℝ} (p : Nat) (hp : 1 ≤ p) (h : Agree x e P) :
    Agree x (Ind.movingSum p e) (PS.msum p P) := by
  have hoff := h.offD
  constructor
  · simp [Ind.movingSum, off, h.1, join2, PS.msum]
  · intro i hi
    simp only [PS.msum] at hi ⊢
    simp only [Ind.movingSum, den, hoff]
    have hg : (fun m => den x e (P.start + m)) = fun m => P.val (P.start + m) := by
      funext m; exact h.2 _ (by omega)
    have hh : (fun m => if P.start + m < P.start + p then (zero : ℝ) else den x e (P.start + m - p))
        = fun m => if m < p then 0 else P.val (P.start + (m - p)) := by
      funext m
      by_cases hm : m < p
      · have : P.start + m < P.start + p := by omega
        simp [hm, this, zero]
      · have : ¬ P.start + m < P.start + p := by omega
        simp only [hm, this, if_false]
        have e : P.start + m - p = P.start + (m - p) := by omega
        rw [e]; exact h.2 _ (by omega)
    rw [hg, hh]
    simp only [scanOut2, sumStep, zero]
    have := running_state (fun m => P.val (P.start + m)) p (i - P.start)
    simp only [zero, ArithReal.arith_nat, Nat.cast_zero] at this ⊢
    rw [this]
    -- window sum
    rw [sumL_eq_sum]
    have hw : PS.window p P.val i = (List.range p).map (fun j => P.val (P.start + ((i - P.start + 1 - p) + j))) := by
      simp only [PS.window]
      apply List.map_congr_left
      intro j _
      congr 1; omega
    have ws := window_sum (fun m => P.val (P.start + m)) (i - P.start + 1 - p) p
    rw [hw, ws]
    by_cases hlt : i - P.start < p
    · have e1 : i - P.start - p = 0 := by omega
      have e2 : i - P.start + 1 - p = 0 := by omega
      have e3 : 0 + p = i - P.start + 1 := by omega
      simp only [hlt, e1, e2, e3, if_true, T_succ]
      simp [T]
    · have e2 : i - P.start + 1 - p = (i - P.start - p) + 1 := by omega
      have e3 : i - P.start - p + 1 + p = i - P.start + 1 := by omega
      simp only [hlt, e2, e3, if_false, T_succ]
      ring

end Sig
