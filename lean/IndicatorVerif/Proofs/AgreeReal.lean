import IndicatorVerif.Proofs.ArithReal
import IndicatorVerif.Proofs.Agree
import IndicatorVerif.Model.Prims
/-
  `Agree` rules for the stateful primitives over ℝ: the running computations of the Go code equal
  the window / recurrence formulas of the specification.
-/
noncomputable section
namespace Sig
open Ind

/-- prefix sums of a positional stream -/
def T (g : Nat → ℝ) (m : Nat) : ℝ := ((List.range m).map g).sum

theorem T_succ (g : Nat → ℝ) (m : Nat) : T g (m + 1) = T g m + g m := by
  simp [T, List.range_succ]

theorem sumL_eq_sum (l : List ℝ) : PS.sumL l = l.sum := by
  unfold PS.sumL
  have : ∀ (acc : ℝ), List.foldl (fun a b => a + b) acc l = acc + l.sum := by
    induction l with
    | nil => intro acc; simp
    | cons x t ih => intro acc; simp [List.foldl, ih, add_assoc]
  simpa using this 0

theorem window_sum (g : Nat → ℝ) (a p : Nat) :
    ((List.range p).map (fun j => g (a + j))).sum = T g (a + p) - T g a := by
  induction p with
  | zero => simp
  | succ p ih =>
    rw [List.range_succ, List.map_append, List.sum_append, ih, ← Nat.add_assoc, T_succ]
    simp
    ring

/-- state of the running sum `sum = sum + c - b` after `m` steps -/
theorem running_state (g : Nat → ℝ) (p : Nat) (m : Nat) :
    scanSt2 (sumStep (α := ℝ)) 0 g (fun k => if k < p then 0 else g (k - p)) m = T g m - T g (m - p) := by
  induction m with
  | zero => simp [scanSt2, T]
  | succ m ih =>
    simp only [scanSt2, sumStep, ih]
    by_cases h : m < p
    · have e1 : m - p = 0 := by omega
      have e2 : m + 1 - p = 0 := by omega
      simp only [h, e1, e2, if_true, T_succ]
      simp [T]
    · have e2 : m + 1 - p = (m - p) + 1 := by omega
      simp [h, e2, T_succ]
      ring

theorem Agree.movingSum {x : Nat → Nat → ℝ} {e : Sig ℝ} {P : PS ℝ} (p : Nat) (hp : 1 ≤ p) (h : Agree x e P) :
    Agree x (Ind.movingSum p e) (PS.msum p P) := by
  have hoff := h.offD
  constructor
  · simp [Ind.movingSum, off, h.1, join2, PS.msum]
  · intro i hi
    simp only [PS.msum] at hi ⊢
    simp only [Ind.movingSum, den, hoff]
    have hg : (fun m => den x e (P.start + m)) = fun m => P.val (P.start + m) := by
      funext m; exact h.2 _ (by omega)
    have hh : (fun m => if P.start + m < P.start + p then (zero : ℝ) else den x e (P.start + m - p))
        = fun m => if m < p then 0 else P.val (P.start + (m - p)) := by
      funext m
      by_cases hm : m < p
      · have : P.start + m < P.start + p := by omega
        simp [hm, this, zero]
      · have : ¬ P.start + m < P.start + p := by omega
        simp only [hm, this, if_false]
        have e : P.start + m - p = P.start + (m - p) := by omega
        rw [e]; exact h.2 _ (by omega)
    rw [hg, hh]
    simp only [scanOut2, sumStep, zero]
    have := running_state (fun m => P.val (P.start + m)) p (i - P.start)
    simp only [zero, ArithReal.arith_nat, Nat.cast_zero] at this ⊢
    rw [this]
    -- window sum
    rw [sumL_eq_sum]
    have hw : PS.window p P.val i = (List.range p).map (fun j => P.val (P.start + ((i - P.start + 1 - p) + j))) := by
      simp only [PS.window]
      apply List.map_congr_left
      intro j _
      congr 1; omega
    have ws := window_sum (fun m => P.val (P.start + m)) (i - P.start + 1 - p) p
    rw [hw, ws]
    by_cases hlt : i - P.start < p
    · have e1 : i - P.start - p = 0 := by omega
      have e2 : i - P.start + 1 - p = 0 := by omega
      have e3 : 0 + p = i - P.start + 1 := by omega
      simp only [hlt, e1, e2, e3, if_true, T_succ]
      simp [T]
    · have e2 : i - P.start + 1 - p = (i - P.start - p) + 1 := by omega
      have e3 : i - P.start - p + 1 + p = i - P.start + 1 := by omega
      simp only [hlt, e2, e3, if_false, T_succ]
      ring


theorem Agree.sma {x : Nat → Nat → ℝ} {e : Sig ℝ} {P : PS ℝ} (p : Nat) (hp : 1 ≤ p) (h : Agree x e P) :
    Agree x (Ind.sma p e) (PS.sma p P) := by
  have hm := Agree.movingSum p hp h
  refine ⟨hm.1, ?_⟩
  intro i hi
  simp only [Ind.sma, den, PS.sma, PS.over, PS.map]
  rw [hm.2 i hi]

theorem recurFrom_eq_recG (upd : ℝ → ℝ → ℝ) (b : ℝ) (G : Nat → ℝ) (m : Nat) :
    recurFrom upd b G m = PS.recG b (fun prev k => upd prev (G k)) m := by
  induction m with
  | zero => rfl
  | succ m ih => simp [recurFrom, PS.recG, ih]

theorem smaSeed_eq (p : Nat) (l : List ℝ) : Ind.smaSeed p l = PS.sumL l / (p : ℝ) := by
  simp only [Ind.smaSeed, PS.sumL, Ind.zero]
  congr 1
  have : ∀ (acc : ℝ), List.foldl (fun s c => s + c - Arith.nat 0) acc l = List.foldl (fun a b => a + b) acc l := by
    induction l with
    | nil => intro acc; rfl
    | cons x t ih => intro acc; simp [List.foldl, ih]
  simpa using this _

/-- Ema / Rma / Smma: seed = mean of the first `p` values, then the recurrence -/
theorem Agree.recurAvg {x : Nat → Nat → ℝ} {e : Sig ℝ} {P : PS ℝ} (N p : Nat) (upd : ℝ → ℝ → ℝ) (hp : 1 ≤ p)
    (h : Agree x e P) : Agree x (recur p (Ind.smaSeed p) upd e) (PS.recAvg N p upd P) := by
  have hoff := h.offD
  have hp0 : p ≠ 0 := by omega
  constructor
  · simp [off, h.1, hp0, PS.recAvg]
  · intro i hi
    simp only [PS.recAvg] at hi ⊢
    simp only [den, hoff, recurAt, PS.tabVal_eq]
    rw [recurFrom_eq_recG]
    congr 1
    · -- seed
      rw [smaSeed_eq]
      simp only [ArithReal.div_eq, ArithReal.arith_nat]
      congr 2
      simp only [PS.window]
      apply List.map_congr_left
      intro j hj
      simp at hj
      have e1 : P.start + (p - 1) + 1 - p + j = P.start + j := by omega
      rw [e1]; exact h.2 _ (by omega)
    · funext prev k
      congr 1
      have e1 : P.start + (p - 1) + k + 1 = P.start + (p + k) := by omega
      rw [e1]; exact h.2 _ (by omega)

theorem Agree.ema {x : Nat → Nat → ℝ} {e : Sig ℝ} {P : PS ℝ} (N p : Nat) (sm : ℝ) (hp : 1 ≤ p) (h : Agree x e P) :
    Agree x (Ind.ema p sm e) (PS.ema N p sm P) := Agree.recurAvg N p _ hp h

theorem Agree.rma {x : Nat → Nat → ℝ} {e : Sig ℝ} {P : PS ℝ} (N p : Nat) (hp : 1 ≤ p) (h : Agree x e P) :
    Agree x (Ind.rma p e) (PS.rma N p P) := Agree.recurAvg N p _ hp h

theorem Agree.smma {x : Nat → Nat → ℝ} {e : Sig ℝ} {P : PS ℝ} (N p : Nat) (hp : 1 ≤ p) (h : Agree x e P) :
    Agree x (Ind.smma p e) (PS.smma N p P) := by
  have := Agree.recurAvg N p (fun before n => ((before * ((p : ℝ) - 1)) + n) / (p : ℝ)) hp h
  refine ⟨this.1, ?_⟩
  intro i hi
  have h2 := this.2 i hi
  simp only [Ind.smma, PS.smma, PS.rma] at h2 ⊢
  -- (nat p - one) = nat (p - 1) over ℝ for p ≥ 1
  have hcast : ((p - 1 : ℕ) : ℝ) = (p : ℝ) - 1 := by
    rw [Nat.cast_sub hp]; simp
  have hupd : (fun (before n : ℝ) => ((before * (Arith.nat p - Ind.one)) + n) / Arith.nat p)
      = fun before n => ((before * ((p : ℝ) - 1)) + n) / (p : ℝ) := by
    funext b n; simp [Ind.one]
  have hupd2 : (fun (prev v : ℝ) => ((prev * Arith.nat (p - 1)) + v) / Arith.nat p)
      = fun before n => ((before * ((p : ℝ) - 1)) + n) / (p : ℝ) := by
    funext b n; simp [hcast]
  rw [hupd, hupd2]
  exact h2

/-- helper.MapWithPrevious(c, previous + current, 0) = cumulative sum from the start position -/
theorem Agree.cumSum {x : Nat → Nat → ℝ} {e : Sig ℝ} {P : PS ℝ} (N : Nat) (h : Agree x e P) :
    Agree x (Ind.cumSum e) (PS.cumul N P.start (Arith.nat 0) (fun acc i => acc + P.val i)) := by
  have hoff := h.offD
  constructor
  · simp [Ind.cumSum, off, h.1, PS.cumul]
  · intro i hi
    simp only [PS.cumul] at hi ⊢
    simp only [Ind.cumSum, den, hoff, PS.tabVal_eq, scanOut]
    have key : ∀ m, (scanSt (fun (prev cur : ℝ) => (prev + cur, prev + cur)) Ind.zero
        (fun m => den x e (P.start + m)) (m + 1)) = PS.recG ((Arith.nat 0 : ℝ) + P.val P.start) (fun acc k => acc + P.val (P.start + k + 1)) m := by
      intro m
      induction m with
      | zero => simp [scanSt, PS.recG, Ind.zero, h.2 P.start (Nat.le_refl _)]
      | succ m ih =>
        rw [scanSt, ih]
        simp only [PS.recG]
        have := h.2 (P.start + (m + 1)) (by omega)
        simp [this, Nat.add_assoc]
    have := key (i - P.start)
    simp only [scanSt] at this
    exact this

end Sig
