import IndicatorVerif.Proofs.RangeReal
/-
  `Scaled c P Q`: the formula `Q` (the indicator evaluated on rescaled inputs) is `c` times the formula `P`
  (the indicator on the original inputs) at every position, with the same warm-up.  Structural rules over ℝ.
-/
noncomputable section
namespace PS
open ArithReal

structure Scaled (c : ℝ) (P Q : PS ℝ) : Prop where
  start_eq : Q.start = P.start
  val_eq : ∀ i, Q.val i = c * P.val i

namespace Scaled
variable {c c1 c2 : ℝ} {P Q P' Q' : PS ℝ}

theorem input (k : ℝ) (x : Nat → ℝ) : Scaled k (input x) (input (fun i => k * x i)) := ⟨rfl, fun _ => rfl⟩
theorem input_same (x : Nat → ℝ) : Scaled 1 (PS.input x) (PS.input x) := ⟨rfl, fun _ => by simp⟩

theorem add (h : Scaled c P Q) (h' : Scaled c P' Q') : Scaled c (P + P') (Q + Q') :=
  ⟨by show Nat.max _ _ = Nat.max _ _; rw [h.1, h'.1], fun i => by simp only [add_val, h.2, h'.2]; ring⟩
theorem sub (h : Scaled c P Q) (h' : Scaled c P' Q') : Scaled c (P - P') (Q - Q') :=
  ⟨by show Nat.max _ _ = Nat.max _ _; rw [h.1, h'.1], fun i => by simp only [sub_val, h.2, h'.2]; ring⟩
theorem mul (h : Scaled c1 P Q) (h' : Scaled c2 P' Q') : Scaled (c1 * c2) (P * P') (Q * Q') :=
  ⟨by show Nat.max _ _ = Nat.max _ _; rw [h.1, h'.1], fun i => by simp only [mul_val, h.2, h'.2]; ring⟩
theorem div (h : Scaled c1 P Q) (h' : Scaled c2 P' Q') : Scaled (c1 / c2) (P / P') (Q / Q') :=
  ⟨by show Nat.max _ _ = Nat.max _ _; rw [h.1, h'.1], fun i => by simp only [div_val, h.2, h'.2]; rw [mul_div_mul_comm]⟩
theorem scale (k : ℝ) (h : Scaled c P Q) : Scaled c (scale k P) (scale k Q) :=
  ⟨h.1, fun i => by simp only [scale_val, h.2]; ring⟩
theorem over (k : ℝ) (h : Scaled c P Q) : Scaled c (over k P) (over k Q) :=
  ⟨h.1, fun i => by simp only [over_val, h.2]; ring⟩
theorem prev (k : Nat) (h : Scaled c P Q) : Scaled c (prev k P) (prev k Q) :=
  ⟨by show Q.start + k = P.start + k; rw [h.1], fun i => by simp only [prev_val, h.2]⟩
theorem from_ (s : Nat) (h : Scaled c P Q) : Scaled c (from_ s P) (from_ s Q) :=
  ⟨by show Nat.max _ _ = Nat.max _ _; rw [h.1], fun i => by simp only [from_val, h.2]⟩
/-- a positively homogeneous pointwise function (abs, positive part, …) -/
theorem map (f : ℝ → ℝ) (c' : ℝ) (hf : ∀ v, f (c * v) = c' * f v) (h : Scaled c P Q) : Scaled c' (map f P) (map f Q) :=
  ⟨h.1, fun i => by simp only [map_val, h.2, hf]⟩
theorem cast (h : Scaled c P Q) (e : c = c1) : Scaled c1 P Q := e ▸ h

theorem window_scaled (h : Scaled c P Q) (p i : Nat) : window p Q.val i = (window p P.val i).map (fun v => c * v) := by
  simp only [window, List.map_map]; congr 1; funext j; simp [h.2]

theorem sum_map_mul (c : ℝ) (l : List ℝ) : (l.map (fun v => c * v)).sum = c * l.sum := by
  induction l with
  | nil => simp
  | cons x t ih => simp only [List.map_cons, List.sum_cons, ih]; ring

theorem msum (p : Nat) (h : Scaled c P Q) : Scaled c (msum p P) (msum p Q) :=
  ⟨by show Q.start + _ = P.start + _; rw [h.1], fun i => by
    simp only [msum_val, window_scaled h, Sig.sumL_eq_sum]; exact sum_map_mul c _⟩

theorem sma (p : Nat) (h : Scaled c P Q) : Scaled c (sma p P) (sma p Q) := over _ (msum p h)

theorem foldl_max_scaled (hc : 0 ≤ c) (l : List ℝ) (a : ℝ) :
    (l.map (fun v => c * v)).foldl Arith.max (c * a) = c * l.foldl Arith.max a := by
  induction l generalizing a with
  | nil => rfl
  | cons x t ih =>
    simp only [List.map_cons, List.foldl_cons, arith_max]
    rw [← mul_max_of_nonneg _ _ hc, ih]

theorem foldl_min_scaled (hc : 0 ≤ c) (l : List ℝ) (a : ℝ) :
    (l.map (fun v => c * v)).foldl Arith.min (c * a) = c * l.foldl Arith.min a := by
  induction l generalizing a with
  | nil => rfl
  | cons x t ih =>
    simp only [List.map_cons, List.foldl_cons, arith_min]
    rw [← mul_min_of_nonneg _ _ hc, ih]

theorem maxL_scaled (hc : 0 ≤ c) (l : List ℝ) : maxL (l.map (fun v => c * v)) = c * maxL l := by
  cases l with
  | nil => simp [maxL]
  | cons x t => simp only [List.map_cons, maxL]; exact foldl_max_scaled hc t x

theorem minL_scaled (hc : 0 ≤ c) (l : List ℝ) : minL (l.map (fun v => c * v)) = c * minL l := by
  cases l with
  | nil => simp [minL]
  | cons x t => simp only [List.map_cons, minL]; exact foldl_min_scaled hc t x

theorem mmax (p : Nat) (hc : 0 ≤ c) (h : Scaled c P Q) : Scaled c (mmax p P) (mmax p Q) :=
  ⟨by show Q.start + _ = P.start + _; rw [h.1], fun i => by simp only [mmax_val, window_scaled h, maxL_scaled hc]⟩
theorem mmin (p : Nat) (hc : 0 ≤ c) (h : Scaled c P Q) : Scaled c (mmin p P) (mmin p Q) :=
  ⟨by show Q.start + _ = P.start + _; rw [h.1], fun i => by simp only [mmin_val, window_scaled h, minL_scaled hc]⟩

theorem std_core (hc : 0 ≤ c) (w : List ℝ) (n : ℝ) :
    Real.sqrt (((w.map (fun v => c * v)).map (fun v => (v - (w.map (fun v => c * v)).sum / n) * (v - (w.map (fun v => c * v)).sum / n))).sum / n)
      = c * Real.sqrt ((w.map (fun v => (v - w.sum / n) * (v - w.sum / n))).sum / n) := by
  rw [sum_map_mul, List.map_map]
  have e : List.map ((fun v => (v - c * w.sum / n) * (v - c * w.sum / n)) ∘ fun v => c * v) w
      = List.map (fun v => (c * c) * ((v - w.sum / n) * (v - w.sum / n))) w := by
    apply List.map_congr_left; intro v _; simp only [Function.comp]; ring
  rw [e]
  have e2 : (List.map (fun v => (c * c) * ((v - w.sum / n) * (v - w.sum / n))) w)
      = (List.map (fun v => (v - w.sum / n) * (v - w.sum / n)) w).map (fun v => (c * c) * v) := by
    rw [List.map_map]; rfl
  rw [e2, sum_map_mul, mul_div_assoc, Real.sqrt_mul (mul_self_nonneg c), Real.sqrt_mul_self hc]

/-- standard deviation scales with the data (non-negative factor) -/
theorem mstd (p : Nat) (hc : 0 ≤ c) (h : Scaled c P Q) : Scaled c (mstd p P) (mstd p Q) :=
  ⟨by show Q.start + _ = P.start + _; rw [h.1], fun i => by
    simp only [PS.mstd, window_scaled h, arith_sqrt, Sig.sumL_eq_sum, div_eq, sub_eq, arith_sq]
    exact std_core hc _ _⟩

/-- seed-and-recurrence averages with a linear update (EMA, RMA, SMMA) -/
theorem recAvg (N p : Nat) (upd : ℝ → ℝ → ℝ) (hu : ∀ a b, upd (c * a) (c * b) = c * upd a b) (h : Scaled c P Q) :
    Scaled c (recAvg N p upd P) (recAvg N p upd Q) := by
  refine ⟨by show Q.start + _ = P.start + _; rw [h.1], fun i => ?_⟩
  simp only [PS.recAvg, tabVal_eq, h.1]
  have key : ∀ k, recG (sumL (window p Q.val (P.start + (p - 1))) / (Arith.nat p : ℝ)) (fun prev k => upd prev (Q.val (P.start + (p - 1) + k + 1))) k
      = c * recG (sumL (window p P.val (P.start + (p - 1))) / (Arith.nat p : ℝ)) (fun prev k => upd prev (P.val (P.start + (p - 1) + k + 1))) k := by
    intro k
    induction k with
    | zero =>
      simp only [recG, window_scaled h, Sig.sumL_eq_sum, div_eq]
      rw [sum_map_mul, mul_div_assoc]
    | succ k ih =>
      simp only [recG]
      rw [ih, h.2, hu]
  exact key _

theorem ema (N p : Nat) (sm : ℝ) (h : Scaled c P Q) : Scaled c (ema N p sm P) (ema N p sm Q) :=
  recAvg N p _ (fun a b => by simp only [sub_eq, mul_eq, add_eq, div_eq]; ring) h
theorem rma (N p : Nat) (h : Scaled c P Q) : Scaled c (rma N p P) (rma N p Q) :=
  recAvg N p _ (fun a b => by simp only [mul_eq, add_eq, div_eq]; ring) h
theorem smma (N p : Nat) (h : Scaled c P Q) : Scaled c (smma N p P) (smma N p Q) := rma N p h

end Scaled
end PS

noncomputable section
namespace PS
namespace Scaled
open ArithReal
variable {c c1 c2 : ℝ} {P Q P' Q' P'' Q'' : PS ℝ}

theorem add' (h : Scaled c1 P Q) (h' : Scaled c2 P' Q') (e : c2 = c1) : Scaled c1 (P + P') (Q + Q') := add h (e ▸ h')
theorem sub' (h : Scaled c1 P Q) (h' : Scaled c2 P' Q') (e : c2 = c1) : Scaled c1 (P - P') (Q - Q') := sub h (e ▸ h')
/-- adding a constant keeps a scale-free quantity scale-free -/
theorem plus_one (a : ℝ) (h : Scaled 1 P Q) : Scaled 1 (plus a P) (plus a Q) :=
  ⟨h.1, fun i => by simp only [plus_val, h.2]; ring⟩
/-- any pointwise function of a scale-free quantity is scale-free -/
theorem map_one (f : ℝ → ℝ) (h : Scaled 1 P Q) : Scaled 1 (PS.map f P) (PS.map f Q) :=
  ⟨h.1, fun i => by simp only [map_val, h.2, one_mul]⟩
theorem map_abs (hc : 0 ≤ c) (h : Scaled c P Q) : Scaled c (PS.map Arith.abs P) (PS.map Arith.abs Q) :=
  map _ c (fun v => by simp only [arith_abs, abs_mul, abs_of_nonneg hc]) h
theorem map2_hom (f : ℝ → ℝ → ℝ) (hf : ∀ a b, f (c * a) (c * b) = c * f a b) (h : Scaled c P Q) (h' : Scaled c P' Q') :
    Scaled c (map2 f P P') (map2 f Q Q') :=
  ⟨by show Nat.max _ _ = Nat.max _ _; rw [h.1, h'.1], fun i => by simp only [map2_val, h.2, h'.2, hf]⟩
theorem map3_hom (f : ℝ → ℝ → ℝ → ℝ) (hf : ∀ a b d, f (c * a) (c * b) (c * d) = c * f a b d)
    (h : Scaled c P Q) (h' : Scaled c P' Q') (h'' : Scaled c P'' Q'') : Scaled c (map3 f P P' P'') (map3 f Q Q' Q'') :=
  ⟨by show Nat.max (Nat.max _ _) _ = Nat.max (Nat.max _ _) _; rw [h.1, h'.1, h''.1],
   fun i => by show f _ _ _ = c * f _ _ _; rw [h.2, h'.2, h''.2, hf]⟩

theorem plus_one' (a : ℝ) (h : Scaled c P Q) (e : c = 1) : Scaled 1 (plus a P) (plus a Q) := plus_one a (e ▸ h)
theorem map_one' (f : ℝ → ℝ) (h : Scaled c P Q) (e : c = 1) : Scaled 1 (PS.map f P) (PS.map f Q) := map_one f (e ▸ h)
theorem input_one (x : Nat → ℝ) : Scaled 1 (PS.input x) (PS.input (fun i => 1 * x i)) := ⟨rfl, fun _ => rfl⟩
theorem map_sq (h : Scaled c P Q) : Scaled (c * c) (PS.map Arith.sq P) (PS.map Arith.sq Q) :=
  map _ (c * c) (fun v => by simp only [arith_sq]; ring) h
theorem ite (b : Prop) [Decidable b] (h1 : Scaled c P Q) (h2 : Scaled c P' Q') :
    Scaled c (if b then P else P') (if b then Q else Q') := by split <;> assumption

/-- weighted moving average: linear in the data -/
theorem wma (p : Nat) (h : Scaled c P Q) : Scaled c (PS.wma p P) (PS.wma p Q) := by
  refine ⟨by show Q.start + _ = P.start + _; rw [h.1], fun i => ?_⟩
  simp only [PS.wma, div_eq, mul_eq, add_eq]
  have key : ∀ (l : List Nat) (a : ℝ),
      l.foldl (fun s k => s + Q.val (i + 1 - p + k) * (Arith.nat (k + 1) : ℝ) / (Arith.nat p : ℝ)) (c * a)
        = c * l.foldl (fun s k => s + P.val (i + 1 - p + k) * (Arith.nat (k + 1) : ℝ) / (Arith.nat p : ℝ)) a := by
    intro l
    induction l with
    | nil => intro a; rfl
    | cons y t ih =>
      intro a
      simp only [List.foldl_cons]
      rw [← ih]; congr 1; rw [h.2]; ring
  have := key (List.range p) 0
  simp only [mul_zero] at this
  rw [show (Arith.nat 0 : ℝ) = 0 by simp, this]; ring

theorem hma (p : Nat) (h : Scaled c P Q) : Scaled c (Spec.hma p P) (Spec.hma p Q) :=
  wma _ (sub (scale _ (wma _ h)) (wma _ h))

theorem ma (N : Nat) (m : Spec.Ma) (h : Scaled c P Q) : Scaled c (Spec.ma N m P) (Spec.ma N m Q) := by
  cases m with
  | sma p => exact sma p h
  | ema p => exact ema N p _ h
  | smma p => exact smma N p h
  | wma p => exact wma p h
  | hma p => exact hma p h

/-- true range = max(high − low, high − previous close, previous close − low) scales with the prices -/
theorem trueRange (hc : 0 ≤ c) (h : Scaled c P Q) (h' : Scaled c P' Q') (h'' : Scaled c P'' Q'') :
    Scaled c (Spec.trueRange P P' P'') (Spec.trueRange Q Q' Q'') :=
  map3_hom _ (fun a b d => by
    simp only [arith_max, sub_eq]
    rw [← mul_sub, ← mul_sub, ← mul_sub, ← mul_max_of_nonneg _ _ hc, ← mul_max_of_nonneg _ _ hc]) h h' (prev 1 h'')

theorem atr (N : Nat) (m : Spec.Ma) (hc : 0 ≤ c) (h : Scaled c P Q) (h' : Scaled c P' Q') (h'' : Scaled c P'' Q'') :
    Scaled c (Spec.atr N m P P' P'') (Spec.atr N m Q Q' Q'') := ma N m (trueRange hc h h' h'')

end Scaled
end PS



noncomputable section
namespace PS
namespace Scaled
open ArithReal
variable {c : ℝ} {P Q : PS ℝ}

/-- a cumulative sum of a scaled stream is scaled (Ad, Vpt: `acc + value`, starting from zero) -/
theorem cumulSum (N s : Nat) (h : Scaled c P Q) :
    Scaled c (cumul N s Spec.zero (fun acc i => acc + P.val i)) (cumul N s Spec.zero (fun acc i => acc + Q.val i)) := by
  refine ⟨rfl, fun i => ?_⟩
  simp only [cumul, tabVal_eq]
  have z0 : (Spec.zero : ℝ) = 0 := by simp [Spec.zero]
  have key : ∀ k, recG (Spec.zero + Q.val s) (fun acc k => acc + Q.val (s + k + 1)) k
      = c * recG (Spec.zero + P.val s) (fun acc k => acc + P.val (s + k + 1)) k := by
    intro k
    induction k with
    | zero => simp only [recG, z0, h.2]; ring
    | succ k ih =>
      simp only [recG]
      rw [ih, h.2]; ring
  exact key _

end Scaled
end PS

noncomputable section
namespace PS
namespace Scaled
variable {c1 c2 : ℝ} {H H' L L' C C' V V' : PS ℝ}

theorem mfm (hh : Scaled c1 H H') (hl : Scaled c1 L L') (hc : Scaled c1 C C') :
    Scaled (c1 / c1) (Spec.mfm H L C) (Spec.mfm H' L' C') :=
  div (sub (sub hc hl) (sub hh hc)) (sub hh hl)

theorem mfv (hh : Scaled c1 H H') (hl : Scaled c1 L L') (hc : Scaled c1 C C') (hv : Scaled c2 V V') :
    Scaled (c1 / c1 * c2) (Spec.mfv H L C V) (Spec.mfv H' L' C' V') := mul (mfm hh hl hc) hv

/-- accumulation / distribution: a cumulative sum of money-flow volumes -/
theorem ad (N : Nat) (hh : Scaled c1 H H') (hl : Scaled c1 L L') (hc : Scaled c1 C C') (hv : Scaled c2 V V') :
    Scaled (c1 / c1 * c2) (Spec.ad N H L C V) (Spec.ad N H' L' C' V') := by
  have hm := mfv hh hl hc hv
  show Scaled _ (cumul N (Spec.mfv H L C V).start Spec.zero (fun acc i => acc + (Spec.mfv H L C V).val i))
    (cumul N (Spec.mfv H' L' C' V').start Spec.zero (fun acc i => acc + (Spec.mfv H' L' C' V').val i))
  rw [hm.start_eq]
  exact cumulSum N _ hm

end Scaled
end PS

/-- derive `Scaled ?c P Q` structurally; the factor is synthesised and compared with the expected one at the end -/
macro "scaled_core" : tactic => `(tactic|
  (repeat' (first
      | apply PS.Scaled.input
      | apply PS.Scaled.add'
      | apply PS.Scaled.sub'
      | apply PS.Scaled.mul
      | apply PS.Scaled.div
      | apply PS.Scaled.scale
      | apply PS.Scaled.over
      | apply PS.Scaled.prev
      | apply PS.Scaled.from_
      | apply PS.Scaled.msum
      | apply PS.Scaled.sma
      | apply PS.Scaled.mmax
      | apply PS.Scaled.mmin
      | apply PS.Scaled.mstd
      | apply PS.Scaled.ema
      | apply PS.Scaled.rma
      | apply PS.Scaled.smma
      | apply PS.Scaled.ad
      | apply PS.Scaled.cumulSum
      | apply PS.Scaled.map_abs
      | apply PS.Scaled.map_sq
      | apply PS.Scaled.ite
      | apply PS.Scaled.atr
      | apply PS.Scaled.trueRange
      | apply PS.Scaled.ma
      | apply PS.Scaled.wma
      | apply PS.Scaled.input_one
      | apply PS.Scaled.plus_one'
      | apply PS.Scaled.map_one')))
