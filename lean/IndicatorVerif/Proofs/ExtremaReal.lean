import IndicatorVerif.Proofs.AgreeReal
import IndicatorVerif.Proofs.RangeReal
import IndicatorVerif.Proofs.Bst
/-
  MovingMax / MovingMin: the sliding search tree of the Go code (insert the new value, remove the value that
  left the window once `period` values are in) yields the maximum / minimum of the window.
-/
noncomputable section
namespace Sig
open Ind ArithReal PS

theorem cmpA_lawful : Bst.Lawful (Ind.cmpA : Cmp ℝ) :=
  ⟨fun a b => by simp [Ind.cmpA], fun a b => by simp [Ind.cmpA], fun a b => by simp [Ind.cmpA]⟩

/-- the last `min m p` values before position `m`, oldest first -/
def lastK (g : Nat → ℝ) (p m : Nat) : List ℝ := (List.range (min m p)).map (fun j => g (m - min m p + j))

theorem lastK_succ_small (g : Nat → ℝ) (p m : Nat) (h : m < p) : lastK g p (m + 1) = lastK g p m ++ [g m] := by
  have e1 : min m p = m := by omega
  have e2 : min (m + 1) p = m + 1 := by omega
  simp only [lastK, e1, e2, Nat.sub_self, Nat.zero_add, List.range_succ, List.map_append, List.map_cons, List.map_nil]

theorem lastK_full (g : Nat → ℝ) (p m : Nat) (hp : 1 ≤ p) (h : p ≤ m) :
    lastK g p m = g (m - p) :: (List.range (p - 1)).map (fun j => g (m - p + 1 + j)) := by
  have e1 : min m p = p := by omega
  obtain ⟨q, rfl⟩ : ∃ q, p = q + 1 := ⟨p - 1, by omega⟩
  simp only [lastK, e1, List.range_succ_eq_map, List.map_cons, List.map_map, Nat.add_zero, Nat.add_sub_cancel]
  congr 1
  apply List.map_congr_left; intro j _; simp only [Function.comp]; congr 1; omega

theorem lastK_succ_full (g : Nat → ℝ) (p m : Nat) (hp : 1 ≤ p) (h : p ≤ m) :
    lastK g p (m + 1) = (List.range (p - 1)).map (fun j => g (m - p + 1 + j)) ++ [g m] := by
  have e1 : min (m + 1) p = p := by omega
  obtain ⟨q, rfl⟩ : ∃ q, p = q + 1 := ⟨p - 1, by omega⟩
  simp only [lastK, e1, List.range_succ, List.map_append, List.map_cons, List.map_nil, Nat.add_sub_cancel]
  congr 1
  · apply List.map_congr_left; intro j _; congr 1; omega
  · congr 2; omega

/-- a full window ending at position `m` -/
theorem lastK_window (g : Nat → ℝ) (p m : Nat) (h : p ≤ m + 1) : lastK g p (m + 1) = PS.window p g m := by
  have e1 : min (m + 1) p = p := by omega
  simp only [lastK, e1, PS.window]

/-- state of the sliding tree before consuming element `m`: ordered, holds exactly the last `min m p` values -/
theorem ext_state (pick : BTree ℝ → ℝ) (g : Nat → ℝ) (p : Nat) (hp : 1 ≤ p) (m : Nat) :
    Bst.Ordered (scanSt2 (bstStep pick p) (.nil, 0) g (fun k => if k < p then 0 else g (k - p)) m).1 ∧
    (scanSt2 (bstStep pick p) (.nil, 0) g (fun k => if k < p then 0 else g (k - p)) m).1.toList.Perm (lastK g p m) ∧
    (scanSt2 (bstStep pick p) (.nil, 0) g (fun k => if k < p then 0 else g (k - p)) m).2 = min m p := by
  induction m with
  | zero => simp [scanSt2, Bst.Ordered, BTree.toList, lastK]
  | succ m ih =>
    obtain ⟨ho, hperm, hcnt⟩ := ih
    simp only [scanSt2, bstStep]
    set st := scanSt2 (bstStep pick p) (.nil, 0) g (fun k => if k < p then 0 else g (k - p)) m with hst
    have hio := Bst.insert_ordered cmpA cmpA_lawful (g m) st.1 ho
    have hip := Bst.insert_perm (cmpA : Cmp ℝ) (g m) st.1
    by_cases hlt : m < p
    · have hc : st.2 < p := by rw [hcnt]; omega
      simp only [hc, if_true]
      refine ⟨hio, ?_, by omega⟩
      rw [lastK_succ_small g p m hlt]
      exact (hip.trans (List.Perm.cons _ hperm)).trans (List.perm_append_singleton _ _).symm
    · have hge : p ≤ m := by omega
      have hc : ¬ st.2 < p := by rw [hcnt]; omega
      simp only [hc, hlt, if_false]
      refine ⟨Bst.remove_ordered cmpA cmpA_lawful _ _ hio, ?_, by rw [hcnt]; omega⟩
      obtain ⟨_, hrp⟩ := Bst.remove_spec cmpA cmpA_lawful (g (m - p)) _ hio
      refine hrp.trans ?_
      have h1 : (Bst.insert cmpA (g m) st.1).toList.Perm (g (m - p) :: ((List.range (p - 1)).map (fun j => g (m - p + 1 + j)) ++ [g m])) := by
        refine hip.trans ?_
        rw [lastK_full g p m hp hge] at hperm
        refine (List.Perm.cons _ hperm).trans ?_
        refine (List.Perm.swap _ _ _).trans (List.Perm.cons _ ?_)
        exact (List.perm_append_singleton _ _).symm
      have := h1.erase (g (m - p))
      rw [List.erase_cons_head] at this
      rw [lastK_succ_full g p m hp hge]
      exact this

/-- in a sorted list every element is below the last one -/
theorem sorted_le_getLast (l : List ℝ) (hs : l.Pairwise (· ≤ ·)) (z : ℝ) (hz : l.getLast? = some z) : ∀ a ∈ l, a ≤ z := by
  induction l with
  | nil => simp at hz
  | cons x t ih =>
    intro a ha
    cases t with
    | nil => simp at hz ha; subst hz; subst ha; exact le_refl _
    | cons y u =>
      rw [List.getLast?_cons_cons] at hz
      rcases List.mem_cons.mp ha with rfl | ha
      · have hz' : z ∈ y :: u := List.mem_of_getLast? hz
        exact (List.pairwise_cons.mp hs).1 z hz'
      · exact ih (List.pairwise_cons.mp hs).2 hz a ha

theorem sorted_last_eq_maxL (l w : List ℝ) (hs : l.Pairwise (· ≤ ·)) (hp : l.Perm w) (hw : w ≠ []) :
    l.getLast?.getD 0 = PS.maxL w := by
  have hl : l ≠ [] := fun e => hw (by subst e; exact hp.symm.eq_nil)
  obtain ⟨z, hz⟩ : ∃ z, l.getLast? = some z := by
    cases h : l.getLast? with
    | none => exact absurd (List.getLast?_eq_none_iff.mp h) hl
    | some z => exact ⟨z, rfl⟩
  rw [hz, Option.getD_some]
  apply le_antisymm
  · exact PS.le_maxL w z (hp.mem_iff.mp (List.mem_of_getLast? hz))
  · exact sorted_le_getLast l hs z hz _ (hp.mem_iff.mpr (PS.maxL_mem w hw))

theorem sorted_head_eq_minL (l w : List ℝ) (hs : l.Pairwise (· ≤ ·)) (hp : l.Perm w) (hw : w ≠ []) :
    l.head?.getD 0 = PS.minL w := by
  have hl : l ≠ [] := fun e => hw (by subst e; exact hp.symm.eq_nil)
  cases l with
  | nil => exact absurd rfl hl
  | cons z t =>
    simp only [List.head?_cons, Option.getD_some]
    apply le_antisymm
    · have hm := hp.mem_iff.mpr (PS.minL_mem w hw)
      rcases List.mem_cons.mp hm with e | e
      · exact le_of_eq e.symm
      · exact (List.pairwise_cons.mp hs).1 _ e
    · exact PS.minL_le w z (hp.mem_iff.mp (by simp))

/-- output of the sliding tree at step `m ≥ p − 1`: the extremum of the window ending at `m` -/
theorem ext_out_max (g : Nat → ℝ) (p : Nat) (hp : 1 ≤ p) (m : Nat) (hm : p ≤ m + 1) :
    scanOut2 (bstStep (Bst.maxD (zero : ℝ)) p) (.nil, 0) g (fun k => if k < p then 0 else g (k - p)) m
      = PS.maxL (PS.window p g m) := by
  have hs := ext_state (Bst.maxD (zero : ℝ)) g p hp (m + 1)
  simp only [scanSt2] at hs
  obtain ⟨ho, hperm, _⟩ := hs
  simp only [scanOut2]
  have e : ∀ (s : BTree ℝ × Nat) (c b : ℝ), (bstStep (Bst.maxD (zero : ℝ)) p s c b).2 = Bst.maxD zero (bstStep (Bst.maxD (zero : ℝ)) p s c b).1.1 := by
    intro s c b; simp only [bstStep]
  rw [e]
  rw [lastK_window g p m hm] at hperm
  simp only [Bst.maxD, Bst.max?_eq_getLast]
  have := sorted_last_eq_maxL _ _ ((Bst.ordered_iff_sorted _).mp ho) hperm (PS.window_ne_nil p hp g m)
  simpa [zero] using this

theorem ext_out_min (g : Nat → ℝ) (p : Nat) (hp : 1 ≤ p) (m : Nat) (hm : p ≤ m + 1) :
    scanOut2 (bstStep (Bst.minD (zero : ℝ)) p) (.nil, 0) g (fun k => if k < p then 0 else g (k - p)) m
      = PS.minL (PS.window p g m) := by
  have hs := ext_state (Bst.minD (zero : ℝ)) g p hp (m + 1)
  simp only [scanSt2] at hs
  obtain ⟨ho, hperm, _⟩ := hs
  simp only [scanOut2]
  have e : ∀ (s : BTree ℝ × Nat) (c b : ℝ), (bstStep (Bst.minD (zero : ℝ)) p s c b).2 = Bst.minD zero (bstStep (Bst.minD (zero : ℝ)) p s c b).1.1 := by
    intro s c b; simp only [bstStep]
  rw [e]
  rw [lastK_window g p m hm] at hperm
  simp only [Bst.minD, Bst.min?_eq_head]
  have := sorted_head_eq_minL _ _ ((Bst.ordered_iff_sorted _).mp ho) hperm (PS.window_ne_nil p hp g m)
  simpa [zero] using this

/-- the delayed copy of the stream, re-based at the argument's start -/
theorem delayed_eq {x : Nat → Nat → ℝ} {e : Sig ℝ} {P : PS ℝ} (p : Nat) (h : Agree x e P) :
    (fun m => if P.start + m < P.start + p then (zero : ℝ) else den x e (P.start + m - p))
      = fun m => if m < p then 0 else P.val (P.start + (m - p)) := by
  funext m
  by_cases hm : m < p
  · have : P.start + m < P.start + p := by omega
    simp [hm, this, zero]
  · have : ¬ P.start + m < P.start + p := by omega
    simp only [hm, this, if_false]
    have e' : P.start + m - p = P.start + (m - p) := by omega
    rw [e']; exact h.2 _ (by omega)

theorem window_rebase (P : PS ℝ) (p i : Nat) (hi : P.start + (p - 1) ≤ i) :
    PS.window p (fun m => P.val (P.start + m)) (i - P.start) = PS.window p P.val i := by
  simp only [PS.window]
  apply List.map_congr_left
  intro j hj
  have := List.mem_range.mp hj
  congr 1; omega

theorem Agree.movingMax {x : Nat → Nat → ℝ} {e : Sig ℝ} {P : PS ℝ} (p : Nat) (hp : 1 ≤ p) (h : Agree x e P) :
    Agree x (Ind.movingMax p e) (PS.mmax p P) := by
  have hoff := h.offD
  constructor
  · simp [Ind.movingMax, off, h.1, join2, PS.mmax]
  · intro i hi
    simp only [PS.mmax] at hi ⊢
    simp only [Ind.movingMax, den, hoff]
    have hg : (fun m => den x e (P.start + m)) = fun m => P.val (P.start + m) := by
      funext m; exact h.2 _ (by omega)
    rw [hg, delayed_eq p h, ext_out_max _ p hp _ (by omega), window_rebase P p i hi]

theorem Agree.movingMin {x : Nat → Nat → ℝ} {e : Sig ℝ} {P : PS ℝ} (p : Nat) (hp : 1 ≤ p) (h : Agree x e P) :
    Agree x (Ind.movingMin p e) (PS.mmin p P) := by
  have hoff := h.offD
  constructor
  · simp [Ind.movingMin, off, h.1, join2, PS.mmin]
  · intro i hi
    simp only [PS.mmin] at hi ⊢
    simp only [Ind.movingMin, den, hoff]
    have hg : (fun m => den x e (P.start + m)) = fun m => P.val (P.start + m) := by
      funext m; exact h.2 _ (by omega)
    rw [hg, delayed_eq p h, ext_out_min _ p hp _ (by omega), window_rebase P p i hi]

end Sig
