import IndicatorVerif.Proofs.AgreeReal
import IndicatorVerif.Spec.Indicators
/-
  Order facts about the specification combinators over ℝ: windows, sums, extrema, averages.
-/
noncomputable section
namespace PS
open ArithReal

@[simp] theorem add_val (a b : PS ℝ) (i : Nat) : (a + b).val i = a.val i + b.val i := rfl
@[simp] theorem sub_val (a b : PS ℝ) (i : Nat) : (a - b).val i = a.val i - b.val i := rfl
@[simp] theorem mul_val (a b : PS ℝ) (i : Nat) : (a * b).val i = a.val i * b.val i := rfl
@[simp] theorem div_val (a b : PS ℝ) (i : Nat) : (a / b).val i = a.val i / b.val i := rfl
@[simp] theorem scale_val (k : ℝ) (a : PS ℝ) (i : Nat) : (scale k a).val i = a.val i * k := rfl
@[simp] theorem over_val (k : ℝ) (a : PS ℝ) (i : Nat) : (over k a).val i = a.val i / k := rfl
@[simp] theorem plus_val (k : ℝ) (a : PS ℝ) (i : Nat) : (plus k a).val i = a.val i + k := rfl
@[simp] theorem map_val (f : ℝ → ℝ) (a : PS ℝ) (i : Nat) : (map f a).val i = f (a.val i) := rfl
@[simp] theorem map2_val (f : ℝ → ℝ → ℝ) (a b : PS ℝ) (i : Nat) : (map2 f a b).val i = f (a.val i) (b.val i) := rfl
@[simp] theorem input_val (x : Nat → ℝ) (i : Nat) : (input x).val i = x i := rfl
@[simp] theorem input_fun (x : Nat → ℝ) : (input x).val = x := rfl
@[simp] theorem prev_val (k : Nat) (a : PS ℝ) (i : Nat) : (prev k a).val i = a.val (i - k) := rfl
@[simp] theorem from_val (s : Nat) (a : PS ℝ) (i : Nat) : (from_ s a).val i = a.val i := rfl
@[simp] theorem msum_val (p : Nat) (a : PS ℝ) (i : Nat) : (msum p a).val i = sumL (window p a.val i) := rfl
@[simp] theorem mmax_val (p : Nat) (a : PS ℝ) (i : Nat) : (mmax p a).val i = maxL (window p a.val i) := rfl
@[simp] theorem mmin_val (p : Nat) (a : PS ℝ) (i : Nat) : (mmin p a).val i = minL (window p a.val i) := rfl
theorem sma_val (p : Nat) (a : PS ℝ) (i : Nat) : (sma p a).val i = sumL (window p a.val i) / (p : ℝ) := by
  simp [sma]

theorem window_length (p : Nat) (f : Nat → ℝ) (i : Nat) : (window p f i).length = p := by simp [window]

theorem mem_window {p : Nat} {f : Nat → ℝ} {i : Nat} {v : ℝ} (h : v ∈ window p f i) :
    ∃ j, j < p ∧ v = f (i + 1 - p + j) := by
  simp only [window, List.mem_map, List.mem_range] at h
  obtain ⟨j, hj, rfl⟩ := h; exact ⟨j, hj, rfl⟩

/-- the current value is the last element of its window -/
theorem cur_mem_window (p : Nat) (hp : 1 ≤ p) (f : Nat → ℝ) (i : Nat) (hi : p - 1 ≤ i) : f i ∈ window p f i := by
  simp only [window, List.mem_map, List.mem_range]
  exact ⟨p - 1, by omega, by congr 1; omega⟩

theorem sumL_nonneg (l : List ℝ) (h : ∀ v ∈ l, 0 ≤ v) : 0 ≤ sumL l := by
  rw [Sig.sumL_eq_sum]; exact List.sum_nonneg h

theorem sumL_le_sumL (p : Nat) (f g : Nat → ℝ) (i : Nat) (h : ∀ j, j < p → f (i + 1 - p + j) ≤ g (i + 1 - p + j)) :
    sumL (window p f i) ≤ sumL (window p g i) := by
  rw [Sig.sumL_eq_sum, Sig.sumL_eq_sum]
  simp only [window]
  apply List.sum_le_sum
  intro j hj
  exact h j (List.mem_range.mp hj)

theorem foldl_max_ge (l : List ℝ) (a : ℝ) : a ≤ l.foldl Arith.max a ∧ ∀ v ∈ l, v ≤ l.foldl Arith.max a := by
  induction l generalizing a with
  | nil => simp
  | cons x t ih =>
    simp only [List.foldl_cons, arith_max]
    obtain ⟨h1, h2⟩ := ih (max a x)
    refine ⟨le_trans (le_max_left a x) h1, ?_⟩
    intro v hv
    rcases List.mem_cons.mp hv with rfl | hv
    · exact le_trans (le_max_right a v) h1
    · exact h2 v hv

theorem foldl_min_le (l : List ℝ) (a : ℝ) : l.foldl Arith.min a ≤ a ∧ ∀ v ∈ l, l.foldl Arith.min a ≤ v := by
  induction l generalizing a with
  | nil => simp
  | cons x t ih =>
    simp only [List.foldl_cons, arith_min]
    obtain ⟨h1, h2⟩ := ih (min a x)
    refine ⟨le_trans h1 (min_le_left a x), ?_⟩
    intro v hv
    rcases List.mem_cons.mp hv with rfl | hv
    · exact le_trans h1 (min_le_right a v)
    · exact h2 v hv

theorem le_maxL (l : List ℝ) (v : ℝ) (h : v ∈ l) : v ≤ maxL l := by
  cases l with
  | nil => simp at h
  | cons x t =>
    simp only [maxL]
    rcases List.mem_cons.mp h with rfl | h
    · exact (foldl_max_ge t v).1
    · exact (foldl_max_ge t x).2 v h

theorem minL_le (l : List ℝ) (v : ℝ) (h : v ∈ l) : minL l ≤ v := by
  cases l with
  | nil => simp at h
  | cons x t =>
    simp only [minL]
    rcases List.mem_cons.mp h with rfl | h
    · exact (foldl_min_le t v).1
    · exact (foldl_min_le t x).2 v h

/-- the maximum of a non-empty window is one of its elements -/
theorem maxL_mem (l : List ℝ) (h : l ≠ []) : maxL l ∈ l := by
  cases l with
  | nil => exact absurd rfl h
  | cons x t =>
    simp only [maxL]
    have : ∀ (t : List ℝ) (a : ℝ), t.foldl Arith.max a = a ∨ t.foldl Arith.max a ∈ t := by
      intro t
      induction t with
      | nil => intro a; simp
      | cons y u ih =>
        intro a
        simp only [List.foldl_cons, arith_max]
        rcases ih (max a y) with e | e
        · rcases max_choice a y with m | m
          · left; rw [e, m]
          · right; rw [e, m]; simp
        · right; exact List.mem_cons_of_mem _ e
    rcases this t x with e | e
    · rw [e]; simp
    · exact List.mem_cons_of_mem _ e

theorem minL_mem (l : List ℝ) (h : l ≠ []) : minL l ∈ l := by
  cases l with
  | nil => exact absurd rfl h
  | cons x t =>
    simp only [minL]
    have : ∀ (t : List ℝ) (a : ℝ), t.foldl Arith.min a = a ∨ t.foldl Arith.min a ∈ t := by
      intro t
      induction t with
      | nil => intro a; simp
      | cons y u ih =>
        intro a
        simp only [List.foldl_cons, arith_min]
        rcases ih (min a y) with e | e
        · rcases min_choice a y with m | m
          · left; rw [e, m]
          · right; rw [e, m]; simp
        · right; exact List.mem_cons_of_mem _ e
    rcases this t x with e | e
    · rw [e]; simp
    · exact List.mem_cons_of_mem _ e

theorem window_ne_nil (p : Nat) (hp : 1 ≤ p) (f : Nat → ℝ) (i : Nat) : window p f i ≠ [] := by
  intro h
  have := window_length p f i
  rw [h] at this; simp at this; omega

/-- a lower bound on every element is a lower bound on the extrema -/
theorem maxL_ge_of_all (l : List ℝ) (h : l ≠ []) (b : ℝ) (hb : ∀ v ∈ l, b ≤ v) : b ≤ maxL l := hb _ (maxL_mem l h)
theorem minL_ge_of_all (l : List ℝ) (h : l ≠ []) (b : ℝ) (hb : ∀ v ∈ l, b ≤ v) : b ≤ minL l := hb _ (minL_mem l h)
theorem maxL_le_of_all (l : List ℝ) (h : l ≠ []) (b : ℝ) (hb : ∀ v ∈ l, v ≤ b) : maxL l ≤ b := hb _ (maxL_mem l h)
theorem minL_le_maxL (l : List ℝ) (h : l ≠ []) : minL l ≤ maxL l := le_maxL l _ (minL_mem l h)

end PS
