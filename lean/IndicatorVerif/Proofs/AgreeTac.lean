import IndicatorVerif.Proofs.AgreeReal
import IndicatorVerif.Spec.Indicators
import IndicatorVerif.Model.Registry
/-
  Tactic support for the per-indicator formula theorems (C01).
-/
namespace PS
variable {α : Type} [Arith α]
@[simp] theorem add_def (a b : PS α) : a + b = map2 (· + ·) a b := rfl
@[simp] theorem sub_def (a b : PS α) : a - b = map2 (· - ·) a b := rfl
@[simp] theorem mul_def (a b : PS α) : a * b = map2 (· * ·) a b := rfl
@[simp] theorem div_def (a b : PS α) : a / b = map2 (· / ·) a b := rfl
end PS

namespace PS
variable {α : Type} [Arith α]
@[simp] theorem ema_start (N p : Nat) (k : α) (a : PS α) : (ema N p k a).start = a.start + (p - 1) := rfl
@[simp] theorem rma_start (N p : Nat) (a : PS α) : (rma N p a).start = a.start + (p - 1) := rfl
@[simp] theorem smma_start (N p : Nat) (a : PS α) : (smma N p a).start = a.start + (p - 1) := rfl
@[simp] theorem msum_start (p : Nat) (a : PS α) : (msum p a).start = a.start + (p - 1) := rfl
@[simp] theorem cumul_start (N s : Nat) (i : α) (f : α → Nat → α) : (cumul N s i f).start = s := rfl
end PS

theorem Nat.max_eq_max' (a b : Nat) : Nat.max a b = max a b := rfl

/-- unfold the arithmetic helpers and the indicator bodies, keeping the stateful primitives folded -/
macro "unfold_light" : tactic => `(tactic|
  simp only [Ind.add, Ind.sub, Ind.mul, Ind.div, Ind.mulBy, Ind.divBy, Ind.incBy, Ind.absS, Ind.pow2, Ind.powInv,
    Ind.sqrtS, Ind.keepPos, Ind.keepNeg, Ind.signS, Ind.round0, Ind.change, Ind.changeRatio,
    Ind.typicalPrice, Ind.maApply, Ind.maIdle, Ind.bop, Ind.cci, Ind.envelope, Ind.macd, Ind.massIndex, Ind.mls,
    Ind.mlsM, Ind.mlsB, Ind.mlr, Ind.tema, Ind.trix, Ind.vwma, Ind.weightedClose, Ind.mfm, Ind.mfv, Ind.ad, Ind.cmf,
    Ind.mfi, Ind.vpt, Ind.vwap, Ind.awesomeOscillator, Ind.chaikinOscillator, Ind.ppo, Ind.qstick, Ind.rsi,
    Ind.accelerationBands, Ind.trueRange, Ind.atr, Ind.atrIdle, Ind.keltnerChannel, Ind.trima, Ind.trimaPeriods,
    Ind.apo, Ind.dema, Ind.emv, Ind.fi, Ind.tsi,
    Ind.i0, Ind.i1, Ind.i2, Ind.i3, Ind.maOf, List.getD_cons_zero, List.getD_cons_succ, List.getD_nil])

/-- derive `Agree x e ?P` structurally (primitive rules first, so that `sma`, `ema` … stay folded) -/
syntax "agree_core " term : tactic
macro_rules
| `(tactic| agree_core $N) => `(tactic|
  (repeat' (first
      | apply Sig.Agree.movingSum
      | apply Sig.Agree.sma
      | apply Sig.Agree.ema $N
      | apply Sig.Agree.rma $N
      | apply Sig.Agree.smma $N
      | apply Sig.Agree.cumSum $N
      | apply Sig.Agree.input
      | apply Sig.Agree.map
      | apply Sig.Agree.skip
      | apply Sig.Agree.lag
      | apply Sig.Agree.zip
      | apply Sig.Agree.zip3)))

macro "ps_simp" : tactic => `(tactic|
  simp only [PS.over, PS.scale, PS.plus, PS.map, PS.map2, PS.map3, PS.input, PS.from_, PS.prev,
    PS.add_def, PS.sub_def, PS.mul_def, PS.div_def, Nat.zero_add, Nat.add_zero, Nat.max_eq_max', Nat.zero_max,
    Nat.max_zero, Nat.max_self, Spec.typicalPrice, Spec.mfm, Spec.mfv, Spec.ad, Spec.rsi, Spec.mlsM, Spec.mlsB, Spec.ma,
    Spec.maOf, Spec.atr, Spec.trueRange, PS.sma, PS.ema_start, PS.rma_start, PS.smma_start, PS.msum_start,
    PS.cumul_start])

/-- `Agree x model spec` for a model term whose definitions have been unfolded to primitives -/
syntax "agree_tac " term : tactic
macro_rules
| `(tactic| agree_tac $N) => `(tactic|
  (apply Sig.Agree.cast
   agree_core $N
   all_goals (try ps_simp)
   all_goals (first
     | omega
     | (intro i hi; trivial)
     | (intro i hi; rfl)
     | (intro i hi; simp; done)
     | (intro i hi; simp; ring)
     | (intro i hi; simp; field_simp; done)
     | (intro i hi; simp; field_simp; ring)
     | (intro i hi; congr 2; funext acc j; simp; done)
     | (intro i hi; congr 2; funext acc j; simp; ring)
     | (intro i hi; congr 2; funext acc j; ring))))
