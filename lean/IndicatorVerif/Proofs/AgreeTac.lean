import IndicatorVerif.Proofs.AgreeReal
import IndicatorVerif.Proofs.ExtremaReal
import IndicatorVerif.Proofs.RingScan
import IndicatorVerif.Spec.Indicators
import IndicatorVerif.Model.Registry
/-
  Tactic support for the per-indicator formula theorems (C01).
-/
namespace PS
variable {α : Type} [Arith α]
@[simp] theorem add_def (a b : PS α) : a + b = map2 (· + ·) a b := rfl
@[simp] theorem sub_def (a b : PS α) : a - b = map2 (· - ·) a b := rfl
@[simp] theorem mul_def (a b : PS α) : a * b = map2 (· * ·) a b := rfl
@[simp] theorem div_def (a b : PS α) : a / b = map2 (· / ·) a b := rfl
end PS

namespace PS
variable {α : Type} [Arith α]
@[simp] theorem ema_start (N p : Nat) (k : α) (a : PS α) : (ema N p k a).start = a.start + (p - 1) := rfl
@[simp] theorem rma_start (N p : Nat) (a : PS α) : (rma N p a).start = a.start + (p - 1) := rfl
@[simp] theorem smma_start (N p : Nat) (a : PS α) : (smma N p a).start = a.start + (p - 1) := rfl
@[simp] theorem msum_start (p : Nat) (a : PS α) : (msum p a).start = a.start + (p - 1) := rfl
@[simp] theorem wma_start (p : Nat) (a : PS α) : (wma p a).start = a.start + (p - 1) := rfl
@[simp] theorem mstd_start (p : Nat) (a : PS α) : (mstd p a).start = a.start + (p - 1) := rfl
@[simp] theorem mmax_start (p : Nat) (a : PS α) : (mmax p a).start = a.start + (p - 1) := rfl
@[simp] theorem mmin_start (p : Nat) (a : PS α) : (mmin p a).start = a.start + (p - 1) := rfl
@[simp] theorem cumul_start (N s : Nat) (i : α) (f : α → Nat → α) : (cumul N s i f).start = s := rfl
end PS

theorem Nat.max_eq_max' (a b : Nat) : Nat.max a b = max a b := rfl

/-- the moving average selected by a kind code (0 sma, 1 ema, 2/3 smma, 4 wma, else hma) -/
theorem Sig.Agree.maOf {x : Nat → Nat → ℝ} {e : Sig ℝ} {P : PS ℝ} (N k p : Nat) (hp : 1 ≤ p) (h : Sig.Agree x e P) :
    Sig.Agree x (Ind.maApply (Ind.maOf k p) e) (Spec.ma N (Spec.maOf k p) P) := by
  unfold Ind.maOf Spec.maOf
  split
  · exact Sig.Agree.sma p hp h
  · exact Sig.Agree.ema N p _ hp h
  · exact Sig.Agree.smma N p hp h
  · exact Sig.Agree.smma N p hp h
  · exact Sig.Agree.wma p hp h
  · simp only [Ind.maApply, Spec.ma, Ind.hma, Spec.hma, Ind.mulBy, Ind.sub]
    have hr := Ind.roundSqrt_pos p hp
    have hh := Ind.halfRound_pos p hp
    have hl := Ind.halfRound_le p hp
    have w1 := Sig.Agree.wma (Ind.halfRound p) hh h
    have w2 := Sig.Agree.wma p hp h
    have s1 := Sig.Agree.skip ((p - 1) - (Ind.halfRound p - 1)) w1
    have m1 := Sig.Agree.map (fun v => v * Ind.two) s1
    have z := Sig.Agree.zip (fun a b => a - b) m1 w2 (by simp [PS.wma, PS.map]; omega)
    have w3 := Sig.Agree.wma (Ind.roundSqrt p) hr z
    refine w3.cast ?_ ?_
    · simp [PS.wma, PS.map2, PS.map, PS.scale, Spec.halfRound, Ind.halfRound, Spec.roundSqrt, Ind.roundSqrt]; omega
    · intro i _; rfl

/-- unfold the arithmetic helpers and the indicator bodies, keeping the stateful primitives folded -/
macro "unfold_light" : tactic => `(tactic|
  simp only [Ind.add, Ind.sub, Ind.mul, Ind.div, Ind.mulBy, Ind.divBy, Ind.incBy, Ind.absS, Ind.pow2, Ind.powInv,
    Ind.sqrtS, Ind.keepPos, Ind.keepNeg, Ind.signS, Ind.round0, Ind.change, Ind.changeRatio,
    Ind.typicalPrice, Ind.maApply.eq_1, Ind.maApply.eq_2, Ind.maApply.eq_3, Ind.maApply.eq_4, Ind.maApply.eq_5,
    Ind.maApply.eq_6, Ind.maIdle, Ind.bop, Ind.cci, Ind.envelope, Ind.macd, Ind.massIndex, Ind.mls,
    Ind.mlsM, Ind.mlsB, Ind.mlr, Ind.tema, Ind.trix, Ind.vwma, Ind.weightedClose, Ind.mfm, Ind.mfv, Ind.ad, Ind.cmf,
    Ind.mfi, Ind.vpt, Ind.vwap, Ind.awesomeOscillator, Ind.chaikinOscillator, Ind.ppo, Ind.qstick, Ind.rsi,
    Ind.accelerationBands, Ind.trueRange, Ind.atr, Ind.atrIdle, Ind.keltnerChannel, Ind.keltnerChannelG, Ind.stochasticRsiG, Ind.trima, Ind.trimaPeriods,
    Ind.apo, Ind.dema, Ind.emv, Ind.fi, Ind.tsi, Ind.kdj, Ind.ichimokuCloud, Ind.stochasticOscillator, Ind.williamsR,
    Ind.donchianChannel, Ind.stochasticRsi, Ind.chandelierExit, Ind.hma, Ind.bollingerBands, Ind.bbUpper, Ind.bbLower,
    Ind.bollingerBandWidth, Ind.percentB, Ind.po,
    Ind.i0, Ind.i1, Ind.i2, Ind.i3, List.getD_cons_zero, List.getD_cons_succ, List.getD_nil])

/-- derive `Agree x e ?P` structurally (primitive rules first, so that `sma`, `ema` … stay folded) -/
syntax "agree_core " term : tactic
macro_rules
| `(tactic| agree_core $N) => `(tactic|
  (repeat' (first
      | apply Sig.Agree.maOf $N
      | apply Sig.Agree.movingSum
      | apply Sig.Agree.countOne
      | apply Sig.Agree.movingMax
      | apply Sig.Agree.wma
      | apply Sig.Agree.movingStd
      | apply Sig.Agree.movingMin
      | apply Sig.Agree.sma
      | apply Sig.Agree.ema $N
      | apply Sig.Agree.rma $N
      | apply Sig.Agree.smma $N
      | apply Sig.Agree.cumSum $N
      | apply Sig.Agree.input
      | apply Sig.Agree.map
      | apply Sig.Agree.skip
      | apply Sig.Agree.lag
      | apply Sig.Agree.zip
      | apply Sig.Agree.zip3)))

macro "ps_simp" : tactic => `(tactic|
  simp only [PS.over, PS.scale, PS.plus, PS.map, PS.map2, PS.map3, PS.input, PS.from_, PS.prev,
    PS.add_def, PS.sub_def, PS.mul_def, PS.div_def, Nat.zero_add, Nat.add_zero, Nat.max_eq_max', Nat.zero_max,
    Nat.max_zero, Nat.max_self, Spec.typicalPrice, Spec.mfm, Spec.mfv, Spec.ad, Spec.rsi, Spec.mlsM, Spec.mlsB, Spec.ma.eq_1, Spec.ma.eq_2, Spec.ma.eq_3, Spec.ma.eq_4, Spec.ma.eq_5,
    Spec.atr, Spec.trueRange, PS.sma, PS.ema_start, PS.rma_start, PS.smma_start, PS.msum_start, PS.mmax_start, PS.mmin_start, PS.wma_start, PS.mstd_start, Spec.hma, Spec.bbUpper, Spec.bbLower, Spec.bbMiddle,
    PS.cumul_start])

/-- `Agree x model spec` for a model term whose definitions have been unfolded to primitives -/
syntax "agree_tac " term : tactic
macro_rules
| `(tactic| agree_tac $N) => `(tactic|
  (apply Sig.Agree.cast
   agree_core $N
   all_goals (try ps_simp)
   all_goals (first
     | omega
     | (apply Ind.roundSqrt_pos; omega)
     | (split <;> omega)
     | (split <;> simp <;> omega)
     | (apply Ind.halfRound_pos; omega)
     | (have := Ind.halfRound_le _ (by assumption); have := Ind.halfRound_pos _ (by assumption); omega)
     | (have := Ind.halfRound_le _ (by assumption); have := Ind.halfRound_pos _ (by assumption);
        show Ind.halfRound _ - 1 + _ + (Ind.roundSqrt _ - 1) = max (Ind.halfRound _ - 1) _ + (Ind.roundSqrt _ - 1); omega)
     | (have h1 := Ind.halfRound_le _ (by assumption); have h2 := Ind.halfRound_pos _ (by assumption);
        have e1 : ∀ q, Spec.halfRound q = Ind.halfRound q := fun _ => rfl
        have e2 : ∀ q, Spec.roundSqrt q = Ind.roundSqrt q := fun _ => rfl
        simp only [e1, e2]; omega)
     | (intro i hi; trivial)
     | (intro i hi; rfl)
     | (intro i hi; congr 3; omega)
     | (intro i hi; congr 2; omega)
     | (intro i hi; congr 4; omega)
     | (intro i hi; simp; done)
     | (intro i hi; simp; ring)
     | (intro i hi; simp; field_simp; done)
     | (intro i hi; simp; field_simp; ring)
     | (intro i hi; congr 2; funext acc j; simp; done)
     | (intro i hi; congr 2; funext acc j; simp; ring)
     | (intro i hi; congr 2; funext acc j; ring))))
