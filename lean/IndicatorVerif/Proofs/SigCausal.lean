import IndicatorVerif.Proofs.SigSound
/-
  Causality of the positional semantics: the value for position `i` depends only on input
  positions `≤ i`.  Core-only proofs.
-/
namespace Sig
variable {α : Type}

theorem scanSt_congr {σ : Type} (step : σ → α → σ × α) (s0 : σ) (g g' : Nat → α) (m : Nat)
    (H : ∀ k, k < m → g k = g' k) : scanSt step s0 g m = scanSt step s0 g' m := by
  induction m with
  | zero => rfl
  | succ m ih =>
    simp only [scanSt]
    rw [ih (fun k hk => H k (by omega)), H m (by omega)]

theorem scanOut_congr {σ : Type} (step : σ → α → σ × α) (s0 : σ) (g g' : Nat → α) (m : Nat)
    (H : ∀ k, k ≤ m → g k = g' k) : scanOut step s0 g m = scanOut step s0 g' m := by
  simp only [scanOut]
  rw [scanSt_congr step s0 g g' m (fun k hk => H k (by omega)), H m (by omega)]

theorem scanSt2_congr {σ : Type} (step : σ → α → α → σ × α) (s0 : σ) (g g' h h' : Nat → α) (m : Nat)
    (H : ∀ k, k < m → g k = g' k ∧ h k = h' k) : scanSt2 step s0 g h m = scanSt2 step s0 g' h' m := by
  induction m with
  | zero => rfl
  | succ m ih =>
    simp only [scanSt2]
    rw [ih (fun k hk => H k (by omega)), (H m (by omega)).1, (H m (by omega)).2]

theorem scanOut2_congr {σ : Type} (step : σ → α → α → σ × α) (s0 : σ) (g g' h h' : Nat → α) (m : Nat)
    (H : ∀ k, k ≤ m → g k = g' k ∧ h k = h' k) : scanOut2 step s0 g h m = scanOut2 step s0 g' h' m := by
  simp only [scanOut2]
  rw [scanSt2_congr step s0 g g' h h' m (fun k hk => H k (by omega)), (H m (by omega)).1, (H m (by omega)).2]

theorem scanSt3_congr {σ : Type} (step : σ → α → α → α → σ × α) (s0 : σ) (g g' h h' k k' : Nat → α) (m : Nat)
    (H : ∀ j, j < m → g j = g' j ∧ h j = h' j ∧ k j = k' j) :
    scanSt3 step s0 g h k m = scanSt3 step s0 g' h' k' m := by
  induction m with
  | zero => rfl
  | succ m ih =>
    simp only [scanSt3]
    rw [ih (fun j hj => H j (by omega)), (H m (by omega)).1, (H m (by omega)).2.1, (H m (by omega)).2.2]

theorem scanOut3_congr {σ : Type} (step : σ → α → α → α → σ × α) (s0 : σ) (g g' h h' k k' : Nat → α) (m : Nat)
    (H : ∀ j, j ≤ m → g j = g' j ∧ h j = h' j ∧ k j = k' j) :
    scanOut3 step s0 g h k m = scanOut3 step s0 g' h' k' m := by
  simp only [scanOut3]
  rw [scanSt3_congr step s0 g g' h h' k k' m (fun j hj => H j (by omega)),
    (H m (by omega)).1, (H m (by omega)).2.1, (H m (by omega)).2.2]

theorem recurFrom_congr (upd : α → α → α) (b : α) (g g' : Nat → α) (m : Nat)
    (H : ∀ k, k < m → g k = g' k) : recurFrom upd b g m = recurFrom upd b g' m := by
  induction m with
  | zero => rfl
  | succ m ih =>
    simp only [recurFrom]
    rw [ih (fun k hk => H k (by omega)), H m (by omega)]

theorem recurAt_congr (p : Nat) (seed : List α → α) (upd : α → α → α) (g g' : Nat → α) (m : Nat)
    (H : ∀ k, k < p + m → g k = g' k) : recurAt p seed upd g m = recurAt p seed upd g' m := by
  simp only [recurAt]
  have hs : (List.range p).map g = (List.range p).map g' := by
    apply List.map_congr_left
    intro k hk
    simp at hk
    exact H k (by omega)
  rw [hs]
  exact recurFrom_congr upd _ _ _ m (fun k hk => H (p + k) (by omega))

/-- **Causality**: two input families that agree up to position `i` give the same value at `i`. -/
theorem den_causal (x y : Nat → Nat → α) (e : Sig α) :
    ∀ w i, off e = some w → w ≤ i → (∀ j m, m ≤ i → x j m = y j m) → den x e i = den y e i := by
  induction e with
  | input j => intro w i _ _ H; exact H j i (Nat.le_refl i)
  | map f e ih =>
    intro w i h hw H
    simp only [off] at h
    simp only [den, ih w i h hw H]
  | zip f a b iha ihb =>
    intro w i h hw H
    simp only [off] at h
    obtain ⟨h1, h2⟩ := join2_some h
    simp only [den, iha w i h1 hw H, ihb w i h2 hw H]
  | zip3 f a b c iha ihb ihc =>
    intro w i h hw H
    simp only [off] at h
    obtain ⟨h12, h3⟩ := join2_some h
    obtain ⟨h1, h2⟩ := join2_some h12
    simp only [den, iha w i h1 hw H, ihb w i h2 hw H, ihc w i h3 hw H]
  | skip k e ih =>
    intro w i h hw H
    simp only [off] at h
    cases he : off e with
    | none => simp [he] at h
    | some w0 =>
      simp [he] at h; subst h
      simp only [den, ih w0 i he (by omega) H]
  | shift k fill e ih =>
    intro w i h hw H
    simp only [off] at h
    cases he : off e with
    | none => simp [he] at h
    | some w0 =>
      simp [he] at h
      simp only [den, offD, he, Option.getD_some]
      by_cases hi : i < w0
      · simp [hi]
      · simp only [hi, if_false]; exact ih w0 i he (by omega) H
  | delay k fill e ih =>
    intro w i h hw H
    simp only [off] at h
    simp only [den, offD, h, Option.getD_some]
    by_cases hi : i < w + k
    · simp [hi]
    · simp only [hi, if_false]
      exact ih w (i - k) h (by omega) (fun j m hm => H j m (by omega))
  | lag k e ih =>
    intro w i h hw H
    simp only [off] at h
    cases he : off e with
    | none => simp [he] at h
    | some w0 =>
      simp [he] at h; subst h
      simp only [den]
      exact ih w0 (i - k) he (by omega) (fun j m hm => H j m (by omega))
  | scan σ s0 step e ih =>
    intro w i h hw H
    simp only [off] at h
    simp only [den, offD, h, Option.getD_some]
    apply scanOut_congr
    intro k hk
    exact ih w (w + k) h (by omega) (fun j m hm => H j m (by omega))
  | scan2 σ s0 step a b iha ihb =>
    intro w i h hw H
    simp only [off] at h
    obtain ⟨h1, h2⟩ := join2_some h
    simp only [den, offD, h1, Option.getD_some]
    apply scanOut2_congr
    intro k hk
    exact ⟨iha w (w + k) h1 (by omega) (fun j m hm => H j m (by omega)),
           ihb w (w + k) h2 (by omega) (fun j m hm => H j m (by omega))⟩
  | scan3 σ s0 step a b c iha ihb ihc =>
    intro w i h hw H
    simp only [off] at h
    obtain ⟨h12, h3⟩ := join2_some h
    obtain ⟨h1, h2⟩ := join2_some h12
    simp only [den, offD, h1, Option.getD_some]
    apply scanOut3_congr
    intro k hk
    exact ⟨iha w (w + k) h1 (by omega) (fun j m hm => H j m (by omega)),
           ihb w (w + k) h2 (by omega) (fun j m hm => H j m (by omega)),
           ihc w (w + k) h3 (by omega) (fun j m hm => H j m (by omega))⟩
  | recur p seed upd e ih =>
    intro w i h hw H
    simp only [off] at h
    by_cases hp : p = 0
    · simp [hp] at h
    · cases he : off e with
      | none => simp [he, hp] at h
      | some w0 =>
        simp [he, hp] at h; subst h
        simp only [den, offD, he, Option.getD_some]
        apply recurAt_congr
        intro k hk
        exact ih w0 (w0 + k) he (by omega) (fun j m hm => H j m (by omega))

/-- inputs cut to a prefix -/
def cutEnv (x : Nat → Nat → α) (A n : Nat) := envOf x A n

/-- **Prefix law** (C04 on lists): running a well-aligned term on the first `m` inputs gives the
    first `m - w` outputs of the run on all `n` inputs. -/
theorem evalL_prefix (x : Nat → Nat → α) (A n m : Nat) (e : Sig α) (w : Nat)
    (h : off e = some w) (hm : need e ≤ m) (hmn : m ≤ n) (ha : arity e ≤ A) :
    evalL (envOf x A m) e = (evalL (envOf x A n) e).take (m - w) := by
  rw [sound x A m e w h hm ha, sound x A n e w h (by omega) ha]
  apply List.ext_getElem
  · simp [toList_length]; omega
  · intro i h1 h2
    simp [toList]

/-- **No look-ahead** (C04): changing inputs after position `i` does not change output `i - w`. -/
theorem evalL_future_irrelevant (x y : Nat → Nat → α) (A n : Nat) (e : Sig α) (w i : Nat)
    (h : off e = some w) (hn : need e ≤ n) (ha : arity e ≤ A) (hw : w ≤ i) (hi : i < n)
    (H : ∀ j m, m ≤ i → x j m = y j m) :
    (evalL (envOf x A n) e)[i - w]? = (evalL (envOf y A n) e)[i - w]? := by
  rw [sound x A n e w h hn ha, sound y A n e w h hn ha]
  simp only [toList]
  have : i - w < n - w := by omega
  simp [this]
  have e1 : w + (i - w) = i := by omega
  rw [e1]
  exact den_causal x y e w i h hw H

/-- **Warm-up contract** (C02): exactly `n - w` values. -/
theorem evalL_length (x : Nat → Nat → α) (A n : Nat) (e : Sig α) (w : Nat)
    (h : off e = some w) (hn : need e ≤ n) (ha : arity e ≤ A) :
    (evalL (envOf x A n) e).length = n - w := by
  rw [sound x A n e w h hn ha, toList_length]

/-- … and the k-th value is the one computed for input position `k + w`. -/
theorem evalL_kth (x : Nat → Nat → α) (A n : Nat) (e : Sig α) (w k : Nat)
    (h : off e = some w) (hn : need e ≤ n) (ha : arity e ≤ A) (hk : k < n - w) :
    (evalL (envOf x A n) e)[k]? = some (den x e (w + k)) := by
  rw [sound x A n e w h hn ha]
  simp [toList, hk]

end Sig
