import IndicatorVerif.Model.Sig
/-
  Soundness of the positional semantics w.r.t. the list semantics, and causality.
  Core-only proofs.
-/
namespace Sig
variable {α : Type}

theorem toList_length (n w : Nat) (g : Nat → α) : (toList n w g).length = n - w := by
  simp [toList]

theorem toList_ext {n w : Nat} {g h : Nat → α} (H : ∀ i, w ≤ i → i < n → g i = h i) :
    toList n w g = toList n w h := by
  unfold toList
  apply List.map_congr_left
  intro k hk
  simp at hk
  exact H _ (by omega) (by omega)

theorem range_succ_map (m : Nat) (f : Nat → α) :
    (List.range (m + 1)).map f = f 0 :: (List.range m).map (fun k => f (k + 1)) := by
  rw [List.range_succ_eq_map]; simp [List.map_map, Function.comp_def]

/-! lists of the form `(range m).map g` -/

theorem scanL_range {σ : Type} (step : σ → α → σ × α) (m : Nat) :
    ∀ (s0 : σ) (g : Nat → α),
    scanL step s0 ((List.range m).map g) = (List.range m).map (scanOut step s0 g) := by
  induction m with
  | zero => intro s0 g; simp [scanL]
  | succ m ih =>
    intro s0 g
    rw [range_succ_map, range_succ_map]
    simp only [scanL]
    rw [ih]
    congr 1
    apply List.map_congr_left
    intro k _
    -- shifting the start state
    have key : ∀ k, scanSt step (step s0 (g 0)).1 (fun k => g (k + 1)) k = scanSt step s0 g (k + 1) := by
      intro k
      induction k with
      | zero => simp [scanSt]
      | succ k ihk => simp [scanSt, ihk]
    simp [scanOut, key]

theorem scanL2_range {σ : Type} (step : σ → α → α → σ × α) (m : Nat) :
    ∀ (s0 : σ) (g h : Nat → α),
    scanL2 step s0 ((List.range m).map g) ((List.range m).map h)
      = (List.range m).map (scanOut2 step s0 g h) := by
  induction m with
  | zero => intro s0 g h; simp [scanL2]
  | succ m ih =>
    intro s0 g h
    rw [range_succ_map, range_succ_map, range_succ_map]
    simp only [scanL2]
    rw [ih]
    congr 1
    apply List.map_congr_left
    intro k _
    have key : ∀ k, scanSt2 step (step s0 (g 0) (h 0)).1 (fun k => g (k + 1)) (fun k => h (k + 1)) k
        = scanSt2 step s0 g h (k + 1) := by
      intro k
      induction k with
      | zero => simp [scanSt2]
      | succ k ihk => simp [scanSt2, ihk]
    simp [scanOut2, key]

theorem scanL3_range {σ : Type} (step : σ → α → α → α → σ × α) (m : Nat) :
    ∀ (s0 : σ) (g h k : Nat → α),
    scanL3 step s0 ((List.range m).map g) ((List.range m).map h) ((List.range m).map k)
      = (List.range m).map (scanOut3 step s0 g h k) := by
  induction m with
  | zero => intro s0 g h k; simp [scanL3]
  | succ m ih =>
    intro s0 g h k
    rw [range_succ_map, range_succ_map, range_succ_map, range_succ_map]
    simp only [scanL3]
    rw [ih]
    congr 1
    apply List.map_congr_left
    intro j _
    have key : ∀ j, scanSt3 step (step s0 (g 0) (h 0) (k 0)).1 (fun j => g (j + 1)) (fun j => h (j + 1))
        (fun j => k (j + 1)) j = scanSt3 step s0 g h k (j + 1) := by
      intro j
      induction j with
      | zero => simp [scanSt3]
      | succ j ihj => simp [scanSt3, ihj]
    simp [scanOut3, key]

theorem zipWith3L_range (f : α → α → α → α) (m : Nat) :
    ∀ (g h k : Nat → α),
    zipWith3L f ((List.range m).map g) ((List.range m).map h) ((List.range m).map k)
      = (List.range m).map (fun i => f (g i) (h i) (k i)) := by
  induction m with
  | zero => intro g h k; simp [zipWith3L]
  | succ m ih =>
    intro g h k
    rw [range_succ_map, range_succ_map, range_succ_map, range_succ_map]
    simp only [zipWith3L]
    rw [ih]

theorem zipWith_range (f : α → α → α) (m : Nat) (g h : Nat → α) :
    List.zipWith f ((List.range m).map g) ((List.range m).map h)
      = (List.range m).map (fun i => f (g i) (h i)) := by
  simp [List.zipWith_map_left, List.zipWith_map_right, List.zipWith_self]

theorem recurFrom_shift (upd : α → α → α) (b : α) (g : Nat → α) (k : Nat) :
    recurFrom upd (upd b (g 0)) (fun k => g (k + 1)) k = recurFrom upd b g (k + 1) := by
  induction k with
  | zero => simp [recurFrom]
  | succ k ih => simp [recurFrom, ih]

theorem recurTail_range (upd : α → α → α) (m : Nat) :
    ∀ (b : α) (g : Nat → α),
    recurTail upd b ((List.range m).map g)
      = (List.range m).map (fun k => recurFrom upd b g (k + 1)) := by
  induction m with
  | zero => intro b g; simp [recurTail]
  | succ m ih =>
    intro b g
    rw [range_succ_map, range_succ_map]
    simp only [recurTail]
    rw [ih]
    congr 1
    apply List.map_congr_left
    intro k _
    exact recurFrom_shift upd b g (k + 1)


theorem envOf_getD (x : Nat → Nat → α) (A n j : Nat) (h : j < A) :
    (envOf x A n)[j]?.getD [] = (List.range n).map (x j) := by
  simp [envOf, h]

theorem toList_getElem (n w : Nat) (g : Nat → α) (i : Nat) (h : i < (toList n w g).length) :
    (toList n w g)[i] = g (w + i) := by
  simp [toList]

theorem toList_drop (n w k : Nat) (g : Nat → α) : (toList n w g).drop k = toList n (w + k) g := by
  apply List.ext_getElem
  · simp [toList_length]; omega
  · intro i h1 h2
    simp [toList]; congr 1; omega

theorem toList_take (n w k : Nat) (g : Nat → α) :
    (toList n w g).take ((toList n w g).length - k) = toList n (w + k) (fun i => g (i - k)) := by
  apply List.ext_getElem
  · simp [toList_length]; omega
  · intro i h1 h2
    simp [toList]; congr 1; omega

theorem toList_shift (n w k : Nat) (fill : α) (g : Nat → α) (hk : k ≤ w) (hn : w ≤ n) :
    List.replicate k fill ++ toList n w g = toList n (w - k) (fun i => if i < w then fill else g i) := by
  apply List.ext_getElem
  · simp [toList_length]; omega
  · intro i h1 h2
    simp only [toList_length, List.length_append, List.length_replicate] at h1 h2
    by_cases hi : i < k
    · rw [List.getElem_append_left (by simpa using hi)]
      simp [toList]; omega
    · rw [List.getElem_append_right (by simpa using hi)]
      simp [toList]
      have : ¬ (w - k + i < w) := by omega
      simp [this]; congr 1; omega

theorem toList_delay (n w k : Nat) (fill : α) (g : Nat → α) :
    (List.replicate k fill ++ toList n w g).take (toList n w g).length
      = toList n w (fun i => if i < w + k then fill else g (i - k)) := by
  apply List.ext_getElem
  · simp [toList_length]
  · intro i h1 h2
    simp only [toList_length, List.length_take, List.length_append, List.length_replicate] at h1 h2
    rw [List.getElem_take]
    by_cases hi : i < k
    · rw [List.getElem_append_left (by simpa using hi)]
      simp [toList]; omega
    · rw [List.getElem_append_right (by simpa using hi)]
      simp [toList]
      have : ¬ (i < k) := hi
      simp [this]; congr 1; omega

theorem toList_take' (n w p : Nat) (g : Nat → α) (h : p ≤ n - w) :
    (toList n w g).take p = (List.range p).map (fun k => g (w + k)) := by
  apply List.ext_getElem
  · simp [toList_length]; omega
  · intro i h1 h2
    simp [toList]

theorem recurL_toList (n w p : Nat) (hp : p ≠ 0) (seed : List α → α) (upd : α → α → α) (g : Nat → α) :
    recurL p seed upd (toList n w g)
      = toList n (w + (p - 1)) (fun i => recurAt p seed upd (fun m => g (w + m)) (i - (w + (p - 1)))) := by
  unfold recurL
  by_cases hlen : n - w < p
  · simp [toList_length, hlen, hp, toList]
    omega
  · have hge : p ≤ n - w := by omega
    simp only [toList_length, hlen, hp, false_or, if_false]
    rw [toList_take' n w p g hge, toList_drop]
    have hcount : n - (w + (p - 1)) = (n - (w + p)) + 1 := by omega
    simp only [toList, hcount]
    rw [range_succ_map, recurTail_range]
    simp only [List.cons.injEq]
    constructor
    · simp [recurAt, recurFrom]
    · apply List.map_congr_left
      intro k _
      have e1 : w + (p - 1) + (k + 1) - (w + (p - 1)) = k + 1 := by omega
      simp only [recurAt, e1]
      congr 1
      funext m
      congr 1; omega

theorem join2_some {a b : Option Nat} {w : Nat} (h : join2 a b = some w) : a = some w ∧ b = some w := by
  unfold join2 at h
  split at h
  · rename_i x y
    split at h
    · simp_all
    · simp at h
  · simp at h

theorem toList_def (n w : Nat) (g : Nat → α) :
    toList n w g = (List.range (n - w)).map (fun k => g (w + k)) := rfl

/-- **Soundness**: for a well-aligned term, the list semantics on inputs of length `n` is exactly
    the positional semantics read off at positions `w, w+1, …, n-1`. -/
theorem sound (x : Nat → Nat → α) (A n : Nat) (e : Sig α) :
    ∀ w, off e = some w → need e ≤ n → arity e ≤ A →
      evalL (envOf x A n) e = toList n w (den x e) := by
  induction e with
  | input j =>
    intro w h _ ha
    simp [off] at h; subst h
    simp only [evalL, arity, List.getD_eq_getElem?_getD] at *
    rw [envOf_getD _ _ _ _ (by omega)]
    simp [toList, den]
  | map f e ih =>
    intro w h hn ha
    simp only [off, need, arity] at h hn ha
    simp only [evalL, ih w h hn ha, toList, den, List.map_map]
    rfl
  | zip f a b iha ihb =>
    intro w h hn ha
    simp only [off, need, arity] at h hn ha
    obtain ⟨h1, h2⟩ := join2_some h
    have hn' : need a ≤ n ∧ need b ≤ n := by
      constructor <;> (simp only [Nat.max_def] at hn; split at hn <;> omega)
    have ha' : arity a ≤ A ∧ arity b ≤ A := by
      constructor <;> (simp only [Nat.max_def] at ha; split at ha <;> omega)
    simp only [evalL, iha w h1 hn'.1 ha'.1, ihb w h2 hn'.2 ha'.2, toList, den]
    exact zipWith_range f _ _ _
  | zip3 f a b c iha ihb ihc =>
    intro w h hn ha
    simp only [off, need, arity] at h hn ha
    obtain ⟨h12, h3⟩ := join2_some h
    obtain ⟨h1, h2⟩ := join2_some h12
    have hn' : need a ≤ n ∧ need b ≤ n ∧ need c ≤ n := by
      simp only [Nat.max_def] at hn; refine ⟨?_, ?_, ?_⟩ <;> (repeat' split at hn) <;> omega
    have ha' : arity a ≤ A ∧ arity b ≤ A ∧ arity c ≤ A := by
      simp only [Nat.max_def] at ha; refine ⟨?_, ?_, ?_⟩ <;> (repeat' split at ha) <;> omega
    simp only [evalL, iha w h1 hn'.1 ha'.1, ihb w h2 hn'.2.1 ha'.2.1, ihc w h3 hn'.2.2 ha'.2.2, toList, den]
    exact zipWith3L_range f _ _ _ _
  | skip k e ih =>
    intro w h hn ha
    simp only [off, need, arity] at h hn ha
    cases he : off e with
    | none => simp [he] at h
    | some w0 =>
      simp [he] at h; subst h
      simp only [evalL, ih w0 he hn ha]
      rw [toList_drop]
      simp only [toList, den]
  | shift k fill e ih =>
    intro w h hn ha
    simp only [off, need, arity] at h hn ha
    cases he : off e with
    | none => simp [he] at h
    | some w0 =>
      simp [he] at h
      obtain ⟨hk, hw⟩ := h
      subst hw
      have hn' : need e ≤ n ∧ w0 ≤ n := by
        simp only [Nat.max_def, offD, he, Option.getD_some] at hn; split at hn <;> omega
      simp only [evalL, ih w0 he hn'.1 ha]
      rw [toList_shift n w0 k fill _ hk hn'.2]
      simp only [toList, den, offD, he, Option.getD_some]
  | delay k fill e ih =>
    intro w h hn ha
    simp only [off, need, arity] at h hn ha
    simp only [evalL, ih w h hn ha]
    rw [toList_delay n w k fill _]
    simp only [toList, den, offD, h, Option.getD_some]
  | lag k e ih =>
    intro w h hn ha
    simp only [off, need, arity] at h hn ha
    cases he : off e with
    | none => simp [he] at h
    | some w0 =>
      simp [he] at h; subst h
      simp only [evalL, ih w0 he hn ha]
      rw [toList_take n w0 k _]
      simp only [toList, den]
  | scan σ s0 step e ih =>
    intro w h hn ha
    simp only [off, need, arity] at h hn ha
    simp only [evalL, ih w h hn ha, den, offD, h, Option.getD_some, toList]
    rw [scanL_range]
    apply List.map_congr_left
    intro k _
    simp
  | scan2 σ s0 step a b iha ihb =>
    intro w h hn ha
    simp only [off, need, arity] at h hn ha
    obtain ⟨h1, h2⟩ := join2_some h
    have hn' : need a ≤ n ∧ need b ≤ n := by
      constructor <;> (simp only [Nat.max_def] at hn; split at hn <;> omega)
    have ha' : arity a ≤ A ∧ arity b ≤ A := by
      constructor <;> (simp only [Nat.max_def] at ha; split at ha <;> omega)
    simp only [evalL, iha w h1 hn'.1 ha'.1, ihb w h2 hn'.2 ha'.2, den, offD, h1, Option.getD_some, toList]
    rw [scanL2_range]
    apply List.map_congr_left
    intro k _
    simp
  | scan3 σ s0 step a b c iha ihb ihc =>
    intro w h hn ha
    simp only [off, need, arity] at h hn ha
    obtain ⟨h12, h3⟩ := join2_some h
    obtain ⟨h1, h2⟩ := join2_some h12
    have hn' : need a ≤ n ∧ need b ≤ n ∧ need c ≤ n := by
      simp only [Nat.max_def] at hn; refine ⟨?_, ?_, ?_⟩ <;> (repeat' split at hn) <;> omega
    have ha' : arity a ≤ A ∧ arity b ≤ A ∧ arity c ≤ A := by
      simp only [Nat.max_def] at ha; refine ⟨?_, ?_, ?_⟩ <;> (repeat' split at ha) <;> omega
    simp only [evalL, iha w h1 hn'.1 ha'.1, ihb w h2 hn'.2.1 ha'.2.1, ihc w h3 hn'.2.2 ha'.2.2, den,
      offD, h1, Option.getD_some, toList]
    rw [scanL3_range]
    apply List.map_congr_left
    intro k _
    simp
  | recur p seed upd e ih =>
    intro w h hn ha
    simp only [off, need, arity] at h hn ha
    by_cases hp : p = 0
    · simp [hp] at h
    · cases he : off e with
      | none => simp [he, hp] at h
      | some w0 =>
        simp [he, hp] at h; subst h
        simp only [evalL, ih w0 he hn ha]
        rw [recurL_toList n w0 p hp]
        simp only [toList, den, offD, he, Option.getD_some]

end Sig
