import Mathlib.Data.List.Sort
import Mathlib.Order.Basic
import IndicatorVerif.Model.Bst
/-
  The search-tree model (which mirrors the pointer algorithm of helper/bst.go) refines a sorted
  list / multiset: in-order contents, membership, removal, minimum and maximum.
-/
namespace Bst
open BTree

variable {α : Type} [LinearOrder α]

/-- the comparison operators agree with the order of the element type (true for Go's `<=`, `<`, `==` on
    integers and on floats without NaN) -/
structure Lawful (c : Cmp α) : Prop where
  le_iff : ∀ a b, c.le a b = true ↔ a ≤ b
  lt_iff : ∀ a b, c.lt a b = true ↔ a < b
  eq_iff : ∀ a b, c.eq a b = true ↔ a = b

/-- search-tree invariant: left subtree ≤ node ≤ right subtree (duplicates may sit on either side after removals) -/
def Ordered : BTree α → Prop
  | .nil => True
  | .node l v r => Ordered l ∧ Ordered r ∧ (∀ x ∈ l.toList, x ≤ v) ∧ (∀ x ∈ r.toList, v ≤ x)

theorem ordered_iff_sorted (t : BTree α) : Ordered t ↔ t.toList.Pairwise (· ≤ ·) := by
  induction t with
  | nil => simp [Ordered, toList]
  | node l v r ihl ihr =>
    simp only [Ordered, toList, List.pairwise_append, List.pairwise_cons, ihl, ihr, List.mem_cons]
    constructor
    · rintro ⟨h1, h2, h3, h4⟩
      refine ⟨h1, ⟨h4, h2⟩, ?_⟩
      intro a ha b hb
      rcases hb with rfl | hb
      · exact h3 a ha
      · exact le_trans (h3 a ha) (h4 b hb)
    · rintro ⟨h1, ⟨h4, h2⟩, h5⟩
      exact ⟨h1, h2, fun x hx => h5 x hx v (Or.inl rfl), h4⟩

/-! ### insert -/

theorem insert_perm (c : Cmp α) (x : α) (t : BTree α) : (insert c x t).toList.Perm (x :: t.toList) := by
  induction t with
  | nil => simp [insert, toList]
  | node l v r ihl ihr =>
    simp only [insert]
    split
    · simp only [toList]
      exact (ihl.append_right _).trans (by simp)
    · simp only [toList]
      have : (l.toList ++ v :: (insert c x r).toList).Perm (l.toList ++ v :: x :: r.toList) :=
        List.Perm.append_left _ (List.Perm.cons _ ihr)
      refine this.trans ?_
      have e : l.toList ++ v :: x :: r.toList = (l.toList ++ [v]) ++ x :: r.toList := by simp
      rw [e]
      refine List.perm_middle.trans ?_
      simp

theorem mem_insert (c : Cmp α) (x y : α) (t : BTree α) : y ∈ (insert c x t).toList ↔ y = x ∨ y ∈ t.toList := by
  rw [(insert_perm c x t).mem_iff]; simp

theorem insert_ordered (c : Cmp α) (hc : Lawful c) (x : α) (t : BTree α) (h : Ordered t) : Ordered (insert c x t) := by
  induction t with
  | nil => simp [insert, Ordered, toList]
  | node l v r ihl ihr =>
    obtain ⟨h1, h2, h3, h4⟩ := h
    simp only [insert]
    split
    · rename_i hle
      refine ⟨ihl h1, h2, ?_, h4⟩
      intro y hy
      rcases (mem_insert c x y l).mp hy with rfl | hy
      · exact (hc.le_iff _ _).mp hle
      · exact h3 y hy
    · rename_i hle
      refine ⟨h1, ihr h2, h3, ?_⟩
      intro y hy
      rcases (mem_insert c x y r).mp hy with rfl | hy
      · have : ¬ y ≤ v := fun e => hle ((hc.le_iff _ _).mpr e)
        exact le_of_lt (not_le.mp this)
      · exact h4 y hy

/-! ### search -/

theorem contains_iff (c : Cmp α) (hc : Lawful c) (x : α) (t : BTree α) (h : Ordered t) :
    contains c x t = true ↔ x ∈ t.toList := by
  induction t with
  | nil => simp [contains, toList]
  | node l v r ihl ihr =>
    obtain ⟨h1, h2, h3, h4⟩ := h
    simp only [contains, toList, List.mem_append, List.mem_cons]
    by_cases he : c.eq x v = true
    · have hxv := (hc.eq_iff _ _).mp he
      subst hxv
      simp [he]
    · have hne : x ≠ v := fun e => he ((hc.eq_iff _ _).mpr e)
      simp only [he, Bool.false_eq_true, if_false]
      by_cases hl : c.lt x v = true
      · have hlt := (hc.lt_iff _ _).mp hl
        simp only [hl, if_true, ihl h1]
        constructor
        · exact fun h => Or.inl h
        · rintro (h | h | h)
          · exact h
          · exact absurd h hne
          · exact absurd (h4 x h) (not_le.mpr hlt)
      · have hge : v < x := lt_of_le_of_ne (not_lt.mp (fun e => hl ((hc.lt_iff _ _).mpr e))) (Ne.symm hne)
        simp only [hl, Bool.false_eq_true, if_false, ihr h2]
        constructor
        · exact fun h => Or.inr (Or.inr h)
        · rintro (h | h | h)
          · exact absurd (h3 x h) (not_le.mpr hge)
          · exact absurd h hne
          · exact h

/-! ### removal -/

theorem removeMin_spec (t : BTree α) :
    (t = .nil → removeMin t = none) ∧
    (t ≠ .nil → ∃ m t', removeMin t = some (m, t') ∧ t.toList = m :: t'.toList) := by
  induction t with
  | nil => simp [removeMin]
  | node l v r ihl _ =>
    refine ⟨by simp, fun _ => ?_⟩
    cases l with
    | nil => exact ⟨v, r, by simp [removeMin], by simp [toList]⟩
    | node ll lv lr =>
      obtain ⟨m, l', e, hl⟩ := ihl.2 (by simp)
      refine ⟨m, .node l' v r, by simp [removeMin, e], ?_⟩
      simp only [toList] at hl ⊢
      rw [hl]; simp

theorem removeRoot_toList (l r : BTree α) (v : α) : (removeRoot (.node l v r)).toList = l.toList ++ r.toList := by
  cases l with
  | nil => simp [removeRoot, toList]
  | node ll lv lr =>
    cases r with
    | nil => simp [removeRoot, toList]
    | node rl rv rr =>
      obtain ⟨m, r', e, hl⟩ := (removeMin_spec (.node rl rv rr)).2 (by simp)
      simp only [removeRoot, e]
      simp only [toList] at hl ⊢
      rw [hl]

theorem remove_spec (c : Cmp α) (hc : Lawful c) (x : α) (t : BTree α) (h : Ordered t) :
    (remove c x t).2 = decide (x ∈ t.toList) ∧ (remove c x t).1.toList.Perm (t.toList.erase x) := by
  induction t with
  | nil => simp [remove, toList]
  | node l v r ihl ihr =>
    obtain ⟨h1, h2, h3, h4⟩ := h
    simp only [remove]
    by_cases he : c.eq x v = true
    · have hxv := (hc.eq_iff _ _).mp he
      subst hxv
      simp only [he, if_true, removeRoot_toList, toList]
      refine ⟨by simp, ?_⟩
      -- erasing x from l ++ x :: r removes one occurrence: the result is a permutation of l ++ r
      have : (l.toList ++ x :: r.toList).Perm (x :: (l.toList ++ r.toList)) := List.perm_middle
      have := this.erase x
      simp only [List.erase_cons_head] at this
      exact this.symm
    · have hne : x ≠ v := fun e => he ((hc.eq_iff _ _).mpr e)
      simp only [he, Bool.false_eq_true, if_false]
      by_cases hl : c.lt x v = true
      · have hlt := (hc.lt_iff _ _).mp hl
        obtain ⟨i1, i2⟩ := ihl h1
        simp only [hl, if_true, toList]
        have hnr : x ∉ r.toList := fun hx => absurd (h4 x hx) (not_le.mpr hlt)
        constructor
        · rw [i1]; simp [hne, hnr]
        · by_cases hxl : x ∈ l.toList
          · rw [List.erase_append_left _ hxl]; exact i2.append_right _
          · rw [List.erase_of_not_mem (by simp [hxl, hne, hnr])]
            rw [List.erase_of_not_mem hxl] at i2
            exact i2.append_right _
      · have hgt : v < x := lt_of_le_of_ne (not_lt.mp (fun e => hl ((hc.lt_iff _ _).mpr e))) (Ne.symm hne)
        obtain ⟨i1, i2⟩ := ihr h2
        simp only [hl, Bool.false_eq_true, if_false, toList]
        have hnl : x ∉ l.toList := fun hx => absurd (h3 x hx) (not_le.mpr hgt)
        constructor
        · rw [i1]; simp [hne, hnl]
        · rw [List.erase_append_right _ hnl, List.erase_cons_tail (by simpa using Ne.symm hne)]
          exact List.Perm.append_left _ (List.Perm.cons _ i2)

theorem remove_ordered (c : Cmp α) (hc : Lawful c) (x : α) (t : BTree α) (h : Ordered t) :
    Ordered (remove c x t).1 := by
  rw [ordered_iff_sorted]
  have hs := (ordered_iff_sorted t).mp h
  -- the in-order list of the result is a sublist-permutation of a sorted list; show sortedness structurally
  induction t with
  | nil => simp [remove, toList]
  | node l v r ihl ihr =>
    obtain ⟨h1, h2, h3, h4⟩ := h
    simp only [remove]
    by_cases he : c.eq x v = true
    · simp only [he, if_true, removeRoot_toList]
      simp only [toList] at hs
      exact hs.sublist (List.Sublist.append (List.Sublist.refl _) (List.sublist_cons_self _ _))
    · simp only [he, Bool.false_eq_true, if_false]
      by_cases hl : c.lt x v = true
      · simp only [hl, if_true]
        have i := ihl h1 ((ordered_iff_sorted l).mp h1)
        rw [← ordered_iff_sorted]
        refine ⟨(ordered_iff_sorted _).mpr i, h2, ?_, h4⟩
        intro y hy
        have := ((remove_spec c hc x l h1).2.mem_iff).mp hy
        exact h3 y (List.mem_of_mem_erase this)
      · simp only [hl, Bool.false_eq_true, if_false]
        have i := ihr h2 ((ordered_iff_sorted r).mp h2)
        rw [← ordered_iff_sorted]
        refine ⟨h1, (ordered_iff_sorted _).mpr i, h3, ?_⟩
        intro y hy
        have := ((remove_spec c hc x r h2).2.mem_iff).mp hy
        exact h4 y (List.mem_of_mem_erase this)

/-! ### minimum and maximum -/

theorem min?_eq_head (t : BTree α) : min? t = t.toList.head? := by
  induction t with
  | nil => rfl
  | node l v r ihl _ =>
    cases l with
    | nil => simp [min?, toList]
    | node ll lv lr =>
      simp only [min?, ihl, toList]
      cases h : (ll.toList ++ lv :: lr.toList) with
      | nil => simp at h
      | cons a b => simp

theorem max?_eq_getLast (t : BTree α) : max? t = t.toList.getLast? := by
  induction t with
  | nil => rfl
  | node l v r _ ihr =>
    cases r with
    | nil => simp [max?, toList]
    | node rl rv rr =>
      have hm : max? (.node l v (.node rl rv rr)) = max? (.node rl rv rr) := rfl
      have hne : (BTree.node rl rv rr).toList ≠ [] := by simp [toList]
      rw [hm, ihr]
      show _ = (l.toList ++ v :: (BTree.node rl rv rr).toList).getLast?
      have e : l.toList ++ v :: (BTree.node rl rv rr).toList = (l.toList ++ [v]) ++ (BTree.node rl rv rr).toList := by simp
      rw [e, List.getLast?_append_of_ne_nil _ hne]

end Bst
