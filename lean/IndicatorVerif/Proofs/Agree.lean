import IndicatorVerif.Proofs.Aligned
import IndicatorVerif.Spec.Formulas
/-
  `Agree x e P`: the model term `e` is aligned at `P.start` and, from there on, carries exactly the
  values of the positional formula `P`.  Generic (structural) rules; core-only.
-/
namespace Sig
variable {α : Type}

structure Agree (x : Nat → Nat → α) (e : Sig α) (P : PS α) : Prop where
  off_eq : off e = some P.start
  val_eq : ∀ i, P.start ≤ i → den x e i = P.val i

theorem Agree.cast {x : Nat → Nat → α} {e : Sig α} {P Q : PS α} (h : Agree x e P)
    (hs : P.start = Q.start) (hv : ∀ i, P.start ≤ i → P.val i = Q.val i) : Agree x e Q :=
  ⟨by rw [← hs]; exact h.1, fun i hi => by rw [h.2 i (by omega), hv i (by omega)]⟩

theorem Agree.offD {x : Nat → Nat → α} {e : Sig α} {P : PS α} (h : Agree x e P) : offD e = P.start := by
  simp [Sig.offD, h.1]

theorem Agree.input (x : Nat → Nat → α) (j : Nat) : Agree x (input j) ⟨0, x j⟩ :=
  ⟨rfl, fun _ _ => rfl⟩

theorem Agree.map {x : Nat → Nat → α} {e : Sig α} {P : PS α} (f : α → α) (h : Agree x e P) :
    Agree x (map f e) ⟨P.start, fun i => f (P.val i)⟩ :=
  ⟨h.1, fun i hi => by simp only [den]; rw [h.2 i hi]⟩

theorem Agree.zip {x : Nat → Nat → α} {a b : Sig α} {P Q : PS α} (f : α → α → α)
    (ha : Agree x a P) (hb : Agree x b Q) (hs : P.start = Q.start) :
    Agree x (zip f a b) ⟨P.start, fun i => f (P.val i) (Q.val i)⟩ :=
  ⟨by simp [off, ha.1, hb.1, join2, hs],
   fun i hi => by simp only [den]; rw [ha.2 i hi, hb.2 i (by simp only at hi; omega)]⟩

theorem Agree.zip3 {x : Nat → Nat → α} {a b c : Sig α} {P Q R : PS α} (f : α → α → α → α)
    (ha : Agree x a P) (hb : Agree x b Q) (hc : Agree x c R) (h1 : P.start = Q.start) (h2 : P.start = R.start) :
    Agree x (zip3 f a b c) ⟨P.start, fun i => f (P.val i) (Q.val i) (R.val i)⟩ :=
  ⟨by simp [off, ha.1, hb.1, hc.1, join2, ← h1, ← h2],
   fun i hi => by
     simp only [den]
     rw [ha.2 i hi, hb.2 i (by simp only at hi; omega), hc.2 i (by simp only at hi; omega)]⟩

theorem Agree.skip {x : Nat → Nat → α} {e : Sig α} {P : PS α} (k : Nat) (h : Agree x e P) :
    Agree x (skip k e) ⟨P.start + k, P.val⟩ :=
  ⟨by simp [off, h.1], fun i hi => by simp only [den]; exact h.2 i (by simp only at hi; omega)⟩

theorem Agree.lag {x : Nat → Nat → α} {e : Sig α} {P : PS α} (k : Nat) (h : Agree x e P) :
    Agree x (lag k e) ⟨P.start + k, fun i => P.val (i - k)⟩ :=
  ⟨by simp [off, h.1], fun i hi => by simp only [den]; exact h.2 (i - k) (by simp only at hi; omega)⟩

/-- the list the Go code must emit: from `Agree` and `Good`, for every input length -/
theorem Agree.evalL_eq {x : Nat → Nat → α} {e : Sig α} {P : PS α} {A : Nat} (h : Agree x e P)
    (hg : Good e P.start A) (n : Nat) : evalL (envOf x A n) e = P.toList n := by
  rw [sound x A n e P.start h.1 (by rw [hg.2]; omega) hg.3]
  simp only [toList, PS.toList]
  apply List.map_congr_left
  intro k _
  exact h.2 _ (by omega)

end Sig
