import IndicatorVerif.Proofs.SigCausal
import IndicatorVerif.Model.Registry
/-
  `Good e w A`: the term `e` is well aligned at offset `w`, contains no re-anchoring shift that
  could bite on short inputs, and mentions inputs `< A` only.  Intro rules + a tactic that derives
  `Good` for an indicator body, leaving linear-arithmetic side goals about the periods to `omega`.
  Core-only.
-/
namespace Sig
variable {α : Type}

structure Good (e : Sig α) (w A : Nat) : Prop where
  intro ::
  off_eq : off e = some w
  need_eq : need e = 0
  arity_le : arity e ≤ A

theorem Good.cast {e : Sig α} {w w' A : Nat} (h : Good e w A) (hw : w = w') : Good e w' A := by
  subst hw; exact h

theorem Good.input (j A : Nat) (h : j < A) : Good (input j : Sig α) 0 A := ⟨rfl, rfl, h⟩

theorem Good.map {e : Sig α} {w A : Nat} (f : α → α) (h : Good e w A) : Good (map f e) w A := ⟨h.1, h.2, h.3⟩

theorem Good.zip {a b : Sig α} {wa wb A : Nat} (f : α → α → α) (ha : Good a wa A) (hb : Good b wb A)
    (h1 : wa = wb) : Good (zip f a b) wa A := by
  subst h1
  obtain ⟨a1, a2, a3⟩ := ha; obtain ⟨b1, b2, b3⟩ := hb
  refine ⟨by simp [off, a1, b1, join2], by simp [need, a2, b2], ?_⟩
  simp only [arity, Nat.max_def]; split <;> omega

theorem Good.zip3 {a b c : Sig α} {wa wb wc A : Nat} (f : α → α → α → α)
    (ha : Good a wa A) (hb : Good b wb A) (hc : Good c wc A)
    (h1 : wa = wb) (h2 : wa = wc) : Good (zip3 f a b c) wa A := by
  subst h1; subst h2
  obtain ⟨a1, a2, a3⟩ := ha; obtain ⟨b1, b2, b3⟩ := hb; obtain ⟨c1, c2, c3⟩ := hc
  refine ⟨by simp [off, a1, b1, c1, join2], by simp [need, a2, b2, c2], ?_⟩
  simp only [arity, Nat.max_def]; split <;> split <;> omega

theorem Good.skip {e : Sig α} {w0 A : Nat} (k : Nat) (h : Good e w0 A) : Good (skip k e) (w0 + k) A := by
  obtain ⟨a1, a2, a3⟩ := h
  exact ⟨by simp [off, a1], by simp [need, a2], by simpa [arity] using a3⟩

theorem Good.lag {e : Sig α} {w0 A : Nat} (k : Nat) (h : Good e w0 A) : Good (lag k e) (w0 + k) A := by
  obtain ⟨a1, a2, a3⟩ := h
  exact ⟨by simp [off, a1], by simp [need, a2], by simpa [arity] using a3⟩

theorem Good.delay {e : Sig α} {w A : Nat} (k : Nat) (fill : α) (h : Good e w A) :
    Good (delay k fill e) w A := ⟨h.1, h.2, h.3⟩

theorem Good.scan {e : Sig α} {w A : Nat} (σ : Type) (s0 : σ) (step : σ → α → σ × α) (h : Good e w A) :
    Good (scan σ s0 step e) w A := ⟨h.1, h.2, h.3⟩

theorem Good.scan2 {a b : Sig α} {wa wb A : Nat} (σ : Type) (s0 : σ) (step : σ → α → α → σ × α)
    (ha : Good a wa A) (hb : Good b wb A) (h1 : wa = wb) : Good (scan2 σ s0 step a b) wa A := by
  subst h1
  obtain ⟨a1, a2, a3⟩ := ha; obtain ⟨b1, b2, b3⟩ := hb
  refine ⟨by simp [off, a1, b1, join2], by simp [need, a2, b2], ?_⟩
  simp only [arity, Nat.max_def]; split <;> omega

theorem Good.scan3 {a b c : Sig α} {wa wb wc A : Nat} (σ : Type) (s0 : σ) (step : σ → α → α → α → σ × α)
    (ha : Good a wa A) (hb : Good b wb A) (hc : Good c wc A)
    (h1 : wa = wb) (h2 : wa = wc) : Good (scan3 σ s0 step a b c) wa A := by
  subst h1; subst h2
  obtain ⟨a1, a2, a3⟩ := ha; obtain ⟨b1, b2, b3⟩ := hb; obtain ⟨c1, c2, c3⟩ := hc
  refine ⟨by simp [off, a1, b1, c1, join2], by simp [need, a2, b2, c2], ?_⟩
  simp only [arity, Nat.max_def]; split <;> split <;> omega

theorem Good.recur {e : Sig α} {w0 A : Nat} (p : Nat) (seed : List α → α) (upd : α → α → α)
    (h : Good e w0 A) (hp : 1 ≤ p) : Good (recur p seed upd e) (w0 + (p - 1)) A := by
  obtain ⟨a1, a2, a3⟩ := h
  have : p ≠ 0 := by omega
  exact ⟨by simp [off, a1, this], by simp [need, a2], by simpa [arity] using a3⟩

/-- consequences of `Good` for every input family and length -/
theorem Good.length {e : Sig α} {w A : Nat} (h : Good e w A) (x : Nat → Nat → α) (n : Nat) :
    (evalL (envOf x A n) e).length = n - w :=
  evalL_length x A n e w h.1 (by rw [h.2]; omega) h.3

theorem Good.kth {e : Sig α} {w A : Nat} (h : Good e w A) (x : Nat → Nat → α) (n k : Nat) (hk : k < n - w) :
    (evalL (envOf x A n) e)[k]? = some (den x e (w + k)) :=
  evalL_kth x A n e w k h.1 (by rw [h.2]; omega) h.3 hk

theorem Good.prefix {e : Sig α} {w A : Nat} (h : Good e w A) (x : Nat → Nat → α) (n m : Nat) (hmn : m ≤ n) :
    evalL (envOf x A m) e = (evalL (envOf x A n) e).take (m - w) :=
  evalL_prefix x A n m e w h.1 (by rw [h.2]; omega) hmn h.3

theorem Good.future_irrelevant {e : Sig α} {w A : Nat} (h : Good e w A) (x y : Nat → Nat → α) (n i : Nat)
    (hw : w ≤ i) (hi : i < n) (H : ∀ j m, m ≤ i → x j m = y j m) :
    (evalL (envOf x A n) e)[i - w]? = (evalL (envOf y A n) e)[i - w]? :=
  evalL_future_irrelevant x y A n e w i h.1 (by rw [h.2]; omega) h.3 hw hi H

end Sig

/-- derive `Good` for a term built from constructors; arithmetic side goals go to `omega` -/
macro "good_tac" : tactic => `(tactic|
  (apply Sig.Good.cast
   (repeat' (first
      | apply Sig.Good.map
      | apply Sig.Good.delay
      | apply Sig.Good.scan
      | apply Sig.Good.input
      | apply Sig.Good.zip
      | apply Sig.Good.zip3
      | apply Sig.Good.skip
      | apply Sig.Good.lag
      | apply Sig.Good.scan2
      | apply Sig.Good.scan3
      | apply Sig.Good.recur))
   all_goals omega))
