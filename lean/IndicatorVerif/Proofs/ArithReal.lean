import Mathlib.Data.Real.Basic
import Mathlib.Data.Real.Sqrt
import Mathlib.Tactic.Ring
import Mathlib.Tactic.Linarith
import Mathlib.Tactic.Positivity
import Mathlib.Tactic.FieldSimp
import IndicatorVerif.Model.Arith
/-
  `Arith ℝ`: the number interface instantiated with the real field (theorems only).
  Bridge lemmas rewrite the `Arith`-derived notation on ℝ into Mathlib's canonical operations.
-/
noncomputable section

open Classical in
instance instArithReal : Arith ℝ where
  add := (· + ·)
  sub := (· - ·)
  mul := (· * ·)
  div := (· / ·)
  neg := (- ·)
  abs := (|·|)
  sqrt := Real.sqrt
  round := fun x => (round x : ℤ)
  lt a b := decide (a < b)
  le a b := decide (a ≤ b)
  beq a b := decide (a = b)
  ofNat n := (n : ℝ)

namespace ArithReal

@[simp] theorem add_eq (a b : ℝ) : @HAdd.hAdd ℝ ℝ ℝ (@instHAdd ℝ Arith.instAdd) a b = a + b := rfl
@[simp] theorem sub_eq (a b : ℝ) : @HSub.hSub ℝ ℝ ℝ (@instHSub ℝ Arith.instSub) a b = a - b := rfl
@[simp] theorem mul_eq (a b : ℝ) : @HMul.hMul ℝ ℝ ℝ (@instHMul ℝ Arith.instMul) a b = a * b := rfl
@[simp] theorem div_eq (a b : ℝ) : @HDiv.hDiv ℝ ℝ ℝ (@instHDiv ℝ Arith.instDiv) a b = a / b := rfl
@[simp] theorem neg_eq (a : ℝ) : @Neg.neg ℝ Arith.instNeg a = -a := rfl
@[simp] theorem arith_add (a b : ℝ) : Arith.add a b = a + b := rfl
@[simp] theorem arith_sub (a b : ℝ) : Arith.sub a b = a - b := rfl
@[simp] theorem arith_mul (a b : ℝ) : Arith.mul a b = a * b := rfl
@[simp] theorem arith_div (a b : ℝ) : Arith.div a b = a / b := rfl
@[simp] theorem arith_neg (a : ℝ) : Arith.neg a = -a := rfl
@[simp] theorem arith_abs (a : ℝ) : Arith.abs a = |a| := rfl
@[simp] theorem arith_sqrt (a : ℝ) : Arith.sqrt a = Real.sqrt a := rfl
@[simp] theorem arith_ofNat (n : ℕ) : (Arith.ofNat n : ℝ) = (n : ℝ) := rfl
@[simp] theorem arith_nat (n : ℕ) : (Arith.nat n : ℝ) = (n : ℝ) := rfl
@[simp] theorem arith_lt (a b : ℝ) : Arith.lt a b = true ↔ a < b := by simp [Arith.lt]
@[simp] theorem arith_le (a b : ℝ) : Arith.le a b = true ↔ a ≤ b := by simp [Arith.le]
@[simp] theorem arith_beq (a b : ℝ) : Arith.beq a b = true ↔ a = b := by simp [Arith.beq]
@[simp] theorem arith_gt (a b : ℝ) : Arith.gt a b = true ↔ b < a := by simp [Arith.gt, Arith.lt]
@[simp] theorem arith_ge (a b : ℝ) : Arith.ge a b = true ↔ b ≤ a := by simp [Arith.ge, Arith.le]
@[simp] theorem arith_sq (a : ℝ) : Arith.sq a = a * a := rfl
@[simp] theorem arith_inv (a : ℝ) : Arith.inv a = 1 / a := by simp [Arith.inv]

theorem arith_max (a b : ℝ) : Arith.max a b = max a b := by
  unfold Arith.max
  by_cases h : a < b
  · simp [h, max_eq_right (le_of_lt h)]
  · simp [h, max_eq_left (not_lt.mp h)]

theorem arith_min (a b : ℝ) : Arith.min a b = min a b := by
  unfold Arith.min
  by_cases h : b < a
  · simp [h, min_eq_right (le_of_lt h)]
  · simp [h, min_eq_left (not_lt.mp h)]

end ArithReal
