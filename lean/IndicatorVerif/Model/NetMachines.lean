import IndicatorVerif.Model.Net
/-
  The helper goroutines as machines of the network model, and one re-converging pipeline
  (Duplicate → Operate → Operate, the shape of every multi-input indicator) with inputs of unequal
  length: with the Operate that drains before closing its output it deadlocks, with the repaired
  Operate (close, then drain) it terminates — the model-level counterpart of fix 757706f.
  Core-only, executable.
-/
namespace NetM
open Net

/-- local state of every machine: a program counter and a few registers -/
structure Loc where
  pc : Nat
  reg : List Int
  deriving DecidableEq, Repr

abbrev A := Act Loc Int

/-- `SliceToChan`: send the data, then close -/
def producer (out : Nat) (l : Loc) : A :=
  match l.pc, l.reg with
  | 0, v :: rest => .send out v ⟨0, rest⟩
  | 0, [] => .close out ⟨1, []⟩
  | _, _ => .halt

/-- `Duplicate(in, 2)` -/
def dup2 (inp o1 o2 : Nat) (l : Loc) : A :=
  match l.pc with
  | 0 => .recv inp (fun r => match r with | some v => ⟨1, [v]⟩ | none => ⟨3, []⟩)
  | 1 => .send o1 (l.reg.headD 0) ⟨2, l.reg⟩
  | 2 => .send o2 (l.reg.headD 0) ⟨0, []⟩
  | 3 => .close o1 ⟨4, []⟩
  | 4 => .close o2 ⟨5, []⟩
  | _ => .halt

/-- `Operate(a, b, +)` as it was: when one input ends, drain the other one, then close the output -/
def operateOld (a b out : Nat) (l : Loc) : A :=
  match l.pc with
  | 0 => .recv a (fun r => match r with | some v => ⟨1, [v]⟩ | none => ⟨10, []⟩)
  | 1 => .recv b (fun r => match r with | some w => ⟨2, [l.reg.headD 0 + w]⟩ | none => ⟨20, []⟩)
  | 2 => .send out (l.reg.headD 0) ⟨0, []⟩
  | 10 => .recv b (fun r => match r with | some _ => ⟨10, []⟩ | none => ⟨30, []⟩)
  | 20 => .recv a (fun r => match r with | some _ => ⟨20, []⟩ | none => ⟨30, []⟩)
  | 30 => .close out ⟨31, []⟩
  | _ => .halt

/-- `Operate(a, b, +)` after the fix: close the output, then drain the other input -/
def operateNew (a b out : Nat) (l : Loc) : A :=
  match l.pc with
  | 0 => .recv a (fun r => match r with | some v => ⟨1, [v]⟩ | none => ⟨40, []⟩)
  | 1 => .recv b (fun r => match r with | some w => ⟨2, [l.reg.headD 0 + w]⟩ | none => ⟨41, []⟩)
  | 2 => .send out (l.reg.headD 0) ⟨0, []⟩
  | 40 => .close out ⟨10, []⟩
  | 41 => .close out ⟨20, []⟩
  | 10 => .recv b (fun r => match r with | some _ => ⟨10, []⟩ | none => ⟨31, []⟩)
  | 20 => .recv a (fun r => match r with | some _ => ⟨20, []⟩ | none => ⟨31, []⟩)
  | _ => .halt

/-- an independent reader: collect everything until the channel is closed -/
def sink (inp : Nat) (l : Loc) : A :=
  match l.pc with
  | 0 => .recv inp (fun r => match r with | some v => ⟨0, l.reg ++ [v]⟩ | none => ⟨1, l.reg⟩)
  | _ => .halt

/-- processes: 0 producer a, 1 producer b, 2 Duplicate(a), 3 Z = Operate(a0, b), 4 W = Operate(Z, a1), 5 reader of W.
    channels: 0 a, 1 b, 2 a0, 3 a1, 4 z, 5 w -/
def diamondNet (fixed : Bool) (cap : Nat) : Network Loc Int where
  act := fun p l =>
    match p with
    | 0 => producer 0 l
    | 1 => producer 1 l
    | 2 => dup2 0 2 3 l
    | 3 => if fixed then operateNew 2 1 4 l else operateOld 2 1 4 l
    | 4 => if fixed then operateNew 4 3 5 l else operateOld 4 3 5 l
    | 5 => sink 5 l
    | _ => .halt
  cap := fun c => if c ≤ 3 then cap else 0     -- Duplicate inherits cap(input); Operate's output is unbuffered
  rd := fun c => match c with | 0 => 2 | 1 => 3 | 2 => 3 | 3 => 4 | 4 => 4 | _ => 5
  wr := fun c => match c with | 0 => 0 | 1 => 1 | 2 => 2 | 3 => 2 | 4 => 3 | _ => 4

def diamondInit (as bs : List Int) : St Loc Int where
  procs := fun p => match p with
    | 0 => (⟨0, as⟩, none)
    | 1 => (⟨0, bs⟩, none)
    | _ => (⟨0, []⟩, none)
  chans := fun _ => ([], false)

def isHalt : A → Bool
  | .halt => true
  | _ => false

/-- all of processes `0 … n-1` finished -/
def allHaltedB (N : Network Loc Int) (n : Nat) (s : St Loc Int) : Bool :=
  (List.range n).all (fun p => (s.procs p).2.isNone && isHalt (N.act p (s.procs p).1))

/-- run to a terminal state; report (terminal reached, clean, what the reader collected, pcs) -/
def diamondRun (fixed : Bool) (cap : Nat) (as bs : List Int) : Bool × Bool × List Int × List Nat :=
  let N := diamondNet fixed cap
  let (s, term) := roundRobin N 6 400 (diamondInit as bs)
  (term, allHaltedB N 6 s, (s.procs 5).1.reg, (List.range 6).map (fun p => (s.procs p).1.pc))

/-! ### `helper.Change(c, k)` = Subtract(Skip(d1, k), Buffered(d0, k)) with d0, d1 = Duplicate(c) -/

/-- `Pipe(in, out)`: copy, then close -/
def pipe (inp out : Nat) (l : Loc) : A :=
  match l.pc with
  | 0 => .recv inp (fun r => match r with | some v => ⟨1, [v]⟩ | none => ⟨2, []⟩)
  | 1 => .send out (l.reg.headD 0) ⟨0, []⟩
  | 2 => .close out ⟨3, []⟩
  | _ => .halt

/-- `Skip(in, out, k)`: drop up to k values (stop early if the input ends), then copy; `reg` holds the remaining count -/
def skipM (inp out : Nat) (l : Loc) : A :=
  match l.pc with
  | 0 => if l.reg.headD 0 ≤ 0 then .recv inp (fun r => match r with | some v => ⟨1, [0, v]⟩ | none => ⟨2, []⟩)
         else .recv inp (fun r => match r with | some _ => ⟨0, [l.reg.headD 0 - 1]⟩ | none => ⟨0, [0]⟩)
  | 1 => .send out (l.reg.getD 1 0) ⟨0, [0]⟩
  | 2 => .close out ⟨3, []⟩
  | _ => .halt

/-- `Operate(a, b, fun x y => x - y)` after the fix: close, then drain -/
def subtractNew (a b out : Nat) (l : Loc) : A :=
  match l.pc with
  | 0 => .recv a (fun r => match r with | some v => ⟨1, [v]⟩ | none => ⟨40, []⟩)
  | 1 => .recv b (fun r => match r with | some w => ⟨2, [l.reg.headD 0 - w]⟩ | none => ⟨41, []⟩)
  | 2 => .send out (l.reg.headD 0) ⟨0, []⟩
  | 40 => .close out ⟨10, []⟩
  | 41 => .close out ⟨20, []⟩
  | 10 => .recv b (fun r => match r with | some _ => ⟨10, []⟩ | none => ⟨31, []⟩)
  | 20 => .recv a (fun r => match r with | some _ => ⟨20, []⟩ | none => ⟨31, []⟩)
  | _ => .halt

/-- processes: 0 producer, 1 Duplicate, 2 Pipe into the buffered channel, 3 Skip, 4 Subtract, 5 reader.
    channels: 0 c, 1 d0, 2 d1, 3 buffered (capacity `buf`), 4 skipped, 5 result -/
def changeNet (cap buf : Nat) : Network Loc Int where
  act := fun p l =>
    match p with
    | 0 => producer 0 l
    | 1 => dup2 0 1 2 l
    | 2 => pipe 1 3 l
    | 3 => skipM 2 4 l
    | 4 => subtractNew 4 3 5 l
    | 5 => sink 5 l
    | _ => .halt
  cap := fun c => match c with | 3 => buf | 5 => 0 | _ => cap
  rd := fun c => match c with | 0 => 1 | 1 => 2 | 2 => 3 | 3 => 4 | 4 => 4 | _ => 5
  wr := fun c => match c with | 0 => 0 | 1 => 1 | 2 => 1 | 3 => 2 | 4 => 3 | _ => 4

def changeInit (xs : List Int) (k : Nat) : St Loc Int where
  procs := fun p => match p with
    | 0 => (⟨0, xs⟩, none)
    | 3 => (⟨0, [(k : Int)]⟩, none)
    | _ => (⟨0, []⟩, none)
  chans := fun _ => ([], false)

/-- (terminal reached, clean, values delivered) for `Change(xs, k)` with input capacity `cap` and a buffer of `buf` -/
def changeRun (cap buf k : Nat) (xs : List Int) : Bool × Bool × List Int :=
  let N := changeNet cap buf
  let (s, term) := roundRobin N 6 (40 * (xs.length + 4)) (changeInit xs k)
  (term, allHaltedB N 6 s, (s.procs 5).1.reg)

/-! ### `trend.MovingSum(c, p)` = Skip(Operate(d0, Shift(d1, p, 0), sum += c − b), p−1) with d0, d1 = Duplicate(c) -/

/-- `Shift(in, out, count, 0)`: send `count` fill values, then copy; `reg` holds the remaining count -/
def shiftM (inp out : Nat) (l : Loc) : A :=
  match l.pc with
  | 0 => if l.reg.headD 0 ≤ 0 then .recv inp (fun r => match r with | some v => ⟨1, [0, v]⟩ | none => ⟨2, []⟩)
         else .send out 0 ⟨0, [l.reg.headD 0 - 1]⟩
  | 1 => .send out (l.reg.getD 1 0) ⟨0, [0]⟩
  | 2 => .close out ⟨3, []⟩
  | _ => .halt

/-- `Operate(a, b, func(c, b) { sum = sum + c - b; return sum })` (repaired Operate): `reg` holds the running sum -/
def sumOp (a b out : Nat) (l : Loc) : A :=
  match l.pc with
  | 0 => .recv a (fun r => match r with | some v => ⟨1, [l.reg.headD 0, v]⟩ | none => ⟨40, []⟩)
  | 1 => .recv b (fun r => match r with | some w => ⟨2, [l.reg.headD 0 + l.reg.getD 1 0 - w]⟩ | none => ⟨41, []⟩)
  | 2 => .send out (l.reg.headD 0) ⟨0, [l.reg.headD 0]⟩
  | 40 => .close out ⟨10, []⟩
  | 41 => .close out ⟨20, []⟩
  | 10 => .recv b (fun r => match r with | some _ => ⟨10, []⟩ | none => ⟨31, []⟩)
  | 20 => .recv a (fun r => match r with | some _ => ⟨20, []⟩ | none => ⟨31, []⟩)
  | _ => .halt

/-- processes: 0 producer, 1 Duplicate, 2 Shift, 3 the summing Operate, 4 Skip, 5 reader.
    channels: 0 c, 1 d0, 2 d1, 3 shifted (capacity `buf`; the library uses cap(d1) + p), 4 sums, 5 result -/
def msumNet (cap buf : Nat) : Network Loc Int where
  act := fun p l =>
    match p with
    | 0 => producer 0 l
    | 1 => dup2 0 1 2 l
    | 2 => shiftM 2 3 l
    | 3 => sumOp 1 3 4 l
    | 4 => skipM 4 5 l
    | 5 => sink 5 l
    | _ => .halt
  cap := fun c => match c with | 3 => buf | 4 => 0 | 5 => 0 | _ => cap
  rd := fun c => match c with | 0 => 1 | 1 => 3 | 2 => 2 | 3 => 3 | 4 => 4 | _ => 5
  wr := fun c => match c with | 0 => 0 | 1 => 1 | 2 => 1 | 3 => 2 | 4 => 3 | _ => 4

def msumInit (xs : List Int) (p : Nat) : St Loc Int where
  procs := fun q => match q with
    | 0 => (⟨0, xs⟩, none)
    | 2 => (⟨0, [(p : Int)]⟩, none)
    | 3 => (⟨0, [0]⟩, none)
    | 4 => (⟨0, [(p : Int) - 1]⟩, none)
    | _ => (⟨0, []⟩, none)
  chans := fun _ => ([], false)

/-- (terminal reached, clean, values delivered) for `MovingSum(xs, p)` with input capacity `cap` and a Shift buffer of `buf` -/
def msumRun (cap buf p : Nat) (xs : List Int) : Bool × Bool × List Int :=
  let N := msumNet cap buf
  let (s, term) := roundRobin N 6 (40 * (xs.length + p + 4)) (msumInit xs p)
  (term, allHaltedB N 6 s, (s.procs 5).1.reg)

/-! ### `trend.Ema` / `Rma` / `Smma`: the reading end of the input is handed over

    go func() { before, ok := <-sma.Compute(helper.Head(c, period)); if !ok { return }
                result <- before; for n := range c { before = upd(before, n); result <- before } }()

    `helper.Head` reads the first `period` values of `c`; the indicator's own goroutine reads the rest of `c`, but only after
    it has received the seed.  The Sma pipeline between `Head` and the seed is represented by ONE sequential process
    (`seedBox`: it emits `seed window` for every full window, as Sma does; its inner pipeline is `msumNet`). -/

/-- `Head(in, out, count)`: copy up to `count` values, then close; `reg` holds the remaining count -/
def headM (inp out : Nat) (l : Loc) : A :=
  match l.pc with
  | 0 => if l.reg.headD 0 ≤ 0 then .close out ⟨3, []⟩
         else .recv inp (fun r => match r with | some v => ⟨1, [l.reg.headD 0 - 1, v]⟩ | none => ⟨2, []⟩)
  | 1 => .send out (l.reg.getD 1 0) ⟨0, [l.reg.headD 0]⟩
  | 2 => .close out ⟨3, []⟩
  | _ => .halt

/-- the seed pipeline (Sma) as one process: `reg` is the window of the last `p` values -/
def seedBox (p : Nat) (seed : List Int → Int) (inp out : Nat) (l : Loc) : A :=
  match l.pc with
  | 0 => .recv inp (fun r => match r with
      | some v => if l.reg.length + 1 < p then ⟨0, l.reg ++ [v]⟩ else ⟨1, (l.reg ++ [v]).drop (l.reg.length + 1 - p)⟩
      | none => ⟨2, []⟩)
  | 1 => .send out (seed l.reg) ⟨0, l.reg⟩
  | 2 => .close out ⟨3, []⟩
  | _ => .halt

/-- the indicator's own goroutine: wait for the seed, emit it, then fold the rest of the input -/
def recurMain (upd : Int → Int → Int) (seedc inp out : Nat) (l : Loc) : A :=
  match l.pc with
  | 0 => .recv seedc (fun r => match r with | some v => ⟨1, [v]⟩ | none => ⟨4, []⟩)
  | 1 => .send out (l.reg.headD 0) ⟨2, l.reg⟩
  | 2 => .recv inp (fun r => match r with | some n => ⟨1, [upd (l.reg.headD 0) n]⟩ | none => ⟨4, []⟩)
  | 4 => .close out ⟨5, []⟩
  | _ => .halt

/-- processes: 0 producer, 1 Head, 2 the seed pipeline, 3 the indicator's goroutine, 4 reader.
    channels: 0 c (read by Head, later by process 3), 1 Head's output, 2 seed, 3 result.
    `rd`/`wr` play no role here: the discipline is the state property `C03.NoConflict`. -/
def recurNet (caps : Nat → Nat) (p : Nat) (seed : List Int → Int) (upd : Int → Int → Int) : Network Loc Int where
  act := fun q l =>
    match q with
    | 0 => producer 0 l
    | 1 => headM 0 1 l
    | 2 => seedBox p seed 1 2 l
    | 3 => recurMain upd 2 0 3 l
    | 4 => sink 3 l
    | _ => .halt
  cap := caps
  rd := fun c => match c with | 0 => 1 | 1 => 2 | 2 => 3 | _ => 4
  wr := fun c => match c with | 0 => 0 | 1 => 1 | 2 => 2 | _ => 3

def recurInit (xs : List Int) (p : Nat) : St Loc Int where
  procs := fun q => match q with
    | 0 => (⟨0, xs⟩, none)
    | 1 => (⟨0, [(p : Int)]⟩, none)
    | _ => (⟨0, []⟩, none)
  chans := fun _ => ([], false)

/-- EMA over the integers with an integer multiplier (for execution against the Go code) -/
def emaSeedZ (p : Nat) (w : List Int) : Int := w.sum / (p : Int)
def emaUpdZ (mul : Int) (before n : Int) : Int := (n - before) * mul + before

/-- (terminal reached, clean, values delivered) for Ema(xs, p) with multiplier `mul`, all channels of capacity `cap` -/
def emaRun (cap p : Nat) (mul : Int) (xs : List Int) : Bool × Bool × List Int :=
  let N := recurNet (fun _ => cap) p (emaSeedZ p) (emaUpdZ mul)
  let (s, term) := roundRobin N 6 (40 * (xs.length + p + 4)) (recurInit xs p)
  (term, allHaltedB N 5 s, (s.procs 4).1.reg)

end NetM
