/-
  Model of helper/bst.go as a functional tree that mirrors the pointer algorithm:
  insert-left-on-`<=`, first match on the search path, delete by in-order successor.
  The comparison operators are parameters (`le`, `lt`, `eq` : Go's `<=`, `<`, `==` on T).
  Core-only.
-/

inductive BTree (α : Type) where
  | nil : BTree α
  | node (l : BTree α) (v : α) (r : BTree α) : BTree α
  deriving Repr

namespace BTree
variable {α : Type}

def isNil : BTree α → Bool
  | nil => true
  | _ => false

def toList : BTree α → List α
  | nil => []
  | node l v r => toList l ++ v :: toList r

def size : BTree α → Nat
  | nil => 0
  | node l _ r => size l + 1 + size r

/-- preorder shape dump used by the thorough correspondence: value + child markers -/
def shape (f : α → String) : BTree α → String
  | nil => "."
  | node l v r => "(" ++ shape f l ++ " " ++ f v ++ " " ++ shape f r ++ ")"

end BTree

structure Cmp (α : Type) where
  le : α → α → Bool
  lt : α → α → Bool
  eq : α → α → Bool

namespace Bst
variable {α : Type}

def insert (c : Cmp α) (x : α) : BTree α → BTree α
  | .nil => .node .nil x .nil
  | .node l v r => if c.le x v then .node (insert c x l) v r else .node l v (insert c x r)

/-- `searchNode` : is there a node equal to `x` on the search path -/
def contains (c : Cmp α) (x : α) : BTree α → Bool
  | .nil => false
  | .node l v r => if c.eq x v then true else if c.lt x v then contains c x l else contains c x r

/-- remove the leftmost node: (its value, the remaining tree) -/
def removeMin : BTree α → Option (α × BTree α)
  | .nil => none
  | .node .nil v r => some (v, r)
  | .node (.node ll lv lr) v r =>
    match removeMin (.node ll lv lr) with
    | some (m, l') => some (m, .node l' v r)
    | none => none

/-- `removeNode` applied to the root of the given (sub)tree -/
def removeRoot : BTree α → BTree α
  | .nil => .nil
  | .node .nil _ r => r
  | .node l _ .nil => l
  | .node l v (.node rl rv rr) =>
    match removeMin (.node rl rv rr) with
    | some (m, r') => .node l m r'
    | none => .node l v (.node rl rv rr)

def remove (c : Cmp α) (x : α) : BTree α → BTree α × Bool
  | .nil => (.nil, false)
  | .node l v r =>
    if c.eq x v then (removeRoot (.node l v r), true)
    else if c.lt x v then
      let (l', b) := remove c x l
      (.node l' v r, b)
    else
      let (r', b) := remove c x r
      (.node l v r', b)

def min? : BTree α → Option α
  | .nil => none
  | .node .nil v _ => some v
  | .node (.node ll lv lr) _ _ => min? (.node ll lv lr)

def max? : BTree α → Option α
  | .nil => none
  | .node _ v .nil => some v
  | .node _ _ (.node rl rv rr) => max? (.node rl rv rr)

/-- Go `Min()` / `Max()` return `T(0)` on an empty tree -/
def minD (zero : α) (t : BTree α) : α := (min? t).getD zero
def maxD (zero : α) (t : BTree α) : α := (max? t).getD zero

/-- Go's `<=`, `<`, `==` on an integer element type -/
def intCmp : Cmp Int := { le := fun a b => a ≤ b, lt := fun a b => a < b, eq := fun a b => a == b }

/-- operations and observations of a history -/
inductive Op (α : Type) where
  | ins (x : α) | rem (x : α) | has (x : α) | min | max

inductive Obs (α : Type) where
  | unit | flag (b : Bool) | val (v : α)
  deriving DecidableEq, Repr

def stepOp (c : Cmp α) (zero : α) (t : BTree α) : Op α → BTree α × Obs α
  | .ins x => (insert c x t, .unit)
  | .rem x => let (t', b) := remove c x t; (t', .flag b)
  | .has x => (t, .flag (contains c x t))
  | .min => (t, .val (minD zero t))
  | .max => (t, .val (maxD zero t))

def run (c : Cmp α) (zero : α) : BTree α → List (Op α) → List (Obs α)
  | _, [] => []
  | t, op :: ops => let (t', o) := stepOp c zero t op; o :: run c zero t' ops

end Bst
