/-
  Model of helper/ring.go, field by field (`buffer`, `begin`, `end`, `empty`), capacities ≥ 1
  (NewRing(0) makes every operation divide by zero in Go; excluded by the property's domain).
  Core-only.
-/

structure RingBuf (α : Type) where
  zero : α            -- Go's zero value `var t T`
  buffer : List α
  begin_ : Nat
  end_ : Nat
  empty : Bool

namespace RingBuf
variable {α : Type}

def new (zero : α) (size : Nat) : RingBuf α :=
  { zero := zero, buffer := List.replicate size zero, begin_ := 0, end_ := 0, empty := true }

def cap (r : RingBuf α) : Nat := r.buffer.length

def nextIndex (r : RingBuf α) (i : Nat) : Nat := (i + 1) % r.buffer.length

def isEmpty (r : RingBuf α) : Bool := r.empty

def isFull (r : RingBuf α) : Bool := !r.empty && (r.end_ == r.begin_)

/-- `Put`: returns the new ring and the previous content of the written slot. -/
def put (r : RingBuf α) (t : α) : RingBuf α × α :=
  let b := if r.isFull then r.nextIndex r.begin_ else r.begin_
  let o := r.buffer.getD r.end_ r.zero
  ({ r with buffer := r.buffer.set r.end_ t, begin_ := b, end_ := r.nextIndex r.end_, empty := false }, o)

/-- `Get`: oldest element, `none` for Go's `(zero, false)`. -/
def get (r : RingBuf α) : RingBuf α × Option α :=
  if r.empty then (r, none)
  else
    let t := r.buffer.getD r.begin_ r.zero
    let b := r.nextIndex r.begin_
    ({ r with begin_ := b, empty := (b == r.end_) }, some t)

def atIdx (r : RingBuf α) (index : Nat) : α :=
  r.buffer.getD ((r.begin_ + index) % r.buffer.length) r.zero

/-- number of stored elements -/
def count (r : RingBuf α) : Nat :=
  if r.empty then 0
  else if r.end_ == r.begin_ then r.buffer.length
  else (r.end_ + r.buffer.length - r.begin_) % r.buffer.length

/-- abstraction: contents, oldest first -/
def toList (r : RingBuf α) : List α :=
  (List.range r.count).map (fun i => r.atIdx i)

end RingBuf
