/-
  Arith: the only interface the executable models use for numbers.
  `Float` instance = IEEE binary64 in the operation order of the Go source (execution, correspondence).
  `ℝ` instance (Proofs/ArithReal.lean) = field operations (theorems).
  Core-only: this file must not import Mathlib (the driver executable links against it).
-/

class Arith (α : Type) where
  add : α → α → α
  sub : α → α → α
  mul : α → α → α
  div : α → α → α
  neg : α → α
  abs : α → α
  sqrt : α → α
  /-- Go `math.Round` (half away from zero). -/
  round : α → α
  lt : α → α → Bool
  le : α → α → Bool
  beq : α → α → Bool
  ofNat : Nat → α

namespace Arith
variable {α : Type} [Arith α]

instance (priority := low) instAdd : Add α := ⟨Arith.add⟩
instance (priority := low) instSub : Sub α := ⟨Arith.sub⟩
instance (priority := low) instMul : Mul α := ⟨Arith.mul⟩
instance (priority := low) instDiv : Div α := ⟨Arith.div⟩
instance (priority := low) instNeg : Neg α := ⟨Arith.neg⟩

/-- numeric literal / `T(intExpr)` conversion of the Go source -/
abbrev nat (n : Nat) : α := Arith.ofNat n

/-- Go `a > b` -/
abbrev gt (a b : α) : Bool := Arith.lt b a
/-- Go `a >= b` -/
abbrev ge (a b : α) : Bool := Arith.le b a
/-- Go `a != b` -/
abbrev bne (a b : α) : Bool := !(Arith.beq a b)

/-- Go `math.Max(a, b)` for non-NaN arguments: `if a > b then a else b` differs from IEEE max only on
    NaN and signed zeros, which the harness never feeds. -/
def max (a b : α) : α := if Arith.lt a b then b else a
def min (a b : α) : α := if Arith.lt b a then b else a

/-- Go `math.Pow(x, 2)` : one rounded multiplication (see DESIGN §3.1) -/
def sq (a : α) : α := Arith.mul a a
/-- Go `math.Pow(x, -1)` : one rounded division -/
def inv (a : α) : α := Arith.div (Arith.ofNat 1) a

end Arith

instance : Arith Float where
  add := Float.add
  sub := Float.sub
  mul := Float.mul
  div := Float.div
  neg := Float.neg
  abs := Float.abs
  sqrt := Float.sqrt
  round := Float.round
  lt a b := decide (a < b)
  le a b := decide (a ≤ b)
  beq a b := a == b
  ofNat := Float.ofNat

/-- Go integer element types (`int`, `int64` without overflow): exact ring operations, `/` truncates toward zero.
    `sqrt`/`round` are the `T(math.Sqrt(float64(x)))` conversions and are not used by the integer-safe indicators. -/
instance : Arith Int where
  add := Int.add
  sub := Int.sub
  mul := Int.mul
  div := Int.tdiv
  neg := Int.neg
  abs a := Int.ofNat a.natAbs
  sqrt a := Int.ofNat (Nat.sqrt a.toNat)
  round a := a
  lt a b := decide (a < b)
  le a b := decide (a ≤ b)
  beq a b := a == b
  ofNat n := Int.ofNat n
