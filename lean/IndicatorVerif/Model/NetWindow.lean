import IndicatorVerif.Model.NetMachines
/-
  The window pipelines: `trend.MovingSum`, `trend.MovingMax`, `trend.MovingMin` (and through them Donchian, Stochastic,
  Williams %R, Aroon, …) are ONE network
      cs := Duplicate(c, 2); cs[1] = Shift(cs[1], p, 0); out := Operate(cs[0], cs[1], closure); Skip(out, p−1)
  whose `Operate` closure keeps state between calls (a running sum; a search tree holding the window).  The control flow
  of the network does not depend on the closure: `winOp f` is the repaired Operate with an ARBITRARY stateful closure
  `f : state → c → b → new state × result`, the state being a list of integers.
  Core-only, executable.
-/
namespace NetM
open Net

/-- `Operate(a, b, closure)` (repaired Operate: close, then drain) with a closure that keeps a state.
    `reg` is the state at pc 0, `pending value :: state` at pc 1, `result :: new state` at pc 2. -/
def winOp (f : List Int → Int → Int → List Int × Int) (a b out : Nat) (l : Loc) : A :=
  match l.pc with
  | 0 => .recv a (fun r => match r with | some v => ⟨1, v :: l.reg⟩ | none => ⟨40, []⟩)
  | 1 => .recv b (fun r => match r with
      | some w => ⟨2, (f l.reg.tail (l.reg.headD 0) w).2 :: (f l.reg.tail (l.reg.headD 0) w).1⟩
      | none => ⟨41, []⟩)
  | 2 => .send out (l.reg.headD 0) ⟨0, l.reg.tail⟩
  | 40 => .close out ⟨10, []⟩
  | 41 => .close out ⟨20, []⟩
  | 10 => .recv b (fun r => match r with | some _ => ⟨10, []⟩ | none => ⟨31, []⟩)
  | 20 => .recv a (fun r => match r with | some _ => ⟨20, []⟩ | none => ⟨31, []⟩)
  | _ => .halt

/-- processes: 0 producer, 1 Duplicate, 2 Shift, 3 the stateful Operate, 4 Skip, 5 reader.
    channels: 0 c, 1 d0, 2 d1, 3 shifted (capacity `buf`; the library uses cap(d1) + p), 4 results, 5 delivered -/
def winNet (f : List Int → Int → Int → List Int × Int) (cap buf : Nat) : Network Loc Int where
  act := fun p l =>
    match p with
    | 0 => producer 0 l
    | 1 => dup2 0 1 2 l
    | 2 => shiftM 2 3 l
    | 3 => winOp f 1 3 4 l
    | 4 => skipM 4 5 l
    | 5 => sink 5 l
    | _ => .halt
  cap := fun c => match c with | 3 => buf | 4 => 0 | 5 => 0 | _ => cap
  rd := fun c => match c with | 0 => 1 | 1 => 3 | 2 => 2 | 3 => 3 | 4 => 4 | _ => 5
  wr := fun c => match c with | 0 => 0 | 1 => 1 | 2 => 1 | 3 => 2 | 4 => 3 | _ => 4

def winInit (st0 : List Int) (xs : List Int) (p : Nat) : St Loc Int where
  procs := fun q => match q with
    | 0 => (⟨0, xs⟩, none)
    | 2 => (⟨0, [(p : Int)]⟩, none)
    | 3 => (⟨0, st0⟩, none)
    | 4 => (⟨0, [(p : Int) - 1]⟩, none)
    | _ => (⟨0, []⟩, none)
  chans := fun _ => ([], false)

/-- (terminal reached, clean, values delivered) for the window pipeline with closure `f`, initial closure state `st0`,
    input capacity `cap` and a Shift buffer of `buf` -/
def winRun (f : List Int → Int → Int → List Int × Int) (st0 : List Int) (cap buf p : Nat) (xs : List Int) :
    Bool × Bool × List Int :=
  let N := winNet f cap buf
  let (s, term) := roundRobin N 6 (40 * (xs.length + p + 4)) (winInit st0 xs p)
  (term, allHaltedB N 6 s, (s.procs 5).1.reg)

/-- the closure of `trend.MovingSum`: `sum = sum + c − b` (state: one number) -/
def sumStepW (st : List Int) (c b : Int) : List Int × Int :=
  let s := st.headD 0 + c - b
  ([s], s)

/-- maximum / minimum of a list (0 for the empty list, which the window never is) -/
def lmax : List Int → Int
  | [] => 0
  | h :: t => t.foldl max h
def lmin : List Int → Int
  | [] => 0
  | h :: t => t.foldl min h

/-- the window update shared by `trend.MovingMax` and `trend.MovingMin`; state = insertion count :: window
    (the search tree as the list of its values, in insertion order):
    `bst.Insert(c); if inserted < Period { inserted++ } else { bst.Remove(b) }` -/
def windowStep (p : Nat) (st : List Int) (c b : Int) : List Int :=
  if st.headD 0 < (p : Int) then (st.headD 0 + 1) :: (st.tail ++ [c])
  else st.headD 0 :: (st.tail ++ [c]).erase b

/-- update the window, return `g` of it -/
def pickStep (g : List Int → Int) (p : Nat) (st : List Int) (c b : Int) : List Int × Int :=
  (windowStep p st c b, g (windowStep p st c b).tail)

/-- the closure of `trend.MovingMax`: update the window, `return bst.Max()`; initial state `[0]` -/
def maxStep (p : Nat) : List Int → Int → Int → List Int × Int := pickStep lmax p

/-- the closure of `trend.MovingMin`: update the window, `return bst.Min()`; initial state `[0]` -/
def minStep (p : Nat) : List Int → Int → Int → List Int × Int := pickStep lmin p

end NetM
