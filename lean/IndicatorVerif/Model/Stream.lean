import IndicatorVerif.Model.Ring
/-
  Sequential-goroutine models of helper/*.go.

  Each helper is one goroutine doing blocking receives and sends.  Its model is the function from
  its complete input streams (lists, the channel being closed after the last element) to
  (a) its complete output stream and (b) what it leaves *unread* on every input ("rest"), written
  as a recursion that mirrors the Go loop statement by statement.  The slice counterparts
  ("what a reader of the doc comment expects") are the `…S` functions; Props/C16 proves M = S.
  Core-only.
-/

namespace Stream
variable {α β γ ρ : Type}

/-! ### single-input helpers -/

/-- Pipe / Buffered / Waitable / Drain-free copy: `for n := range f { t <- n }` -/
def pipeM : List α → List α
  | [] => []
  | n :: t => n :: pipeM t

/-- Map / Apply / Field: `for n := range c { mc <- f(n) }` -/
def mapM (f : α → β) : List α → List β
  | [] => []
  | n :: t => f n :: mapM f t

/-- MapWithPrevious: `previous = f(previous, n); mc <- previous` -/
def mapWithPreviousM (f : β → α → β) (previous : β) : List α → List β
  | [] => []
  | n :: t => let p := f previous n; p :: mapWithPreviousM f p t

/-- Filter -/
def filterM (p : α → Bool) : List α → List α
  | [] => []
  | n :: t => if p n then n :: filterM p t else filterM p t

/-- Skip: `for i < count { _, ok := <-c; if !ok break }; Pipe(c, result)` -/
def skipM : Nat → List α → List α
  | 0, l => pipeM l
  | _ + 1, [] => pipeM []
  | k + 1, _ :: t => skipM k t

/-- Head: at most `count` receives, no drain.  Returns (output, unread rest). -/
def headM : Nat → List α → List α × List α
  | 0, l => ([], l)
  | _ + 1, [] => ([], [])
  | k + 1, n :: t => let (o, r) := headM k t; (n :: o, r)

/-- First: like Head, then `Drain(c)`: rest is always empty. -/
def firstM (count : Nat) (l : List α) : List α × List α :=
  ((headM count l).1, [])

/-- Shift: `count` fills, then Pipe -/
def shiftM (count : Nat) (fill : α) (l : List α) : List α :=
  List.replicate count fill ++ pipeM l

/-- Last: fill a ring of `count`, then empty it with Get -/
def lastDrain : Nat → RingBuf α → List α
  | 0, _ => []
  | fuel + 1, r =>
    if r.isEmpty then [] else
    match r.get with
    | (r', some n) => n :: lastDrain fuel r'
    | (_, none) => []

def lastM (zero : α) (count : Nat) (l : List α) : List α :=
  let ring := l.foldl (fun r n => (r.put n).1) (RingBuf.new zero count)
  lastDrain count ring

/-- Count: `for i := from; ; i++ { _, ok := <-other; if !ok break; c <- i }` -/
def countM (succ : β → β) : β → List α → List β
  | _, [] => []
  | i, _ :: t => i :: countM succ (succ i) t

/-- Since: counts how long the value has been unchanged -/
def sinceStep (beq : α → α → Bool) (succ : β → β) (zeroR : β)
    (st : Option α × β) (n : α) : (Option α × β) :=
  match st with
  | (none, _) => (some n, zeroR)
  | (some last, cnt) => if beq last n then (some last, succ cnt) else (some n, zeroR)

def sinceM (beq : α → α → Bool) (succ : β → β) (zeroR : β) : Option α × β → List α → List β
  | _, [] => []
  | st, n :: t =>
    let st' := sinceStep beq succ zeroR st n
    st'.2 :: sinceM beq succ zeroR st' t

/-- Echo: copy the input while remembering the last `last` values, then repeat them `count` times -/
def echoM (zero : α) (last count : Nat) (l : List α) : List α :=
  let memory := l.foldl (fun r n => (r.put n).1) (RingBuf.new zero last)
  pipeM l ++ (List.replicate count ((List.range last).map (fun j => memory.atIdx j))).flatten

/-- Seq over integers with a positive increment (`for i := from; i < to; i += increment`) -/
def seqM (from_ to_ inc : Int) (fuel : Nat) : List Int :=
  match fuel with
  | 0 => []
  | fuel + 1 => if from_ < to_ then from_ :: seqM (from_ + inc) to_ inc fuel else []

/-! ### Duplicate: every output receives every value, in order -/
def duplicateM (count : Nat) (l : List α) : List (List α) :=
  List.replicate count (pipeM l)

/-! ### multi-input helpers: (output, unread rest of each input) -/

/-- Operate: read a, then b; on either end drain the *other* input, then close. -/
def operateM (o : α → β → ρ) : List α → List β → List ρ × List α × List β
  | [], _ => ([], [], [])              -- `Drain(bc)`
  | _ :: _, [] => ([], [], [])         -- `Drain(ac)`
  | a :: as, b :: bs =>
    let (out, ra, rb) := operateM o as bs
    (o a b :: out, ra, rb)

/-- Operate3: read a, b, c; at the end drain all three. -/
def operate3M (o : α → β → γ → ρ) : List α → List β → List γ → List ρ × List α × List β × List γ
  | a :: as, b :: bs, c :: cs =>
    let (out, r) := operate3M o as bs cs
    (o a b c :: out, r)
  | _, _, _ => ([], [], [], [])

/-! ### derived helpers, composed exactly as in the Go source -/

/-- Change: `Subtract(Skip(cs[1], before), Buffered(cs[0], before))` -/
def changeM (sub : α → α → α) (before : Nat) (l : List α) : List α :=
  (operateM sub (skipM before (pipeM l)) (pipeM (pipeM l))).1

/-- ChangeRatio: `Divide(Change(cs[0], before), Buffered(cs[1], before))` -/
def changeRatioM (sub div : α → α → α) (before : Nat) (l : List α) : List α :=
  (operateM div (changeM sub before (pipeM l)) (pipeM (pipeM l))).1

def changePercentM (sub div mul : α → α → α) (hundred : α) (before : Nat) (l : List α) : List α :=
  mapM (fun n => mul n hundred) (changeRatioM sub div before l)

/-! ### slice counterparts -/

def skipS (k : Nat) (l : List α) : List α := l.drop k
def headS (k : Nat) (l : List α) : List α := l.take k
def lastS (k : Nat) (l : List α) : List α := l.drop (l.length - k)
def shiftS (k : Nat) (fill : α) (l : List α) : List α := List.replicate k fill ++ l
def operateS (o : α → β → ρ) (as : List α) (bs : List β) : List ρ := List.zipWith o as bs
def operate3S (o : α → β → γ → ρ) (as : List α) (bs : List β) (cs : List γ) : List ρ :=
  List.zipWith (fun (p : α × β) c => o p.1 p.2 c) (List.zip as bs) cs
def changeS (sub : α → α → α) (k : Nat) (l : List α) : List α := List.zipWith sub (l.drop k) l
def changeRatioS (sub div : α → α → α) (k : Nat) (l : List α) : List α :=
  List.zipWith (fun cur old => div (sub cur old) old) (l.drop k) l
def iter (f : β → β) : Nat → β → β
  | 0, b => b
  | n + 1, b => iter f n (f b)
def countS (succ : β → β) (from_ : β) (l : List α) : List β :=
  (List.range l.length).map (fun i => iter succ i from_)
/-- run-length counter: number of immediately preceding equal values (0 at a change) -/
def sinceS (beq : α → α → Bool) : List α → List Nat
  | [] => []
  | x :: t => go x 0 t
where go (last : α) (cnt : Nat) : List α → List Nat
  | [] => [cnt]
  | y :: t => cnt :: (if beq last y then go last (cnt + 1) t else go y 0 t)

end Stream
