/-
  Process networks: the class of programs every pipeline of the library belongs to.

  * a process is a sequential automaton whose next operation is a function of its local state:
    a blocking receive, a blocking send, a close, or nothing more (halt) — no select, no len(ch);
  * a channel is a FIFO queue with a capacity, a closed flag, one reader and one writer;
  * an unbuffered channel (capacity 0) is a one-slot queue whose writer, after putting a value in,
    waits until the reader has taken it (`sync`) — the rendezvous of Go, observable only through
    blocking operations;
  * a send on a closed channel or a second close has no step (Go panics; the library never does it).

  `step N p s` is the (unique) step of process `p` in state `s`, if it is enabled.  The scheduler
  (GOMAXPROCS, pacing of producers and consumers — which are processes too) is the choice of `p`.
  Core-only: the definitions are executable (`runFuel`) and used by the driver.
-/
namespace Net

inductive Act (L V : Type) where
  | recv (c : Nat) (k : Option V → L)
  | send (c : Nat) (v : V) (k : L)
  | close (c : Nat) (k : L)
  | halt

structure Network (L V : Type) where
  act : Nat → L → Act L V
  cap : Nat → Nat
  rd : Nat → Nat
  wr : Nat → Nat

/-- local state and the unbuffered channel whose hand-over the process is waiting for -/
abbrev PS (L : Type) := L × Option Nat
/-- queue (oldest first) and closed flag -/
abbrev CS (V : Type) := List V × Bool

inductive Op (L V : Type) where
  | rd (c : Nat) (k : Option V → L)
  | snd (c : Nat) (v : V) (k : L)
  | cls (c : Nat) (k : L)
  | sync (c : Nat)
  | halt

variable {L V : Type}

def opOf (N : Network L V) (p : Nat) (ps : PS L) : Op L V :=
  match ps.2 with
  | some c => .sync c
  | none =>
    match N.act p ps.1 with
    | .recv c k => .rd c k
    | .send c v k => .snd c v k
    | .close c k => .cls c k
    | .halt => .halt

def Op.chan : Op L V → Option Nat
  | .rd c _ => some c
  | .snd c _ _ => some c
  | .cls c _ => some c
  | .sync c => some c
  | .halt => none

def Op.isReader : Op L V → Bool
  | .rd _ _ => true
  | _ => false

def Op.isWriter : Op L V → Bool
  | .snd _ _ _ => true
  | .cls _ _ => true
  | .sync _ => true
  | _ => false

/-- effect of an operation on its channel: new process state and new channel state, if enabled -/
def Op.fire (cap : Nat) (l : L) : Op L V → CS V → Option (PS L × CS V)
  | .rd _ k, (v :: rest, cl) => some ((k (some v), none), (rest, cl))
  | .rd _ k, ([], true) => some ((k none, none), ([], true))
  | .rd _ _, ([], false) => none
  | .snd c v k, (q, false) =>
    if q.length < max 1 cap then some ((k, if cap = 0 then some c else none), (q ++ [v], false)) else none
  | .snd _ _ _, (_, true) => none
  | .cls _ k, (q, false) => some ((k, none), (q, true))
  | .cls _ _, (_, true) => none
  | .sync _, ([], cl) => some ((l, none), ([], cl))
  | .sync _, (_ :: _, _) => none
  | .halt, _ => none

def upd {α : Type} (f : Nat → α) (i : Nat) (v : α) : Nat → α := fun j => if j = i then v else f j

structure St (L V : Type) where
  procs : Nat → PS L
  chans : Nat → CS V

def step (N : Network L V) (p : Nat) (s : St L V) : Option (St L V) :=
  match (opOf N p (s.procs p)).chan with
  | none => none
  | some c =>
    match (opOf N p (s.procs p)).fire (N.cap c) (s.procs p).1 (s.chans c) with
    | none => none
    | some (ps', cs') => some ⟨upd s.procs p ps', upd s.chans c cs'⟩

/-- a schedule: the sequence of processes that take a step -/
def run (N : Network L V) : List Nat → St L V → Option (St L V)
  | [], s => some s
  | p :: t, s => (step N p s).bind (run N t)

/-- no process can move -/
def Terminal (N : Network L V) (s : St L V) : Prop := ∀ p, step N p s = none

/-- every process has finished -/
def AllHalted (N : Network L V) (s : St L V) : Prop :=
  ∀ p, (s.procs p).2 = none ∧ N.act p (s.procs p).1 = .halt

/-- round-robin scheduler over processes `0 … n-1`, for execution: returns the state reached when no process
    moved during a whole round (a terminal state) or the fuel ran out -/
def roundRobin (N : Network L V) (n : Nat) : Nat → St L V → St L V × Bool
  | 0, s => (s, false)
  | fuel + 1, s =>
    let (s', moved) := (List.range n).foldl
      (fun (acc : St L V × Bool) p => match step N p acc.1 with
        | some s'' => (s'', true)
        | none => acc) (s, false)
    if moved then roundRobin N n fuel s' else (s', true)

end Net
