/-
  Models of asset/ (repositories, Sync), helper/csv.go at row level (file = optional list of rows),
  backtest/ (report-call trace).  Core-only.
-/

structure Snap where
  day : Nat
  id : Nat
  deriving DecidableEq, Repr

namespace Repo

/-- insertion-ordered association list with unique keys -/
abbrev Store := List (String × List Snap)

def lookup : Store → String → Option (List Snap)
  | [], _ => none
  | (k, v) :: t, n => if k == n then some v else lookup t n

def append : Store → String → List Snap → Store
  | [], n, xs => [(n, xs)]
  | (k, v) :: t, n, xs => if k == n then (k, v ++ xs) :: t else (k, v) :: append t n xs

inductive Op where
  | append (n : String) (xs : List Snap)
  | get (n : String)
  | since (n : String) (d : Nat)
  | last (n : String)
  | assets

inductive Obs where
  | done
  | snaps (l : Option (List Snap))     -- none = error
  | day (d : Option Nat)
  | names (l : List String)
  deriving DecidableEq, Repr

def sinceF (d : Nat) (l : List Snap) : List Snap := l.filter (fun s => d ≤ s.day)

def insertSorted (x : String) : List String → List String
  | [] => [x]
  | y :: t => if x ≤ y then x :: y :: t else y :: insertSorted x t
def sortNames (l : List String) : List String := l.foldr insertSorted []

/-- in-memory repository = file-system repository at row level (the header handling is C11) -/
def memStep (s : Store) : Op → Store × Obs
  | .append n xs => (append s n xs, .done)
  | .get n => (s, .snaps (lookup s n))
  | .since n d => (s, .snaps ((lookup s n).map (sinceF d)))
  | .last n => (s, .day ((lookup s n).bind (fun l => l.getLast?.map (·.day))))
  | .assets => (s, .names (sortNames (s.map (·.1))))

/-- SQL repository over a conforming table: rows in insertion order -/
abbrev Table := List (String × Snap)

def rowsOf (t : Table) (n : String) : List Snap := (t.filter (fun r => r.1 == n)).map (·.2)

def dedup : List String → List String
  | [] => []
  | x :: t => if t.contains x then dedup t else x :: dedup t

def sqlStep (t : Table) : Op → Table × Obs
  | .append n xs => (t ++ xs.map (fun x => (n, x)), .done)
  | .get n => (t, .snaps (some (rowsOf t n)))                       -- as written: no error for an unknown asset
  | .since n d => (t, .snaps (some (sinceF d (rowsOf t n))))
  | .last n => (t, .day ((rowsOf t n).getLast?.map (·.day)))
  | .assets => (t, .names (sortNames (dedup (t.map (·.1)))))

def runMem (s : Store) : List Op → List Obs
  | [] => []
  | op :: ops => let (s', o) := memStep s op; o :: runMem s' ops

def runSql (t : Table) : List Op → List Obs
  | [] => []
  | op :: ops => let (t', o) := sqlStep t op; o :: runSql t' ops

end Repo

namespace SyncM
open Repo

/-- the day Sync starts copying from: the day after the target's last snapshot, or the default start -/
def startDay (held : Option (List Snap)) (default : Nat) : Nat :=
  match held.bind (fun l => l.getLast?.map (·.day)) with
  | some d => d + 1
  | none => default

/-- one job of Sync.Run for asset `name`: (new target, error?) -/
def syncOne (src tgt : Store) (default : Nat) (failGet failAppend : String → Bool) (name : String) : Store × Bool :=
  let start := startDay (lookup tgt name) default
  if failGet name then (tgt, true) else
  match lookup src name with
  | none => (tgt, true)                       -- source.GetSince fails for an unknown asset
  | some l =>
    if failAppend name then (tgt, true) else (append tgt name (sinceF start l), false)

/-- Sync.Run with one worker: the jobs in list order; the error flag is the disjunction -/
def run (src : Store) (default : Nat) (failGet failAppend : String → Bool) : Store → List String → Store × Bool
  | tgt, [] => (tgt, false)
  | tgt, n :: rest =>
    let (t1, e1) := syncOne src tgt default failGet failAppend n
    let (t2, e2) := run src default failGet failAppend t1 rest
    (t2, e1 || e2)

end SyncM

namespace CsvFile
/-- a CSV file at row level: `none` = missing, `some (h, rows)`: h = has a header line (false for a 0-byte file) -/
abbrev File := Option (Bool × List Nat)

def write (_ : File) (rows : List Nat) : File := some (true, rows)                 -- O_CREATE|O_TRUNC + header
def appendF : File → List Nat → Option File
  | none, _ => none                                                                -- O_APPEND without O_CREATE: error
  | some (h, old), rows => some (some (h, old ++ rows))
def appendOrWrite : File → List Nat → File
  | none, rows => write none rows
  | some (false, []), rows => write none rows                                      -- existing 0-byte file
  | some (h, old), rows => some (h, old ++ rows)
/-- reading with a header: a 0-byte file yields nothing (header read fails, logged) -/
def read : File → Option (List Nat)
  | none => none
  | some (false, _) => some []
  | some (true, rows) => some rows

end CsvFile

namespace Backtest
/-- report calls -/
inductive Ev where
  | begin_ | assetBegin (a : String) | write (a s : String) | assetEnd (a : String) | end_
  deriving DecidableEq, Repr

def block (strategies : List String) (a : String) : List Ev :=
  [Ev.assetBegin a] ++ strategies.map (Ev.write a) ++ [Ev.assetEnd a]

/-- one worker: the blocks in order -/
def runSeq (names strategies : List String) : List Ev :=
  [Ev.begin_] ++ (names.map (block strategies)).flatten ++ [Ev.end_]

/-- `Interleave ls l`: `l` is an interleaving of the lists `ls` (each keeps its internal order) -/
inductive Interleave : List (List Ev) → List Ev → Prop where
  | nil : Interleave [] []
  | skipEmpty (ls : List (List Ev)) (l : List Ev) : Interleave ls l → Interleave ([] :: ls) l
  | take (pre post : List (List Ev)) (e : Ev) (t : List Ev) (l : List Ev) :
      Interleave (pre ++ [t] ++ post) l → Interleave (pre ++ [e :: t] ++ post) (e :: l)

end Backtest
