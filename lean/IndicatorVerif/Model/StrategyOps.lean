import IndicatorVerif.Model.Arith
/-
  Action words and the strategy combinators / decorators / outcome, as list functions that mirror
  the Go closures (strategy/action.go, outcome.go, and_/or_/majority_/split_strategy.go,
  compound/macd_rsi_strategy.go, decorator/*.go).  Core-only.
-/
inductive Action where
  | sell | hold | buy
  deriving DecidableEq, Repr, Inhabited

namespace Action

def toInt : Action → Int
  | sell => -1 | hold => 0 | buy => 1

def ofInt (i : Int) : Action := if i == 1 then buy else if i == -1 then sell else hold

/-- NormalizeActions: `last := Sell`; emit a ≠ Hold only when it differs from the last emitted -/
def normalizeFrom : Action → List Action → List Action
  | _, [] => []
  | last, a :: t =>
    if a ≠ hold ∧ a ≠ last then a :: normalizeFrom a t else hold :: normalizeFrom last t
def normalize (l : List Action) : List Action := normalizeFrom sell l

/-- DenormalizeActions: `last := Hold`; repeat the standing recommendation -/
def denormalizeFrom : Action → List Action → List Action
  | _, [] => []
  | last, a :: t =>
    let last' := if a ≠ hold ∧ a ≠ last then a else last
    last' :: denormalizeFrom last' t
def denormalize (l : List Action) : List Action := denormalizeFrom hold l

/-- CountTransactions -/
def countTransactionsFrom : Nat → List Action → List Nat
  | _, [] => []
  | n, a :: t => let n' := if a ≠ hold then n + 1 else n; n' :: countTransactionsFrom n' t
def countTransactions (l : List Action) : List Nat := countTransactionsFrom 0 l

/-- CountActions over the heads of all sources; `none` as soon as one source is exhausted -/
def heads : List (List Action) → Option (List Action × List (List Action))
  | [] => some ([], [])
  | [] :: _ => none
  | (a :: t) :: rest =>
    match heads rest with
    | some (hs, ts) => some (a :: hs, t :: ts)
    | none => none

def countOf (x : Action) (l : List Action) : Nat := (l.filter (· == x)).length

/-- generic vote combinator: sources are already denormalised; `fuel` bounds the (finite) length -/
def voteLoop (decide : (buy hold sell : Nat) → Action) : Nat → List (List Action) → List Action
  | 0, _ => []
  | fuel + 1, srcs =>
    match heads srcs with
    | none => []
    | some (hs, ts) => decide (countOf buy hs) (countOf hold hs) (countOf sell hs) :: voteLoop decide fuel ts

def minLen : List (List Action) → Nat
  | [] => 0
  | [l] => l.length
  | l :: rest => Nat.min l.length (minLen rest)

/-- And / Or / Majority over k ≥ 1 wrapped strategies' raw action streams -/
def andS (srcs : List (List Action)) : List Action :=
  let k := srcs.length
  voteLoop (fun b _ s => if s = k then sell else if b = k then buy else hold) (minLen srcs) (srcs.map denormalize)
def orS (srcs : List (List Action)) : List Action :=
  voteLoop (fun b _ s => if s > 0 ∧ b = 0 then sell else if b > 0 ∧ s = 0 then buy else hold)
    (minLen srcs) (srcs.map denormalize)
def majorityS (srcs : List (List Action)) : List Action :=
  voteLoop (fun b h s => if s > b ∧ s > h then sell else if b > s ∧ b > h then buy else hold)
    (minLen srcs) (srcs.map denormalize)

/-- Split: Buy from the first, Sell from the second, Hold on conflict -/
def splitS : List Action → List Action → List Action
  | b :: bt, s :: st =>
    (if b = buy ∧ s ≠ sell then buy else if s = sell ∧ b ≠ buy then sell else hold) :: splitS bt st
  | _, _ => []

/-- MACD-RSI: agreement of the two denormalised streams -/
def agreeS (a b : List Action) : List Action :=
  List.zipWith (fun x y => if x = y then x else hold) (denormalize a) (denormalize b)

def inverse : Action → Action
  | buy => sell | sell => buy | hold => hold
def inverseS (l : List Action) : List Action := l.map inverse

end Action

namespace StratOps
open Action
variable {α : Type} [Arith α]

/-- NoLoss: `boughtAt == 0` means "not invested" -/
def noLossFrom (boughtAt : α) : List Action → List α → List Action
  | a :: at_, c :: ct =>
    if a = buy ∧ Arith.beq boughtAt (Arith.nat 0) then buy :: noLossFrom c at_ ct
    else if a = sell ∧ Arith.bne boughtAt (Arith.nat 0) ∧ Arith.lt boughtAt c then sell :: noLossFrom (Arith.nat 0) at_ ct
    else hold :: noLossFrom boughtAt at_ ct
  | _, _ => []
def noLossS (actions : List Action) (closings : List α) : List Action := noLossFrom (Arith.nat 0) actions closings

/-- StopLoss: `stopLossAt == 0` means "not invested" -/
def stopLossFrom (pct : α) (stopLossAt : α) : List Action → List α → List Action
  | a :: at_, c :: ct =>
    if a = buy ∧ Arith.beq stopLossAt (Arith.nat 0) then buy :: stopLossFrom pct (c * (Arith.nat 1 - pct)) at_ ct
    else if Arith.bne stopLossAt (Arith.nat 0) ∧ (a = sell ∨ Arith.le c stopLossAt)
      then sell :: stopLossFrom pct (Arith.nat 0) at_ ct
    else hold :: stopLossFrom pct stopLossAt at_ ct
  | _, _ => []
def stopLossS (pct : α) (actions : List Action) (closings : List α) : List Action :=
  stopLossFrom pct (Arith.nat 0) actions closings

/-- Outcome: all-in / all-out portfolio; state (balance, shares) -/
def outcomeFrom (balance shares : α) : List α → List Action → List α
  | v :: vt, a :: at_ =>
    let (b', s') :=
      if Arith.gt balance (Arith.nat 0) ∧ a = buy then (Arith.nat 0, balance / v)
      else if Arith.gt shares (Arith.nat 0) ∧ a = sell then (shares * v, Arith.nat 0)
      else (balance, shares)
    (b' + (s' * v) - Arith.nat 1) :: outcomeFrom b' s' vt at_
  | _, _ => []
def outcome (values : List α) (actions : List Action) : List α := outcomeFrom (Arith.nat 1) (Arith.nat 0) values actions

end StratOps
