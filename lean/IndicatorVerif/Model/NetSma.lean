import IndicatorVerif.Model.NetMachines
/-
  `trend.Sma(c, p)` as a process network:
      Sma.Compute(c) = helper.Apply(MovingSum(p).Compute(c), func(sum) { return sum / p })
  i.e. the MovingSum pipeline (`NetM.msumNet`) followed by the goroutine of `helper.Apply`
      ac := make(chan T); go func() { defer close(ac); for n := range c { ac <- f(n) } }()
  (`mapM`; `helper.Map`, `helper.DivideBy`, `helper.MultiplyBy`, … are the same goroutine with another `f`).
  Core-only, executable.
-/
namespace NetM
open Net

/-- `Apply(in, f)` / `Map(in, f)`: receive, send `f v`, … then close -/
def mapM (f : Int → Int) (inp out : Nat) (l : Loc) : A :=
  match l.pc with
  | 0 => .recv inp (fun r => match r with | some v => ⟨1, [f v]⟩ | none => ⟨2, []⟩)
  | 1 => .send out (l.reg.headD 0) ⟨0, []⟩
  | 2 => .close out ⟨3, []⟩
  | _ => .halt

/-- processes: 0 producer, 1 Duplicate, 2 Shift, 3 the summing Operate, 4 Skip, 5 Apply(sum / p), 6 reader.
    channels: 0 c, 1 d0, 2 d1, 3 shifted (capacity `buf`; the library uses cap(d1) + p), 4 sums, 5 skipped sums,
    6 result (`Apply` makes an unbuffered channel) -/
def smaNet (cap buf : Nat) (p : Nat) : Network Loc Int where
  act := fun q l =>
    match q with
    | 0 => producer 0 l
    | 1 => dup2 0 1 2 l
    | 2 => shiftM 2 3 l
    | 3 => sumOp 1 3 4 l
    | 4 => skipM 4 5 l
    | 5 => mapM (fun s => s / (p : Int)) 5 6 l
    | 6 => sink 6 l
    | _ => .halt
  cap := fun c => match c with | 3 => buf | 4 => 0 | 5 => 0 | 6 => 0 | _ => cap
  rd := fun c => match c with | 0 => 1 | 1 => 3 | 2 => 2 | 3 => 3 | 4 => 4 | 5 => 5 | _ => 6
  wr := fun c => match c with | 0 => 0 | 1 => 1 | 2 => 1 | 3 => 2 | 4 => 3 | 5 => 4 | _ => 5

def smaInit (xs : List Int) (p : Nat) : St Loc Int where
  procs := fun q => match q with
    | 0 => (⟨0, xs⟩, none)
    | 2 => (⟨0, [(p : Int)]⟩, none)
    | 3 => (⟨0, [0]⟩, none)
    | 4 => (⟨0, [(p : Int) - 1]⟩, none)
    | _ => (⟨0, []⟩, none)
  chans := fun _ => ([], false)

/-- (terminal reached, clean, values delivered) for `Sma(xs, p)` with input capacity `cap` and a Shift buffer of `buf` -/
def smaRun (cap buf p : Nat) (xs : List Int) : Bool × Bool × List Int :=
  let N := smaNet cap buf p
  let (s, term) := roundRobin N 7 (40 * (xs.length + p + 4)) (smaInit xs p)
  (term, allHaltedB N 7 s, (s.procs 6).1.reg)

end NetM
