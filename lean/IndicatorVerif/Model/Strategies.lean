import IndicatorVerif.Model.Registry
/-
  Base strategies (strategy/trend, momentum, volatility, volume + BuyAndHold) as Sig terms.
  Snapshot fields are inputs 0..4 = open, high, low, close, volume.  Actions are encoded as numbers
  (Go `Action` is an int): Buy = 1, Sell = -1, Hold = 0.  Every body ends with the Go
  `Shift(actions, <idle>, Hold)`.  Core-only.
-/
namespace Strat
open Sig Ind Arith
variable {α : Type} [Arith α]

abbrev buy : α := nat 1
abbrev sell : α := Arith.neg (nat 1)
abbrev hold : α := nat 0

def sOpen : Sig α := input 0
def sHigh : Sig α := input 1
def sLow : Sig α := input 2
def sClose : Sig α := input 3
def sVol : Sig α := input 4

/-- helper.SyncPeriod(common, period, c) -/
def syncPeriod (common period : Nat) (c : Sig α) : Sig α :=
  if common - period > 0 then skip (common - period) c else c

/-- rule closures -/
def gtRule (a b : α) : α := if Arith.gt a b then buy else if Arith.gt b a then sell else hold
def signRule (v : α) : α := if Arith.gt v hold then buy else if Arith.lt v hold then sell else hold
def crossRule (b c : α) : α :=
  if Arith.ge c hold && Arith.lt b hold then buy else if Arith.le c hold && Arith.gt b hold then sell else hold

def alligator (jaw teeth lip : Nat) : Sig α :=
  let common := Nat.max (Nat.max jaw teeth) lip
  let j := syncPeriod common jaw (smma jaw sClose)
  let t := syncPeriod common teeth (smma teeth sClose)
  let l := syncPeriod common lip (smma lip sClose)
  shift common hold (zip3 (fun jaw teeth lip =>
    if Arith.gt lip teeth && Arith.gt lip jaw then buy
    else if Arith.lt lip teeth && Arith.lt lip jaw then sell else hold) j t l)

def apoS (fast slow : Nat) : Sig α :=
  let a := apo fast slow two two sClose
  shift slow hold (zip crossRule (lag 1 a) (skip 1 a))

def aroonS (p : Nat) : Sig α :=
  let up := aroonLine p (movingMax p sHigh)
  let down := aroonLine p (movingMin p sLow)
  shift (p - 1) hold (zip gtRule up down)

def bopS : Sig α := map signRule (bop sOpen sHigh sLow sClose)

/-- as written: the high price feeds all three CCI inputs -/
def cciS (p : Nat) : Sig α :=
  shift (p * 2 - 2) hold
    (map (fun c => if Arith.ge c (nat 100) then buy else if Arith.le c (Arith.neg (nat 100)) then sell else hold)
      (cci p sHigh sHigh sHigh))

/-- DEMA strategy; each DEMA has its own two EMA periods (`Dema.Ema1.Period`, `Dema.Ema2.Period`) -/
def demaS (p1 q1 p2 q2 : Nat) : Sig α :=
  let d1 := shift (p1 + q1 - 2) zero (dema p1 q1 sClose)
  let d2 := shift (p2 + q2 - 2) zero (dema p2 q2 sClose)
  shift (p2 + q2 - 2) hold (skip (p2 + q2 - 2) (zip gtRule d1 d2))

def envelopeS (ma : MaKind) (pct : α) : Sig α :=
  let idle := maIdle ma
  let m := maApply ma sClose
  let upper := mulBy (one + pct / nat 100) m
  let lower := mulBy (one - pct / nat 100) m
  shift idle hold (zip3 (fun upper lower closing =>
    if Arith.lt closing lower then buy else if Arith.gt closing upper then sell else hold)
    upper lower (skip idle sClose))

def goldenCross (fast slow : Nat) : Sig α :=
  let f := skip ((slow - 1) - (fast - 1)) (ema fast (nat 2) sClose)
  let s := ema slow (nat 2) sClose
  shift (slow - 1) hold (zip (fun f s => if Arith.gt f s then buy else if Arith.lt f s then sell else hold) f s)

def kamaS (er fast slow : Nat) : Sig α :=
  shift er hold (zip (fun kama closing =>
    if Arith.gt closing kama then buy else if Arith.lt closing kama then sell else hold)
    (kama er fast slow sClose) (skip er sClose))

def kdjS (rp kp dp : Nat) : Sig α :=
  let outs := kdj rp kp dp sHigh sLow sClose
  let k := outs.getD 0 sClose
  let d := outs.getD 1 sClose
  let j := outs.getD 2 sClose
  shift (rp + kp + dp - 3) hold (zip (fun a b =>
    if Arith.gt a hold && Arith.gt b hold then buy
    else if Arith.lt a hold && Arith.lt b hold then sell else hold) (sub j k) (sub j d))

def macdS (p1 p2 p3 : Nat) : Sig α :=
  let outs := macd p1 p2 p3 sClose
  shift (p2 + p3 - 2) hold (zip (fun macd signal =>
    if Arith.gt macd signal && Arith.lt macd hold then buy
    else if Arith.gt signal macd && Arith.gt macd hold then sell else hold)
    (outs.getD 0 sClose) (outs.getD 1 sClose))

def qstickS (p : Nat) : Sig α :=
  let q := qstick p sOpen sClose
  shift p hold (zip crossRule (lag 1 q) (skip 1 q))

def smmaS (short long : Nat) : Sig α :=
  let common := Nat.max short long
  let s := syncPeriod common short (smma short sClose)
  let l := syncPeriod common long (smma long sClose)
  shift common hold (zip gtRule s l)

def trimaIdle (p : Nat) : Nat := (trimaPeriods p).1 + (trimaPeriods p).2 - 2
def trimaS (short long : Nat) : Sig α :=
  let s := skip (trimaIdle long - trimaIdle short) (trima short sClose)
  let l := trima long sClose
  shift (trimaIdle long) hold (zip gtRule s l)

def tripleMac (fast medium slow : Nat) : Sig α :=
  let f := skip ((slow - 1) - (fast - 1)) (ema fast (nat 2) sClose)
  let m := skip ((slow - 1) - (medium - 1)) (ema medium (nat 2) sClose)
  let s := ema slow (nat 2) sClose
  shift (slow - 1) hold (zip3 (fun f m s =>
    if Arith.gt f m && Arith.gt f s then buy
    else if Arith.lt f m && Arith.lt f s then sell else hold) f m s)

def trixS (p : Nat) : Sig α := shift (p * 3 - 3 + 1) hold (map signRule (trix p sClose))

def tsiS (first second sig : Nat) : Sig α :=
  let t := tsi first second sClose
  let tsiIdle := (first - 1) + (second - 1) + 1
  shift (tsiIdle + (sig - 1)) hold (zip (fun tsi signal =>
    if Arith.gt tsi hold && Arith.gt tsi signal then buy
    else if Arith.lt tsi hold && Arith.lt tsi signal then sell else hold)
    (skip (sig - 1) t) (ema sig (nat 2) t))

def vwmaS (p : Nat) : Sig α :=
  shift (p - 1) hold (zip (fun sma vwma =>
    if Arith.gt vwma sma then buy else if Arith.gt sma vwma then sell else hold)
    (sma p sClose) (vwma p sClose sVol))

/-- VwmaStrategy with separately configured `Sma.Period` (ps) and `Vwma.Period` (pv), after fix F14: the earlier average is
    forwarded (`helper.SyncPeriod`) so that both refer to the same snapshot; warm-up = the longer idle period -/
def vwmaGS (ps pv : Nat) : Sig α :=
  shift (Nat.max (ps - 1) (pv - 1)) hold (zip (fun sma vwma =>
    if Arith.gt vwma sma then buy else if Arith.gt sma vwma then sell else hold)
    (syncPeriod (Nat.max (ps - 1) (pv - 1)) (ps - 1) (sma ps sClose))
    (syncPeriod (Nat.max (ps - 1) (pv - 1)) (pv - 1) (vwma pv sClose sVol)))

def weightedCloseS (p : Nat) : Sig α :=
  let wc := weightedClose sHigh sLow sClose
  shift (p - 1) hold (zip (fun wc ma => if Arith.gt wc ma then buy else sell) (skip (p - 1) wc) (sma p wc))

/-! momentum -/
def awesomeS (s l : Nat) : Sig α :=
  shift (l - 1) hold (map (fun v => if Arith.lt v hold then sell else if Arith.gt v hold then buy else hold)
    (awesomeOscillator s l sHigh sLow))

def rsiS (p : Nat) (buyAt sellAt : α) : Sig α :=
  shift ((p - 1) + 1) hold (map (fun v => if Arith.le v buyAt then buy else if Arith.ge v sellAt then sell else hold)
    (rsi p sClose))

def stochRsiS (p : Nat) (buyAt sellAt : α) : Sig α :=
  shift (((p - 1) + 1) + (p - 1)) hold
    (map (fun v => if Arith.le v buyAt then buy else if Arith.ge v sellAt then sell else hold) (stochasticRsi p sClose))

def tripleRsiStep (downDays : Nat) (buySignalAt buyAt sellAt : α) (memory : RingBuf α) (rsi sma closing : α) :
    RingBuf α × α :=
  let m := (memory.put rsi).1
  let res : α :=
    if !m.isFull then hold
    else if Arith.gt rsi sellAt then sell
    else if Arith.ge rsi buyAt then hold
    else if (List.range (downDays - 1)).any (fun i => Arith.gt (m.atIdx i) (m.atIdx (i + 1))) then hold
    else if Arith.ge (m.atIdx 0) buySignalAt then hold
    else if Arith.le closing sma then hold
    else buy
  (m, res)

def tripleRsiS (period smaPeriod downDays : Nat) (buySignalAt buyAt sellAt : α) : Sig α :=
  let r := skip ((smaPeriod - 1) - ((period - 1) + 1)) (rsi period sClose)
  let s := sma smaPeriod sClose
  let c := skip (smaPeriod - 1) sClose
  shift (smaPeriod - 1) hold
    (scan3 (RingBuf α) (RingBuf.new zero downDays) (tripleRsiStep downDays buySignalAt buyAt sellAt) r s c)

/-! volatility -/
def bollingerS (p : Nat) : Sig α :=
  shift (p - 1) hold (zip3 (fun upper lower closing =>
    if Arith.gt closing upper then buy else if Arith.gt lower closing then sell else hold)
    (bbUpper p sClose) (bbLower p sClose) (skip (p - 1) sClose))

def superTrendS (ma : MaKind) (mult : α) : Sig α :=
  let idle := atrIdle ma
  shift idle hold (zip (fun st closing =>
    if Arith.lt st closing then buy else if Arith.gt st closing then sell else hold)
    (superTrend ma mult sHigh sLow sClose) (skip idle sClose))

/-! volume -/
def cmfS (p : Nat) : Sig α := shift (p - 1) hold (map signRule (cmf p sHigh sLow sClose sVol))
def emvS (p : Nat) : Sig α := shift ((p - 1) + 1) hold (map signRule (emv p sHigh sLow sVol))
def fiS (p : Nat) : Sig α := shift ((p - 1) + 1) hold (map signRule (fi p sClose sVol))
def mfiS (p : Nat) (sellAt buyAt : α) : Sig α :=
  shift ((p - 1) + 1) hold (map (fun v => if Arith.ge v sellAt then sell else if Arith.le v buyAt then buy else hold)
    (mfi p sHigh sLow sClose sVol))
def nviS (emaPeriod : Nat) (initial : α) : Sig α :=
  let n := nvi initial sClose sVol
  shift (1 + (emaPeriod - 1)) hold (zip (fun nvi nviEma =>
    if Arith.lt nvi nviEma then buy else if Arith.gt nvi nviEma then sell else hold)
    (skip (emaPeriod - 1) n) (ema emaPeriod (nat 2) n))
def vwapS (p : Nat) : Sig α :=
  shift (p - 1) hold (zip (fun closing vwap =>
    if Arith.gt vwap closing then buy else if Arith.lt vwap closing then sell else hold)
    (skip (p - 1) sClose) (vwap p sClose sVol))

/-- strategy.BuyAndHoldStrategy: Buy on the first snapshot, then Hold -/
def buyAndHold : Sig α :=
  scan Bool true (fun first _ => (false, if first then buy else hold)) sClose

structure SEntry (α : Type) where
  sig : Sig α
  /-- the strategy's warm-up: number of leading Holds (= the final Shift amount) -/
  idle : Nat

def lookupS (name : String) (ns : List Nat) (fs : List α) : Option (SEntry α) :=
  let n (k : Nat) : Nat := ns.getD k 0
  let f (k : Nat) : α := fs.getD k zero
  match name with
  | "Alligator" => some ⟨alligator (n 0) (n 1) (n 2), Nat.max (Nat.max (n 0) (n 1)) (n 2)⟩
  | "Apo" => some ⟨apoS (n 0) (n 1), n 1⟩
  | "Aroon" => some ⟨aroonS (n 0), n 0 - 1⟩
  | "Bop" => some ⟨bopS, 0⟩
  | "Cci" => some ⟨cciS (n 0), n 0 * 2 - 2⟩
  | "Dema" =>
    if ns.length ≥ 4 then some ⟨demaS (n 0) (n 2) (n 1) (n 3), n 1 + n 3 - 2⟩
    else some ⟨demaS (n 0) (n 0) (n 1) (n 1), n 1 + n 1 - 2⟩
  | "Envelope" => some ⟨envelopeS (maOf (n 0) (n 1)) (f 0), maIdle (maOf (n 0) (n 1))⟩
  | "GoldenCross" => some ⟨goldenCross (n 0) (n 1), n 1 - 1⟩
  | "Kama" => some ⟨kamaS (n 0) (n 1) (n 2), n 0⟩
  | "Kdj" => some ⟨kdjS (n 0) (n 1) (n 2), n 0 + n 1 + n 2 - 3⟩
  | "Macd" => some ⟨macdS (n 0) (n 1) (n 2), n 1 + n 2 - 2⟩
  | "Qstick" => some ⟨qstickS (n 0), n 0⟩
  | "Smma" => some ⟨smmaS (n 0) (n 1), Nat.max (n 0) (n 1)⟩
  | "Trima" => some ⟨trimaS (n 0) (n 1), trimaIdle (n 1)⟩
  | "TripleMovingAverageCrossover" => some ⟨tripleMac (n 0) (n 1) (n 2), n 2 - 1⟩
  | "Trix" => some ⟨trixS (n 0), n 0 * 3 - 3 + 1⟩
  | "Tsi" => some ⟨tsiS (n 0) (n 1) (n 2), ((n 0 - 1) + (n 1 - 1) + 1) + (n 2 - 1)⟩
  | "Vwma" => some ⟨vwmaS (n 0), n 0 - 1⟩
  | "VwmaG" => some ⟨vwmaGS (n 0) (n 1), Nat.max (n 0 - 1) (n 1 - 1)⟩
  | "WeightedClose" => some ⟨weightedCloseS (n 0), n 0 - 1⟩
  | "AwesomeOscillator" => some ⟨awesomeS (n 0) (n 1), n 1 - 1⟩
  | "Rsi" => some ⟨rsiS (n 0) (f 0) (f 1), (n 0 - 1) + 1⟩
  | "StochasticRsi" => some ⟨stochRsiS (n 0) (f 0) (f 1), ((n 0 - 1) + 1) + (n 0 - 1)⟩
  | "TripleRsi" => some ⟨tripleRsiS (n 0) (n 1) (n 2) (f 0) (f 1) (f 2), n 1 - 1⟩
  | "BollingerBands" => some ⟨bollingerS (n 0), n 0 - 1⟩
  | "SuperTrend" => some ⟨superTrendS (maOf (n 0) (n 1)) (f 0), atrIdle (maOf (n 0) (n 1))⟩
  | "ChaikinMoneyFlow" => some ⟨cmfS (n 0), n 0 - 1⟩
  | "EaseOfMovement" => some ⟨emvS (n 0), (n 0 - 1) + 1⟩
  | "ForceIndex" => some ⟨fiS (n 0), (n 0 - 1) + 1⟩
  | "MoneyFlowIndex" => some ⟨mfiS (n 0) (f 0) (f 1), (n 0 - 1) + 1⟩
  | "NegativeVolumeIndex" => some ⟨nviS (n 0) (f 0), 1 + (n 0 - 1)⟩
  | "WeightedAveragePrice" => some ⟨vwapS (n 0), n 0 - 1⟩
  | "BuyAndHold" => some ⟨buyAndHold, 0⟩
  | _ => none

end Strat
