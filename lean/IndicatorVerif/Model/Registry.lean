import IndicatorVerif.Model.Indicators
/-
  Registry: indicator name + integer configuration + numeric parameters ↦ (arity, outputs,
  declared idle period).  Used by the driver (α = Float) and by the per-indicator theorems.
  `idle` is the Go `IdlePeriod()` expression (over ℕ) — or, for the types without such a method
  (Apo, Aroon, Bop, TypicalPrice, Mfm …), the warm-up the documented formula implies.
  Core-only.
-/
namespace Ind
open Sig
variable {α : Type} [Arith α]

structure Entry (α : Type) where
  arity : Nat
  outs : List (Sig α)
  idle : Nat

def maOf (kind p : Nat) : MaKind :=
  match kind with
  | 0 => .sma p | 1 => .ema p | 2 => .smma p | 3 => .smma p | 4 => .wma p | _ => .hma p

def i0 : Sig α := input 0
def i1 : Sig α := input 1
def i2 : Sig α := input 2
def i3 : Sig α := input 3

/-- `ns` integer configuration, `fs` numeric parameters -/
def lookup (name : String) (ns : List Nat) (fs : List α) : Option (Entry α) :=
  let n (k : Nat) : Nat := ns.getD k 0
  let f (k : Nat) : α := fs.getD k zero
  -- EMA smoothing constants are public fields: taken from `fs` when given, else the default 2
  let sm (k : Nat) : α := fs.getD k two
  match name with
  -- trend
  | "Apo" => some ⟨1, [apo (n 0) (n 1) (sm 0) (sm 1) i0], n 1 - 1⟩
  | "Aroon" => some ⟨2, aroon (n 0) i0 i1, n 0 - 1⟩
  | "Bop" => some ⟨4, [bop i0 i1 i2 i3], 0⟩
  | "Cci" => some ⟨3, [cci (n 0) i0 i1 i2], n 0 * 2 - 2⟩
  | "Dema" => some ⟨1, [dema (n 0) (n 1) i0], n 0 + n 1 - 2⟩
  | "Ema" => some ⟨1, [ema (n 0) (sm 0) i0], n 0 - 1⟩
  | "Envelope" => some ⟨1, envelope (maOf (n 0) (n 1)) (f 0) i0, maIdle (maOf (n 0) (n 1))⟩
  | "Hma" => some ⟨1, [hma (n 0) i0], maIdle (.hma (n 0))⟩
  | "Kama" => some ⟨1, [kama (n 0) (n 1) (n 2) i0], n 0⟩
  | "Kdj" => some ⟨3, kdj (n 0) (n 1) (n 2) i0 i1 i2, n 0 + n 1 + n 2 - 3⟩
  | "Macd" => some ⟨1, macd (n 0) (n 1) (n 2) i0, n 1 + n 2 - 2⟩
  | "MassIndex" => some ⟨2, [massIndex (n 0) (n 1) (n 2) i0 i1], n 0 + n 1 + n 2 - 3⟩
  | "Mlr" => some ⟨2, [mlr (n 0) i0 i1], n 0 - 1⟩
  | "Mls" => some ⟨2, mls (n 0) i0 i1, n 0 - 1⟩
  | "MovingMax" => some ⟨1, [movingMax (n 0) i0], n 0 - 1⟩
  | "MovingMin" => some ⟨1, [movingMin (n 0) i0], n 0 - 1⟩
  | "MovingSum" => some ⟨1, [movingSum (n 0) i0], n 0 - 1⟩
  | "Rma" => some ⟨1, [rma (n 0) i0], n 0 - 1⟩
  | "Sma" => some ⟨1, [sma (n 0) i0], n 0 - 1⟩
  | "Smma" => some ⟨1, [smma (n 0) i0], n 0 - 1⟩
  | "Tema" => some ⟨1, [tema (n 0) (n 1) (n 2) i0], n 0 + n 1 + n 2 - 3⟩
  | "Trima" => some ⟨1, [trima (n 0) i0], (trimaPeriods (n 0)).1 + (trimaPeriods (n 0)).2 - 2⟩
  | "Trix" => some ⟨1, [trix (n 0) i0], n 0 * 3 - 3 + 1⟩
  | "Tsi" => some ⟨1, [tsi (n 0) (n 1) i0], (n 0 - 1) + (n 1 - 1) + 1⟩
  | "TypicalPrice" => some ⟨3, [typicalPrice i0 i1 i2], 0⟩
  | "Vwma" => some ⟨2, [vwma (n 0) i0 i1], n 0 - 1⟩
  | "WeightedClose" => some ⟨3, [weightedClose i0 i1 i2], 0⟩
  | "Wma" => some ⟨1, [wma (n 0) i0], n 0 - 1⟩
  -- momentum
  | "AwesomeOscillator" => some ⟨2, [awesomeOscillator (n 0) (n 1) i0 i1], n 1 - 1⟩
  | "ChaikinOscillator" => some ⟨4, chaikinOscillator (n 0) (n 1) i0 i1 i2 i3, n 1 - 1⟩
  | "IchimokuCloud" => some ⟨3, ichimokuCloud (n 0) (n 1) (n 2) (n 3) i0 i1 i2, n 2 - 1⟩
  | "Ppo" => some ⟨1, ppo (n 0) (n 1) (n 2) i0, (n 1 - 1) + (n 2 - 1)⟩
  | "Pvo" => some ⟨1, ppo (n 0) (n 1) (n 2) i0, (n 1 - 1) + (n 2 - 1)⟩
  | "Qstick" => some ⟨2, [qstick (n 0) i0 i1], n 0 - 1⟩
  | "Rsi" => some ⟨1, [rsi (n 0) i0], (n 0 - 1) + 1⟩
  | "StochasticOscillator" => some ⟨3, stochasticOscillator (n 0) (n 1) i0 i1 i2, (n 0 - 1) + (n 1 - 1)⟩
  | "StochasticRsi" => some ⟨1, [stochasticRsi (n 0) i0], ((n 0 - 1) + 1) + (n 0 - 1)⟩
  | "StochasticRsiG" => some ⟨1, [stochasticRsiG (n 0) (n 1) i0], ((n 0 - 1) + 1) + (n 1 - 1)⟩
  | "WilliamsR" => some ⟨3, [williamsR (n 0) i0 i1 i2], n 0 - 1⟩
  -- volatility
  | "AccelerationBands" => some ⟨3, accelerationBands (n 0) i0 i1 i2, n 0 - 1⟩
  | "Atr" => some ⟨3, [atr (maOf (n 0) (n 1)) i0 i1 i2], atrIdle (maOf (n 0) (n 1))⟩
  | "BollingerBandWidth" => some ⟨1, [bollingerBandWidth (n 0) i0], n 0 - 1⟩
  | "BollingerBands" => some ⟨1, bollingerBands (n 0) i0, n 0 - 1⟩
  | "ChandelierExit" => some ⟨3, chandelierExit (n 0) (f 0) i0 i1 i2, n 0⟩
  | "DonchianChannel" => some ⟨1, donchianChannel (n 0) i0, n 0 - 1⟩
  | "KeltnerChannel" => some ⟨3, keltnerChannel (n 0) i0 i1 i2, atrIdle (.sma (n 0))⟩
  | "KeltnerChannelG" => some ⟨3, keltnerChannelG (maOf (n 0) (n 1)) (n 2) i0 i1 i2, atrIdle (maOf (n 0) (n 1))⟩
  | "MovingStd" => some ⟨1, [movingStd (n 0) i0], n 0 - 1⟩
  | "PercentB" => some ⟨1, [percentB (n 0) i0], n 0 - 1⟩
  | "Po" => some ⟨3, [po (n 0) i0 i1 i2], (n 0 - 1) + (n 0 - 1)⟩
  | "SuperTrend" => some ⟨3, [superTrend (maOf (n 0) (n 1)) (f 0) i0 i1 i2], atrIdle (maOf (n 0) (n 1))⟩
  | "UlcerIndex" => some ⟨1, [ulcerIndex (n 0) i0], (n 0 - 1) * 2⟩
  -- volume
  | "Ad" => some ⟨4, [ad i0 i1 i2 i3], 0⟩
  | "Cmf" => some ⟨4, [cmf (n 0) i0 i1 i2 i3], n 0 - 1⟩
  | "Emv" => some ⟨3, [emv (n 0) i0 i1 i2], (n 0 - 1) + 1⟩
  | "Fi" => some ⟨2, [fi (n 0) i0 i1], (n 0 - 1) + 1⟩
  | "Mfi" => some ⟨4, [mfi (n 0) i0 i1 i2 i3], (n 0 - 1) + 1⟩
  | "Mfm" => some ⟨3, [mfm i0 i1 i2], 0⟩
  | "Mfv" => some ⟨4, [mfv i0 i1 i2 i3], 0⟩
  | "Nvi" => some ⟨2, [nvi (f 0) i0 i1], 1⟩
  | "Obv" => some ⟨2, [obv i0 i1], 0⟩
  | "Vpt" => some ⟨2, [vpt i0 i1], 1⟩
  | "Vwap" => some ⟨2, [vwap (n 0) i0 i1], n 0 - 1⟩
  | _ => none

def names : List String :=
  ["Apo","Aroon","Bop","Cci","Dema","Ema","Envelope","Hma","Kama","Kdj","Macd","MassIndex","Mlr","Mls",
   "MovingMax","MovingMin","MovingSum","Rma","Sma","Smma","Tema","Trima","Trix","Tsi","TypicalPrice",
   "Vwma","WeightedClose","Wma",
   "AwesomeOscillator","ChaikinOscillator","IchimokuCloud","Ppo","Pvo","Qstick","Rsi",
   "StochasticOscillator","StochasticRsi","WilliamsR",
   "AccelerationBands","Atr","BollingerBandWidth","BollingerBands","ChandelierExit","DonchianChannel",
   "KeltnerChannel","MovingStd","PercentB","Po","SuperTrend","UlcerIndex",
   "Ad","Cmf","Emv","Fi","Mfi","Mfm","Mfv","Nvi","Obv","Vpt","Vwap"]

end Ind
