import IndicatorVerif.Model.Sig
import IndicatorVerif.Model.Ring
import IndicatorVerif.Model.Bst
/-
  Building blocks of the indicator models: the arithmetic helper calls and the stateful
  primitives (moving sum / max / min, EMA family, WMA, moving std, Since, Count), each written to
  mirror the Go source (operation order included).  Core-only.
-/
namespace Ind
open Sig Arith
variable {α : Type} [Arith α]

abbrev zero : α := nat 0
abbrev one : α := nat 1
/-- the float64 constant `a/b` (correctly rounded, like a Go constant conversion) -/
abbrev ratio (a b : Nat) : α := (nat a : α) / nat b

/-! ### helper.Add / Subtract / Multiply / Divide and the Apply family -/
def add (a b : Sig α) : Sig α := zip (fun x y => x + y) a b
def sub (a b : Sig α) : Sig α := zip (fun x y => x - y) a b
def mul (a b : Sig α) : Sig α := zip (fun x y => x * y) a b
def div (a b : Sig α) : Sig α := zip (fun x y => x / y) a b
def mulBy (m : α) (e : Sig α) : Sig α := map (fun n => n * m) e
def divBy (d : α) (e : Sig α) : Sig α := map (fun n => n / d) e
def incBy (i : α) (e : Sig α) : Sig α := map (fun n => n + i) e
def absS (e : Sig α) : Sig α := map Arith.abs e
def pow2 (e : Sig α) : Sig α := map Arith.sq e
def powInv (e : Sig α) : Sig α := map Arith.inv e
def sqrtS (e : Sig α) : Sig α := map Arith.sqrt e
def keepPos (e : Sig α) : Sig α := map (fun n => if Arith.gt n zero then n else zero) e
def keepNeg (e : Sig α) : Sig α := map (fun n => if Arith.lt n zero then n else zero) e
def signS (e : Sig α) : Sig α :=
  map (fun n => if Arith.gt n zero then one else if Arith.lt n zero then Arith.neg one else zero) e
/-- helper.RoundDigits(c, 0) -/
def round0 (e : Sig α) : Sig α := map (fun n => Arith.round (n * one) / one) e

/-! ### helper.Change / ChangeRatio: `Buffered` copies are the value `before` positions earlier -/
def change (k : Nat) (c : Sig α) : Sig α := sub (skip k c) (lag k c)
def changeRatio (k : Nat) (c : Sig α) : Sig α := div (change k c) (lag k c)

/-! ### trend.MovingSum -/
def sumStep (s c b : α) : α × α := let s' := s + c - b; (s', s')
def movingSum (p : Nat) (c : Sig α) : Sig α :=
  skip (p - 1) (scan2 α zero sumStep c (delay p zero c))

def sma (p : Nat) (c : Sig α) : Sig α := map (fun s => s / nat p) (movingSum p c)

/-! ### trend.MovingMax / MovingMin (BST + count of inserted values, after fix F2) -/
def cmpA : Cmp α := { le := Arith.le, lt := Arith.lt, eq := Arith.beq }

def bstStep (pick : BTree α → α) (p : Nat) (st : BTree α × Nat) (c b : α) : (BTree α × Nat) × α :=
  let t := Bst.insert cmpA c st.1
  let (t', cnt) := if st.2 < p then (t, st.2 + 1) else ((Bst.remove cmpA b t).1, st.2)
  ((t', cnt), pick t')

def movingMax (p : Nat) (c : Sig α) : Sig α :=
  skip (p - 1) (scan2 (BTree α × Nat) (.nil, 0) (bstStep (Bst.maxD zero) p) c (delay p zero c))
def movingMin (p : Nat) (c : Sig α) : Sig α :=
  skip (p - 1) (scan2 (BTree α × Nat) (.nil, 0) (bstStep (Bst.minD zero) p) c (delay p zero c))

/-! ### trend.Ema / Rma / Smma: seed = SMA of the first `p` values (as MovingSum computes it) -/
def smaSeed (p : Nat) (l : List α) : α := (l.foldl (fun s c => s + c - zero) zero) / nat p

def ema (p : Nat) (smoothing : α) (c : Sig α) : Sig α :=
  recur p (smaSeed p) (fun before n => (n - before) * (smoothing / nat (p + 1)) + before) c
def rma (p : Nat) (c : Sig α) : Sig α :=
  recur p (smaSeed p) (fun before n => ((before * nat (p - 1)) + n) / nat p) c
def smma (p : Nat) (c : Sig α) : Sig α :=
  recur p (smaSeed p) (fun before n => ((before * (nat p - one)) + n) / nat p) c

/-! ### trend.Wma: Map with a ring window, then Skip(idle) -/
def wmaSum (p : Nat) (r : RingBuf α) : α :=
  ((List.range p).foldl (fun sum i => sum + r.atIdx i * nat (i + 1) / nat p) zero) / nat 2
def wmaStep (p : Nat) (r : RingBuf α) (v : α) : RingBuf α × α :=
  let r' := (r.put v).1
  (r', if !r'.isFull then zero else wmaSum p r')
def wma (p : Nat) (c : Sig α) : Sig α := skip (p - 1) (scan (RingBuf α) (RingBuf.new zero p) (wmaStep p) c)

/-! ### volatility.MovingStd: ring + running sum, emits only when the ring is full -/
def stdOf (p : Nat) (r : RingBuf α) (sum : α) : α :=
  let sma := sum / nat p
  let sum2 := (List.range p).foldl (fun s i => s + Arith.sq (r.atIdx i - sma)) zero
  Arith.sqrt (sum2 / nat p)
def stdStep (p : Nat) (st : RingBuf α × α) (n : α) : (RingBuf α × α) × α :=
  let (r', o) := st.1.put n
  let sum := st.2 - o + n
  ((r', sum), if r'.isFull then stdOf p r' sum else zero)
def movingStd (p : Nat) (c : Sig α) : Sig α :=
  skip (p - 1) (scan (RingBuf α × α) (RingBuf.new zero p, zero) (stdStep p) c)

/-! ### helper.Since (count of positions the value has stayed the same), helper.Count -/
def sinceStep (st : Option α × α) (n : α) : (Option α × α) × α :=
  match st.1 with
  | none => ((some n, zero), zero)
  | some last => if Arith.bne last n then ((some n, zero), zero) else ((some last, st.2 + one), st.2 + one)
def since (c : Sig α) : Sig α := scan (Option α × α) (none, zero) sinceStep c

def count (from_ : α) (c : Sig α) : Sig α := scan α from_ (fun i _ => (i + one, i)) c

/-- helper.MapWithPrevious(c, previous + current, 0) -/
def cumSum (c : Sig α) : Sig α := scan α zero (fun prev cur => let s := prev + cur; (s, s)) c

end Ind
