import IndicatorVerif.Model.Arith
/-
  Signal expressions: the dataflow of a `Compute` body as a term.

  * `evalL`  list semantics (closed input streams in, complete output stream out) — executed
             against the Go code by the correspondence check;
  * `off`    alignment typing: `some w` when every join pairs values of the same input position and
             the stream starts at input position `w`; `none` when some join is mis-aligned;
  * `need`   the smallest input length for which re-anchoring `shift`s are exact;
  * `den`    positional semantics: the value the stream carries *for input position i*.

  `Duplicate` is sharing of a sub-term; `Buffered` is the identity; `Skip` is `skip`;
  `Shift` is `shift` (re-anchoring in front of a stream) or `delay` (the delayed copy that a
  moving window subtracts); `lag` marks a deliberate pairing with the value `k` positions earlier
  whose surplus tail the following join leaves unread.
  Core-only.
-/

inductive Sig (α : Type) : Type 1 where
  | input (j : Nat) : Sig α
  | map (f : α → α) (e : Sig α) : Sig α
  | zip (f : α → α → α) (a b : Sig α) : Sig α
  | zip3 (f : α → α → α → α) (a b c : Sig α) : Sig α
  | skip (k : Nat) (e : Sig α) : Sig α
  | shift (k : Nat) (fill : α) (e : Sig α) : Sig α
  | delay (k : Nat) (fill : α) (e : Sig α) : Sig α
  | lag (k : Nat) (e : Sig α) : Sig α
  | scan (σ : Type) (s0 : σ) (step : σ → α → σ × α) (e : Sig α) : Sig α
  | scan2 (σ : Type) (s0 : σ) (step : σ → α → α → σ × α) (a b : Sig α) : Sig α
  | scan3 (σ : Type) (s0 : σ) (step : σ → α → α → α → σ × α) (a b c : Sig α) : Sig α
  | recur (p : Nat) (seed : List α → α) (upd : α → α → α) (e : Sig α) : Sig α

namespace Sig
variable {α : Type}

/-! ### list primitives -/

def scanL {σ : Type} (step : σ → α → σ × α) : σ → List α → List α
  | _, [] => []
  | s, x :: t => let r := step s x; r.2 :: scanL step r.1 t

def scanL2 {σ : Type} (step : σ → α → α → σ × α) : σ → List α → List α → List α
  | s, x :: t, y :: u => let r := step s x y; r.2 :: scanL2 step r.1 t u
  | _, _, _ => []

def scanL3 {σ : Type} (step : σ → α → α → α → σ × α) : σ → List α → List α → List α → List α
  | s, x :: t, y :: u, z :: v => let r := step s x y z; r.2 :: scanL3 step r.1 t u v
  | _, _, _, _ => []

def zipWith3L (f : α → α → α → α) : List α → List α → List α → List α
  | x :: t, y :: u, z :: v => f x y z :: zipWith3L f t u v
  | _, _, _ => []

/-- running recurrence `r₀ = seed`, `rₖ₊₁ = upd rₖ xₖ`; emits r₀, r₁, … -/
def recurTail (upd : α → α → α) : α → List α → List α
  | _, [] => []
  | b, n :: t => let b' := upd b n; b' :: recurTail upd b' t

/-- Ema/Rma/Smma goroutine (after the `ok` check on the seed): nothing for inputs shorter than `p` -/
def recurL (p : Nat) (seed : List α → α) (upd : α → α → α) (l : List α) : List α :=
  if p = 0 ∨ l.length < p then []
  else let s := seed (l.take p); s :: recurTail upd s (l.drop p)

/-! ### list semantics -/
def evalL (env : List (List α)) : Sig α → List α
  | input j => env.getD j []
  | map f e => (evalL env e).map f
  | zip f a b => List.zipWith f (evalL env a) (evalL env b)
  | zip3 f a b c => zipWith3L f (evalL env a) (evalL env b) (evalL env c)
  | skip k e => (evalL env e).drop k
  | shift k fill e => List.replicate k fill ++ evalL env e
  | delay k fill e => let l := evalL env e; (List.replicate k fill ++ l).take l.length
  | lag k e => let l := evalL env e; l.take (l.length - k)
  | scan _ s0 step e => scanL step s0 (evalL env e)
  | scan2 _ s0 step a b => scanL2 step s0 (evalL env a) (evalL env b)
  | scan3 _ s0 step a b c => scanL3 step s0 (evalL env a) (evalL env b) (evalL env c)
  | recur p seed upd e => recurL p seed upd (evalL env e)

/-! ### alignment typing -/
def join2 (a b : Option Nat) : Option Nat :=
  match a, b with
  | some x, some y => if x = y then some x else none
  | _, _ => none

def off : Sig α → Option Nat
  | input _ => some 0
  | map _ e => off e
  | zip _ a b => join2 (off a) (off b)
  | zip3 _ a b c => join2 (join2 (off a) (off b)) (off c)
  | skip k e => (off e).map (· + k)
  | shift k _ e => (off e).bind (fun w => if k ≤ w then some (w - k) else none)
  | delay _ _ e => off e
  | lag k e => (off e).map (· + k)
  | scan _ _ _ e => off e
  | scan2 _ _ _ a b => join2 (off a) (off b)
  | scan3 _ _ _ a b c => join2 (join2 (off a) (off b)) (off c)
  | recur p _ _ e => if p = 0 then none else (off e).map (· + (p - 1))

/-- offset with 0 for ill-typed terms (only used under `off e = some _`) -/
def offD (e : Sig α) : Nat := (off e).getD 0

def need : Sig α → Nat
  | input _ => 0
  | map _ e => need e
  | zip _ a b => Nat.max (need a) (need b)
  | zip3 _ a b c => Nat.max (Nat.max (need a) (need b)) (need c)
  | skip _ e => need e
  | shift _ _ e => Nat.max (need e) (offD e)
  | delay _ _ e => need e
  | lag _ e => need e
  | scan _ _ _ e => need e
  | scan2 _ _ _ a b => Nat.max (need a) (need b)
  | scan3 _ _ _ a b c => Nat.max (Nat.max (need a) (need b)) (need c)
  | recur _ _ _ e => need e

/-! ### positional semantics -/

/-- state before consuming element `m` of the (re-based) stream `g` -/
def scanSt {σ : Type} (step : σ → α → σ × α) (s0 : σ) (g : Nat → α) : Nat → σ
  | 0 => s0
  | m + 1 => (step (scanSt step s0 g m) (g m)).1
def scanOut {σ : Type} (step : σ → α → σ × α) (s0 : σ) (g : Nat → α) (m : Nat) : α :=
  (step (scanSt step s0 g m) (g m)).2

def scanSt2 {σ : Type} (step : σ → α → α → σ × α) (s0 : σ) (g h : Nat → α) : Nat → σ
  | 0 => s0
  | m + 1 => (step (scanSt2 step s0 g h m) (g m) (h m)).1
def scanOut2 {σ : Type} (step : σ → α → α → σ × α) (s0 : σ) (g h : Nat → α) (m : Nat) : α :=
  (step (scanSt2 step s0 g h m) (g m) (h m)).2

def scanSt3 {σ : Type} (step : σ → α → α → α → σ × α) (s0 : σ) (g h k : Nat → α) : Nat → σ
  | 0 => s0
  | m + 1 => (step (scanSt3 step s0 g h k m) (g m) (h m) (k m)).1
def scanOut3 {σ : Type} (step : σ → α → α → α → σ × α) (s0 : σ) (g h k : Nat → α) (m : Nat) : α :=
  (step (scanSt3 step s0 g h k m) (g m) (h m) (k m)).2

/-- `r 0 = seed [g 0 … g (p-1)]`, `r (m+1) = upd (r m) (g (p+m))` -/
def recurFrom (upd : α → α → α) (b : α) (g : Nat → α) : Nat → α
  | 0 => b
  | m + 1 => upd (recurFrom upd b g m) (g m)
def recurAt (p : Nat) (seed : List α → α) (upd : α → α → α) (g : Nat → α) (m : Nat) : α :=
  recurFrom upd (seed ((List.range p).map g)) (fun k => g (p + k)) m

/-- value carried for input position `i` (meaningful for `i ≥ off e`) -/
def den (x : Nat → Nat → α) : Sig α → Nat → α
  | input j, i => x j i
  | map f e, i => f (den x e i)
  | zip f a b, i => f (den x a i) (den x b i)
  | zip3 f a b c, i => f (den x a i) (den x b i) (den x c i)
  | skip _ e, i => den x e i
  | shift _ fill e, i => if i < offD e then fill else den x e i
  | delay k fill e, i => if i < offD e + k then fill else den x e (i - k)
  | lag k e, i => den x e (i - k)
  | scan _ s0 step e, i => scanOut step s0 (fun m => den x e (offD e + m)) (i - offD e)
  | scan2 _ s0 step a b, i =>
      scanOut2 step s0 (fun m => den x a (offD a + m)) (fun m => den x b (offD a + m)) (i - offD a)
  | scan3 _ s0 step a b c, i =>
      scanOut3 step s0 (fun m => den x a (offD a + m)) (fun m => den x b (offD a + m))
        (fun m => den x c (offD a + m)) (i - offD a)
  | recur p seed upd e, i =>
      recurAt p seed upd (fun m => den x e (offD e + m)) (i - (offD e + (p - 1)))

/-- the list a positional stream denotes when the inputs have length `n` -/
def toList (n w : Nat) (g : Nat → α) : List α := (List.range (n - w)).map (fun k => g (w + k))

/-- inputs of length `n` cut from infinite positional streams -/
def envOf (x : Nat → Nat → α) (arity n : Nat) : List (List α) :=
  (List.range arity).map (fun j => (List.range n).map (x j))

/-- largest input index mentioned -/
def arity : Sig α → Nat
  | input j => j + 1
  | map _ e | skip _ e | shift _ _ e | delay _ _ e | lag _ e | scan _ _ _ e | recur _ _ _ e => arity e
  | zip _ a b | scan2 _ _ _ a b => Nat.max (arity a) (arity b)
  | zip3 _ a b c | scan3 _ _ _ a b c => Nat.max (Nat.max (arity a) (arity b)) (arity c)

end Sig
