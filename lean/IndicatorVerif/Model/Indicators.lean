import IndicatorVerif.Model.Prims
/-
  One model per `Compute` method of trend/, momentum/, volatility/, volume/ (61), written with the
  same sequence of helper calls as the Go text.  Inputs are numbered in the order of the Go
  parameter list.  Multi-output indicators return their outputs in the Go order.

  Four bodies (Apo, Dema, Emv, Fi) join branches that the Go code leaves at different positions
  (`Buffered` where a `Skip` was needed); the join is written with an explicit `lag`, which is
  what the Go zip computes (DESIGN §3.2, §7).  Core-only.
-/
namespace Ind
open Sig Arith
variable {α : Type} [Arith α]

abbrev two : α := nat 2
abbrev hundred : α := nat 100
abbrev negOne : α := Arith.neg one

/-- selectable moving averages (trend.Ma implementations used by the constructors) -/
inductive MaKind where
  | sma (p : Nat) | ema (p : Nat) | rma (p : Nat) | smma (p : Nat) | wma (p : Nat) | hma (p : Nat)
  deriving Repr, DecidableEq

/-- `int(math.Round(float64(p) / 2))` -/
def halfRound (p : Nat) : Nat := (p + 1) / 2
/-- `int(math.Round(math.Sqrt(float64(p))))` : the r with (2r-1)² ≤ 4p < (2r+1)² -/
def roundSqrt (p : Nat) : Nat :=
  ((List.range (p + 2)).find? (fun r => 4 * p < (2 * r + 1) * (2 * r + 1))).getD 0

/-! ## trend -/

def typicalPrice (h l c : Sig α) : Sig α := divBy (nat 3) (add (add h l) c)

def hma (p : Nat) (v : Sig α) : Sig α :=
  let p1 := halfRound p
  let p3 := roundSqrt p
  let w1 := skip ((p - 1) - (p1 - 1)) (wma p1 v)
  let w2 := wma p v
  wma p3 (sub (mulBy two w1) w2)

def maApply : MaKind → Sig α → Sig α
  | .sma p, c => sma p c
  | .ema p, c => ema p two c
  | .rma p, c => rma p c
  | .smma p, c => smma p c
  | .wma p, c => wma p c
  | .hma p, c => hma p c

def maIdle : MaKind → Nat
  | .sma p | .ema p | .rma p | .smma p | .wma p => p - 1
  | .hma p => (p - 1) + (roundSqrt p - 1)

/-- `sf`, `ss`: the public `FastSmoothing` / `SlowSmoothing` fields (default 2) -/
def apo (fast slow : Nat) (sf ss : α) (c : Sig α) : Sig α :=
  sub (lag (slow - fast) (ema fast sf c)) (ema slow ss c)

def aroonLine (p : Nat) (extreme : Sig α) : Sig α :=
  round0 (mulBy hundred (divBy (nat p) (incBy (nat p) (mulBy negOne (since extreme)))))
def aroon (p : Nat) (high low : Sig α) : List (Sig α) :=
  [aroonLine p (movingMax p high), aroonLine p (movingMin p low)]

def bop (opening high low closing : Sig α) : Sig α := div (sub closing opening) (sub high low)

def cci (p : Nat) (h l c : Sig α) : Sig α :=
  let tp := typicalPrice h l c
  let ma := sma p tp
  let tp1 := skip (p - 1) tp
  let md := sma p (absS (sub tp1 ma))
  let ma1 := skip (p - 1) ma
  let tp2 := skip (p - 1) (skip (p - 1) tp)
  div (sub tp2 ma1) (mulBy (ratio 15 1000) md)

def dema (p1 p2 : Nat) (c : Sig α) : Sig α :=
  let e1 := ema p1 two c
  let e2 := ema p2 two e1
  sub (lag (p2 - 1) (mulBy two e1)) e2

def envelope (ma : MaKind) (pct : α) (c : Sig α) : List (Sig α) :=
  let m := maApply ma c
  [mulBy (one + pct / hundred) m, m, mulBy (one - pct / hundred) m]

def kamaStep (st : Option α) (prevClose close sc : α) : Option α × α :=
  let prev := match st with | none => prevClose | some k => k
  let k := prev + sc * (close - prev)
  (some k, k)

def kama (er fast slow : Nat) (c : Sig α) : Sig α :=
  let directions := absS (change er c)
  let volatilitys := movingSum er (absS (change 1 c))
  let ers := div directions volatilitys
  let fastSc : α := two / nat (fast + 1)
  let slowSc : α := two / nat (slow + 1)
  let scs := pow2 (incBy slowSc (mulBy (fastSc - slowSc) ers))
  scan3 (Option α) none kamaStep (lag 1 (skip (er - 1) c)) (skip er c) scs

def kdj (rp kp dp : Nat) (high low closing : Sig α) : List (Sig α) :=
  let highest := movingMax rp high
  let lowest := movingMin rp low
  let closing' := skip (rp - 1) closing
  let rsv := mulBy hundred (div (sub closing' lowest) (sub highest lowest))
  let k := sma kp rsv
  let d := sma dp k
  let k' := skip (dp - 1) k
  [k', d, sub (mulBy (nat 3) k') (mulBy two d)]

def macd (p1 p2 p3 : Nat) (c : Sig α) : List (Sig α) :=
  let e1 := skip (p2 - p1) (ema p1 two c)
  let e2 := ema p2 two c
  let m := sub e1 e2
  [skip (p3 - 1) m, ema p3 two m]

def massIndex (p1 p2 p3 : Nat) (highs lows : Sig α) : Sig α :=
  let e1 := ema p1 two (sub highs lows)
  let e2 := ema p2 two e1
  movingSum p3 (div (skip (p2 - 1) e1) e2)

def mls (p : Nat) (x y : Sig α) : List (Sig α) :=
  let sumXY := movingSum p (mul x y)
  let sumX := movingSum p x
  let sumY := movingSum p y
  let sumX2 := movingSum p (pow2 x)
  let m := div (sub (mulBy (nat p) sumXY) (mul sumX sumY)) (sub (mulBy (nat p) sumX2) (mul sumX sumX))
  let b := divBy (nat p) (sub sumY (mul m sumX))
  [m, b]
def mlsM (p : Nat) (x y : Sig α) : Sig α := (mls p x y).getD 0 x
def mlsB (p : Nat) (x y : Sig α) : Sig α := (mls p x y).getD 1 x

def mlr (p : Nat) (x y : Sig α) : Sig α :=
  add (mul (mlsM p x y) (skip (p - 1) x)) (mlsB p x y)

def tema (p1 p2 p3 : Nat) (c : Sig α) : Sig α :=
  let e1 := ema p1 two c
  let e2 := ema p2 two e1
  let e3 := ema p3 two e2
  let e1' := skip (p3 - 1) (skip (p2 - 1) e1)
  let e2' := skip (p3 - 1) e2
  add (sub (mulBy (nat 3) e1') (mulBy (nat 3) e2')) e3

def trimaPeriods (p : Nat) : Nat × Nat :=
  if p % 2 = 0 then (p / 2, p / 2 + 1) else ((p + 1) / 2, (p + 1) / 2)
def trima (p : Nat) (c : Sig α) : Sig α :=
  let (p1, p2) := trimaPeriods p
  sma p1 (sma p2 c)

def trix (p : Nat) (c : Sig α) : Sig α := changeRatio 1 (ema p two (ema p two (ema p two c)))

def tsi (first second : Nat) (c : Sig α) : Sig α :=
  let pcs := change 1 c
  let pcds := ema first two (ema second two pcs)
  let apcds := ema first two (ema second two (absS pcs))
  mulBy hundred (div pcds apcds)

def vwma (p : Nat) (closing volume : Sig α) : Sig α :=
  div (movingSum p (mul closing volume)) (movingSum p volume)

def weightedClose (h l c : Sig α) : Sig α :=
  zip3 (fun high low close => (high + low + (close * two)) / nat 4) h l c

/-! ## volume (needed by momentum) -/

def mfm (h l c : Sig α) : Sig α := div (sub (sub c l) (sub h c)) (sub h l)
def mfv (h l c v : Sig α) : Sig α := mul (mfm h l c) v
def ad (h l c v : Sig α) : Sig α := cumSum (mfv h l c v)
def cmf (p : Nat) (h l c v : Sig α) : Sig α := div (movingSum p (mfv h l c v)) (movingSum p v)

def emv (p : Nat) (h l v : Sig α) : Sig α :=
  let distance := change 1 (divBy two (add h l))
  let boxRatio := div (divBy (nat 100000000) v) (sub h l)
  sma p (div distance (lag 1 boxRatio))

def fi (p : Nat) (c v : Sig α) : Sig α := ema p two (mul (change 1 c) (lag 1 v))

def mfi (p : Nat) (h l c v : Sig α) : Sig α :=
  let raw := mul (typicalPrice h l c) v
  let mf := mul (signS (change 1 raw)) (skip 1 raw)
  let moneyRatio := div (movingSum p (keepPos mf)) (movingSum p (mulBy negOne (keepNeg mf)))
  incBy hundred (mulBy (Arith.neg hundred) (powInv (incBy one moneyRatio)))

def nviStep (previous : α) (closingRatio volumeChange : α) : α × α :=
  let current := if Arith.le volumeChange zero then previous + closingRatio * previous else previous
  (current, current)
def nvi (initial : α) (c v : Sig α) : Sig α :=
  scan2 α initial nviStep (changeRatio 1 c) (change 1 v)

def obvStep (previous : α) (closing volume : α) : α × α :=
  let current := if Arith.gt closing previous then previous + volume
                 else if Arith.lt closing previous then previous - volume else previous
  (current, current)
def obv (c v : Sig α) : Sig α := scan2 α zero obvStep c v

def vpt (c v : Sig α) : Sig α := cumSum (mul (changeRatio 1 c) (skip 1 v))

def vwap (p : Nat) (c v : Sig α) : Sig α := div (movingSum p (mul c v)) (movingSum p v)

/-! ## momentum -/

def awesomeOscillator (s l : Nat) (highs lows : Sig α) : Sig α :=
  let median := divBy two (add highs lows)
  sub (skip ((l - 1) - (s - 1)) (sma s median)) (sma l median)

def chaikinOscillator (s l : Nat) (h lo c v : Sig α) : List (Sig α) :=
  let a := ad h lo c v
  [sub (skip ((l - 1) - (s - 1)) (ema s two a)) (ema l two a), skip (l - 1) a]

def ichimokuCloud (conv base lead lagging : Nat) (highs lows closings : Sig α) : List (Sig α) :=
  let conversion := divBy two (add (movingMax conv highs) (movingMin conv lows))
  let baseLine := divBy two (add (movingMax base highs) (movingMin base lows))
  let conv0 := skip ((base - 1) - (conv - 1)) conversion
  let leadingA := skip ((lead - 1) - (base - 1)) (divBy two (add conv0 baseLine))
  let leadingB := divBy two (add (movingMax lead highs) (movingMin lead lows))
  let conv1 := skip ((lead - 1) - (base - 1)) conv0
  let base1 := skip ((lead - 1) - (base - 1)) baseLine
  let laggingLine := skip (lead - 1) (shift lagging zero closings)
  [conv1, base1, leadingA, leadingB, laggingLine]

def ppo (s l sig : Nat) (c : Sig α) : List (Sig α) :=
  let shortEma := skip ((l - 1) - (s - 1)) (ema s two c)
  let longEma := ema l two c
  let p := mulBy hundred (div (sub shortEma longEma) longEma)
  let signal := ema sig two p
  let p' := skip (sig - 1) p
  [p', signal, sub p' signal]

def qstick (p : Nat) (openings closings : Sig α) : Sig α := sma p (sub closings openings)

def rsi (p : Nat) (c : Sig α) : Sig α :=
  let changes := change 1 c
  let gains := rma p (keepPos changes)
  let losses := mulBy negOne (rma p (keepNeg changes))
  let rs := div gains losses
  incBy hundred (mulBy negOne (mulBy hundred (powInv (incBy one rs))))

def stochasticOscillator (mp sp : Nat) (highs lows closings : Sig α) : List (Sig α) :=
  let lowest := movingMin mp lows
  let highest := movingMax mp highs
  let closings' := skip (mp - 1) closings
  let k := mulBy hundred (div (sub closings' lowest) (sub highest lowest))
  [skip (sp - 1) k, sma sp k]

def stochasticRsi (p : Nat) (c : Sig α) : Sig α :=
  let r := rsi p c
  let r0 := skip (p - 1) r
  let mn := movingMin p r
  let mx := movingMax p r
  div (sub r0 mn) (sub mx mn)

/-- StochasticRsi whose RSI period differs from the min/max look-back `w` -/
def stochasticRsiG (rp w : Nat) (c : Sig α) : Sig α :=
  let r := rsi rp c
  let r0 := skip (w - 1) r
  let mn := movingMin w r
  let mx := movingMax w r
  div (sub r0 mn) (sub mx mn)

def williamsR (p : Nat) (highs lows closings : Sig α) : Sig α :=
  let highest := movingMax p highs
  let lowest := movingMin p lows
  let closings' := skip (p - 1) closings
  mulBy (Arith.neg hundred) (div (sub highest closings') (sub highest lowest))

/-! ## volatility -/

def accelerationBands (p : Nat) (h l c : Sig α) : List (Sig α) :=
  let ks := div (sub h l) (add h l)
  [sma p (mul h (incBy one (mulBy (nat 4) ks))), sma p c,
   sma p (mul l (incBy one (mulBy (Arith.neg (nat 4)) ks)))]

def trueRange (h l c : Sig α) : Sig α :=
  zip3 (fun high low closing => Arith.max (high - low) (Arith.max (high - closing) (closing - low)))
    (skip 1 h) (skip 1 l) (lag 1 c)
def atr (ma : MaKind) (h l c : Sig α) : Sig α := maApply ma (trueRange h l c)
def atrIdle (ma : MaKind) : Nat := maIdle ma + 1

def bollingerBands (p : Nat) (c : Sig α) : List (Sig α) :=
  let m := sma p c
  let std2 := mulBy two (movingStd p c)
  [add m std2, m, sub m std2]
def bbUpper (p : Nat) (c : Sig α) : Sig α := add (sma p c) (mulBy two (movingStd p c))
def bbLower (p : Nat) (c : Sig α) : Sig α := sub (sma p c) (mulBy two (movingStd p c))

def bollingerBandWidth (p : Nat) (c : Sig α) : Sig α := div (sub (bbUpper p c) (bbLower p c)) (sma p c)

def chandelierExit (p : Nat) (mult : α) (h l c : Sig α) : List (Sig α) :=
  let a := atrIdle (.sma p)
  let maxHighs := skip (a - (p - 1)) (movingMax p h)
  let minLows := skip (a - (p - 1)) (movingMin p l)
  let atr3 := mulBy mult (atr (.sma p) h l c)
  [sub maxHighs atr3, add minLows atr3]

def donchianChannel (p : Nat) (c : Sig α) : List (Sig α) :=
  let upper := movingMax p c
  let lower := movingMin p c
  [upper, divBy two (add upper lower), lower]

def keltnerChannel (p : Nat) (h l c : Sig α) : List (Sig α) :=
  let atrs := mulBy two (atr (.sma p) h l c)
  let middle := skip (atrIdle (.sma p) - (p - 1)) (ema p two c)
  [add middle atrs, middle, sub middle atrs]

/-- KeltnerChannel with its two public components configured separately: an ATR over any moving average
    and an EMA of another period (`Skip(ema, Atr.IdlePeriod() - Ema.IdlePeriod())`) -/
def keltnerChannelG (ma : MaKind) (ep : Nat) (h l c : Sig α) : List (Sig α) :=
  let atrs := mulBy two (atr ma h l c)
  let middle := skip (atrIdle ma - (ep - 1)) (ema ep two c)
  [add middle atrs, middle, sub middle atrs]

def percentB (p : Nat) (c : Sig α) : Sig α :=
  zip3 (fun upperBand lowerBand closing => (closing - lowerBand) / (upperBand - lowerBand))
    (bbUpper p c) (bbLower p c) (skip (p - 1) c)

def po (p : Nat) (highs lows closings : Sig α) : Sig α :=
  let x := count one closings
  let pl := movingMin p (add (skip (p - 1) highs) (mlsM p x highs))
  let ph := movingMax p (add (skip (p - 1) lows) (mlsM p x lows))
  let closings' := skip ((p - 1) + (p - 1)) closings
  mulBy hundred (div (sub closings' pl) (sub ph pl))

structure StState (α : Type) where
  first : Bool
  upTrend : Bool
  previousClosing : α
  finalUpperBand : α
  finalLowerBand : α

def superTrendStep (st : StState α) (median atrMultiple closing : α) : StState α × α :=
  let basicUpperBand := median + atrMultiple
  let basicLowerBand := median - atrMultiple
  if st.first then
    ({ st with first := false, finalUpperBand := basicUpperBand, finalLowerBand := basicLowerBand,
               previousClosing := closing }, basicLowerBand)
  else
    let fub := if Arith.lt basicUpperBand st.finalUpperBand || Arith.gt st.previousClosing st.finalUpperBand
               then basicUpperBand else st.finalUpperBand
    let flb := if Arith.gt basicLowerBand st.finalLowerBand || Arith.lt st.previousClosing st.finalLowerBand
               then basicLowerBand else st.finalLowerBand
    let (res, up) :=
      if st.upTrend then
        (if Arith.le closing fub then (fub, true) else (flb, false))
      else
        (if Arith.ge closing flb then (flb, false) else (fub, true))
    ({ first := false, upTrend := up, previousClosing := closing, finalUpperBand := fub,
       finalLowerBand := flb }, res)

def superTrend (ma : MaKind) (mult : α) (h l c : Sig α) : Sig α :=
  let a := atrIdle ma
  let medians := skip a (divBy two (add h l))
  let atrMultiples := mulBy mult (atr ma h l c)
  let closings' := skip a c
  scan3 (StState α) ⟨true, false, zero, zero, zero⟩ superTrendStep medians atrMultiples closings'

def ulcerIndex (p : Nat) (c : Sig α) : Sig α :=
  let highs := movingMax p c
  let c' := skip (p - 1) c
  let pd := mulBy hundred (div (sub c' highs) highs)
  sqrtS (pow2 (sma p pd))

/-! ## declared idle periods (the Go `IdlePeriod()` expressions, over ℕ) -/
end Ind
