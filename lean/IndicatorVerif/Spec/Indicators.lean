import IndicatorVerif.Spec.Formulas
/-
  The documented formula of each of the 61 indicators (doc comment above the Go type), by position.
  `x j` is the j-th input stream of the Go `Compute` signature.  Core-only.
-/
namespace Spec
open PS Arith
variable {α : Type} [Arith α]

abbrev two : α := nat 2
abbrev hundred : α := nat 100
abbrev one : α := nat 1
abbrev zero : α := nat 0

inductive Ma where
  | sma (p : Nat) | ema (p : Nat) | smma (p : Nat) | wma (p : Nat) | hma (p : Nat)

def halfRound (p : Nat) : Nat := (p + 1) / 2
def roundSqrt (p : Nat) : Nat :=
  ((List.range (p + 2)).find? (fun r => 4 * p < (2 * r + 1) * (2 * r + 1))).getD 0

/-- WMA1 = WMA(period/2), WMA2 = WMA(period), HMA = WMA(sqrt(period), 2·WMA1 − WMA2) -/
def hma (p : Nat) (v : PS α) : PS α :=
  wma (roundSqrt p) (scale two (wma (halfRound p) v) - wma p v)

def ma (N : Nat) : Ma → PS α → PS α
  | .sma p, v => sma p v
  | .ema p, v => ema N p two v
  | .smma p, v => smma N p v
  | .wma p, v => wma p v
  | .hma p, v => hma p v

def maOf (kind p : Nat) : Ma :=
  match kind with
  | 0 => .sma p | 1 => .ema p | 2 => .smma p | 3 => .smma p | 4 => .wma p | _ => .hma p

/-- Typical Price = (High + Low + Closing) / 3 -/
def typicalPrice (h l c : PS α) : PS α := over (nat 3) (h + l + c)

/-- Aroon = ((N − periods since the N-period extreme) / N) · 100, the most recent occurrence counting -/
def sinceExtreme (p : Nat) (pick : List α → α) (a : PS α) : PS α :=
  ⟨a.start + (p - 1), fun i =>
    let w := window p a.val i
    let e := pick w
    -- number of positions since the most recent occurrence of the extreme
    let idx := ((List.range p).find? (fun d => Arith.beq (a.val (i - d)) e)).getD 0
    nat idx⟩
def aroonLine (p : Nat) (pick : List α → α) (a : PS α) : PS α :=
  scale hundred (over (nat p) (map (fun s => nat p - s) (sinceExtreme p pick a)))

/-- MFM = ((Closing − Low) − (High − Closing)) / (High − Low) -/
def mfm (h l c : PS α) : PS α := ((c - l) - (h - c)) / (h - l)
def mfv (h l c v : PS α) : PS α := mfm h l c * v
/-- AD = Previous AD + MFV -/
def ad (N : Nat) (h l c v : PS α) : PS α :=
  let m := mfv h l c v
  cumul N m.start zero (fun acc i => acc + m.val i)

/-- TR = Max(High − Low, High − Previous Closing, Previous Closing − Low) -/
def trueRange (h l c : PS α) : PS α :=
  map3 (fun hi lo pc => Arith.max (hi - lo) (Arith.max (hi - pc) (pc - lo))) h l (prev 1 c)
def atr (N : Nat) (m : Ma) (h l c : PS α) : PS α := ma N m (trueRange h l c)

def bbMiddle (p : Nat) (c : PS α) : PS α := sma p c
def bbUpper (p : Nat) (c : PS α) : PS α := sma p c + scale two (mstd p c)
def bbLower (p : Nat) (c : PS α) : PS α := sma p c - scale two (mstd p c)

/-- m = (p·ΣXY − ΣX·ΣY) / (p·ΣX² − ΣX·ΣX),  b = (ΣY − m·ΣX) / p -/
def mlsM (p : Nat) (x y : PS α) : PS α :=
  (scale (nat p) (msum p (x * y)) - msum p x * msum p y) /
  (scale (nat p) (msum p (map Arith.sq x)) - msum p x * msum p x)
def mlsB (p : Nat) (x y : PS α) : PS α := over (nat p) (msum p y - mlsM p x y * msum p x)

/-- RSI = 100 − 100/(1 + AvgGain/AvgLoss), averages are RMAs of the positive / negative changes -/
def rsi (N : Nat) (p : Nat) (c : PS α) : PS α :=
  let ch := c - prev 1 c
  let gains := rma N p (map (fun v => if Arith.gt v zero then v else zero) ch)
  let losses := rma N p (map (fun v => if Arith.lt v zero then Arith.neg v else zero) ch)
  map (fun rs => hundred - hundred / (one + rs)) (gains / losses)

def superTrendFold (N : Nat) (mult : α) (m : Ma) (h l c : PS α) : PS α :=
  let a := cache N (atr N m h l c)
  let med := over two (h + l)
  let s := a.start
  -- state: (upTrend, finalUpper, finalLower, superTrend)
  let stepAt (st : Bool × α × α × α) (i : Nat) (first : Bool) : Bool × α × α × α :=
    let bu := med.val i + mult * a.val i
    let bl := med.val i - mult * a.val i
    if first then (false, bu, bl, bl) else
    let (up, fu, fl, _) := st
    let pc := c.val (i - 1)
    let fu' := if Arith.lt bu fu || Arith.gt pc fu then bu else fu
    let fl' := if Arith.gt bl fl || Arith.lt pc fl then bl else fl
    if up then (if Arith.le (c.val i) fu' then (true, fu', fl', fu') else (false, fu', fl', fl'))
    else (if Arith.ge (c.val i) fl' then (false, fu', fl', fl') else (true, fu', fl', fu'))
  let st := cumulState N s (false, zero, zero, zero) (fun acc i => stepAt acc i (i == s))
  ⟨s, fun i => (st i).2.2.2⟩

/-- the registry of documented formulas: outputs in the Go order -/
def formulas (N : Nat) (name : String) (ns : List Nat) (fs : List α) (x : Nat → Nat → α) : Option (List (PS α)) :=
  let n (k : Nat) : Nat := ns.getD k 0
  let f (k : Nat) : α := fs.getD k zero
  let sm (k : Nat) : α := fs.getD k two
  let i0 : PS α := input (x 0)
  let i1 : PS α := input (x 1)
  let i2 : PS α := input (x 2)
  let i3 : PS α := input (x 3)
  match name with
  -- trend
  | "Apo" => some [ema N (n 0) (sm 0) i0 - ema N (n 1) (sm 1) i0]
  | "Aroon" => some [aroonLine (n 0) maxL i0, aroonLine (n 0) minL i1]
  | "Bop" => some [(i3 - i0) / (i1 - i2)]
  | "Cci" =>
    let tp := typicalPrice i0 i1 i2
    let m := sma (n 0) tp
    let md := sma (n 0) (map Arith.abs (tp - m))
    some [(tp - m) / scale (nat 15 / nat 1000) md]
  | "Dema" => let e1 := ema N (n 0) two i0; some [scale two e1 - ema N (n 1) two e1]
  | "Ema" => some [ema N (n 0) (sm 0) i0]
  | "Envelope" =>
    let m := ma N (maOf (n 0) (n 1)) i0
    some [scale (one + f 0 / hundred) m, m, scale (one - f 0 / hundred) m]
  | "Hma" => some [hma (n 0) i0]
  | "Kama" =>
    let er := n 0
    let direction := map Arith.abs (i0 - prev er i0)
    let volatility := msum er (map Arith.abs (i0 - prev 1 i0))
    let fastSc : α := two / nat (n 1 + 1)
    let slowSc : α := two / nat (n 2 + 1)
    let sc := map (fun e => Arith.sq (e * (fastSc - slowSc) + slowSc)) (direction / volatility)
    some [cumul N sc.start zero (fun acc i =>
      let prevK := if i = sc.start then x 0 (i - 1) else acc
      prevK + sc.val i * (x 0 i - prevK))]
  | "Kdj" =>
    let rsv := scale hundred ((i2 - mmin (n 0) i1) / (mmax (n 0) i0 - mmin (n 0) i1))
    let k := sma (n 1) rsv
    let d := sma (n 2) k
    some [from_ d.start k, d, scale (nat 3) k - scale two d]
  | "Macd" =>
    let m := ema N (n 0) two i0 - ema N (n 1) two i0
    let s := ema N (n 2) two m
    some [from_ s.start m, s]
  | "MassIndex" =>
    let e1 := ema N (n 0) two (i0 - i1)
    some [msum (n 2) (e1 / ema N (n 1) two e1)]
  | "Mlr" => some [mlsM (n 0) i0 i1 * i0 + mlsB (n 0) i0 i1]
  | "Mls" => some [mlsM (n 0) i0 i1, mlsB (n 0) i0 i1]
  | "MovingMax" => some [mmax (n 0) i0]
  | "MovingMin" => some [mmin (n 0) i0]
  | "MovingSum" => some [msum (n 0) i0]
  | "Rma" => some [rma N (n 0) i0]
  | "Sma" => some [sma (n 0) i0]
  | "Smma" => some [smma N (n 0) i0]
  | "Tema" =>
    let e1 := ema N (n 0) two i0
    let e2 := ema N (n 1) two e1
    let e3 := ema N (n 2) two e2
    some [scale (nat 3) e1 - scale (nat 3) e2 + e3]
  | "Trima" =>
    let p := n 0
    some [if p % 2 = 0 then sma (p / 2) (sma (p / 2 + 1) i0) else sma ((p + 1) / 2) (sma ((p + 1) / 2) i0)]
  | "Trix" =>
    let e3 := ema N (n 0) two (ema N (n 0) two (ema N (n 0) two i0))
    some [(e3 - prev 1 e3) / prev 1 e3]
  | "Tsi" =>
    -- PCDS = Ema(second, Ema(first, change)) — first smoothing applied first, as the comment and field names say
    let ch := i0 - prev 1 i0
    let pcds := ema N (n 1) two (ema N (n 0) two ch)
    let apcds := ema N (n 1) two (ema N (n 0) two (map Arith.abs ch))
    some [scale hundred (pcds / apcds)]
  | "TypicalPrice" => some [typicalPrice i0 i1 i2]
  | "Vwma" => some [msum (n 0) (i0 * i1) / msum (n 0) i1]
  | "WeightedClose" => some [over (nat 4) (i0 + i1 + scale two i2)]
  | "Wma" => some [wma (n 0) i0]
  -- momentum
  | "AwesomeOscillator" => let med := over two (i0 + i1); some [sma (n 0) med - sma (n 1) med]
  | "ChaikinOscillator" =>
    let a := ad N i0 i1 i2 i3
    let co := ema N (n 0) two a - ema N (n 1) two a
    some [co, from_ co.start a]
  | "IchimokuCloud" =>
    let conv := over two (mmax (n 0) i0 + mmin (n 0) i1)
    let base := over two (mmax (n 1) i0 + mmin (n 1) i1)
    let leadA := over two (conv + base)
    let leadB := over two (mmax (n 2) i0 + mmin (n 2) i1)
    let w := leadB.start
    -- lagging span: the closing, reported over the same positions as the other lines
    some [from_ w conv, from_ w base, from_ w leadA, leadB, from_ w (prev (n 3) i2)]
  | "Ppo" | "Pvo" =>
    let p := scale hundred ((ema N (n 0) two i0 - ema N (n 1) two i0) / ema N (n 1) two i0)
    let s := ema N (n 2) two p
    some [from_ s.start p, s, p - s]
  | "Qstick" => some [sma (n 0) (i1 - i0)]
  | "Rsi" => some [rsi N (n 0) i0]
  | "StochasticOscillator" =>
    let k := scale hundred ((i2 - mmin (n 0) i1) / (mmax (n 0) i0 - mmin (n 0) i1))
    let d := sma (n 1) k
    some [from_ d.start k, d]
  | "StochasticRsi" =>
    let r := rsi N (n 0) i0
    some [(r - mmin (n 0) r) / (mmax (n 0) r - mmin (n 0) r)]
  | "StochasticRsiG" =>
    let r := rsi N (n 0) i0
    some [(r - mmin (n 1) r) / (mmax (n 1) r - mmin (n 1) r)]
  | "WilliamsR" =>
    some [scale (Arith.neg hundred) ((mmax (n 0) i0 - i2) / (mmax (n 0) i0 - mmin (n 0) i1))]
  -- volatility
  | "AccelerationBands" =>
    let k := (i0 - i1) / (i0 + i1)
    some [sma (n 0) (i0 * plus one (scale (nat 4) k)), sma (n 0) i2,
          sma (n 0) (i1 * map (fun v => one - nat 4 * v) k)]
  | "Atr" => some [atr N (maOf (n 0) (n 1)) i0 i1 i2]
  | "BollingerBandWidth" => some [(bbUpper (n 0) i0 - bbLower (n 0) i0) / bbMiddle (n 0) i0]
  | "BollingerBands" => some [bbUpper (n 0) i0, bbMiddle (n 0) i0, bbLower (n 0) i0]
  | "ChandelierExit" =>
    let a := scale (f 0) (atr N (.sma (n 0)) i0 i1 i2)
    some [mmax (n 0) i0 - a, mmin (n 0) i1 + a]
  | "DonchianChannel" =>
    some [mmax (n 0) i0, over two (mmax (n 0) i0 + mmin (n 0) i0), mmin (n 0) i0]
  | "KeltnerChannel" =>
    let a := scale two (atr N (.sma (n 0)) i0 i1 i2)
    let m := ema N (n 0) two i2
    some [m + a, from_ a.start m, m - a]
  | "KeltnerChannelG" =>
    let a := scale two (atr N (maOf (n 0) (n 1)) i0 i1 i2)
    let m := ema N (n 2) two i2
    some [m + a, from_ a.start m, m - a]
  | "MovingStd" => some [mstd (n 0) i0]
  | "PercentB" => some [(i0 - bbLower (n 0) i0) / (bbUpper (n 0) i0 - bbLower (n 0) i0)]
  | "Po" =>
    let xs : PS α := ⟨0, fun i => nat (i + 1)⟩
    let pl := mmin (n 0) (i0 + mlsM (n 0) xs i0)
    let ph := mmax (n 0) (i1 + mlsM (n 0) xs i1)
    some [scale hundred ((i2 - pl) / (ph - pl))]
  | "SuperTrend" => some [superTrendFold N (f 0) (maOf (n 0) (n 1)) i0 i1 i2]
  | "UlcerIndex" =>
    let hc := mmax (n 0) i0
    let pd := scale hundred ((i0 - hc) / hc)
    some [map Arith.sqrt (sma (n 0) (pd * pd))]
  -- volume
  | "Ad" => some [ad N i0 i1 i2 i3]
  | "Cmf" => some [msum (n 0) (mfv i0 i1 i2 i3) / msum (n 0) i3]
  | "Emv" =>
    let mid := over two (i0 + i1)
    let distance := mid - prev 1 mid
    let box := over (nat 100000000) i2 / (i0 - i1)
    some [sma (n 0) (distance / box)]
  | "Fi" => some [ema N (n 0) two ((i0 - prev 1 i0) * i1)]
  | "Mfi" =>
    let raw := typicalPrice i0 i1 i2 * i3
    let ch := raw - prev 1 raw
    let pos := msum (n 0) (map2 (fun d r => if Arith.gt d zero then r else zero) ch raw)
    let neg := msum (n 0) (map2 (fun d r => if Arith.lt d zero then r else zero) ch raw)
    some [map (fun mr => hundred - hundred / (one + mr)) (pos / neg)]
  | "Mfm" => some [mfm i0 i1 i2]
  | "Mfv" => some [mfv i0 i1 i2 i3]
  | "Nvi" =>
    some [cumul N 1 (f 0) (fun acc i =>
      if Arith.gt (x 1 i) (x 1 (i - 1)) then acc
      else acc + ((x 0 i - x 0 (i - 1)) / x 0 (i - 1)) * acc)]
  | "Obv" =>
    -- OBV[i] = OBV[i-1] ± Volume[i] by Closing[i] vs Closing[i-1]; OBV before the first bar is 0 and the
    -- first bar has no previous closing (the comment starts at "Foreach Closing"): it adds nothing.
    some [cumul N 0 zero (fun acc i =>
      if i = 0 then acc
      else if Arith.gt (x 0 i) (x 0 (i - 1)) then acc + x 1 i
      else if Arith.lt (x 0 i) (x 0 (i - 1)) then acc - x 1 i else acc)]
  | "Vpt" =>
    some [cumul N 1 zero (fun acc i => acc + x 1 i * (x 0 i - x 0 (i - 1)) / x 0 (i - 1))]
  | "Vwap" => some [msum (n 0) (i0 * i1) / msum (n 0) i1]
  | _ => none

end Spec
