import IndicatorVerif.Model.Arith
/-
  Specification layer: the *documented formula* of every indicator as a function of the input
  position, transcribed from the doc comment above each Go type — no Skip / Shift / Buffered, no
  channels: a formula is a `PS` (a start position, i.e. the warm-up the formula implies, and a value
  for every later position).  All joins are at the same position `i`; "previous" is `i - 1`.

  Readings adopted where a comment is loose (part of the trusted base of C01):
  * EMA (no formula in the comment): seed = SMA of the first `period` values of its argument,
    then `EMA = (value − previous EMA) · smoothing/(period+1) + previous EMA`.
  * WMA comment `((Value1 * 1/N) + (Value2 * 2/N) + …) / 2`: Value_k is the k-th oldest of the window.
  * ATR comment lists `(High − Previous Closing)` and `(Previous Closing − Low)` without abs: taken literally.
  * Chandelier "SMA High"/"SMA Low": highest high / lowest low of the period (as every description of
    the Chandelier Exit has it); Keltner middle = EMA.
  * Aroon "Period Since Last 25 Period High": number of positions since the most recent occurrence of
    the window maximum.
  * Std: population standard deviation of the window.
  * KAMA first value: previous KAMA := previous closing.
  Core-only (generic over `Arith α`; executed in Float by the driver, instantiated at ℝ in proofs).
-/

structure PS (α : Type) where
  start : Nat
  val : Nat → α

namespace PS
open Arith
variable {α : Type} [Arith α]

def input (x : Nat → α) : PS α := ⟨0, x⟩
def map (f : α → α) (a : PS α) : PS α := ⟨a.start, fun i => f (a.val i)⟩
def map2 (f : α → α → α) (a b : PS α) : PS α := ⟨Nat.max a.start b.start, fun i => f (a.val i) (b.val i)⟩
def map3 (f : α → α → α → α) (a b c : PS α) : PS α :=
  ⟨Nat.max (Nat.max a.start b.start) c.start, fun i => f (a.val i) (b.val i) (c.val i)⟩
/-- the value `k` positions earlier -/
def prev (k : Nat) (a : PS α) : PS α := ⟨a.start + k, fun i => a.val (i - k)⟩
/-- start later (a formula that is only *reported* from some position on) -/
def from_ (s : Nat) (a : PS α) : PS α := ⟨Nat.max a.start s, a.val⟩

instance : Add (PS α) := ⟨map2 (· + ·)⟩
instance : Sub (PS α) := ⟨map2 (· - ·)⟩
instance : Mul (PS α) := ⟨map2 (· * ·)⟩
instance : Div (PS α) := ⟨map2 (· / ·)⟩
def scale (k : α) (a : PS α) : PS α := map (fun v => v * k) a
def over (k : α) (a : PS α) : PS α := map (fun v => v / k) a
def plus (k : α) (a : PS α) : PS α := map (fun v => v + k) a

/-- the window `[i-p+1 … i]`, oldest first -/
def window (p : Nat) (f : Nat → α) (i : Nat) : List α := (List.range p).map (fun j => f (i + 1 - p + j))

def sumL (l : List α) : α := l.foldl (· + ·) (nat 0)
def maxL (l : List α) : α := match l with | [] => nat 0 | x :: t => t.foldl Arith.max x
def minL (l : List α) : α := match l with | [] => nat 0 | x :: t => t.foldl Arith.min x

def msum (p : Nat) (a : PS α) : PS α := ⟨a.start + (p - 1), fun i => sumL (window p a.val i)⟩
def mmax (p : Nat) (a : PS α) : PS α := ⟨a.start + (p - 1), fun i => maxL (window p a.val i)⟩
def mmin (p : Nat) (a : PS α) : PS α := ⟨a.start + (p - 1), fun i => minL (window p a.val i)⟩
def sma (p : Nat) (a : PS α) : PS α := over (nat p) (msum p a)

/-- `cache N a` is `a` (theorem `cache_val`), with the values for positions `< N` tabulated once.
    `N` is only an evaluation horizon: it lets the driver run nested recursive formulas in
    quadratic instead of exponential time, and has no effect on any value. -/
def cache (N : Nat) (a : PS α) : PS α :=
  let tab := (Array.range N).map a.val
  ⟨a.start, fun i => if h : i < tab.size then tab[i] else a.val i⟩

theorem cache_val (N : Nat) (a : PS α) (i : Nat) : (cache N a).val i = a.val i := by
  simp only [cache]
  split
  · simp
  · rfl

theorem cache_start (N : Nat) (a : PS α) : (cache N a).start = a.start := rfl

/-- value at position `s + fuel` of the seed-and-recurrence average -/
def recGo (p : Nat) (upd : α → α → α) (a : PS α) (s : Nat) : Nat → α
  | 0 => sumL (window p a.val s) / nat p
  | m + 1 => upd (recGo p upd a s m) (a.val (s + m + 1))

/-- seed-and-recurrence averages; `upd prev value` -/
def recAvg (N : Nat) (p : Nat) (upd : α → α → α) (a : PS α) : PS α :=
  let s := a.start + (p - 1)
  -- tabulate in one pass (same values as `recGo`)
  let tab : Array α := (List.range (N - s)).foldl
    (fun (t : Array α) m =>
      t.push (match m with
        | 0 => sumL (window p a.val s) / nat p
        | k + 1 => upd (t.getD k (nat 0)) (a.val (s + k + 1)))) #[]
  ⟨s, fun i => if h : i - s < tab.size then tab[i - s] else recGo p upd a s (i - s)⟩

def ema (N : Nat) (p : Nat) (smoothing : α) (a : PS α) : PS α :=
  recAvg N p (fun prev v => (v - prev) * (smoothing / nat (p + 1)) + prev) a
/-- R[i] = ((R[i-1]*(p-1)) + v[i]) / p -/
def rma (N : Nat) (p : Nat) (a : PS α) : PS α := recAvg N p (fun prev v => ((prev * nat (p - 1)) + v) / nat p) a
def smma (N : Nat) (p : Nat) (a : PS α) : PS α := rma N p a

/-- WMA = (Σ_k Value_k · k/N) / 2, Value_k the k-th oldest of the window -/
def wma (p : Nat) (a : PS α) : PS α :=
  ⟨a.start + (p - 1), fun i =>
    ((List.range p).foldl (fun s k => s + a.val (i + 1 - p + k) * nat (k + 1) / nat p) (nat 0)) / nat 2⟩

/-- Std = Sqrt(1/Period * Sum(Pow(value - sma, 2))) -/
def mstd (p : Nat) (a : PS α) : PS α :=
  ⟨a.start + (p - 1), fun i =>
    let w := window p a.val i
    let m := sumL w / nat p
    Arith.sqrt (sumL (w.map (fun v => Arith.sq (v - m))) / nat p)⟩

/-- cumulative fold from the start position: `acc_{start-1} = init`, `acc_i = f acc_{i-1} i` -/
def cumulGo (start : Nat) (init : α) (f : α → Nat → α) : Nat → α
  | 0 => f init start
  | m + 1 => f (cumulGo start init f m) (start + m + 1)
def cumul (N : Nat) (start : Nat) (init : α) (f : α → Nat → α) : PS α :=
  let tab : Array α := (List.range (N - start)).foldl
    (fun (t : Array α) m =>
      t.push (match m with
        | 0 => f init start
        | k + 1 => f (t.getD k init) (start + k + 1))) #[]
  ⟨start, fun i => if h : i - start < tab.size then tab[i - start] else cumulGo start init f (i - start)⟩

/-- like `cumul` for an arbitrary state type (used by the SuperTrend formula) -/
def cumulStateGo {σ : Type} (start : Nat) (init : σ) (f : σ → Nat → σ) : Nat → σ
  | 0 => f init start
  | m + 1 => f (cumulStateGo start init f m) (start + m + 1)
def cumulState {σ : Type} (N : Nat) (start : Nat) (init : σ) (f : σ → Nat → σ) : Nat → σ :=
  let tab : Array σ := (List.range (N - start)).foldl
    (fun (t : Array σ) m =>
      t.push (match m with
        | 0 => f init start
        | k + 1 => f (t.getD k init) (start + k + 1))) #[]
  fun i => if h : i - start < tab.size then tab[i - start] else cumulStateGo start init f (i - start)

/-- the formula's values for positions `start … n-1` (what an n-element input must produce) -/
def toList (a : PS α) (n : Nat) : List α := (List.range (n - a.start)).map (fun k => a.val (a.start + k))

end PS
