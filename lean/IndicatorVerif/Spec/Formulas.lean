import IndicatorVerif.Model.Arith
/-
  Specification layer: the *documented formula* of every indicator as a function of the input
  position, transcribed from the doc comment above each Go type — no Skip / Shift / Buffered, no
  channels: a formula is a `PS` (a start position, i.e. the warm-up the formula implies, and a value
  for every later position).  All joins are at the same position `i`; "previous" is `i - 1`.

  Readings adopted where a comment is loose (part of the trusted base of C01):
  * EMA (no formula in the comment): seed = SMA of the first `period` values of its argument,
    then `EMA = (value − previous EMA) · smoothing/(period+1) + previous EMA`.
  * WMA comment `((Value1 * 1/N) + (Value2 * 2/N) + …) / 2`: Value_k is the k-th oldest of the window.
  * ATR comment lists `(High − Previous Closing)` and `(Previous Closing − Low)` without abs: taken literally.
  * Chandelier "SMA High"/"SMA Low": highest high / lowest low of the period (as every description of
    the Chandelier Exit has it); Keltner middle = EMA.
  * Aroon "Period Since Last 25 Period High": number of positions since the most recent occurrence of
    the window maximum.
  * Std: population standard deviation of the window.
  * KAMA first value: previous KAMA := previous closing.
  Core-only (generic over `Arith α`; executed in Float by the driver, instantiated at ℝ in proofs).
-/

structure PS (α : Type) where
  start : Nat
  val : Nat → α

namespace PS
open Arith
variable {α : Type} [Arith α]

def input (x : Nat → α) : PS α := ⟨0, x⟩
def map (f : α → α) (a : PS α) : PS α := ⟨a.start, fun i => f (a.val i)⟩
def map2 (f : α → α → α) (a b : PS α) : PS α := ⟨Nat.max a.start b.start, fun i => f (a.val i) (b.val i)⟩
def map3 (f : α → α → α → α) (a b c : PS α) : PS α :=
  ⟨Nat.max (Nat.max a.start b.start) c.start, fun i => f (a.val i) (b.val i) (c.val i)⟩
/-- the value `k` positions earlier -/
def prev (k : Nat) (a : PS α) : PS α := ⟨a.start + k, fun i => a.val (i - k)⟩
/-- start later (a formula that is only *reported* from some position on) -/
def from_ (s : Nat) (a : PS α) : PS α := ⟨Nat.max a.start s, a.val⟩

instance : Add (PS α) := ⟨map2 (· + ·)⟩
instance : Sub (PS α) := ⟨map2 (· - ·)⟩
instance : Mul (PS α) := ⟨map2 (· * ·)⟩
instance : Div (PS α) := ⟨map2 (· / ·)⟩
def scale (k : α) (a : PS α) : PS α := map (fun v => v * k) a
def over (k : α) (a : PS α) : PS α := map (fun v => v / k) a
def plus (k : α) (a : PS α) : PS α := map (fun v => v + k) a

/-- the window `[i-p+1 … i]`, oldest first -/
def window (p : Nat) (f : Nat → α) (i : Nat) : List α := (List.range p).map (fun j => f (i + 1 - p + j))

def sumL (l : List α) : α := l.foldl (· + ·) (nat 0)
def maxL (l : List α) : α := match l with | [] => nat 0 | x :: t => t.foldl Arith.max x
def minL (l : List α) : α := match l with | [] => nat 0 | x :: t => t.foldl Arith.min x

def msum (p : Nat) (a : PS α) : PS α := ⟨a.start + (p - 1), fun i => sumL (window p a.val i)⟩
def mmax (p : Nat) (a : PS α) : PS α := ⟨a.start + (p - 1), fun i => maxL (window p a.val i)⟩
def mmin (p : Nat) (a : PS α) : PS α := ⟨a.start + (p - 1), fun i => minL (window p a.val i)⟩
def sma (p : Nat) (a : PS α) : PS α := over (nat p) (msum p a)

/-- `cache N a` is `a` (theorem `cache_val`), with the values for positions `< N` tabulated once.
    `N` is only an evaluation horizon: it lets the driver run nested recursive formulas in
    quadratic instead of exponential time, and has no effect on any value. -/
def cache (N : Nat) (a : PS α) : PS α :=
  let tab := (Array.range N).map a.val
  ⟨a.start, fun i => if h : i < tab.size then tab[i] else a.val i⟩

theorem cache_val (N : Nat) (a : PS α) (i : Nat) : (cache N a).val i = a.val i := by
  simp only [cache]
  split
  · simp
  · rfl

theorem cache_start (N : Nat) (a : PS α) : (cache N a).start = a.start := rfl

/-- the recursion `G 0 = f0`, `G (k+1) = fs (G k) k` … -/
def recG {β : Type} (f0 : β) (fs : β → Nat → β) : Nat → β
  | 0 => f0
  | k + 1 => fs (recG f0 fs k) k

/-- one tabulation step: append the value for index `m` -/
def tabStep {β : Type} (d f0 : β) (fs : β → Nat → β) (t : Array β) (m : Nat) : Array β :=
  t.push (match m with
    | 0 => f0
    | k + 1 => fs (t.getD k d) k)

/-- … and its first `n` values tabulated in one pass (`d` is never read) -/
def tabulate {β : Type} (d : β) (f0 : β) (fs : β → Nat → β) (n : Nat) : Array β :=
  (List.range n).foldl (tabStep d f0 fs) #[]

theorem tabulate_succ {β : Type} (d f0 : β) (fs : β → Nat → β) (n : Nat) :
    tabulate d f0 fs (n + 1) = tabStep d f0 fs (tabulate d f0 fs n) n := by
  simp [tabulate, List.range_succ, List.foldl_append]

theorem tabulate_spec {β : Type} (d f0 : β) (fs : β → Nat → β) (n : Nat) :
    (tabulate d f0 fs n).size = n ∧ ∀ k, k < n → (tabulate d f0 fs n)[k]? = some (recG f0 fs k) := by
  induction n with
  | zero => simp [tabulate]
  | succ n ih =>
    obtain ⟨hs, hv⟩ := ih
    rw [tabulate_succ]
    refine ⟨by simp [tabStep, hs], ?_⟩
    intro k hk
    simp only [tabStep, Array.getElem?_push, hs]
    by_cases hkn : k = n
    · simp only [hkn, if_true]
      cases n with
      | zero => simp [recG]
      | succ m =>
        have hm := hv m (by omega)
        simp only [recG]
        congr 2
        simp [Array.getD_eq_getD_getElem?, hm]
    · simp only [hkn, if_false]
      exact hv k (by omega)

/-- a tabulated recursion read with a fall-back: always the recursion's value -/
def tabVal {β : Type} (d f0 : β) (fs : β → Nat → β) (n : Nat) : Nat → β :=
  let tab := tabulate d f0 fs n
  fun k => if h : k < tab.size then tab[k] else recG f0 fs k

theorem tabVal_eq {β : Type} (d f0 : β) (fs : β → Nat → β) (n k : Nat) :
    tabVal d f0 fs n k = recG f0 fs k := by
  simp only [tabVal]
  split
  · rename_i h
    obtain ⟨hs, hv⟩ := tabulate_spec d f0 fs n
    have := hv k (by omega)
    rw [Array.getElem?_eq_getElem h] at this
    exact Option.some.inj this
  · rfl

/-- seed-and-recurrence averages; `upd prev value`.  Value at position `s + k`, `s = start + p − 1`:
    `G 0 = mean of the first p values`, `G (k+1) = upd (G k) (a (s+k+1))`. -/
def recAvg (N : Nat) (p : Nat) (upd : α → α → α) (a : PS α) : PS α :=
  let s := a.start + (p - 1)
  let v := tabVal (nat 0) (sumL (window p a.val s) / nat p) (fun prev k => upd prev (a.val (s + k + 1))) (N - s)
  ⟨s, fun i => v (i - s)⟩

def ema (N : Nat) (p : Nat) (smoothing : α) (a : PS α) : PS α :=
  recAvg N p (fun prev v => (v - prev) * (smoothing / nat (p + 1)) + prev) a
/-- R[i] = ((R[i-1]*(p-1)) + v[i]) / p -/
def rma (N : Nat) (p : Nat) (a : PS α) : PS α := recAvg N p (fun prev v => ((prev * nat (p - 1)) + v) / nat p) a
def smma (N : Nat) (p : Nat) (a : PS α) : PS α := rma N p a

/-- WMA = (Σ_k Value_k · k/N) / 2, Value_k the k-th oldest of the window -/
def wma (p : Nat) (a : PS α) : PS α :=
  ⟨a.start + (p - 1), fun i =>
    ((List.range p).foldl (fun s k => s + a.val (i + 1 - p + k) * nat (k + 1) / nat p) (nat 0)) / nat 2⟩

/-- Std = Sqrt(1/Period * Sum(Pow(value - sma, 2))) -/
def mstd (p : Nat) (a : PS α) : PS α :=
  ⟨a.start + (p - 1), fun i =>
    let w := window p a.val i
    let m := sumL w / nat p
    Arith.sqrt (sumL (w.map (fun v => Arith.sq (v - m))) / nat p)⟩

/-- `acc_start = f init start`, `acc_{i+1} = f acc_i (i+1)` -/
def cumul (N : Nat) (start : Nat) (init : α) (f : α → Nat → α) : PS α :=
  let v := tabVal init (f init start) (fun acc k => f acc (start + k + 1)) (N - start)
  ⟨start, fun i => v (i - start)⟩

/-- like `cumul` for an arbitrary state type (used by the SuperTrend formula) -/
def cumulState {σ : Type} (N : Nat) (start : Nat) (init : σ) (f : σ → Nat → σ) : Nat → σ :=
  let v := tabVal init (f init start) (fun acc k => f acc (start + k + 1)) (N - start)
  fun i => v (i - start)

/-- the formula's values for positions `start … n-1` (what an n-element input must produce) -/
def toList (a : PS α) (n : Nat) : List α := (List.range (n - a.start)).map (fun k => a.val (a.start + k))

end PS
