import IndicatorVerif.Props.C10
/-
  C12 — Sync copies exactly the missing snapshots, once, for every asset.
  Model: `SyncM.syncOne` (one job of the worker loop) and `SyncM.run` (the jobs in list order).
  Theorems: what a job appends; a failing asset neither blocks the others nor goes unreported;
  a second run adds nothing (date-sorted source); jobs on distinct assets commute, so any order
  of the jobs — hence any worker count and interleaving of whole jobs — gives the same target.
-/
namespace C12
open Repo SyncM

/-- observational equality of targets -/
def Same (a b : Store) : Prop := ∀ n, lookup a n = lookup b n

theorem Same.refl (a : Store) : Same a a := fun _ => rfl
theorem Same.trans {a b c : Store} (h1 : Same a b) (h2 : Same b c) : Same a c := fun n => (h1 n).trans (h2 n)

/-- **What one job does**: a successful job appends exactly the source snapshots dated on/after the start
    (the day after the target's last snapshot, or the default start when the target has none) -/
theorem syncOne_result (src tgt : Store) (dflt : Nat) (fg fa : String → Bool) (name : String) (l : List Snap)
    (hg : fg name = false) (ha : fa name = false) (hs : lookup src name = some l) :
    syncOne src tgt dflt fg fa name =
      (append tgt name (sinceF (startDay (lookup tgt name) dflt) l), false) := by
  simp [syncOne, hg, ha, hs]

/-- **Fault isolation (one job)**: a failing read or append leaves the target untouched and is reported -/
theorem syncOne_failure (src tgt : Store) (dflt : Nat) (fg fa : String → Bool) (name : String)
    (h : fg name = true ∨ fa name = true ∨ lookup src name = none) :
    syncOne src tgt dflt fg fa name = (tgt, true) := by
  unfold syncOne
  rcases h with h | h | h
  · simp [h]
  · by_cases hg : fg name = true
    · simp [hg]
    · cases hs : lookup src name <;> simp [hg, hs, h]
  · by_cases hg : fg name = true
    · simp [hg]
    · simp [hg, h]

/-- a job only touches its own asset -/
theorem syncOne_other (src tgt : Store) (dflt : Nat) (fg fa : String → Bool) (name m : String) (hm : m ≠ name) :
    lookup (syncOne src tgt dflt fg fa name).1 m = lookup tgt m := by
  unfold syncOne
  by_cases hg : fg name = true
  · simp [hg]
  · cases hs : lookup src name with
    | none => simp [hg]
    | some l =>
      by_cases ha : fa name = true
      · simp [hg, ha]
      · simp [hg, ha, C10.lookup_append, hm]

/-- a job's effect on its own asset depends only on what the target holds for that asset -/
theorem syncOne_congr (src a b : Store) (dflt : Nat) (fg fa : String → Bool) (name : String)
    (h : lookup a name = lookup b name) :
    lookup (syncOne src a dflt fg fa name).1 name = lookup (syncOne src b dflt fg fa name).1 name ∧
    (syncOne src a dflt fg fa name).2 = (syncOne src b dflt fg fa name).2 := by
  unfold syncOne
  by_cases hg : fg name = true
  · simp [hg, h]
  · cases hs : lookup src name with
    | none => simp [hg, h]
    | some l =>
      by_cases ha : fa name = true
      · simp [hg, ha, h]
      · simp [hg, ha, C10.lookup_append, h]

theorem syncOne_same (src a b : Store) (dflt : Nat) (fg fa : String → Bool) (name : String) (h : Same a b) :
    Same (syncOne src a dflt fg fa name).1 (syncOne src b dflt fg fa name).1 ∧
    (syncOne src a dflt fg fa name).2 = (syncOne src b dflt fg fa name).2 := by
  refine ⟨fun m => ?_, (syncOne_congr src a b dflt fg fa name (h name)).2⟩
  by_cases hm : m = name
  · subst hm; exact (syncOne_congr src a b dflt fg fa m (h m)).1
  · rw [syncOne_other _ _ _ _ _ _ _ hm, syncOne_other _ _ _ _ _ _ _ hm]; exact h m

/-- **Jobs on distinct assets commute** (same target, same error reports) -/
theorem syncOne_comm (src tgt : Store) (dflt : Nat) (fg fa : String → Bool) (n1 n2 : String) (hne : n1 ≠ n2) :
    Same (syncOne src (syncOne src tgt dflt fg fa n1).1 dflt fg fa n2).1
         (syncOne src (syncOne src tgt dflt fg fa n2).1 dflt fg fa n1).1 ∧
    (syncOne src (syncOne src tgt dflt fg fa n1).1 dflt fg fa n2).2 = (syncOne src tgt dflt fg fa n2).2 ∧
    (syncOne src (syncOne src tgt dflt fg fa n2).1 dflt fg fa n1).2 = (syncOne src tgt dflt fg fa n1).2 := by
  have a21 := syncOne_congr src (syncOne src tgt dflt fg fa n1).1 tgt dflt fg fa n2
    (syncOne_other src tgt dflt fg fa n1 n2 (fun h => hne h.symm))
  have a12 := syncOne_congr src (syncOne src tgt dflt fg fa n2).1 tgt dflt fg fa n1
    (syncOne_other src tgt dflt fg fa n2 n1 hne)
  refine ⟨fun m => ?_, a21.2, a12.2⟩
  by_cases h1 : m = n1
  · subst h1
    rw [syncOne_other _ _ _ _ _ n2 m hne, a12.1]
  · by_cases h2 : m = n2
    · subst h2
      rw [a21.1, syncOne_other _ _ _ _ _ n1 m (fun h => hne h.symm)]
    · rw [syncOne_other _ _ _ _ _ _ _ h2, syncOne_other _ _ _ _ _ _ _ h1,
        syncOne_other _ _ _ _ _ _ _ h1, syncOne_other _ _ _ _ _ _ _ h2]

theorem run_same (src : Store) (dflt : Nat) (fg fa : String → Bool) (names : List String) :
    ∀ (a b : Store), Same a b → Same (run src dflt fg fa a names).1 (run src dflt fg fa b names).1 ∧
      (run src dflt fg fa a names).2 = (run src dflt fg fa b names).2 := by
  induction names with
  | nil => intro a b h; exact ⟨h, rfl⟩
  | cons n rest ih =>
    intro a b h
    obtain ⟨h1, h2⟩ := syncOne_same src a b dflt fg fa n h
    obtain ⟨i1, i2⟩ := ih _ _ h1
    simp only [run]
    exact ⟨i1, by rw [h2, i2]⟩

/-- **Worker independence**: any permutation of the job list (assets without duplicates) — i.e. any
    assignment of whole jobs to workers and any order in which they finish — yields the same target
    contents and the same error report. -/
theorem run_perm (src : Store) (dflt : Nat) (fg fa : String → Bool) {l1 l2 : List String} (hp : l1.Perm l2)
    (hnd : l1.Nodup) : ∀ (tgt : Store),
    Same (run src dflt fg fa tgt l1).1 (run src dflt fg fa tgt l2).1 ∧
    (run src dflt fg fa tgt l1).2 = (run src dflt fg fa tgt l2).2 := by
  induction hp with
  | nil => intro tgt; exact ⟨Same.refl _, rfl⟩
  | cons x _ ih =>
    intro tgt
    simp only [run]
    obtain ⟨i1, i2⟩ := ih (List.nodup_cons.mp hnd).2 (syncOne src tgt dflt fg fa x).1
    exact ⟨i1, by rw [i2]⟩
  | swap x y l =>
    intro tgt
    have hxy : y ≠ x := by
      have := (List.nodup_cons.mp hnd).1
      simp at this; exact this.1
    simp only [run]
    obtain ⟨c1, c2, c3⟩ := syncOne_comm src tgt dflt fg fa y x hxy
    obtain ⟨r1, r2⟩ := run_same src dflt fg fa l _ _ c1
    refine ⟨r1, ?_⟩
    rw [r2, c2, c3]
    cases (syncOne src tgt dflt fg fa x).2 <;> cases (syncOne src tgt dflt fg fa y).2 <;> simp
  | trans h12 _ ih1 ih2 =>
    intro tgt
    obtain ⟨a1, a2⟩ := ih1 hnd tgt
    obtain ⟨b1, b2⟩ := ih2 (h12.nodup_iff.mp hnd) tgt
    exact ⟨Same.trans a1 b1, a2.trans b2⟩

/-- **Fault isolation (whole run)**: the error is reported iff some job failed, and every asset whose job
    did not fail is synchronised exactly as if it had been run alone -/
theorem run_reports_errors (src : Store) (dflt : Nat) (fg fa : String → Bool) (names : List String) :
    ∀ (tgt : Store), (run src dflt fg fa tgt names).2 = true →
      ∃ n ∈ names, fg n = true ∨ fa n = true ∨ lookup src n = none := by
  induction names with
  | nil => intro tgt h; simp [run] at h
  | cons n rest ih =>
    intro tgt h
    simp only [run, Bool.or_eq_true] at h
    rcases h with h | h
    · refine ⟨n, by simp, ?_⟩
      unfold syncOne at h
      by_cases hg : fg n = true
      · exact Or.inl hg
      · cases hs : lookup src n with
        | none => exact Or.inr (Or.inr rfl)
        | some l =>
          by_cases ha : fa n = true
          · exact Or.inr (Or.inl ha)
          · simp [hg, hs, ha] at h
    · obtain ⟨m, hm, hf⟩ := ih _ h
      exact ⟨m, by simp [hm], hf⟩

/-! ### idempotence -/

/-- date-sorted (non-decreasing) -/
def Sorted (l : List Snap) : Prop := l.Pairwise (fun a b => a.day ≤ b.day)

theorem sinceF_nil_of_all_lt (d : Nat) (l : List Snap) (h : ∀ s ∈ l, s.day < d) : sinceF d l = [] := by
  unfold sinceF
  rw [List.filter_eq_nil_iff]
  intro s hs; have := h s hs; simp; omega

theorem sorted_le_last (l : List Snap) (hs : Sorted l) (x : Snap) (hx : l.getLast? = some x) :
    ∀ s ∈ l, s.day ≤ x.day := by
  induction l with
  | nil => simp at hx
  | cons a t ih =>
    intro s hsm
    cases t with
    | nil => simp at hx hsm; subst hx; subst hsm; exact Nat.le_refl _
    | cons b u =>
      have hx' : (b :: u).getLast? = some x := by simpa [List.getLast?_cons_cons] using hx
      have hs' : Sorted (b :: u) := (List.pairwise_cons.mp hs).2
      rcases List.mem_cons.mp hsm with h | h
      · subst h
        have hxm : x ∈ (b :: u) := List.mem_of_getLast? hx'
        exact (List.pairwise_cons.mp hs).1 x hxm
      · exact ih hs' hx' s h

theorem getLast_sinceF (d : Nat) (l : List Snap) (hs : Sorted l) (x : Snap)
    (hx : (sinceF d l).getLast? = some x) : l.getLast? = some x := by
  induction l with
  | nil => simp [sinceF] at hx
  | cons a t ih =>
    have hs' : Sorted t := (List.pairwise_cons.mp hs).2
    by_cases ha : d ≤ a.day
    · -- a is kept; everything after it is kept as well (sorted)
      have hall : sinceF d t = t := by
        unfold sinceF
        rw [List.filter_eq_self]
        intro s hsm
        have := (List.pairwise_cons.mp hs).1 s hsm
        simp; omega
      simp only [sinceF, List.filter_cons, ha, decide_true, if_true] at hx
      have : sinceF d t = List.filter (fun s => decide (d ≤ s.day)) t := rfl
      rw [← this, hall] at hx
      exact hx
    · simp only [sinceF, List.filter_cons, ha, decide_false, Bool.false_eq_true, if_false] at hx
      have hx' := ih hs' hx
      cases t with
      | nil => simp at hx'
      | cons b u => simpa [List.getLast?_cons_cons] using hx'

/-- **Idempotence**: after a successful job, running the same job again appends nothing
    (source date-sorted; the target's snapshots for that asset end no later than they did before plus what was copied). -/
theorem syncOne_idempotent (src tgt : Store) (dflt : Nat) (name : String) (l : List Snap)
    (hs : lookup src name = some l) (hsorted : Sorted l) :
    let t1 := (syncOne src tgt dflt (fun _ => false) (fun _ => false) name).1
    Same (syncOne src t1 dflt (fun _ => false) (fun _ => false) name).1 t1 := by
  intro t1
  have h1 : t1 = append tgt name (sinceF (startDay (lookup tgt name) dflt) l) := by
    simp [t1, syncOne, hs]
  generalize hstart : startDay (lookup tgt name) dflt = start at h1
  intro m
  by_cases hm : m = name
  · subst hm
    -- what the target holds for the asset after the first job
    have hl1 : lookup t1 m = some ((lookup tgt m).getD [] ++ sinceF start l) := by
      rw [h1, C10.lookup_append]; simp
    simp only [syncOne, hs, Bool.false_eq_true, if_false]
    rw [C10.lookup_append]
    simp only [if_true, hl1, Option.getD_some, Option.some.injEq]
    -- the second job's start is beyond every source day that was not below the first start
    suffices hnil : sinceF (startDay (some ((lookup tgt m).getD [] ++ sinceF start l)) dflt) l = [] by
      rw [hnil]; simp
    by_cases hcop : sinceF start l = []
    · -- nothing was copied: the target's last date (hence the start) is unchanged
      have : startDay (some ((lookup tgt m).getD [] ++ sinceF start l)) dflt = start := by
        rw [hcop, List.append_nil, ← hstart]
        cases hlk : lookup tgt m with
        | none => simp [startDay]
        | some old => simp [startDay]
      rw [this]; exact hcop
    · obtain ⟨x, hx⟩ : ∃ x, (sinceF start l).getLast? = some x := by
        cases hgl : (sinceF start l).getLast? with
        | none => exact absurd (List.getLast?_eq_none_iff.mp hgl) hcop
        | some x => exact ⟨x, rfl⟩
      have hlast : ((lookup tgt m).getD [] ++ sinceF start l).getLast? = some x := by
        rw [List.getLast?_append, hx]; simp
      have hsd : startDay (some ((lookup tgt m).getD [] ++ sinceF start l)) dflt = x.day + 1 := by
        simp [startDay, hlast]
      rw [hsd]
      apply sinceF_nil_of_all_lt
      intro s hsm
      have := sorted_le_last l hsorted x (getLast_sinceF start l hsorted x hx) s hsm
      omega
  · rw [syncOne_other _ _ _ _ _ _ _ hm]

/-! non-vacuity: a concrete run (two assets, one failing source read) -/
example :
    let src : Store := [("a", [⟨1, 1⟩, ⟨2, 2⟩, ⟨3, 3⟩]), ("b", [⟨5, 4⟩])]
    let tgt : Store := [("a", [⟨1, 9⟩])]
    run src 0 (fun n => n == "b") (fun _ => false) tgt ["a", "b"]
      = ([("a", [⟨1, 9⟩, ⟨2, 2⟩, ⟨3, 3⟩])], true) := by decide

end C12
