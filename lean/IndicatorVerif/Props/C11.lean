import IndicatorVerif.Model.Assets
/-
  C11 — CSV codec glue: a file at row level (`CsvFile`), and reading by header name.
  The per-field codecs (strconv, time, encoding/csv quoting, encoding/json) are a named assumption:
  they are exercised on every run by the round-trip check (all supported kinds, extreme values), not
  proved.  What is proved is the glue the library adds around them.
-/
namespace C11
open CsvFile (File write appendF appendOrWrite)

/-- writing replaces whatever the file contained (holds since the O_TRUNC fix) -/
theorem write_replaces (f : File) (rows : List Nat) : CsvFile.read (write f rows) = some rows := rfl

/-- appending keeps the existing rows and adds the new ones after them -/
theorem append_keeps_prefix (old rows : List Nat) :
    (appendF (some (true, old)) rows).map CsvFile.read = some (some (old ++ rows)) := rfl

/-- appending to a missing file is an error (O_APPEND without O_CREATE) and changes nothing -/
theorem append_missing_fails (rows : List Nat) : appendF none rows = none := rfl

/-- files the library's own operations produce: rows only ever follow a header line.  (The only way out of
    this set is a plain `AppendToFile` on an existing 0-byte file, which writes rows without a header; such a
    file is outside the domain of the property — the reader would take its first row for the header.) -/
def WF : File → Prop
  | some (false, _ :: _) => False
  | _ => True

theorem write_wf (f : File) (rows : List Nat) : WF (write f rows) := trivial
theorem appendOrWrite_wf (f : File) (rows : List Nat) (h : WF f) : WF (appendOrWrite f rows) := by
  match f, h with
  | none, _ => trivial
  | some (false, []), _ => trivial
  | some (true, old), _ => cases old <;> trivial

/-- AppendOrWrite: a missing or 0-byte file gets header + rows, an existing one gets the rows appended -/
theorem appendOrWrite_spec (f : File) (rows : List Nat) (h : WF f) :
    CsvFile.read (appendOrWrite f rows) = some ((match CsvFile.read f with | some old => old | none => []) ++ rows) := by
  match f, h with
  | none, _ => simp [appendOrWrite, write, CsvFile.read]
  | some (false, []), _ => simp [appendOrWrite, write, CsvFile.read]
  | some (true, old), _ => cases old <;> simp [appendOrWrite, CsvFile.read]

/-- a sequence of whole-file operations: the rows CsvFile.read back are those of the last write plus later appends -/
theorem write_then_appends (f : File) (rows : List Nat) (more : List (List Nat)) :
    CsvFile.read (more.foldl appendOrWrite (write f rows)) = some (rows ++ more.flatten) := by
  induction more generalizing rows with
  | nil => simp [write, CsvFile.read]
  | cons m rest ih =>
    simp only [List.foldl_cons, List.flatten_cons]
    have : appendOrWrite (write f rows) m = write f (rows ++ m) := by
      cases rows <;> simp [appendOrWrite, write]
    rw [this, ih]; simp

/-! ### reading maps columns by header name -/

/-- `updateColumnIndexes`: the position of each struct column in the file header (`none` = -1) -/
def columnIndex (fileHeader : List String) (col : String) : Option Nat :=
  let i := fileHeader.idxOf col
  if i < fileHeader.length then some i else none

/-- one decoded field: the record entry at the column's index -/
def field (fileHeader : List String) (record : List String) (col : String) : Option String :=
  (columnIndex fileHeader col).bind (fun i => record[i]?)

/-- **Column order and extra columns do not matter**: if the record carries value `v h` under every header `h`
    of the file (any order, any extra headers), each struct column present in the header decodes to its own value -/
theorem field_by_header (fileHeader : List String) (v : String → String) (col : String) (h : col ∈ fileHeader) :
    field fileHeader (fileHeader.map v) col = some (v col) := by
  have hi : fileHeader.idxOf col < fileHeader.length := List.idxOf_lt_length_of_mem h
  simp only [field, columnIndex, hi, if_true, Option.bind_some, List.getElem?_map]
  have : fileHeader[fileHeader.idxOf col]? = some col := by
    rw [List.getElem?_eq_getElem hi]; simp
  simp [this]

/-- a struct column missing from the header is left at its zero value (index -1: skipped) -/
theorem field_missing (fileHeader record : List String) (col : String) (h : col ∉ fileHeader) :
    field fileHeader record col = none := by
  have : ¬ (fileHeader.idxOf col < fileHeader.length) := by
    intro hi; exact h (List.idxOf_lt_length_iff.mp hi)
  simp [field, columnIndex, this]

/-! non-vacuity -/
example : field ["Extra", "Close", "Date"] ["junk", "1.5", "2020-01-02"] "Date" = some "2020-01-02" := by decide
example : CsvFile.read (appendOrWrite (appendOrWrite (write none [1, 2, 3]) [4]) [5, 6]) = some [1, 2, 3, 4, 5, 6] := by decide

end C11
