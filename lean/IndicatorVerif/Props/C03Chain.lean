import IndicatorVerif.Props.C03Compose
import IndicatorVerif.Model.NetSma
/-
  C03 — clean termination of linear pipelines of arbitrary length, by induction on the number of stages,
  THROUGH `sequential_composition_partial` (C03Compose.lean).

  * `Stage` = `map f` (`helper.Apply` / `Map`, machine `mapM f`) | `skip k` (`helper.Skip`, `skipM`, initial register
    `[k]`) | `shift k` (`helper.Shift(c, k, 0)`, `shiftM`, initial register `[k]`) | `pipe` (`helper.Pipe`), with slice
    semantics `Stage.sem` (`List.map f`, `List.drop k`, `replicate k 0 ++ ·`, identity) and `chainSem` = left fold.
  * `chainNet o st caps`: process `o` = `producer o`, process `o+i+1` = stage `i` reading channel `o+i` and writing
    channel `o+i+1`, process `o+n+1` = `sink (o+n)` (n = number of stages); every other index idle.  Channel `d` is
    written by process `d` and read by process `d+1` (`chainNet_owned`, hence `chainNet_safe`).
  * `one_clean`: for EVERY stage kind, every input and every offset `o`, the three-process network
    producer → stage → reader on unbuffered channels (`oneNet`) has a run to the state `F3` (every process halted,
    both channels closed and EMPTY, reader holding `s.sem ys`) — symbolic runs (`mapLoop`, `pipeLoop`, `skipLoop`,
    `shiftLoop`).  `shift k` needs NO buffer in the model: its `k` fill values are sent one at a time to a reader that
    is always ready (the Go code allocates cap(input)+count, which `chain_terminates_cleanly_any_capacity` covers).
  * `clean_nil`: the empty chain (producer → reader), symbolic run.
  * `clean_snoc`: the inductive step.  The chain `ss ++ [s]` is cut at the channel between `ss` and `s`
    (`chainS`: A-side = processes ≤ o+|ss|, link = channel o+|ss|, `NA` = `chainNet o ss` whose reader IS the
    independent reader required by the composition theorem, `NB` = `oneNet s.mach (o+|ss|)` whose producer IS the plain
    producer); `chainS_ok` / `chainS_init` discharge `Setup.OK` / `Init`, the induction hypothesis supplies the `NA`
    run, `one_clean` the `NB` run including the extra hypothesis `hdrain` of `sequential_composition_partial`
    (link empty at the end: `F3`), and `sequential_composition_partial` yields a run of the longer chain to a state
    with every process halted and the reader holding `s.sem (chainSem ss xs)`.
  * `clean_all` (induction on the length), then `chain_terminates_cleanly` (unbuffered: bound on every run, every
    terminal state clean with the reader holding `chainSem st xs`, by `terminal_unique'`/`no_longer_schedule'`) and
    `chain_terminates_cleanly_any_capacity` (arbitrary `caps`, by `capacity_mono`).
  Not covered: stages with more than one input or output (Duplicate/Operate — those are `C03Change`, `C03MovingSum`,
  `C03Sma`), non-zero fill values for `shift`.
-/
namespace C03
open Net NetM

/-! ### stages -/

inductive Stage where
  | map (f : Int → Int)
  | skip (k : Nat)
  | shift (k : Nat)
  | pipe

/-- slice semantics of a stage -/
def Stage.sem : Stage → List Int → List Int
  | .map f, xs => xs.map f
  | .skip k, xs => xs.drop k
  | .shift k, xs => List.replicate k 0 ++ xs
  | .pipe, xs => xs

/-- the goroutine of a stage, reading channel `i` and writing channel `j` -/
def Stage.mach : Stage → Nat → Nat → Loc → A
  | .map f, i, j => mapM f i j
  | .skip _, i, j => skipM i j
  | .shift _, i, j => shiftM i j
  | .pipe, i, j => NetM.pipe i j

/-- initial registers of the goroutine -/
def Stage.init : Stage → List Int
  | .map _ => []
  | .skip k => [(k : Int)]
  | .shift k => [(k : Int)]
  | .pipe => []

theorem Stage.mach_recv (s : Stage) (i j : Nat) (l : Loc) (c : Nat) (k : Option Int → Loc)
    (h : s.mach i j l = .recv c k) : c = i := by
  cases s with
  | map f => simp only [Stage.mach, mapM] at h; split at h <;> simp at h; exact h.1.symm
  | skip n =>
    simp only [Stage.mach, skipM] at h
    split at h
    · split at h <;> simp at h <;> exact h.1.symm
    all_goals simp at h
  | shift n =>
    simp only [Stage.mach, shiftM] at h
    split at h
    · split at h <;> simp at h; exact h.1.symm
    all_goals simp at h
  | pipe => simp only [Stage.mach, NetM.pipe] at h; split at h <;> simp at h; exact h.1.symm

theorem Stage.mach_send (s : Stage) (i j : Nat) (l : Loc) (c : Nat) (v : Int) (k : Loc)
    (h : s.mach i j l = .send c v k) : c = j := by
  cases s with
  | map f => simp only [Stage.mach, mapM] at h; split at h <;> simp at h; exact h.1.symm
  | skip n =>
    simp only [Stage.mach, skipM] at h
    split at h
    · split at h <;> simp at h
    all_goals simp at h
    exact h.1.symm
  | shift n =>
    simp only [Stage.mach, shiftM] at h
    split at h
    · split at h <;> simp at h; exact h.1.symm
    all_goals simp at h
    exact h.1.symm
  | pipe => simp only [Stage.mach, NetM.pipe] at h; split at h <;> simp at h; exact h.1.symm

theorem Stage.mach_close (s : Stage) (i j : Nat) (l : Loc) (c : Nat) (k : Loc)
    (h : s.mach i j l = .close c k) : c = j := by
  cases s with
  | map f => simp only [Stage.mach, mapM] at h; split at h <;> simp at h; exact h.1.symm
  | skip n =>
    simp only [Stage.mach, skipM] at h
    split at h
    · split at h <;> simp at h
    all_goals simp at h
    exact h.1.symm
  | shift n =>
    simp only [Stage.mach, shiftM] at h
    split at h
    · split at h <;> simp at h
    all_goals simp at h
    exact h.1.symm
  | pipe => simp only [Stage.mach, NetM.pipe] at h; split at h <;> simp at h; exact h.1.symm

theorem producer_recv (o : Nat) (l : Loc) (c : Nat) (k : Option Int → Loc) : producer o l ≠ .recv c k := by
  intro h; simp only [producer] at h; split at h <;> simp at h
theorem producer_send (o : Nat) (l : Loc) (c : Nat) (v : Int) (k : Loc) (h : producer o l = .send c v k) : c = o := by
  simp only [producer] at h; split at h <;> simp at h; exact h.1.symm
theorem producer_close (o : Nat) (l : Loc) (c : Nat) (k : Loc) (h : producer o l = .close c k) : c = o := by
  simp only [producer] at h; split at h <;> simp at h; exact h.1.symm
theorem sink_recv (o : Nat) (l : Loc) (c : Nat) (k : Option Int → Loc) (h : sink o l = .recv c k) : c = o := by
  simp only [sink] at h; split at h <;> simp at h; exact h.1.symm
theorem sink_send (o : Nat) (l : Loc) (c : Nat) (v : Int) (k : Loc) : sink o l ≠ .send c v k := by
  intro h; simp only [sink] at h; split at h <;> simp at h
theorem sink_close (o : Nat) (l : Loc) (c : Nat) (k : Loc) : sink o l ≠ .close c k := by
  intro h; simp only [sink] at h; split at h <;> simp at h

/-! ### the chain: process `o` = producer, process `o+i+1` = stage `i` (channel `p-1` → channel `p`),
    process `o+n+1` = reader; channel `d` is written by process `d` and read by process `d+1` -/

def chainNet (o : Nat) (st : List Stage) (caps : Nat → Nat) : Network Loc Int where
  act := fun p l =>
    if p < o then .halt
    else if p = o then producer o l
    else match st[p - o - 1]? with
      | some s => s.mach (p - 1) p l
      | none => if p = o + st.length + 1 then sink (p - 1) l else .halt
  cap := caps
  rd := fun c => c + 1
  wr := fun c => c

def chainInit (o : Nat) (st : List Stage) (xs : List Int) : St Loc Int where
  procs := fun p =>
    if p = o then (⟨0, xs⟩, none)
    else if o < p then
      match st[p - o - 1]? with
      | some s => (⟨0, s.init⟩, none)
      | none => (⟨0, []⟩, none)
    else (⟨0, []⟩, none)
  chans := fun _ => ([], false)

theorem chainNet_owned (o : Nat) (st : List Stage) (caps : Nat → Nat) : Owned (chainNet o st caps) := by
  constructor
  · intro p l c k h
    simp only [chainNet] at h ⊢
    split at h
    · simp at h
    · split at h
      · exact absurd h (producer_recv _ _ _ _)
      · split at h
        · have := Stage.mach_recv _ _ _ _ _ _ h; omega
        · split at h
          · have := sink_recv _ _ _ _ h; omega
          · simp at h
  · intro p l c v k h
    simp only [chainNet] at h ⊢
    split at h
    · simp at h
    · split at h
      · have := producer_send _ _ _ _ _ h; omega
      · split at h
        · exact (Stage.mach_send _ _ _ _ _ _ _ h)
        · split at h
          · exact absurd h (sink_send _ _ _ _ _)
          · simp at h
  · intro p l c k h
    simp only [chainNet] at h ⊢
    split at h
    · simp at h
    · split at h
      · have := producer_close _ _ _ _ h; omega
      · split at h
        · exact (Stage.mach_close _ _ _ _ _ _ h)
        · split at h
          · exact absurd h (sink_close _ _ _ _)
          · simp at h

theorem chainInit_flags (o : Nat) (st : List Stage) (xs : List Int) (p : Nat) :
    ((chainInit o st xs).procs p).2 = none := by
  simp only [chainInit]
  split
  · rfl
  · split
    · split <;> rfl
    · rfl

theorem chainNet_safe (o : Nat) (st : List Stage) (caps : Nat → Nat) (xs : List Int) :
    Safe (chainNet o st caps) (chainInit o st xs) :=
  owned_safe _ (chainNet_owned o st caps) _ (fun p c hc => by rw [chainInit_flags] at hc; simp at hc)

/-! ### one stage between a producer and a reader, at processes `o, o+1, o+2` and channels `o, o+1` -/

def oneNet (m : Nat → Nat → Loc → A) (o : Nat) : Network Loc Int where
  act := fun p l =>
    if p = o then producer o l else if p = o + 1 then m o (o + 1) l else if p = o + 2 then sink (o + 1) l else .halt
  cap := fun _ => 0
  rd := fun c => c + 1
  wr := fun c => c

/-- process states `o, o+1, o+2`, idle elsewhere -/
def T3 (o : Nat) (l0 l1 l2 : PS Loc) : Nat → PS Loc :=
  fun p => if p = o then l0 else if p = o + 1 then l1 else if p = o + 2 then l2 else (⟨0, []⟩, none)
/-- channel states `o, o+1`, open and empty elsewhere -/
def K2 (o : Nat) (c0 c1 : CS Int) : Nat → CS Int :=
  fun c => if c = o then c0 else if c = o + 1 then c1 else ([], false)

@[simp] theorem T3_0 (o : Nat) (l0 l1 l2 : PS Loc) : T3 o l0 l1 l2 o = l0 := by simp [T3]
@[simp] theorem T3_1 (o : Nat) (l0 l1 l2 : PS Loc) : T3 o l0 l1 l2 (o + 1) = l1 := by simp [T3]
@[simp] theorem T3_2 (o : Nat) (l0 l1 l2 : PS Loc) : T3 o l0 l1 l2 (o + 2) = l2 := by simp [T3]
@[simp] theorem T3_u0 (o : Nat) (l0 l1 l2 v : PS Loc) : upd (T3 o l0 l1 l2) o v = T3 o v l1 l2 := by
  funext p; simp only [upd, T3]; split <;> rfl
@[simp] theorem T3_u1 (o : Nat) (l0 l1 l2 v : PS Loc) : upd (T3 o l0 l1 l2) (o + 1) v = T3 o l0 v l2 := by
  funext p; simp only [upd, T3]
  by_cases h0 : p = o
  · subst h0; simp
  · simp only [h0, if_false]; split <;> rfl
@[simp] theorem T3_u2 (o : Nat) (l0 l1 l2 v : PS Loc) : upd (T3 o l0 l1 l2) (o + 2) v = T3 o l0 l1 v := by
  funext p; simp only [upd, T3]
  by_cases h0 : p = o
  · subst h0; simp
  · by_cases h1 : p = o + 1
    · subst h1; simp
    · simp only [h0, h1, if_false]; split <;> rfl
@[simp] theorem K2_0 (o : Nat) (c0 c1 : CS Int) : K2 o c0 c1 o = c0 := by simp [K2]
@[simp] theorem K2_1 (o : Nat) (c0 c1 : CS Int) : K2 o c0 c1 (o + 1) = c1 := by simp [K2]
@[simp] theorem K2_u0 (o : Nat) (c0 c1 v : CS Int) : upd (K2 o c0 c1) o v = K2 o v c1 := by
  funext p; simp only [upd, K2]; split <;> rfl
@[simp] theorem K2_u1 (o : Nat) (c0 c1 v : CS Int) : upd (K2 o c0 c1) (o + 1) v = K2 o c0 v := by
  funext p; simp only [upd, K2]
  by_cases h0 : p = o
  · subst h0; simp
  · simp only [h0, if_false]; split <;> rfl


theorem oneAct0 (m : Nat → Nat → Loc → A) (o : Nat) (l : Loc) : (oneNet m o).act o l = producer o l := by
  simp [oneNet]
theorem oneAct1 (m : Nat → Nat → Loc → A) (o : Nat) (l : Loc) : (oneNet m o).act (o + 1) l = m o (o + 1) l := by
  simp [oneNet]
theorem oneAct2 (m : Nat → Nat → Loc → A) (o : Nat) (l : Loc) : (oneNet m o).act (o + 2) l = sink (o + 1) l := by
  simp [oneNet]
theorem oneActOther (m : Nat → Nat → Loc → A) (o p : Nat) (l : Loc) (h0 : p ≠ o) (h1 : p ≠ o + 1) (h2 : p ≠ o + 2) :
    (oneNet m o).act p l = .halt := by
  simp [oneNet, h0, h1, h2]
theorem oneCap (m : Nat → Nat → Loc → A) (o d : Nat) : (oneNet m o).cap d = 0 := rfl

/-- round boundary: producer with `xs` left, the stage in local state `l`, the reader holding `out`; nobody waits,
    both channels open and empty -/
def B3 (o : Nat) (xs : List Int) (l : Loc) (out : List Int) : St Loc Int :=
  ⟨T3 o (⟨0, xs⟩, none) (l, none) (⟨0, out⟩, none), K2 o ([], false) ([], false)⟩
/-- the end: producer, stage (pc 3) and reader finished, both channels closed and empty -/
def F3 (o : Nat) (out : List Int) : St Loc Int :=
  ⟨T3 o (⟨1, []⟩, none) (⟨3, []⟩, none) (⟨1, out⟩, none), K2 o ([], true) ([], true)⟩

theorem F3_halted (m : Nat → Nat → Loc → A) (hm : ∀ i j, m i j ⟨3, []⟩ = .halt) (o : Nat) (out : List Int) :
    AllHalted (oneNet m o) (F3 o out) := by
  intro p
  by_cases h0 : p = o
  · subst h0; simp [F3, oneAct0, producer]
  · by_cases h1 : p = o + 1
    · subst h1; simp [F3, oneAct1, hm]
    · by_cases h2 : p = o + 2
      · subst h2; simp [F3, oneAct2, sink]
      · simp [F3, T3, h0, h1, h2, oneActOther]

/-! #### map -/

theorem mapRound (f : Int → Int) (o : Nat) (x : Int) (xs out : List Int) :
    run (oneNet (mapM f) o) [o, o + 1, o, o + 1, o + 2, o + 1] (B3 o (x :: xs) ⟨0, []⟩ out) =
      some (B3 o xs ⟨0, []⟩ (out ++ [f x])) := by
  simp [B3, run, step, opOf, oneAct0, oneAct1, oneAct2, oneCap, producer, mapM, sink, Op.chan, Op.fire]

theorem mapEnd (f : Int → Int) (o : Nat) (out : List Int) :
    run (oneNet (mapM f) o) [o, o + 1, o + 1, o + 2] (B3 o [] ⟨0, []⟩ out) = some (F3 o out) := by
  simp [B3, F3, run, step, opOf, oneAct0, oneAct1, oneAct2, oneCap, producer, mapM, sink, Op.chan, Op.fire]

theorem mapLoop (f : Int → Int) (o : Nat) (xs out : List Int) :
    ∃ t, run (oneNet (mapM f) o) t (B3 o xs ⟨0, []⟩ out) = some (F3 o (out ++ xs.map f)) := by
  induction xs generalizing out with
  | nil => exact ⟨_, by simpa using mapEnd f o out⟩
  | cons x xs ih =>
    obtain ⟨t, ht⟩ := ih (out ++ [f x])
    exact ⟨_ ++ t, by rw [run_append, mapRound]; simpa using ht⟩

/-! #### pipe -/

theorem pipeRound (o : Nat) (x : Int) (xs out : List Int) :
    run (oneNet NetM.pipe o) [o, o + 1, o, o + 1, o + 2, o + 1] (B3 o (x :: xs) ⟨0, []⟩ out) =
      some (B3 o xs ⟨0, []⟩ (out ++ [x])) := by
  simp [B3, run, step, opOf, oneAct0, oneAct1, oneAct2, oneCap, producer, NetM.pipe, sink, Op.chan, Op.fire]

theorem pipeEnd (o : Nat) (out : List Int) :
    run (oneNet NetM.pipe o) [o, o + 1, o + 1, o + 2] (B3 o [] ⟨0, []⟩ out) = some (F3 o out) := by
  simp [B3, F3, run, step, opOf, oneAct0, oneAct1, oneAct2, oneCap, producer, NetM.pipe, sink, Op.chan, Op.fire]

theorem pipeLoop (o : Nat) (xs out : List Int) :
    ∃ t, run (oneNet NetM.pipe o) t (B3 o xs ⟨0, []⟩ out) = some (F3 o (out ++ xs)) := by
  induction xs generalizing out with
  | nil => exact ⟨_, by simpa using pipeEnd o out⟩
  | cons x xs ih =>
    obtain ⟨t, ht⟩ := ih (out ++ [x])
    exact ⟨_ ++ t, by rw [run_append, pipeRound]; simpa using ht⟩

/-! #### skip -/

theorem skipRoundA (o r : Nat) (x : Int) (xs out : List Int) :
    run (oneNet skipM o) [o, o + 1, o] (B3 o (x :: xs) ⟨0, [((r + 1 : Nat) : Int)]⟩ out) =
      some (B3 o xs ⟨0, [(r : Int)]⟩ out) := by
  have h1 : ¬ ((r : Int) + 1 ≤ 0) := by omega
  simp [B3, run, step, opOf, oneAct0, oneAct1, oneCap, producer, skipM, Op.chan, Op.fire, h1]

theorem skipRoundB (o : Nat) (x : Int) (xs out : List Int) :
    run (oneNet skipM o) [o, o + 1, o, o + 1, o + 2, o + 1] (B3 o (x :: xs) ⟨0, [0]⟩ out) =
      some (B3 o xs ⟨0, [0]⟩ (out ++ [x])) := by
  simp [B3, run, step, opOf, oneAct0, oneAct1, oneAct2, oneCap, producer, skipM, sink, Op.chan, Op.fire]

theorem skipEndA (o r : Nat) (out : List Int) :
    run (oneNet skipM o) [o, o + 1, o + 1, o + 1, o + 2] (B3 o [] ⟨0, [((r + 1 : Nat) : Int)]⟩ out) =
      some (F3 o out) := by
  have h1 : ¬ ((r : Int) + 1 ≤ 0) := by omega
  simp [B3, F3, run, step, opOf, oneAct0, oneAct1, oneAct2, oneCap, producer, skipM, sink, Op.chan, Op.fire, h1]

theorem skipEndB (o : Nat) (out : List Int) :
    run (oneNet skipM o) [o, o + 1, o + 1, o + 2] (B3 o [] ⟨0, [0]⟩ out) = some (F3 o out) := by
  simp [B3, F3, run, step, opOf, oneAct0, oneAct1, oneAct2, oneCap, producer, skipM, sink, Op.chan, Op.fire]

theorem skipLoop (o : Nat) (xs : List Int) (r : Nat) (out : List Int) :
    ∃ t, run (oneNet skipM o) t (B3 o xs ⟨0, [(r : Int)]⟩ out) = some (F3 o (out ++ xs.drop r)) := by
  induction xs generalizing r out with
  | nil =>
    cases r with
    | zero => exact ⟨_, by simpa using skipEndB o out⟩
    | succ r => exact ⟨_, by simpa using skipEndA o r out⟩
  | cons x xs ih =>
    cases r with
    | zero =>
      obtain ⟨t, ht⟩ := ih 0 (out ++ [x])
      refine ⟨[o, o + 1, o, o + 1, o + 2, o + 1] ++ t, ?_⟩
      rw [run_append]
      have := skipRoundB o x xs out
      simp only [Int.natCast_zero] at ht ⊢
      rw [this]; simpa using ht
    | succ r =>
      obtain ⟨t, ht⟩ := ih r out
      exact ⟨_ ++ t, by rw [run_append, skipRoundA]; simpa using ht⟩

/-! #### shift -/

theorem shiftFill (o r : Nat) (xs out : List Int) :
    run (oneNet shiftM o) [o + 1, o + 2, o + 1] (B3 o xs ⟨0, [((r + 1 : Nat) : Int)]⟩ out) =
      some (B3 o xs ⟨0, [(r : Int)]⟩ (out ++ [0])) := by
  have h1 : ¬ ((r : Int) + 1 ≤ 0) := by omega
  simp [B3, run, step, opOf, oneAct1, oneAct2, oneCap, shiftM, sink, Op.chan, Op.fire, h1]

theorem shiftRound (o : Nat) (x : Int) (xs out : List Int) :
    run (oneNet shiftM o) [o, o + 1, o, o + 1, o + 2, o + 1] (B3 o (x :: xs) ⟨0, [0]⟩ out) =
      some (B3 o xs ⟨0, [0]⟩ (out ++ [x])) := by
  simp [B3, run, step, opOf, oneAct0, oneAct1, oneAct2, oneCap, producer, shiftM, sink, Op.chan, Op.fire]

theorem shiftEnd (o : Nat) (out : List Int) :
    run (oneNet shiftM o) [o, o + 1, o + 1, o + 2] (B3 o [] ⟨0, [0]⟩ out) = some (F3 o out) := by
  simp [B3, F3, run, step, opOf, oneAct0, oneAct1, oneAct2, oneCap, producer, shiftM, sink, Op.chan, Op.fire]

theorem shiftLoop0 (o : Nat) (xs out : List Int) :
    ∃ t, run (oneNet shiftM o) t (B3 o xs ⟨0, [0]⟩ out) = some (F3 o (out ++ xs)) := by
  induction xs generalizing out with
  | nil => exact ⟨_, by simpa using shiftEnd o out⟩
  | cons x xs ih =>
    obtain ⟨t, ht⟩ := ih (out ++ [x])
    exact ⟨_ ++ t, by rw [run_append, shiftRound]; simpa using ht⟩

theorem shiftLoop (o : Nat) (xs : List Int) (r : Nat) (out : List Int) :
    ∃ t, run (oneNet shiftM o) t (B3 o xs ⟨0, [(r : Int)]⟩ out) =
      some (F3 o (out ++ (List.replicate r 0 ++ xs))) := by
  induction r generalizing out with
  | zero => simpa using shiftLoop0 o xs out
  | succ r ih =>
    obtain ⟨t, ht⟩ := ih (out ++ [0])
    exact ⟨_ ++ t, by rw [run_append, shiftFill]; simpa [List.replicate_succ] using ht⟩

/-! #### every stage kind -/

theorem Stage.mach_map (f : Int → Int) : (Stage.map f).mach = mapM f := by funext i j; rfl
theorem Stage.mach_skip (k : Nat) : (Stage.skip k).mach = skipM := by funext i j; rfl
theorem Stage.mach_shift (k : Nat) : (Stage.shift k).mach = shiftM := by funext i j; rfl
theorem Stage.mach_pipe : Stage.pipe.mach = NetM.pipe := by funext i j; rfl

def oneInit (s : Stage) (o : Nat) (ys : List Int) : St Loc Int := B3 o ys ⟨0, s.init⟩ []

/-- **One stage** between a plain producer and an independent reader, all channels unbuffered, at any offset:
    there is a run to a state with every process halted, the reader holding the stage's slice semantics, and both
    channels empty -/
theorem one_clean (s : Stage) (o : Nat) (ys : List Int) :
    ∃ t, run (oneNet s.mach o) t (oneInit s o ys) = some (F3 o (s.sem ys)) ∧
      AllHalted (oneNet s.mach o) (F3 o (s.sem ys)) := by
  cases s with
  | map f =>
    obtain ⟨t, ht⟩ := mapLoop f o ys []
    exact ⟨t, by simpa [oneInit, Stage.init, Stage.sem, Stage.mach_map, Stage.mach_skip, Stage.mach_shift, Stage.mach_pipe] using ht,
      F3_halted _ (fun i j => by simp [Stage.mach, mapM]) o _⟩
  | skip k =>
    obtain ⟨t, ht⟩ := skipLoop o ys k []
    exact ⟨t, by simpa [oneInit, Stage.init, Stage.sem, Stage.mach_map, Stage.mach_skip, Stage.mach_shift, Stage.mach_pipe] using ht,
      F3_halted _ (fun i j => by simp [Stage.mach, skipM]) o _⟩
  | shift k =>
    obtain ⟨t, ht⟩ := shiftLoop o ys k []
    exact ⟨t, by simpa [oneInit, Stage.init, Stage.sem, Stage.mach_map, Stage.mach_skip, Stage.mach_shift, Stage.mach_pipe] using ht,
      F3_halted _ (fun i j => by simp [Stage.mach, shiftM]) o _⟩
  | pipe =>
    obtain ⟨t, ht⟩ := pipeLoop o ys []
    exact ⟨t, by simpa [oneInit, Stage.init, Stage.sem, Stage.mach_map, Stage.mach_skip, Stage.mach_shift, Stage.mach_pipe] using ht,
      F3_halted _ (fun i j => by simp [Stage.mach, NetM.pipe]) o _⟩


/-! ### facts about the chain's processes -/

theorem chain_act_prod (o : Nat) (st : List Stage) (c : Nat → Nat) (l : Loc) :
    (chainNet o st c).act o l = producer o l := by simp [chainNet]

theorem chain_act_sink (o : Nat) (st : List Stage) (c : Nat → Nat) (l : Loc) :
    (chainNet o st c).act (o + st.length + 1) l = sink (o + st.length) l := by
  have e1 : o + st.length + 1 - o - 1 = st.length := by omega
  have h1 : ¬ (o + st.length + 1 < o) := by omega
  have h2 : ¬ (o + st.length + 1 = o) := by omega
  simp [chainNet, e1, h1, h2]

theorem chain_act_low (o : Nat) (st : List Stage) (c : Nat → Nat) (p : Nat) (l : Loc) (h : p < o) :
    (chainNet o st c).act p l = .halt := by simp [chainNet, h]

theorem chain_act_beyond (o : Nat) (st : List Stage) (c : Nat → Nat) (p : Nat) (l : Loc)
    (h : o + st.length + 1 < p) : (chainNet o st c).act p l = .halt := by
  have h1 : ¬ (p < o) := by omega
  have h2 : ¬ (p = o) := by omega
  have h3 : st[p - o - 1]? = none := List.getElem?_eq_none (by omega)
  have h4 : ¬ (p = o + st.length + 1) := by omega
  simp [chainNet, h1, h2, h3, h4]

theorem chain_act_prefix (o : Nat) (ss : List Stage) (s : Stage) (c : Nat → Nat) (p : Nat) (l : Loc)
    (hp : p ≤ o + ss.length) : (chainNet o ss c).act p l = (chainNet o (ss ++ [s]) c).act p l := by
  by_cases h1 : p < o
  · simp [chainNet, h1]
  · by_cases h2 : p = o
    · simp [chainNet, h2]
    · have hi : p - o - 1 < ss.length := by omega
      have e : ss[p - o - 1]? = some ss[p - o - 1] := List.getElem?_eq_getElem hi
      simp only [chainNet, h1, h2, if_false, List.getElem?_append_left hi, e]

theorem chain_act_last (o : Nat) (ss : List Stage) (s : Stage) (c : Nat → Nat) (l : Loc) :
    (chainNet o (ss ++ [s]) c).act (o + ss.length + 1) l = s.mach (o + ss.length) (o + ss.length + 1) l := by
  have e1 : o + ss.length + 1 - o - 1 = ss.length := by omega
  have h1 : ¬ (o + ss.length + 1 < o) := by omega
  have h2 : ¬ (o + ss.length + 1 = o) := by omega
  simp [chainNet, e1, h1, h2]

theorem chain_init_prefix (o : Nat) (ss : List Stage) (s : Stage) (xs : List Int) (p : Nat)
    (hp : p ≤ o + ss.length) : (chainInit o ss xs).procs p = (chainInit o (ss ++ [s]) xs).procs p := by
  by_cases h2 : p = o
  · simp [chainInit, h2]
  · by_cases h1 : o < p
    · have hi : p - o - 1 < ss.length := by omega
      have e : ss[p - o - 1]? = some ss[p - o - 1] := List.getElem?_eq_getElem hi
      simp only [chainInit, h1, h2, if_false, if_true, List.getElem?_append_left hi, e]
    · simp [chainInit, h1, h2]

theorem chain_init_last (o : Nat) (ss : List Stage) (s : Stage) (xs : List Int) :
    (chainInit o (ss ++ [s]) xs).procs (o + ss.length + 1) = (⟨0, s.init⟩, none) := by
  have e1 : o + ss.length + 1 - o - 1 = ss.length := by omega
  have h1 : o < o + ss.length + 1 := by omega
  have h2 : ¬ (o + ss.length + 1 = o) := by omega
  simp [chainInit, e1, h1, h2]

theorem chain_init_beyond (o : Nat) (st : List Stage) (xs : List Int) (p : Nat) (h : o + st.length < p) :
    (chainInit o st xs).procs p = (⟨0, []⟩, none) := by
  have h1 : o < p := by omega
  have h2 : ¬ (p = o) := by omega
  have h3 : st[p - o - 1]? = none := List.getElem?_eq_none (by omega)
  simp [chainInit, h1, h2, h3]

theorem oneNet_owned (s : Stage) (o : Nat) : Owned (oneNet s.mach o) := by
  constructor
  · intro p l c k h
    simp only [oneNet] at h ⊢
    split at h
    · exact absurd h (producer_recv _ _ _ _)
    · split at h
      · have := Stage.mach_recv _ _ _ _ _ _ h; omega
      · split at h
        · have := sink_recv _ _ _ _ h; omega
        · simp at h
  · intro p l c v k h
    simp only [oneNet] at h ⊢
    split at h
    · have := producer_send _ _ _ _ _ h; omega
    · split at h
      · have := Stage.mach_send _ _ _ _ _ _ _ h; omega
      · split at h
        · exact absurd h (sink_send _ _ _ _ _)
        · simp at h
  · intro p l c k h
    simp only [oneNet] at h ⊢
    split at h
    · have := producer_close _ _ _ _ h; omega
    · split at h
      · have := Stage.mach_close _ _ _ _ _ _ h; omega
      · split at h
        · exact absurd h (sink_close _ _ _ _)
        · simp at h

theorem T3_flags (o : Nat) (a b c : Loc) (p : Nat) : (T3 o (a, none) (b, none) (c, none) p).2 = none := by
  simp only [T3]; split
  · rfl
  · split
    · rfl
    · split <;> rfl

theorem oneInit_flags (s : Stage) (o : Nat) (ys : List Int) (p : Nat) : ((oneInit s o ys).procs p).2 = none :=
  T3_flags o _ _ _ p

theorem oneInit_chans (s : Stage) (o : Nat) (ys : List Int) (d : Nat) : (oneInit s o ys).chans d = ([], false) := by
  simp only [oneInit, B3, K2]; split
  · rfl
  · split <;> rfl

theorem oneNet_safe (s : Stage) (o : Nat) (ys : List Int) : Safe (oneNet s.mach o) (oneInit s o ys) :=
  owned_safe _ (oneNet_owned s o) _ (fun p c hc => by rw [oneInit_flags] at hc; simp at hc)


/-! ### the cut: the chain `ss ++ [s]` at the channel between `ss` and `s` -/

def caps0 : Nat → Nat := fun _ => 0

def chainS (o : Nat) (ss : List Stage) (s : Stage) : Setup Loc Int where
  N := chainNet o (ss ++ [s]) caps0
  NA := chainNet o ss caps0
  NB := oneNet s.mach (o + ss.length)
  isA := fun p => decide (p ≤ o + ss.length)
  c := o + ss.length
  snk := o + ss.length + 1
  prd := o + ss.length
  chA := fun d => d < o + ss.length
  chB := fun d => o + ss.length < d
  sinkSt := fun xs => ⟨0, xs⟩
  sinkDone := fun xs => ⟨1, xs⟩
  col := fun l => l.reg
  prodSt := fun xs => ⟨0, xs⟩
  prodDone := ⟨1, []⟩

theorem chainS_ok (o : Nat) (ss : List Stage) (s : Stage) : (chainS o ss s).OK where
  c_notA := by simp [chainS]
  c_notB := by simp [chainS]
  disj := by intro d h1 h2; simp only [chainS] at h1 h2; omega
  recvA := by
    intro p l d k hA ha
    have := (chainNet_owned o (ss ++ [s]) caps0).recv_owner p l d k ha
    simp only [chainNet] at this
    simp only [chainS, decide_eq_true_eq] at hA ⊢; omega
  sendA := by
    intro p l d v k hA ha
    have := (chainNet_owned o (ss ++ [s]) caps0).send_owner p l d v k ha
    simp only [chainNet] at this
    simp only [chainS, decide_eq_true_eq] at hA ⊢; omega
  closeA := by
    intro p l d k hA ha
    have := (chainNet_owned o (ss ++ [s]) caps0).close_owner p l d k ha
    simp only [chainNet] at this
    simp only [chainS, decide_eq_true_eq] at hA ⊢; omega
  recvB := by
    intro p l d k hB ha
    have := (chainNet_owned o (ss ++ [s]) caps0).recv_owner p l d k ha
    simp only [chainNet] at this
    simp only [chainS, decide_eq_false_iff_not] at hB ⊢; omega
  sendB := by
    intro p l d v k hB ha
    have := (chainNet_owned o (ss ++ [s]) caps0).send_owner p l d v k ha
    simp only [chainNet] at this
    simp only [chainS, decide_eq_false_iff_not] at hB ⊢; omega
  closeB := by
    intro p l d k hB ha
    have := (chainNet_owned o (ss ++ [s]) caps0).close_owner p l d k ha
    simp only [chainNet] at this
    simp only [chainS, decide_eq_false_iff_not] at hB ⊢; omega
  capA := fun _ => rfl
  capB := fun _ => rfl
  snkB := by simp [chainS]
  prdA := by simp [chainS]
  actNA := by
    intro p l hA
    simp only [chainS, decide_eq_true_eq] at hA ⊢
    exact chain_act_prefix o ss s caps0 p l hA
  haltNA := by
    intro p l hB hp
    simp only [chainS, decide_eq_false_iff_not] at hB hp ⊢
    exact chain_act_beyond o ss caps0 p l (by omega)
  actNB := by
    intro p l hB
    simp only [chainS, decide_eq_false_iff_not] at hB ⊢
    by_cases h1 : p = o + ss.length + 1
    · subst h1; rw [oneAct1, chain_act_last]
    · by_cases h2 : p = o + ss.length + 2
      · subst h2
        have := chain_act_sink o (ss ++ [s]) caps0 l
        simp only [List.length_append, List.length_cons, List.length_nil] at this
        rw [oneAct2]
        exact this.symm
      · rw [oneActOther _ _ _ _ (by omega) h1 h2]
        exact (chain_act_beyond o (ss ++ [s]) caps0 p l (by simp; omega)).symm
  haltNB := by
    intro p l hA hp
    simp only [chainS, decide_eq_true_eq] at hA hp ⊢
    exact oneActOther _ _ _ _ hp (by omega) (by omega)
  sinkRun := by
    intro xs
    show (chainNet o ss caps0).act (o + ss.length + 1) ⟨0, xs⟩ = Act.recv (o + ss.length) _
    rw [chain_act_sink]
    show Act.recv (o + ss.length) _ = Act.recv (o + ss.length) _
    congr 1
    funext r
    cases r <;> rfl
  sinkHalt := by
    intro xs
    show (chainNet o ss caps0).act (o + ss.length + 1) ⟨1, xs⟩ = .halt
    rw [chain_act_sink]; rfl
  colSt := fun _ => rfl
  colDone := fun _ => rfl
  prodSend := by
    intro v rest
    show (oneNet s.mach (o + ss.length)).act (o + ss.length) ⟨0, v :: rest⟩ = _
    rw [oneAct0]; rfl
  prodClose := by
    show (oneNet s.mach (o + ss.length)).act (o + ss.length) ⟨0, []⟩ = _
    rw [oneAct0]; rfl
  prodHalt := by
    show (oneNet s.mach (o + ss.length)).act (o + ss.length) ⟨1, []⟩ = _
    rw [oneAct0]; rfl
  prodRecv := by
    intro l d k
    show (oneNet s.mach (o + ss.length)).act (o + ss.length) l ≠ _
    rw [oneAct0]; exact producer_recv _ _ _ _
  prodSendC := by
    intro l d v k ha
    change (oneNet s.mach (o + ss.length)).act (o + ss.length) l = _ at ha
    rw [oneAct0] at ha; exact producer_send _ _ _ _ _ ha
  prodCloseC := by
    intro l d k ha
    change (oneNet s.mach (o + ss.length)).act (o + ss.length) l = _ at ha
    rw [oneAct0] at ha; exact producer_close _ _ _ _ ha

theorem chainS_init (o : Nat) (ss : List Stage) (s : Stage) (xs ys : List Int) :
    Init (chainS o ss s) ys (chainInit o (ss ++ [s]) xs) (chainInit o ss xs) (oneInit s (o + ss.length) ys) where
  flags := chainInit_flags o _ xs
  link := rfl
  procA := by
    intro p hA
    simp only [chainS, decide_eq_true_eq] at hA
    exact chain_init_prefix o ss s xs p hA
  chanA := fun _ _ => rfl
  linkA := rfl
  snk := chain_init_beyond o ss xs _ (by simp [chainS])
  idleA := fun p _ _ => chainInit_flags o ss xs p
  procB := by
    intro p hB
    simp only [chainS, decide_eq_false_iff_not] at hB
    by_cases h1 : p = o + ss.length + 1
    · subst h1; rw [chain_init_last]; simp [oneInit, B3]
    · rw [chain_init_beyond o (ss ++ [s]) xs p (by simp; omega)]
      by_cases h2 : p = o + ss.length + 2
      · subst h2; simp [oneInit, B3]
      · have h0 : p ≠ o + ss.length := by omega
        simp [oneInit, B3, T3, h0, h1, h2]
  chanB := fun d _ => oneInit_chans s _ ys d
  linkB := oneInit_chans s _ ys _
  prd := by simp [chainS, oneInit, B3]
  idleB := fun p _ _ => oneInit_flags s _ ys p


/-! ### the empty chain: producer → reader -/

theorem zAct1 (o : Nat) (l : Loc) : (chainNet o [] caps0).act (o + 1) l = sink o l := by
  have := chain_act_sink o [] caps0 l
  simpa using this

theorem zCap (o : Nat) (st : List Stage) (d : Nat) : (chainNet o st caps0).cap d = 0 := rfl

theorem chainInit_nil (o : Nat) (xs : List Int) : chainInit o [] xs = B3 o xs ⟨0, []⟩ [] := by
  simp only [chainInit, B3]
  congr 1
  · funext p
    simp only [T3]
    by_cases h0 : p = o
    · simp [h0]
    · simp only [h0, if_false, List.getElem?_nil]
      split <;> (repeat' split) <;> rfl
  · funext d
    simp only [K2]
    split
    · rfl
    · split <;> rfl

/-- producer finished, reader (process `o+1`) finished holding `out`, channel `o` closed and empty -/
def Z2 (o : Nat) (out : List Int) : St Loc Int :=
  ⟨T3 o (⟨1, []⟩, none) (⟨1, out⟩, none) (⟨0, []⟩, none), K2 o ([], true) ([], false)⟩

theorem zRound (o : Nat) (x : Int) (xs out : List Int) :
    run (chainNet o [] caps0) [o, o + 1, o] (B3 o (x :: xs) ⟨0, out⟩ []) = some (B3 o xs ⟨0, out ++ [x]⟩ []) := by
  simp [B3, run, step, opOf, chain_act_prod, zAct1, zCap, producer, sink, Op.chan, Op.fire]

theorem zEnd (o : Nat) (out : List Int) :
    run (chainNet o [] caps0) [o, o + 1] (B3 o [] ⟨0, out⟩ []) = some (Z2 o out) := by
  simp [B3, Z2, run, step, opOf, chain_act_prod, zAct1, zCap, producer, sink, Op.chan, Op.fire]

theorem zLoop (o : Nat) (xs out : List Int) :
    ∃ t, run (chainNet o [] caps0) t (B3 o xs ⟨0, out⟩ []) = some (Z2 o (out ++ xs)) := by
  induction xs generalizing out with
  | nil => exact ⟨_, by simpa using zEnd o out⟩
  | cons x xs ih =>
    obtain ⟨t, ht⟩ := ih (out ++ [x])
    exact ⟨[o, o + 1, o] ++ t, by rw [run_append, zRound]; simpa using ht⟩

theorem Z2_halted (o : Nat) (out : List Int) : AllHalted (chainNet o [] caps0) (Z2 o out) := by
  intro p
  by_cases h0 : p = o
  · subst h0; simp [Z2, chain_act_prod, producer]
  · by_cases h1 : p = o + 1
    · subst h1; simp [Z2, zAct1, sink]
    · refine ⟨T3_flags o _ _ _ p, ?_⟩
      by_cases hlt : p < o
      · exact chain_act_low o [] caps0 p _ hlt
      · exact chain_act_beyond o [] caps0 p _ (by simp; omega)

/-! ### induction on the number of stages -/

/-- the stream semantics of a chain -/
def chainSem (st : List Stage) (xs : List Int) : List Int := st.foldl (fun acc s => s.sem acc) xs

/-- there is a run of the unbuffered chain to a state with every process halted and the reader holding the chain's
    semantics -/
def Clean (o : Nat) (st : List Stage) (xs : List Int) : Prop :=
  ∃ t e, run (chainNet o st caps0) t (chainInit o st xs) = some e ∧ AllHalted (chainNet o st caps0) e ∧
    (e.procs (o + st.length + 1)).1.reg = chainSem st xs

theorem clean_nil (o : Nat) (xs : List Int) : Clean o [] xs := by
  obtain ⟨t, ht⟩ := zLoop o xs []
  refine ⟨t, Z2 o xs, ?_, Z2_halted o xs, ?_⟩
  · rw [chainInit_nil]; simpa using ht
  · simp [Z2, chainSem]

/-- **Inductive step, through `sequential_composition_partial`**: a clean chain `ss` followed by one more stage
    `s` is a clean chain -/
theorem clean_snoc (o : Nat) (ss : List Stage) (s : Stage) (xs : List Int) (ih : Clean o ss xs) :
    Clean o (ss ++ [s]) xs := by
  obtain ⟨tA, eA, hrA, hHA, hregA⟩ := ih
  obtain ⟨tB, hrB, hHB⟩ := one_clean s (o + ss.length) (chainSem ss xs)
  obtain ⟨_, hclean, t, e, hr, hH⟩ := sequential_composition_partial (chainS o ss s) (chainSem ss xs)
    (chainS_ok o ss s) (chainInit o (ss ++ [s]) xs) (chainInit o ss xs) (oneInit s (o + ss.length) (chainSem ss xs))
    eA (F3 (o + ss.length) (s.sem (chainSem ss xs))) tA tB (chainS_init o ss s xs (chainSem ss xs))
    (chainNet_safe o (ss ++ [s]) caps0 xs) (chainNet_safe o ss caps0 xs) (oneNet_safe s _ _)
    hrA hHA hregA hrB hHB (by simp [chainS, F3])
  refine ⟨t, e, hr, hH, ?_⟩
  obtain ⟨_, _, hB⟩ := hclean t e hr (allHalted_terminal _ e hH)
  have hidx : o + (ss ++ [s]).length + 1 = o + ss.length + 2 := by simp; omega
  rw [hidx, hB (o + ss.length + 2) (by simp [chainS])]
  simp [F3, chainSem, List.foldl_append]

theorem clean_all (o : Nat) (st : List Stage) (xs : List Int) : Clean o st xs := by
  suffices H : ∀ n (st : List Stage), st.length = n → Clean o st xs from H _ st rfl
  intro n
  induction n with
  | zero =>
    intro st h
    have : st = [] := List.eq_nil_of_length_eq_zero h
    subst this; exact clean_nil o xs
  | succ n ih =>
    intro st h
    have hne : st ≠ [] := by intro e; rw [e] at h; simp at h
    rw [← List.dropLast_concat_getLast hne]
    exact clean_snoc o _ _ xs (ih _ (by simp [h]))

/-- **Linear pipelines of any length terminate cleanly** (all channels unbuffered): no run is longer than `bound`,
    and every reachable terminal state has every process halted and the reader holding the chain's semantics -/
theorem chain_terminates_cleanly (st : List Stage) (xs : List Int) :
    ∃ bound, (∀ t s, run (chainNet 0 st caps0) t (chainInit 0 st xs) = some s → t.length ≤ bound) ∧
      (∀ t s, run (chainNet 0 st caps0) t (chainInit 0 st xs) = some s → Terminal (chainNet 0 st caps0) s →
        AllHalted (chainNet 0 st caps0) s ∧ (s.procs (st.length + 1)).1.reg = chainSem st xs) := by
  obtain ⟨t0, e, hr, hH, hreg⟩ := clean_all 0 st xs
  have hT := allHalted_terminal _ e hH
  have hS := chainNet_safe 0 st caps0 xs
  refine ⟨t0.length, fun t s h => no_longer_schedule' _ t0 t _ e s hS hr hT h, ?_⟩
  intro t s h hTs
  obtain ⟨rfl, _⟩ := terminal_unique' _ t0 t _ e s hS hr hT h hTs
  exact ⟨hH, by simpa using hreg⟩

/-- … **and for every buffering** of the channels -/
theorem chain_terminates_cleanly_any_capacity (st : List Stage) (xs : List Int) (caps : Nat → Nat) :
    ∃ bound, (∀ t s, run (chainNet 0 st caps) t (chainInit 0 st xs) = some s → t.length ≤ bound) ∧
      (∀ t s, run (chainNet 0 st caps) t (chainInit 0 st xs) = some s → Terminal (chainNet 0 st caps) s →
        AllHalted (chainNet 0 st caps) s ∧ (s.procs (st.length + 1)).1.reg = chainSem st xs) := by
  obtain ⟨t0, e, hr, hH, hreg⟩ := clean_all 0 st xs
  have hL : Larger (chainNet 0 st caps0) (chainNet 0 st caps) := ⟨rfl, fun _ => Nat.zero_le _⟩
  have hS := chainNet_safe 0 st caps xs
  obtain ⟨t', e', hr', hRe, _⟩ := capacity_mono _ _ hL t0 _ _ e (rel_refl _) hr
  have hH' := rel_allHalted _ _ hL e e' hRe hH
  have hT' := allHalted_terminal _ e' hH'
  refine ⟨t'.length, fun t s h => no_longer_schedule' _ t' t _ e' s hS hr' hT' h, ?_⟩
  intro t s h hTs
  obtain ⟨rfl, _⟩ := terminal_unique' _ t' t _ e' s hS hr' hT' h hTs
  refine ⟨hH', ?_⟩
  rw [(hRe.2 _).1]
  simpa using hreg


/-- a concrete instance: `Shift(Map(Skip(c, 1), ·*2), 2, 0)` on `[1, 2, 3]`, any buffering -/
example (caps : Nat → Nat) : ∃ bound,
    (∀ t s, run (chainNet 0 [.skip 1, .map (· * 2), .shift 2] caps) t
        (chainInit 0 [.skip 1, .map (· * 2), .shift 2] [1, 2, 3]) = some s → t.length ≤ bound) ∧
    (∀ t s, run (chainNet 0 [.skip 1, .map (· * 2), .shift 2] caps) t
        (chainInit 0 [.skip 1, .map (· * 2), .shift 2] [1, 2, 3]) = some s →
      Terminal (chainNet 0 [.skip 1, .map (· * 2), .shift 2] caps) s →
      AllHalted (chainNet 0 [.skip 1, .map (· * 2), .shift 2] caps) s ∧ (s.procs 4).1.reg = [0, 0, 4, 6]) := by
  obtain ⟨b, h1, h2⟩ := chain_terminates_cleanly_any_capacity [.skip 1, .map (· * 2), .shift 2] [1, 2, 3] caps
  refine ⟨b, h1, fun t s hr hT => ?_⟩
  obtain ⟨a, r⟩ := h2 t s hr hT
  exact ⟨a, by rw [show (4 : Nat) = [Stage.skip 1, .map (· * 2), .shift 2].length + 1 from rfl, r]; decide⟩

end C03
