import IndicatorVerif.Props.C05
import IndicatorVerif.Props.C08
/-
  C14 — strategy reports: one value per date in every column.

  The reports are built in two shapes: (a) the date axis covers all n snapshots and every indicator
  column is `Shift(column, idle, 0)`; (b) the date axis, closings, annotations and outcomes are
  `Skip(…, idle)` and the indicator columns are used as computed.  For both shapes the theorems
  below give "same number of values as dates" from the alignment (`Good`) of the indicator stream at
  exactly `idle` (C02) and from the length laws of the action stream (C05), its normalisation and the
  outcome (C08).  Per-report instances: MACD (shape a).  The APO report is proved as-is to be one
  value longer than the date axis (known finding).  The other reports are tied by the check's
  oracle (column channel lengths and row contents read from the real `Report` values).
-/
namespace C14
open Sig Ind Strat

variable {α : Type} [Arith α]

/-- shape (a): a column `Shift(ind, w, fill)` over a stream aligned at `w` has one value per snapshot -/
theorem shifted_column_length (ind : Sig α) (w A : Nat) (fill : α) (h : Good ind w A) (x : Nat → Nat → α) (n : Nat)
    (hn : w ≤ n) : (evalL (envOf x A n) (shift w fill ind)).length = n := by
  rw [C05.evalL_shift]; simp [h.length x n]; omega

/-- … and the value in row d (d ≥ w) is the one computed for date d -/
theorem shifted_column_row (ind : Sig α) (w A : Nat) (fill : α) (h : Good ind w A) (x : Nat → Nat → α) (n d : Nat)
    (hd : w ≤ d) (hdn : d < n) : (evalL (envOf x A n) (shift w fill ind))[d]? = some (den x ind d) := by
  rw [C05.evalL_shift, List.getElem?_append_right (by simpa using hd)]
  simp only [List.length_replicate]
  rw [h.kth x n (d - w) (by omega)]; congr 2; omega

/-- shape (b): the date axis `Skip(dates, k)` and a column aligned at `k` have the same number of values -/
theorem skipped_axis_length (j k A : Nat) (hj : j < A) (ind : Sig α) (h : Good ind k A) (x : Nat → Nat → α) (n : Nat) :
    (evalL (envOf x A n) (skip k (input j))).length = (evalL (envOf x A n) ind).length := by
  have hd : Good (skip k (input j : Sig α)) (0 + k) A := Good.skip k (Good.input j A hj)
  rw [hd.length x n, h.length x n]; omega

/-- annotation column: one annotation per action -/
theorem annotation_length (actions : List Action) : (Action.normalize actions).length = actions.length :=
  C08.normalize_length actions

/-- outcome column: one outcome per (closing, action) pair -/
theorem outcome_column_length (closings : List α) (actions : List Action) (h : closings.length = actions.length) :
    (StratOps.outcome closings actions).length = closings.length := by
  rw [C08.outcome_length, h]; simp

/-- MACD report (shape a): both indicator columns have exactly n values for every n ≥ idle -/
theorem macd_report_columns (p1 p2 p3 : Nat) (h1 : 1 ≤ p1) (h12 : p1 ≤ p2) (h3 : 1 ≤ p3)
    (x : Nat → Nat → α) (n : Nat) (hn : p2 + p3 - 2 ≤ n) :
    ∀ col ∈ macd p1 p2 p3 (sClose : Sig α),
      (evalL (envOf x 5 n) (shift (p2 + p3 - 2) zero col)).length = n := by
  intro col hcol
  apply shifted_column_length col (p2 + p3 - 2) 5 zero _ x n hn
  simp only [macd, List.mem_cons, List.not_mem_nil, or_false] at hcol
  rcases hcol with hc | hc <;> subst hc <;> (simp only [Strat.sClose]; unfold_ind; good_tac)

/-- **Known finding, as-is**: the APO column of ApoStrategy.Report is `Shift(apo, SlowPeriod, 0)` while APO
    is aligned at `SlowPeriod − 1`: n + 1 values for n dates. -/
theorem apo_report_column_too_long (f s : Nat) (h0 : 1 ≤ f) (h1 : f ≤ s) (x : Nat → Nat → α) (n : Nat) (hn : s - 1 ≤ n) :
    (evalL (envOf x 5 n) (shift s zero (apo f s two two (sClose : Sig α)))).length = n + 1 := by
  have hg : Good (apo f s two two (sClose : Sig α)) (s - 1) 5 := by
    simp only [Strat.sClose]; unfold_ind; good_tac
  rw [C05.evalL_shift]; simp [hg.length x n]; omega

/-! ### shape (a) reports, instantiated: every indicator column `Shift(column, w, 0)` has exactly one value per date,
    for all admissible periods and all n ≥ w -/

macro "report_col_tac " x:ident n:ident hn:ident : tactic => `(tactic|
  (intro col hcol
   refine shifted_column_length col _ 5 zero ?_ $x $n $hn
   simp only [List.mem_cons, List.not_mem_nil, or_false] at hcol
   (try rcases hcol with hc | hc | hc) <;> (try rcases hcol with hc | hc) <;> (try subst hc) <;> (try subst hcol) <;>
     (simp only [Strat.sClose, Strat.sHigh, Strat.sLow, Strat.sOpen]; unfold_ind; good_tac)))

theorem rsi_report_column (p : Nat) (h0 : 1 ≤ p) (x : Nat → Nat → α) (n : Nat) (hn : p ≤ n) :
    ∀ col ∈ [rsi p (sClose : Sig α)], (evalL (envOf x 5 n) (shift p zero col)).length = n := by
  report_col_tac x n hn

theorem awesomeOscillator_report_column (s l : Nat) (h0 : 1 ≤ s) (h1 : s ≤ l) (x : Nat → Nat → α) (n : Nat) (hn : l - 1 ≤ n) :
    ∀ col ∈ [awesomeOscillator s l (sHigh : Sig α) sLow], (evalL (envOf x 5 n) (shift (l - 1) zero col)).length = n := by
  report_col_tac x n hn

theorem aroon_report_columns (p : Nat) (h0 : 1 ≤ p) (x : Nat → Nat → α) (n : Nat) (hn : p - 1 ≤ n) :
    ∀ col ∈ aroon p (sHigh : Sig α) sLow, (evalL (envOf x 5 n) (shift (p - 1) zero col)).length = n := by
  simp only [aroon]
  report_col_tac x n hn

theorem cci_report_column (p : Nat) (h0 : 1 ≤ p) (x : Nat → Nat → α) (n : Nat) (hn : 2 * p - 2 ≤ n) :
    ∀ col ∈ [cci p (sHigh : Sig α) sLow sClose], (evalL (envOf x 5 n) (shift (2 * p - 2) zero col)).length = n := by
  report_col_tac x n hn

theorem kdj_report_columns (rp kp dp : Nat) (h0 : 1 ≤ rp) (h1 : 1 ≤ kp) (h2 : 1 ≤ dp) (x : Nat → Nat → α) (n : Nat)
    (hn : rp + kp + dp - 3 ≤ n) :
    ∀ col ∈ kdj rp kp dp (sHigh : Sig α) sLow sClose, (evalL (envOf x 5 n) (shift (rp + kp + dp - 3) zero col)).length = n := by
  simp only [kdj]
  report_col_tac x n hn

theorem qstick_report_column (p : Nat) (h0 : 1 ≤ p) (x : Nat → Nat → α) (n : Nat) (hn : p - 1 ≤ n) :
    ∀ col ∈ [qstick p (sOpen : Sig α) sClose], (evalL (envOf x 5 n) (shift (p - 1) zero col)).length = n := by
  report_col_tac x n hn

theorem trix_report_column (p : Nat) (h0 : 1 ≤ p) (x : Nat → Nat → α) (n : Nat) (hn : 3 * p - 2 ≤ n) :
    ∀ col ∈ [trix p (sClose : Sig α)], (evalL (envOf x 5 n) (shift (3 * p - 2) zero col)).length = n := by
  report_col_tac x n hn

/-! ### shape (b) reports, instantiated: the date axis `Skip(dates, w)` and the indicator columns (used as computed)
    have the same number of values -/

theorem stochasticRsi_report_axis (p : Nat) (h0 : 1 ≤ p) (x : Nat → Nat → α) (n : Nat) :
    (evalL (envOf x 5 n) (skip (2 * p - 1) (input 3))).length = (evalL (envOf x 5 n) (stochasticRsi p (sClose : Sig α))).length := by
  refine skipped_axis_length 3 (2 * p - 1) 5 (by omega) _ ?_ x n
  simp only [Strat.sClose]; unfold_ind; good_tac

theorem kama_report_axis (er fast slow : Nat) (h0 : 1 ≤ er) (x : Nat → Nat → α) (n : Nat) :
    (evalL (envOf x 5 n) (skip er (input 3))).length = (evalL (envOf x 5 n) (kama er fast slow (sClose : Sig α))).length := by
  refine skipped_axis_length 3 er 5 (by omega) _ ?_ x n
  simp only [Strat.sClose]; unfold_ind; good_tac

/-- Golden cross / triple moving average crossover: the slow EMA and the faster EMAs skipped to the slow warm-up -/
theorem ema_report_axis (fast slow : Nat) (h0 : 1 ≤ fast) (h1 : fast ≤ slow) (x : Nat → Nat → α) (n : Nat) :
    ∀ col ∈ [skip ((slow - 1) - (fast - 1)) (ema fast (Arith.nat 2) (sClose : Sig α)), ema slow (Arith.nat 2) sClose],
      (evalL (envOf x 5 n) (skip (slow - 1) (input 3))).length = (evalL (envOf x 5 n) col).length := by
  intro col hcol
  refine skipped_axis_length 3 (slow - 1) 5 (by omega) col ?_ x n
  simp only [List.mem_cons, List.not_mem_nil, or_false] at hcol
  rcases hcol with hc | hc <;> subst hc <;> (simp only [Strat.sClose]; unfold_ind; good_tac)

end C14
