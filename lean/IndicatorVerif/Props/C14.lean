import IndicatorVerif.Model.Strategies
import IndicatorVerif.Model.StrategyOps
/- C14 — theorems under construction -/
namespace C14
theorem placeholder_true : True := trivial
end C14
