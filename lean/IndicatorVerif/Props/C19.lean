import IndicatorVerif.Model.Assets
/-
  C19 — reader glue over an abstract parser: the CSV reader loop (`ReadFromReader`), the JSON array
  loop (`JSONToChan`) and the Tiingo status check, as total functions of the parser events.
  The parsers themselves (encoding/csv, encoding/json) and the HTTP client are the Go standard
  library: exercised with generated and mutated documents on every run, not proved.
-/
namespace C19

/-- one parser event: a record, or a parse error (`none`) -/
abbrev Event := Option (List String)

/-- `ReadFromReader` after the fix: a record is delivered when every mapped column index is inside the
    record and every field converts; the first parse error, short record or bad field stops the stream -/
def readLoop {Row : Type} (decode : List String → Option Row) : List Event → List Row
  | [] => []
  | none :: _ => []
  | some r :: t =>
    match decode r with
    | none => []
    | some row => row :: readLoop decode t

/-- the well-formed prefix of an event sequence -/
def goodPrefix {Row : Type} (decode : List String → Option Row) : List Event → List (List String)
  | some r :: t => if (decode r).isSome then r :: goodPrefix decode t else []
  | _ => []

/-- **Prefix law**: the reader delivers exactly the decoded records of the well-formed prefix, in order,
    and nothing else; it is a total function (no event sequence makes it fail) -/
theorem readLoop_is_prefix {Row : Type} (decode : List String → Option Row) (evs : List Event) :
    readLoop decode evs = (goodPrefix decode evs).filterMap decode := by
  induction evs with
  | nil => rfl
  | cons e t ih =>
    cases e with
    | none => rfl
    | some r =>
      cases hd : decode r with
      | none => simp [readLoop, goodPrefix, hd]
      | some row => simp [readLoop, goodPrefix, hd, ih]

theorem readLoop_length_le {Row : Type} (decode : List String → Option Row) (evs : List Event) :
    (readLoop decode evs).length ≤ evs.length := by
  induction evs with
  | nil => simp [readLoop]
  | cons e t ih =>
    cases e with
    | none => simp [readLoop]
    | some r => cases hd : decode r <;> simp [readLoop, hd]; omega

/-- a record shorter than the mapped column index is *not* decodable (the bounds check of the fix):
    decoding by explicit indexes never reads outside the record -/
def decodeAt (idx : List Nat) (r : List String) : Option (List String) := idx.mapM (fun i => r[i]?)

theorem decodeAt_none_of_short (idx : List Nat) (r : List String) (i : Nat) (hi : i ∈ idx) (hr : r.length ≤ i) :
    decodeAt idx r = none := by
  induction idx with
  | nil => simp at hi
  | cons j t ih =>
    simp only [decodeAt, List.mapM_cons]
    rcases List.mem_cons.mp hi with h | h
    · subst h; simp [List.getElem?_eq_none hr]
    · cases hj : r[j]? with
      | none => simp
      | some v =>
        have := ih h
        simp only [decodeAt] at this
        simp [this]

/-- Tiingo: only status 200 is a success -/
def tiingoGet (status : Nat) (rows : List Nat) : Option (List Nat) := if status = 200 then some rows else none
theorem tiingo_status_error (status : Nat) (rows : List Nat) (h : status ≠ 200) : tiingoGet status rows = none := by
  simp [tiingoGet, h]

/-! non-vacuity -/
example : readLoop (decodeAt [0, 1]) [some ["a", "1"], some ["b"], some ["c", "3"]] = [["a", "1"]] := by decide

end C19
