import IndicatorVerif.Model.Stream
import IndicatorVerif.Proofs.Ring
/-
  C16 — every stream helper (sequential-goroutine model `…M`, a recursion mirroring the Go loop)
  equals its slice counterpart, for every input length (empty and shorter-than-parameter included)
  and every parameter; zipping helpers have the length of the shortest input and consume the
  longer inputs to the end.  Core-only; no hypotheses on the inputs.
-/
namespace C16
open Stream
variable {α β γ ρ : Type}

theorem pipe_id (l : List α) : pipeM l = l := by
  induction l with
  | nil => rfl
  | cons x t ih => simp [pipeM, ih]

theorem map_eq (f : α → β) (l : List α) : mapM f l = l.map f := by
  induction l with
  | nil => rfl
  | cons x t ih => simp [mapM, ih]

theorem filter_eq (p : α → Bool) (l : List α) : filterM p l = l.filter p := by
  induction l with
  | nil => rfl
  | cons x t ih => by_cases h : p x <;> simp [filterM, h, ih]

/-- MapWithPrevious: the i-th output is the fold of the first i+1 inputs -/
theorem mapWithPrevious_eq (f : β → α → β) (b : β) (l : List α) :
    mapWithPreviousM f b l = (List.range l.length).map (fun i => (l.take (i + 1)).foldl f b) := by
  induction l generalizing b with
  | nil => rfl
  | cons x t ih =>
    simp only [mapWithPreviousM, List.length_cons]
    rw [ih, List.range_succ_eq_map]
    simp [List.map_map, Function.comp_def]

/-- Skip = drop, for every count (also beyond the length) -/
theorem skip_eq (k : Nat) (l : List α) : skipM k l = skipS k l := by
  induction k generalizing l with
  | zero => simp [skipM, skipS, pipe_id]
  | succ k ih =>
    cases l with
    | nil => simp [skipM, skipS, pipeM]
    | cons x t => simp [skipM, skipS, ih]

/-- Head = take, and it leaves exactly the rest unread (no drain) -/
theorem head_eq (k : Nat) (l : List α) : headM k l = (l.take k, l.drop k) := by
  induction k generalizing l with
  | zero => simp [headM]
  | succ k ih =>
    cases l with
    | nil => simp [headM]
    | cons x t => simp [headM, ih]

/-- First = take, and it consumes its input to the end -/
theorem first_eq (k : Nat) (l : List α) : firstM k l = (headS k l, []) := by
  simp [firstM, head_eq, headS]

theorem shift_eq (k : Nat) (fill : α) (l : List α) : shiftM k fill l = shiftS k fill l := by
  simp [shiftM, shiftS, pipe_id]

theorem shift_length (k : Nat) (fill : α) (l : List α) : (shiftM k fill l).length = k + l.length := by
  simp [shift_eq, shiftS]

theorem duplicate_eq (k : Nat) (l : List α) :
    (duplicateM k l).length = k ∧ ∀ o ∈ duplicateM k l, o = l := by
  simp [duplicateM, pipe_id]

/-- Operate = zipWith (length of the shortest input) and both inputs are consumed to the end -/
theorem operate_eq (o : α → β → ρ) (as : List α) (bs : List β) :
    operateM o as bs = (operateS o as bs, [], []) := by
  induction as generalizing bs with
  | nil => simp [operateM, operateS]
  | cons a as ih =>
    cases bs with
    | nil => simp [operateM, operateS]
    | cons b bs => simp [operateM, operateS, ih]

theorem operate_length (o : α → β → ρ) (as : List α) (bs : List β) :
    (operateM o as bs).1.length = min as.length bs.length := by
  simp [operate_eq, operateS]

theorem operate3_eq (o : α → β → γ → ρ) (as : List α) (bs : List β) (cs : List γ) :
    operate3M o as bs cs = (operate3S o as bs cs, [], [], []) := by
  induction as generalizing bs cs with
  | nil => simp [operate3M, operate3S]
  | cons a as ih =>
    cases bs with
    | nil => simp [operate3M, operate3S]
    | cons b bs =>
      cases cs with
      | nil => simp [operate3M, operate3S]
      | cons c cs => simp [operate3M, operate3S, ih]

theorem operate3_length (o : α → β → γ → ρ) (as : List α) (bs : List β) (cs : List γ) :
    (operate3M o as bs cs).1.length = min (min as.length bs.length) cs.length := by
  simp [operate3_eq, operate3S]

/-- Change(c, k)[j] = c[j+k] - c[j] -/
theorem change_eq (sub : α → α → α) (k : Nat) (l : List α) : changeM sub k l = changeS sub k l := by
  simp [changeM, changeS, operate_eq, operateS, skip_eq, skipS, pipe_id]

theorem change_length (sub : α → α → α) (k : Nat) (l : List α) : (changeM sub k l).length = l.length - k := by
  simp [change_eq, changeS]

theorem changeRatio_eq (sub div : α → α → α) (k : Nat) (l : List α) :
    changeRatioM sub div k l = changeRatioS sub div k l := by
  simp only [changeRatioM, changeRatioS, operate_eq, operateS, change_eq, changeS, pipe_id]
  apply List.ext_getElem
  · simp
  · intro i h1 h2
    simp

theorem count_eq (succ : β → β) (b : β) (l : List α) : countM succ b l = countS succ b l := by
  induction l generalizing b with
  | nil => rfl
  | cons x t ih =>
    simp only [countM, countS, List.length_cons]
    rw [ih, List.range_succ_eq_map]
    simp [countS, iter, List.map_map, Function.comp_def]

/-- Last(c, k) = the last k elements (all of them when fewer), via the ring refinement -/
theorem foldPut_toList (k : Nat) (l : List α) : ∀ (r : RingBuf α), RingBuf.Inv r → r.buffer.length = k →
    RingBuf.Inv (l.foldl (fun r n => (r.put n).1) r) ∧
    (l.foldl (fun r n => (r.put n).1) r).buffer.length = k ∧
    (l.foldl (fun r n => (r.put n).1) r).toList
      = (r.toList ++ l).drop ((r.toList ++ l).length - k) := by
  induction l with
  | nil =>
    intro r inv hlen
    refine ⟨inv, hlen, ?_⟩
    have := RingBuf.count_le r inv
    rw [← RingBuf.toList_length, hlen] at this
    have e : r.toList.length - k = 0 := by omega
    simp [e]
  | cons x t ih =>
    intro r inv hlen
    obtain ⟨i1, i2⟩ := RingBuf.put_spec r x inv
    have hlen1 : (r.put x).1.buffer.length = k := by simp [RingBuf.put, hlen]
    obtain ⟨a, b, c⟩ := ih (r.put x).1 i1 hlen1
    simp only [List.foldl_cons]
    refine ⟨a, b, ?_⟩
    rw [c, i2]
    have hfull := RingBuf.isFull_iff r inv
    rw [← RingBuf.toList_length, hlen] at hfull
    by_cases hf : r.isFull = true
    · have hk := hfull.mp hf
      simp only [hf, if_true]
      cases hl : r.toList with
      | nil => rw [hl] at hk; simp at hk; subst hk; simp
      | cons y ys =>
        rw [hl] at hk
        simp only [List.length_cons] at hk
        simp only [List.tail_cons, List.append_assoc, List.singleton_append, List.length_append,
          List.length_cons, List.cons_append]
        simp only [List.nil_append, List.length_nil, Nat.zero_add]
        have e1 : ys.length + (t.length + 1) - k = t.length := by omega
        have e2 : ys.length + (t.length + 1) + 1 - k = t.length + 1 := by omega
        rw [e1, e2, List.drop_succ_cons]
    · simp only [hf, Bool.false_eq_true, if_false, List.append_assoc, List.singleton_append]

theorem lastDrain_eq (fuel : Nat) (r : RingBuf α) (h : RingBuf.Inv r) (hf : r.toList.length ≤ fuel) :
    lastDrain fuel r = r.toList := by
  induction fuel generalizing r with
  | zero =>
    have : r.toList = [] := List.length_eq_zero_iff.mp (by omega)
    simp [lastDrain, this]
  | succ fuel ih =>
    obtain ⟨g1, g2⟩ := RingBuf.get_spec r h
    cases hl : r.toList with
    | nil =>
      have := (RingBuf.isEmpty_iff r h).mpr hl
      simp [lastDrain, this]
    | cons y ys =>
      obtain ⟨a, b, c⟩ := g2 y ys hl
      have hne : r.isEmpty = false := by
        cases he : r.isEmpty with
        | false => rfl
        | true => have := (RingBuf.isEmpty_iff r h).mp he; rw [hl] at this; cases this
      have hget : r.get = ((r.get).1, some y) := by rw [← a]
      simp only [lastDrain, hne, Bool.false_eq_true, if_false]
      rw [hget]
      simp only
      rw [ih _ c (by rw [b]; rw [hl] at hf; simp at hf; omega), b]

theorem last_eq (z : α) (k : Nat) (hk : 0 < k) (l : List α) : lastM z k l = lastS k l := by
  obtain ⟨inv, hlen, hl⟩ := foldPut_toList k l (RingBuf.new z k) (RingBuf.new_inv z k hk) (by simp [RingBuf.new])
  simp only [lastM, lastS]
  rw [RingBuf.new_toList] at hl
  simp only [List.nil_append] at hl
  rw [lastDrain_eq _ _ inv (by rw [hl]; simp; omega), hl]

/-! non-vacuity: concrete runs -/
example : skipM 5 [1, 2, 3] = ([] : List Nat) := by decide
example : (headM 2 [1, 2, 3]) = ([1, 2], [3]) := by decide
example : (operateM (· + ·) [1, 2, 3] [10, 20]).1 = [11, 22] := by decide
example : lastM 0 2 [1, 2, 3, 4, 5] = [4, 5] := by decide
example : changeM (fun a b : Int => a - b) 2 [1, 4, 9, 16] = [8, 12] := by decide

end C16
