import IndicatorVerif.Props.C05
namespace C05
open Sig Ind Strat
variable {α : Type} [Arith α]

theorem trima_shaped (sh lo : Nat) (fs : List α) (h0 : 1 ≤ sh) (h1 : sh ≤ lo) :
    ∃ e, lookupS "Trima" [sh, lo] fs = some e ∧ Shaped e := by
  unfold_strat
  refine ⟨_, rfl, ?_⟩
  refine ⟨_, rfl, ?_⟩
  simp only [trimaS, trimaIdle, trima, trimaPeriods, List.getD_cons_zero, List.getD_cons_succ]
  by_cases hs : sh % 2 = 0 <;> by_cases hl : lo % 2 = 0 <;> simp only [hs, hl, if_true, if_false] <;>
    (unfold_ind; good_tac)

end C05
