import IndicatorVerif.Props.C06
/- C05/C06, hand-written: the DEMA strategy.  Its body re-anchors the two DEMA streams with `Shift(…, idle, 0)` before
   comparing them, so it is not `Good` for inputs shorter than the warm-up and is proved directly on the list semantics. -/
namespace C06
open Sig Ind Strat
variable {α : Type} [Arith α]

theorem dema_good (p q : Nat) (hp : 1 ≤ p) (hq : 1 ≤ q) : Good (dema p q (sClose : Sig α)) (p + q - 2) 5 := by
  unfold_strat
  unfold_ind
  good_tac

/-- **DEMA strategy** (C05 + C06), for every input family, every length n and all four EMA periods, when the first DEMA
    warms up no later than the second (`p1 + q1 ≤ p2 + q2`): with w = p2 + q2 − 2,
    n ≥ w ⇒ exactly n actions, Hold before w and, from w on, Buy/Sell/Hold as DEMA(p1,q1) is above/below/equal to
    DEMA(p2,q2) of the closing price *at the same position*; n < w ⇒ exactly w Holds. -/
theorem dema_actions (p1 q1 p2 q2 : Nat) (h1 : 1 ≤ p1) (h2 : 1 ≤ q1) (h3 : 1 ≤ p2) (h4 : 1 ≤ q2)
    (hle : p1 + q1 ≤ p2 + q2) (x : Nat → Nat → α) (n : Nat) (w : Nat) (hwd : w = p2 + q2 - 2)
    (acts : List α) (hacts : acts = evalL (envOf x 5 n) (demaS p1 q1 p2 q2 : Sig α)) :
    (w ≤ n → acts.length = n ∧ ∀ i, i < n → acts[i]? = some
        (if i < w then hold else gtRule (den x (dema p1 q1 sClose) i) (den x (dema p2 q2 sClose) i))) ∧
    (n < w → acts = List.replicate w hold) := by
  subst hwd; subst hacts
  have gA := dema_good (α := α) p1 q1 h1 h2
  have gB := dema_good (α := α) p2 q2 h3 h4
  have lA := gA.length x n
  have lB := gB.length x n
  have hw : p1 + q1 - 2 ≤ p2 + q2 - 2 := by omega
  simp only [demaS, evalL]
  constructor
  · intro hn
    constructor
    · simp [lA, lB]; omega
    · intro i hi
      by_cases hiw : i < p2 + q2 - 2
      · rw [List.getElem?_append_left (by simpa using hiw)]
        simp [hiw]
      · rw [List.getElem?_append_right (by simpa using Nat.le_of_not_lt hiw)]
        simp only [List.length_replicate, hiw, if_false, List.getElem?_drop]
        have e1 : p2 + q2 - 2 + (i - (p2 + q2 - 2)) = i := by omega
        rw [e1, List.getElem?_zipWith]
        have ka := gA.kth x n (i - (p1 + q1 - 2)) (by omega)
        have kb := gB.kth x n (i - (p2 + q2 - 2)) (by omega)
        rw [List.getElem?_append_right (by simp; omega), List.getElem?_append_right (by simp; omega)]
        simp only [List.length_replicate]
        rw [ka, kb]
        have e2 : p1 + q1 - 2 + (i - (p1 + q1 - 2)) = i := by omega
        have e3 : p2 + q2 - 2 + (i - (p2 + q2 - 2)) = i := by omega
        simp [e2, e3]
  · intro hn
    have hB : evalL (envOf x 5 n) (dema p2 q2 (sClose : Sig α)) = [] := List.length_eq_zero_iff.mp (by omega)
    have : (List.zipWith gtRule (List.replicate (p1 + q1 - 2) zero ++ evalL (envOf x 5 n) (dema p1 q1 (sClose : Sig α)))
        (List.replicate (p2 + q2 - 2) zero ++ evalL (envOf x 5 n) (dema p2 q2 (sClose : Sig α)))).drop (p2 + q2 - 2) = [] := by
      apply List.drop_eq_nil_of_le
      simp [hB]; omega
    rw [this]; simp

/-- BOP strategy (no warm-up): the action for snapshot i is the sign test on the Balance of Power of snapshot i -/
theorem bop_rule (fs : List α) :
    ∃ e, lookupS "Bop" [] fs = some e ∧ e.idle = 0 ∧
      ∀ (x : Nat → Nat → α) (i : Nat), den x e.sig i = signRule (den x (bop sOpen sHigh sLow sClose) i) :=
  ⟨_, rfl, rfl, fun _ _ => rfl⟩

/-- Buy-and-hold (no warm-up): Buy for the first snapshot, Hold for every later one -/
theorem buyAndHold_rule (fs : List α) :
    ∃ e, lookupS "BuyAndHold" [] fs = some e ∧ e.idle = 0 ∧
      ∀ (x : Nat → Nat → α) (i : Nat), den x e.sig i = if i = 0 then buy else hold := by
  refine ⟨_, rfl, rfl, fun x i => ?_⟩
  simp only [Strat.buyAndHold, den, Sig.offD, Sig.off, Strat.sClose, Option.getD_some, Nat.sub_zero]
  have key : ∀ (g : Nat → α) m, scanSt (fun (first : Bool) (_ : α) => (false, if first then (buy : α) else hold)) true
      g (m + 1) = false := by
    intro g m
    cases m <;> simp [scanSt]
  cases i with
  | zero => simp [scanOut, scanSt]
  | succ k => simp [scanOut, key]

/-- the registry entries the correspondence run drives: two periods (both EMAs of a DEMA alike) or four -/
theorem dema_lookup2 (p1 p2 : Nat) (fs : List α) :
    lookupS "Dema" [p1, p2] fs = some ⟨demaS p1 p1 p2 p2, p2 + p2 - 2⟩ := by
  simp [lookupS]

theorem dema_lookup4 (p1 p2 q1 q2 : Nat) (fs : List α) :
    lookupS "Dema" [p1, p2, q1, q2] fs = some ⟨demaS p1 q1 p2 q2, p2 + q2 - 2⟩ := by
  simp [lookupS]

/-- non-vacuity: the default configuration (5, 35) meets the hypotheses -/
example : (1 ≤ 5 ∧ 1 ≤ 5 ∧ 1 ≤ 35 ∧ 1 ≤ 35) ∧ 5 + 5 ≤ 35 + 35 := by decide

end C06

namespace C05
open Sig Ind Strat
variable {α : Type} [Arith α]

/-- C05 for the DEMA strategy: one action per snapshot, Hold through the warm-up w = p2 + q2 − 2 (and exactly w Holds on shorter inputs) -/
theorem dema_one_action_per_snapshot (p1 q1 p2 q2 : Nat) (h1 : 1 ≤ p1) (h2 : 1 ≤ q1) (h3 : 1 ≤ p2) (h4 : 1 ≤ q2)
    (hle : p1 + q1 ≤ p2 + q2) (x : Nat → Nat → α) (n : Nat) :
    (p2 + q2 - 2 ≤ n → (evalL (envOf x 5 n) (demaS p1 q1 p2 q2 : Sig α)).length = n ∧
        ∀ i, i < p2 + q2 - 2 → (evalL (envOf x 5 n) (demaS p1 q1 p2 q2 : Sig α))[i]? = some hold) ∧
    (n < p2 + q2 - 2 → evalL (envOf x 5 n) (demaS p1 q1 p2 q2 : Sig α) = List.replicate (p2 + q2 - 2) hold) := by
  have h := C06.dema_actions p1 q1 p2 q2 h1 h2 h3 h4 hle x n _ rfl _ rfl
  refine ⟨fun hn => ⟨(h.1 hn).1, fun i hi => ?_⟩, h.2⟩
  have := (h.1 hn).2 i (by omega)
  simpa [hi] using this

end C05
