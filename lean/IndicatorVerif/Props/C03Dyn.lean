import IndicatorVerif.Props.C03Change
/-
  C03 — schedule independence for networks whose channel ends change hands.

  `Owned` (C03.lean) fixes ONE reader and ONE writer per channel for the whole run.  `trend.Ema`, `Rma` and `Smma` are
  not of that shape: the input channel `c` is first read by the goroutine of `helper.Head(c, period)` and later by the
  indicator's own goroutine (`for n := range c`), which starts reading only after it has received the seed value from
  `sma.Compute(Head(c, period))`.  The reading end is handed over.

  This file generalises the theory to what is actually needed: in every reachable state no two different processes are
  about to operate on the same END of a channel (`NoConflict`, a property of states; `Safe` = it holds in every
  reachable state).  `diamond'`, `determinacy'`, `terminal_unique'`, `no_longer_schedule'` and
  `clean_termination_for_larger_capacities'` are the theorems of C03.lean under `Safe` instead of `Owned ∧ WF`, and
  `owned_safe` shows that the static discipline is a special case.  `C03Ema.lean` proves `Safe` for the EMA hand-over.
-/
namespace C03
open Net

variable {L V : Type}

/-- no two different processes are about to use the same end of a channel: if both are about to operate on `c`, one
    reads it and the other writes it -/
def NoConflict (N : Network L V) (s : St L V) : Prop :=
  ∀ p q c, p ≠ q → (opOf N p (s.procs p)).chan = some c → (opOf N q (s.procs q)).chan = some c →
    ((opOf N p (s.procs p)).isReader = true ∧ (opOf N q (s.procs q)).isWriter = true) ∨
    ((opOf N p (s.procs p)).isWriter = true ∧ (opOf N q (s.procs q)).isReader = true)

/-- every state reachable from `s` is free of conflicts -/
def Safe (N : Network L V) (s : St L V) : Prop := ∀ t s', run N t s = some s' → NoConflict N s'

theorem safe_here (N : Network L V) (s : St L V) (h : Safe N s) : NoConflict N s := h [] s rfl

theorem safe_step (N : Network L V) (s a : St L V) (p : Nat) (h : Safe N s) (hp : step N p s = some a) : Safe N a := by
  intro t s' hr
  exact h (p :: t) s' (by simp [run, hp, hr])

theorem safe_run (N : Network L V) (t : List Nat) (s a : St L V) (h : Safe N s) (hr : run N t s = some a) : Safe N a := by
  intro t' s' hr'
  exact h (t ++ t') s' (by rw [run_append, hr]; simpa using hr')

/-- an inductive invariant that excludes conflicts gives `Safe` -/
theorem safe_of_invariant (N : Network L V) (J : St L V → Prop)
    (hstep : ∀ s p a, J s → step N p s = some a → J a) (hnc : ∀ s, J s → NoConflict N s)
    (s : St L V) (h0 : J s) : Safe N s := by
  intro t
  induction t generalizing s with
  | nil => intro s' hr; simp only [run, Option.some.injEq] at hr; subst hr; exact hnc _ h0
  | cons p rest ih =>
    intro s' hr
    simp only [run] at hr
    cases hp : step N p s with
    | none => simp [hp] at hr
    | some a => simp only [hp, Option.bind_some] at hr; exact ih a (hstep s p a h0 hp) s' hr

/-- the static discipline of C03.lean is a special case -/
theorem owned_noConflict (N : Network L V) (hO : Owned N) (s : St L V) (hW : WF N s) : NoConflict N s := by
  intro p q c hpq hc1 hc2
  rcases role _ _ hc1 with hr1 | hw1
  · rcases role _ _ hc2 with hr2 | hw2
    · have e1 := reader_owner N hO p _ c hr1 hc1
      have e2 := reader_owner N hO q _ c hr2 hc2
      exact absurd (e1.symm.trans e2) hpq
    · exact Or.inl ⟨hr1, hw2⟩
  · rcases role _ _ hc2 with hr2 | hw2
    · exact Or.inr ⟨hw1, hr2⟩
    · have e1 := writer_owner N hO p _ c (fun c' h' => hW p c' h') hw1 hc1
      have e2 := writer_owner N hO q _ c (fun c' h' => hW q c' h') hw2 hc2
      exact absurd (e1.symm.trans e2) hpq

theorem owned_safe (N : Network L V) (hO : Owned N) (s : St L V) (hW : WF N s) : Safe N s :=
  fun t s' hr => owned_noConflict N hO s' (run_wf N hO t s s' hW hr)

/-- **Diamond** under `NoConflict`: two different processes that can both move commute -/
theorem diamond' (N : Network L V) (s : St L V) (hN : NoConflict N s) (p q : Nat) (hpq : p ≠ q)
    (s1 s2 : St L V) (h1 : step N p s = some s1) (h2 : step N q s = some s2) :
    ∃ s', step N q s1 = some s' ∧ step N p s2 = some s' := by
  obtain ⟨c, ps1, cs1, hc1, hf1, rfl⟩ := step_some N p s s1 h1
  obtain ⟨d, ps2, cs2, hc2, hf2, rfl⟩ := step_some N q s s2 h2
  have hqp : q ≠ p := fun h => hpq h.symm
  by_cases hcd : c = d
  · subst hcd
    have key : ∀ (p q : Nat) (ps1 ps2 : PS L) (cs1 cs2 : CS V), p ≠ q →
        (opOf N p (s.procs p)).chan = some c → (opOf N q (s.procs q)).chan = some c →
        (opOf N p (s.procs p)).fire (N.cap c) (s.procs p).1 (s.chans c) = some (ps1, cs1) →
        (opOf N q (s.procs q)).fire (N.cap c) (s.procs q).1 (s.chans c) = some (ps2, cs2) →
        (opOf N p (s.procs p)).isReader = true → (opOf N q (s.procs q)).isWriter = true →
        ∃ s', step N q ⟨upd s.procs p ps1, upd s.chans c cs1⟩ = some s' ∧
              step N p ⟨upd s.procs q ps2, upd s.chans c cs2⟩ = some s' := by
      intro p q ps1 ps2 cs1 cs2 hpq hc1 hc2 hf1 hf2 hr hw
      have hqp : q ≠ p := fun h => hpq h.symm
      obtain ⟨cs', g1, g2⟩ := fire_comm (N.cap c) _ _ _ _ hr hw _ _ _ _ _ hf1 hf2
      refine ⟨⟨upd (upd s.procs p ps1) q ps2, upd s.chans c cs'⟩, ?_, ?_⟩
      · have := step_of N q ⟨upd s.procs p ps1, upd s.chans c cs1⟩ c ps2 cs'
          (by simpa [upd_other _ _ _ _ hqp] using hc2)
          (by simpa [upd_other _ _ _ _ hqp, upd_same] using g2)
        simpa [upd_upd] using this
      · have := step_of N p ⟨upd s.procs q ps2, upd s.chans c cs2⟩ c ps1 cs'
          (by simpa [upd_other _ _ _ _ hpq] using hc1)
          (by simpa [upd_other _ _ _ _ hpq, upd_same] using g1)
        rw [upd_comm _ _ _ _ _ hpq]
        simpa [upd_upd] using this
    rcases hN p q c hpq hc1 hc2 with ⟨hr, hw⟩ | ⟨hw, hr⟩
    · exact key p q ps1 ps2 cs1 cs2 hpq hc1 hc2 hf1 hf2 hr hw
    · obtain ⟨s', g1, g2⟩ := key q p ps2 ps1 cs2 cs1 hqp hc2 hc1 hf2 hf1 hr hw
      exact ⟨s', g2, g1⟩
  · have hdc : d ≠ c := fun h => hcd h.symm
    refine ⟨⟨upd (upd s.procs p ps1) q ps2, upd (upd s.chans c cs1) d cs2⟩, ?_, ?_⟩
    · exact step_of N q ⟨upd s.procs p ps1, upd s.chans c cs1⟩ d ps2 cs2
        (by simpa [upd_other _ _ _ _ hqp] using hc2)
        (by simpa [upd_other _ _ _ _ hqp, upd_other _ _ _ _ hdc] using hf2)
    · have := step_of N p ⟨upd s.procs q ps2, upd s.chans d cs2⟩ c ps1 cs1
        (by simpa [upd_other _ _ _ _ hpq] using hc1)
        (by simpa [upd_other _ _ _ _ hpq, upd_other _ _ _ _ hcd] using hf1)
      rw [upd_comm _ _ _ _ _ hpq, upd_comm _ _ _ _ _ hcd]
      exact this

theorem strip' (N : Network L V) (t : List Nat) (s a e : St L V) (p : Nat) (hS : Safe N s)
    (hp : step N p s = some a) (hr : run N t s = some e) (hT : Terminal N e) :
    ∃ t', run N t' a = some e ∧ t'.length + 1 = t.length := by
  induction t generalizing s a with
  | nil =>
    simp only [run, Option.some.injEq] at hr; subst hr
    rw [hT p] at hp; simp at hp
  | cons q rest ih =>
    simp only [run] at hr
    cases hq : step N q s with
    | none => simp [hq] at hr
    | some b =>
      simp only [hq, Option.bind_some] at hr
      by_cases hqp : q = p
      · subst hqp
        rw [hq] at hp; simp only [Option.some.injEq] at hp; subst hp
        exact ⟨rest, hr, rfl⟩
      · obtain ⟨d, h1, h2⟩ := diamond' N s (safe_here N s hS) p q (fun h => hqp h.symm) a b hp hq
        obtain ⟨r', hr', hl⟩ := ih b d (safe_step N s b q hS hq) h2 hr
        refine ⟨q :: r', ?_, by simp [hl]⟩
        simp [run, h1, hr']

/-- **Determinacy** under `Safe`: if one schedule reaches a terminal state `e`, every other schedule is at most as long
    and can be continued to `e` -/
theorem determinacy' (N : Network L V) (t1 t2 : List Nat) (s e s2 : St L V) (hS : Safe N s)
    (h1 : run N t1 s = some e) (hT : Terminal N e) (h2 : run N t2 s = some s2) :
    ∃ t3, run N t3 s2 = some e ∧ t2.length + t3.length = t1.length := by
  induction t2 generalizing s t1 with
  | nil => simp only [run, Option.some.injEq] at h2; subst h2; exact ⟨t1, h1, by simp⟩
  | cons p rest ih =>
    simp only [run] at h2
    cases hp : step N p s with
    | none => simp [hp] at h2
    | some a =>
      simp only [hp, Option.bind_some] at h2
      obtain ⟨t1', hr, hl⟩ := strip' N t1 s a e p hS hp h1 hT
      obtain ⟨t3, h3, hl3⟩ := ih t1' a (safe_step N s a p hS hp) hr h2
      exact ⟨t3, h3, by simp only [List.length_cons]; omega⟩

theorem terminal_unique' (N : Network L V) (t1 t2 : List Nat) (s e1 e2 : St L V) (hS : Safe N s)
    (h1 : run N t1 s = some e1) (hT1 : Terminal N e1) (h2 : run N t2 s = some e2) (hT2 : Terminal N e2) :
    e1 = e2 ∧ t1.length = t2.length := by
  obtain ⟨t3, h3, hl⟩ := determinacy' N t1 t2 s e1 e2 hS h1 hT1 h2
  obtain ⟨rfl, rfl⟩ := run_terminal_nil N t3 e2 e1 hT2 h3
  exact ⟨rfl, by simpa using hl.symm⟩

theorem no_longer_schedule' (N : Network L V) (t1 t2 : List Nat) (s e s2 : St L V) (hS : Safe N s)
    (h1 : run N t1 s = some e) (hT : Terminal N e) (h2 : run N t2 s = some s2) : t2.length ≤ t1.length := by
  obtain ⟨t3, _, hl⟩ := determinacy' N t1 t2 s e s2 hS h1 hT h2; omega

theorem clean_termination_for_larger_capacities' (N N' : Network L V) (hL : Larger N N')
    (t : List Nat) (s e : St L V) (hS' : Safe N' s) (h : run N t s = some e) (hH : AllHalted N e)
    (t2 : List Nat) (e2 : St L V) (h2 : run N' t2 s = some e2) (hT2 : Terminal N' e2) :
    AllHalted N' e2 ∧ e2.chans = e.chans ∧ ∀ p, (e2.procs p).1 = (e.procs p).1 := by
  obtain ⟨t', e', hr, hRe, _⟩ := capacity_mono N N' hL t s s e (rel_refl s) h
  have hH' := rel_allHalted N N' hL e e' hRe hH
  obtain ⟨rfl, _⟩ := terminal_unique' N' t' t2 s e' e2 hS' hr (allHalted_terminal N' e' hH') h2 hT2
  exact ⟨hH', hRe.1, fun p => (hRe.2 p).1⟩

end C03
