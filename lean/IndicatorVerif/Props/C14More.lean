import IndicatorVerif.Props.C14
/-
  C14, continued — the report shape theorems of `Props/C14.lean` instantiated for the remaining base strategies.

  For every strategy the columns are read off its Go `Report` method (strategy/{trend,momentum,volatility,volume}/
  *_strategy.go and strategy/buy_and_hold_strategy.go); line numbers quoted below refer to those files.

  shape (a)  Bop (no warm-up), Dema, Trima, Vwma, BollingerBands, SuperTrend
  shape (b)  Envelope, Tsi, WeightedClose, TripleRsi, ChaikinMoneyFlow, EaseOfMovement, ForceIndex, MoneyFlowIndex,
             NegativeVolumeIndex, WeightedAveragePrice
  as-is      Alligator, Smma: shape (b) with the axis skipped by `commonPeriod` while the synchronised averages are
             aligned at `commonPeriod − 1` — every average column and the annotation column carry one value more than
             there are date rows (known finding, same root cause as C05.smma_count / C05.alligator_count);
             Vwma with different `Sma.Period` / `Vwma.Period` fields: the SMA column is shifted by the VWMA warm-up.
  BuyAndHold has no indicator column; its action column is `buyAndHold_report_actions`.
-/
namespace C14
open Sig Ind Strat

variable {α : Type} [Arith α]

/-- period of a selectable moving average -/
def maPeriod : MaKind → Nat
  | .sma p | .ema p | .rma p | .smma p | .wma p | .hma p => p

/-- shape (a), all five snapshot fields available -/
macro "report_col_tac' " x:ident n:ident hn:ident : tactic => `(tactic|
  (intro col hcol
   refine shifted_column_length col _ 5 zero ?_ $x $n $hn
   simp only [List.mem_cons, List.not_mem_nil, or_false] at hcol
   (try rcases hcol with hc | hc | hc) <;> (try rcases hcol with hc | hc) <;> (try subst hc) <;> (try subst hcol) <;>
     (simp only [Strat.sClose, Strat.sHigh, Strat.sLow, Strat.sOpen, Strat.sVol]; unfold_ind; good_tac)))

/-- shape (b): date axis `Skip(dates, w)` against every column of a list -/
macro "axis_col_tac " x:ident n:ident : tactic => `(tactic|
  (intro col hcol
   refine skipped_axis_length 3 _ 5 (by omega) col ?_ $x $n
   simp only [List.mem_cons, List.not_mem_nil, or_false] at hcol
   (try rcases hcol with hc | hc | hc) <;> (try rcases hcol with hc | hc) <;> (try subst hc) <;> (try subst hcol) <;>
     (simp only [Strat.sClose, Strat.sHigh, Strat.sLow, Strat.sOpen, Strat.sVol]; unfold_ind; good_tac)))

/-! ### shape (a): date axis = all n snapshots, every indicator column is `Shift(column, w, 0)` -/

/-- BopStrategy.Report (bop_strategy.go:82,93): no warm-up, the BoP column is used as computed (`Shift` by 0) -/
theorem bop_report_column (x : Nat → Nat → α) (n : Nat) :
    ∀ col ∈ [bop (sOpen : Sig α) sHigh sLow sClose], (evalL (envOf x 5 n) col).length = n := by
  intro col hcol
  simp only [List.mem_cons, List.not_mem_nil, or_false] at hcol
  subst hcol
  have hg : Good (bop (sOpen : Sig α) sHigh sLow sClose) 0 5 := by
    simp only [Strat.sClose, Strat.sHigh, Strat.sLow, Strat.sOpen]; unfold_ind; good_tac
  simpa using hg.length x n

/-- DemaStrategy.Report (dema_strategy.go:105-109): each DEMA is shifted by *its own* idle period -/
theorem dema_report_columns (p q : Nat) (h0 : 1 ≤ p) (h1 : 1 ≤ q) (x : Nat → Nat → α) (n : Nat) (hn : p + q - 2 ≤ n) :
    ∀ col ∈ [dema p q (sClose : Sig α)], (evalL (envOf x 5 n) (shift (p + q - 2) zero col)).length = n := by
  report_col_tac x n hn

theorem trimaIdle_eq (p : Nat) : trimaIdle p = p - 1 := by
  simp only [trimaIdle, trimaPeriods]
  split <;> simp only <;> omega

theorem trima_good (p : Nat) (h0 : 1 ≤ p) : Good (trima p (sClose : Sig α)) (trimaIdle p) 5 := by
  simp only [trima, trimaIdle, trimaPeriods, Strat.sClose]
  by_cases hp : p % 2 = 0
  · simp only [hp, if_true]
    unfold_ind
    good_tac
  · simp only [hp, if_false]
    unfold_ind
    good_tac

/-- TrimaStrategy.Report (trima_strategy.go:99-101): the short TRIMA is skipped to the long warm-up, then both are shifted by it -/
theorem trima_report_columns (short long : Nat) (h0 : 1 ≤ short) (h1 : short ≤ long) (x : Nat → Nat → α) (n : Nat)
    (hn : trimaIdle long ≤ n) :
    ∀ col ∈ [skip (trimaIdle long - trimaIdle short) (trima short (sClose : Sig α)), trima long sClose],
      (evalL (envOf x 5 n) (shift (trimaIdle long) zero col)).length = n := by
  intro col hcol
  refine shifted_column_length col _ 5 zero ?_ x n hn
  simp only [List.mem_cons, List.not_mem_nil, or_false] at hcol
  rcases hcol with hc | hc <;> subst hc
  · refine (Good.skip _ (trima_good short h0)).cast ?_
    rw [trimaIdle_eq, trimaIdle_eq]; omega
  · exact trima_good long (by omega)

/-- VwmaStrategy.Report (vwma_strategy.go:86-88) with the two periods equal (as `NewVwmaStrategy` sets them) -/
theorem vwma_report_columns (p : Nat) (x : Nat → Nat → α) (n : Nat) (hn : p - 1 ≤ n) :
    ∀ col ∈ [sma p (sClose : Sig α), vwma p sClose sVol], (evalL (envOf x 5 n) (shift (p - 1) zero col)).length = n := by
  report_col_tac' x n hn

/-- BollingerBandsStrategy.Report (bollinger_bands_strategy.go:80-83): upper, middle, lower -/
theorem bollingerBands_report_columns (p : Nat) (x : Nat → Nat → α) (n : Nat) (hn : p - 1 ≤ n) :
    ∀ col ∈ bollingerBands p (sClose : Sig α), (evalL (envOf x 5 n) (shift (p - 1) zero col)).length = n := by
  simp only [bollingerBands]
  report_col_tac x n hn

/-- SuperTrendStrategy.Report (super_trend_strategy.go:95-96), for every moving average the ATR can be built over -/
theorem superTrend_report_column (ma : MaKind) (mult : α) (h0 : 1 ≤ maPeriod ma) (x : Nat → Nat → α) (n : Nat)
    (hn : atrIdle ma ≤ n) :
    ∀ col ∈ [superTrend ma mult (sHigh : Sig α) sLow sClose],
      (evalL (envOf x 5 n) (shift (atrIdle ma) zero col)).length = n := by
  cases ma <;> simp only [maPeriod] at h0 <;> report_col_tac x n hn

/-! ### shape (b): dates, closings, actions and outcomes are `Skip(…, w)`; the indicator columns are used as computed -/

/-- EnvelopeStrategy.Report (envelope_strategy.go:88-96): upper, middle, lower against `Skip(dates, Envelope.IdlePeriod())` -/
theorem envelope_report_axis (ma : MaKind) (pct : α) (h0 : 1 ≤ maPeriod ma) (x : Nat → Nat → α) (n : Nat) :
    ∀ col ∈ envelope ma pct (sClose : Sig α),
      (evalL (envOf x 5 n) (skip (maIdle ma) (input 3))).length = (evalL (envOf x 5 n) col).length := by
  simp only [envelope]
  cases ma <;> simp only [maPeriod] at h0 <;> axis_col_tac x n

/-- TsiStrategy.Report (tsi_strategy.go:106-117): `Skip(tsi, Signal.IdlePeriod())` and the signal line against
    `Skip(dates, Tsi.IdlePeriod() + Signal.IdlePeriod())` -/
theorem tsi_report_axis (first second sig : Nat) (h0 : 1 ≤ first) (h1 : 1 ≤ second) (h2 : 1 ≤ sig)
    (x : Nat → Nat → α) (n : Nat) :
    ∀ col ∈ [skip (sig - 1) (tsi first second (sClose : Sig α)), ema sig (Arith.nat 2) (tsi first second sClose)],
      (evalL (envOf x 5 n) (skip (((first - 1) + (second - 1) + 1) + (sig - 1)) (input 3))).length
        = (evalL (envOf x 5 n) col).length := by
  axis_col_tac x n

/-- WeightedCloseStrategy.Report (weighted_close_strategy.go:112-125): `Skip(weightedClose, Ma.IdlePeriod())` and its moving
    average, for every `trend.Ma` the public field `Ma` can hold (`NewWeightedCloseStrategyWith` builds `.sma p`) -/
theorem weightedClose_report_axis (ma : MaKind) (h0 : 1 ≤ maPeriod ma) (x : Nat → Nat → α) (n : Nat) :
    ∀ col ∈ [skip (maIdle ma) (weightedClose (sHigh : Sig α) sLow sClose), maApply ma (weightedClose sHigh sLow sClose)],
      (evalL (envOf x 5 n) (skip (maIdle ma) (input 3))).length = (evalL (envOf x 5 n) col).length := by
  cases ma <;> simp only [maPeriod] at h0 <;> axis_col_tac x n

/-- TripleRsiStrategy.Report (triple_rsi_strategy.go:181-192): `Skip(rsi, IdlePeriod() − Rsi.IdlePeriod())` and the SMA against
    `Skip(dates, Sma.IdlePeriod())`; admissible: the RSI warm-up does not exceed the SMA warm-up -/
theorem tripleRsi_report_axis (p sp : Nat) (h0 : 1 ≤ p) (h1 : p + 1 ≤ sp) (x : Nat → Nat → α) (n : Nat) :
    ∀ col ∈ [skip ((sp - 1) - ((p - 1) + 1)) (rsi p (sClose : Sig α)), sma sp sClose],
      (evalL (envOf x 5 n) (skip (sp - 1) (input 3))).length = (evalL (envOf x 5 n) col).length := by
  axis_col_tac x n

/-- ChaikinMoneyFlowStrategy.Report (chaikin_money_flow_strategy.go:87-100) -/
theorem chaikinMoneyFlow_report_axis (p : Nat) (x : Nat → Nat → α) (n : Nat) :
    ∀ col ∈ [cmf p (sHigh : Sig α) sLow sClose sVol],
      (evalL (envOf x 5 n) (skip (p - 1) (input 3))).length = (evalL (envOf x 5 n) col).length := by
  axis_col_tac x n

/-- EaseOfMovementStrategy.Report (ease_of_movement_strategy.go:85-99) -/
theorem easeOfMovement_report_axis (p : Nat) (x : Nat → Nat → α) (n : Nat) :
    ∀ col ∈ [emv p (sHigh : Sig α) sLow sVol],
      (evalL (envOf x 5 n) (skip ((p - 1) + 1) (input 3))).length = (evalL (envOf x 5 n) col).length := by
  axis_col_tac x n

/-- ForceIndexStrategy.Report (force_index_strategy.go:81-89) -/
theorem forceIndex_report_axis (p : Nat) (h0 : 1 ≤ p) (x : Nat → Nat → α) (n : Nat) :
    ∀ col ∈ [fi p (sClose : Sig α) sVol],
      (evalL (envOf x 5 n) (skip ((p - 1) + 1) (input 3))).length = (evalL (envOf x 5 n) col).length := by
  axis_col_tac x n

/-- MoneyFlowIndexStrategy.Report (money_flow_index_strategy.go:103-116) -/
theorem moneyFlowIndex_report_axis (p : Nat) (x : Nat → Nat → α) (n : Nat) :
    ∀ col ∈ [mfi p (sHigh : Sig α) sLow sClose sVol],
      (evalL (envOf x 5 n) (skip ((p - 1) + 1) (input 3))).length = (evalL (envOf x 5 n) col).length := by
  axis_col_tac x n

/-- NegativeVolumeIndexStrategy.Report (negative_volume_index_strategy.go:105-121): `Skip(nvi, Ema.IdlePeriod())` and its EMA
    against `Skip(dates, Nvi.IdlePeriod() + Ema.IdlePeriod())` -/
theorem negativeVolumeIndex_report_axis (ep : Nat) (initial : α) (h0 : 1 ≤ ep) (x : Nat → Nat → α) (n : Nat) :
    ∀ col ∈ [skip (ep - 1) (nvi initial (sClose : Sig α) sVol), ema ep (Arith.nat 2) (nvi initial sClose sVol)],
      (evalL (envOf x 5 n) (skip (1 + (ep - 1)) (input 3))).length = (evalL (envOf x 5 n) col).length := by
  axis_col_tac x n

/-- WeightedAveragePriceStrategy.Report (weighted_average_price_strategy.go:89-97) -/
theorem weightedAveragePrice_report_axis (p : Nat) (x : Nat → Nat → α) (n : Nat) :
    ∀ col ∈ [vwap p (sClose : Sig α) sVol],
      (evalL (envOf x 5 n) (skip (p - 1) (input 3))).length = (evalL (envOf x 5 n) col).length := by
  axis_col_tac x n

omit [Arith α] in
/-- shape (b), rows: row i of the date axis is date `k + i` and row i of a column aligned at `k` is the value computed for it -/
theorem skipped_axis_row (j k A : Nat) (hj : j < A) (ind : Sig α) (h : Good ind k A) (x : Nat → Nat → α) (n i : Nat)
    (hi : i < n - k) :
    (evalL (envOf x A n) (skip k (input j)))[i]? = some (x j (k + i)) ∧
      (evalL (envOf x A n) ind)[i]? = some (den x ind (k + i)) := by
  have hd : Good (skip k (input j : Sig α)) (0 + k) A := Good.skip k (Good.input j A hj)
  refine ⟨?_, h.kth x n i hi⟩
  have := hd.kth x n i (by omega)
  simpa [den] using this

/-- shape (b), annotation column: `Skip(actions, idle)` of a strategy whose decisions start at `idle` (`C05.Shaped`, proved
    in C05 for every shape (b) strategy above) has one value per row of `Skip(dates, idle)`, for every n -/
theorem skipped_actions_length (e : SEntry α) (h : C05.Shaped e) (x : Nat → Nat → α) (n : Nat) :
    (evalL (envOf x 5 n) (skip e.idle e.sig)).length = (evalL (envOf x 5 n) (skip e.idle (input 3))).length := by
  obtain ⟨inner, hs, hg⟩ := h
  have hd : Good (skip e.idle (input 3 : Sig α)) (0 + e.idle) 5 := Good.skip _ (Good.input 3 5 (by omega))
  rw [hd.length x n, hs]
  simp only [evalL, List.length_drop, List.length_append, List.length_replicate]
  rw [hg.length x n]; omega

/-! ### as-is findings -/

theorem smma_sync_good (common p : Nat) (h0 : 1 ≤ p) (hp : p ≤ common) :
    Good (syncPeriod common p (smma p (sClose : Sig α))) (common - 1) 5 := by
  have hg : Good (smma p (sClose : Sig α)) (0 + (p - 1)) 5 := by
    simp only [Ind.smma, Strat.sClose]
    exact Good.recur _ _ _ (Good.input 3 5 (by omega)) h0
  exact (C05.Good.syncPeriod common p hg).cast (by omega)

/-- the date axis `helper.SyncPeriod(commonPeriod, 0, dates)` of the Alligator and Smma reports -/
theorem sync_axis_good (common : Nat) : Good (syncPeriod common 0 (input 3 : Sig α)) common 5 :=
  (C05.Good.syncPeriod common 0 (Good.input 3 5 (by omega))).cast (by omega)

/-- **Known finding, as-is**: SmmaStrategy.Report (smma_strategy.go:116-120) skips dates and closings by `commonPeriod` but
    synchronises the averages to `commonPeriod − 1` (`Smma.IdlePeriod() = Period − 1`, while `SyncPeriod` is given `Period`):
    both SMMA columns carry one value more than there are date rows. -/
theorem smma_report_column_too_long (short long : Nat) (h0 : 1 ≤ short) (h1 : 1 ≤ long) (x : Nat → Nat → α) (n : Nat)
    (hn : Nat.max short long ≤ n) :
    ∀ col ∈ [syncPeriod (Nat.max short long) short (smma short (sClose : Sig α)),
             syncPeriod (Nat.max short long) long (smma long sClose)],
      (evalL (envOf x 5 n) col).length
        = (evalL (envOf x 5 n) (syncPeriod (Nat.max short long) 0 (input 3))).length + 1 := by
  generalize hc : Nat.max short long = common at hn ⊢
  have hs : short ≤ common := by rw [← hc]; exact Nat.le_max_left _ _
  have hl : long ≤ common := by rw [← hc]; exact Nat.le_max_right _ _
  intro col hcol
  simp only [List.mem_cons, List.not_mem_nil, or_false] at hcol
  rw [(sync_axis_good common).length x n]
  rcases hcol with hc | hc <;> subst hc
  · rw [(smma_sync_good common short h0 hs).length x n]; omega
  · rw [(smma_sync_good common long h1 hl).length x n]; omega

/-- … and row i of each SMMA column is the value computed for date `commonPeriod − 1 + i`, printed in the row of date
    `commonPeriod + i`: the averages are plotted one day late. -/
theorem smma_report_rows_one_day_late (short long : Nat) (h0 : 1 ≤ short) (h1 : 1 ≤ long) (x : Nat → Nat → α) (n i : Nat)
    (hi : i < n - Nat.max short long) :
    (evalL (envOf x 5 n) (syncPeriod (Nat.max short long) 0 (input 3)))[i]? = some (x 3 (Nat.max short long + i)) ∧
    ∀ col ∈ [syncPeriod (Nat.max short long) short (smma short (sClose : Sig α)),
             syncPeriod (Nat.max short long) long (smma long sClose)],
      (evalL (envOf x 5 n) col)[i]? = some (den x col (Nat.max short long - 1 + i)) := by
  generalize hc : Nat.max short long = common at hi ⊢
  have hs : short ≤ common := by rw [← hc]; exact Nat.le_max_left _ _
  have hl : long ≤ common := by rw [← hc]; exact Nat.le_max_right _ _
  constructor
  · have := (sync_axis_good (α := α) common).kth x n i hi
    rw [this]; simp only [Strat.syncPeriod]; split <;> simp [den]
  · intro col hcol
    simp only [List.mem_cons, List.not_mem_nil, or_false] at hcol
    rcases hcol with hc | hc <;> subst hc
    · exact (smma_sync_good common short h0 hs).kth x n i (by omega)
    · exact (smma_sync_good common long h1 hl).kth x n i (by omega)

/-- … and so does the annotation column `Skip(annotations, commonPeriod)`: the strategy emits n + 1 actions (C05.smma_count) -/
theorem smma_report_annotations_too_long (short long : Nat) (h0 : 1 ≤ short) (h1 : 1 ≤ long) (x : Nat → Nat → α) (n : Nat)
    (hn : Nat.max short long ≤ n) :
    (evalL (envOf x 5 n) (skip (Nat.max short long) (smmaS short long))).length
      = (evalL (envOf x 5 n) (syncPeriod (Nat.max short long) 0 (input 3))).length + 1 := by
  simp only [Strat.smmaS]
  generalize hc : Nat.max short long = common at hn ⊢
  have hs : short ≤ common := by rw [← hc]; exact Nat.le_max_left _ _
  have hl : long ≤ common := by rw [← hc]; exact Nat.le_max_right _ _
  have hg := Good.zip (gtRule (α := α)) (smma_sync_good common short h0 hs) (smma_sync_good common long h1 hl) rfl
  rw [(sync_axis_good common).length x n]
  simp only [evalL, List.length_drop, List.length_append, List.length_replicate]
  have := hg.length x n
  simp only [evalL] at this
  rw [this]; omega

/-- **Known finding, as-is**: AlligatorStrategy.Report (alligator_strategy.go:124-129), same construction with three averages:
    jaw, teeth and lip columns carry one value more than there are date rows. -/
theorem alligator_report_column_too_long (jaw teeth lip : Nat) (h0 : 1 ≤ jaw) (h1 : 1 ≤ teeth) (h2 : 1 ≤ lip)
    (x : Nat → Nat → α) (n : Nat) (hn : Nat.max (Nat.max jaw teeth) lip ≤ n) :
    ∀ col ∈ [syncPeriod (Nat.max (Nat.max jaw teeth) lip) jaw (smma jaw (sClose : Sig α)),
             syncPeriod (Nat.max (Nat.max jaw teeth) lip) teeth (smma teeth sClose),
             syncPeriod (Nat.max (Nat.max jaw teeth) lip) lip (smma lip sClose)],
      (evalL (envOf x 5 n) col).length
        = (evalL (envOf x 5 n) (syncPeriod (Nat.max (Nat.max jaw teeth) lip) 0 (input 3))).length + 1 := by
  generalize hc : Nat.max (Nat.max jaw teeth) lip = common at hn ⊢
  have hj : jaw ≤ common := by rw [← hc]; exact Nat.le_trans (Nat.le_max_left _ _) (Nat.le_max_left _ _)
  have ht : teeth ≤ common := by rw [← hc]; exact Nat.le_trans (Nat.le_max_right _ _) (Nat.le_max_left _ _)
  have hl : lip ≤ common := by rw [← hc]; exact Nat.le_max_right _ _
  intro col hcol
  simp only [List.mem_cons, List.not_mem_nil, or_false] at hcol
  rw [(sync_axis_good common).length x n]
  rcases hcol with hc | hc | hc <;> subst hc
  · rw [(smma_sync_good common jaw h0 hj).length x n]; omega
  · rw [(smma_sync_good common teeth h1 ht).length x n]; omega
  · rw [(smma_sync_good common lip h2 hl).length x n]; omega

/-- … each plotted one day late: row i (date `commonPeriod + i`) carries the average computed for date `commonPeriod − 1 + i` -/
theorem alligator_report_rows_one_day_late (jaw teeth lip : Nat) (h0 : 1 ≤ jaw) (h1 : 1 ≤ teeth) (h2 : 1 ≤ lip)
    (x : Nat → Nat → α) (n i : Nat) (hi : i < n - Nat.max (Nat.max jaw teeth) lip) :
    (evalL (envOf x 5 n) (syncPeriod (Nat.max (Nat.max jaw teeth) lip) 0 (input 3)))[i]?
        = some (x 3 (Nat.max (Nat.max jaw teeth) lip + i)) ∧
    ∀ col ∈ [syncPeriod (Nat.max (Nat.max jaw teeth) lip) jaw (smma jaw (sClose : Sig α)),
             syncPeriod (Nat.max (Nat.max jaw teeth) lip) teeth (smma teeth sClose),
             syncPeriod (Nat.max (Nat.max jaw teeth) lip) lip (smma lip sClose)],
      (evalL (envOf x 5 n) col)[i]? = some (den x col (Nat.max (Nat.max jaw teeth) lip - 1 + i)) := by
  generalize hc : Nat.max (Nat.max jaw teeth) lip = common at hi ⊢
  have hj : jaw ≤ common := by rw [← hc]; exact Nat.le_trans (Nat.le_max_left _ _) (Nat.le_max_left _ _)
  have ht : teeth ≤ common := by rw [← hc]; exact Nat.le_trans (Nat.le_max_right _ _) (Nat.le_max_left _ _)
  have hl : lip ≤ common := by rw [← hc]; exact Nat.le_max_right _ _
  constructor
  · have := (sync_axis_good (α := α) common).kth x n i hi
    rw [this]; simp only [Strat.syncPeriod]; split <;> simp [den]
  · intro col hcol
    simp only [List.mem_cons, List.not_mem_nil, or_false] at hcol
    rcases hcol with hc | hc | hc <;> subst hc
    · exact (smma_sync_good common jaw h0 hj).kth x n i (by omega)
    · exact (smma_sync_good common teeth h1 ht).kth x n i (by omega)
    · exact (smma_sync_good common lip h2 hl).kth x n i (by omega)

/-- … and the annotation column `Skip(annotations, commonPeriod)` (C05.alligator_count: n + 1 actions) -/
theorem alligator_report_annotations_too_long (jaw teeth lip : Nat) (h0 : 1 ≤ jaw) (h1 : 1 ≤ teeth) (h2 : 1 ≤ lip)
    (x : Nat → Nat → α) (n : Nat) (hn : Nat.max (Nat.max jaw teeth) lip ≤ n) :
    (evalL (envOf x 5 n) (skip (Nat.max (Nat.max jaw teeth) lip) (alligator jaw teeth lip))).length
      = (evalL (envOf x 5 n) (syncPeriod (Nat.max (Nat.max jaw teeth) lip) 0 (input 3))).length + 1 := by
  simp only [Strat.alligator]
  generalize hc : Nat.max (Nat.max jaw teeth) lip = common at hn ⊢
  have hj : jaw ≤ common := by rw [← hc]; exact Nat.le_trans (Nat.le_max_left _ _) (Nat.le_max_left _ _)
  have ht : teeth ≤ common := by rw [← hc]; exact Nat.le_trans (Nat.le_max_right _ _) (Nat.le_max_left _ _)
  have hl : lip ≤ common := by rw [← hc]; exact Nat.le_max_right _ _
  rw [(sync_axis_good common).length x n]
  simp only [evalL, List.length_drop, List.length_append, List.length_replicate]
  have hg := fun f => Good.zip3 (α := α) f (smma_sync_good common jaw h0 hj) (smma_sync_good common teeth h1 ht)
    (smma_sync_good common lip h2 hl) rfl rfl
  have := fun f => (hg f).length x n
  simp only [evalL] at this
  rw [this]; omega

/-- **Before fix F14** (recorded for the history of the finding): VwmaStrategy has two independent public periods (`Sma.Period`,
    `Vwma.Period`); `Report` used to shift *both* columns by `Vwma.Period − 1`, so the SMA column had `n + Vwma.Period − Sma.Period`
    values — n exactly when the two periods agree.  This theorem is what exposed the defect. -/
theorem vwma_report_sma_column_mismatch_before_fix (ps pv : Nat) (h0 : 1 ≤ ps) (h1 : 1 ≤ pv) (x : Nat → Nat → α) (n : Nat)
    (hn : ps - 1 ≤ n) :
    (evalL (envOf x 5 n) (shift (pv - 1) zero (sma ps (sClose : Sig α)))).length + ps = n + pv := by
  have hg : Good (sma ps (sClose : Sig α)) (ps - 1) 5 := by
    simp only [Strat.sClose]; unfold_ind; good_tac
  rw [C05.evalL_shift]; simp [hg.length x n]; omega

/-- **After fix F14**: both columns are forwarded to the common idle period and shifted by it: n values each, for every pair of
    periods (vwma_strategy.go: `SyncPeriod(idle, …)` in calculateSmaAndVwma, `Shift(…, v.IdlePeriod(), 0)` in Report). -/
theorem vwmaG_report_columns (ps pv : Nat) (h0 : 1 ≤ ps) (h1 : 1 ≤ pv) (x : Nat → Nat → α) (n : Nat)
    (hn : Nat.max (ps - 1) (pv - 1) ≤ n) :
    (evalL (envOf x 5 n) (shift (Nat.max (ps - 1) (pv - 1)) zero
        (Strat.syncPeriod (Nat.max (ps - 1) (pv - 1)) (ps - 1) (sma ps (sClose : Sig α))))).length = n ∧
    (evalL (envOf x 5 n) (shift (Nat.max (ps - 1) (pv - 1)) zero
        (Strat.syncPeriod (Nat.max (ps - 1) (pv - 1)) (pv - 1) (vwma pv (sClose : Sig α) sVol)))).length = n := by
  have gs : Good (sma ps (sClose : Sig α)) (ps - 1) 5 := by
    simp only [Strat.sClose]; unfold_ind; good_tac
  have gv : Good (vwma pv (sClose : Sig α) sVol) (pv - 1) 5 := by
    simp only [Strat.sClose, Strat.sVol]; unfold_ind; good_tac
  have a := C05.Good.syncPeriod (Nat.max (ps - 1) (pv - 1)) (ps - 1) gs
  have b := C05.Good.syncPeriod (Nat.max (ps - 1) (pv - 1)) (pv - 1) gv
  have hm : Nat.max (ps - 1) (pv - 1) = max (ps - 1) (pv - 1) := rfl
  rw [hm] at hn a b ⊢
  constructor
  · rw [C05.evalL_shift]; simp [a.length x n]; omega
  · rw [C05.evalL_shift]; simp [b.length x n]; omega

/-! ### BuyAndHold (strategy/buy_and_hold_strategy.go:57-75): no indicator column; closings and actions as computed -/

theorem buyAndHold_report_actions (x : Nat → Nat → α) (n : Nat) :
    (evalL (envOf x 5 n) (buyAndHold : Sig α)).length = (evalL (envOf x 5 n) (input 3)).length := by
  obtain ⟨e, he, hg, _⟩ := C05.buyAndHold_aligned (α := α) []
  simp only [Strat.lookupS, Option.some.injEq] at he
  subst he
  rw [C05.no_warmup_count _ hg x n, (Good.input 3 5 (by omega)).length x n]; omega

end C14
