import IndicatorVerif.Proofs.ScaleReal
import Mathlib.Tactic.FieldSimp
import Mathlib.Tactic.Positivity
import Mathlib.Tactic.NormNum
/- tactics for the generated homogeneity theorems -/
open PS in
macro "scaled_close" : tactic => `(tactic|
  (all_goals (apply PS.Scaled.cast)
   all_goals scaled_core
   all_goals (first | rfl | positivity | (norm_num; done) | (field_simp; done) | (norm_num; field_simp; done) | (norm_num; ring_nf; done) | (field_simp; ring_nf; done))))

macro "scaled_tac1" : tactic => `(tactic| (refine ⟨_, _, rfl, rfl, ?_⟩; scaled_close))
macro "scaled_tac2" : tactic => `(tactic| (refine ⟨_, _, _, _, rfl, rfl, ?_, ?_⟩; scaled_close))
macro "scaled_tac3" : tactic => `(tactic| (refine ⟨_, _, _, _, _, _, rfl, rfl, ?_, ?_, ?_⟩; scaled_close))
macro "scaled_tac5" : tactic => `(tactic| (refine ⟨_, _, _, _, _, _, _, _, _, _, rfl, rfl, ?_, ?_, ?_, ?_, ?_⟩; scaled_close))
