import IndicatorVerif.Props.C06More
/- C05/C06: the VWMA strategy with separately configured `Sma.Period` and `Vwma.Period` (two exported fields), as repaired by
   fix F14: the average that is available earlier is forwarded (`helper.SyncPeriod`) so that the rule compares the two averages
   of the same snapshot, and the warm-up is the longer of the two idle periods. -/
namespace C06
open Sig Ind Strat
variable {α : Type} [Arith α]

theorem vwmaG_inner_good (ps pv : Nat) (h0 : 1 ≤ ps) (h1 : 1 ≤ pv) :
    Good (zip (fun sma vwma => if Arith.gt vwma sma then buy else if Arith.gt sma vwma then sell else hold)
      (syncPeriod (Nat.max (ps - 1) (pv - 1)) (ps - 1) (sma ps (sClose : Sig α)))
      (syncPeriod (Nat.max (ps - 1) (pv - 1)) (pv - 1) (vwma pv sClose sVol))) (Nat.max (ps - 1) (pv - 1)) 5 := by
  have gs : Good (sma ps (sClose : Sig α)) (ps - 1) 5 := by
    unfold_strat
    unfold_ind
    good_tac
  have gv : Good (vwma pv (sClose : Sig α) sVol) (pv - 1) 5 := by
    unfold_strat
    unfold_ind
    good_tac
  have a := C05.Good.syncPeriod (Nat.max (ps - 1) (pv - 1)) (ps - 1) gs
  have b := C05.Good.syncPeriod (Nat.max (ps - 1) (pv - 1)) (pv - 1) gv
  have hm : Nat.max (ps - 1) (pv - 1) = max (ps - 1) (pv - 1) := rfl
  have e1 : ps - 1 + (Nat.max (ps - 1) (pv - 1) - (ps - 1)) = Nat.max (ps - 1) (pv - 1) := by
    rw [hm]; omega
  have e2 : pv - 1 + (Nat.max (ps - 1) (pv - 1) - (pv - 1)) = Nat.max (ps - 1) (pv - 1) := by
    rw [hm]; omega
  rw [e1] at a
  rw [e2] at b
  exact Good.zip _ a b rfl

/-- the rule is applied to the two averages **of the same snapshot**, whatever the two periods -/
theorem vwmaG_rule (ps pv : Nat) (fs : List α) (h0 : 1 ≤ ps) (h1 : 1 ≤ pv) :
    ∃ e inner, lookupS "VwmaG" [ps, pv] fs = some e ∧ e.sig = shift e.idle hold inner ∧ Good inner e.idle 5 ∧
      e.idle = Nat.max (ps - 1) (pv - 1) ∧
      ∀ (x : Nat → Nat → α) (i : Nat), Nat.max (ps - 1) (pv - 1) ≤ i → den x inner i =
        (let a := den x (sma ps sClose) i
         let v := den x (vwma pv sClose sVol) i
         if Arith.gt v a then buy else if Arith.gt a v then sell else hold) := by
  refine ⟨_, _, rfl, rfl, vwmaG_inner_good ps pv h0 h1, rfl, ?_⟩
  intro x i hi
  simp only [Strat.syncPeriod]
  split <;> split <;> simp [den]

end C06

namespace C05
open Sig Ind Strat
variable {α : Type} [Arith α]

/-- one action per snapshot, Hold through the longer warm-up, for every pair of periods -/
theorem vwmaG_shaped (ps pv : Nat) (fs : List α) (h0 : 1 ≤ ps) (h1 : 1 ≤ pv) :
    ∃ e, lookupS "VwmaG" [ps, pv] fs = some e ∧ Shaped e :=
  ⟨_, rfl, _, rfl, C06.vwmaG_inner_good ps pv h0 h1⟩

end C05
