import IndicatorVerif.Props.C03MovingSum
import IndicatorVerif.Model.NetWindow
/-
  C03 — clean termination PROVED for the whole family of window pipelines
      cs := Duplicate(c, 2); cs[1] = Shift(cs[1], p, 0); out := Operate(cs[0], cs[1], closure); Skip(out, p−1)
  with an ARBITRARY stateful closure (`NetM.winNet f`), for every input, every period p ≥ 1, every input capacity,
  every `Shift` buffer ≥ p and every schedule.  `trend.MovingSum` (running sum), `trend.MovingMax` and
  `trend.MovingMin` (a search tree holding the window) are instances.
  Same method and same schedules as `C03MovingSum`: only the register contents of process 3 differ.
-/
namespace C03
open Net NetM

/-- round-start state: `rest` to be produced, `q` in the Shift channel, `m` fill values still to send, closure state `st`,
    `r` results still to skip, `out` delivered -/
def W (rest q : List Int) (m : Nat) (st : List Int) (r : Nat) (out : List Int) : St Loc Int :=
  ⟨P6 (⟨0, rest⟩, none) (⟨0, []⟩, none) (⟨0, [(m : Int)]⟩, none) (⟨0, st⟩, none) (⟨0, [(r : Int)]⟩, none) (⟨0, out⟩, none),
   C6 ([], false) ([], false) ([], false) (q, false) ([], false) ([], false)⟩

theorem winInit_eq (st0 xs : List Int) (p : Nat) (hp : 1 ≤ p) : winInit st0 xs p = W xs [] p st0 (p - 1) [] := by
  have e : ((p - 1 : Nat) : Int) = (p : Int) - 1 := by omega
  simp only [winInit, W, e]
  congr 1
  · funext q
    match q with
    | 0 | 1 | 2 | 3 | 4 | 5 => simp [P6]
    | n + 6 => simp [P6]
  · funext c
    match c with
    | 0 | 1 | 2 | 3 | 4 | 5 => simp [C6]
    | n + 6 => simp [C6]

variable (f : List Int → Int → Int → List Int × Int)

/-- Shift sends one of its fill values -/
theorem wFillStep (p : Nat) (rest q : List Int) (m : Nat) (st : List Int) (r : Nat) (out : List Int)
    (hq : q.length < p) :
    run (winNet f 0 p) [2] (W rest q (m + 1) st r out) = some (W rest (q ++ [0]) m st r out) := by
  have hk : p ≠ 0 := by omega
  have h1 : q.length < max 1 p := by omega
  have h2 : ¬ ((m : Int) + 1 ≤ 0) := by omega
  simp [run, W, step, opOf, winNet, shiftM, Op.chan, Op.fire, hk, h1, h2]

theorem wFills (p : Nat) (rest : List Int) (st : List Int) (r : Nat) (out : List Int) (m : Nat) (q : List Int)
    (h : q.length + m = p) :
    run (winNet f 0 p) (List.replicate m 2) (W rest q m st r out)
      = some (W rest (q ++ List.replicate m 0) 0 st r out) := by
  induction m generalizing q with
  | zero => simp [run]
  | succ m ih =>
    have e : List.replicate (m + 1) 2 = [2] ++ List.replicate m 2 := by simp [List.replicate_succ]
    rw [e, run_append, wFillStep f p rest q m st r out (by omega)]
    simp only [Option.bind_some]
    rw [ih (q ++ [0]) (by simp; omega)]
    simp [List.replicate_succ]

theorem roundWA (p : Nat) (x y : Int) (st rest q : List Int) (r : Nat) (out : List Int) (hq : q.length < p) :
    run (winNet f 0 p) schedMA (W (x :: rest) (y :: q) 0 st (r + 1) out)
      = some (W rest (q ++ [x]) 0 (f st x y).1 r out) := by
  have hk : p ≠ 0 := by omega
  have h1 : q.length < max 1 p := by omega
  have h2 : ¬ ((r : Int) + 1 ≤ 0) := by omega
  simp [schedMA, run, W, step, opOf, winNet, producer, dup2, shiftM, winOp, skipM, Op.chan, Op.fire, hk, h1, h2]

theorem roundWB (p : Nat) (x y : Int) (st rest q : List Int) (out : List Int) (hq : q.length < p) :
    run (winNet f 0 p) schedMB (W (x :: rest) (y :: q) 0 st 0 out)
      = some (W rest (q ++ [x]) 0 (f st x y).1 0 (out ++ [(f st x y).2])) := by
  have hk : p ≠ 0 := by omega
  have h1 : q.length < max 1 p := by omega
  simp [schedMB, schedMA, run, W, step, opOf, winNet, producer, dup2, shiftM, winOp, skipM, sink, Op.chan, Op.fire, hk, h1]

theorem roundWE (p : Nat) (q : List Int) (st : List Int) (r : Nat) (out : List Int) :
    run (winNet f 0 p) (schedME r) (W [] q 0 st r out) = some (DM q out) := by
  cases r with
  | zero =>
    simp [schedME, run, W, DM, step, opOf, winNet, producer, dup2, shiftM, winOp, skipM, sink, Op.chan, Op.fire]
  | succ r =>
    have h2 : ¬ ((r : Int) + 1 ≤ 0) := by omega
    simp [schedME, run, W, DM, step, opOf, winNet, producer, dup2, shiftM, winOp, skipM, sink, Op.chan, Op.fire, h2]

theorem drainW (p : Nat) (q out : List Int) :
    run (winNet f 0 p) (List.replicate (q.length + 1) 3) (DM q out) = some (FM out) := by
  induction q with
  | nil => simp [run, DM, FM, step, opOf, winNet, winOp, Op.chan, Op.fire]
  | cons y q ih =>
    have h : run (winNet f 0 p) [3] (DM (y :: q) out) = some (DM q out) := by
      simp [run, DM, step, opOf, winNet, winOp, Op.chan, Op.fire]
    have e : List.replicate ((y :: q).length + 1) 3 = [3] ++ List.replicate (q.length + 1) 3 := by
      simp [List.replicate_succ]
    rw [e, run_append, h]; simpa using ih

/-- what the stateful Operate emits from closure state `st`, shifted queue `q` and remaining input -/
def winOuts (f : List Int → Int → Int → List Int × Int) : List Int → List Int → List Int → List Int
  | _, _, [] => []
  | _, [], _ :: _ => []
  | st, y :: q, x :: rest => (f st x y).2 :: winOuts f (f st x y).1 (q ++ [x]) rest

theorem win_canonical_run (p : Nat) (hp : 1 ≤ p) (xs q : List Int) (st : List Int) (r : Nat) (out : List Int)
    (hinv : q.length = p) :
    ∃ t, run (winNet f 0 p) t (W xs q 0 st r out) = some (FM (out ++ (winOuts f st q xs).drop r)) := by
  induction xs generalizing q st r out with
  | nil =>
    refine ⟨schedME r ++ List.replicate (q.length + 1) 3, ?_⟩
    rw [run_append, roundWE]
    have : winOuts f st q [] = [] := by cases q <;> rfl
    simpa [this] using drainW f p q out
  | cons x rest ih =>
    cases q with
    | nil => simp at hinv; omega
    | cons y q =>
      have hq : q.length < p := by simp at hinv; omega
      cases r with
      | zero =>
        obtain ⟨t, ht⟩ := ih (q ++ [x]) (f st x y).1 0 (out ++ [(f st x y).2]) (by simp at hinv ⊢; omega)
        refine ⟨schedMB ++ t, ?_⟩
        rw [run_append, roundWB f p x y st rest q out hq]
        simpa [winOuts] using ht
      | succ r =>
        obtain ⟨t, ht⟩ := ih (q ++ [x]) (f st x y).1 r out (by simp at hinv ⊢; omega)
        refine ⟨schedMA ++ t, ?_⟩
        rw [run_append, roundWA f p x y st rest q r out hq]
        simpa [winOuts] using ht

theorem win_canonical (st0 xs : List Int) (p : Nat) (hp : 1 ≤ p) :
    ∃ t, run (winNet f 0 p) t (winInit st0 xs p)
      = some (FM ((winOuts f st0 (List.replicate p 0) xs).drop (p - 1))) := by
  rw [winInit_eq st0 xs p hp]
  obtain ⟨t, ht⟩ := win_canonical_run f p hp xs (List.replicate p 0) st0 (p - 1) [] (by simp)
  refine ⟨List.replicate p 2 ++ t, ?_⟩
  rw [run_append, wFills f p xs st0 (p - 1) [] p [] (by simp)]
  simpa using ht

theorem FM_allHalted_win (cap buf : Nat) (out : List Int) : AllHalted (winNet f cap buf) (FM out) := by
  intro p
  match p with
  | 0 | 1 | 2 | 3 | 4 | 5 => simp [FM, winNet, producer, dup2, shiftM, winOp, skipM, sink]
  | n + 6 => simp [FM, P6, winNet]

theorem winNet_owned (cap buf : Nat) : Owned (winNet f cap buf) := by
  constructor
  · intro p l c k h
    simp only [winNet] at h ⊢
    split at h
    · simp only [producer] at h; split at h <;> simp at h
    · simp only [dup2] at h; split at h <;> simp at h; obtain ⟨rfl, _⟩ := h; rfl
    · simp only [shiftM] at h; split at h
      · split at h <;> simp at h; obtain ⟨rfl, _⟩ := h; rfl
      all_goals simp at h
    · simp only [winOp] at h; split at h <;> simp at h <;> (obtain ⟨rfl, _⟩ := h; rfl)
    · simp only [skipM] at h; split at h
      · split at h <;> simp at h <;> (obtain ⟨rfl, _⟩ := h; rfl)
      all_goals simp at h
    · simp only [sink] at h; split at h <;> simp at h; obtain ⟨rfl, _⟩ := h; rfl
    · simp at h
  · intro p l c v k h
    simp only [winNet] at h ⊢
    split at h
    · simp only [producer] at h; split at h <;> simp at h; obtain ⟨rfl, _⟩ := h; rfl
    · simp only [dup2] at h; split at h <;> simp at h <;> (obtain ⟨rfl, _⟩ := h; rfl)
    · simp only [shiftM] at h; split at h
      · split at h <;> simp at h; obtain ⟨rfl, _⟩ := h; rfl
      all_goals simp at h
      obtain ⟨rfl, _⟩ := h; rfl
    · simp only [winOp] at h; split at h <;> simp at h; obtain ⟨rfl, _⟩ := h; rfl
    · simp only [skipM] at h; split at h
      · split at h <;> simp at h
      all_goals simp at h
      obtain ⟨rfl, _⟩ := h; rfl
    · simp only [sink] at h; split at h <;> simp at h
    · simp at h
  · intro p l c k h
    simp only [winNet] at h ⊢
    split at h
    · simp only [producer] at h; split at h <;> simp at h; obtain ⟨rfl, _⟩ := h; rfl
    · simp only [dup2] at h; split at h <;> simp at h <;> (obtain ⟨rfl, _⟩ := h; rfl)
    · simp only [shiftM] at h; split at h
      · split at h <;> simp at h
      all_goals simp at h
      obtain ⟨rfl, _⟩ := h; rfl
    · simp only [winOp] at h; split at h <;> simp at h <;> (obtain ⟨rfl, _⟩ := h; rfl)
    · simp only [skipM] at h; split at h
      · split at h <;> simp at h
      all_goals simp at h
      obtain ⟨rfl, _⟩ := h; rfl
    · simp only [sink] at h; split at h <;> simp at h
    · simp at h

theorem winInit_wf (cap buf : Nat) (st0 xs : List Int) (p : Nat) : WF (winNet f cap buf) (winInit st0 xs p) := by
  intro q c h
  simp only [winInit] at h
  split at h <;> simp at h

theorem winNet_larger (cap buf p : Nat) (hb : p ≤ buf) : Larger (winNet f 0 p) (winNet f cap buf) := by
  constructor
  · rfl
  · intro c
    simp only [winNet]
    split <;> omega

/-- **every window pipeline terminates cleanly and delivers `winOuts` — for every stateful closure `f`, every initial
    closure state, every input, every period `p ≥ 1`, every input-channel capacity, every Shift buffer ≥ p and every
    schedule:** every execution has at most `bound` steps, and any execution that can go no further has every process
    finished, every channel closed and empty, and has delivered exactly the closure's results (minus the first `p − 1`)
    to the independent reader. -/
theorem window_terminates_cleanly (f : List Int → Int → Int → List Int × Int) (st0 : List Int) (xs : List Int)
    (p cap buf : Nat) (hp : 1 ≤ p) (hb : p ≤ buf) :
    ∃ bound, ∀ t s2, run (winNet f cap buf) t (winInit st0 xs p) = some s2 →
      t.length ≤ bound ∧
      (Terminal (winNet f cap buf) s2 →
        AllHalted (winNet f cap buf) s2 ∧ (∀ c, s2.chans c = ([], true) ∨ 6 ≤ c) ∧
        (s2.procs 5).1.reg = (winOuts f st0 (List.replicate p 0) xs).drop (p - 1)) := by
  obtain ⟨t0, h0⟩ := win_canonical f st0 xs p hp
  have hL := winNet_larger f cap buf p hb
  have hO := winNet_owned f cap buf
  have hW := winInit_wf f cap buf st0 xs p
  obtain ⟨t', e', hr, hRe, hlen⟩ := capacity_mono _ _ hL t0 _ _ _ (rel_refl _) h0
  have hH' : AllHalted (winNet f cap buf) e' := rel_allHalted _ _ hL _ _ hRe (FM_allHalted_win f 0 p _)
  refine ⟨t0.length, fun t s2 h2 => ⟨?_, fun hT => ?_⟩⟩
  · have := no_longer_schedule _ hO t' t _ e' s2 hW hr (allHalted_terminal _ _ hH') h2
    omega
  · obtain ⟨hA, hC, hP⟩ :=
      clean_termination_for_larger_capacities _ _ hO hL t0 _ _ hW h0 (FM_allHalted_win f 0 p _) t s2 h2 hT
    refine ⟨hA, fun c => ?_, ?_⟩
    · rw [hC]
      match c with
      | 0 | 1 | 2 | 3 | 4 | 5 => left; simp [FM]
      | n + 6 => right; omega
    · rw [hP 5]; simp [FM]

/-- the library's own buffering: `Shift` allocates `cap(input) + p` -/
theorem window_library_buffers (f : List Int → Int → Int → List Int × Int) (st0 xs : List Int) (p cap : Nat)
    (hp : 1 ≤ p) :
    ∃ bound, ∀ t s2, run (winNet f cap (cap + p)) t (winInit st0 xs p) = some s2 →
      t.length ≤ bound ∧ (Terminal (winNet f cap (cap + p)) s2 → AllHalted (winNet f cap (cap + p)) s2) := by
  obtain ⟨b, h⟩ := window_terminates_cleanly f st0 xs p cap (cap + p) hp (by omega)
  exact ⟨b, fun t s2 h2 => ⟨(h t s2 h2).1, fun hT => ((h t s2 h2).2 hT).1⟩⟩

/-! ### instance (a): the running sum — the general theorem subsumes `movingSum_terminates_cleanly` -/

theorem winOuts_sumStepW (s : Int) (q xs : List Int) : winOuts sumStepW [s] q xs = sums s q xs := by
  induction xs generalizing s q with
  | nil => cases q <;> simp [winOuts, sums]
  | cons x rest ih =>
    cases q with
    | nil => simp [winOuts, sums]
    | cons y q => simp [winOuts, sums, sumStepW, ih]

/-- `trend.MovingSum` as the instance `f := sumStepW`, `st0 := [0]` of the general theorem -/
theorem movingSum_as_window (xs : List Int) (p cap buf : Nat) (hp : 1 ≤ p) (hb : p ≤ buf) :
    ∃ bound, ∀ t s2, run (winNet sumStepW cap buf) t (winInit [0] xs p) = some s2 →
      t.length ≤ bound ∧
      (Terminal (winNet sumStepW cap buf) s2 →
        AllHalted (winNet sumStepW cap buf) s2 ∧ (∀ c, s2.chans c = ([], true) ∨ 6 ≤ c) ∧
        (s2.procs 5).1.reg = Sig.evalL [xs] (Ind.movingSum p (Sig.input 0))) := by
  obtain ⟨b, h⟩ := window_terminates_cleanly sumStepW [0] xs p cap buf hp hb
  refine ⟨b, fun t s2 h2 => ⟨(h t s2 h2).1, fun hT => ?_⟩⟩
  obtain ⟨hA, hC, hR⟩ := (h t s2 h2).2 hT
  exact ⟨hA, hC, by rw [hR, winOuts_sumStepW, sums_eq_movingSum p hp xs]⟩

/-! ### instance (b): moving maximum / minimum (`trend.MovingMax`, `trend.MovingMin`) -/

/-- `trend.MovingMax` terminates cleanly: the instance `f := maxStep p`, initial state `[0]` (nothing inserted) -/
theorem movingMax_terminates_cleanly (xs : List Int) (p cap buf : Nat) (hp : 1 ≤ p) (hb : p ≤ buf) :
    ∃ bound, ∀ t s2, run (winNet (maxStep p) cap buf) t (winInit [0] xs p) = some s2 →
      t.length ≤ bound ∧
      (Terminal (winNet (maxStep p) cap buf) s2 →
        AllHalted (winNet (maxStep p) cap buf) s2 ∧ (∀ c, s2.chans c = ([], true) ∨ 6 ≤ c) ∧
        (s2.procs 5).1.reg = (winOuts (maxStep p) [0] (List.replicate p 0) xs).drop (p - 1)) :=
  window_terminates_cleanly (maxStep p) [0] xs p cap buf hp hb

/-- `trend.MovingMin` terminates cleanly: the instance `f := minStep p`, initial state `[0]` -/
theorem movingMin_terminates_cleanly (xs : List Int) (p cap buf : Nat) (hp : 1 ≤ p) (hb : p ≤ buf) :
    ∃ bound, ∀ t s2, run (winNet (minStep p) cap buf) t (winInit [0] xs p) = some s2 →
      t.length ≤ bound ∧
      (Terminal (winNet (minStep p) cap buf) s2 →
        AllHalted (winNet (minStep p) cap buf) s2 ∧ (∀ c, s2.chans c = ([], true) ∨ 6 ≤ c) ∧
        (s2.procs 5).1.reg = (winOuts (minStep p) [0] (List.replicate p 0) xs).drop (p - 1)) :=
  window_terminates_cleanly (minStep p) [0] xs p cap buf hp hb

/-- the successive windows: append the new value, drop the oldest one once `p` values are held -/
def wins (p : Nat) : List Int → List Int → List (List Int)
  | _, [] => []
  | w, x :: rest =>
    (if w.length < p then w ++ [x] else (w ++ [x]).tail)
      :: wins p (if w.length < p then w ++ [x] else (w ++ [x]).tail) rest

/-- with the shifted queue holding the fill values still to come followed by the window, the closure's results are `g`
    of the successive windows -/
theorem winOuts_pickStep (g : List Int → Int) (p : Nat) (hp : 1 ≤ p) (xs w q : List Int) (hw : w.length ≤ p)
    (hq : q = List.replicate (p - w.length) 0 ++ w) :
    winOuts (pickStep g p) ((w.length : Int) :: w) q xs = (wins p w xs).map g := by
  induction xs generalizing w q with
  | nil => cases q <;> simp [winOuts, wins]
  | cons x rest ih =>
    by_cases hlt : w.length < p
    · obtain ⟨k, hk⟩ : ∃ k, p - w.length = k + 1 := ⟨p - w.length - 1, by omega⟩
      have hc : (w.length : Int) < (p : Int) := by omega
      rw [hk, List.replicate_succ] at hq
      subst hq
      have e1 : (↑w.length + 1 : Int) = (((w ++ [x]).length : Nat) : Int) := by simp
      have e2 : List.replicate k 0 ++ w ++ [x] = List.replicate (p - (w ++ [x]).length) 0 ++ (w ++ [x]) := by
        have : p - (w ++ [x]).length = k := by simp; omega
        rw [this]; simp
      simp only [List.cons_append, winOuts, wins, pickStep, windowStep, List.headD_cons, List.tail_cons, hc, hlt,
        if_true, List.map_cons]
      rw [e1, ih (w ++ [x]) _ (by simp; omega) e2]
    · have hl : w.length = p := by omega
      have hc : ¬ ((w.length : Int) < (p : Int)) := by omega
      have h0 : p - w.length = 0 := by omega
      rw [h0] at hq
      simp only [List.replicate_zero, List.nil_append] at hq
      subst q
      cases w with
      | nil => simp at hl; omega
      | cons y w0 =>
        have e1 : (((y :: w0).length : Nat) : Int) = (((w0 ++ [x]).length : Nat) : Int) := by simp
        have e2 : w0 ++ [x] = List.replicate (p - (w0 ++ [x]).length) 0 ++ (w0 ++ [x]) := by
          have : p - (w0 ++ [x]).length = 0 := by simp at hl ⊢; omega
          rw [this]; simp
        simp only [winOuts, wins, pickStep, windowStep, List.headD_cons, List.tail_cons, hc, hlt,
          if_false, List.map_cons, List.cons_append, List.erase_cons_head]
        rw [e1, ih (w0 ++ [x]) _ (by simp at hl ⊢; omega) e2]

theorem wins_eq (p : Nat) (hp : 1 ≤ p) (xs w : List Int) (hw : w.length ≤ p) :
    wins p w xs = (List.range xs.length).map
      (fun i => ((w ++ xs).take (w.length + i + 1)).drop (w.length + i + 1 - p)) := by
  induction xs generalizing w with
  | nil => simp [wins]
  | cons x rest ih =>
    rw [List.length_cons, List.range_succ_eq_map, List.map_cons, List.map_map, wins]
    by_cases hlt : w.length < p
    · simp only [hlt, if_true]
      rw [ih (w ++ [x]) (by simp; omega)]
      congr 1
      · have : w.length + 0 + 1 - p = 0 := by omega
        rw [this, List.drop_zero]
        have : w.length + 0 + 1 = (w ++ [x]).length := by simp
        rw [this, show w ++ x :: rest = (w ++ [x]) ++ rest by simp, List.take_left]
      · apply List.map_congr_left
        intro i _
        simp only [Function.comp, List.length_append, List.length_cons, List.length_nil, List.append_assoc,
          List.cons_append, List.nil_append]
        rw [show w.length + (0 + 1) + i + 1 = w.length + i.succ + 1 by omega]
    · have hl : w.length = p := by omega
      simp only [hlt, if_false]
      cases w with
      | nil => simp at hl; omega
      | cons y w0 =>
        simp only [List.cons_append, List.tail_cons]
        rw [ih (w0 ++ [x]) (by simp at hl ⊢; omega)]
        simp only [List.length_cons] at hl
        congr 1
        · have : w0.length + 1 + 0 + 1 - p = 1 := by omega
          simp only [List.length_cons, this]
          rw [List.take_succ_cons, List.drop_succ_cons, List.drop_zero]
          have : w0.length + 1 + 0 = (w0 ++ [x]).length := by simp
          rw [this, show w0 ++ x :: rest = (w0 ++ [x]) ++ rest by simp, List.take_left]
        · apply List.map_congr_left
          intro i _
          simp only [Function.comp, List.length_append, List.length_cons, List.length_nil, List.append_assoc,
            List.cons_append, List.nil_append]
          rw [show w0.length + 1 + (i + 1) + 1 = (w0.length + (0 + 1) + i + 1) + 1 by omega, List.take_succ_cons,
            show w0.length + (0 + 1) + i + 1 + 1 - p = (w0.length + (0 + 1) + i + 1 - p) + 1 by omega,
            List.drop_succ_cons]

/-- the values delivered by a `pickStep g` pipeline: `g` of every full window `xs[k .. k+p−1]` -/
theorem pick_values (g : List Int → Int) (p : Nat) (hp : 1 ≤ p) (xs : List Int) :
    (winOuts (pickStep g p) [0] (List.replicate p 0) xs).drop (p - 1)
      = (List.range (xs.length + 1 - p)).map (fun k => g ((xs.drop k).take p)) := by
  have h := winOuts_pickStep g p hp xs [] (List.replicate p 0) (by simp) (by simp)
  simp only [List.length_nil, Int.natCast_zero] at h
  rw [h, wins_eq p hp xs [] (by simp)]
  apply List.ext_getElem
  · simp; omega
  · intro i h1 h2
    simp only [List.length_drop, List.length_map, List.length_range] at h1
    simp only [List.getElem_drop, List.getElem_map, List.getElem_range, List.nil_append, List.length_nil,
      Nat.zero_add]
    rw [show p - 1 + i + 1 - p = i by omega, List.drop_take, show p - 1 + i + 1 - i = p by omega]

theorem foldl_max_spec (t : List Int) (h : Int) :
    (t.foldl max h = h ∨ t.foldl max h ∈ t) ∧ h ≤ t.foldl max h ∧ ∀ x ∈ t, x ≤ t.foldl max h := by
  induction t generalizing h with
  | nil => simp
  | cons a t ih =>
    obtain ⟨h1, h2, h3⟩ := ih (max h a)
    simp only [List.foldl_cons, List.mem_cons]
    refine ⟨?_, by omega, ?_⟩
    · rcases h1 with h1 | h1
      · rw [h1]; omega
      · exact Or.inr (Or.inr h1)
    · intro x hx
      rcases hx with rfl | hx
      · omega
      · exact h3 x hx

theorem foldl_min_spec (t : List Int) (h : Int) :
    (t.foldl min h = h ∨ t.foldl min h ∈ t) ∧ t.foldl min h ≤ h ∧ ∀ x ∈ t, t.foldl min h ≤ x := by
  induction t generalizing h with
  | nil => simp
  | cons a t ih =>
    obtain ⟨h1, h2, h3⟩ := ih (min h a)
    simp only [List.foldl_cons, List.mem_cons]
    refine ⟨?_, by omega, ?_⟩
    · rcases h1 with h1 | h1
      · rw [h1]; omega
      · exact Or.inr (Or.inr h1)
    · intro x hx
      rcases hx with rfl | hx
      · omega
      · exact h3 x hx

/-- `lmax` of a non-empty list is its maximum -/
theorem lmax_spec (l : List Int) (hl : l ≠ []) : lmax l ∈ l ∧ ∀ x ∈ l, x ≤ lmax l := by
  cases l with
  | nil => exact absurd rfl hl
  | cons h t =>
    obtain ⟨h1, h2, h3⟩ := foldl_max_spec t h
    simp only [lmax, List.mem_cons]
    refine ⟨by rcases h1 with h1 | h1 <;> simp [h1], ?_⟩
    intro x hx
    rcases hx with rfl | hx
    · exact h2
    · exact h3 x hx

/-- `lmin` of a non-empty list is its minimum -/
theorem lmin_spec (l : List Int) (hl : l ≠ []) : lmin l ∈ l ∧ ∀ x ∈ l, lmin l ≤ x := by
  cases l with
  | nil => exact absurd rfl hl
  | cons h t =>
    obtain ⟨h1, h2, h3⟩ := foldl_min_spec t h
    simp only [lmin, List.mem_cons]
    refine ⟨by rcases h1 with h1 | h1 <;> simp [h1], ?_⟩
    intro x hx
    rcases hx with rfl | hx
    · exact h2
    · exact h3 x hx

/-- **the values of `trend.MovingMax`**: the k-th delivered value is the maximum (`lmax`, see `lmax_spec`) of
    `xs[k .. k+p−1]`, one value for every full window -/
theorem movingMax_values (p : Nat) (hp : 1 ≤ p) (xs : List Int) :
    (winOuts (maxStep p) [0] (List.replicate p 0) xs).drop (p - 1)
      = (List.range (xs.length + 1 - p)).map (fun k => lmax ((xs.drop k).take p)) :=
  pick_values lmax p hp xs

/-- **the values of `trend.MovingMin`** -/
theorem movingMin_values (p : Nat) (hp : 1 ≤ p) (xs : List Int) :
    (winOuts (minStep p) [0] (List.replicate p 0) xs).drop (p - 1)
      = (List.range (xs.length + 1 - p)).map (fun k => lmin ((xs.drop k).take p)) :=
  pick_values lmin p hp xs

example : NetM.winRun (maxStep 3) [0] 0 3 3 [1, 5, 3, 4, 2, 6] = (true, true, [5, 5, 4, 6]) := by decide
example : NetM.winRun (minStep 3) [0] 1 4 3 [1, 5, 3, 4, 2, 6] = (true, true, [1, 3, 2, 2]) := by decide
example : NetM.winRun sumStepW [0] 0 3 3 [1, 2, 3, 4, 5, 6] = (true, true, [6, 9, 12, 15]) := by decide
/-- with a Shift buffer two short of the period the same pipeline deadlocks on unbuffered channels -/
example : NetM.winRun (maxStep 3) [0] 0 1 3 [1, 5, 3, 4, 2, 6] = (true, false, []) := by decide

end C03
