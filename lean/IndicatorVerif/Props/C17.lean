import IndicatorVerif.Proofs.Ring
/-
  C17 — ring buffer = bounded FIFO that overwrites its oldest element; search tree = multiset.
  RingBuf part: for every capacity ≥ 1 and every history of put/get/at/isFull/isEmpty the
  observations are those of the list specification `RingBuf.specStep`.
  (Search-tree part: Props/C17 `bst_*`, see Proofs/Bst.lean.)
-/
namespace C17

/-- every history on a new ring of any capacity ≥ 1 is a history of the bounded FIFO -/
theorem ring_refines_fifo {α : Type} (zero : α) (cap : Nat) (hcap : 0 < cap) (ops : List (RingBuf.Op α)) :
    RingBuf.run (RingBuf.new zero cap) ops = RingBuf.specRun cap [] ops :=
  RingBuf.run_new_refines zero cap hcap ops

/-- put on a full ring returns the displaced oldest element and keeps the newest `cap` elements -/
theorem ring_put {α : Type} (r : RingBuf α) (x : α) (h : RingBuf.Inv r) :
    (r.put x).1.toList = (if r.isFull then r.toList.tail else r.toList) ++ [x] ∧
    (r.isFull = true → some (r.put x).2 = r.toList.head?) :=
  ⟨(RingBuf.put_spec r x h).2, RingBuf.put_returns_oldest r x h⟩

/-- get returns the oldest element -/
theorem ring_get {α : Type} (r : RingBuf α) (h : RingBuf.Inv r) (y : α) (ys : List α) (hl : r.toList = y :: ys) :
    (r.get).2 = some y ∧ (r.get).1.toList = ys :=
  ⟨((RingBuf.get_spec r h).2 y ys hl).1, ((RingBuf.get_spec r h).2 y ys hl).2.1⟩

/-- positional reads count from the oldest element -/
theorem ring_at {α : Type} (r : RingBuf α) (i : Nat) (hi : i < r.count) :
    r.atIdx i = r.toList[i]'(by simpa [RingBuf.toList] using hi) :=
  RingBuf.atIdx_eq r i hi

theorem ring_flags {α : Type} (r : RingBuf α) (h : RingBuf.Inv r) :
    (r.isFull = true ↔ r.toList.length = r.buffer.length) ∧ (r.isEmpty = true ↔ r.toList = []) := by
  refine ⟨?_, RingBuf.isEmpty_iff r h⟩
  rw [RingBuf.toList_length]; exact RingBuf.isFull_iff r h

/-! non-vacuity: a concrete history on a concrete ring (capacity 2): put 1, put 2, put 3, get -/
example : RingBuf.run (RingBuf.new (0 : Nat) 2) [.put 1, .put 2, .put 3, .get, .isFull, .at 0]
    = [.displaced none, .displaced none, .displaced (some 1), .got (some 2), .flag false, .value (some 3)] := by
  decide

end C17
