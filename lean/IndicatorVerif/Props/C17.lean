import IndicatorVerif.Proofs.Ring
/-
  C17 — ring buffer = bounded FIFO that overwrites its oldest element; search tree = multiset.
  Ring part: for every capacity ≥ 1 and every history of put/get/at/isFull/isEmpty the
  observations are those of the list specification `Ring.specStep`.
  (Search-tree part: Props/C17 `bst_*`, see Proofs/Bst.lean.)
-/
namespace C17

/-- every history on a new ring of any capacity ≥ 1 is a history of the bounded FIFO -/
theorem ring_refines_fifo {α : Type} (zero : α) (cap : Nat) (hcap : 0 < cap) (ops : List (Ring.Op α)) :
    Ring.run (Ring.new zero cap) ops = Ring.specRun cap [] ops :=
  Ring.run_new_refines zero cap hcap ops

/-- put on a full ring returns the displaced oldest element and keeps the newest `cap` elements -/
theorem ring_put {α : Type} (r : Ring α) (x : α) (h : Ring.Inv r) :
    (r.put x).1.toList = (if r.isFull then r.toList.tail else r.toList) ++ [x] ∧
    (r.isFull = true → some (r.put x).2 = r.toList.head?) :=
  ⟨(Ring.put_spec r x h).2, Ring.put_returns_oldest r x h⟩

/-- get returns the oldest element -/
theorem ring_get {α : Type} (r : Ring α) (h : Ring.Inv r) (y : α) (ys : List α) (hl : r.toList = y :: ys) :
    (r.get).2 = some y ∧ (r.get).1.toList = ys :=
  ⟨((Ring.get_spec r h).2 y ys hl).1, ((Ring.get_spec r h).2 y ys hl).2.1⟩

/-- positional reads count from the oldest element -/
theorem ring_at {α : Type} (r : Ring α) (i : Nat) (hi : i < r.count) :
    r.atIdx i = r.toList[i]'(by simpa [Ring.toList] using hi) :=
  Ring.atIdx_eq r i hi

theorem ring_flags {α : Type} (r : Ring α) (h : Ring.Inv r) :
    (r.isFull = true ↔ r.toList.length = r.buffer.length) ∧ (r.isEmpty = true ↔ r.toList = []) := by
  refine ⟨?_, Ring.isEmpty_iff r h⟩
  rw [Ring.toList_length]; exact Ring.isFull_iff r h

/-! non-vacuity: a concrete history on a concrete ring (capacity 2): put 1, put 2, put 3, get -/
example : Ring.run (Ring.new (0 : Nat) 2) [.put 1, .put 2, .put 3, .get, .isFull, .at 0]
    = [.displaced none, .displaced none, .displaced (some 1), .got (some 2), .flag false, .value (some 3)] := by
  decide

end C17
