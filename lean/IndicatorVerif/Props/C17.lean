import IndicatorVerif.Proofs.Ring
import IndicatorVerif.Proofs.Bst
/-
  C17 — ring buffer = bounded FIFO that overwrites its oldest element; search tree = multiset.
  RingBuf part: for every capacity ≥ 1 and every history of put/get/at/isFull/isEmpty the
  observations are those of the list specification `RingBuf.specStep`.
  Search tree: for a lawful order every history of insert/remove/contains/min/max on the model of the pointer
  algorithm produces the observations of a sorted list (a multiset): `bst_refines_sorted_list`.
-/
namespace C17

/-- every history on a new ring of any capacity ≥ 1 is a history of the bounded FIFO -/
theorem ring_refines_fifo {α : Type} (zero : α) (cap : Nat) (hcap : 0 < cap) (ops : List (RingBuf.Op α)) :
    RingBuf.run (RingBuf.new zero cap) ops = RingBuf.specRun cap [] ops :=
  RingBuf.run_new_refines zero cap hcap ops

/-- put on a full ring returns the displaced oldest element and keeps the newest `cap` elements -/
theorem ring_put {α : Type} (r : RingBuf α) (x : α) (h : RingBuf.Inv r) :
    (r.put x).1.toList = (if r.isFull then r.toList.tail else r.toList) ++ [x] ∧
    (r.isFull = true → some (r.put x).2 = r.toList.head?) :=
  ⟨(RingBuf.put_spec r x h).2, RingBuf.put_returns_oldest r x h⟩

/-- get returns the oldest element -/
theorem ring_get {α : Type} (r : RingBuf α) (h : RingBuf.Inv r) (y : α) (ys : List α) (hl : r.toList = y :: ys) :
    (r.get).2 = some y ∧ (r.get).1.toList = ys :=
  ⟨((RingBuf.get_spec r h).2 y ys hl).1, ((RingBuf.get_spec r h).2 y ys hl).2.1⟩

/-- positional reads count from the oldest element -/
theorem ring_at {α : Type} (r : RingBuf α) (i : Nat) (hi : i < r.count) :
    r.atIdx i = r.toList[i]'(by simpa [RingBuf.toList] using hi) :=
  RingBuf.atIdx_eq r i hi

theorem ring_flags {α : Type} (r : RingBuf α) (h : RingBuf.Inv r) :
    (r.isFull = true ↔ r.toList.length = r.buffer.length) ∧ (r.isEmpty = true ↔ r.toList = []) := by
  refine ⟨?_, RingBuf.isEmpty_iff r h⟩
  rw [RingBuf.toList_length]; exact RingBuf.isFull_iff r h

/-! non-vacuity: a concrete history on a concrete ring (capacity 2): put 1, put 2, put 3, get -/
example : RingBuf.run (RingBuf.new (0 : Nat) 2) [.put 1, .put 2, .put 3, .get, .isFull, .at 0]
    = [.displaced none, .displaced none, .displaced (some 1), .got (some 2), .flag false, .value (some 3)] := by
  decide

/-! ### search tree -/
open Bst in
/-- the abstract specification: a sorted list (a multiset of keys) -/
def bstSpecStep {α : Type} [LinearOrder α] (zero : α) (sl : List α) : Bst.Op α → List α × Bst.Obs α
  | .ins x => (sl.orderedInsert (· ≤ ·) x, .unit)
  | .rem x => (sl.erase x, .flag (decide (x ∈ sl)))
  | .has x => (sl, .flag (decide (x ∈ sl)))
  | .min => (sl, .val (sl.head?.getD zero))
  | .max => (sl, .val (sl.getLast?.getD zero))

def bstSpecRun {α : Type} [LinearOrder α] (zero : α) : List α → List (Bst.Op α) → List (Bst.Obs α)
  | _, [] => []
  | sl, op :: ops => let (sl', o) := bstSpecStep zero sl op; o :: bstSpecRun zero sl' ops

/-- one step: the tree stays ordered, its in-order contents follow the sorted-list specification, same observation -/
theorem bst_step {α : Type} [LinearOrder α] (c : Cmp α) (hc : Bst.Lawful c) (zero : α) (t : BTree α) (op : Bst.Op α)
    (h : Bst.Ordered t) :
    Bst.Ordered (Bst.stepOp c zero t op).1 ∧
    (Bst.stepOp c zero t op).1.toList = (bstSpecStep zero t.toList op).1 ∧
    (Bst.stepOp c zero t op).2 = (bstSpecStep zero t.toList op).2 := by
  have hs := (Bst.ordered_iff_sorted t).mp h
  cases op with
  | ins x =>
    have ho := Bst.insert_ordered c hc x t h
    refine ⟨ho, ?_, rfl⟩
    exact List.Perm.eq_of_pairwise' ((Bst.ordered_iff_sorted _).mp ho) (hs.orderedInsert x _)
      ((Bst.insert_perm c x t).trans (List.perm_orderedInsert _ x _).symm)
  | rem x =>
    have ho := Bst.remove_ordered c hc x t h
    obtain ⟨e1, e2⟩ := Bst.remove_spec c hc x t h
    refine ⟨ho, ?_, by simp [Bst.stepOp, bstSpecStep, e1]⟩
    exact List.Perm.eq_of_pairwise' ((Bst.ordered_iff_sorted _).mp ho) (hs.sublist (List.erase_sublist)) e2
  | has x =>
    refine ⟨h, rfl, ?_⟩
    simp only [Bst.stepOp, bstSpecStep]
    congr 1
    have := Bst.contains_iff c hc x t h
    by_cases hx : x ∈ t.toList
    · simp [hx, this.mpr hx]
    · have : Bst.contains c x t = false := by
        cases hcnt : Bst.contains c x t with
        | false => rfl
        | true => exact absurd (this.mp hcnt) hx
      simp [hx, this]
  | min => exact ⟨h, rfl, by simp [Bst.stepOp, bstSpecStep, Bst.minD, Bst.min?_eq_head]⟩
  | max => exact ⟨h, rfl, by simp [Bst.stepOp, bstSpecStep, Bst.maxD, Bst.max?_eq_getLast]⟩

/-- **every history on the search tree is a history of the sorted-list (multiset) specification** -/
theorem bst_refines_sorted_list {α : Type} [LinearOrder α] (c : Cmp α) (hc : Bst.Lawful c) (zero : α)
    (t : BTree α) (h : Bst.Ordered t) (ops : List (Bst.Op α)) :
    Bst.run c zero t ops = bstSpecRun zero t.toList ops := by
  induction ops generalizing t with
  | nil => rfl
  | cons op ops ih =>
    obtain ⟨h1, h2, h3⟩ := bst_step c hc zero t op h
    simp only [Bst.run, bstSpecRun]
    rw [h3, ih _ h1, h2]

theorem bst_refines_from_empty {α : Type} [LinearOrder α] (c : Cmp α) (hc : Bst.Lawful c) (zero : α) (ops : List (Bst.Op α)) :
    Bst.run c zero .nil ops = bstSpecRun zero [] ops :=
  bst_refines_sorted_list c hc zero .nil trivial ops

/-- the specification state is always sorted, and min / max are its least / greatest element -/
theorem bst_min_is_least {α : Type} [LinearOrder α] (t : BTree α) (h : Bst.Ordered t) (m : α) (hm : Bst.min? t = some m) :
    m ∈ t.toList ∧ ∀ y ∈ t.toList, m ≤ y := by
  rw [Bst.min?_eq_head] at hm
  have hs := (Bst.ordered_iff_sorted t).mp h
  cases hl : t.toList with
  | nil => simp [hl] at hm
  | cons a b =>
    simp only [hl, List.head?_cons, Option.some.injEq] at hm; subst hm
    rw [hl] at hs
    refine ⟨by simp, ?_⟩
    intro y hy
    rcases List.mem_cons.mp hy with rfl | hy
    · exact le_refl _
    · exact (List.pairwise_cons.mp hs).1 y hy

/-- Go's integer comparisons are lawful -/
theorem intCmp_lawful : Bst.Lawful Bst.intCmp :=
  ⟨fun a b => by simp [Bst.intCmp], fun a b => by simp [Bst.intCmp], fun a b => by simp [Bst.intCmp]⟩

/-! non-vacuity: a concrete history with duplicates and removals -/
example : Bst.run Bst.intCmp 0 .nil [.ins 5, .ins 3, .ins 5, .has 3, .rem 5, .has 5, .min, .max, .rem 9, .rem 5, .has 5]
    = [.unit, .unit, .unit, .flag true, .flag true, .flag true, .val 3, .val 5, .flag false, .flag true, .flag false] := by
  decide

end C17
