import IndicatorVerif.Model.Assets
/-
  C10 — repositories behave as a map from asset name to the ordered list of snapshots appended so far.
  `Spec` = a function `String → Option (List Snap)`.  The in-memory repository (and the file-system one
  at row level; its bytes are C11) refines it exactly; the SQL repository over a conforming table refines
  it on every asset that has been appended, and — as written — reads a never-appended asset as an empty
  success (known finding, `sql_get_unknown_is_empty_success`).
-/
namespace C10
open Repo

/-- the abstract map and its operations -/
abbrev Spec := String → Option (List Snap)
def Spec.append (m : Spec) (n : String) (xs : List Snap) : Spec :=
  fun k => if k = n then some ((m n).getD [] ++ xs) else m k

def abs (s : Store) : Spec := fun n => lookup s n

theorem lookup_append (s : Store) (n m : String) (xs : List Snap) :
    lookup (append s n xs) m = if m = n then some ((lookup s n).getD [] ++ xs) else lookup s m := by
  induction s with
  | nil =>
    by_cases h : m = n
    · subst h; simp [append, lookup]
    · have : ¬ (n = m) := fun hh => h hh.symm
      simp [append, lookup, h, this]
  | cons p t ih =>
    obtain ⟨k, v⟩ := p
    by_cases hk : k = n
    · subst hk
      by_cases h : m = k
      · subst h; simp [append, lookup]
      · have : ¬ (k = m) := fun hh => h hh.symm
        simp [append, lookup, h, this]
    · by_cases h : m = n
      · subst h
        simp [append, lookup, hk, ih]
      · by_cases hkm : k = m
        · subst hkm; simp [append, lookup, hk, h]
        · simp [append, lookup, hk, hkm, ih, h]

/-- Append is the map update; nothing else changes the state -/
theorem abs_append (s : Store) (n : String) (xs : List Snap) :
    abs (append s n xs) = Spec.append (abs s) n xs := by
  funext m; simp [abs, Spec.append, lookup_append]

/-- **In-memory / file-system (row level) refine the map**: every read observation is the map's -/
theorem mem_observations (s : Store) (n : String) (d : Nat) :
    (memStep s (.get n)).2 = .snaps (abs s n) ∧
    (memStep s (.since n d)).2 = .snaps ((abs s n).map (sinceF d)) ∧
    (memStep s (.last n)).2 = .day ((abs s n).bind (fun l => l.getLast?.map (·.day))) := ⟨rfl, rfl, rfl⟩

/-- read-your-writes: an Append that has returned is visible to the next Get -/
theorem mem_read_your_writes (s : Store) (n : String) (xs : List Snap) :
    lookup (memStep s (.append n xs)).1 n = some ((lookup s n).getD [] ++ xs) := by
  simp [memStep, lookup_append]

/-- all histories: the observations of the in-memory model are those of the abstract map -/
def specStep (m : Spec) (keys : List String) : Op → (Spec × List String) × Obs
  | .append n xs => ((Spec.append m n xs, if keys.contains n then keys else keys ++ [n]), .done)
  | .get n => ((m, keys), .snaps (m n))
  | .since n d => ((m, keys), .snaps ((m n).map (sinceF d)))
  | .last n => ((m, keys), .day ((m n).bind (fun l => l.getLast?.map (·.day))))
  | .assets => ((m, keys), .names (sortNames keys))

def specRun (m : Spec) (keys : List String) : List Op → List Obs
  | [] => []
  | op :: ops => let (st, o) := specStep m keys op; o :: specRun st.1 st.2 ops

theorem keys_append (s : Store) (n : String) (xs : List Snap) :
    (append s n xs).map (·.1) = if (s.map (·.1)).contains n then s.map (·.1) else s.map (·.1) ++ [n] := by
  induction s with
  | nil => simp [append]
  | cons p t ih =>
    obtain ⟨k, v⟩ := p
    by_cases hk : k = n
    · subst hk; simp [append]
    · have hnk : ¬ (n = k) := fun h => hk h.symm
      simp only [append, List.map_cons, List.contains_cons]
      have h1 : (k == n) = false := by simp [hk]
      have h2 : (n == k) = false := by simp [hnk]
      simp only [h1, h2, Bool.false_eq_true, if_false, Bool.false_or, List.map_cons, ih]
      split <;> simp

theorem mem_refines (ops : List Op) : ∀ (s : Store), runMem s ops = specRun (abs s) (s.map (·.1)) ops := by
  induction ops with
  | nil => intro s; rfl
  | cons op ops ih =>
    intro s
    cases op with
    | append n xs =>
      simp only [runMem, specRun, memStep, specStep]
      rw [ih, abs_append, keys_append]
    | get n => simp only [runMem, specRun, memStep, specStep, ih]; rfl
    | since n d => simp only [runMem, specRun, memStep, specStep, ih]; rfl
    | last n => simp only [runMem, specRun, memStep, specStep, ih]; rfl
    | assets => simp only [runMem, specRun, memStep, specStep, ih]

/-! ### SQL over a conforming table -/
def Rel (t : Table) (m : Spec) : Prop := ∀ n, rowsOf t n = (m n).getD []

theorem rowsOf_append (t : Table) (n m : String) (xs : List Snap) :
    rowsOf (t ++ xs.map (fun x => (n, x))) m = rowsOf t m ++ (if m = n then xs else []) := by
  simp only [rowsOf, List.filter_append, List.map_append]
  congr 1
  by_cases h : m = n
  · subst h
    simp only [if_true]
    induction xs with
    | nil => rfl
    | cons x t ih => simp [List.filter, ih]
  · simp only [h, if_false]
    induction xs with
    | nil => rfl
    | cons x t ih =>
      have : ((n, x).1 == m) = false := by simp; exact fun hh => h hh.symm
      simp [List.filter, this, ih]

theorem sql_rel_append (t : Table) (m : Spec) (h : Rel t m) (n : String) (xs : List Snap) :
    Rel (sqlStep t (.append n xs)).1 (Spec.append m n xs) := by
  intro k
  simp only [sqlStep, rowsOf_append, Spec.append, h k]
  by_cases hk : k = n
  · subst hk; simp
  · simp [hk]

/-- on an asset that has been appended the SQL reads are the map's reads -/
theorem sql_observations (t : Table) (m : Spec) (h : Rel t m) (n : String) (d : Nat) (l : List Snap) (hl : m n = some l) :
    (sqlStep t (.get n)).2 = .snaps (m n) ∧
    (sqlStep t (.since n d)).2 = .snaps ((m n).map (sinceF d)) ∧
    (sqlStep t (.last n)).2 = .day ((m n).bind (fun l => l.getLast?.map (·.day))) := by
  simp [sqlStep, h n, hl]

/-- **Known finding, as-is**: a never-appended asset reads as an empty success instead of an error -/
theorem sql_get_unknown_is_empty_success (t : Table) (m : Spec) (h : Rel t m) (n : String) (hn : m n = none) :
    (sqlStep t (.get n)).2 = .snaps (some []) := by
  simp [sqlStep, h n, hn]

/-! non-vacuity -/
example : runMem [] [.append "x" [⟨1, 1⟩, ⟨2, 2⟩], .get "x", .since "x" 2, .last "x", .get "y", .assets]
    = [.done, .snaps (some [⟨1, 1⟩, ⟨2, 2⟩]), .snaps (some [⟨2, 2⟩]), .day (some 2), .snaps none, .names ["x"]] := by decide

end C10
