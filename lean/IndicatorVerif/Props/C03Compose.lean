import IndicatorVerif.Props.C03Dyn
/-
  C03 — sequential composition of process networks.

  Setting (`Setup`, `Setup.OK`): ONE network `N` whose processes are split into an A-side and a B-side (`isA`), a link
  channel `c`, channels `chA` used only by the A-side and `chB` used only by the B-side.  Statically, an A-side process
  operates on channels of `chA` or sends on / closes `c`; a B-side process operates on channels of `chB` or receives
  from `c`.  Two component networks over the same local-state type:
    `NA` = the A-side of `N` plus an independent reader of `c` at a B-side index `snk` (every other B-side index idle);
    `NB` = a plain producer on `c` at an A-side index `prd` (every other A-side index idle) plus the B-side of `N`.
  The reader and the producer are not constructed but described: `sinkSt xs` / `sinkDone xs` (reading, having
  collected `xs` / finished), `col` (what a reader state has collected), `prodSt xs` / `prodDone`.

  Main theorem `sequential_composition_partial`: if `N`, `NA`, `NB` are `Safe` (C03Dyn) from corresponding initial
  states, ONE run of `NA` ends with every process halted and the reader holding `ys`, and ONE run of `NB` (producer
  loaded with `ys`) ends with every process halted and the link drained, then
    (1) no run of `N` is longer than the two observed runs together,
    (2) every reachable terminal state of `N` has every process halted, the A-side in the final local states of `NA`
        and the B-side in the final local states of `NB`,
    (3) such a state is reachable.
  The link may have any capacity, including 0 (hand-over waits on the link are simulated: the producer of `NB` waits
  exactly when an A-side process of `N` waits on the link; `Safe N` excludes two simultaneous writers).

  Why `_partial` — what is assumed beyond "NA terminates cleanly delivering ys, NB fed with ys terminates cleanly":
    * `hdrain`: in the final state of the `NB` run the queue of the link is empty, i.e. the B-side consumes all of
      `ys` (it does not halt leaving values in a buffered link).  Used once, in `terminal_clean`, to exclude a terminal
      state of `N` with a non-empty link.  (With an unbuffered link it is implied by the producer having halted, but
      that is not proved here.)
    * `Safe S.N s0` is a hypothesis; it is not derived from `Safe NA`, `Safe NB`.
    * static hypotheses about the producer at ALL its local states (`prodRecv`, `prodSendC`, `prodCloseC`: it never
      receives, and sends on / closes only the link), in addition to its behaviour at `prodSt xs` / `prodDone`.
    * `snk` is a B-side index and `prd` an A-side index (`snkB`, `prdA`).
  Nothing else: no bound on capacities, on the number of processes on either side, or on the shape of the two sides.

  Proof: a simulation relation `Sim s sA sB got` between states of `N`, `NA`, `NB` and the list `got` of values the
  B-side has taken from the link (`sim_step`, `sim_run`: every step of `N` is matched by at least one step of `NA` or
  `NB`); that the values sent on the link are, in order, a prefix of `ys`, and all of `ys` once it is closed, comes from
  the determinacy of `NA` (`prefOK_of_reach`); finiteness from `no_longer_schedule'` for `NA` and `NB`; terminal
  states by cases on the link (`terminal_clean`), using `terminal_unique'` for `NA` and `NB`.
  `example_composition` instantiates everything (producer → Pipe | Pipe → reader, all channels unbuffered).
-/
namespace C03
open Net

section StepCases
variable {L V : Type}

/-! ### the five ways a process can move -/

inductive Fired (N : Network L V) (p : Nat) (s : St L V) : St L V → Prop
  | recvSome (d : Nat) (k : Option V → L) (v : V) (rest : List V) (cl : Bool) :
      (s.procs p).2 = none → N.act p (s.procs p).1 = .recv d k → s.chans d = (v :: rest, cl) →
      Fired N p s ⟨upd s.procs p (k (some v), none), upd s.chans d (rest, cl)⟩
  | recvNone (d : Nat) (k : Option V → L) :
      (s.procs p).2 = none → N.act p (s.procs p).1 = .recv d k → s.chans d = ([], true) →
      Fired N p s ⟨upd s.procs p (k none, none), upd s.chans d ([], true)⟩
  | send (d : Nat) (v : V) (k : L) (q : List V) :
      (s.procs p).2 = none → N.act p (s.procs p).1 = .send d v k → s.chans d = (q, false) →
      q.length < max 1 (N.cap d) →
      Fired N p s ⟨upd s.procs p (k, if N.cap d = 0 then some d else none), upd s.chans d (q ++ [v], false)⟩
  | close (d : Nat) (k : L) (q : List V) :
      (s.procs p).2 = none → N.act p (s.procs p).1 = .close d k → s.chans d = (q, false) →
      Fired N p s ⟨upd s.procs p (k, none), upd s.chans d (q, true)⟩
  | sync (d : Nat) (cl : Bool) :
      (s.procs p).2 = some d → s.chans d = ([], cl) →
      Fired N p s ⟨upd s.procs p ((s.procs p).1, none), upd s.chans d ([], cl)⟩

theorem opOf_flag (N : Network L V) (p : Nat) (ps : PS L) (d : Nat) (h : ps.2 = some d) :
    opOf N p ps = .sync d := by
  unfold opOf; simp [h]

theorem fired_step (N : Network L V) (p : Nat) (s s' : St L V) (h : Fired N p s s') : step N p s = some s' := by
  cases h with
  | recvSome d k v rest cl hf ha hc =>
    have ho : opOf N p (s.procs p) = .rd d k := by unfold opOf; simp [hf, ha]
    unfold step; simp [ho, Op.chan, Op.fire, hc]
  | recvNone d k hf ha hc =>
    have ho : opOf N p (s.procs p) = .rd d k := by unfold opOf; simp [hf, ha]
    unfold step; simp [ho, Op.chan, Op.fire, hc]
  | send d v k q hf ha hc hl =>
    have ho : opOf N p (s.procs p) = .snd d v k := by unfold opOf; simp [hf, ha]
    unfold step; simp [ho, Op.chan, Op.fire, hc, hl]
  | close d k q hf ha hc =>
    have ho : opOf N p (s.procs p) = .cls d k := by unfold opOf; simp [hf, ha]
    unfold step; simp [ho, Op.chan, Op.fire, hc]
  | sync d cl hf hc =>
    have ho := opOf_flag N p (s.procs p) d hf
    unfold step; simp [ho, Op.chan, Op.fire, hc]

theorem step_fired (N : Network L V) (p : Nat) (s s' : St L V) (h : step N p s = some s') : Fired N p s s' := by
  obtain ⟨d, ps', cs', hc, hf, rfl⟩ := step_some N p s s' h
  cases hp : (s.procs p).2 with
  | some d0 =>
    have ho := opOf_flag N p (s.procs p) d0 hp
    rw [ho] at hc hf
    simp only [Op.chan, Option.some.injEq] at hc; subst hc
    rcases hcs : s.chans d0 with ⟨q, cl⟩
    cases q with
    | cons x r => simp [Op.fire, hcs] at hf
    | nil =>
      simp only [Op.fire, hcs, Option.some.injEq, Prod.mk.injEq] at hf
      obtain ⟨rfl, rfl⟩ := hf
      exact Fired.sync d0 cl hp hcs
  | none =>
    cases ha : N.act p (s.procs p).1 with
    | recv d1 k =>
      have ho : opOf N p (s.procs p) = .rd d1 k := by unfold opOf; simp [hp, ha]
      rw [ho] at hc hf
      simp only [Op.chan, Option.some.injEq] at hc; subst hc
      rcases hcs : s.chans d1 with ⟨q, cl⟩
      cases q with
      | cons x r =>
        simp only [Op.fire, hcs, Option.some.injEq, Prod.mk.injEq] at hf
        obtain ⟨rfl, rfl⟩ := hf
        exact Fired.recvSome d1 k x r cl hp ha hcs
      | nil =>
        cases cl with
        | false => simp [Op.fire, hcs] at hf
        | true =>
          simp only [Op.fire, hcs, Option.some.injEq, Prod.mk.injEq] at hf
          obtain ⟨rfl, rfl⟩ := hf
          exact Fired.recvNone d1 k hp ha hcs
    | send d1 v k =>
      have ho : opOf N p (s.procs p) = .snd d1 v k := by unfold opOf; simp [hp, ha]
      rw [ho] at hc hf
      simp only [Op.chan, Option.some.injEq] at hc; subst hc
      rcases hcs : s.chans d1 with ⟨q, cl⟩
      cases cl with
      | true => simp [Op.fire, hcs] at hf
      | false =>
        simp only [Op.fire, hcs] at hf
        split at hf
        · rename_i hl
          simp only [Option.some.injEq, Prod.mk.injEq] at hf
          obtain ⟨rfl, rfl⟩ := hf
          exact Fired.send d1 v k q hp ha hcs hl
        · simp at hf
    | close d1 k =>
      have ho : opOf N p (s.procs p) = .cls d1 k := by unfold opOf; simp [hp, ha]
      rw [ho] at hc hf
      simp only [Op.chan, Option.some.injEq] at hc; subst hc
      rcases hcs : s.chans d1 with ⟨q, cl⟩
      cases cl with
      | true => simp [Op.fire, hcs] at hf
      | false =>
        simp only [Op.fire, hcs, Option.some.injEq, Prod.mk.injEq] at hf
        obtain ⟨rfl, rfl⟩ := hf
        exact Fired.close d1 k q hp ha hcs
    | halt =>
      have ho : opOf N p (s.procs p) = .halt := by unfold opOf; simp [hp, ha]
      rw [ho] at hc; simp [Op.chan] at hc

/-- a halted process does not move -/
theorem halted_no_step (N : Network L V) (p : Nat) (s : St L V) (hf : (s.procs p).2 = none)
    (ha : N.act p (s.procs p).1 = .halt) : step N p s = none := by
  unfold step opOf; simp [hf, ha, Op.chan]

/-- the same process in the same local state facing the same channel moves the same way in another network -/
theorem step_transfer (N N' : Network L V) (p : Nat) (s s' : St L V)
    (hps : s'.procs p = s.procs p) (hact : N'.act p (s.procs p).1 = N.act p (s.procs p).1)
    (hcap : ∀ d, N'.cap d = N.cap d)
    (hch : ∀ d, (opOf N p (s.procs p)).chan = some d → s'.chans d = s.chans d) :
    (step N p s = none → step N' p s' = none) ∧
    (∀ a, step N p s = some a → ∃ d ps' cs', (opOf N p (s.procs p)).chan = some d ∧
      a = ⟨upd s.procs p ps', upd s.chans d cs'⟩ ∧
      step N' p s' = some ⟨upd s'.procs p ps', upd s'.chans d cs'⟩) := by
  have ho : opOf N' p (s'.procs p) = opOf N p (s.procs p) := by
    unfold opOf; rw [hps]
    cases (s.procs p).2 <;> simp [hact]
  constructor
  · intro h
    unfold step at h ⊢
    rw [ho]
    cases hc : (opOf N p (s.procs p)).chan with
    | none => simp
    | some d =>
      simp only [hc] at h ⊢
      rw [hcap d, hch d hc, hps]
      cases hf : (opOf N p (s.procs p)).fire (N.cap d) (s.procs p).1 (s.chans d) with
      | none => simp
      | some r => simp [hf] at h
  · intro a h
    obtain ⟨d, ps', cs', hc, hf, rfl⟩ := step_some N p s a h
    refine ⟨d, ps', cs', hc, rfl, ?_⟩
    apply step_of N' p s' d
    · rw [ho]; exact hc
    · rw [ho, hcap d, hch d hc, hps]; exact hf

end StepCases

/-! ### the setting -/

/-- the composed network `N`, its A-side / B-side split, the link channel `c`, and the two component networks:
    `NA` (A-side plus an independent reader `snk` of `c`) and `NB` (a plain producer `prd` on `c` plus the B-side) -/
structure Setup (L V : Type) where
  N : Network L V
  NA : Network L V
  NB : Network L V
  isA : Nat → Bool
  c : Nat
  snk : Nat
  prd : Nat
  chA : Nat → Prop
  chB : Nat → Prop
  /-- the reader's local state while reading, having collected `xs` -/
  sinkSt : List V → L
  /-- the reader's local state after it has seen the end of the stream -/
  sinkDone : List V → L
  /-- what a reader state has collected -/
  col : L → List V
  /-- the producer's local state with `xs` still to send -/
  prodSt : List V → L
  prodDone : L

/-- the static hypotheses ("wiring") -/
structure Setup.OK {L V : Type} (S : Setup L V) : Prop where
  c_notA : ¬ S.chA S.c
  c_notB : ¬ S.chB S.c
  disj : ∀ d, S.chA d → ¬ S.chB d
  -- A-side processes of N: any operation on channels of A, or send / close on the link
  recvA : ∀ p l d k, S.isA p = true → S.N.act p l = .recv d k → S.chA d
  sendA : ∀ p l d v k, S.isA p = true → S.N.act p l = .send d v k → S.chA d ∨ d = S.c
  closeA : ∀ p l d k, S.isA p = true → S.N.act p l = .close d k → S.chA d ∨ d = S.c
  -- B-side processes of N: any operation on channels of B, or receive on the link
  recvB : ∀ p l d k, S.isA p = false → S.N.act p l = .recv d k → S.chB d ∨ d = S.c
  sendB : ∀ p l d v k, S.isA p = false → S.N.act p l = .send d v k → S.chB d
  closeB : ∀ p l d k, S.isA p = false → S.N.act p l = .close d k → S.chB d
  -- the component networks
  capA : ∀ d, S.NA.cap d = S.N.cap d
  capB : ∀ d, S.NB.cap d = S.N.cap d
  snkB : S.isA S.snk = false
  prdA : S.isA S.prd = true
  actNA : ∀ p l, S.isA p = true → S.NA.act p l = S.N.act p l
  haltNA : ∀ p l, S.isA p = false → p ≠ S.snk → S.NA.act p l = .halt
  actNB : ∀ p l, S.isA p = false → S.NB.act p l = S.N.act p l
  haltNB : ∀ p l, S.isA p = true → p ≠ S.prd → S.NB.act p l = .halt
  -- the independent reader
  sinkRun : ∀ xs, S.NA.act S.snk (S.sinkSt xs) =
    .recv S.c (fun r => match r with | some v => S.sinkSt (xs ++ [v]) | none => S.sinkDone xs)
  sinkHalt : ∀ xs, S.NA.act S.snk (S.sinkDone xs) = .halt
  colSt : ∀ xs, S.col (S.sinkSt xs) = xs
  colDone : ∀ xs, S.col (S.sinkDone xs) = xs
  -- the plain producer
  prodSend : ∀ v rest, S.NB.act S.prd (S.prodSt (v :: rest)) = .send S.c v (S.prodSt rest)
  prodClose : S.NB.act S.prd (S.prodSt []) = .close S.c S.prodDone
  prodHalt : S.NB.act S.prd S.prodDone = .halt
  -- statically, the producer does nothing but write the link
  prodRecv : ∀ l d k, S.NB.act S.prd l ≠ .recv d k
  prodSendC : ∀ l d v k, S.NB.act S.prd l = .send d v k → d = S.c
  prodCloseC : ∀ l d k, S.NB.act S.prd l = .close d k → d = S.c

section NAinv
variable {L V : Type} (S : Setup L V)

/-- the reader of `NA` has collected `got` (and if it has finished, the link is closed and empty) -/
def SnkAt (sA : St L V) (got : List V) : Prop :=
  sA.procs S.snk = (S.sinkSt got, none) ∨ (sA.procs S.snk = (S.sinkDone got, none) ∧ sA.chans S.c = ([], true))

/-- invariant of `NA`: the reader is in one of its two shapes, the idle B-side indices stay idle -/
def InvA (sA : St L V) (got : List V) : Prop :=
  SnkAt S sA got ∧ ∀ p, S.isA p = false → p ≠ S.snk → (sA.procs p).2 = none

/-- one step of `NA`: what has been delivered on the link (collected ++ queued) only grows by appending, and not
    at all once the link is closed -/
theorem stepA_inv (h : S.OK) (sA sA' : St L V) (got : List V) (p : Nat) (hI : InvA S sA got)
    (hs : step S.NA p sA = some sA') :
    ∃ got' sfx, InvA S sA' got' ∧ got' ++ (sA'.chans S.c).1 = got ++ (sA.chans S.c).1 ++ sfx ∧
      ((sA.chans S.c).2 = true → sfx = [] ∧ (sA'.chans S.c).2 = true) ∧ (p ≠ S.snk → got' = got) := by
  obtain ⟨hSn, hOth⟩ := hI
  have hF := step_fired S.NA p sA sA' hs
  by_cases hp : p = S.snk
  · -- the reader moves
    subst hp
    rcases hSn with hSt | ⟨hDn, hcl⟩
    · have hact := h.sinkRun got
      cases hF with
      | recvSome d k v rest cl hf ha hc =>
        rw [hSt] at ha; simp only at ha; rw [hact] at ha
        simp only [Act.recv.injEq] at ha
        obtain ⟨rfl, rfl⟩ := ha
        refine ⟨got ++ [v], [], ⟨Or.inl (by simp [upd_same]), ?_⟩, ?_, ?_, fun e => absurd rfl e⟩
        · intro q hq hqs; simp only [upd_other _ _ _ _ hqs]; exact hOth q hq hqs
        · simp [upd_same, hc]
        · intro hcl; simp [upd_same]; simpa [hc] using hcl
      | recvNone d k hf ha hc =>
        rw [hSt] at ha; simp only at ha; rw [hact] at ha
        simp only [Act.recv.injEq] at ha
        obtain ⟨rfl, rfl⟩ := ha
        refine ⟨got, [], ⟨Or.inr ⟨by simp [upd_same], by simp [upd_same]⟩, ?_⟩, ?_, ?_, fun e => absurd rfl e⟩
        · intro q hq hqs; simp only [upd_other _ _ _ _ hqs]; exact hOth q hq hqs
        · simp [upd_same, hc]
        · intro _; simp [upd_same]
      | send d v k q hf ha hc hl => rw [hSt] at ha; simp only at ha; rw [hact] at ha; simp at ha
      | close d k q hf ha hc => rw [hSt] at ha; simp only at ha; rw [hact] at ha; simp at ha
      | sync d cl hf hc => rw [hSt] at hf; simp at hf
    · have hact := h.sinkHalt got
      have := halted_no_step S.NA S.snk sA (by rw [hDn]) (by rw [hDn]; exact hact)
      rw [this] at hs; simp at hs
  · by_cases hA : S.isA p = true
    · -- an A-side process moves: the reader is untouched
      have hsnk : S.snk ≠ p := fun e => hp e.symm
      have key : ∀ (ps' : PS L) (d : Nat) (cs' : CS V) (sfx : List V),
          (d = S.c → cs'.1 = (sA.chans S.c).1 ++ sfx ∧ ((sA.chans S.c).2 = true → sfx = [] ∧ cs' = sA.chans S.c)) →
          (d ≠ S.c → sfx = []) →
          ∃ got' sfx, InvA S ⟨upd sA.procs p ps', upd sA.chans d cs'⟩ got' ∧
            got' ++ ((upd sA.chans d cs') S.c).1 = got ++ (sA.chans S.c).1 ++ sfx ∧
            ((sA.chans S.c).2 = true → sfx = [] ∧ ((upd sA.chans d cs') S.c).2 = true) ∧ (p ≠ S.snk → got' = got) := by
        intro ps' d cs' sfx h1 h2
        refine ⟨got, sfx, ⟨?_, ?_⟩, ?_, ?_, fun _ => rfl⟩
        · rcases hSn with hSt | ⟨hDn, hcl⟩
          · left; simp only [upd_other _ _ _ _ hsnk]; exact hSt
          · right; simp only [upd_other _ _ _ _ hsnk]
            refine ⟨hDn, ?_⟩
            by_cases hd : d = S.c
            · subst hd
              have := (h1 rfl).2 (by rw [hcl])
              simp only [upd_same]; rw [this.2]; exact hcl
            · simp only [upd_other _ _ _ _ (fun e => hd e.symm)]; exact hcl
        · intro q hq hqs
          have : q ≠ p := fun e => by subst e; rw [hA] at hq; simp at hq
          simp only [upd_other _ _ _ _ this]; exact hOth q hq hqs
        · by_cases hd : d = S.c
          · subst hd; simp only [upd_same]; rw [(h1 rfl).1]; simp
          · simp only [upd_other _ _ _ _ (fun e => hd e.symm)]; rw [h2 hd]; simp
        · intro hcl
          by_cases hd : d = S.c
          · subst hd
            have := (h1 rfl).2 hcl
            simp only [upd_same]; rw [this.2]; exact ⟨this.1, hcl⟩
          · simp only [upd_other _ _ _ _ (fun e => hd e.symm)]; exact ⟨h2 hd, hcl⟩
      cases hF with
      | recvSome d k v rest cl hf ha hc =>
        rw [h.actNA p _ hA] at ha
        have hdA := h.recvA p _ d k hA ha
        have hd : d ≠ S.c := fun e => h.c_notA (e ▸ hdA)
        exact key _ d _ [] (fun e => absurd e hd) (fun _ => rfl)
      | recvNone d k hf ha hc =>
        rw [h.actNA p _ hA] at ha
        have hdA := h.recvA p _ d k hA ha
        have hd : d ≠ S.c := fun e => h.c_notA (e ▸ hdA)
        exact key _ d _ [] (fun e => absurd e hd) (fun _ => rfl)
      | send d v k q hf ha hc hl =>
        by_cases hd : d = S.c
        · subst hd
          exact key _ S.c _ [v] (fun _ => ⟨by simp [hc], fun hcl => by simp [hc] at hcl⟩) (fun e => absurd rfl e)
        · exact key _ d _ [] (fun e => absurd e hd) (fun _ => rfl)
      | close d k q hf ha hc =>
        by_cases hd : d = S.c
        · subst hd
          exact key _ S.c _ [] (fun _ => ⟨by simp [hc], fun hcl => by simp [hc] at hcl⟩) (fun _ => rfl)
        · exact key _ d _ [] (fun e => absurd e hd) (fun _ => rfl)
      | sync d cl hf hc =>
        by_cases hd : d = S.c
        · subst hd
          exact key _ S.c _ [] (fun _ => ⟨by simp [hc], fun _ => ⟨rfl, hc.symm⟩⟩) (fun _ => rfl)
        · exact key _ d _ [] (fun e => absurd e hd) (fun _ => rfl)
    · -- an idle index does not move
      have hA' : S.isA p = false := by cases hx : S.isA p <;> simp_all
      have := halted_no_step S.NA p sA (hOth p hA' hp) (h.haltNA p _ hA' hp)
      rw [this] at hs; simp at hs

theorem runA_inv (h : S.OK) (t : List Nat) (sA sA' : St L V) (got : List V) (hI : InvA S sA got)
    (hr : run S.NA t sA = some sA') :
    ∃ got' sfx, InvA S sA' got' ∧ got' ++ (sA'.chans S.c).1 = got ++ (sA.chans S.c).1 ++ sfx ∧
      ((sA.chans S.c).2 = true → sfx = [] ∧ (sA'.chans S.c).2 = true) := by
  induction t generalizing sA got with
  | nil =>
    simp only [run, Option.some.injEq] at hr; subst hr
    exact ⟨got, [], hI, by simp, fun hcl => ⟨rfl, hcl⟩⟩
  | cons p rest ih =>
    simp only [run] at hr
    cases hp : step S.NA p sA with
    | none => simp [hp] at hr
    | some a =>
      simp only [hp, Option.bind_some] at hr
      obtain ⟨g1, x1, hI1, e1, c1, _⟩ := stepA_inv S h sA a got p hI hp
      obtain ⟨g2, x2, hI2, e2, c2⟩ := ih a g1 hI1 hr
      refine ⟨g2, x1 ++ x2, hI2, ?_, ?_⟩
      · rw [e2, e1]; simp
      · intro hcl
        obtain ⟨r1, r2⟩ := c1 hcl
        obtain ⟨r3, r4⟩ := c2 r2
        exact ⟨by simp [r1, r3], r4⟩

end NAinv

section Sim
variable {L V : Type} (S : Setup L V)

/-- which channel a process is about to operate on, in terms of its flag and its action -/
theorem chan_cases (N : Network L V) (p : Nat) (ps : PS L) (d : Nat) (h : (opOf N p ps).chan = some d) :
    ps.2 = some d ∨ (ps.2 = none ∧ ((∃ k, N.act p ps.1 = .recv d k) ∨ (∃ v k, N.act p ps.1 = .send d v k) ∨
      (∃ k, N.act p ps.1 = .close d k))) := by
  cases hp : ps.2 with
  | some d0 =>
    rw [opOf_flag N p ps d0 hp] at h
    simp only [Op.chan, Option.some.injEq] at h
    left; rw [h]
  | none =>
    right; refine ⟨rfl, ?_⟩
    unfold opOf at h
    simp only [hp] at h
    cases ha : N.act p ps.1 with
    | recv d1 k => simp only [ha, Op.chan, Option.some.injEq] at h; subst h; exact Or.inl ⟨k, rfl⟩
    | send d1 v k => simp only [ha, Op.chan, Option.some.injEq] at h; subst h; exact Or.inr (Or.inl ⟨v, k, rfl⟩)
    | close d1 k => simp only [ha, Op.chan, Option.some.injEq] at h; subst h; exact Or.inr (Or.inr ⟨k, rfl⟩)
    | halt => simp [ha, Op.chan] at h

/-- a process waits only for the hand-over of a channel of its own side (A-side: possibly the link) -/
def FlagOK (s : St L V) : Prop :=
  ∀ p d, (s.procs p).2 = some d → (S.isA p = true → S.chA d ∨ d = S.c) ∧ (S.isA p = false → S.chB d)

theorem classA (h : S.OK) (s : St L V) (hF : FlagOK S s) (p d : Nat) (hA : S.isA p = true)
    (hc : (opOf S.N p (s.procs p)).chan = some d) : S.chA d ∨ d = S.c := by
  rcases chan_cases S.N p _ d hc with hf | ⟨_, ⟨k, ha⟩ | ⟨v, k, ha⟩ | ⟨k, ha⟩⟩
  · exact (hF p d hf).1 hA
  · exact Or.inl (h.recvA p _ d k hA ha)
  · exact h.sendA p _ d v k hA ha
  · exact h.closeA p _ d k hA ha

theorem classB (h : S.OK) (s : St L V) (hF : FlagOK S s) (p d : Nat) (hB : S.isA p = false)
    (hc : (opOf S.N p (s.procs p)).chan = some d) :
    S.chB d ∨ (d = S.c ∧ (s.procs p).2 = none ∧ ∃ k, S.N.act p (s.procs p).1 = .recv S.c k) := by
  rcases chan_cases S.N p _ d hc with hf | ⟨hf, ⟨k, ha⟩ | ⟨v, k, ha⟩ | ⟨k, ha⟩⟩
  · exact Or.inl ((hF p d hf).2 hB)
  · rcases h.recvB p _ d k hB ha with hb | rfl
    · exact Or.inl hb
    · exact Or.inr ⟨rfl, hf, k, ha⟩
  · exact Or.inl (h.sendB p _ d v k hB ha)
  · exact Or.inl (h.closeB p _ d k hB ha)

/-- shape of a step: one process state and one channel state change; a new wait is for that channel -/
theorem step_shape (N : Network L V) (p : Nat) (s s' : St L V) (h : step N p s = some s') :
    ∃ d ps' cs', (opOf N p (s.procs p)).chan = some d ∧ s' = ⟨upd s.procs p ps', upd s.chans d cs'⟩ ∧
      (ps'.2 = none ∨ (ps'.2 = some d ∧ (s.procs p).2 = none ∧ ∃ v k, N.act p (s.procs p).1 = .send d v k)) := by
  have hF := step_fired N p s s' h
  cases hF with
  | recvSome d k v rest cl hf ha hc =>
    exact ⟨d, _, _, by unfold opOf; simp [hf, ha, Op.chan], rfl, Or.inl rfl⟩
  | recvNone d k hf ha hc =>
    exact ⟨d, _, _, by unfold opOf; simp [hf, ha, Op.chan], rfl, Or.inl rfl⟩
  | send d v k q hf ha hc hl =>
    refine ⟨d, _, _, by unfold opOf; simp [hf, ha, Op.chan], rfl, ?_⟩
    by_cases h0 : N.cap d = 0
    · right; exact ⟨by simp [h0], hf, v, k, ha⟩
    · left; simp [h0]
  | close d k q hf ha hc =>
    exact ⟨d, _, _, by unfold opOf; simp [hf, ha, Op.chan], rfl, Or.inl rfl⟩
  | sync d cl hf hc =>
    exact ⟨d, _, _, by rw [opOf_flag N p _ d hf]; simp [Op.chan], rfl, Or.inl rfl⟩

theorem flagOK_step (h : S.OK) (s s' : St L V) (p : Nat) (hF : FlagOK S s) (hs : step S.N p s = some s') :
    FlagOK S s' := by
  obtain ⟨d, ps', cs', hc, rfl, hps⟩ := step_shape S.N p s s' hs
  intro q e hq
  by_cases hqp : q = p
  · subst hqp
    simp only [upd_same] at hq
    rcases hps with h0 | ⟨h1, hf, v, k, ha⟩
    · rw [h0] at hq; simp at hq
    · rw [h1] at hq; simp only [Option.some.injEq] at hq; subst hq
      exact ⟨fun hA => h.sendA q _ d v k hA ha, fun hB => h.sendB q _ d v k hB ha⟩
  · simp only [upd_other _ _ _ _ hqp] at hq
    exact hF q e hq

/-- `p` is about to write the link (send, close, or wait for its hand-over) -/
def WritesLink (s : St L V) (p : Nat) : Prop :=
  (s.procs p).2 = some S.c ∨ ((s.procs p).2 = none ∧
    ((∃ v k, S.N.act p (s.procs p).1 = .send S.c v k) ∨ ∃ k, S.N.act p (s.procs p).1 = .close S.c k))

theorem two_writers (s : St L V) (hN : NoConflict S.N s) (p q : Nat) (hpq : p ≠ q)
    (hp : WritesLink S s p) (hq : WritesLink S s q) : False := by
  have ops : ∀ r, WritesLink S s r → (opOf S.N r (s.procs r)).chan = some S.c ∧
      (opOf S.N r (s.procs r)).isReader = false := by
    intro r hr
    rcases hr with hf | ⟨hf, ⟨v, k, ha⟩ | ⟨k, ha⟩⟩
    · rw [opOf_flag S.N r _ S.c hf]; simp [Op.chan, Op.isReader]
    · unfold opOf; simp [hf, ha, Op.chan, Op.isReader]
    · unfold opOf; simp [hf, ha, Op.chan, Op.isReader]
  obtain ⟨c1, r1⟩ := ops p hp
  obtain ⟨c2, r2⟩ := ops q hq
  rcases hN p q S.c hpq c1 c2 with ⟨x, _⟩ | ⟨_, x⟩
  · rw [r1] at x; simp at x
  · rw [r2] at x; simp at x

variable (ys : List V)

/-- the producer of `NB` mirrors the A-side's writing end of the link: same hand-over wait, and what it still has
    to send is what remains of `ys` after what B has taken (`got`) and what is queued -/
def PrdAt (s sB : St L V) (got : List V) : Prop :=
  (∀ p, S.isA p = true → (s.procs p).2 = some S.c → (sB.procs S.prd).2 = some S.c) ∧
  ((sB.procs S.prd).2 = none ∨
    ((sB.procs S.prd).2 = some S.c ∧ ∃ p, S.isA p = true ∧ (s.procs p).2 = some S.c)) ∧
  (((s.chans S.c).2 = false ∧ ∃ rem, (sB.procs S.prd).1 = S.prodSt rem ∧ got ++ (s.chans S.c).1 ++ rem = ys) ∨
   ((s.chans S.c).2 = true ∧ (sB.procs S.prd).1 = S.prodDone))

/-- the simulation relation: a state `s` of `N`, a state `sA` of `NA`, a state `sB` of `NB`, and the values `got`
    that the B-side has taken from the link so far -/
structure Sim (s sA sB : St L V) (got : List V) : Prop where
  flag : FlagOK S s
  procA : ∀ p, S.isA p = true → sA.procs p = s.procs p
  chanA : ∀ d, S.chA d → sA.chans d = s.chans d
  linkA : sA.chans S.c = s.chans S.c
  invA : InvA S sA got
  procB : ∀ p, S.isA p = false → sB.procs p = s.procs p
  chanB : ∀ d, S.chB d → sB.chans d = s.chans d
  linkB : sB.chans S.c = s.chans S.c
  idleB : ∀ p, S.isA p = true → p ≠ S.prd → (sB.procs p).2 = none
  prd : PrdAt S ys s sB got

/-- what `NA` guarantees about the link in the state `sA`: delivered values are a prefix of `ys`, all of `ys` once
    the link is closed -/
def PrefOK (sA : St L V) : Prop :=
  ∀ got, InvA S sA got → (∃ r, got ++ (sA.chans S.c).1 ++ r = ys) ∧
    ((sA.chans S.c).2 = true → got ++ (sA.chans S.c).1 = ys)


theorem step_transfer' (N N' : Network L V) (p : Nat) (s s' : St L V) (d : Nat) (ps' : PS L) (cs' : CS V)
    (hps : s'.procs p = s.procs p) (hact : N'.act p (s.procs p).1 = N.act p (s.procs p).1)
    (hcap : ∀ d, N'.cap d = N.cap d) (hc : (opOf N p (s.procs p)).chan = some d)
    (hch : s'.chans d = s.chans d) (hs : step N p s = some ⟨upd s.procs p ps', upd s.chans d cs'⟩) :
    step N' p s' = some ⟨upd s'.procs p ps', upd s'.chans d cs'⟩ := by
  obtain ⟨_, tr⟩ := step_transfer N N' p s s' hps hact hcap
    (fun e he => by rw [hc] at he; simp only [Option.some.injEq] at he; subst he; exact hch)
  obtain ⟨d2, ps2, cs2, hc2, heq, hst⟩ := tr _ hs
  have ed : d2 = d := by rw [hc] at hc2; simpa using hc2.symm
  subst ed
  have e1 : ps' = ps2 := by
    have := congrArg (fun st => st.procs p) heq
    simpa [upd_same] using this
  have e2 : cs' = cs2 := by
    have := congrArg (fun st => st.chans d2) heq
    simpa [upd_same] using this
  subst e1; subst e2; exact hst

theorem prdAt_congr (s s' sB sB' : St L V) (got : List V) (hc : s'.chans S.c = s.chans S.c)
    (hf : ∀ q, S.isA q = true → ((s'.procs q).2 = some S.c ↔ (s.procs q).2 = some S.c))
    (hp : sB'.procs S.prd = sB.procs S.prd) (hP : PrdAt S ys s sB got) : PrdAt S ys s' sB' got := by
  unfold PrdAt at hP ⊢
  rw [hc, hp]
  obtain ⟨h1, h2, h3⟩ := hP
  refine ⟨fun q hq hq' => h1 q hq ((hf q hq).1 hq'), ?_, h3⟩
  rcases h2 with h0 | ⟨a, q, hq, hq'⟩
  · exact Or.inl h0
  · exact Or.inr ⟨a, q, hq, (hf q hq).2 hq'⟩

theorem isA_ne (p q : Nat) (hp : S.isA p = true) (hq : S.isA q = false) : p ≠ q := by
  intro e; rw [e, hq] at hp; simp at hp

/-- an A-side process moves on a channel other than the link: `NA` does the same step, `NB` does nothing -/
theorem sim_A_other (h : S.OK) (s sA sB : St L V) (got : List V) (p d : Nat) (ps' : PS L) (cs' : CS V)
    (hS : Sim S ys s sA sB got) (hA : S.isA p = true) (hc : (opOf S.N p (s.procs p)).chan = some d)
    (hd : d ≠ S.c) (hps : ps'.2 = none ∨ ps'.2 = some d)
    (hs : step S.N p s = some ⟨upd s.procs p ps', upd s.chans d cs'⟩)
    (hFl : FlagOK S ⟨upd s.procs p ps', upd s.chans d cs'⟩) :
    ∃ sA', step S.NA p sA = some sA' ∧ Sim S ys ⟨upd s.procs p ps', upd s.chans d cs'⟩ sA' sB got := by
  have hdA : S.chA d := (classA S h s hS.flag p d hA hc).resolve_right hd
  have hsA := step_transfer' S.N S.NA p s sA d ps' cs' (hS.procA p hA) (h.actNA p _ hA) h.capA hc
    (hS.chanA d hdA) hs
  obtain ⟨g', _, hI', _, _, hg⟩ := stepA_inv S h sA _ got p hS.invA hsA
  have hpsnk : p ≠ S.snk := isA_ne S p S.snk hA h.snkB
  rw [hg hpsnk] at hI'
  have hcd : S.c ≠ d := fun e => hd e.symm
  have hpf : (s.procs p).2 ≠ some S.c := by
    intro e
    rw [opOf_flag S.N p _ S.c e] at hc
    simp only [Op.chan, Option.some.injEq] at hc
    exact hcd hc
  have hps' : ps'.2 ≠ some S.c := by
    rcases hps with e | e <;> rw [e] <;> simp
    exact fun x => hcd x.symm
  refine ⟨_, hsA, ⟨hFl, ?_, ?_, ?_, hI', ?_, ?_, ?_, hS.idleB, ?_⟩⟩
  · intro q hq
    by_cases hqp : q = p
    · subst hqp; simp [upd_same]
    · simp only [upd_other _ _ _ _ hqp]; exact hS.procA q hq
  · intro e he
    by_cases hed : e = d
    · subst hed; simp [upd_same]
    · simp only [upd_other _ _ _ _ hed]; exact hS.chanA e he
  · simp only [upd_other _ _ _ _ hcd]; exact hS.linkA
  · intro q hq
    have hqp : q ≠ p := fun e => (isA_ne S p q hA hq) e.symm
    simp only [upd_other _ _ _ _ hqp]; exact hS.procB q hq
  · intro e he
    have hed : e ≠ d := fun x => h.disj d hdA (x ▸ he)
    simp only [upd_other _ _ _ _ hed]; exact hS.chanB e he
  · simp only [upd_other _ _ _ _ hcd]; exact hS.linkB
  · apply prdAt_congr S ys s _ sB sB got _ _ rfl hS.prd
    · simp only [upd_other _ _ _ _ hcd]
    · intro q _
      by_cases hqp : q = p
      · subst hqp; simp only [upd_same]
        exact ⟨fun x => absurd x hps', fun x => absurd x hpf⟩
      · simp only [upd_other _ _ _ _ hqp]

/-- a B-side process moves on a channel other than the link: `NB` does the same step, `NA` does nothing -/
theorem sim_B_other (h : S.OK) (s sA sB : St L V) (got : List V) (p d : Nat) (ps' : PS L) (cs' : CS V)
    (hS : Sim S ys s sA sB got) (hB : S.isA p = false) (hc : (opOf S.N p (s.procs p)).chan = some d)
    (hdB : S.chB d)
    (hs : step S.N p s = some ⟨upd s.procs p ps', upd s.chans d cs'⟩)
    (hFl : FlagOK S ⟨upd s.procs p ps', upd s.chans d cs'⟩) :
    ∃ sB', step S.NB p sB = some sB' ∧ Sim S ys ⟨upd s.procs p ps', upd s.chans d cs'⟩ sA sB' got := by
  have hsB := step_transfer' S.N S.NB p s sB d ps' cs' (hS.procB p hB) (h.actNB p _ hB) h.capB hc
    (hS.chanB d hdB) hs
  have hcd : S.c ≠ d := fun e => h.c_notB (e ▸ hdB)
  have hprd : S.prd ≠ p := isA_ne S S.prd p h.prdA hB
  refine ⟨_, hsB, ⟨hFl, ?_, ?_, ?_, hS.invA, ?_, ?_, ?_, ?_, ?_⟩⟩
  · intro q hq
    have hqp : q ≠ p := isA_ne S q p hq hB
    simp only [upd_other _ _ _ _ hqp]; exact hS.procA q hq
  · intro e he
    have hed : e ≠ d := fun x => h.disj e he (x ▸ hdB)
    simp only [upd_other _ _ _ _ hed]; exact hS.chanA e he
  · simp only [upd_other _ _ _ _ hcd]; exact hS.linkA
  · intro q hq
    by_cases hqp : q = p
    · subst hqp; simp [upd_same]
    · simp only [upd_other _ _ _ _ hqp]; exact hS.procB q hq
  · intro e he
    by_cases hed : e = d
    · subst hed; simp [upd_same]
    · simp only [upd_other _ _ _ _ hed]; exact hS.chanB e he
  · simp only [upd_other _ _ _ _ hcd]; exact hS.linkB
  · intro q hq hqp
    have hqp' : q ≠ p := isA_ne S q p hq hB
    simp only [upd_other _ _ _ _ hqp']; exact hS.idleB q hq hqp
  · apply prdAt_congr S ys s _ sB _ got _ _ _ hS.prd
    · simp only [upd_other _ _ _ _ hcd]
    · intro q hq
      have hqp : q ≠ p := isA_ne S q p hq hB
      simp only [upd_other _ _ _ _ hqp]
    · simp only [upd_other _ _ _ _ hprd]


/-- a B-side process takes a value from the link: `NB` does the same step, the reader of `NA` takes the value -/
theorem sim_B_recvSome (h : S.OK) (s sA sB : St L V) (got : List V) (p : Nat) (k : Option V → L) (v : V)
    (rest : List V) (cl : Bool) (hS : Sim S ys s sA sB got) (hB : S.isA p = false)
    (hf : (s.procs p).2 = none) (ha : S.N.act p (s.procs p).1 = .recv S.c k) (hcq : s.chans S.c = (v :: rest, cl))
    (hFl : FlagOK S ⟨upd s.procs p (k (some v), none), upd s.chans S.c (rest, cl)⟩) :
    ∃ sA' sB', step S.NA S.snk sA = some sA' ∧ step S.NB p sB = some sB' ∧
      Sim S ys ⟨upd s.procs p (k (some v), none), upd s.chans S.c (rest, cl)⟩ sA' sB' (got ++ [v]) := by
  have hsB := fired_step S.NB p sB _ (Fired.recvSome S.c k v rest cl (by rw [hS.procB p hB]; exact hf)
    (by rw [hS.procB p hB, h.actNB p _ hB]; exact ha) (by rw [hS.linkB]; exact hcq))
  have hSt : sA.procs S.snk = (S.sinkSt got, none) := by
    rcases hS.invA.1 with x | ⟨_, x⟩
    · exact x
    · rw [hS.linkA, hcq] at x; simp at x
  have hsA := fired_step S.NA S.snk sA _ (Fired.recvSome S.c _ v rest cl (by rw [hSt])
    (by rw [hSt]; exact h.sinkRun got) (by rw [hS.linkA]; exact hcq))
  have hprd : S.prd ≠ p := isA_ne S S.prd p h.prdA hB
  refine ⟨_, _, hsA, hsB, ⟨hFl, ?_, ?_, ?_, ⟨Or.inl (by simp [upd_same]), ?_⟩, ?_, ?_, ?_, ?_, ?_⟩⟩
  · intro q hq
    have hqp : q ≠ p := isA_ne S q p hq hB
    have hqs : q ≠ S.snk := isA_ne S q S.snk hq h.snkB
    simp only [upd_other _ _ _ _ hqp, upd_other _ _ _ _ hqs]; exact hS.procA q hq
  · intro e he
    have hec : e ≠ S.c := fun x => h.c_notA (x ▸ he)
    simp only [upd_other _ _ _ _ hec]; exact hS.chanA e he
  · simp only [upd_same]
  · intro q hq hqs; simp only [upd_other _ _ _ _ hqs]; exact hS.invA.2 q hq hqs
  · intro q hq
    by_cases hqp : q = p
    · subst hqp; simp [upd_same]
    · simp only [upd_other _ _ _ _ hqp]; exact hS.procB q hq
  · intro e he
    have hec : e ≠ S.c := fun x => h.c_notB (x ▸ he)
    simp only [upd_other _ _ _ _ hec]; exact hS.chanB e he
  · simp only [upd_same]
  · intro q hq hqp
    have hqp' : q ≠ p := isA_ne S q p hq hB
    simp only [upd_other _ _ _ _ hqp']; exact hS.idleB q hq hqp
  · obtain ⟨h1, h2, h3⟩ := hS.prd
    refine ⟨?_, ?_, ?_⟩
    · intro q hq hq'
      have hqp : q ≠ p := isA_ne S q p hq hB
      simp only [upd_other _ _ _ _ hqp] at hq'
      simp only [upd_other _ _ _ _ hprd]; exact h1 q hq hq'
    · simp only [upd_other _ _ _ _ hprd]
      rcases h2 with h0 | ⟨a, q, hq, hq'⟩
      · exact Or.inl h0
      · have hqp : q ≠ p := isA_ne S q p hq hB
        exact Or.inr ⟨a, q, hq, by simp only [upd_other _ _ _ _ hqp]; exact hq'⟩
    · simp only [upd_other _ _ _ _ hprd, upd_same]
      rw [hcq] at h3
      rcases h3 with ⟨hcl, rem, hr, e⟩ | ⟨hcl, hr⟩
      · exact Or.inl ⟨hcl, rem, hr, by simpa using e⟩
      · exact Or.inr ⟨hcl, hr⟩

/-- a B-side process sees the end of the link: `NB` does the same step, the reader of `NA` sees it too (if it has
    not already) -/
theorem sim_B_recvNone (h : S.OK) (s sA sB : St L V) (got : List V) (p : Nat) (k : Option V → L)
    (hS : Sim S ys s sA sB got) (hB : S.isA p = false)
    (hf : (s.procs p).2 = none) (ha : S.N.act p (s.procs p).1 = .recv S.c k) (hcq : s.chans S.c = ([], true))
    (hFl : FlagOK S ⟨upd s.procs p (k none, none), upd s.chans S.c ([], true)⟩) :
    ∃ tA sA' sB', run S.NA tA sA = some sA' ∧ step S.NB p sB = some sB' ∧
      Sim S ys ⟨upd s.procs p (k none, none), upd s.chans S.c ([], true)⟩ sA' sB' got := by
  have hsB := fired_step S.NB p sB _ (Fired.recvNone S.c k (by rw [hS.procB p hB]; exact hf)
    (by rw [hS.procB p hB, h.actNB p _ hB]; exact ha) (by rw [hS.linkB]; exact hcq))
  have hprd : S.prd ≠ p := isA_ne S S.prd p h.prdA hB
  -- everything except the A-side of the relation
  have common : ∀ sA', (∀ q, S.isA q = true → sA'.procs q = sA.procs q) →
      (∀ e, S.chA e → sA'.chans e = sA.chans e) → sA'.chans S.c = ([], true) → InvA S sA' got →
      Sim S ys ⟨upd s.procs p (k none, none), upd s.chans S.c ([], true)⟩ sA'
        ⟨upd sB.procs p (k none, none), upd sB.chans S.c ([], true)⟩ got := by
    intro sA' e1 e2 e3 e4
    refine ⟨hFl, ?_, ?_, ?_, e4, ?_, ?_, ?_, ?_, ?_⟩
    · intro q hq
      have hqp : q ≠ p := isA_ne S q p hq hB
      simp only [upd_other _ _ _ _ hqp]; rw [e1 q hq]; exact hS.procA q hq
    · intro e he
      have hec : e ≠ S.c := fun x => h.c_notA (x ▸ he)
      simp only [upd_other _ _ _ _ hec]; rw [e2 e he]; exact hS.chanA e he
    · simp only [upd_same]; exact e3
    · intro q hq
      by_cases hqp : q = p
      · subst hqp; simp [upd_same]
      · simp only [upd_other _ _ _ _ hqp]; exact hS.procB q hq
    · intro e he
      have hec : e ≠ S.c := fun x => h.c_notB (x ▸ he)
      simp only [upd_other _ _ _ _ hec]; exact hS.chanB e he
    · simp only [upd_same]
    · intro q hq hqp
      have hqp' : q ≠ p := isA_ne S q p hq hB
      simp only [upd_other _ _ _ _ hqp']; exact hS.idleB q hq hqp
    · apply prdAt_congr S ys s _ sB _ got _ _ _ hS.prd
      · simp only [upd_same]; exact hcq.symm
      · intro q hq
        have hqp : q ≠ p := isA_ne S q p hq hB
        simp only [upd_other _ _ _ _ hqp]
      · simp only [upd_other _ _ _ _ hprd]
  rcases hS.invA.1 with hSt | ⟨hDn, hcl⟩
  · have hsA := fired_step S.NA S.snk sA _ (Fired.recvNone S.c _ (by rw [hSt])
      (by rw [hSt]; exact h.sinkRun got) (by rw [hS.linkA]; exact hcq))
    refine ⟨[S.snk], _, _, by rw [run, hsA]; rfl, hsB, common _ ?_ ?_ ?_ ⟨Or.inr ⟨?_, ?_⟩, ?_⟩⟩
    · intro q hq
      have hqs : q ≠ S.snk := isA_ne S q S.snk hq h.snkB
      simp only [upd_other _ _ _ _ hqs]
    · intro e he
      have hec : e ≠ S.c := fun x => h.c_notA (x ▸ he)
      simp only [upd_other _ _ _ _ hec]
    · simp only [upd_same]
    · simp [upd_same]
    · simp only [upd_same]
    · intro q hq hqs; simp only [upd_other _ _ _ _ hqs]; exact hS.invA.2 q hq hqs
  · exact ⟨[], sA, _, rfl, hsB, common sA (fun _ _ => rfl) (fun _ _ => rfl) hcl hS.invA⟩


/-- the parts of the relation that do not depend on the kind of link operation, for a step of the A-side process
    `p` in `N` and `NA`, and of the producer in `NB`, all three on the link -/
theorem sim_A_link_common (h : S.OK) (s sA sB : St L V) (got : List V) (p : Nat) (ps' : PS L) (cs' : CS V)
    (psA psB : PS L) (hS : Sim S ys s sA sB got) (hA : S.isA p = true) (hpsA : psA = ps')
    (hFl : FlagOK S ⟨upd s.procs p ps', upd s.chans S.c cs'⟩)
    (hI : InvA S ⟨upd sA.procs p psA, upd sA.chans S.c cs'⟩ got)
    (hP : PrdAt S ys ⟨upd s.procs p ps', upd s.chans S.c cs'⟩ ⟨upd sB.procs S.prd psB, upd sB.chans S.c cs'⟩ got) :
    Sim S ys ⟨upd s.procs p ps', upd s.chans S.c cs'⟩ ⟨upd sA.procs p psA, upd sA.chans S.c cs'⟩
      ⟨upd sB.procs S.prd psB, upd sB.chans S.c cs'⟩ got := by
  subst hpsA
  refine ⟨hFl, ?_, ?_, ?_, hI, ?_, ?_, ?_, ?_, hP⟩
  · intro q hq
    by_cases hqp : q = p
    · subst hqp; simp [upd_same]
    · simp only [upd_other _ _ _ _ hqp]; exact hS.procA q hq
  · intro e he
    have hec : e ≠ S.c := fun x => h.c_notA (x ▸ he)
    simp only [upd_other _ _ _ _ hec]; exact hS.chanA e he
  · simp only [upd_same]
  · intro q hq
    have hqp : q ≠ p := fun e => (isA_ne S p q hA hq) e.symm
    have hqr : q ≠ S.prd := fun e => (isA_ne S S.prd q h.prdA hq) e.symm
    simp only [upd_other _ _ _ _ hqp, upd_other _ _ _ _ hqr]; exact hS.procB q hq
  · intro e he
    have hec : e ≠ S.c := fun x => h.c_notB (x ▸ he)
    simp only [upd_other _ _ _ _ hec]; exact hS.chanB e he
  · simp only [upd_same]
  · intro q hq hqp
    simp only [upd_other _ _ _ _ hqp]; exact hS.idleB q hq hqp

/-- the producer does not wait when an A-side process is about to send on / close the link -/
theorem prd_not_waiting (s sB : St L V) (got : List V) (p : Nat) (hN : NoConflict S.N s)
    (hP : PrdAt S ys s sB got) (hf : (s.procs p).2 = none) (hW : WritesLink S s p) :
    (sB.procs S.prd).2 = none := by
  rcases hP.2.1 with h0 | ⟨_, q, _, hq'⟩
  · exact h0
  · have hpq : p ≠ q := fun e => by rw [e, hq'] at hf; simp at hf
    exact (two_writers S s hN p q hpq hW (Or.inl hq')).elim

/-- an A-side process sends on the link: `NA` does the same step, the producer of `NB` sends the same value -/
theorem sim_A_send (h : S.OK) (s sA sB : St L V) (got : List V) (p : Nat) (v : V) (k : L) (q : List V)
    (hS : Sim S ys s sA sB got) (hN : NoConflict S.N s) (hA : S.isA p = true)
    (hPref : ∀ sA', step S.NA p sA = some sA' → PrefOK S ys sA')
    (hf : (s.procs p).2 = none) (ha : S.N.act p (s.procs p).1 = .send S.c v k) (hcq : s.chans S.c = (q, false))
    (hl : q.length < max 1 (S.N.cap S.c))
    (hFl : FlagOK S ⟨upd s.procs p (k, if S.N.cap S.c = 0 then some S.c else none), upd s.chans S.c (q ++ [v], false)⟩) :
    ∃ sA' sB', step S.NA p sA = some sA' ∧ step S.NB S.prd sB = some sB' ∧
      Sim S ys ⟨upd s.procs p (k, if S.N.cap S.c = 0 then some S.c else none), upd s.chans S.c (q ++ [v], false)⟩
        sA' sB' got := by
  have hsA := fired_step S.NA p sA _ (Fired.send S.c v k q (by rw [hS.procA p hA]; exact hf)
    (by rw [hS.procA p hA, h.actNA p _ hA]; exact ha) (by rw [hS.linkA]; exact hcq) (by rw [h.capA]; exact hl))
  rw [h.capA] at hsA
  have hpsnk : p ≠ S.snk := isA_ne S p S.snk hA h.snkB
  obtain ⟨g', _, hI', _, _, hg⟩ := stepA_inv S h sA _ got p hS.invA hsA
  rw [hg hpsnk] at hI'
  obtain ⟨⟨r, e'⟩, _⟩ := hPref _ hsA got hI'
  simp only [upd_same] at e'
  have hW : WritesLink S s p := Or.inr ⟨hf, Or.inl ⟨v, k, ha⟩⟩
  have h0 := prd_not_waiting S ys s sB got p hN hS.prd hf hW
  obtain ⟨h1, h2, h3⟩ := hS.prd
  rw [hcq] at h3
  have h3' : ∃ rem, (sB.procs S.prd).1 = S.prodSt rem ∧ got ++ q ++ rem = ys := by
    rcases h3 with ⟨_, rem, hr, e⟩ | ⟨hcl, _⟩
    · exact ⟨rem, hr, e⟩
    · simp at hcl
  obtain ⟨rem, hr, e⟩ := h3'
  have e2 : (got ++ q) ++ rem = (got ++ q) ++ (v :: r) := by rw [e, ← e']; simp
  have hrem : rem = v :: r := List.append_cancel_left e2
  have hsB := fired_step S.NB S.prd sB _ (Fired.send S.c v (S.prodSt r) q h0
    (by rw [hr, hrem]; exact h.prodSend v r) (by rw [hS.linkB]; exact hcq) (by rw [h.capB]; exact hl))
  rw [h.capB] at hsB
  refine ⟨_, _, hsA, hsB, sim_A_link_common S ys h s sA sB got p _ _ _ _ hS hA rfl hFl hI' ⟨?_, ?_, ?_⟩⟩
  · intro q' hq' hq''
    by_cases hqp : q' = p
    · subst hqp; simp only [upd_same] at hq'' ⊢; exact hq''
    · simp only [upd_other _ _ _ _ hqp] at hq''
      exact (two_writers S s hN p q' (fun e => hqp e.symm) hW (Or.inl hq'')).elim
  · by_cases hc0 : S.N.cap S.c = 0
    · right; exact ⟨by simp [upd_same, hc0], p, hA, by simp [upd_same, hc0]⟩
    · left; simp [upd_same, hc0]
  · left; exact ⟨by simp [upd_same], r, by simp [upd_same], by simp only [upd_same]; exact e'⟩

/-- an A-side process closes the link: `NA` does the same step, the producer of `NB` (which has nothing left to
    send) closes too -/
theorem sim_A_close (h : S.OK) (s sA sB : St L V) (got : List V) (p : Nat) (k : L) (q : List V)
    (hS : Sim S ys s sA sB got) (hN : NoConflict S.N s) (hA : S.isA p = true)
    (hPref : ∀ sA', step S.NA p sA = some sA' → PrefOK S ys sA')
    (hf : (s.procs p).2 = none) (ha : S.N.act p (s.procs p).1 = .close S.c k) (hcq : s.chans S.c = (q, false))
    (hFl : FlagOK S ⟨upd s.procs p (k, none), upd s.chans S.c (q, true)⟩) :
    ∃ sA' sB', step S.NA p sA = some sA' ∧ step S.NB S.prd sB = some sB' ∧
      Sim S ys ⟨upd s.procs p (k, none), upd s.chans S.c (q, true)⟩ sA' sB' got := by
  have hsA := fired_step S.NA p sA _ (Fired.close S.c k q (by rw [hS.procA p hA]; exact hf)
    (by rw [hS.procA p hA, h.actNA p _ hA]; exact ha) (by rw [hS.linkA]; exact hcq))
  have hpsnk : p ≠ S.snk := isA_ne S p S.snk hA h.snkB
  obtain ⟨g', _, hI', _, _, hg⟩ := stepA_inv S h sA _ got p hS.invA hsA
  rw [hg hpsnk] at hI'
  obtain ⟨_, e'⟩ := hPref _ hsA got hI'
  simp only [upd_same] at e'
  have e' := e' trivial
  have hW : WritesLink S s p := Or.inr ⟨hf, Or.inr ⟨k, ha⟩⟩
  have h0 := prd_not_waiting S ys s sB got p hN hS.prd hf hW
  obtain ⟨h1, h2, h3⟩ := hS.prd
  rw [hcq] at h3
  have h3' : ∃ rem, (sB.procs S.prd).1 = S.prodSt rem ∧ got ++ q ++ rem = ys := by
    rcases h3 with ⟨_, rem, hr, e⟩ | ⟨hcl, _⟩
    · exact ⟨rem, hr, e⟩
    · simp at hcl
  obtain ⟨rem, hr, e⟩ := h3'
  have e2 : (got ++ q) ++ rem = (got ++ q) ++ [] := by rw [e, List.append_nil, e']
  have hrem : rem = [] := List.append_cancel_left e2
  have hsB := fired_step S.NB S.prd sB _ (Fired.close S.c S.prodDone q h0
    (by rw [hr, hrem]; exact h.prodClose) (by rw [hS.linkB]; exact hcq))
  refine ⟨_, _, hsA, hsB, sim_A_link_common S ys h s sA sB got p _ _ _ _ hS hA rfl hFl hI' ⟨?_, ?_, ?_⟩⟩
  · intro q' hq' hq''
    by_cases hqp : q' = p
    · subst hqp; simp [upd_same] at hq''
    · simp only [upd_other _ _ _ _ hqp] at hq''
      exact (two_writers S s hN p q' (fun e => hqp e.symm) hW (Or.inl hq'')).elim
  · left; simp [upd_same]
  · right; exact ⟨by simp [upd_same], by simp [upd_same]⟩

/-- an A-side process completes a hand-over on the link: so do `NA` and the producer of `NB` -/
theorem sim_A_sync (h : S.OK) (s sA sB : St L V) (got : List V) (p : Nat) (cl : Bool)
    (hS : Sim S ys s sA sB got) (hN : NoConflict S.N s) (hA : S.isA p = true)
    (hf : (s.procs p).2 = some S.c) (hcq : s.chans S.c = ([], cl))
    (hFl : FlagOK S ⟨upd s.procs p ((s.procs p).1, none), upd s.chans S.c ([], cl)⟩) :
    ∃ sA' sB', step S.NA p sA = some sA' ∧ step S.NB S.prd sB = some sB' ∧
      Sim S ys ⟨upd s.procs p ((s.procs p).1, none), upd s.chans S.c ([], cl)⟩ sA' sB' got := by
  have hsA := fired_step S.NA p sA _ (Fired.sync S.c cl (by rw [hS.procA p hA]; exact hf)
    (by rw [hS.linkA]; exact hcq))
  have hpsnk : p ≠ S.snk := isA_ne S p S.snk hA h.snkB
  obtain ⟨g', _, hI', _, _, hg⟩ := stepA_inv S h sA _ got p hS.invA hsA
  rw [hg hpsnk] at hI'
  have hW : WritesLink S s p := Or.inl hf
  obtain ⟨h1, h2, h3⟩ := hS.prd
  have hsB := fired_step S.NB S.prd sB _ (Fired.sync S.c cl (h1 p hA hf) (by rw [hS.linkB]; exact hcq))
  refine ⟨_, _, hsA, hsB, sim_A_link_common S ys h s sA sB got p _ _ _ _ hS hA
    (by rw [hS.procA p hA]) hFl hI' ⟨?_, ?_, ?_⟩⟩
  · intro q' hq' hq''
    by_cases hqp : q' = p
    · subst hqp; simp [upd_same] at hq''
    · simp only [upd_other _ _ _ _ hqp] at hq''
      exact (two_writers S s hN p q' (fun e => hqp e.symm) hW (Or.inl hq'')).elim
  · left; simp [upd_same]
  · rw [hcq] at h3
    simpa [upd_same] using h3


theorem run_one (N : Network L V) (p : Nat) (s s' : St L V) (h : step N p s = some s') : run N [p] s = some s' := by
  rw [run, h]; rfl

/-- **Simulation, one step**: every step of `N` is matched by steps of `NA` and `NB`, at least one in total -/
theorem sim_step (h : S.OK) (s sA sB s' : St L V) (got : List V) (p : Nat) (hS : Sim S ys s sA sB got)
    (hN : NoConflict S.N s) (hPref : ∀ q sA', step S.NA q sA = some sA' → PrefOK S ys sA')
    (hs : step S.N p s = some s') :
    ∃ tA tB sA' sB' got', run S.NA tA sA = some sA' ∧ run S.NB tB sB = some sB' ∧ Sim S ys s' sA' sB' got' ∧
      1 ≤ tA.length + tB.length := by
  have hFl := flagOK_step S h s s' p hS.flag hs
  have hF := step_fired S.N p s s' hs
  by_cases hA : S.isA p = true
  · -- A-side
    have other : ∀ (d : Nat) (ps' : PS L) (cs' : CS V), (opOf S.N p (s.procs p)).chan = some d → d ≠ S.c →
        (ps'.2 = none ∨ ps'.2 = some d) → s' = ⟨upd s.procs p ps', upd s.chans d cs'⟩ →
        ∃ tA tB sA' sB' got', run S.NA tA sA = some sA' ∧ run S.NB tB sB = some sB' ∧ Sim S ys s' sA' sB' got' ∧
          1 ≤ tA.length + tB.length := by
      intro d ps' cs' hc hd hps e
      subst e
      obtain ⟨sA', h1, h2⟩ := sim_A_other S ys h s sA sB got p d ps' cs' hS hA hc hd hps hs hFl
      exact ⟨[p], [], sA', sB, got, run_one _ _ _ _ h1, rfl, h2, by simp⟩
    have link : ∀ sA' sB', step S.NA p sA = some sA' → step S.NB S.prd sB = some sB' → Sim S ys s' sA' sB' got →
        ∃ tA tB sA' sB' got', run S.NA tA sA = some sA' ∧ run S.NB tB sB = some sB' ∧ Sim S ys s' sA' sB' got' ∧
          1 ≤ tA.length + tB.length :=
      fun sA' sB' h1 h2 h3 => ⟨[p], [S.prd], sA', sB', got, run_one _ _ _ _ h1, run_one _ _ _ _ h2, h3, by simp⟩
    cases hF with
    | recvSome d k v rest cl hf ha hc =>
      have hd : d ≠ S.c := fun e => h.c_notA (e ▸ h.recvA p _ d k hA ha)
      exact other d _ _ (by unfold opOf; simp [hf, ha, Op.chan]) hd (Or.inl rfl) rfl
    | recvNone d k hf ha hc =>
      have hd : d ≠ S.c := fun e => h.c_notA (e ▸ h.recvA p _ d k hA ha)
      exact other d _ _ (by unfold opOf; simp [hf, ha, Op.chan]) hd (Or.inl rfl) rfl
    | send d v k q hf ha hc hl =>
      by_cases hd : d = S.c
      · subst hd
        obtain ⟨sA', sB', h1, h2, h3⟩ := sim_A_send S ys h s sA sB got p v k q hS hN hA (hPref p) hf ha hc hl hFl
        exact link sA' sB' h1 h2 h3
      · refine other d _ _ (by unfold opOf; simp [hf, ha, Op.chan]) hd ?_ rfl
        by_cases h0 : S.N.cap d = 0 <;> simp [h0]
    | close d k q hf ha hc =>
      by_cases hd : d = S.c
      · subst hd
        obtain ⟨sA', sB', h1, h2, h3⟩ := sim_A_close S ys h s sA sB got p k q hS hN hA (hPref p) hf ha hc hFl
        exact link sA' sB' h1 h2 h3
      · exact other d _ _ (by unfold opOf; simp [hf, ha, Op.chan]) hd (Or.inl rfl) rfl
    | sync d cl hf hc =>
      by_cases hd : d = S.c
      · subst hd
        obtain ⟨sA', sB', h1, h2, h3⟩ := sim_A_sync S ys h s sA sB got p cl hS hN hA hf hc hFl
        exact link sA' sB' h1 h2 h3
      · exact other d _ _ (by rw [opOf_flag S.N p _ d hf]; simp [Op.chan]) hd (Or.inl rfl) rfl
  · -- B-side
    have hB : S.isA p = false := by cases hx : S.isA p <;> simp_all
    have other : ∀ (d : Nat) (ps' : PS L) (cs' : CS V), (opOf S.N p (s.procs p)).chan = some d → S.chB d →
        s' = ⟨upd s.procs p ps', upd s.chans d cs'⟩ →
        ∃ tA tB sA' sB' got', run S.NA tA sA = some sA' ∧ run S.NB tB sB = some sB' ∧ Sim S ys s' sA' sB' got' ∧
          1 ≤ tA.length + tB.length := by
      intro d ps' cs' hc hd e
      subst e
      obtain ⟨sB', h1, h2⟩ := sim_B_other S ys h s sA sB got p d ps' cs' hS hB hc hd hs hFl
      exact ⟨[], [p], sA, sB', got, rfl, run_one _ _ _ _ h1, h2, by simp⟩
    cases hF with
    | recvSome d k v rest cl hf ha hc =>
      rcases h.recvB p _ d k hB ha with hd | hd
      · exact other d _ _ (by unfold opOf; simp [hf, ha, Op.chan]) hd rfl
      · subst hd
        obtain ⟨sA', sB', h1, h2, h3⟩ := sim_B_recvSome S ys h s sA sB got p k v rest cl hS hB hf ha hc hFl
        exact ⟨[S.snk], [p], sA', sB', _, run_one _ _ _ _ h1, run_one _ _ _ _ h2, h3, by simp⟩
    | recvNone d k hf ha hc =>
      rcases h.recvB p _ d k hB ha with hd | hd
      · exact other d _ _ (by unfold opOf; simp [hf, ha, Op.chan]) hd rfl
      · subst hd
        obtain ⟨tA, sA', sB', h1, h2, h3⟩ := sim_B_recvNone S ys h s sA sB got p k hS hB hf ha hc hFl
        exact ⟨tA, [p], sA', sB', _, h1, run_one _ _ _ _ h2, h3, by simp⟩
    | send d v k q hf ha hc hl =>
      exact other d _ _ (by unfold opOf; simp [hf, ha, Op.chan]) (h.sendB p _ d v k hB ha) rfl
    | close d k q hf ha hc =>
      exact other d _ _ (by unfold opOf; simp [hf, ha, Op.chan]) (h.closeB p _ d k hB ha) rfl
    | sync d cl hf hc =>
      exact other d _ _ (by rw [opOf_flag S.N p _ d hf]; simp [Op.chan]) ((hS.flag p d hf).2 hB) rfl

/-- **Simulation, runs**: every run of `N` is matched by runs of `NA` and `NB` whose lengths add up to at least its
    length -/
theorem sim_run (h : S.OK) (t : List Nat) (s sA sB s' : St L V) (got : List V) (hS : Sim S ys s sA sB got)
    (hSafe : Safe S.N s) (hPref : ∀ t' sA', run S.NA t' sA = some sA' → PrefOK S ys sA')
    (hr : run S.N t s = some s') :
    ∃ tA tB sA' sB' got', run S.NA tA sA = some sA' ∧ run S.NB tB sB = some sB' ∧ Sim S ys s' sA' sB' got' ∧
      t.length ≤ tA.length + tB.length := by
  induction t generalizing s sA sB got with
  | nil =>
    simp only [run, Option.some.injEq] at hr; subst hr
    exact ⟨[], [], sA, sB, got, rfl, rfl, hS, by simp⟩
  | cons p rest ih =>
    simp only [run] at hr
    cases hp : step S.N p s with
    | none => simp [hp] at hr
    | some a =>
      simp only [hp, Option.bind_some] at hr
      obtain ⟨tA1, tB1, sA1, sB1, g1, rA1, rB1, hS1, l1⟩ := sim_step S ys h s sA sB a got p hS
        (safe_here S.N s hSafe) (fun q x hx => hPref [q] x (run_one _ _ _ _ hx)) hp
      obtain ⟨tA2, tB2, sA2, sB2, g2, rA2, rB2, hS2, l2⟩ := ih a sA1 sB1 g1 hS1 (safe_step S.N s a p hSafe hp)
        (fun t' x hx => hPref (tA1 ++ t') x (by rw [run_append, rA1]; simpa using hx)) hr
      refine ⟨tA1 ++ tA2, tB1 ++ tB2, sA2, sB2, g2, ?_, ?_, hS2, ?_⟩
      · rw [run_append, rA1]; simpa using rA2
      · rw [run_append, rB1]; simpa using rB2
      · simp only [List.length_cons, List.length_append]; omega

/-- what `NA` guarantees: in every state it can reach, the values delivered on the link are a prefix of `ys`, and all
    of `ys` once the link is closed (from the determinacy of `NA`) -/
theorem prefOK_of_reach (h : S.OK) (sA0 eA : St L V) (tA0 : List Nat) (hSafeA : Safe S.NA sA0)
    (hrun : run S.NA tA0 sA0 = some eA) (hH : AllHalted S.NA eA) (hcol : S.col (eA.procs S.snk).1 = ys)
    (t : List Nat) (sA : St L V) (hr : run S.NA t sA0 = some sA) : PrefOK S ys sA := by
  intro got hI
  obtain ⟨t3, h3, _⟩ := determinacy' S.NA tA0 t sA0 eA sA hSafeA hrun (allHalted_terminal S.NA eA hH) hr
  obtain ⟨g', sfx, hI', e, hc⟩ := runA_inv S h t3 sA eA got hI h3
  have hend : g' = ys ∧ eA.chans S.c = ([], true) := by
    rcases hI'.1 with hSt | ⟨hDn, hcl⟩
    · have := (hH S.snk).2
      rw [hSt] at this; simp only at this
      rw [h.sinkRun g'] at this; simp at this
    · rw [hDn] at hcol; simp only at hcol
      rw [h.colDone] at hcol
      exact ⟨hcol, hcl⟩
  obtain ⟨rfl, hq⟩ := hend
  rw [hq] at e
  simp only [List.append_nil] at e
  refine ⟨⟨sfx, e.symm⟩, fun hcl => ?_⟩
  obtain ⟨rfl, _⟩ := hc hcl
  simpa using e.symm


/-! ### terminal states -/

/-- if all runs from `s` are bounded, one process run alone eventually blocks -/
theorem solo_max (N : Network L V) (p : Nat) (s : St L V) (B : Nat)
    (hB : ∀ t s', run N t s = some s' → t.length ≤ B) :
    ∃ n s', run N (List.replicate n p) s = some s' ∧ step N p s' = none := by
  suffices H : ∀ k n s', run N (List.replicate n p) s = some s' → B - n ≤ k →
      ∃ n s', run N (List.replicate n p) s = some s' ∧ step N p s' = none from H B 0 s rfl (by omega)
  intro k
  induction k with
  | zero =>
    intro n s' hr hk
    cases hp : step N p s' with
    | none => exact ⟨n, s', hr, hp⟩
    | some a =>
      have hr' : run N (List.replicate (n + 1) p) s = some a := by
        rw [List.replicate_succ', run_append, hr]; simpa using run_one N p s' a hp
      have := hB _ _ hr'
      simp only [List.length_replicate] at this
      omega
  | succ k ih =>
    intro n s' hr hk
    cases hp : step N p s' with
    | none => exact ⟨n, s', hr, hp⟩
    | some a =>
      have hr' : run N (List.replicate (n + 1) p) s = some a := by
        rw [List.replicate_succ', run_append, hr]; simpa using run_one N p s' a hp
      have := hB _ _ hr'
      simp only [List.length_replicate] at this
      exact ih (n + 1) a hr' (by omega)

/-- the producer running alone touches only itself and the link, and only adds to the link's queue -/
theorem solo_prd (h : S.OK) (n : Nat) (sB sB' : St L V)
    (hfl : (sB.procs S.prd).2 = none ∨ (sB.procs S.prd).2 = some S.c)
    (hr : run S.NB (List.replicate n S.prd) sB = some sB') :
    (∀ p, p ≠ S.prd → sB'.procs p = sB.procs p) ∧ (∀ d, d ≠ S.c → sB'.chans d = sB.chans d) ∧
    (∃ sfx, (sB'.chans S.c).1 = (sB.chans S.c).1 ++ sfx) := by
  induction n generalizing sB with
  | zero =>
    simp only [List.replicate, run, Option.some.injEq] at hr; subst hr
    exact ⟨fun _ _ => rfl, fun _ _ => rfl, [], by simp⟩
  | succ n ih =>
    simp only [List.replicate, run] at hr
    cases hp : step S.NB S.prd sB with
    | none => simp [hp] at hr
    | some a =>
      simp only [hp, Option.bind_some] at hr
      have one : (∀ p, p ≠ S.prd → a.procs p = sB.procs p) ∧ (∀ d, d ≠ S.c → a.chans d = sB.chans d) ∧
          (∃ sfx, (a.chans S.c).1 = (sB.chans S.c).1 ++ sfx) ∧
          ((a.procs S.prd).2 = none ∨ (a.procs S.prd).2 = some S.c) := by
        have hF := step_fired S.NB S.prd sB a hp
        cases hF with
        | recvSome d k v rest cl hf ha hc => exact absurd ha (h.prodRecv _ d k)
        | recvNone d k hf ha hc => exact absurd ha (h.prodRecv _ d k)
        | send d v k q hf ha hc hl =>
          have hd := h.prodSendC _ d v k ha
          subst hd
          refine ⟨fun p hp' => by simp only [upd_other _ _ _ _ hp'], fun d hd => by simp only [upd_other _ _ _ _ hd],
            ⟨[v], by simp [upd_same, hc]⟩, ?_⟩
          by_cases h0 : S.NB.cap S.c = 0 <;> simp [upd_same, h0]
        | close d k q hf ha hc =>
          have hd := h.prodCloseC _ d k ha
          subst hd
          exact ⟨fun p hp' => by simp only [upd_other _ _ _ _ hp'], fun d hd => by simp only [upd_other _ _ _ _ hd],
            ⟨[], by simp [upd_same, hc]⟩, by simp [upd_same]⟩
        | sync d cl hf hc =>
          have hd : d = S.c := by
            rcases hfl with x | x <;> rw [x] at hf <;> simp at hf
            exact hf.symm
          subst hd
          exact ⟨fun p hp' => by simp only [upd_other _ _ _ _ hp'], fun d hd => by simp only [upd_other _ _ _ _ hd],
            ⟨[], by simp [upd_same, hc]⟩, by simp [upd_same]⟩
      obtain ⟨o1, o2, ⟨x1, o3⟩, o4⟩ := one
      obtain ⟨i1, i2, ⟨x2, i3⟩⟩ := ih a o4 hr
      refine ⟨fun p hp' => (i1 p hp').trans (o1 p hp'), fun d hd => (i2 d hd).trans (o2 d hd), x1 ++ x2, ?_⟩
      rw [i3, o3]; simp

/-- a blocked A-side process of `N` is blocked in `NA` -/
theorem stuckA (h : S.OK) (s sA sB : St L V) (got : List V) (hS : Sim S ys s sA sB got) (p : Nat)
    (hA : S.isA p = true) (hs : step S.N p s = none) : step S.NA p sA = none := by
  apply (step_transfer S.N S.NA p s sA (hS.procA p hA) (h.actNA p _ hA) h.capA ?_).1 hs
  intro d hc
  rcases classA S h s hS.flag p d hA hc with hd | hd
  · exact hS.chanA d hd
  · rw [hd]; exact hS.linkA

/-- a blocked B-side process of `N` is blocked in `NB`, in any state of `NB` that agrees with `s` on that process and
    on the B-side channels — and on the link, unless the link's queue in `s` is non-empty -/
theorem stuckB (h : S.OK) (s sB' : St L V) (hFl : FlagOK S s) (p : Nat) (hB : S.isA p = false)
    (hp : sB'.procs p = s.procs p) (hch : ∀ d, S.chB d → sB'.chans d = s.chans d)
    (hlink : sB'.chans S.c = s.chans S.c ∨ (s.chans S.c).1 ≠ [])
    (hs : step S.N p s = none) : step S.NB p sB' = none := by
  apply (step_transfer S.N S.NB p s sB' hp (h.actNB p _ hB) h.capB ?_).1 hs
  intro d hc
  rcases classB S h s hFl p d hB hc with hd | ⟨hd, hf, k, ha⟩
  · exact hch d hd
  · subst hd
    rcases hlink with e | hne
    · exact e
    · rcases hcq : s.chans S.c with ⟨q, cl⟩
      cases q with
      | nil => rw [hcq] at hne; simp at hne
      | cons v rest =>
        have := fired_step S.N p s _ (Fired.recvSome S.c k v rest cl hf ha hcq)
        rw [hs] at this; simp at this


/-- **Terminal states of `N` are clean.**  A terminal state of `N` related to reachable states of `NA` and `NB`
    has every process halted, the A-side in the final local states of `NA`, the B-side in those of `NB`. -/
theorem terminal_clean (h : S.OK) (s sA sB : St L V) (got : List V) (hS : Sim S ys s sA sB got)
    (hT : Terminal S.N s)
    (sA0 eA : St L V) (tA0 tA : List Nat) (hSafeA : Safe S.NA sA0) (hrunA : run S.NA tA0 sA0 = some eA)
    (hHA : AllHalted S.NA eA) (hrA : run S.NA tA sA0 = some sA)
    (sB0 eB : St L V) (tB0 tB : List Nat) (hSafeB : Safe S.NB sB0) (hrunB : run S.NB tB0 sB0 = some eB)
    (hHB : AllHalted S.NB eB) (hdrain : (eB.chans S.c).1 = []) (hrB : run S.NB tB sB0 = some sB) :
    AllHalted S.N s ∧ (∀ p, S.isA p = true → s.procs p = eA.procs p) ∧
      (∀ p, S.isA p = false → s.procs p = eB.procs p) := by
  have hTA := allHalted_terminal S.NA eA hHA
  have hTB := allHalted_terminal S.NB eB hHB
  -- idle indices
  have idleA : ∀ (x : St L V) (g : List V), InvA S x g → ∀ p, S.isA p = false → p ≠ S.snk → step S.NA p x = none :=
    fun x g hI p hB hp => halted_no_step S.NA p x (hI.2 p hB hp) (h.haltNA p _ hB hp)
  have idleB : ∀ (x : St L V), (∀ p, S.isA p = true → p ≠ S.prd → (x.procs p).2 = none) →
      ∀ p, S.isA p = true → p ≠ S.prd → step S.NB p x = none :=
    fun x hx p hA hp => halted_no_step S.NB p x (hx p hA hp) (h.haltNB p _ hA hp)
  rcases hcq : s.chans S.c with ⟨q, cl⟩
  cases q with
  | nil =>
    cases cl with
    | false =>
      -- link open and empty: `NA` would be stuck with its reader still waiting
      exfalso
      have hSt : sA.procs S.snk = (S.sinkSt got, none) := by
        rcases hS.invA.1 with x | ⟨_, x⟩
        · exact x
        · rw [hS.linkA, hcq] at x; simp at x
      have hsnk : step S.NA S.snk sA = none := by
        cases hp : step S.NA S.snk sA with
        | none => rfl
        | some a =>
          exfalso
          have hF := step_fired S.NA S.snk sA a hp
          have hlk : sA.chans S.c = ([], false) := by rw [hS.linkA, hcq]
          cases hF with
          | recvSome d k v rest cl hf ha hc =>
            rw [hSt] at ha; simp only at ha; rw [h.sinkRun got] at ha
            simp only [Act.recv.injEq] at ha
            obtain ⟨rfl, _⟩ := ha
            rw [hlk] at hc; simp at hc
          | recvNone d k hf ha hc =>
            rw [hSt] at ha; simp only at ha; rw [h.sinkRun got] at ha
            simp only [Act.recv.injEq] at ha
            obtain ⟨rfl, _⟩ := ha
            rw [hlk] at hc; simp at hc
          | send d v k q hf ha hc hl => rw [hSt] at ha; simp only at ha; rw [h.sinkRun got] at ha; simp at ha
          | close d k q hf ha hc => rw [hSt] at ha; simp only at ha; rw [h.sinkRun got] at ha; simp at ha
          | sync d cl hf hc => rw [hSt] at hf; simp at hf
      have hterm : Terminal S.NA sA := by
        intro p
        by_cases hA : S.isA p = true
        · exact stuckA S ys h s sA sB got hS p hA (hT p)
        · have hB : S.isA p = false := by cases hx : S.isA p <;> simp_all
          by_cases hp : p = S.snk
          · subst hp; exact hsnk
          · exact idleA sA got hS.invA p hB hp
      obtain ⟨e, _⟩ := terminal_unique' S.NA tA0 tA sA0 eA sA hSafeA hrunA hTA hrA hterm
      subst e
      have := (hHA S.snk).2
      rw [hSt] at this; simp only at this
      rw [h.sinkRun got] at this; simp at this
    | true =>
      -- link closed and empty: let the reader of `NA` see the end, then both components are terminal
      have hA2 : ∃ sA2 tA2, run S.NA tA2 sA0 = some sA2 ∧ Sim S ys s sA2 sB got ∧
          sA2.procs S.snk = (S.sinkDone got, none) := by
        rcases hS.invA.1 with hSt | ⟨hDn, hcl⟩
        · have hsA := fired_step S.NA S.snk sA _ (Fired.recvNone S.c _ (by rw [hSt])
            (by rw [hSt]; exact h.sinkRun got) (by rw [hS.linkA]; exact hcq))
          refine ⟨_, tA ++ [S.snk], by rw [run_append, hrA]; simpa using run_one _ _ _ _ hsA, ?_, by simp [upd_same]⟩
          refine ⟨hS.flag, ?_, ?_, ?_, ⟨Or.inr ⟨by simp [upd_same], by simp [upd_same]⟩, ?_⟩, hS.procB, hS.chanB,
            hS.linkB, hS.idleB, hS.prd⟩
          · intro q hq
            have hqs : q ≠ S.snk := isA_ne S q S.snk hq h.snkB
            simp only [upd_other _ _ _ _ hqs]; exact hS.procA q hq
          · intro e he
            have hec : e ≠ S.c := fun x => h.c_notA (x ▸ he)
            simp only [upd_other _ _ _ _ hec]; exact hS.chanA e he
          · simp only [upd_same]; exact hcq.symm
          · intro q hq hqs; simp only [upd_other _ _ _ _ hqs]; exact hS.invA.2 q hq hqs
        · exact ⟨sA, tA, hrA, hS, hDn⟩
      obtain ⟨sA2, tA2, hrA2, hS2, hDn⟩ := hA2
      have htermA : Terminal S.NA sA2 := by
        intro p
        by_cases hA : S.isA p = true
        · exact stuckA S ys h s sA2 sB got hS2 p hA (hT p)
        · have hB : S.isA p = false := by cases hx : S.isA p <;> simp_all
          by_cases hp : p = S.snk
          · subst hp
            exact halted_no_step S.NA S.snk sA2 (by rw [hDn]) (by rw [hDn]; exact h.sinkHalt got)
          · exact idleA sA2 got hS2.invA p hB hp
      obtain ⟨eqA, _⟩ := terminal_unique' S.NA tA0 tA2 sA0 eA sA2 hSafeA hrunA hTA hrA2 htermA
      subst eqA
      -- the A-side has halted
      have haltedA : ∀ p, S.isA p = true → (s.procs p).2 = none ∧ S.N.act p (s.procs p).1 = .halt := by
        intro p hA
        have := hHA p
        rw [hS2.procA p hA, h.actNA p _ hA] at this
        exact this
      -- the producer of `NB` has halted
      obtain ⟨_, p2, p3⟩ := hS2.prd
      have hpf : (sB.procs S.prd).2 = none := by
        rcases p2 with x | ⟨_, q', hq', hq''⟩
        · exact x
        · rw [(haltedA q' hq').1] at hq''; simp at hq''
      have hpd : (sB.procs S.prd).1 = S.prodDone := by
        rw [hcq] at p3
        rcases p3 with ⟨x, _⟩ | ⟨_, x⟩
        · simp at x
        · exact x
      have htermB : Terminal S.NB sB := by
        intro p
        by_cases hA : S.isA p = true
        · by_cases hp : p = S.prd
          · subst hp
            exact halted_no_step S.NB S.prd sB hpf (by rw [hpd]; exact h.prodHalt)
          · exact idleB sB hS2.idleB p hA hp
        · have hB : S.isA p = false := by cases hx : S.isA p <;> simp_all
          exact stuckB S h s sB hS2.flag p hB (hS2.procB p hB) hS2.chanB (Or.inl hS2.linkB) (hT p)
      obtain ⟨eqB, _⟩ := terminal_unique' S.NB tB0 tB sB0 eB sB hSafeB hrunB hTB hrB htermB
      subst eqB
      refine ⟨?_, fun p hA => (hS2.procA p hA).symm, fun p hB => (hS2.procB p hB).symm⟩
      intro p
      by_cases hA : S.isA p = true
      · exact haltedA p hA
      · have hB : S.isA p = false := by cases hx : S.isA p <;> simp_all
        have := hHB p
        rw [hS2.procB p hB, h.actNB p _ hB] at this
        exact this
  | cons v rest =>
    -- link not empty: nobody on the B-side is reading it; with the producer run until it blocks, `NB` would be
    -- terminal with a non-empty link
    exfalso
    have hbound : ∀ t x, run S.NB t sB = some x → t.length ≤ tB0.length := by
      intro t x hx
      have := no_longer_schedule' S.NB tB0 (tB ++ t) sB0 eB x hSafeB hrunB hTB
        (by rw [run_append, hrB]; simpa using hx)
      simp only [List.length_append] at this; omega
    obtain ⟨n, sB', hrn, hstuck⟩ := solo_max S.NB S.prd sB tB0.length hbound
    have hfl : (sB.procs S.prd).2 = none ∨ (sB.procs S.prd).2 = some S.c := by
      rcases hS.prd.2.1 with x | ⟨x, _⟩
      · exact Or.inl x
      · exact Or.inr x
    obtain ⟨k1, k2, ⟨sfx, k3⟩⟩ := solo_prd S h n sB sB' hfl hrn
    have htermB : Terminal S.NB sB' := by
      intro p
      by_cases hA : S.isA p = true
      · by_cases hp : p = S.prd
        · subst hp; exact hstuck
        · exact idleB sB' (fun q hq hqp => by rw [k1 q hqp]; exact hS.idleB q hq hqp) p hA hp
      · have hB : S.isA p = false := by cases hx : S.isA p <;> simp_all
        have hpp : p ≠ S.prd := fun e => (isA_ne S S.prd p h.prdA hB) e.symm
        refine stuckB S h s sB' hS.flag p hB ((k1 p hpp).trans (hS.procB p hB)) ?_ (Or.inr ?_) (hT p)
        · intro d hd
          have hdc : d ≠ S.c := fun x => h.c_notB (x ▸ hd)
          exact (k2 d hdc).trans (hS.chanB d hd)
        · rw [hcq]; simp
    obtain ⟨eqB, _⟩ := terminal_unique' S.NB tB0 (tB ++ List.replicate n S.prd) sB0 eB sB' hSafeB hrunB hTB
      (by rw [run_append, hrB]; simpa using hrn) htermB
    subst eqB
    rw [k3, hS.linkB, hcq] at hdrain
    simp at hdrain


/-! ### the composition theorem -/

/-- the three initial states correspond: nobody waits, the link is open and empty, `NA` starts with the A-side of
    `s0` and a fresh reader, `NB` with the B-side of `s0` and the producer loaded with `ys` -/
structure Init (s0 sA0 sB0 : St L V) : Prop where
  flags : ∀ p, (s0.procs p).2 = none
  link : s0.chans S.c = ([], false)
  procA : ∀ p, S.isA p = true → sA0.procs p = s0.procs p
  chanA : ∀ d, S.chA d → sA0.chans d = s0.chans d
  linkA : sA0.chans S.c = s0.chans S.c
  snk : sA0.procs S.snk = (S.sinkSt [], none)
  idleA : ∀ p, S.isA p = false → p ≠ S.snk → (sA0.procs p).2 = none
  procB : ∀ p, S.isA p = false → sB0.procs p = s0.procs p
  chanB : ∀ d, S.chB d → sB0.chans d = s0.chans d
  linkB : sB0.chans S.c = s0.chans S.c
  prd : sB0.procs S.prd = (S.prodSt ys, none)
  idleB : ∀ p, S.isA p = true → p ≠ S.prd → (sB0.procs p).2 = none

theorem sim_init (s0 sA0 sB0 : St L V) (hI : Init S ys s0 sA0 sB0) : Sim S ys s0 sA0 sB0 [] := by
  refine ⟨?_, hI.procA, hI.chanA, hI.linkA, ⟨Or.inl hI.snk, hI.idleA⟩, hI.procB, hI.chanB, hI.linkB, hI.idleB,
    ?_, ?_, ?_⟩
  · intro p d hpd; rw [hI.flags p] at hpd; simp at hpd
  · intro p _ hp; rw [hI.flags p] at hp; simp at hp
  · left; rw [hI.prd]
  · left; rw [hI.link, hI.prd]; exact ⟨rfl, ys, rfl, by simp⟩

/-- a network all of whose runs are bounded has a run to a terminal state -/
theorem exists_terminal_of_bounded (N : Network L V) (s : St L V) (B : Nat)
    (hB : ∀ t s', run N t s = some s' → t.length ≤ B) : ∃ t e, run N t s = some e ∧ Terminal N e := by
  suffices H : ∀ k t s', run N t s = some s' → B - t.length ≤ k → ∃ t e, run N t s = some e ∧ Terminal N e from
    H B [] s rfl (by simp)
  intro k
  induction k with
  | zero =>
    intro t s' hr hk
    by_cases hT : Terminal N s'
    · exact ⟨t, s', hr, hT⟩
    · exfalso
      have : ∃ p, step N p s' ≠ none := Classical.not_forall.mp hT
      obtain ⟨p, hp⟩ := this
      cases hs : step N p s' with
      | none => exact hp hs
      | some a =>
        have := hB (t ++ [p]) a (by rw [run_append, hr]; simpa using run_one N p s' a hs)
        simp only [List.length_append, List.length_cons, List.length_nil] at this
        omega
  | succ k ih =>
    intro t s' hr hk
    by_cases hT : Terminal N s'
    · exact ⟨t, s', hr, hT⟩
    · have : ∃ p, step N p s' ≠ none := Classical.not_forall.mp hT
      obtain ⟨p, hp⟩ := this
      cases hs : step N p s' with
      | none => exact absurd hs hp
      | some a =>
        have hr' : run N (t ++ [p]) s = some a := by rw [run_append, hr]; simpa using run_one N p s' a hs
        have := hB _ _ hr'
        simp only [List.length_append, List.length_cons, List.length_nil] at this
        exact ih (t ++ [p]) a hr' (by simp only [List.length_append, List.length_cons, List.length_nil]; omega)

/-- **Sequential composition.**
    Hypotheses: the wiring `S.OK`; corresponding initial states; `N`, `NA`, `NB` free of conflicts on channel ends
    (`Safe`); ONE run of `NA` (the A-side with an independent reader on the link) to a state with every process halted
    in which the reader holds `ys`; ONE run of `NB` (a plain producer of `ys` on the link, and the B-side) to a state
    with every process halted and the link drained.
    Conclusions, for the network `N` in which the B-side reads the link directly:
    (1) no run is longer than the two observed runs together (no infinite execution);
    (2) every terminal state reachable has every process halted, the A-side processes in the final local states of
        the `NA` run and the B-side processes in the final local states of the `NB` run (in particular every value the
        B-side delivers is the one it delivers when fed by the plain producer);
    (3) such a terminal state is reachable. -/
theorem sequential_composition_partial (h : S.OK) (s0 sA0 sB0 eA eB : St L V) (tA0 tB0 : List Nat)
    (hI : Init S ys s0 sA0 sB0)
    (hSafeN : Safe S.N s0) (hSafeA : Safe S.NA sA0) (hSafeB : Safe S.NB sB0)
    (hrunA : run S.NA tA0 sA0 = some eA) (hHA : AllHalted S.NA eA) (hcol : S.col (eA.procs S.snk).1 = ys)
    (hrunB : run S.NB tB0 sB0 = some eB) (hHB : AllHalted S.NB eB) (hdrain : (eB.chans S.c).1 = []) :
    (∀ t s, run S.N t s0 = some s → t.length ≤ tA0.length + tB0.length) ∧
    (∀ t s, run S.N t s0 = some s → Terminal S.N s →
      AllHalted S.N s ∧ (∀ p, S.isA p = true → s.procs p = eA.procs p) ∧
        (∀ p, S.isA p = false → s.procs p = eB.procs p)) ∧
    (∃ t s, run S.N t s0 = some s ∧ AllHalted S.N s) := by
  have hTA := allHalted_terminal S.NA eA hHA
  have hTB := allHalted_terminal S.NB eB hHB
  have hS0 := sim_init S ys s0 sA0 sB0 hI
  have hPref : ∀ t' sA', run S.NA t' sA0 = some sA' → PrefOK S ys sA' :=
    fun t' sA' hr => prefOK_of_reach S ys h sA0 eA tA0 hSafeA hrunA hHA hcol t' sA' hr
  have bound : ∀ t s, run S.N t s0 = some s → t.length ≤ tA0.length + tB0.length := by
    intro t s hr
    obtain ⟨tA, tB, sA, sB, got, rA, rB, _, hl⟩ := sim_run S ys h t s0 sA0 sB0 s [] hS0 hSafeN hPref hr
    have l1 := no_longer_schedule' S.NA tA0 tA sA0 eA sA hSafeA hrunA hTA rA
    have l2 := no_longer_schedule' S.NB tB0 tB sB0 eB sB hSafeB hrunB hTB rB
    omega
  have clean : ∀ t s, run S.N t s0 = some s → Terminal S.N s →
      AllHalted S.N s ∧ (∀ p, S.isA p = true → s.procs p = eA.procs p) ∧
        (∀ p, S.isA p = false → s.procs p = eB.procs p) := by
    intro t s hr hT
    obtain ⟨tA, tB, sA, sB, got, rA, rB, hS, _⟩ := sim_run S ys h t s0 sA0 sB0 s [] hS0 hSafeN hPref hr
    exact terminal_clean S ys h s sA sB got hS hT sA0 eA tA0 tA hSafeA hrunA hHA rA sB0 eB tB0 tB hSafeB hrunB hHB
      hdrain rB
  refine ⟨bound, clean, ?_⟩
  obtain ⟨t, e, hr, hT⟩ := exists_terminal_of_bounded S.N s0 _ bound
  exact ⟨t, e, hr, (clean t e hr hT).1⟩

end Sim

/-! ### non-vacuity: producer → Pipe composed with Pipe → reader, all channels unbuffered -/

section Example
open NetM
variable {L V : Type}

theorem run_procs_ge (N : Network L V) (n : Nat) (t : List Nat) (s e : St L V) (ht : ∀ q, q ∈ t → q < n)
    (hr : run N t s = some e) : ∀ p, n ≤ p → e.procs p = s.procs p := by
  induction t generalizing s with
  | nil => simp only [run, Option.some.injEq] at hr; subst hr; exact fun _ _ => rfl
  | cons q rest ih =>
    simp only [run] at hr
    cases hq : step N q s with
    | none => simp [hq] at hr
    | some a =>
      simp only [hq, Option.bind_some] at hr
      intro p hp
      rw [ih a (fun x hx => ht x (List.mem_cons_of_mem _ hx)) hr p hp]
      obtain ⟨d, ps', cs', _, rfl, _⟩ := step_shape N q s a hq
      have : p ≠ q := by have := ht q (List.mem_cons_self); omega
      exact upd_other _ _ _ _ this

theorem run_getD (N : Network L V) (t : List Nat) (s : St L V) (h : (run N t s).isSome = true) :
    run N t s = some ((run N t s).getD s) := by
  cases hr : run N t s with
  | none => rw [hr] at h; simp at h
  | some e => rfl

theorem isHalt_eq (a : NetM.A) (h : isHalt a = true) : a = .halt := by
  cases a <;> simp [isHalt] at h ⊢

/-- processes: 0 producer, 1 Pipe(0 → 1) [A-side]; 2 Pipe(1 → 2), 3 reader of 2 [B-side]; link = channel 1 -/
def exN : Network Loc Int where
  act := fun p l => match p with | 0 => producer 0 l | 1 => pipe 0 1 l | 2 => pipe 1 2 l | 3 => sink 2 l | _ => .halt
  cap := fun _ => 0
  rd := fun c => c + 1
  wr := fun c => c
/-- the A-side with an independent reader of the link at index 2 -/
def exNA : Network Loc Int where
  act := fun p l => match p with | 0 => producer 0 l | 1 => pipe 0 1 l | 2 => sink 1 l | _ => .halt
  cap := fun _ => 0
  rd := fun c => if c = 0 then 1 else 2
  wr := fun c => if c = 0 then 0 else 1
/-- a plain producer on the link at index 1, and the B-side -/
def exNB : Network Loc Int where
  act := fun p l => match p with | 1 => producer 1 l | 2 => pipe 1 2 l | 3 => sink 2 l | _ => .halt
  cap := fun _ => 0
  rd := fun c => if c = 1 then 2 else 3
  wr := fun c => if c = 1 then 1 else 2
def ex0 : St Loc Int where
  procs := fun p => match p with | 0 => (⟨0, [5, 7]⟩, none) | _ => (⟨0, []⟩, none)
  chans := fun _ => ([], false)
def exB0 : St Loc Int where
  procs := fun p => match p with | 1 => (⟨0, [5, 7]⟩, none) | _ => (⟨0, []⟩, none)
  chans := fun _ => ([], false)

def exS : Setup Loc Int where
  N := exN
  NA := exNA
  NB := exNB
  isA := fun p => decide (p ≤ 1)
  c := 1
  snk := 2
  prd := 1
  chA := fun d => d = 0
  chB := fun d => d = 2
  sinkSt := fun xs => ⟨0, xs⟩
  sinkDone := fun xs => ⟨1, xs⟩
  col := fun l => l.reg
  prodSt := fun xs => ⟨0, xs⟩
  prodDone := ⟨1, []⟩

theorem exS_ok : exS.OK where
  c_notA := by simp [exS]
  c_notB := by simp [exS]
  disj := by intro d h1 h2; simp only [exS] at h1 h2; omega
  recvA := by
    intro p l d k hA ha
    simp only [exS, decide_eq_true_eq] at hA ⊢
    match p, hA with
    | 0, _ => simp only [exS, exN, producer] at ha; split at ha <;> simp at ha
    | 1, _ => simp only [exS, exN, pipe] at ha; split at ha <;> simp at ha; exact ha.1.symm
  sendA := by
    intro p l d v k hA ha
    simp only [exS, decide_eq_true_eq] at hA ⊢
    match p, hA with
    | 0, _ => simp only [exS, exN, producer] at ha; split at ha <;> simp at ha; exact Or.inl ha.1.symm
    | 1, _ => simp only [exS, exN, pipe] at ha; split at ha <;> simp at ha; exact Or.inr ha.1.symm
  closeA := by
    intro p l d k hA ha
    simp only [exS, decide_eq_true_eq] at hA ⊢
    match p, hA with
    | 0, _ => simp only [exS, exN, producer] at ha; split at ha <;> simp at ha; exact Or.inl ha.1.symm
    | 1, _ => simp only [exS, exN, pipe] at ha; split at ha <;> simp at ha; exact Or.inr ha.1.symm
  recvB := by
    intro p l d k hB ha
    simp only [exS, decide_eq_false_iff_not] at hB ⊢
    match p, hB with
    | 0, hB => omega
    | 1, hB => omega
    | 2, _ => simp only [exS, exN, pipe] at ha; split at ha <;> simp at ha; exact Or.inr ha.1.symm
    | 3, _ => simp only [exS, exN, sink] at ha; split at ha <;> simp at ha; exact Or.inl ha.1.symm
    | n + 4, _ => simp [exS, exN] at ha
  sendB := by
    intro p l d v k hB ha
    simp only [exS, decide_eq_false_iff_not] at hB ⊢
    match p, hB with
    | 0, hB => omega
    | 1, hB => omega
    | 2, _ => simp only [exS, exN, pipe] at ha; split at ha <;> simp at ha; exact ha.1.symm
    | 3, _ => simp only [exS, exN, sink] at ha; split at ha <;> simp at ha
    | n + 4, _ => simp [exS, exN] at ha
  closeB := by
    intro p l d k hB ha
    simp only [exS, decide_eq_false_iff_not] at hB ⊢
    match p, hB with
    | 0, hB => omega
    | 1, hB => omega
    | 2, _ => simp only [exS, exN, pipe] at ha; split at ha <;> simp at ha; exact ha.1.symm
    | 3, _ => simp only [exS, exN, sink] at ha; split at ha <;> simp at ha
    | n + 4, _ => simp [exS, exN] at ha
  capA := fun _ => rfl
  capB := fun _ => rfl
  snkB := by simp [exS]
  prdA := by simp [exS]
  actNA := by
    intro p l hA
    simp only [exS, decide_eq_true_eq] at hA ⊢
    match p, hA with
    | 0, _ => rfl
    | 1, _ => rfl
  haltNA := by
    intro p l hB hp
    simp only [exS, decide_eq_false_iff_not] at hB hp ⊢
    match p, hB, hp with
    | 0, hB, _ => omega
    | 1, hB, _ => omega
    | 2, _, hp => exact absurd rfl hp
    | n + 3, _, _ => rfl
  actNB := by
    intro p l hB
    simp only [exS, decide_eq_false_iff_not] at hB ⊢
    match p, hB with
    | 0, hB => omega
    | 1, hB => omega
    | 2, _ => rfl
    | 3, _ => rfl
    | n + 4, _ => rfl
  haltNB := by
    intro p l hA hp
    simp only [exS, decide_eq_true_eq] at hA hp ⊢
    match p, hA, hp with
    | 0, _, _ => rfl
    | 1, _, hp => exact absurd rfl hp
  sinkRun := by
    intro xs
    show Act.recv 1 _ = Act.recv 1 _
    congr 1
    funext r
    cases r <;> rfl
  sinkHalt := by intro xs; rfl
  colSt := fun _ => rfl
  colDone := fun _ => rfl
  prodSend := by intro v rest; rfl
  prodClose := rfl
  prodHalt := rfl
  prodRecv := by
    intro l d k ha
    simp only [exS, exNB, producer] at ha; split at ha <;> simp at ha
  prodSendC := by
    intro l d v k ha
    simp only [exS, exNB, producer] at ha ⊢; split at ha <;> simp at ha; exact ha.1.symm
  prodCloseC := by
    intro l d k ha
    simp only [exS, exNB, producer] at ha ⊢; split at ha <;> simp at ha; exact ha.1.symm


theorem exN_owned : Owned exN := by
  constructor
  · intro p l c k ha
    simp only [exN] at ha ⊢
    split at ha
    · simp only [producer] at ha; split at ha <;> simp at ha
    · simp only [pipe] at ha; split at ha <;> simp at ha; obtain ⟨rfl, _⟩ := ha; rfl
    · simp only [pipe] at ha; split at ha <;> simp at ha; obtain ⟨rfl, _⟩ := ha; rfl
    · simp only [sink] at ha; split at ha <;> simp at ha; obtain ⟨rfl, _⟩ := ha; rfl
    · simp at ha
  · intro p l c v k ha
    simp only [exN] at ha ⊢
    split at ha
    · simp only [producer] at ha; split at ha <;> simp at ha; obtain ⟨rfl, _⟩ := ha; rfl
    · simp only [pipe] at ha; split at ha <;> simp at ha; obtain ⟨rfl, _⟩ := ha; rfl
    · simp only [pipe] at ha; split at ha <;> simp at ha; obtain ⟨rfl, _⟩ := ha; rfl
    · simp only [sink] at ha; split at ha <;> simp at ha
    · simp at ha
  · intro p l c k ha
    simp only [exN] at ha ⊢
    split at ha
    · simp only [producer] at ha; split at ha <;> simp at ha; obtain ⟨rfl, _⟩ := ha; rfl
    · simp only [pipe] at ha; split at ha <;> simp at ha; obtain ⟨rfl, _⟩ := ha; rfl
    · simp only [pipe] at ha; split at ha <;> simp at ha; obtain ⟨rfl, _⟩ := ha; rfl
    · simp only [sink] at ha; split at ha <;> simp at ha
    · simp at ha

theorem exNA_owned : Owned exNA := by
  constructor
  · intro p l c k ha
    simp only [exNA] at ha ⊢
    split at ha
    · simp only [producer] at ha; split at ha <;> simp at ha
    · simp only [pipe] at ha; split at ha <;> simp at ha; obtain ⟨rfl, _⟩ := ha; rfl
    · simp only [sink] at ha; split at ha <;> simp at ha; obtain ⟨rfl, _⟩ := ha; rfl
    · simp at ha
  · intro p l c v k ha
    simp only [exNA] at ha ⊢
    split at ha
    · simp only [producer] at ha; split at ha <;> simp at ha; obtain ⟨rfl, _⟩ := ha; rfl
    · simp only [pipe] at ha; split at ha <;> simp at ha; obtain ⟨rfl, _⟩ := ha; rfl
    · simp only [sink] at ha; split at ha <;> simp at ha
    · simp at ha
  · intro p l c k ha
    simp only [exNA] at ha ⊢
    split at ha
    · simp only [producer] at ha; split at ha <;> simp at ha; obtain ⟨rfl, _⟩ := ha; rfl
    · simp only [pipe] at ha; split at ha <;> simp at ha; obtain ⟨rfl, _⟩ := ha; rfl
    · simp only [sink] at ha; split at ha <;> simp at ha
    · simp at ha

theorem exNB_owned : Owned exNB := by
  constructor
  · intro p l c k ha
    simp only [exNB] at ha ⊢
    split at ha
    · simp only [producer] at ha; split at ha <;> simp at ha
    · simp only [pipe] at ha; split at ha <;> simp at ha; obtain ⟨rfl, _⟩ := ha; rfl
    · simp only [sink] at ha; split at ha <;> simp at ha; obtain ⟨rfl, _⟩ := ha; rfl
    · simp at ha
  · intro p l c v k ha
    simp only [exNB] at ha ⊢
    split at ha
    · simp only [producer] at ha; split at ha <;> simp at ha; obtain ⟨rfl, _⟩ := ha; rfl
    · simp only [pipe] at ha; split at ha <;> simp at ha; obtain ⟨rfl, _⟩ := ha; rfl
    · simp only [sink] at ha; split at ha <;> simp at ha
    · simp at ha
  · intro p l c k ha
    simp only [exNB] at ha ⊢
    split at ha
    · simp only [producer] at ha; split at ha <;> simp at ha; obtain ⟨rfl, _⟩ := ha; rfl
    · simp only [pipe] at ha; split at ha <;> simp at ha; obtain ⟨rfl, _⟩ := ha; rfl
    · simp only [sink] at ha; split at ha <;> simp at ha
    · simp at ha

theorem ex0_flags (p : Nat) : (ex0.procs p).2 = none := by
  simp only [ex0]; split <;> rfl
theorem exB0_flags (p : Nat) : (exB0.procs p).2 = none := by
  simp only [exB0]; split <;> rfl

theorem ex_init : Init exS [5, 7] ex0 ex0 exB0 where
  flags := ex0_flags
  link := rfl
  procA := fun _ _ => rfl
  chanA := fun _ _ => rfl
  linkA := rfl
  snk := rfl
  idleA := fun p _ _ => ex0_flags p
  procB := by
    intro p hB
    simp only [exS, decide_eq_false_iff_not] at hB
    match p, hB with
    | 0, hB => omega
    | 1, hB => omega
    | n + 2, _ => rfl
  chanB := fun _ _ => rfl
  linkB := rfl
  prd := rfl
  idleB := fun p _ _ => exB0_flags p

def exTA : List Nat := [0, 1, 0, 1, 2, 0, 1, 1, 0, 1, 2, 0, 1, 1, 1, 2]
def exTB : List Nat := [1, 2, 1, 2, 3, 1, 2, 2, 1, 2, 3, 1, 2, 2, 2, 3]
def exEA : St Loc Int := (run exNA exTA ex0).getD ex0
def exEB : St Loc Int := (run exNB exTB exB0).getD exB0

theorem exRunA : run exNA exTA ex0 = some exEA := run_getD exNA exTA ex0 (by decide)
theorem exRunB : run exNB exTB exB0 = some exEB := run_getD exNB exTB exB0 (by decide)

theorem exHaltA : AllHalted exNA exEA := by
  have fin : ∀ p, p < 4 → ((exEA.procs p).2 = none ∧ isHalt (exNA.act p (exEA.procs p).1) = true) := by decide
  intro p
  by_cases hp : p < 4
  · exact ⟨(fin p hp).1, isHalt_eq _ (fin p hp).2⟩
  · have := run_procs_ge exNA 4 exTA ex0 exEA (by decide) exRunA p (by omega)
    rw [this]
    match p, hp with
    | 0, hp | 1, hp | 2, hp | 3, hp => omega
    | n + 4, _ => exact ⟨rfl, rfl⟩

theorem exHaltB : AllHalted exNB exEB := by
  have fin : ∀ p, p < 4 → ((exEB.procs p).2 = none ∧ isHalt (exNB.act p (exEB.procs p).1) = true) := by decide
  intro p
  by_cases hp : p < 4
  · exact ⟨(fin p hp).1, isHalt_eq _ (fin p hp).2⟩
  · have := run_procs_ge exNB 4 exTB exB0 exEB (by decide) exRunB p (by omega)
    rw [this]
    match p, hp with
    | 0, hp | 1, hp | 2, hp | 3, hp => omega
    | n + 4, _ => exact ⟨rfl, rfl⟩

/-- the hypotheses of `sequential_composition_partial` are satisfiable: the four-process pipeline
    producer → Pipe → Pipe → reader on unbuffered channels (so that hand-over waits occur on the link), cut at the
    middle channel; the reader ends with `[5, 7]` in every terminal state -/
theorem example_composition :
    (∀ t s, run exN t ex0 = some s → t.length ≤ 32) ∧
    (∀ t s, run exN t ex0 = some s → Terminal exN s → AllHalted exN s ∧ (s.procs 3).1.reg = [5, 7]) ∧
    (∃ t s, run exN t ex0 = some s ∧ AllHalted exN s) := by
  obtain ⟨h1, h2, h3⟩ := sequential_composition_partial exS [5, 7] exS_ok ex0 ex0 exB0 exEA exEB exTA exTB ex_init
    (owned_safe exN exN_owned ex0 (fun p c hc => by rw [ex0_flags p] at hc; simp at hc))
    (owned_safe exNA exNA_owned ex0 (fun p c hc => by rw [ex0_flags p] at hc; simp at hc))
    (owned_safe exNB exNB_owned exB0 (fun p c hc => by rw [exB0_flags p] at hc; simp at hc))
    exRunA exHaltA (by decide) exRunB exHaltB (by decide)
  refine ⟨h1, ?_, h3⟩
  intro t s hr hT
  obtain ⟨a, _, b⟩ := h2 t s hr hT
  refine ⟨a, ?_⟩
  have := b 3 (by decide)
  rw [this]
  decide

end Example
end C03
