import IndicatorVerif.Model.Registry
import IndicatorVerif.Model.Strategies
/-
  C09 — an instance is its configuration.

  In the model an indicator or strategy *is* a function of its configuration `(name, ns, fs)`: the
  registry returns a closed term, and running it is `Sig.evalL` on the inputs.  There is no instance
  state to carry from one call to the next, so "any history of calls on one instance equals the calls
  on fresh instances" holds by construction; the theorems below state it so that the claim is visible
  and audited.  The content of C09 is therefore the *tie*: the correspondence check calls ONE Go
  instance repeatedly and concurrently (race detector on) and compares every result with this
  function.  Data races are a property of Go memory accesses that no model of this kind can exhibit.
-/
namespace C09
open Sig

variable {α : Type} [Arith α]

/-- a history of calls on one "instance" of the model: each call is evaluated on its own input only -/
def callsOn (e : List (Sig α)) (inputs : List (List (List α))) : List (List (List α)) :=
  inputs.map (fun env => e.map (evalL env))

/-- **Reuse = fresh instances**: the result of the k-th call in any history is the result of that call alone -/
theorem reuse_is_fresh (e : List (Sig α)) (inputs : List (List (List α))) (k : Nat) (hk : k < inputs.length) :
    (callsOn e inputs)[k]? = some (e.map (evalL (inputs[k]))) := by
  simp [callsOn, hk]

/-- the order of the calls (and hence any interleaving of concurrent calls) does not matter: a permuted history
    gives the permuted results -/
theorem calls_perm (e : List (Sig α)) (i1 i2 : List (List (List α))) (h : i1.Perm i2) :
    (callsOn e i1).Perm (callsOn e i2) := h.map _

end C09
