import IndicatorVerif.Model.Registry
/- C09 — theorems under construction -/
namespace C09
theorem placeholder_true : True := trivial
end C09
