import IndicatorVerif.Model.Net
import IndicatorVerif.Model.NetMachines
/-
  C03 — schedule independence of process networks (the class every pipeline belongs to).

  * `diamond`        two different processes that can both move commute (one reader and one writer per channel);
  * `determinacy`    if ONE schedule reaches a terminal state, EVERY schedule can be extended to that same state and
                     none is longer: the terminal state — every process's local state (hence every value emitted, in
                     order), every queue, and whether it is a clean termination or a deadlock — does not depend on
                     the interleaving, the number of OS threads or the pacing of producers and consumers (which are
                     processes of the network);
  * `capacity_mono`  a run with small channel capacities is also a run (up to hand-over waits) with larger ones:
                     a clean termination observed with unbuffered inputs holds for every larger buffering.
  What is NOT proved: that each concrete pipeline terminates cleanly for every configuration and length; that is
  explored by running the Go pipelines (one schedule suffices by `determinacy`, unbuffered inputs by `capacity_mono`).
-/
namespace C03
open Net

variable {L V : Type}

theorem upd_same {α : Type} (f : Nat → α) (i : Nat) (v : α) : upd f i v i = v := by simp [upd]
theorem upd_other {α : Type} (f : Nat → α) (i j : Nat) (v : α) (h : j ≠ i) : upd f i v j = f j := by simp [upd, h]
theorem upd_comm {α : Type} (f : Nat → α) (i j : Nat) (a b : α) (h : i ≠ j) :
    upd (upd f i a) j b = upd (upd f j b) i a := by
  funext k; simp only [upd]
  by_cases h1 : k = j
  · subst h1
    have h2 : ¬ k = i := fun e => h e.symm
    simp [h2]
  · simp [h1]
theorem upd_upd {α : Type} (f : Nat → α) (i : Nat) (a b : α) : upd (upd f i a) i b = upd f i b := by
  funext k; simp only [upd]; by_cases h1 : k = i <;> simp [h1]

/-- one reader and one writer per channel; a process only waits for the hand-over of a channel it writes -/
structure Owned (N : Network L V) : Prop where
  recv_owner : ∀ p l c k, N.act p l = .recv c k → N.rd c = p
  send_owner : ∀ p l c v k, N.act p l = .send c v k → N.wr c = p
  close_owner : ∀ p l c k, N.act p l = .close c k → N.wr c = p

def WF (N : Network L V) (s : St L V) : Prop := ∀ p c, (s.procs p).2 = some c → N.wr c = p

/-! ### roles -/

theorem reader_owner (N : Network L V) (hO : Owned N) (p : Nat) (ps : PS L) (c : Nat)
    (hr : (opOf N p ps).isReader = true) (hc : (opOf N p ps).chan = some c) : N.rd c = p := by
  unfold opOf at hr hc
  cases hp : ps.2 with
  | some c' => simp [hp, Op.isReader] at hr
  | none =>
    simp only [hp] at hr hc
    cases ha : N.act p ps.1 with
    | recv c' k => simp only [ha, Op.chan, Option.some.injEq] at hc; subst hc; exact hO.recv_owner p _ _ _ ha
    | send c' v k => simp [ha, Op.isReader] at hr
    | close c' k => simp [ha, Op.isReader] at hr
    | halt => simp [ha, Op.isReader] at hr

theorem writer_owner (N : Network L V) (hO : Owned N) (p : Nat) (ps : PS L) (c : Nat)
    (hwf : ∀ c', ps.2 = some c' → N.wr c' = p)
    (hw : (opOf N p ps).isWriter = true) (hc : (opOf N p ps).chan = some c) : N.wr c = p := by
  unfold opOf at hw hc
  cases hp : ps.2 with
  | some c' => simp only [hp, Op.chan, Option.some.injEq] at hc; subst hc; exact hwf _ hp
  | none =>
    simp only [hp] at hw hc
    cases ha : N.act p ps.1 with
    | recv c' k => simp [ha, Op.isWriter] at hw
    | send c' v k => simp only [ha, Op.chan, Option.some.injEq] at hc; subst hc; exact hO.send_owner p _ _ _ _ ha
    | close c' k => simp only [ha, Op.chan, Option.some.injEq] at hc; subst hc; exact hO.close_owner p _ _ _ ha
    | halt => simp [ha, Op.isWriter] at hw

theorem role (o : Op L V) (c : Nat) (h : o.chan = some c) : o.isReader = true ∨ o.isWriter = true := by
  cases o <;> simp [Op.chan, Op.isReader, Op.isWriter] at h ⊢

/-! ### the reader's and the writer's operations on one channel commute -/

theorem fire_comm (cap : Nat) (l1 l2 : L) (r w : Op L V) (hr : r.isReader = true) (hw : w.isWriter = true)
    (cs cs1 cs2 : CS V) (p1 p2 : PS L)
    (h1 : r.fire cap l1 cs = some (p1, cs1)) (h2 : w.fire cap l2 cs = some (p2, cs2)) :
    ∃ cs', r.fire cap l1 cs2 = some (p1, cs') ∧ w.fire cap l2 cs1 = some (p2, cs') := by
  obtain ⟨q, cl⟩ := cs
  cases r with
  | rd c k =>
    cases w with
    | snd c' v k' =>
      cases cl with
      | true => simp [Op.fire] at h2
      | false =>
        cases q with
        | nil => simp [Op.fire] at h1
        | cons x rest =>
          simp only [Op.fire] at h1 h2
          split at h2
          · rename_i hlen
            simp only [Option.some.injEq, Prod.mk.injEq] at h1 h2
            obtain ⟨rfl, rfl⟩ := h1
            obtain ⟨rfl, rfl⟩ := h2
            refine ⟨(rest ++ [v], false), by simp [Op.fire], ?_⟩
            have : rest.length < max 1 cap := by simp only [List.length_cons] at hlen; omega
            simp [Op.fire, this]
          · simp at h2
    | cls c' k' =>
      cases cl with
      | true => simp [Op.fire] at h2
      | false =>
        cases q with
        | nil => simp [Op.fire] at h1
        | cons x rest =>
          simp only [Op.fire, Option.some.injEq, Prod.mk.injEq] at h1 h2
          obtain ⟨rfl, rfl⟩ := h1
          obtain ⟨rfl, rfl⟩ := h2
          exact ⟨(rest, true), by simp [Op.fire], by simp [Op.fire]⟩
    | sync c' =>
      cases q with
      | cons x rest => simp [Op.fire] at h2
      | nil =>
        cases cl with
        | false => simp [Op.fire] at h1
        | true =>
          simp only [Op.fire, Option.some.injEq, Prod.mk.injEq] at h1 h2
          obtain ⟨rfl, rfl⟩ := h1
          obtain ⟨rfl, rfl⟩ := h2
          exact ⟨([], true), by simp [Op.fire], by simp [Op.fire]⟩
    | rd _ _ => simp [Op.isWriter] at hw
    | halt => simp [Op.isWriter] at hw
  | snd _ _ _ => simp [Op.isReader] at hr
  | cls _ _ => simp [Op.isReader] at hr
  | sync _ => simp [Op.isReader] at hr
  | halt => simp [Op.isReader] at hr

theorem fire_rd_cap (cap cap' : Nat) (l : L) (c : Nat) (k : Option V → L) (cs : CS V) :
    (Op.rd c k : Op L V).fire cap l cs = (Op.rd c k : Op L V).fire cap' l cs := by
  obtain ⟨q, cl⟩ := cs; cases q <;> cases cl <;> rfl

theorem fire_cls_cap (cap cap' : Nat) (l : L) (c : Nat) (k : L) (cs : CS V) :
    (Op.cls c k : Op L V).fire cap l cs = (Op.cls c k : Op L V).fire cap' l cs := by
  obtain ⟨q, cl⟩ := cs; cases cl <;> rfl

/-! ### steps -/

theorem step_some (N : Network L V) (p : Nat) (s s' : St L V) (h : step N p s = some s') :
    ∃ c ps' cs', (opOf N p (s.procs p)).chan = some c ∧
      (opOf N p (s.procs p)).fire (N.cap c) (s.procs p).1 (s.chans c) = some (ps', cs') ∧
      s' = ⟨upd s.procs p ps', upd s.chans c cs'⟩ := by
  unfold step at h
  split at h
  · simp at h
  · rename_i c hc
    split at h
    · simp at h
    · rename_i ps' cs' hf
      exact ⟨c, ps', cs', hc, hf, by simpa using h.symm⟩

theorem step_of (N : Network L V) (p : Nat) (s : St L V) (c : Nat) (ps' : PS L) (cs' : CS V)
    (hc : (opOf N p (s.procs p)).chan = some c)
    (hf : (opOf N p (s.procs p)).fire (N.cap c) (s.procs p).1 (s.chans c) = some (ps', cs')) :
    step N p s = some ⟨upd s.procs p ps', upd s.chans c cs'⟩ := by
  unfold step; simp [hc, hf]

/-- a step keeps the hand-over invariant -/
theorem step_wf (N : Network L V) (hO : Owned N) (p : Nat) (s s' : St L V) (hW : WF N s)
    (h : step N p s = some s') : WF N s' := by
  obtain ⟨c, ps', cs', hc, hf, rfl⟩ := step_some N p s s' h
  intro q c' hq
  by_cases hqp : q = p
  · subst hqp
    simp only [upd_same] at hq
    -- the only way to start waiting is a send on an unbuffered channel the process writes
    unfold opOf at hc hf
    cases hp : (s.procs q).2 with
    | some c0 =>
      simp only [hp] at hc hf
      rcases hcs : s.chans c with ⟨qq, cl⟩
      cases qq <;> simp [Op.fire, hcs] at hf
      obtain ⟨rfl, _⟩ := hf
      simp at hq
    | none =>
      simp only [hp] at hc hf
      cases ha : N.act q (s.procs q).1 with
      | recv c1 k =>
        simp only [ha] at hf
        rcases hcs : s.chans c with ⟨qq, cl⟩
        cases qq <;> cases cl <;> simp [Op.fire, hcs] at hf <;> (obtain ⟨rfl, _⟩ := hf; simp at hq)
      | send c1 v k =>
        simp only [ha, Op.chan, Option.some.injEq] at hc hf
        subst hc
        rcases hcs : s.chans c1 with ⟨qq, cl⟩
        cases cl
        · simp only [Op.fire, hcs] at hf
          split at hf
          · simp only [Option.some.injEq, Prod.mk.injEq] at hf
            obtain ⟨rfl, _⟩ := hf
            simp only at hq
            split at hq
            · simp only [Option.some.injEq] at hq; subst hq; exact hO.send_owner q _ _ _ _ ha
            · simp at hq
          · simp at hf
        · simp [Op.fire, hcs] at hf
      | close c1 k =>
        simp only [ha] at hf
        rcases hcs : s.chans c with ⟨qq, cl⟩
        cases cl <;> simp [Op.fire, hcs] at hf
        obtain ⟨rfl, _⟩ := hf
        simp at hq
      | halt => simp [ha, Op.chan] at hc
  · simp only [upd_other _ _ _ _ hqp] at hq
    exact hW q c' hq

/-- **Diamond**: two different processes that can both move commute -/
theorem diamond (N : Network L V) (hO : Owned N) (s : St L V) (hW : WF N s) (p q : Nat) (hpq : p ≠ q)
    (s1 s2 : St L V) (h1 : step N p s = some s1) (h2 : step N q s = some s2) :
    ∃ s', step N q s1 = some s' ∧ step N p s2 = some s' := by
  obtain ⟨c, ps1, cs1, hc1, hf1, rfl⟩ := step_some N p s s1 h1
  obtain ⟨d, ps2, cs2, hc2, hf2, rfl⟩ := step_some N q s s2 h2
  have hqp : q ≠ p := fun h => hpq h.symm
  by_cases hcd : c = d
  · subst hcd
    -- same channel: one is its reader, the other its writer
    have key : ∀ (p q : Nat) (ps1 ps2 : PS L) (cs1 cs2 : CS V), p ≠ q →
        (opOf N p (s.procs p)).chan = some c → (opOf N q (s.procs q)).chan = some c →
        (opOf N p (s.procs p)).fire (N.cap c) (s.procs p).1 (s.chans c) = some (ps1, cs1) →
        (opOf N q (s.procs q)).fire (N.cap c) (s.procs q).1 (s.chans c) = some (ps2, cs2) →
        (opOf N p (s.procs p)).isReader = true →
        ∃ s', step N q ⟨upd s.procs p ps1, upd s.chans c cs1⟩ = some s' ∧
              step N p ⟨upd s.procs q ps2, upd s.chans c cs2⟩ = some s' := by
      intro p q ps1 ps2 cs1 cs2 hpq hc1 hc2 hf1 hf2 hr
      have hqp : q ≠ p := fun h => hpq h.symm
      have hw : (opOf N q (s.procs q)).isWriter = true := by
        rcases role _ _ hc2 with h | h
        · have e1 := reader_owner N hO p _ c hr hc1
          have e2 := reader_owner N hO q _ c h hc2
          exact absurd (e1.symm.trans e2) hpq
        · exact h
      obtain ⟨cs', g1, g2⟩ := fire_comm (N.cap c) _ _ _ _ hr hw _ _ _ _ _ hf1 hf2
      refine ⟨⟨upd (upd s.procs p ps1) q ps2, upd s.chans c cs'⟩, ?_, ?_⟩
      · have := step_of N q ⟨upd s.procs p ps1, upd s.chans c cs1⟩ c ps2 cs'
          (by simpa [upd_other _ _ _ _ hqp] using hc2)
          (by simpa [upd_other _ _ _ _ hqp, upd_same] using g2)
        simpa [upd_upd] using this
      · have := step_of N p ⟨upd s.procs q ps2, upd s.chans c cs2⟩ c ps1 cs'
          (by simpa [upd_other _ _ _ _ hpq] using hc1)
          (by simpa [upd_other _ _ _ _ hpq, upd_same] using g1)
        rw [upd_comm _ _ _ _ _ hpq]
        simpa [upd_upd] using this
    rcases role _ _ hc1 with hr | hw1
    · exact key p q ps1 ps2 cs1 cs2 hpq hc1 hc2 hf1 hf2 hr
    · -- p writes, so q must read
      have hr2 : (opOf N q (s.procs q)).isReader = true := by
        rcases role _ _ hc2 with h | h
        · exact h
        · have e1 := writer_owner N hO p _ c (fun c' h' => hW p c' h') hw1 hc1
          have e2 := writer_owner N hO q _ c (fun c' h' => hW q c' h') h hc2
          exact absurd (e1.symm.trans e2) hpq
      obtain ⟨s', g1, g2⟩ := key q p ps2 ps1 cs2 cs1 hqp hc2 hc1 hf2 hf1 hr2
      exact ⟨s', g2, g1⟩
  · -- different channels: nothing either step reads is written by the other
    have hdc : d ≠ c := fun h => hcd h.symm
    refine ⟨⟨upd (upd s.procs p ps1) q ps2, upd (upd s.chans c cs1) d cs2⟩, ?_, ?_⟩
    · exact step_of N q ⟨upd s.procs p ps1, upd s.chans c cs1⟩ d ps2 cs2
        (by simpa [upd_other _ _ _ _ hqp] using hc2)
        (by simpa [upd_other _ _ _ _ hqp, upd_other _ _ _ _ hdc] using hf2)
    · have := step_of N p ⟨upd s.procs q ps2, upd s.chans d cs2⟩ c ps1 cs1
        (by simpa [upd_other _ _ _ _ hpq] using hc1)
        (by simpa [upd_other _ _ _ _ hpq, upd_other _ _ _ _ hcd] using hf1)
      rw [upd_comm _ _ _ _ _ hpq, upd_comm _ _ _ _ _ hcd]
      exact this

/-! ### runs -/

theorem run_wf (N : Network L V) (hO : Owned N) (t : List Nat) (s s' : St L V) (hW : WF N s)
    (h : run N t s = some s') : WF N s' := by
  induction t generalizing s with
  | nil => simp only [run, Option.some.injEq] at h; subst h; exact hW
  | cons p t ih =>
    simp only [run] at h
    cases hs : step N p s with
    | none => simp [hs] at h
    | some a => simp only [hs, Option.bind_some] at h; exact ih a (step_wf N hO p s a hW hs) h

/-- if `p` can move now and some schedule reaches the terminal state `e`, then after `p`'s step a schedule
    one step shorter reaches `e` -/
theorem strip (N : Network L V) (hO : Owned N) (t : List Nat) (s a e : St L V) (p : Nat) (hW : WF N s)
    (hp : step N p s = some a) (hr : run N t s = some e) (hT : Terminal N e) :
    ∃ t', run N t' a = some e ∧ t'.length + 1 = t.length := by
  induction t generalizing s a with
  | nil =>
    simp only [run, Option.some.injEq] at hr; subst hr
    rw [hT p] at hp; simp at hp
  | cons q rest ih =>
    simp only [run] at hr
    cases hq : step N q s with
    | none => simp [hq] at hr
    | some b =>
      simp only [hq, Option.bind_some] at hr
      by_cases hqp : q = p
      · subst hqp
        rw [hq] at hp; simp only [Option.some.injEq] at hp; subst hp
        exact ⟨rest, hr, rfl⟩
      · obtain ⟨d, h1, h2⟩ := diamond N hO s hW p q (fun h => hqp h.symm) a b hp hq
        obtain ⟨r', hr', hl⟩ := ih b d (step_wf N hO q s b hW hq) h2 hr
        refine ⟨q :: r', ?_, by simp [hl]⟩
        simp [run, h1, hr']

/-- **Determinacy**: if one schedule reaches a terminal state `e`, every other schedule is at most as long and can be
    continued to `e` -/
theorem determinacy (N : Network L V) (hO : Owned N) (t1 t2 : List Nat) (s e s2 : St L V) (hW : WF N s)
    (h1 : run N t1 s = some e) (hT : Terminal N e) (h2 : run N t2 s = some s2) :
    ∃ t3, run N t3 s2 = some e ∧ t2.length + t3.length = t1.length := by
  induction t2 generalizing s t1 with
  | nil => simp only [run, Option.some.injEq] at h2; subst h2; exact ⟨t1, h1, by simp⟩
  | cons p rest ih =>
    simp only [run] at h2
    cases hp : step N p s with
    | none => simp [hp] at h2
    | some a =>
      simp only [hp, Option.bind_some] at h2
      obtain ⟨t1', hr, hl⟩ := strip N hO t1 s a e p hW hp h1 hT
      obtain ⟨t3, h3, hl3⟩ := ih t1' a (step_wf N hO p s a hW hp) hr h2
      exact ⟨t3, h3, by simp only [List.length_cons]; omega⟩

theorem run_terminal_nil (N : Network L V) (t : List Nat) (s e : St L V) (hT : Terminal N s)
    (h : run N t s = some e) : t = [] ∧ e = s := by
  cases t with
  | nil => simp only [run, Option.some.injEq] at h; exact ⟨rfl, h.symm⟩
  | cons p rest => simp [run, hT p] at h

/-- **Schedule independence**: two schedules that both run to a terminal state end in the same state — the same
    local state of every process (hence the same values delivered, in the same order), the same queues, the same
    verdict (clean termination or deadlock) — after the same number of steps -/
theorem terminal_unique (N : Network L V) (hO : Owned N) (t1 t2 : List Nat) (s e1 e2 : St L V) (hW : WF N s)
    (h1 : run N t1 s = some e1) (hT1 : Terminal N e1) (h2 : run N t2 s = some e2) (hT2 : Terminal N e2) :
    e1 = e2 ∧ t1.length = t2.length := by
  obtain ⟨t3, h3, hl⟩ := determinacy N hO t1 t2 s e1 e2 hW h1 hT1 h2
  obtain ⟨rfl, rfl⟩ := run_terminal_nil N t3 e2 e1 hT2 h3
  exact ⟨rfl, by simpa using hl.symm⟩

/-- no schedule runs forever or longer than the one observed: a terminating schedule bounds all others -/
theorem no_longer_schedule (N : Network L V) (hO : Owned N) (t1 t2 : List Nat) (s e s2 : St L V) (hW : WF N s)
    (h1 : run N t1 s = some e) (hT : Terminal N e) (h2 : run N t2 s = some s2) : t2.length ≤ t1.length := by
  obtain ⟨t3, _, hl⟩ := determinacy N hO t1 t2 s e s2 hW h1 hT h2; omega

theorem allHalted_terminal (N : Network L V) (s : St L V) (h : AllHalted N s) : Terminal N s := by
  intro p
  obtain ⟨h1, h2⟩ := h p
  unfold step opOf
  simp [h1, h2, Op.chan]

/-! ### larger capacities -/

/-- same processes and ownership, pointwise larger capacities -/
structure Larger (N N' : Network L V) : Prop where
  act_eq : N'.act = N.act
  cap_le : ∀ c, N.cap c ≤ N'.cap c

/-- `s'` is `s` except that some processes that wait for a hand-over in `s` do not wait in `s'` -/
def Rel (s s' : St L V) : Prop :=
  s'.chans = s.chans ∧ ∀ p, (s'.procs p).1 = (s.procs p).1 ∧ ((s'.procs p).2 = (s.procs p).2 ∨ (s'.procs p).2 = none)

theorem rel_refl (s : St L V) : Rel s s := ⟨rfl, fun _ => ⟨rfl, Or.inl rfl⟩⟩

theorem rel_upd (s s' : St L V) (h : Rel s s') (p c : Nat) (ps ps' : PS L) (cs : CS V)
    (h1 : ps'.1 = ps.1) (h2 : ps'.2 = ps.2 ∨ ps'.2 = none) :
    Rel ⟨upd s.procs p ps, upd s.chans c cs⟩ ⟨upd s'.procs p ps', upd s'.chans c cs⟩ := by
  refine ⟨by simp [h.1], ?_⟩
  intro q
  by_cases hq : q = p
  · subst hq; simp [upd_same, h1, h2]
  · simp only [upd_other _ _ _ _ hq]; exact h.2 q

/-- every step with the small capacities is a step, or a skipped hand-over wait, with the larger ones -/
theorem step_sim (N N' : Network L V) (hL : Larger N N') (p : Nat) (s s' a : St L V) (hR : Rel s s')
    (h : step N p s = some a) : (∃ a', step N' p s' = some a' ∧ Rel a a') ∨ Rel a s' := by
  obtain ⟨c, ps1, cs1, hc, hf, rfl⟩ := step_some N p s a h
  obtain ⟨hch, hpr⟩ := hR
  obtain ⟨hl, hpd⟩ := hpr p
  have hR : Rel s s' := ⟨hch, hpr⟩
  cases hp : (s.procs p).2 with
  | some c0 =>
    -- a hand-over wait
    have hop : opOf N p (s.procs p) = .sync c0 := by unfold opOf; simp [hp]
    rw [hop] at hc hf
    simp only [Op.chan, Option.some.injEq] at hc; subst hc
    rcases hcs : s.chans c0 with ⟨qq, cl⟩
    cases qq with
    | cons x r => simp [Op.fire, hcs] at hf
    | nil =>
      simp only [Op.fire, hcs, Option.some.injEq, Prod.mk.injEq] at hf
      obtain ⟨rfl, rfl⟩ := hf
      rcases hpd with e | e
      · left
        have hop' : opOf N' p (s'.procs p) = .sync c0 := by unfold opOf; simp [e, hp]
        refine ⟨⟨upd s'.procs p ((s'.procs p).1, none), upd s'.chans c0 ([], cl)⟩, ?_, ?_⟩
        · apply step_of N' p s' c0
          · simp [hop', Op.chan]
          · simp [hop', Op.fire, hch, hcs]
        · exact rel_upd s s' hR p c0 _ _ _ hl (Or.inl rfl)
      · right
        refine ⟨?_, ?_⟩
        · simp only [hch]; funext k; simp only [upd]; split
          · rename_i hk; subst hk; exact hcs
          · rfl
        · intro q
          by_cases hq : q = p
          · subst hq; simp [upd_same, hl, e]
          · simp only [upd_other _ _ _ _ hq]; exact hpr q
  | none =>
    have e : (s'.procs p).2 = none := by rcases hpd with e | e; exact e.trans hp; exact e
    have hop' : opOf N' p (s'.procs p) = opOf N p (s.procs p) := by
      unfold opOf; simp only [e, hp, hl, hL.act_eq]
    left
    -- the same operation fires with the larger capacity, with at most a dropped wait
    have hfire : ∃ ps1', (opOf N p (s.procs p)).fire (N'.cap c) (s.procs p).1 (s.chans c) = some (ps1', cs1) ∧
        ps1'.1 = ps1.1 ∧ (ps1'.2 = ps1.2 ∨ ps1'.2 = none) := by
      cases ho : opOf N p (s.procs p) with
      | rd c1 k => rw [ho] at hf; exact ⟨ps1, by rw [fire_rd_cap _ (N.cap c)]; exact hf, rfl, Or.inl rfl⟩
      | cls c1 k => rw [ho] at hf; exact ⟨ps1, by rw [fire_cls_cap _ (N.cap c)]; exact hf, rfl, Or.inl rfl⟩
      | snd c1 v k =>
        rcases hcs : s.chans c with ⟨qq, cl⟩
        rw [ho, hcs] at hf
        cases cl
        · simp only [Op.fire] at hf ⊢
          split at hf
          · rename_i hlen
            simp only [Option.some.injEq, Prod.mk.injEq] at hf
            obtain ⟨rfl, rfl⟩ := hf
            have hcap := hL.cap_le c
            have : qq.length < max 1 (N'.cap c) := by omega
            simp only [this, if_true]
            refine ⟨_, rfl, rfl, ?_⟩
            by_cases h0 : N'.cap c = 0
            · have : N.cap c = 0 := by omega
              simp [h0, this]
            · simp [h0]
          · simp at hf
        · simp [Op.fire] at hf
      | sync c1 => unfold opOf at ho; simp only [hp] at ho; split at ho <;> simp at ho
      | halt => rw [ho] at hc; simp [Op.chan] at hc
    obtain ⟨ps1', hf', h1, h2⟩ := hfire
    refine ⟨⟨upd s'.procs p ps1', upd s'.chans c cs1⟩, ?_, rel_upd s s' hR p c _ _ _ h1 h2⟩
    apply step_of N' p s' c
    · rw [hop']; exact hc
    · rw [hop', hl, hch]; exact hf'

/-- **Capacity monotonicity**: every run with the small capacities is matched by a run with the larger ones
    that ends in the same queues and local states -/
theorem capacity_mono (N N' : Network L V) (hL : Larger N N') (t : List Nat) (s s' e : St L V) (hR : Rel s s')
    (h : run N t s = some e) : ∃ t' e', run N' t' s' = some e' ∧ Rel e e' ∧ t'.length ≤ t.length := by
  induction t generalizing s s' with
  | nil => simp only [run, Option.some.injEq] at h; subst h; exact ⟨[], s', rfl, hR, by simp⟩
  | cons p rest ih =>
    simp only [run] at h
    cases hp : step N p s with
    | none => simp [hp] at h
    | some a =>
      simp only [hp, Option.bind_some] at h
      rcases step_sim N N' hL p s s' a hR hp with ⟨a', ha', hRa⟩ | hRa
      · obtain ⟨t', e', hr, hRe, hl⟩ := ih a a' hRa h
        exact ⟨p :: t', e', by simp [run, ha', hr], hRe, by simp; omega⟩
      · obtain ⟨t', e', hr, hRe, hl⟩ := ih a s' hRa h
        exact ⟨t', e', hr, hRe, by simp; omega⟩

theorem rel_allHalted (N N' : Network L V) (hL : Larger N N') (e e' : St L V) (hR : Rel e e')
    (h : AllHalted N e) : AllHalted N' e' := by
  intro p
  obtain ⟨h1, h2⟩ := h p
  obtain ⟨hl, hpd⟩ := hR.2 p
  refine ⟨by rcases hpd with x | x; exact x.trans h1; exact x, ?_⟩
  rw [hL.act_eq, hl]; exact h2

/-- **A clean termination observed with small buffers holds for every larger buffering and every schedule**: all
    schedules of the larger network that run to a terminal state end with every process finished, in the same local
    states (same delivered values) and queues -/
theorem clean_termination_for_larger_capacities (N N' : Network L V) (hO' : Owned N') (hL : Larger N N')
    (t : List Nat) (s e : St L V) (hW' : WF N' s) (h : run N t s = some e) (hH : AllHalted N e)
    (t2 : List Nat) (e2 : St L V) (h2 : run N' t2 s = some e2) (hT2 : Terminal N' e2) :
    AllHalted N' e2 ∧ e2.chans = e.chans ∧ ∀ p, (e2.procs p).1 = (e.procs p).1 := by
  obtain ⟨t', e', hr, hRe, _⟩ := capacity_mono N N' hL t s s e (rel_refl s) h
  have hH' := rel_allHalted N N' hL e e' hRe hH
  obtain ⟨rfl, _⟩ := terminal_unique N' hO' t' t2 s e' e2 hW' hr (allHalted_terminal N' e' hH') h2 hT2
  exact ⟨hH', hRe.1, fun p => (hRe.2 p).1⟩

/-! ### a concrete network of the class: Duplicate → Operate → Operate with inputs of unequal length -/

open NetM in
theorem diamondNet_owned (fixed : Bool) (cap : Nat) : Owned (diamondNet fixed cap) := by
  constructor
  · intro p l c k h
    simp only [diamondNet] at h ⊢
    split at h
    · simp only [producer] at h; split at h <;> simp at h
    · simp only [producer] at h; split at h <;> simp at h
    · simp only [dup2] at h; split at h <;> simp at h; obtain ⟨rfl, _⟩ := h; rfl
    · cases fixed
      · simp only [operateOld, Bool.false_eq_true, if_false] at h
        split at h <;> simp at h <;> (obtain ⟨rfl, _⟩ := h; rfl)
      · simp only [operateNew, if_true] at h
        split at h <;> simp at h <;> (obtain ⟨rfl, _⟩ := h; rfl)
    · cases fixed
      · simp only [operateOld, Bool.false_eq_true, if_false] at h
        split at h <;> simp at h <;> (obtain ⟨rfl, _⟩ := h; rfl)
      · simp only [operateNew, if_true] at h
        split at h <;> simp at h <;> (obtain ⟨rfl, _⟩ := h; rfl)
    · simp only [sink] at h; split at h <;> simp at h; obtain ⟨rfl, _⟩ := h; rfl
    · simp at h
  · intro p l c v k h
    simp only [diamondNet] at h ⊢
    split at h
    · simp only [producer] at h; split at h <;> simp at h; obtain ⟨rfl, _⟩ := h; rfl
    · simp only [producer] at h; split at h <;> simp at h; obtain ⟨rfl, _⟩ := h; rfl
    · simp only [dup2] at h; split at h <;> simp at h <;> (obtain ⟨rfl, _⟩ := h; rfl)
    · cases fixed
      · simp only [operateOld, Bool.false_eq_true, if_false] at h
        split at h <;> simp at h; obtain ⟨rfl, _⟩ := h; rfl
      · simp only [operateNew, if_true] at h
        split at h <;> simp at h; obtain ⟨rfl, _⟩ := h; rfl
    · cases fixed
      · simp only [operateOld, Bool.false_eq_true, if_false] at h
        split at h <;> simp at h; obtain ⟨rfl, _⟩ := h; rfl
      · simp only [operateNew, if_true] at h
        split at h <;> simp at h; obtain ⟨rfl, _⟩ := h; rfl
    · simp only [sink] at h; split at h <;> simp at h
    · simp at h
  · intro p l c k h
    simp only [diamondNet] at h ⊢
    split at h
    · simp only [producer] at h; split at h <;> simp at h; obtain ⟨rfl, _⟩ := h; rfl
    · simp only [producer] at h; split at h <;> simp at h; obtain ⟨rfl, _⟩ := h; rfl
    · simp only [dup2] at h; split at h <;> simp at h <;> (obtain ⟨rfl, _⟩ := h; rfl)
    · cases fixed
      · simp only [operateOld, Bool.false_eq_true, if_false] at h
        split at h <;> simp at h; obtain ⟨rfl, _⟩ := h; rfl
      · simp only [operateNew, if_true] at h
        split at h <;> simp at h <;> (obtain ⟨rfl, _⟩ := h; rfl)
    · cases fixed
      · simp only [operateOld, Bool.false_eq_true, if_false] at h
        split at h <;> simp at h; obtain ⟨rfl, _⟩ := h; rfl
      · simp only [operateNew, if_true] at h
        split at h <;> simp at h <;> (obtain ⟨rfl, _⟩ := h; rfl)
    · simp only [sink] at h; split at h <;> simp at h
    · simp at h

open NetM in
theorem diamondInit_wf (fixed : Bool) (cap : Nat) (as bs : List Int) : WF (diamondNet fixed cap) (diamondInit as bs) := by
  intro p c h
  simp only [diamondInit] at h
  split at h <;> simp at h

/-- with the Operate that drains before closing, inputs of lengths 3 and 1 deadlock on unbuffered channels
    (terminal state, not every process finished, the reader got one value) … -/
example : NetM.diamondRun false 0 [1, 2, 3] [10] = (true, false, [12], [0, 1, 0, 20, 0, 0]) := by decide
/-- … with capacity 2 the same pipeline happens to terminate (deadlocks depend on capacities, outputs do not) … -/
example : NetM.diamondRun false 2 [1, 2, 3] [10] = (true, true, [12], [1, 1, 5, 31, 31, 1]) := by decide
/-- … and with the repaired Operate it terminates cleanly on unbuffered channels (hence, by
    `clean_termination_for_larger_capacities`, for every capacity and every schedule) -/
example : NetM.diamondRun true 0 [1, 2, 3] [10] = (true, true, [12], [1, 1, 5, 31, 31, 1]) := by decide

end C03
