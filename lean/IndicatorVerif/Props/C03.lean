import IndicatorVerif.Model.Registry
/- C03 — theorems under construction -/
namespace C03
theorem placeholder_true : True := trivial
end C03
