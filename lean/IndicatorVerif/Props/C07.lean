import IndicatorVerif.Proofs.ArithReal
import IndicatorVerif.Model.StrategyOps
/-
  C07 — compound and decorator strategies are the documented functions of the wrapped strategies'
  action streams and the closing prices, for arbitrary action words.
-/
namespace C07
open Action StratOps

/-! ### And / Or / Majority: position-wise vote over the denormalised sources -/

/-- column `i` of the sources -/
def column (srcs : List (List Action)) (i : Nat) : List Action := srcs.map (fun s => s.getD i hold)

theorem heads_some (srcs : List (List Action)) (h : ∀ s ∈ srcs, s ≠ []) :
    heads srcs = some (srcs.map (fun s => s.headD hold), srcs.map List.tail) := by
  induction srcs with
  | nil => rfl
  | cons s rest ih =>
    cases s with
    | nil => exact absurd rfl (h [] (by simp))
    | cons a t =>
      simp only [heads, ih (fun s hs => h s (by simp [hs])), List.map_cons, List.headD_cons, List.tail_cons]

theorem heads_none (srcs : List (List Action)) (h : ∃ s ∈ srcs, s = []) : heads srcs = none := by
  induction srcs with
  | nil => obtain ⟨s, hs, _⟩ := h; simp at hs
  | cons s rest ih =>
    cases s with
    | nil => rfl
    | cons a t =>
      have : ∃ s ∈ rest, s = [] := by
        obtain ⟨s, hs, he⟩ := h
        simp at hs
        rcases hs with hs | hs
        · subst hs; cases he
        · exact ⟨s, hs, he⟩
      simp [heads, ih this]

theorem minLen_cons2 (s r : List Action) (rr : List (List Action)) :
    minLen (s :: r :: rr) = Nat.min s.length (minLen (r :: rr)) := rfl

theorem minLen_pos_iff (srcs : List (List Action)) (hne : srcs ≠ []) :
    0 < minLen srcs ↔ ∀ s ∈ srcs, s ≠ [] := by
  induction srcs with
  | nil => exact absurd rfl hne
  | cons s rest ih =>
    cases rest with
    | nil =>
      simp only [minLen, List.mem_singleton, forall_eq]
      exact List.length_pos_iff
    | cons r rr =>
      have ih' := ih (by simp)
      rw [minLen_cons2]
      constructor
      · intro h s' hs'
        have hmin : 0 < min s.length (minLen (r :: rr)) := h
        have h1 : 0 < s.length := by omega
        have h2 : 0 < minLen (r :: rr) := by omega
        rcases List.mem_cons.mp hs' with hs' | hs'
        · subst hs'; exact List.length_pos_iff.mp h1
        · exact ih'.mp h2 s' hs'
      · intro h
        have h1 : 0 < s.length := List.length_pos_iff.mpr (h s (by simp))
        have h2 : 0 < minLen (r :: rr) := ih'.mpr (fun s' hs' => h s' (List.mem_cons_of_mem _ hs'))
        show 0 < min s.length (minLen (r :: rr))
        omega

theorem minLen_tail (srcs : List (List Action)) (hne : srcs ≠ []) (h : ∀ s ∈ srcs, s ≠ []) :
    minLen (srcs.map List.tail) = minLen srcs - 1 := by
  induction srcs with
  | nil => exact absurd rfl hne
  | cons s rest ih =>
    cases rest with
    | nil => simp [minLen]
    | cons r rr =>
      have hr := ih (by simp) (fun s' hs' => h s' (by simp [hs']))
      have h1 : 0 < s.length := List.length_pos_iff.mpr (h s (by simp))
      have h2 : 0 < minLen (r :: rr) := (minLen_pos_iff (r :: rr) (by simp)).mpr (fun s' hs' => h s' (by simp [hs']))
      simp only [List.map_cons] at hr ⊢
      rw [minLen_cons2, minLen_cons2, hr, List.length_tail]
      show min (s.length - 1) (minLen (r :: rr) - 1) = min s.length (minLen (r :: rr)) - 1
      omega

/-- the vote loop is the position-wise decision, and it emits exactly `minLen` actions -/
theorem voteLoop_spec (decide : Nat → Nat → Nat → Action) (fuel : Nat) :
    ∀ (srcs : List (List Action)), srcs ≠ [] → fuel = minLen srcs →
      voteLoop decide fuel srcs =
        (List.range (minLen srcs)).map (fun i =>
          decide (countOf buy (column srcs i)) (countOf hold (column srcs i)) (countOf sell (column srcs i))) := by
  induction fuel with
  | zero => intro srcs _ h; simp [voteLoop, ← h]
  | succ fuel ih =>
    intro srcs hne hf
    have hpos : 0 < minLen srcs := by omega
    have hall := (minLen_pos_iff srcs hne).mp hpos
    simp only [voteLoop, heads_some srcs hall]
    have hmt := minLen_tail srcs hne hall
    rw [ih (srcs.map List.tail) (by simpa using hne) (by omega)]
    rw [hmt, ← hf, Nat.add_sub_cancel, List.range_succ_eq_map, List.map_cons, List.map_map]
    congr 1
    · -- column 0 = the heads
      have : column srcs 0 = srcs.map (fun s => s.headD hold) := by
        simp only [column]; apply List.map_congr_left; intro s _; cases s <;> rfl
      rw [this]
    · apply List.map_congr_left
      intro i _
      have : column (srcs.map List.tail) i = column srcs (i + 1) := by
        simp only [column, List.map_map]; apply List.map_congr_left; intro s _; cases s <;> simp [List.getD]
      simp [this]

theorem minLen_map_denormalize (srcs : List (List Action)) :
    minLen (srcs.map denormalize) = minLen srcs := by
  have hl : ∀ (l : List Action) (d : Action), (denormalizeFrom d l).length = l.length := by
    intro l; induction l with
    | nil => intro d; rfl
    | cons a t ih => intro d; simp [denormalizeFrom, ih]
  induction srcs with
  | nil => rfl
  | cons s rest ih =>
    cases rest with
    | nil => simp [minLen, denormalize, hl]
    | cons r rr => simp only [List.map_cons, minLen] at ih ⊢; rw [ih]; simp [denormalize, hl]

/-- **And**: Sell iff every standing recommendation is Sell, Buy iff every one is Buy, else Hold;
    one action per position up to the shortest source. -/
theorem and_pointwise (srcs : List (List Action)) (hne : srcs ≠ []) :
    andS srcs = (List.range (minLen srcs)).map (fun i =>
      let col := column (srcs.map denormalize) i
      if countOf sell col = srcs.length then sell else if countOf buy col = srcs.length then buy else hold) := by
  unfold andS
  rw [voteLoop_spec _ _ _ (by simpa using hne) (minLen_map_denormalize srcs).symm, minLen_map_denormalize]

theorem or_pointwise (srcs : List (List Action)) (hne : srcs ≠ []) :
    orS srcs = (List.range (minLen srcs)).map (fun i =>
      let col := column (srcs.map denormalize) i
      if countOf sell col > 0 ∧ countOf buy col = 0 then sell
      else if countOf buy col > 0 ∧ countOf sell col = 0 then buy else hold) := by
  unfold orS
  rw [voteLoop_spec _ _ _ (by simpa using hne) (minLen_map_denormalize srcs).symm, minLen_map_denormalize]

theorem majority_pointwise (srcs : List (List Action)) (hne : srcs ≠ []) :
    majorityS srcs = (List.range (minLen srcs)).map (fun i =>
      let col := column (srcs.map denormalize) i
      if countOf sell col > countOf buy col ∧ countOf sell col > countOf hold col then sell
      else if countOf buy col > countOf sell col ∧ countOf buy col > countOf hold col then buy else hold) := by
  unfold majorityS
  rw [voteLoop_spec _ _ _ (by simpa using hne) (minLen_map_denormalize srcs).symm, minLen_map_denormalize]

/-- **Split**: Buy from the first, Sell from the second, Hold on conflict -/
theorem split_spec (b s : List Action) :
    splitS b s = List.zipWith (fun x y =>
      if x = buy ∧ y ≠ sell then buy else if y = sell ∧ x ≠ buy then sell else hold) b s := by
  induction b generalizing s with
  | nil => simp [splitS]
  | cons x bt ih => cases s with
    | nil => simp [splitS]
    | cons y st => simp [splitS, ih]

/-- **Inverse** swaps Buy and Sell, position by position -/
theorem inverse_spec (l : List Action) (i : Nat) (h : i < l.length) :
    (inverseS l)[i]'(by simpa [inverseS] using h) =
      (match l[i] with | buy => sell | sell => buy | hold => hold) := by
  simp only [inverseS, List.getElem_map]
  cases l[i] <;> rfl

/-! ### No-Loss and Stop-Loss (ℝ, positive closings) -/

/-- every emitted Sell happens at a close strictly above the close of the preceding emitted Buy -/
def NoLossSafe : Option ℝ → List Action → List ℝ → Prop
  | b, o :: ot, c :: ct =>
    match o with
    | buy => NoLossSafe (some c) ot ct
    | sell => (∃ p, b = some p ∧ p < c) ∧ NoLossSafe none ot ct
    | hold => NoLossSafe b ot ct
  | _, _, _ => True

theorem noLoss_safe_from (acts : List Action) (cl : List ℝ) (hc : ∀ c ∈ cl, 0 < c) :
    ∀ (bAt : ℝ) (b : Option ℝ), ((bAt = 0 ∧ b = none) ∨ (0 < bAt ∧ b = some bAt)) →
      NoLossSafe b (noLossFrom bAt acts cl) cl := by
  induction acts generalizing cl with
  | nil => intro bAt b _; cases cl <;> simp [noLossFrom, NoLossSafe]
  | cons a at_ ih =>
    intro bAt b hb
    cases cl with
    | nil => simp [noLossFrom, NoLossSafe]
    | cons c ct =>
      have hcp : 0 < c := hc c (by simp)
      have hct : ∀ z ∈ ct, 0 < z := fun z hz => hc z (by simp [hz])
      simp only [noLossFrom, ArithReal.arith_beq, ArithReal.arith_nat, Nat.cast_zero, Arith.bne, ArithReal.arith_lt]
      rcases hb with ⟨h0, hn⟩ | ⟨hp, hs⟩
      · subst h0; subst hn
        by_cases ha : a = buy
        · simp only [ha, and_self, if_true, NoLossSafe]
          exact ih ct hct c (some c) (Or.inr ⟨hcp, rfl⟩)
        · have hb0 : Arith.beq (0 : ℝ) 0 = true := by simp
          simp only [ha, false_and, if_false, hb0, Bool.not_true, Bool.false_eq_true, and_false, NoLossSafe]
          exact ih ct hct 0 none (Or.inl ⟨rfl, rfl⟩)
      · subst hs
        have hne : ¬ (bAt = 0) := ne_of_gt hp
        have hbq : Arith.beq bAt (0 : ℝ) = false := by
          cases h : Arith.beq bAt (0 : ℝ) with
          | false => rfl
          | true => exact absurd ((ArithReal.arith_beq _ _).mp h) hne
        simp only [hne, and_false, if_false, hbq, Bool.not_false, true_and]
        by_cases hsell : a = sell ∧ bAt < c
        · simp only [hsell, and_self, if_true, NoLossSafe]
          exact ⟨⟨bAt, rfl, hsell.2⟩, ih ct hct 0 none (Or.inl ⟨rfl, rfl⟩)⟩
        · simp only [hsell, if_false, NoLossSafe]
          exact ih ct hct bAt (some bAt) (Or.inr ⟨hp, rfl⟩)

/-- **No-Loss**: a decorated strategy never sells at a close that is not above the close of its preceding Buy -/
theorem noLoss_safe (acts : List Action) (cl : List ℝ) (hc : ∀ c ∈ cl, 0 < c) :
    NoLossSafe none (noLossS acts cl) cl := by
  have := noLoss_safe_from acts cl hc 0 none (Or.inl ⟨rfl, rfl⟩)
  simpa [noLossS] using this

/-- while invested with stop level `s`, a Hold is only emitted at closes above `s`; the first close at or
    below it is a Sell -/
def StopLossOk (pct : ℝ) : Option ℝ → List Action → List ℝ → Prop
  | st, o :: ot, c :: ct =>
    match o with
    | buy => StopLossOk pct (some (c * (1 - pct))) ot ct
    | sell => StopLossOk pct none ot ct
    | hold => (∀ s, st = some s → s < c) ∧ StopLossOk pct st ot ct
  | _, _, _ => True

theorem stopLoss_first_from (pct : ℝ) (h0 : 0 ≤ pct) (h1 : pct < 1) (acts : List Action) (cl : List ℝ)
    (hc : ∀ c ∈ cl, 0 < c) :
    ∀ (sAt : ℝ) (st : Option ℝ), ((sAt = 0 ∧ st = none) ∨ (0 < sAt ∧ st = some sAt)) →
      StopLossOk pct st (stopLossFrom pct sAt acts cl) cl := by
  induction acts generalizing cl with
  | nil => intro sAt st _; cases cl <;> simp [stopLossFrom, StopLossOk]
  | cons a at_ ih =>
    intro sAt st hst
    cases cl with
    | nil => simp [stopLossFrom, StopLossOk]
    | cons c ct =>
      have hcp : 0 < c := hc c (by simp)
      have hct : ∀ z ∈ ct, 0 < z := fun z hz => hc z (by simp [hz])
      have hstop : 0 < c * (1 - pct) := by apply mul_pos hcp; linarith
      simp only [stopLossFrom, ArithReal.arith_beq, ArithReal.arith_nat, Nat.cast_zero, Nat.cast_one, Arith.bne,
        ArithReal.arith_le, ArithReal.mul_eq, ArithReal.sub_eq]
      rcases hst with ⟨hz, hn⟩ | ⟨hp, hs⟩
      · subst hz; subst hn
        have hb0 : Arith.beq (0 : ℝ) 0 = true := by simp
        by_cases ha : a = buy
        · simp only [ha, and_self, if_true, StopLossOk]
          exact ih ct hct _ _ (Or.inr ⟨hstop, rfl⟩)
        · simp only [ha, false_and, if_false, hb0, Bool.not_true, Bool.false_eq_true, StopLossOk]
          exact ⟨fun s hs => by simp at hs, ih ct hct 0 none (Or.inl ⟨rfl, rfl⟩)⟩
      · subst hs
        have hne : ¬ (sAt = 0) := ne_of_gt hp
        have hbq : Arith.beq sAt (0 : ℝ) = false := by
          cases h : Arith.beq sAt (0 : ℝ) with
          | false => rfl
          | true => exact absurd ((ArithReal.arith_beq _ _).mp h) hne
        simp only [hne, and_false, if_false, hbq, Bool.not_false, true_and]
        by_cases hx : a = sell ∨ c ≤ sAt
        · simp only [hx, if_true, StopLossOk]
          exact ih ct hct 0 none (Or.inl ⟨rfl, rfl⟩)
        · simp only [hx, if_false, StopLossOk]
          refine ⟨fun s hs => ?_, ih ct hct sAt (some sAt) (Or.inr ⟨hp, rfl⟩)⟩
          have hs' : sAt = s := by simpa using hs
          subst hs'
          have : ¬ (c ≤ sAt) := fun h => hx (Or.inr h)
          exact lt_of_not_ge this

/-- **Stop-Loss**: after a Buy at close `c₀` the decorated strategy sells at the first close at or below
    `c₀ · (1 − pct)` (it never holds through such a close).  The excluded point `pct = 1` makes the stop level 0,
    which collides with the "not invested" flag: examined against the real code by the check, not claimed. -/
theorem stopLoss_first (pct : ℝ) (h0 : 0 ≤ pct) (h1 : pct < 1) (acts : List Action) (cl : List ℝ)
    (hc : ∀ c ∈ cl, 0 < c) : StopLossOk pct none (stopLossS pct acts cl) cl := by
  have := stopLoss_first_from pct h0 h1 acts cl hc 0 none (Or.inl ⟨rfl, rfl⟩)
  simpa [stopLossS] using this

/-! non-vacuity -/
example : andS [[buy, hold, sell], [buy, buy, buy]] = [buy, buy, hold] := by decide
example : majorityS [[buy], [buy], [sell]] = [buy] := by decide

end C07
