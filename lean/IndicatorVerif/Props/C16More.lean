import IndicatorVerif.Props.C16
/-
  C16, continued — the stream helpers that have a goroutine model in Model/Stream.lean but no
  theorem in Props/C16: ChangePercent, Since, Seq, Echo.  Core-only.
-/
namespace C16
open Stream
variable {α β γ ρ : Type}

/-! ### ChangePercent = ChangeRatio × 100 -/

/-- slice counterpart: `((c[j+k] - c[j]) / c[j]) * 100`, defined here -/
def changePercentS (sub div mul : α → α → α) (hundred : α) (k : Nat) (l : List α) : List α :=
  List.zipWith (fun cur old => mul (div (sub cur old) old) hundred) (l.drop k) l

theorem changePercent_eq (sub div mul : α → α → α) (hundred : α) (k : Nat) (l : List α) :
    changePercentM sub div mul hundred k l = changePercentS sub div mul hundred k l := by
  simp only [changePercentM, changePercentS, map_eq, changeRatio_eq, changeRatioS, List.map_zipWith]

theorem changePercent_eq_map (sub div mul : α → α → α) (hundred : α) (k : Nat) (l : List α) :
    changePercentM sub div mul hundred k l
      = (changeRatioS sub div k l).map (fun n => mul n hundred) := by
  simp only [changePercentM, map_eq, changeRatio_eq]

theorem changePercent_length (sub div mul : α → α → α) (hundred : α) (k : Nat) (l : List α) :
    (changePercentM sub div mul hundred k l).length = l.length - k := by
  simp [changePercent_eq, changePercentS]

theorem changeRatio_length (sub div : α → α → α) (k : Nat) (l : List α) :
    (changeRatioM sub div k l).length = l.length - k := by
  simp [changeRatio_eq, changeRatioS]

/-! ### Since -/

theorem iter_succ_out (f : β → β) (n : Nat) (b : β) : iter f (n + 1) b = f (iter f n b) := by
  induction n generalizing b with
  | zero => rfl
  | succ n ih => rw [iter, ih (f b)]; rfl

/-- inside a run: the slice recursion `sinceS.go` emits the current count and then exactly what the
    goroutine emits from the state (run start, current count) -/
theorem since_go (beq : α → α → Bool) (succ : β → β) (zeroR : β) (t : List α) :
    ∀ (last : α) (cnt : Nat),
      (sinceS.go beq last cnt t).map (fun k => iter succ k zeroR)
        = iter succ cnt zeroR :: sinceM beq succ zeroR (some last, iter succ cnt zeroR) t := by
  induction t with
  | nil => intro last cnt; simp [sinceS.go, sinceM]
  | cons y t ih =>
    intro last cnt
    by_cases h : beq last y = true
    · simp only [sinceS.go, sinceM, sinceStep, h, if_true, List.map_cons]
      rw [ih last (cnt + 1), iter_succ_out]
    · simp only [sinceS.go, sinceM, sinceStep, h, if_false, List.map_cons, Bool.false_eq_true]
      rw [ih y 0]; rfl

/-- Since (any result type `R` with `count = 0` / `count++`), started as in Go (`first = true`;
    the initial `count` is irrelevant): the run-length counter `sinceS`, read in `R`. -/
theorem since_eq (beq : α → α → Bool) (succ : β → β) (zeroR b0 : β) (xs : List α) :
    sinceM beq succ zeroR (none, b0) xs = (sinceS beq xs).map (fun k => iter succ k zeroR) := by
  cases xs with
  | nil => rfl
  | cons x t =>
    simp only [sinceS, sinceM, sinceStep]
    rw [since_go]; rfl

theorem iter_succ_nat (k : Nat) : iter Nat.succ k 0 = k := by
  induction k with
  | zero => rfl
  | succ k ih => rw [iter_succ_out, ih]

/-- … and for `R = Nat` literally -/
theorem since_eq_nat (beq : α → α → Bool) (b0 : Nat) (xs : List α) :
    sinceM beq Nat.succ 0 (none, b0) xs = sinceS beq xs := by
  rw [since_eq]
  conv => rhs; rw [← List.map_id (sinceS beq xs)]
  apply List.map_congr_left
  intro k _; exact iter_succ_nat k

theorem sinceM_length (beq : α → α → Bool) (succ : β → β) (zeroR : β) (xs : List α) :
    ∀ st, (sinceM beq succ zeroR st xs).length = xs.length := by
  induction xs with
  | nil => intro st; rfl
  | cons x t ih => intro st; simp [sinceM, ih]

/-- one output per input, from any state -/
theorem since_length (beq : α → α → Bool) (succ : β → β) (zeroR b0 : β) (xs : List α) :
    (sinceM beq succ zeroR (none, b0) xs).length = xs.length := sinceM_length beq succ zeroR xs _

theorem sinceS_length (beq : α → α → Bool) (xs : List α) : (sinceS beq xs).length = xs.length := by
  have := since_length beq Nat.succ 0 0 xs
  rwa [since_eq_nat] at this

example : sinceM (fun a b : Nat => a == b) Nat.succ 0 (none, 0) [7, 7, 7, 2, 2, 7, 3, 3, 3, 3]
    = [0, 1, 2, 0, 1, 0, 0, 1, 2, 3] := by decide
example : sinceM (fun a b : Nat => a == b) Nat.succ 0 (none, 5) ([] : List Nat) = [] := by decide
example : sinceM (fun a b : Nat => a == b) (· + 1) (0 : Int) (none, 0) [4] = [0] := by decide

/-! ### Since, positionally (a slice counterpart made of take / reverse / takeWhile) -/

/-- run length ending at the head of a reversed prefix: how many values immediately before the
    newest one are equal to it -/
def runBack (beq : α → α → Bool) : List α → Nat
  | [] => 0
  | x :: h => (h.takeWhile (fun y => beq y x)).length

/-- positional slice counterpart of Since (defined here, through take / reverse / takeWhile):
    output i = number of values immediately preceding `xs[i]` that are equal to it -/
def sinceL (beq : α → α → Bool) (xs : List α) : List Nat :=
  (List.range xs.length).map (fun i => runBack beq (xs.take (i + 1)).reverse)

structure RunInv (beq : α → α → Bool) (last : α) (cnt : Nat) (run older : List α) : Prop where
  len : run.length = cnt + 1
  same : ∀ y ∈ run, ∀ w, beq y w = beq last w
  stop : ∀ z ∈ older.head?, ∀ w, beq last w = true → beq z w = false

theorem since_go_pos (beq : α → α → Bool)
    (hsymm : ∀ a b, beq a b = beq b a)
    (htrans : ∀ a b c, beq a b = true → beq b c = true → beq a c = true) (t : List α) :
    ∀ (last : α) (cnt : Nat) (run older : List α), RunInv beq last cnt run older →
      sinceS.go beq last cnt t
        = cnt :: (List.range t.length).map
            (fun i => runBack beq ((t.take (i + 1)).reverse ++ (run ++ older))) := by
  induction t with
  | nil => intro last cnt run older _; simp [sinceS.go]
  | cons y t ih =>
    intro last cnt run older inv
    simp only [sinceS.go, List.length_cons, List.range_succ_eq_map, List.map_cons, List.map_map]
    congr 1
    obtain ⟨z, run', hrun⟩ : ∃ z run', run = z :: run' := by
      cases run with
      | nil => have := inv.len; simp at this
      | cons z r => exact ⟨z, r, rfl⟩
    by_cases h : beq last y = true
    · have hy : ∀ w, beq y w = beq last w := by
        intro w
        cases hw : beq last w with
        | true => exact htrans y last w (by rw [hsymm]; exact h) hw
        | false =>
          cases hyw : beq y w with
          | false => rfl
          | true => have := htrans last y w h hyw; rw [hw] at this; cases this
      have inv' : RunInv beq last (cnt + 1) (y :: run) older :=
        ⟨by simp [inv.len], by
          intro v hv w
          rcases List.mem_cons.mp hv with rfl | hv
          · exact hy w
          · exact inv.same v hv w, inv.stop⟩
      simp only [h, if_true]
      rw [ih last (cnt + 1) (y :: run) older inv']
      have hback : runBack beq (y :: (run ++ older)) = cnt + 1 := by
        simp only [runBack]
        rw [List.takeWhile_append_of_pos (by intro a ha; rw [inv.same a ha y]; exact h)]
        have : older.takeWhile (fun v => beq v y) = [] := by
          cases older with
          | nil => rfl
          | cons o os =>
            have := inv.stop o (by simp) y h
            simp [this]
        simp [this, inv.len]
      simp [hback, Function.comp_def]
    · have hf : beq last y = false := by simpa using h
      have inv' : RunInv beq y 0 [y] (run ++ older) :=
        ⟨rfl, by intro v hv w; simp at hv; rw [hv], by
          intro z' hz' w hw
          rw [hrun] at hz'
          simp at hz'
          subst hz'
          rw [inv.same z (by rw [hrun]; simp) w]
          cases hlw : beq last w with
          | false => rfl
          | true =>
            have := htrans last w y hlw (by rw [hsymm]; exact hw)
            rw [hf] at this; cases this⟩
      simp only [hf, Bool.false_eq_true, if_false]
      rw [ih y 0 [y] (run ++ older) inv']
      have hback : runBack beq (y :: (run ++ older)) = 0 := by
        simp only [runBack, hrun, List.cons_append]
        have : beq z y = false := by rw [inv.same z (by rw [hrun]; simp) y]; exact hf
        simp [this]
      simp [hback, Function.comp_def]

/-- Since, positionally: for an equality test that is symmetric and transitive (Go's `==` on a
    comparable type, NaN included — reflexivity is not needed), output i counts the values
    immediately before `xs[i]` equal to it. -/
theorem sinceS_eq_sinceL (beq : α → α → Bool)
    (hsymm : ∀ a b, beq a b = beq b a)
    (htrans : ∀ a b c, beq a b = true → beq b c = true → beq a c = true) (xs : List α) :
    sinceS beq xs = sinceL beq xs := by
  cases xs with
  | nil => rfl
  | cons x t =>
    have inv : RunInv beq x 0 [x] [] := ⟨rfl, by intro v hv w; simp at hv; rw [hv], by simp⟩
    simp only [sinceS, sinceL, List.length_cons, List.range_succ_eq_map, List.map_cons, List.map_map]
    rw [since_go_pos beq hsymm htrans t x 0 [x] [] inv]
    simp [runBack, Function.comp_def]

theorem since_eq_pos (beq : α → α → Bool) (succ : β → β) (zeroR b0 : β)
    (hsymm : ∀ a b, beq a b = beq b a)
    (htrans : ∀ a b c, beq a b = true → beq b c = true → beq a c = true) (xs : List α) :
    sinceM beq succ zeroR (none, b0) xs = (sinceL beq xs).map (fun k => iter succ k zeroR) := by
  rw [since_eq, sinceS_eq_sinceL beq hsymm htrans]

example : sinceL (fun a b : Nat => a == b) [7, 7, 7, 2, 2, 7, 3, 3, 3, 3]
    = [0, 1, 2, 0, 1, 0, 0, 1, 2, 3] := by decide

/-! ### Seq (integers, positive increment; Go's fixed-width overflow is outside the model) -/

/-- number of values: ⌈(to − from) / inc⌉, 0 when `to ≤ from` -/
def seqCount (from_ to_ inc : Int) : Nat := ((to_ - from_ + inc - 1) / inc).toNat

/-- slice counterpart (defined here): `from, from+inc, …`, `seqCount` values -/
def seqS (from_ to_ inc : Int) : List Int :=
  (List.range (seqCount from_ to_ inc)).map (fun (i : Nat) => from_ + (i : Int) * inc)

theorem seqCount_done (from_ to_ inc : Int) (hinc : 0 < inc) (h : ¬ from_ < to_) :
    seqCount from_ to_ inc = 0 := by
  unfold seqCount
  have : (to_ - from_ + inc - 1) / inc < 1 := Int.ediv_lt_of_lt_mul hinc (by omega)
  omega

theorem seqCount_step (from_ to_ inc : Int) (hinc : 0 < inc) (h : from_ < to_) :
    seqCount from_ to_ inc = seqCount (from_ + inc) to_ inc + 1 := by
  unfold seqCount
  have e : to_ - from_ + inc - 1 = (to_ - (from_ + inc) + inc - 1) + 1 * inc := by omega
  have h0 : 0 ≤ (to_ - (from_ + inc) + inc - 1) / inc := Int.ediv_nonneg (by omega) (by omega)
  rw [e, Int.add_mul_ediv_right _ _ (by omega)]
  omega

/-- Seq: for every positive increment and every fuel that does not cut the loop short -/
theorem seq_eq (to_ inc : Int) (hinc : 0 < inc) (fuel : Nat) :
    ∀ from_ : Int, seqCount from_ to_ inc ≤ fuel → seqM from_ to_ inc fuel = seqS from_ to_ inc := by
  induction fuel with
  | zero =>
    intro from_ h
    have : seqCount from_ to_ inc = 0 := by omega
    simp [seqM, seqS, this]
  | succ fuel ih =>
    intro from_ h
    by_cases hlt : from_ < to_
    · have hs := seqCount_step from_ to_ inc hinc hlt
      simp only [seqM, hlt, if_true]
      rw [ih (from_ + inc) (by omega)]
      simp only [seqS, hs, List.range_succ_eq_map, List.map_cons, List.map_map]
      congr 1
      · simp
      · apply List.map_congr_left
        intro i _
        simp only [Function.comp_def, Nat.succ_eq_add_one, Int.natCast_add, Int.natCast_one,
          Int.add_mul, Int.one_mul]
        omega
    · simp [seqM, hlt, seqS, seqCount_done from_ to_ inc hinc hlt]

theorem seq_length (from_ to_ inc : Int) (hinc : 0 < inc) (fuel : Nat)
    (h : seqCount from_ to_ inc ≤ fuel) : (seqM from_ to_ inc fuel).length = seqCount from_ to_ inc := by
  rw [seq_eq to_ inc hinc fuel from_ h]; simp [seqS]

example : seqM 2 11 3 10 = [2, 5, 8] := by decide
example : seqS 2 11 3 = [2, 5, 8] := by decide
example : seqM 5 5 1 10 = [] := by decide
example : seqM 7 3 2 10 = [] := by decide
example : seqS 0 1 5 = [0] := by decide

/-! ### Echo -/

/-- slice counterpart (defined here).  The echoed block is what `memory.At(0..last-1)` holds: the
    last `last` inputs — and, when the input is *shorter* than `last`, all the inputs followed by
    `last - len` zero values (the ring slots never written). -/
def echoS (zero : α) (last count : Nat) (xs : List α) : List α :=
  xs ++ (List.replicate count
          (xs.drop (xs.length - last) ++ List.replicate (last - xs.length) zero)).flatten

/-- a ring that is not full has never wrapped: it begins at slot 0 and the slots not yet written
    still hold the zero value -/
def Fresh (z : α) (r : RingBuf α) : Prop :=
  r.count < r.buffer.length →
    r.begin_ = 0 ∧ ∀ i, r.count ≤ i → i < r.buffer.length → r.buffer.getD i r.zero = z

theorem fresh_new (z : α) (n : Nat) : Fresh z (RingBuf.new z n) := by
  intro _
  refine ⟨rfl, ?_⟩
  intro i _ hi
  simp only [RingBuf.new, List.length_replicate] at hi
  simp [RingBuf.new, List.getD, hi]

theorem fresh_put (z x : α) (r : RingBuf α) (h : RingBuf.Inv r) (hf : Fresh z r) :
    Fresh z (r.put x).1 := by
  intro hlt
  have hcp := RingBuf.count_put r x h
  obtain ⟨f1, f2, f3, f4⟩ := RingBuf.facts r h
  have hcap : (r.put x).1.buffer.length = r.buffer.length := by simp [RingBuf.put]
  rw [hcap] at hlt
  by_cases hfull : r.isFull = true
  · simp only [hfull, if_true] at hcp; omega
  · simp only [hfull, Bool.false_eq_true, if_false] at hcp
    obtain ⟨hb, hz⟩ := hf (by omega)
    have hend : r.end_ = r.count := by
      rw [hb] at f2; simp only [Nat.zero_add] at f2; split at f2 <;> omega
    refine ⟨?_, ?_⟩
    · simp [RingBuf.put, hfull, hb]
    · intro i hi1 hi2
      rw [hcap] at hi2
      simp only [RingBuf.put]
      rw [RingBuf.getD_set_ne _ _ _ _ _ (by omega)]
      exact hz i (by omega) hi2

theorem foldPut_fresh (z : α) (l : List α) : ∀ (r : RingBuf α), RingBuf.Inv r → Fresh z r →
    Fresh z (l.foldl (fun r n => (r.put n).1) r) := by
  induction l with
  | nil => intro r _ hf; exact hf
  | cons x t ih =>
    intro r inv hf
    exact ih _ (RingBuf.put_inv r x inv) (fresh_put z x r inv hf)

/-- what `memory.At(0), …, memory.At(last-1)` read after the copy loop -/
theorem echo_memory (z : α) (last : Nat) (hlast : 0 < last) (xs : List α) :
    (List.range last).map
        (fun j => (xs.foldl (fun r n => (r.put n).1) (RingBuf.new z last)).atIdx j)
      = xs.drop (xs.length - last) ++ List.replicate (last - xs.length) z := by
  obtain ⟨inv, hlen, hl⟩ := foldPut_toList last xs (RingBuf.new z last)
    (RingBuf.new_inv z last hlast) (by simp [RingBuf.new])
  have hfresh := foldPut_fresh z xs _ (RingBuf.new_inv z last hlast) (fresh_new z last)
  rw [RingBuf.new_toList] at hl
  simp only [List.nil_append] at hl
  generalize xs.foldl (fun r n => (r.put n).1) (RingBuf.new z last) = m at *
  have hcount : m.count = min xs.length last := by
    rw [← RingBuf.toList_length, hl]; simp; omega
  apply List.ext_getElem?
  intro j
  by_cases hj : j < last
  · rw [List.getElem?_map, List.getElem?_range hj]
    simp only [Option.map_some]
    by_cases hjc : j < m.count
    · have : some (m.atIdx j) = m.toList[j]? := by
        rw [RingBuf.atIdx_eq m j hjc]; exact (List.getElem?_eq_getElem _).symm
      rw [this, hl, List.getElem?_append_left (by simp; omega)]
    · have hc : m.count < m.buffer.length := by omega
      obtain ⟨hb, hz⟩ := hfresh hc
      rw [List.getElem?_append_right (by simp; omega), List.getElem?_replicate]
      simp only [RingBuf.atIdx, hb, Nat.zero_add]
      rw [hlen, Nat.mod_eq_of_lt hj, hz j (by omega) (by omega)]
      simp; omega
  · rw [List.getElem?_eq_none (by simp; omega), List.getElem?_eq_none (by simp; omega)]

/-- Echo, for every `last ≥ 1` (NewRing(0) divides by zero in `At`), every `count` and every input
    length, including inputs shorter than `last` (zero-padded echo) and the empty input. -/
theorem echo_eq (z : α) (last count : Nat) (hlast : 0 < last) (xs : List α) :
    echoM z last count xs = echoS z last count xs := by
  simp only [echoM, echoS, pipe_id, echo_memory z last hlast xs]

/-- the length is `len + last * count` whatever the input length -/
theorem echo_length (z : α) (last count : Nat) (hlast : 0 < last) (xs : List α) :
    (echoM z last count xs).length = xs.length + last * count := by
  rw [echo_eq z last count hlast]
  have : (xs.drop (xs.length - last) ++ List.replicate (last - xs.length) z).length = last := by
    simp; omega
  simp only [echoS, List.length_append, List.length_flatten, List.map_replicate, this,
    List.sum_replicate_nat]
  rw [Nat.mul_comm]

/-- input at least as long as `last`: the echo is the last `last` inputs, repeated -/
theorem echo_eq_long (z : α) (last count : Nat) (hlast : 0 < last) (xs : List α)
    (hlen : last ≤ xs.length) :
    echoM z last count xs = xs ++ (List.replicate count (lastS last xs)).flatten := by
  rw [echo_eq z last count hlast, echoS, lastS]
  have : last - xs.length = 0 := by omega
  simp [this]

example : echoM 0 2 2 [1, 2, 3, 4] = [1, 2, 3, 4, 3, 4, 3, 4] := by decide
/-- input shorter than `last`: zeros are echoed too -/
example : echoM 0 3 2 [7] = [7, 7, 0, 0, 7, 0, 0] := by decide
example : echoM 0 2 1 ([] : List Nat) = [0, 0] := by decide
example : echoS 0 3 2 [7] = [7, 7, 0, 0, 7, 0, 0] := by decide
example : echoM 9 2 0 [1, 2, 3] = [1, 2, 3] := by decide

end C16
