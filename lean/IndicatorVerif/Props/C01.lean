import IndicatorVerif.Props.C01Gen
/-
  C01 — indicator values equal their documented formulas: hand-written part.
  (Generated theorems: Props/C01Gen.lean; proved-so-far list: DESIGN §6 C01.)
-/
namespace C01
open Sig Ind

/-- the spec combinator `cache` never changes a value -/
theorem cache_is_identity {α : Type} [Arith α] (N : Nat) (a : PS α) (i : Nat) :
    (PS.cache N a).val i = a.val i ∧ (PS.cache N a).start = a.start :=
  ⟨PS.cache_val N a i, PS.cache_start N a⟩

/-- what `Agree` means for the lists the Go code emits: for every input length `n`, the list
    semantics of a well-aligned model term equals the list of formula values for positions
    `start … n−1` -/
theorem lists_equal_formula {x : Nat → Nat → ℝ} {e : Sig ℝ} {P : PS ℝ} {A : Nat}
    (h : Agree x e P) (hg : Good e P.start A) (n : Nat) : evalL (envOf x A n) e = P.toList n :=
  h.evalL_eq hg n

theorem vpt_formula (N : Nat) (fs : List ℝ) (x : Nat → Nat → ℝ) :
    ∃ e ps, lookup "Vpt" [] fs = some e ∧ Spec.formulas N "Vpt" [] fs x = some ps ∧
      List.Forall₂ (Agree x) e.outs ps := by
  refine ⟨_, _, rfl, rfl, ?_⟩
  unfold_light
  repeat' (first | apply List.Forall₂.cons | apply List.Forall₂.nil)
  apply Sig.Agree.cast
  agree_core N
  all_goals (try ps_simp)
  intro i hi
  have : (fun (acc : ℝ) (i : ℕ) => acc + (x 0 i - x 0 (i - 1)) / x 0 (i - 1) * x 1 i)
       = (fun (acc : ℝ) (i : ℕ) => acc + x 1 i * (x 0 i - x 0 (i - 1)) / x 0 (i - 1)) := by
    funext acc j; ring
  rw [this]

end C01
