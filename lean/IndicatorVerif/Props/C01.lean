import IndicatorVerif.Props.C01Gen
import IndicatorVerif.Proofs.ScaleReal
/-
  C01 — indicator values equal their documented formulas: hand-written part.
  (Generated theorems: Props/C01Gen.lean; proved-so-far list: DESIGN §6 C01.)
-/
namespace C01
open Sig Ind

/-- the spec combinator `cache` never changes a value -/
theorem cache_is_identity {α : Type} [Arith α] (N : Nat) (a : PS α) (i : Nat) :
    (PS.cache N a).val i = a.val i ∧ (PS.cache N a).start = a.start :=
  ⟨PS.cache_val N a i, PS.cache_start N a⟩

/-- what `Agree` means for the lists the Go code emits: for every input length `n`, the list
    semantics of a well-aligned model term equals the list of formula values for positions
    `start … n−1` -/
theorem lists_equal_formula {x : Nat → Nat → ℝ} {e : Sig ℝ} {P : PS ℝ} {A : Nat}
    (h : Agree x e P) (hg : Good e P.start A) (n : Nat) : evalL (envOf x A n) e = P.toList n :=
  h.evalL_eq hg n

theorem vpt_formula (N : Nat) (fs : List ℝ) (x : Nat → Nat → ℝ) :
    ∃ e ps, lookup "Vpt" [] fs = some e ∧ Spec.formulas N "Vpt" [] fs x = some ps ∧
      List.Forall₂ (Agree x) e.outs ps := by
  refine ⟨_, _, rfl, rfl, ?_⟩
  unfold_light
  repeat' (first | apply List.Forall₂.cons | apply List.Forall₂.nil)
  apply Sig.Agree.cast
  agree_core N
  all_goals (try ps_simp)
  intro i hi
  have : (fun (acc : ℝ) (i : ℕ) => acc + (x 0 i - x 0 (i - 1)) / x 0 (i - 1) * x 1 i)
       = (fun (acc : ℝ) (i : ℕ) => acc + x 1 i * (x 0 i - x 0 (i - 1)) / x 0 (i - 1)) := by
    funext acc j; ring
  rw [this]

/-- the recursive moving average of the negated stream is the negated average -/
theorem rma_neg (N p s : Nat) (f g : Nat → ℝ) (h : ∀ i, g i = -f i) (i : Nat) :
    (PS.rma N p ⟨s, g⟩).val i = -(PS.rma N p ⟨s, f⟩).val i := by
  have := (PS.Scaled.rma N p (c := -1) (P := ⟨s, f⟩) (Q := ⟨s, g⟩) ⟨rfl, fun i => by simp [h]⟩).2 i
  simpa using this

/-- RSI on an input stream: Go's `100 − 100/(1 + gains/(−avg of negative changes))` is the documented
    `100 − 100/(1 + AvgGain/AvgLoss)` -/
theorem rsi_agree (N : Nat) (p : Nat) (h0 : 1 ≤ p) (x : Nat → Nat → ℝ) :
    Agree x (Ind.rsi p (Sig.input 0)) (Spec.rsi N p (PS.input (x 0))) := by
  unfold_light
  apply Sig.Agree.cast
  agree_core N
  all_goals (try ps_simp)
  any_goals omega
  intro i hi
  simp
  rw [rma_neg N p 1 (fun i => if x 0 i < x 0 (i - 1) then x 0 (i - 1) - x 0 i else 0)
    (fun i => if x 0 i < x 0 (i - 1) then x 0 i - x 0 (i - 1) else 0) (fun j => by split <;> ring) i]
  rw [neg_neg]
  ring

theorem rsi_formula (N : Nat) (p : Nat) (fs : List ℝ) (h0 : 1 ≤ p) (x : Nat → Nat → ℝ) :
    ∃ e ps, lookup "Rsi" [p] fs = some e ∧ Spec.formulas N "Rsi" [p] fs x = some ps ∧
      List.Forall₂ (Agree x) e.outs ps :=
  ⟨_, _, rfl, rfl, List.Forall₂.cons (rsi_agree N p h0 x) List.Forall₂.nil⟩

theorem stochasticRsi_formula (N : Nat) (p : Nat) (fs : List ℝ) (h0 : 1 ≤ p) (x : Nat → Nat → ℝ) :
    ∃ e ps, lookup "StochasticRsi" [p] fs = some e ∧ Spec.formulas N "StochasticRsi" [p] fs x = some ps ∧
      List.Forall₂ (Agree x) e.outs ps := by
  refine ⟨_, _, rfl, rfl, ?_⟩
  refine List.Forall₂.cons ?_ List.Forall₂.nil
  have hr := rsi_agree N p h0 x
  simp only [Ind.stochasticRsi, Ind.div, Ind.sub, Ind.i0, List.getD_cons_zero]
  have hmn := Sig.Agree.movingMin p h0 hr
  have hmx := Sig.Agree.movingMax p h0 hr
  have hr0 := Sig.Agree.skip (p - 1) hr
  have num := Sig.Agree.zip (fun a b => a - b) hr0 hmn rfl
  have den := Sig.Agree.zip (fun a b => a - b) hmx hmn rfl
  have q := Sig.Agree.zip (fun a b => a / b) num den rfl
  refine q.cast ?_ ?_
  · simp [PS.mmax, PS.mmin, PS.map2, Spec.rsi, PS.map]
  · intro i _; rfl

end C01
