import IndicatorVerif.Props.C02
import IndicatorVerif.Spec.Indicators
/-
  C01 — indicator values equal their documented formulas (work in progress: theorems are added
  indicator by indicator; see DESIGN §6 C01 for the list proved so far).
-/
namespace C01
open Sig Ind

/-- the spec combinator `cache` never changes a value -/
theorem cache_is_identity {α : Type} [Arith α] (N : Nat) (a : PS α) (i : Nat) :
    (PS.cache N a).val i = a.val i ∧ (PS.cache N a).start = a.start :=
  ⟨PS.cache_val N a i, PS.cache_start N a⟩

end C01
