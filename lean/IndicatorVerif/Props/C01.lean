import IndicatorVerif.Props.C01Gen
import IndicatorVerif.Proofs.ScaleReal
/-
  C01 — indicator values equal their documented formulas: hand-written part.
  (Generated theorems: Props/C01Gen.lean; proved-so-far list: DESIGN §6 C01.)
-/
namespace C01
open Sig Ind

/-- the spec combinator `cache` never changes a value -/
theorem cache_is_identity {α : Type} [Arith α] (N : Nat) (a : PS α) (i : Nat) :
    (PS.cache N a).val i = a.val i ∧ (PS.cache N a).start = a.start :=
  ⟨PS.cache_val N a i, PS.cache_start N a⟩

/-- what `Agree` means for the lists the Go code emits: for every input length `n`, the list
    semantics of a well-aligned model term equals the list of formula values for positions
    `start … n−1` -/
theorem lists_equal_formula {x : Nat → Nat → ℝ} {e : Sig ℝ} {P : PS ℝ} {A : Nat}
    (h : Agree x e P) (hg : Good e P.start A) (n : Nat) : evalL (envOf x A n) e = P.toList n :=
  h.evalL_eq hg n

theorem vpt_formula (N : Nat) (fs : List ℝ) (x : Nat → Nat → ℝ) :
    ∃ e ps, lookup "Vpt" [] fs = some e ∧ Spec.formulas N "Vpt" [] fs x = some ps ∧
      List.Forall₂ (Agree x) e.outs ps := by
  refine ⟨_, _, rfl, rfl, ?_⟩
  unfold_light
  repeat' (first | apply List.Forall₂.cons | apply List.Forall₂.nil)
  apply Sig.Agree.cast
  agree_core N
  all_goals (try ps_simp)
  intro i hi
  have : (fun (acc : ℝ) (i : ℕ) => acc + (x 0 i - x 0 (i - 1)) / x 0 (i - 1) * x 1 i)
       = (fun (acc : ℝ) (i : ℕ) => acc + x 1 i * (x 0 i - x 0 (i - 1)) / x 0 (i - 1)) := by
    funext acc j; ring
  rw [this]

/-- the recursive moving average of the negated stream is the negated average -/
theorem rma_neg (N p s : Nat) (f g : Nat → ℝ) (h : ∀ i, g i = -f i) (i : Nat) :
    (PS.rma N p ⟨s, g⟩).val i = -(PS.rma N p ⟨s, f⟩).val i := by
  have := (PS.Scaled.rma N p (c := -1) (P := ⟨s, f⟩) (Q := ⟨s, g⟩) ⟨rfl, fun i => by simp [h]⟩).2 i
  simpa using this

/-- RSI on an input stream: Go's `100 − 100/(1 + gains/(−avg of negative changes))` is the documented
    `100 − 100/(1 + AvgGain/AvgLoss)` -/
theorem rsi_agree (N : Nat) (p : Nat) (h0 : 1 ≤ p) (x : Nat → Nat → ℝ) :
    Agree x (Ind.rsi p (Sig.input 0)) (Spec.rsi N p (PS.input (x 0))) := by
  unfold_light
  apply Sig.Agree.cast
  agree_core N
  all_goals (try ps_simp)
  any_goals omega
  intro i hi
  simp
  rw [rma_neg N p 1 (fun i => if x 0 i < x 0 (i - 1) then x 0 (i - 1) - x 0 i else 0)
    (fun i => if x 0 i < x 0 (i - 1) then x 0 i - x 0 (i - 1) else 0) (fun j => by split <;> ring) i]
  rw [neg_neg]
  ring

theorem rsi_formula (N : Nat) (p : Nat) (fs : List ℝ) (h0 : 1 ≤ p) (x : Nat → Nat → ℝ) :
    ∃ e ps, lookup "Rsi" [p] fs = some e ∧ Spec.formulas N "Rsi" [p] fs x = some ps ∧
      List.Forall₂ (Agree x) e.outs ps :=
  ⟨_, _, rfl, rfl, List.Forall₂.cons (rsi_agree N p h0 x) List.Forall₂.nil⟩

theorem stochasticRsi_formula (N : Nat) (p : Nat) (fs : List ℝ) (h0 : 1 ≤ p) (x : Nat → Nat → ℝ) :
    ∃ e ps, lookup "StochasticRsi" [p] fs = some e ∧ Spec.formulas N "StochasticRsi" [p] fs x = some ps ∧
      List.Forall₂ (Agree x) e.outs ps := by
  refine ⟨_, _, rfl, rfl, ?_⟩
  refine List.Forall₂.cons ?_ List.Forall₂.nil
  have hr := rsi_agree N p h0 x
  simp only [Ind.stochasticRsi, Ind.div, Ind.sub, Ind.i0, List.getD_cons_zero]
  have hmn := Sig.Agree.movingMin p h0 hr
  have hmx := Sig.Agree.movingMax p h0 hr
  have hr0 := Sig.Agree.skip (p - 1) hr
  have num := Sig.Agree.zip (fun a b => a - b) hr0 hmn rfl
  have den := Sig.Agree.zip (fun a b => a - b) hmx hmn rfl
  have q := Sig.Agree.zip (fun a b => a / b) num den rfl
  refine q.cast ?_ ?_
  · simp [PS.mmax, PS.mmin, PS.map2, Spec.rsi, PS.map]
  · intro i _; rfl

/-- StochasticRsi whose RSI period `rp` differs from the min/max look-back `w` -/
theorem stochasticRsiG_formula (N : Nat) (rp w : Nat) (fs : List ℝ) (h0 : 1 ≤ rp) (h1 : 1 ≤ w) (x : Nat → Nat → ℝ) :
    ∃ e ps, lookup "StochasticRsiG" [rp, w] fs = some e ∧ Spec.formulas N "StochasticRsiG" [rp, w] fs x = some ps ∧
      List.Forall₂ (Agree x) e.outs ps := by
  refine ⟨_, _, rfl, rfl, ?_⟩
  refine List.Forall₂.cons ?_ List.Forall₂.nil
  have hr := rsi_agree N rp h0 x
  simp only [Ind.stochasticRsiG, Ind.div, Ind.sub, Ind.i0, List.getD_cons_zero, List.getD_cons_succ]
  have hmn := Sig.Agree.movingMin w h1 hr
  have hmx := Sig.Agree.movingMax w h1 hr
  have hr0 := Sig.Agree.skip (w - 1) hr
  have num := Sig.Agree.zip (fun a b => a - b) hr0 hmn rfl
  have den := Sig.Agree.zip (fun a b => a - b) hmx hmn rfl
  have q := Sig.Agree.zip (fun a b => a / b) num den rfl
  refine q.cast ?_ ?_
  · simp [PS.mmax, PS.mmin, PS.map2, Spec.rsi, PS.map]
  · intro i _; rfl

/-- an accumulator over two aligned streams (`scan2` whose state is its output) is the documented
    running recurrence `acc_i = F acc_{i-1} a_i b_i` started from `init` -/
theorem agree_accum2 {x : Nat → Nat → ℝ} {a b : Sig ℝ} {PA PB : PS ℝ} (N : Nat) (init : ℝ) (F : ℝ → ℝ → ℝ → ℝ)
    (ha : Agree x a PA) (hb : Agree x b PB) (hs : PA.start = PB.start) :
    Agree x (Sig.scan2 ℝ init (fun prev u v => (F prev u v, F prev u v)) a b)
      (PS.cumul N PA.start init (fun acc i => F acc (PA.val i) (PB.val i))) := by
  have hoffa := ha.offD
  constructor
  · simp [off, ha.1, hb.1, join2, hs, PS.cumul]
  · intro i hi
    simp only [PS.cumul] at hi ⊢
    simp only [den, hoffa, PS.tabVal_eq, scanOut2]
    have key : ∀ m, (scanSt2 (fun (prev u v : ℝ) => (F prev u v, F prev u v)) init
        (fun m => den x a (PA.start + m)) (fun m => den x b (PA.start + m)) (m + 1))
        = PS.recG (F init (PA.val PA.start) (PB.val PA.start))
            (fun acc k => F acc (PA.val (PA.start + k + 1)) (PB.val (PA.start + k + 1))) m := by
      intro m
      induction m with
      | zero =>
        simp only [scanSt2, PS.recG, Nat.add_zero]
        rw [ha.2 PA.start (Nat.le_refl _), hb.2 PA.start (by omega)]
      | succ m ih =>
        rw [scanSt2, ih]
        simp only [PS.recG]
        rw [ha.2 (PA.start + (m + 1)) (by omega), hb.2 (PA.start + (m + 1)) (by omega)]
        simp [Nat.add_assoc]
    have := key (i - PA.start)
    simp only [scanSt2] at this
    exact this

theorem nvi_formula (N : Nat) (fs : List ℝ) (x : Nat → Nat → ℝ) :
    ∃ e ps, lookup "Nvi" [] fs = some e ∧ Spec.formulas N "Nvi" [] fs x = some ps ∧
      List.Forall₂ (Agree x) e.outs ps := by
  refine ⟨_, _, rfl, rfl, ?_⟩
  refine List.Forall₂.cons ?_ List.Forall₂.nil
  simp only [Ind.nvi, Ind.i0, Ind.i1]
  have hcr : Agree x (Ind.changeRatio 1 (Sig.input 0)) ⟨1, fun i => (x 0 i - x 0 (i - 1)) / x 0 (i - 1)⟩ := by
    unfold_light
    apply Sig.Agree.cast
    agree_core N
    all_goals (try ps_simp)
    all_goals (first | omega | (intro i hi; trivial) | (intro i hi; rfl))
  have hvc : Agree x (Ind.change 1 (Sig.input 1)) ⟨1, fun i => x 1 i - x 1 (i - 1)⟩ := by
    unfold_light
    apply Sig.Agree.cast
    agree_core N
    all_goals (try ps_simp)
    all_goals (first | omega | (intro i hi; trivial) | (intro i hi; rfl))
  have h := agree_accum2 N (fs.getD 0 Ind.zero)
    (fun prev u v => if Arith.le v Ind.zero then prev + u * prev else prev) hcr hvc rfl
  refine h.cast rfl ?_
  intro i _
  have z : (Ind.zero : ℝ) = 0 := by simp [Ind.zero]
  have hF : (fun (acc : ℝ) (i : ℕ) => if Arith.le (x 1 i - x 1 (i - 1)) Ind.zero then acc + (x 0 i - x 0 (i - 1)) / x 0 (i - 1) * acc else acc)
      = (fun acc i => if Arith.gt (x 1 i) (x 1 (i - 1)) then acc else acc + (x 0 i - x 0 (i - 1)) / x 0 (i - 1) * acc) := by
    funext acc j
    by_cases hv : x 1 (j - 1) < x 1 j
    · have : ¬ (x 1 j - x 1 (j - 1) ≤ 0) := by linarith
      simp [z, hv, this]
    · have : x 1 j - x 1 (j - 1) ≤ 0 := by linarith
      simp [z, hv, this]
  show (PS.cumul N 1 (fs.getD 0 Ind.zero) (fun acc i => if Arith.le (x 1 i - x 1 (i - 1)) Ind.zero then acc + (x 0 i - x 0 (i - 1)) / x 0 (i - 1) * acc else acc)).val i = _
  rw [hF]

/-- Kaufman's recurrence: the first value starts from the previous closing, later ones from the previous KAMA -/
theorem agree_kama_scan {x : Nat → Nat → ℝ} {a b c : Sig ℝ} {PA PB PC : PS ℝ} (N : Nat)
    (ha : Agree x a PA) (hb : Agree x b PB) (hc : Agree x c PC) (hs1 : PA.start = PB.start) (hs2 : PA.start = PC.start) :
    Agree x (Sig.scan3 (Option ℝ) none Ind.kamaStep a b c)
      (PS.cumul N PA.start Ind.zero (fun acc i =>
        (if i = PA.start then PA.val i else acc) + PC.val i * (PB.val i - (if i = PA.start then PA.val i else acc)))) := by
  have hoffa := ha.offD
  constructor
  · simp [off, ha.1, hb.1, hc.1, join2, ← hs1, ← hs2, PS.cumul]
  · intro i hi
    simp only [PS.cumul] at hi ⊢
    simp only [den, hoffa, PS.tabVal_eq, scanOut3]
    have key : ∀ m, (scanSt3 Ind.kamaStep none
        (fun m => den x a (PA.start + m)) (fun m => den x b (PA.start + m)) (fun m => den x c (PA.start + m)) (m + 1))
        = some (PS.recG (PA.val PA.start + PC.val PA.start * (PB.val PA.start - PA.val PA.start))
            (fun acc k => acc + PC.val (PA.start + k + 1) * (PB.val (PA.start + k + 1) - acc)) m) := by
      intro m
      induction m with
      | zero =>
        simp only [scanSt3, Ind.kamaStep, PS.recG, Nat.add_zero]
        rw [ha.2 PA.start (Nat.le_refl _), hb.2 PA.start (by omega), hc.2 PA.start (by omega)]
      | succ m ih =>
        rw [scanSt3, ih]
        simp only [Ind.kamaStep, PS.recG]
        rw [hb.2 (PA.start + (m + 1)) (by omega), hc.2 (PA.start + (m + 1)) (by omega)]
        simp [Nat.add_assoc]
    have h1 := key (i - PA.start)
    simp only [scanSt3] at h1
    -- the output of a step is the value stored in the new state
    have hout : ∀ (st : Option ℝ) (p q r : ℝ), (Ind.kamaStep st p q r).1 = some (Ind.kamaStep st p q r).2 := by
      intro st p q r; rfl
    rw [hout] at h1
    have h2 := Option.some.inj h1
    rw [h2]
    -- the documented recurrence has the same first value and the same update
    have hf : (fun (acc : ℝ) (k : ℕ) =>
        (if PA.start + k + 1 = PA.start then PA.val (PA.start + k + 1) else acc) +
          PC.val (PA.start + k + 1) *
            (PB.val (PA.start + k + 1) - if PA.start + k + 1 = PA.start then PA.val (PA.start + k + 1) else acc))
        = (fun acc k => acc + PC.val (PA.start + k + 1) * (PB.val (PA.start + k + 1) - acc)) := by
      funext acc k
      have : ¬ (PA.start + k + 1 = PA.start) := by omega
      simp only [this, if_false]
    simp only [if_true, hf]

theorem kama_formula (N : Nat) (er fast slow : Nat) (fs : List ℝ) (h0 : 1 ≤ er) (x : Nat → Nat → ℝ) :
    ∃ e ps, lookup "Kama" [er, fast, slow] fs = some e ∧ Spec.formulas N "Kama" [er, fast, slow] fs x = some ps ∧
      List.Forall₂ (Agree x) e.outs ps := by
  refine ⟨_, _, rfl, rfl, ?_⟩
  refine List.Forall₂.cons ?_ List.Forall₂.nil
  simp only [Ind.kama, Ind.i0, List.getD_cons_zero, List.getD_cons_succ]
  have hA : Agree x (Sig.lag 1 (Sig.skip (er - 1) (Sig.input 0))) ⟨er, fun i => x 0 (i - 1)⟩ := by
    apply Sig.Agree.cast
    agree_core N
    all_goals (first | (simp; omega) | (intro i hi; rfl))
  have hB : Agree x (Sig.skip er (Sig.input 0)) ⟨er, x 0⟩ := by
    apply Sig.Agree.cast
    agree_core N
    all_goals (first | (simp; done) | (intro i hi; rfl))
  -- the smoothing constant stream
  set fastSc : ℝ := Spec.two / Arith.nat (fast + 1) with hfast
  set slowSc : ℝ := Spec.two / Arith.nat (slow + 1) with hslow
  have hC : Agree x
      (Ind.pow2 (Ind.incBy (Ind.two / Arith.nat (slow + 1)) (Ind.mulBy (Ind.two / Arith.nat (fast + 1) - Ind.two / Arith.nat (slow + 1))
        (Ind.div (Ind.absS (Ind.change er (Sig.input 0))) (Ind.movingSum er (Ind.absS (Ind.change 1 (Sig.input 0))))))))
      (PS.map (fun e => Arith.sq (e * (fastSc - slowSc) + slowSc))
        (PS.map Arith.abs (PS.input (x 0) - PS.prev er (PS.input (x 0))) /
          PS.msum er (PS.map Arith.abs (PS.input (x 0) - PS.prev 1 (PS.input (x 0)))))) := by
    unfold_light
    agree_tac N
  have hst : (PS.map (fun e => Arith.sq (e * (fastSc - slowSc) + slowSc))
        (PS.map Arith.abs (PS.input (x 0) - PS.prev er (PS.input (x 0))) /
          PS.msum er (PS.map Arith.abs (PS.input (x 0) - PS.prev 1 (PS.input (x 0)))))).start = er := by
    simp [PS.map, PS.map2, PS.msum, PS.prev, PS.input]
    omega
  have h := agree_kama_scan N hA hB hC rfl hst.symm
  refine h.cast (by simp [PS.cumul]; exact hst.symm) ?_
  intro i _
  simp only [PS.cumul]
  rw [hst]

theorem mf_pos (d r : ℝ) (hr : 0 ≤ r) :
    (if 0 < (if 0 < d then (1 : ℝ) else if d < 0 then -1 else 0) * r then (if 0 < d then (1 : ℝ) else if d < 0 then -1 else 0) * r else 0)
      = if 0 < d then r else 0 := by
  by_cases h1 : 0 < d
  · simp only [h1, if_true, one_mul]
    split
    · rfl
    · linarith
  · by_cases h2 : d < 0
    · simp only [h1, h2, if_true, if_false]
      have : ¬ (0 < -1 * r) := by linarith
      simp only [this, if_false]
    · simp [h1, h2]

theorem mf_neg (d r : ℝ) (hr : 0 ≤ r) :
    (if (if 0 < d then (1 : ℝ) else if d < 0 then -1 else 0) * r < 0 then (if 0 < d then (1 : ℝ) else if d < 0 then -1 else 0) * r else 0) * -1
      = if d < 0 then r else 0 := by
  by_cases h1 : 0 < d
  · have h2 : ¬ d < 0 := by linarith
    have : ¬ (1 * r < 0) := by linarith
    simp only [h1, h2, this, if_true, if_false, zero_mul]
  · by_cases h2 : d < 0
    · simp only [h1, h2, if_true, if_false]
      by_cases h3 : -1 * r < 0
      · simp only [h3, if_true]; ring
      · simp only [h3, if_false]; linarith
    · simp [h1, h2]

theorem mfi_formula (N : Nat) (p : Nat) (fs : List ℝ) (h0 : 1 ≤ p) (x : Nat → Nat → ℝ)
    (hx : ∀ i, 0 ≤ (x 0 i + x 1 i + x 2 i) / 3 * x 3 i) :
    ∃ e ps, lookup "Mfi" [p] fs = some e ∧ Spec.formulas N "Mfi" [p] fs x = some ps ∧
      List.Forall₂ (Agree x) e.outs ps := by
  refine ⟨_, _, rfl, rfl, ?_⟩
  unfold_light
  repeat' (first | apply List.Forall₂.cons | apply List.Forall₂.nil)
  apply Sig.Agree.cast
  agree_core N
  all_goals (try ps_simp)
  any_goals omega
  intro i hi
  simp only [ArithReal.arith_nat, ArithReal.div_eq, ArithReal.mul_eq, ArithReal.add_eq, ArithReal.sub_eq, Ind.one, Ind.hundred, Ind.negOne, Ind.zero,
    ArithReal.arith_neg, ArithReal.arith_inv, ArithReal.arith_gt, ArithReal.arith_lt, Spec.hundred, Spec.one, Spec.zero]
  push_cast
  simp only [mf_pos _ _ (hx _), mf_neg _ _ (hx _)]
  ring

/-! ### SuperTrend: the Go state machine (first flag, trend, previous closing, final bands) is the documented fold -/

/-- the documented step on the state (upTrend, finalUpper, finalLower, superTrend) -/
noncomputable def stSpecStep (bu bl pc cl : ℝ) (first : Bool) (st : Bool × ℝ × ℝ × ℝ) : Bool × ℝ × ℝ × ℝ :=
  if first then (false, bu, bl, bl) else
  let (up, fu, fl, _) := st
  let fu' := if Arith.lt bu fu || Arith.gt pc fu then bu else fu
  let fl' := if Arith.gt bl fl || Arith.lt pc fl then bl else fl
  if up then (if Arith.le cl fu' then (true, fu', fl', fu') else (false, fu', fl', fl'))
  else (if Arith.ge cl fl' then (false, fu', fl', fl') else (true, fu', fl', fu'))

/-- one Go step from a state that corresponds to the documented state gives the documented next state and output -/
theorem st_step_corr (S : Ind.StState ℝ) (T : Bool × ℝ × ℝ × ℝ) (med am cl : ℝ)
    (hf : S.first = false) (hu : S.upTrend = T.1) (hfu : S.finalUpperBand = T.2.1) (hfl : S.finalLowerBand = T.2.2.1) :
    let S' := (Ind.superTrendStep S med am cl).1
    let T' := stSpecStep (med + am) (med - am) S.previousClosing cl false T
    S'.first = false ∧ S'.upTrend = T'.1 ∧ S'.finalUpperBand = T'.2.1 ∧ S'.finalLowerBand = T'.2.2.1 ∧
      S'.previousClosing = cl ∧ (Ind.superTrendStep S med am cl).2 = T'.2.2.2 := by
  obtain ⟨up, fu, fl, stv⟩ := T
  simp only at hu hfu hfl
  simp only [Ind.superTrendStep, stSpecStep, hf, hu, hfu, hfl, Bool.false_eq_true, if_false]
  cases up <;> simp only [Bool.false_eq_true, if_false, if_true] <;> (repeat' split) <;> simp_all

theorem st_first_corr (S : Ind.StState ℝ) (med am cl : ℝ) (hf : S.first = true) (hu : S.upTrend = false) :
    let S' := (Ind.superTrendStep S med am cl).1
    let T' := stSpecStep (med + am) (med - am) 0 cl true (false, 0, 0, 0)
    S'.first = false ∧ S'.upTrend = T'.1 ∧ S'.finalUpperBand = T'.2.1 ∧ S'.finalLowerBand = T'.2.2.1 ∧
      S'.previousClosing = cl ∧ (Ind.superTrendStep S med am cl).2 = T'.2.2.2 := by
  simp [Ind.superTrendStep, stSpecStep, hf, hu]

/-- the documented fold over positions -/
noncomputable def stSpecFold (N : Nat) (PA PB PC : PS ℝ) : Nat → Bool × ℝ × ℝ × ℝ :=
  PS.cumulState N PA.start (false, (0 : ℝ), (0 : ℝ), (0 : ℝ)) (fun acc i =>
    stSpecStep (PA.val i + PB.val i) (PA.val i - PB.val i) (PC.val (i - 1)) (PC.val i) (i == PA.start) acc)

theorem agree_supertrend_scan {x : Nat → Nat → ℝ} {a b c : Sig ℝ} {PA PB PC : PS ℝ} (N : Nat)
    (ha : Agree x a PA) (hb : Agree x b PB) (hc : Agree x c PC) (hs1 : PA.start = PB.start) (hs2 : PA.start = PC.start) :
    Agree x (Sig.scan3 (Ind.StState ℝ) ⟨true, false, Ind.zero, Ind.zero, Ind.zero⟩ Ind.superTrendStep a b c)
      ⟨PA.start, fun i => (stSpecFold N PA PB PC i).2.2.2⟩ := by
  have hoffa := ha.offD
  constructor
  · simp [off, ha.1, hb.1, hc.1, join2, ← hs1, ← hs2]
  · intro i hi
    simp only at hi
    simp only [den, hoffa, stSpecFold, PS.cumulState, PS.tabVal_eq, scanOut3]
    set s := PA.start with hsdef
    set A := fun m => den x a (s + m) with hA
    set B := fun m => den x b (s + m) with hB
    set C := fun m => den x c (s + m) with hC
    have eA : ∀ m, A m = PA.val (s + m) := fun m => ha.2 _ (by omega)
    have eB : ∀ m, B m = PB.val (s + m) := fun m => hb.2 _ (by omega)
    have eC : ∀ m, C m = PC.val (s + m) := fun m => hc.2 _ (by omega)
    set f : (Bool × ℝ × ℝ × ℝ) → Nat → (Bool × ℝ × ℝ × ℝ) := fun acc i =>
      stSpecStep (PA.val i + PB.val i) (PA.val i - PB.val i) (PC.val (i - 1)) (PC.val i) (i == s) acc with hf
    set T := PS.recG (f (false, (0 : ℝ), (0 : ℝ), (0 : ℝ)) s) (fun acc k => f acc (s + k + 1)) with hT
    set init : Ind.StState ℝ := ⟨true, false, Ind.zero, Ind.zero, Ind.zero⟩ with hinit
    have key : ∀ m,
        let S' := scanSt3 Ind.superTrendStep init A B C (m + 1)
        S'.first = false ∧ S'.upTrend = (T m).1 ∧ S'.finalUpperBand = (T m).2.1 ∧ S'.finalLowerBand = (T m).2.2.1 ∧
          S'.previousClosing = C m ∧
          (Ind.superTrendStep (scanSt3 Ind.superTrendStep init A B C m) (A m) (B m) (C m)).2 = (T m).2.2.2 := by
      intro m
      induction m with
      | zero =>
        have h := st_first_corr init (A 0) (B 0) (C 0) rfl rfl
        simp only [scanSt3]
        have eT : T 0 = stSpecStep (A 0 + B 0) (A 0 - B 0) 0 (C 0) true (false, 0, 0, 0) := by
          simp only [hT, PS.recG, hf, eA, eB, eC, Nat.add_zero, beq_self_eq_true]
          simp [stSpecStep]
        rw [eT]
        exact h
      | succ m ih =>
        obtain ⟨h1, h2, h3, h4, h5, _⟩ := ih
        have h := st_step_corr (scanSt3 Ind.superTrendStep init A B C (m + 1)) (T m) (A (m + 1)) (B (m + 1)) (C (m + 1)) h1 h2 h3 h4
        have eT : T (m + 1) = stSpecStep (A (m + 1) + B (m + 1)) (A (m + 1) - B (m + 1))
            (scanSt3 Ind.superTrendStep init A B C (m + 1)).previousClosing (C (m + 1)) false (T m) := by
          simp only [hT, PS.recG]
          simp only [hf]
          have hne : (s + m + 1 == s) = false := by
            simp only [beq_eq_false_iff_ne, ne_eq]; omega
          rw [hne, h5, eA, eB, eC, eC]
          have e1 : s + m + 1 - 1 = s + m := by omega
          rw [e1]
          rfl
        rw [eT]
        simp only [scanSt3] at h ⊢
        exact h
    exact (key (i - s)).2.2.2.2.2

theorem atr_start (N k p : Nat) (hp : 1 ≤ p) (x : Nat → Nat → ℝ) :
    (Spec.atr N (Spec.maOf k p) (PS.input (x 0)) (PS.input (x 1)) (PS.input (x 2))).start = Ind.atrIdle (Ind.maOf k p) := by
  unfold Spec.maOf Ind.maOf
  split <;> simp [Spec.atr, Spec.ma, Spec.trueRange, Ind.atrIdle, Ind.maIdle, PS.sma, PS.over, PS.map, PS.msum, PS.map3, PS.prev,
    PS.input, PS.ema, PS.recAvg, PS.smma, PS.rma, PS.wma, Spec.hma, PS.map2, PS.scale, Spec.halfRound, Ind.halfRound,
    Spec.roundSqrt, Ind.roundSqrt] <;> omega

theorem superTrend_formula (N : Nat) (k p : Nat) (fs : List ℝ) (h0 : 1 ≤ p) (x : Nat → Nat → ℝ) :
    ∃ e ps, lookup "SuperTrend" [k, p] fs = some e ∧ Spec.formulas N "SuperTrend" [k, p] fs x = some ps ∧
      List.Forall₂ (Agree x) e.outs ps := by
  refine ⟨_, _, rfl, rfl, ?_⟩
  refine List.Forall₂.cons ?_ List.Forall₂.nil
  simp only [Ind.superTrend, Ind.i0, Ind.i1, Ind.i2, List.getD_cons_zero, List.getD_cons_succ]
  set a := Ind.atrIdle (Ind.maOf k p) with ha
  set mult := fs.getD 0 Ind.zero with hmult
  have hst := atr_start N k p h0 x
  have hA : Agree x (Sig.skip a (Ind.divBy Ind.two (Ind.add (Sig.input 0) (Sig.input 1))))
      ⟨a, (PS.over Spec.two (PS.input (x 0) + PS.input (x 1))).val⟩ := by
    unfold_light
    apply Sig.Agree.cast
    agree_core N
    all_goals (first | (simp; done) | (intro i hi; simp [Ind.two, Spec.two]; done) | (intro i hi; rfl))
  have hB0 : Agree x (Ind.mulBy mult (Ind.atr (Ind.maOf k p) (Sig.input 0) (Sig.input 1) (Sig.input 2)))
      (PS.scale mult (Spec.atr N (Spec.maOf k p) (PS.input (x 0)) (PS.input (x 1)) (PS.input (x 2)))) := by
    unfold_light
    agree_tac N
  have hB : Agree x (Ind.mulBy mult (Ind.atr (Ind.maOf k p) (Sig.input 0) (Sig.input 1) (Sig.input 2)))
      ⟨a, fun i => mult * (Spec.atr N (Spec.maOf k p) (PS.input (x 0)) (PS.input (x 1)) (PS.input (x 2))).val i⟩ :=
    hB0.cast (by simp only [PS.scale, PS.map]; rw [hst]) (fun i _ => by simp only [PS.scale_val]; exact mul_comm _ _)
  have hC : Agree x (Sig.skip a (Sig.input 2)) ⟨a, (PS.input (x 2)).val⟩ := by
    apply Sig.Agree.cast
    agree_core N
    all_goals (first | (simp; done) | (intro i hi; rfl))
  have h := agree_supertrend_scan N hA hB hC rfl rfl
  refine h.cast ?_ ?_
  · simp only [Spec.superTrendFold, PS.cache_start]; rw [hst]
  · intro i _
    simp only [Spec.superTrendFold, stSpecFold, stSpecStep, PS.cache_start, PS.cache_val]
    rw [hst]
    have z : (Spec.zero : ℝ) = 0 := by simp [Spec.zero]
    simp only [z]
    rfl

end C01
