import IndicatorVerif.Props.C03MovingSum
import IndicatorVerif.Model.NetSma
/-
  C03 — clean termination PROVED for `trend.Sma`, for every input, every period p ≥ 1, every input capacity, every
  `Shift` buffer ≥ p (the library allocates cap(input) + p) and every schedule:
      Sma.Compute(c) = helper.Apply(MovingSum(p).Compute(c), func(sum) { return sum / p })
  (`NetM.smaNet`: producer, Duplicate, Shift, the summing Operate, Skip, the dividing Apply, an independent reader —
  seven processes, seven channels).  Same method as `C03MovingSum`: one symbolic canonical run on the smallest buffers
  + determinacy + capacity monotonicity.  The delivered values are the list semantics of the `movingSum` term
  (`evalL [xs] (Ind.movingSum p (input 0))` at element type ℤ), each divided by p.
-/
namespace C03
open Net NetM

def P7 (l0 l1 l2 l3 l4 l5 l6 : PS Loc) : Nat → PS Loc :=
  fun p => match p with | 0 => l0 | 1 => l1 | 2 => l2 | 3 => l3 | 4 => l4 | 5 => l5 | 6 => l6 | _ => (⟨0, []⟩, none)
def C7 (l0 l1 l2 l3 l4 l5 l6 : CS Int) : Nat → CS Int :=
  fun c => match c with | 0 => l0 | 1 => l1 | 2 => l2 | 3 => l3 | 4 => l4 | 5 => l5 | 6 => l6 | _ => ([], false)
@[simp] theorem P7_0 (l0 l1 l2 l3 l4 l5 l6 : PS Loc) : P7 l0 l1 l2 l3 l4 l5 l6 0 = l0 := rfl
@[simp] theorem P7_u0 (l0 l1 l2 l3 l4 l5 l6 v : PS Loc) : upd (P7 l0 l1 l2 l3 l4 l5 l6) 0 v = P7 v l1 l2 l3 l4 l5 l6 := by
  funext p
  match p with
  | 0 | 1 | 2 | 3 | 4 | 5 | 6 => simp [upd, P7]
  | n + 7 => simp [upd, P7]
@[simp] theorem P7_1 (l0 l1 l2 l3 l4 l5 l6 : PS Loc) : P7 l0 l1 l2 l3 l4 l5 l6 1 = l1 := rfl
@[simp] theorem P7_u1 (l0 l1 l2 l3 l4 l5 l6 v : PS Loc) : upd (P7 l0 l1 l2 l3 l4 l5 l6) 1 v = P7 l0 v l2 l3 l4 l5 l6 := by
  funext p
  match p with
  | 0 | 1 | 2 | 3 | 4 | 5 | 6 => simp [upd, P7]
  | n + 7 => simp [upd, P7]
@[simp] theorem P7_2 (l0 l1 l2 l3 l4 l5 l6 : PS Loc) : P7 l0 l1 l2 l3 l4 l5 l6 2 = l2 := rfl
@[simp] theorem P7_u2 (l0 l1 l2 l3 l4 l5 l6 v : PS Loc) : upd (P7 l0 l1 l2 l3 l4 l5 l6) 2 v = P7 l0 l1 v l3 l4 l5 l6 := by
  funext p
  match p with
  | 0 | 1 | 2 | 3 | 4 | 5 | 6 => simp [upd, P7]
  | n + 7 => simp [upd, P7]
@[simp] theorem P7_3 (l0 l1 l2 l3 l4 l5 l6 : PS Loc) : P7 l0 l1 l2 l3 l4 l5 l6 3 = l3 := rfl
@[simp] theorem P7_u3 (l0 l1 l2 l3 l4 l5 l6 v : PS Loc) : upd (P7 l0 l1 l2 l3 l4 l5 l6) 3 v = P7 l0 l1 l2 v l4 l5 l6 := by
  funext p
  match p with
  | 0 | 1 | 2 | 3 | 4 | 5 | 6 => simp [upd, P7]
  | n + 7 => simp [upd, P7]
@[simp] theorem P7_4 (l0 l1 l2 l3 l4 l5 l6 : PS Loc) : P7 l0 l1 l2 l3 l4 l5 l6 4 = l4 := rfl
@[simp] theorem P7_u4 (l0 l1 l2 l3 l4 l5 l6 v : PS Loc) : upd (P7 l0 l1 l2 l3 l4 l5 l6) 4 v = P7 l0 l1 l2 l3 v l5 l6 := by
  funext p
  match p with
  | 0 | 1 | 2 | 3 | 4 | 5 | 6 => simp [upd, P7]
  | n + 7 => simp [upd, P7]
@[simp] theorem P7_5 (l0 l1 l2 l3 l4 l5 l6 : PS Loc) : P7 l0 l1 l2 l3 l4 l5 l6 5 = l5 := rfl
@[simp] theorem P7_u5 (l0 l1 l2 l3 l4 l5 l6 v : PS Loc) : upd (P7 l0 l1 l2 l3 l4 l5 l6) 5 v = P7 l0 l1 l2 l3 l4 v l6 := by
  funext p
  match p with
  | 0 | 1 | 2 | 3 | 4 | 5 | 6 => simp [upd, P7]
  | n + 7 => simp [upd, P7]
@[simp] theorem P7_6 (l0 l1 l2 l3 l4 l5 l6 : PS Loc) : P7 l0 l1 l2 l3 l4 l5 l6 6 = l6 := rfl
@[simp] theorem P7_u6 (l0 l1 l2 l3 l4 l5 l6 v : PS Loc) : upd (P7 l0 l1 l2 l3 l4 l5 l6) 6 v = P7 l0 l1 l2 l3 l4 l5 v := by
  funext p
  match p with
  | 0 | 1 | 2 | 3 | 4 | 5 | 6 => simp [upd, P7]
  | n + 7 => simp [upd, P7]
@[simp] theorem C7_0 (l0 l1 l2 l3 l4 l5 l6 : CS Int) : C7 l0 l1 l2 l3 l4 l5 l6 0 = l0 := rfl
@[simp] theorem C7_u0 (l0 l1 l2 l3 l4 l5 l6 v : CS Int) : upd (C7 l0 l1 l2 l3 l4 l5 l6) 0 v = C7 v l1 l2 l3 l4 l5 l6 := by
  funext p
  match p with
  | 0 | 1 | 2 | 3 | 4 | 5 | 6 => simp [upd, C7]
  | n + 7 => simp [upd, C7]
@[simp] theorem C7_1 (l0 l1 l2 l3 l4 l5 l6 : CS Int) : C7 l0 l1 l2 l3 l4 l5 l6 1 = l1 := rfl
@[simp] theorem C7_u1 (l0 l1 l2 l3 l4 l5 l6 v : CS Int) : upd (C7 l0 l1 l2 l3 l4 l5 l6) 1 v = C7 l0 v l2 l3 l4 l5 l6 := by
  funext p
  match p with
  | 0 | 1 | 2 | 3 | 4 | 5 | 6 => simp [upd, C7]
  | n + 7 => simp [upd, C7]
@[simp] theorem C7_2 (l0 l1 l2 l3 l4 l5 l6 : CS Int) : C7 l0 l1 l2 l3 l4 l5 l6 2 = l2 := rfl
@[simp] theorem C7_u2 (l0 l1 l2 l3 l4 l5 l6 v : CS Int) : upd (C7 l0 l1 l2 l3 l4 l5 l6) 2 v = C7 l0 l1 v l3 l4 l5 l6 := by
  funext p
  match p with
  | 0 | 1 | 2 | 3 | 4 | 5 | 6 => simp [upd, C7]
  | n + 7 => simp [upd, C7]
@[simp] theorem C7_3 (l0 l1 l2 l3 l4 l5 l6 : CS Int) : C7 l0 l1 l2 l3 l4 l5 l6 3 = l3 := rfl
@[simp] theorem C7_u3 (l0 l1 l2 l3 l4 l5 l6 v : CS Int) : upd (C7 l0 l1 l2 l3 l4 l5 l6) 3 v = C7 l0 l1 l2 v l4 l5 l6 := by
  funext p
  match p with
  | 0 | 1 | 2 | 3 | 4 | 5 | 6 => simp [upd, C7]
  | n + 7 => simp [upd, C7]
@[simp] theorem C7_4 (l0 l1 l2 l3 l4 l5 l6 : CS Int) : C7 l0 l1 l2 l3 l4 l5 l6 4 = l4 := rfl
@[simp] theorem C7_u4 (l0 l1 l2 l3 l4 l5 l6 v : CS Int) : upd (C7 l0 l1 l2 l3 l4 l5 l6) 4 v = C7 l0 l1 l2 l3 v l5 l6 := by
  funext p
  match p with
  | 0 | 1 | 2 | 3 | 4 | 5 | 6 => simp [upd, C7]
  | n + 7 => simp [upd, C7]
@[simp] theorem C7_5 (l0 l1 l2 l3 l4 l5 l6 : CS Int) : C7 l0 l1 l2 l3 l4 l5 l6 5 = l5 := rfl
@[simp] theorem C7_u5 (l0 l1 l2 l3 l4 l5 l6 v : CS Int) : upd (C7 l0 l1 l2 l3 l4 l5 l6) 5 v = C7 l0 l1 l2 l3 l4 v l6 := by
  funext p
  match p with
  | 0 | 1 | 2 | 3 | 4 | 5 | 6 => simp [upd, C7]
  | n + 7 => simp [upd, C7]
@[simp] theorem C7_6 (l0 l1 l2 l3 l4 l5 l6 : CS Int) : C7 l0 l1 l2 l3 l4 l5 l6 6 = l6 := rfl
@[simp] theorem C7_u6 (l0 l1 l2 l3 l4 l5 l6 v : CS Int) : upd (C7 l0 l1 l2 l3 l4 l5 l6) 6 v = C7 l0 l1 l2 l3 l4 l5 v := by
  funext p
  match p with
  | 0 | 1 | 2 | 3 | 4 | 5 | 6 => simp [upd, C7]
  | n + 7 => simp [upd, C7]

/-- round-start state: `rest` to be produced, `q` in the Shift channel, `m` fill values still to send, running sum `s`,
    `r` sums still to skip, `out` delivered (already divided) -/
def S (rest q : List Int) (m : Nat) (s : Int) (r : Nat) (out : List Int) : St Loc Int :=
  ⟨P7 (⟨0, rest⟩, none) (⟨0, []⟩, none) (⟨0, [(m : Int)]⟩, none) (⟨0, [s]⟩, none) (⟨0, [(r : Int)]⟩, none)
      (⟨0, []⟩, none) (⟨0, out⟩, none),
   C7 ([], false) ([], false) ([], false) (q, false) ([], false) ([], false) ([], false)⟩

/-- every process finished, every channel closed and empty, the reader holds `out` -/
def FS (out : List Int) : St Loc Int :=
  ⟨P7 (⟨1, []⟩, none) (⟨5, []⟩, none) (⟨3, []⟩, none) (⟨31, []⟩, none) (⟨3, []⟩, none) (⟨3, []⟩, none) (⟨1, out⟩, none),
   C7 ([], true) ([], true) ([], true) ([], true) ([], true) ([], true) ([], true)⟩

/-- the summing Operate draining what is left in the Shift channel after it closed its output -/
def DS (q out : List Int) : St Loc Int :=
  ⟨P7 (⟨1, []⟩, none) (⟨5, []⟩, none) (⟨3, []⟩, none) (⟨10, []⟩, none) (⟨3, []⟩, none) (⟨3, []⟩, none) (⟨1, out⟩, none),
   C7 ([], true) ([], true) ([], true) (q, true) ([], true) ([], true) ([], true)⟩

theorem smaInit_eq (xs : List Int) (p : Nat) (hp : 1 ≤ p) : smaInit xs p = S xs [] p 0 (p - 1) [] := by
  have e : ((p - 1 : Nat) : Int) = (p : Int) - 1 := by omega
  simp only [smaInit, S, e]
  congr 1
  · funext q
    match q with
    | 0 | 1 | 2 | 3 | 4 | 5 | 6 => simp [P7]
    | n + 7 => simp [P7]
  · funext c
    match c with
    | 0 | 1 | 2 | 3 | 4 | 5 | 6 => simp [C7]
    | n + 7 => simp [C7]

/-- Shift sends one of its fill values -/
theorem fillStepS (p : Nat) (rest q : List Int) (m : Nat) (s : Int) (r : Nat) (out : List Int) (hq : q.length < p) :
    run (smaNet 0 p p) [2] (S rest q (m + 1) s r out) = some (S rest (q ++ [0]) m s r out) := by
  have hk : p ≠ 0 := by omega
  have h1 : q.length < max 1 p := by omega
  have h2 : ¬ ((m : Int) + 1 ≤ 0) := by omega
  simp [run, S, step, opOf, smaNet, shiftM, Op.chan, Op.fire, hk, h1, h2]

theorem fillsS (p : Nat) (rest : List Int) (s : Int) (r : Nat) (out : List Int) (m : Nat) (q : List Int)
    (h : q.length + m = p) :
    run (smaNet 0 p p) (List.replicate m 2) (S rest q m s r out) = some (S rest (q ++ List.replicate m 0) 0 s r out) := by
  induction m generalizing q with
  | zero => simp [run]
  | succ m ih =>
    have e : List.replicate (m + 1) 2 = [2] ++ List.replicate m 2 := by simp [List.replicate_succ]
    rw [e, run_append, fillStepS p rest q m s r out (by omega)]
    simp only [Option.bind_some]
    rw [ih (q ++ [0]) (by simp; omega)]
    simp [List.replicate_succ]

/-- a sum that is still skipped: identical to MovingSum's round, the Apply goroutine and the reader stay idle -/
def schedSA : List Nat := [0, 1, 0, 1, 3, 1, 1, 2, 1, 3, 2, 3, 4, 3]
/-- a sum that is delivered: Skip hands it to Apply, Apply hands the quotient to the reader -/
def schedSB : List Nat := schedSA ++ [4, 5, 4, 5, 6, 5]

theorem roundSA (p : Nat) (x y s : Int) (rest q : List Int) (r : Nat) (out : List Int) (hq : q.length < p) :
    run (smaNet 0 p p) schedSA (S (x :: rest) (y :: q) 0 s (r + 1) out) = some (S rest (q ++ [x]) 0 (s + x - y) r out) := by
  have hk : p ≠ 0 := by omega
  have h1 : q.length < max 1 p := by omega
  have h2 : ¬ ((r : Int) + 1 ≤ 0) := by omega
  simp [schedSA, run, S, step, opOf, smaNet, producer, dup2, shiftM, sumOp, skipM, Op.chan, Op.fire, hk, h1, h2]

/-- after the first part of a delivering round: Skip holds the sum `v` it is about to pass on -/
def T (rest q : List Int) (s v : Int) (out : List Int) : St Loc Int :=
  ⟨P7 (⟨0, rest⟩, none) (⟨0, []⟩, none) (⟨0, [0]⟩, none) (⟨0, [s]⟩, none) (⟨1, [0, v]⟩, none)
      (⟨0, []⟩, none) (⟨0, out⟩, none),
   C7 ([], false) ([], false) ([], false) (q, false) ([], false) ([], false) ([], false)⟩

/-- first part of a delivering round (the MovingSum part; Skip no longer drops).  The round is proved in two parts: the
    kernel checks the two short symbolic executions in seconds, the single long one in minutes. -/
theorem roundSB1 (p : Nat) (x y s : Int) (rest q : List Int) (out : List Int) (hq : q.length < p) :
    run (smaNet 0 p p) schedSA (S (x :: rest) (y :: q) 0 s 0 out)
      = some (T rest (q ++ [x]) (s + x - y) (s + x - y) out) := by
  have hk : p ≠ 0 := by omega
  have h1 : q.length < max 1 p := by omega
  simp [schedSA, run, S, T, step, opOf, smaNet, producer, dup2, shiftM, sumOp, skipM, Op.chan, Op.fire, hk, h1]

/-- second part: Skip → Apply → reader -/
theorem roundSB2 (p : Nat) (s v : Int) (rest q : List Int) (out : List Int) :
    run (smaNet 0 p p) [4, 5, 4, 5, 6, 5] (T rest q s v out) = some (S rest q 0 s 0 (out ++ [v / (p : Int)])) := by
  simp [run, S, T, step, opOf, smaNet, skipM, mapM, sink, Op.chan, Op.fire]

theorem roundSB (p : Nat) (x y s : Int) (rest q : List Int) (out : List Int) (hq : q.length < p) :
    run (smaNet 0 p p) schedSB (S (x :: rest) (y :: q) 0 s 0 out)
      = some (S rest (q ++ [x]) 0 (s + x - y) 0 (out ++ [(s + x - y) / (p : Int)])) := by
  rw [schedSB, run_append, roundSB1 p x y s rest q out hq]
  exact roundSB2 p (s + x - y) (s + x - y) rest (q ++ [x]) out

/-- the input is exhausted: closes propagate; the summing Operate closes its output before draining -/
def schedSE (r : Nat) : List Nat := [0, 1, 1, 1, 2, 2, 3, 3] ++ (if r = 0 then [4, 4] else [4, 4, 4]) ++ [5, 5, 6]

theorem roundSE (p : Nat) (q : List Int) (s : Int) (r : Nat) (out : List Int) :
    run (smaNet 0 p p) (schedSE r) (S [] q 0 s r out) = some (DS q out) := by
  cases r with
  | zero =>
    simp [schedSE, run, S, DS, step, opOf, smaNet, producer, dup2, shiftM, sumOp, skipM, mapM, sink, Op.chan, Op.fire]
  | succ r =>
    have h2 : ¬ ((r : Int) + 1 ≤ 0) := by omega
    simp [schedSE, run, S, DS, step, opOf, smaNet, producer, dup2, shiftM, sumOp, skipM, mapM, sink, Op.chan, Op.fire, h2]

theorem drainS (p : Nat) (q out : List Int) :
    run (smaNet 0 p p) (List.replicate (q.length + 1) 3) (DS q out) = some (FS out) := by
  induction q with
  | nil => simp [run, DS, FS, step, opOf, smaNet, sumOp, Op.chan, Op.fire]
  | cons y q ih =>
    have h : run (smaNet 0 p p) [3] (DS (y :: q) out) = some (DS q out) := by
      simp [run, DS, step, opOf, smaNet, sumOp, Op.chan, Op.fire]
    have e : List.replicate ((y :: q).length + 1) 3 = [3] ++ List.replicate (q.length + 1) 3 := by
      simp [List.replicate_succ]
    rw [e, run_append, h]; simpa using ih

/-- **the canonical run**: from any round-start state with a full Shift channel an explicit schedule ends with
    everything halted and the reader holding the quotients of the sums still to come -/
theorem sma_canonical_run (p : Nat) (hp : 1 ≤ p) (xs q : List Int) (s : Int) (r : Nat) (out : List Int)
    (hinv : q.length = p) :
    ∃ t, run (smaNet 0 p p) t (S xs q 0 s r out)
      = some (FS (out ++ ((sums s q xs).drop r).map (fun s => s / (p : Int)))) := by
  induction xs generalizing q s r out with
  | nil =>
    refine ⟨schedSE r ++ List.replicate (q.length + 1) 3, ?_⟩
    rw [run_append, roundSE]
    have : sums s q [] = [] := by cases q <;> rfl
    simpa [this] using drainS p q out
  | cons x rest ih =>
    cases q with
    | nil => simp at hinv; omega
    | cons y q =>
      have hq : q.length < p := by simp at hinv; omega
      cases r with
      | zero =>
        obtain ⟨t, ht⟩ := ih (q ++ [x]) (s + x - y) 0 (out ++ [(s + x - y) / (p : Int)]) (by simp at hinv ⊢; omega)
        refine ⟨schedSB ++ t, ?_⟩
        rw [run_append, roundSB p x y s rest q out hq]
        simpa [sums] using ht
      | succ r =>
        obtain ⟨t, ht⟩ := ih (q ++ [x]) (s + x - y) r out (by simp at hinv ⊢; omega)
        refine ⟨schedSA ++ t, ?_⟩
        rw [run_append, roundSA p x y s rest q r out hq]
        simpa [sums] using ht

theorem sma_canonical (xs : List Int) (p : Nat) (hp : 1 ≤ p) :
    ∃ t, run (smaNet 0 p p) t (smaInit xs p)
      = some (FS (((sums 0 (List.replicate p 0) xs).drop (p - 1)).map (fun s => s / (p : Int)))) := by
  rw [smaInit_eq xs p hp]
  obtain ⟨t, ht⟩ := sma_canonical_run p hp xs (List.replicate p 0) 0 (p - 1) [] (by simp)
  refine ⟨List.replicate p 2 ++ t, ?_⟩
  rw [run_append, fillsS p xs 0 (p - 1) [] p [] (by simp)]
  simpa using ht

theorem FS_allHalted (cap buf p : Nat) (out : List Int) : AllHalted (smaNet cap buf p) (FS out) := by
  intro q
  match q with
  | 0 | 1 | 2 | 3 | 4 | 5 | 6 => simp [FS, smaNet, producer, dup2, shiftM, sumOp, skipM, mapM, sink]
  | n + 7 => simp [FS, P7, smaNet]

theorem smaNet_owned (cap buf p : Nat) : Owned (smaNet cap buf p) := by
  constructor
  · intro q l c k h
    simp only [smaNet] at h ⊢
    split at h
    · simp only [producer] at h; split at h <;> simp at h
    · simp only [dup2] at h; split at h <;> simp at h; obtain ⟨rfl, _⟩ := h; rfl
    · simp only [shiftM] at h; split at h
      · split at h <;> simp at h; obtain ⟨rfl, _⟩ := h; rfl
      all_goals simp at h
    · simp only [sumOp] at h; split at h <;> simp at h <;> (obtain ⟨rfl, _⟩ := h; rfl)
    · simp only [skipM] at h; split at h
      · split at h <;> simp at h <;> (obtain ⟨rfl, _⟩ := h; rfl)
      all_goals simp at h
    · simp only [mapM] at h; split at h <;> simp at h; obtain ⟨rfl, _⟩ := h; rfl
    · simp only [sink] at h; split at h <;> simp at h; obtain ⟨rfl, _⟩ := h; rfl
    · simp at h
  · intro q l c v k h
    simp only [smaNet] at h ⊢
    split at h
    · simp only [producer] at h; split at h <;> simp at h; obtain ⟨rfl, _⟩ := h; rfl
    · simp only [dup2] at h; split at h <;> simp at h <;> (obtain ⟨rfl, _⟩ := h; rfl)
    · simp only [shiftM] at h; split at h
      · split at h <;> simp at h; obtain ⟨rfl, _⟩ := h; rfl
      all_goals simp at h
      obtain ⟨rfl, _⟩ := h; rfl
    · simp only [sumOp] at h; split at h <;> simp at h; obtain ⟨rfl, _⟩ := h; rfl
    · simp only [skipM] at h; split at h
      · split at h <;> simp at h
      all_goals simp at h
      obtain ⟨rfl, _⟩ := h; rfl
    · simp only [mapM] at h; split at h <;> simp at h; obtain ⟨rfl, _⟩ := h; rfl
    · simp only [sink] at h; split at h <;> simp at h
    · simp at h
  · intro q l c k h
    simp only [smaNet] at h ⊢
    split at h
    · simp only [producer] at h; split at h <;> simp at h; obtain ⟨rfl, _⟩ := h; rfl
    · simp only [dup2] at h; split at h <;> simp at h <;> (obtain ⟨rfl, _⟩ := h; rfl)
    · simp only [shiftM] at h; split at h
      · split at h <;> simp at h
      all_goals simp at h
      obtain ⟨rfl, _⟩ := h; rfl
    · simp only [sumOp] at h; split at h <;> simp at h <;> (obtain ⟨rfl, _⟩ := h; rfl)
    · simp only [skipM] at h; split at h
      · split at h <;> simp at h
      all_goals simp at h
      obtain ⟨rfl, _⟩ := h; rfl
    · simp only [mapM] at h; split at h <;> simp at h; obtain ⟨rfl, _⟩ := h; rfl
    · simp only [sink] at h; split at h <;> simp at h
    · simp at h

theorem smaInit_wf (cap buf : Nat) (xs : List Int) (p : Nat) : WF (smaNet cap buf p) (smaInit xs p) := by
  intro q c h
  simp only [smaInit] at h
  split at h <;> simp at h

theorem smaNet_larger (cap buf p : Nat) (hb : p ≤ buf) : Larger (smaNet 0 p p) (smaNet cap buf p) := by
  constructor
  · rfl
  · intro c
    simp only [smaNet]
    split <;> omega

/-- **`trend.Sma` terminates cleanly and computes the moving averages — for every input, every period `p ≥ 1`, every
    input-channel capacity, every Shift buffer ≥ p (the library: cap + p) and every schedule:** every execution has at
    most `bound` steps, and any execution that can go no further has every process finished, every channel closed and
    empty, and has delivered exactly the list semantics of the `movingSum` term, each value divided by `p`, to the
    independent reader. -/
theorem sma_terminates_cleanly (xs : List Int) (p cap buf : Nat) (hp : 1 ≤ p) (hb : p ≤ buf) :
    ∃ bound, ∀ t s2, run (smaNet cap buf p) t (smaInit xs p) = some s2 →
      t.length ≤ bound ∧
      (Terminal (smaNet cap buf p) s2 →
        AllHalted (smaNet cap buf p) s2 ∧ (∀ c, s2.chans c = ([], true) ∨ 7 ≤ c) ∧
        (s2.procs 6).1.reg
          = (Sig.evalL [xs] (Ind.movingSum p (Sig.input 0))).map (fun s => s / (p : Int))) := by
  obtain ⟨t0, h0⟩ := sma_canonical xs p hp
  have hL := smaNet_larger cap buf p hb
  have hO := smaNet_owned cap buf p
  have hW := smaInit_wf cap buf xs p
  obtain ⟨t', e', hr, hRe, hlen⟩ := capacity_mono _ _ hL t0 _ _ _ (rel_refl _) h0
  have hH' : AllHalted (smaNet cap buf p) e' := rel_allHalted _ _ hL _ _ hRe (FS_allHalted 0 p p _)
  refine ⟨t0.length, fun t s2 h2 => ⟨?_, fun hT => ?_⟩⟩
  · have := no_longer_schedule _ hO t' t _ e' s2 hW hr (allHalted_terminal _ _ hH') h2
    omega
  · obtain ⟨hA, hC, hP⟩ :=
      clean_termination_for_larger_capacities _ _ hO hL t0 _ _ hW h0 (FS_allHalted 0 p p _) t s2 h2 hT
    refine ⟨hA, fun c => ?_, ?_⟩
    · rw [hC]
      match c with
      | 0 | 1 | 2 | 3 | 4 | 5 | 6 => left; simp [FS]
      | n + 7 => right; omega
    · rw [hP 6, ← sums_eq_movingSum p hp xs]; simp [FS]

/-- the library's own buffering: `Shift` allocates `cap(input) + p` -/
theorem sma_library_buffers (xs : List Int) (p cap : Nat) (hp : 1 ≤ p) :
    ∃ bound, ∀ t s2, run (smaNet cap (cap + p) p) t (smaInit xs p) = some s2 →
      t.length ≤ bound ∧ (Terminal (smaNet cap (cap + p) p) s2 → AllHalted (smaNet cap (cap + p) p) s2) := by
  obtain ⟨b, h⟩ := sma_terminates_cleanly xs p cap (cap + p) hp (by omega)
  exact ⟨b, fun t s2 h2 => ⟨(h t s2 h2).1, fun hT => ((h t s2 h2).2 hT).1⟩⟩

example : NetM.smaRun 0 3 3 [1, 2, 3, 4, 5, 6] = (true, true, [2, 3, 4, 5]) := by decide
/-- with a Shift buffer two short of the period the same pipeline deadlocks on unbuffered channels -/
example : NetM.smaRun 0 1 3 [1, 2, 3, 4, 5, 6] = (true, false, []) := by decide

end C03
