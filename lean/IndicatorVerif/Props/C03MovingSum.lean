import IndicatorVerif.Props.C03Change
import IndicatorVerif.Model.Prims
/-
  C03 — clean termination PROVED for `trend.MovingSum` (the pipeline under Sma, hence under most indicators), for
  every input, every period p ≥ 1, every input capacity, every `Shift` buffer ≥ p (the library allocates
  cap(input) + p) and every schedule:
      cs := Duplicate(c, 2); cs[1] = Shift(cs[1], p, 0); sums := Operate(cs[0], cs[1], sum += c − b); Skip(sums, p−1)
  (`NetM.msumNet`: producer, Duplicate, Shift, the summing Operate, Skip, an independent reader).
  Same method as `C03Change`: one symbolic canonical run on the smallest buffers + determinacy + capacity monotonicity.
  The delivered values are tied to the list semantics the value theorems (C01, C02, C04) speak about:
  `evalL [xs] (Ind.movingSum p (input 0))` at element type ℤ.
-/
namespace C03
open Net NetM

/-- round-start state: `rest` to be produced, `q` in the Shift channel, `m` fill values still to send, running sum `s`,
    `r` sums still to skip, `out` delivered -/
def M (rest q : List Int) (m : Nat) (s : Int) (r : Nat) (out : List Int) : St Loc Int :=
  ⟨P6 (⟨0, rest⟩, none) (⟨0, []⟩, none) (⟨0, [(m : Int)]⟩, none) (⟨0, [s]⟩, none) (⟨0, [(r : Int)]⟩, none) (⟨0, out⟩, none),
   C6 ([], false) ([], false) ([], false) (q, false) ([], false) ([], false)⟩

def FM (out : List Int) : St Loc Int :=
  ⟨P6 (⟨1, []⟩, none) (⟨5, []⟩, none) (⟨3, []⟩, none) (⟨31, []⟩, none) (⟨3, []⟩, none) (⟨1, out⟩, none),
   C6 ([], true) ([], true) ([], true) ([], true) ([], true) ([], true)⟩

def DM (q out : List Int) : St Loc Int :=
  ⟨P6 (⟨1, []⟩, none) (⟨5, []⟩, none) (⟨3, []⟩, none) (⟨10, []⟩, none) (⟨3, []⟩, none) (⟨1, out⟩, none),
   C6 ([], true) ([], true) ([], true) (q, true) ([], true) ([], true)⟩

theorem msumInit_eq (xs : List Int) (p : Nat) (hp : 1 ≤ p) : msumInit xs p = M xs [] p 0 (p - 1) [] := by
  have e : ((p - 1 : Nat) : Int) = (p : Int) - 1 := by omega
  simp only [msumInit, M, e]
  congr 1
  · funext q
    match q with
    | 0 | 1 | 2 | 3 | 4 | 5 => simp [P6]
    | n + 6 => simp [P6]
  · funext c
    match c with
    | 0 | 1 | 2 | 3 | 4 | 5 => simp [C6]
    | n + 6 => simp [C6]

/-- Shift sends one of its fill values -/
theorem fillStep (p : Nat) (rest q : List Int) (m : Nat) (s : Int) (r : Nat) (out : List Int) (hq : q.length < p) :
    run (msumNet 0 p) [2] (M rest q (m + 1) s r out) = some (M rest (q ++ [0]) m s r out) := by
  have hk : p ≠ 0 := by omega
  have h1 : q.length < max 1 p := by omega
  have h2 : ¬ ((m : Int) + 1 ≤ 0) := by omega
  simp [run, M, step, opOf, msumNet, shiftM, Op.chan, Op.fire, hk, h1, h2]

theorem fills (p : Nat) (rest : List Int) (s : Int) (r : Nat) (out : List Int) (m : Nat) (q : List Int)
    (h : q.length + m = p) :
    run (msumNet 0 p) (List.replicate m 2) (M rest q m s r out) = some (M rest (q ++ List.replicate m 0) 0 s r out) := by
  induction m generalizing q with
  | zero => simp [run]
  | succ m ih =>
    have e : List.replicate (m + 1) 2 = [2] ++ List.replicate m 2 := by simp [List.replicate_succ]
    rw [e, run_append, fillStep p rest q m s r out (by omega)]
    simp only [Option.bind_some]
    rw [ih (q ++ [0]) (by simp; omega)]
    simp [List.replicate_succ]

def schedMA : List Nat := [0, 1, 0, 1, 3, 1, 1, 2, 1, 3, 2, 3, 4, 3]
def schedMB : List Nat := schedMA ++ [4, 5, 4]

theorem roundMA (p : Nat) (x y s : Int) (rest q : List Int) (r : Nat) (out : List Int) (hq : q.length < p) :
    run (msumNet 0 p) schedMA (M (x :: rest) (y :: q) 0 s (r + 1) out) = some (M rest (q ++ [x]) 0 (s + x - y) r out) := by
  have hk : p ≠ 0 := by omega
  have h1 : q.length < max 1 p := by omega
  have h2 : ¬ ((r : Int) + 1 ≤ 0) := by omega
  simp [schedMA, run, M, step, opOf, msumNet, producer, dup2, shiftM, sumOp, skipM, Op.chan, Op.fire, hk, h1, h2]

theorem roundMB (p : Nat) (x y s : Int) (rest q : List Int) (out : List Int) (hq : q.length < p) :
    run (msumNet 0 p) schedMB (M (x :: rest) (y :: q) 0 s 0 out)
      = some (M rest (q ++ [x]) 0 (s + x - y) 0 (out ++ [s + x - y])) := by
  have hk : p ≠ 0 := by omega
  have h1 : q.length < max 1 p := by omega
  simp [schedMB, schedMA, run, M, step, opOf, msumNet, producer, dup2, shiftM, sumOp, skipM, sink, Op.chan, Op.fire, hk, h1]

def schedME (r : Nat) : List Nat := [0, 1, 1, 1, 2, 2, 3, 3] ++ (if r = 0 then [4, 4] else [4, 4, 4]) ++ [5]

theorem roundME (p : Nat) (q : List Int) (s : Int) (r : Nat) (out : List Int) :
    run (msumNet 0 p) (schedME r) (M [] q 0 s r out) = some (DM q out) := by
  cases r with
  | zero =>
    simp [schedME, run, M, DM, step, opOf, msumNet, producer, dup2, shiftM, sumOp, skipM, sink, Op.chan, Op.fire]
  | succ r =>
    have h2 : ¬ ((r : Int) + 1 ≤ 0) := by omega
    simp [schedME, run, M, DM, step, opOf, msumNet, producer, dup2, shiftM, sumOp, skipM, sink, Op.chan, Op.fire, h2]

theorem drainM (p : Nat) (q out : List Int) :
    run (msumNet 0 p) (List.replicate (q.length + 1) 3) (DM q out) = some (FM out) := by
  induction q with
  | nil => simp [run, DM, FM, step, opOf, msumNet, sumOp, Op.chan, Op.fire]
  | cons y q ih =>
    have h : run (msumNet 0 p) [3] (DM (y :: q) out) = some (DM q out) := by
      simp [run, DM, step, opOf, msumNet, sumOp, Op.chan, Op.fire]
    have e : List.replicate ((y :: q).length + 1) 3 = [3] ++ List.replicate (q.length + 1) 3 := by
      simp [List.replicate_succ]
    rw [e, run_append, h]; simpa using ih

/-- what the summing Operate emits from running sum `s`, shifted queue `q` and remaining input -/
def sums : Int → List Int → List Int → List Int
  | _, _, [] => []
  | _, [], _ :: _ => []
  | s, y :: q, x :: rest => (s + x - y) :: sums (s + x - y) (q ++ [x]) rest

theorem msum_canonical_run (p : Nat) (hp : 1 ≤ p) (xs q : List Int) (s : Int) (r : Nat) (out : List Int)
    (hinv : q.length = p) :
    ∃ t, run (msumNet 0 p) t (M xs q 0 s r out) = some (FM (out ++ (sums s q xs).drop r)) := by
  induction xs generalizing q s r out with
  | nil =>
    refine ⟨schedME r ++ List.replicate (q.length + 1) 3, ?_⟩
    rw [run_append, roundME]
    have : sums s q [] = [] := by cases q <;> rfl
    simpa [this] using drainM p q out
  | cons x rest ih =>
    cases q with
    | nil => simp at hinv; omega
    | cons y q =>
      have hq : q.length < p := by simp at hinv; omega
      cases r with
      | zero =>
        obtain ⟨t, ht⟩ := ih (q ++ [x]) (s + x - y) 0 (out ++ [s + x - y]) (by simp at hinv ⊢; omega)
        refine ⟨schedMB ++ t, ?_⟩
        rw [run_append, roundMB p x y s rest q out hq]
        simpa [sums] using ht
      | succ r =>
        obtain ⟨t, ht⟩ := ih (q ++ [x]) (s + x - y) r out (by simp at hinv ⊢; omega)
        refine ⟨schedMA ++ t, ?_⟩
        rw [run_append, roundMA p x y s rest q r out hq]
        simpa [sums] using ht

theorem msum_canonical (xs : List Int) (p : Nat) (hp : 1 ≤ p) :
    ∃ t, run (msumNet 0 p) t (msumInit xs p)
      = some (FM ((sums 0 (List.replicate p 0) xs).drop (p - 1))) := by
  rw [msumInit_eq xs p hp]
  obtain ⟨t, ht⟩ := msum_canonical_run p hp xs (List.replicate p 0) 0 (p - 1) [] (by simp)
  refine ⟨List.replicate p 2 ++ t, ?_⟩
  rw [run_append, fills p xs 0 (p - 1) [] p [] (by simp)]
  simpa using ht

theorem FM_allHalted (cap buf : Nat) (out : List Int) : AllHalted (msumNet cap buf) (FM out) := by
  intro p
  match p with
  | 0 | 1 | 2 | 3 | 4 | 5 => simp [FM, msumNet, producer, dup2, shiftM, sumOp, skipM, sink]
  | n + 6 => simp [FM, P6, msumNet]

theorem msumNet_owned (cap buf : Nat) : Owned (msumNet cap buf) := by
  constructor
  · intro p l c k h
    simp only [msumNet] at h ⊢
    split at h
    · simp only [producer] at h; split at h <;> simp at h
    · simp only [dup2] at h; split at h <;> simp at h; obtain ⟨rfl, _⟩ := h; rfl
    · simp only [shiftM] at h; split at h
      · split at h <;> simp at h; obtain ⟨rfl, _⟩ := h; rfl
      all_goals simp at h
    · simp only [sumOp] at h; split at h <;> simp at h <;> (obtain ⟨rfl, _⟩ := h; rfl)
    · simp only [skipM] at h; split at h
      · split at h <;> simp at h <;> (obtain ⟨rfl, _⟩ := h; rfl)
      all_goals simp at h
    · simp only [sink] at h; split at h <;> simp at h; obtain ⟨rfl, _⟩ := h; rfl
    · simp at h
  · intro p l c v k h
    simp only [msumNet] at h ⊢
    split at h
    · simp only [producer] at h; split at h <;> simp at h; obtain ⟨rfl, _⟩ := h; rfl
    · simp only [dup2] at h; split at h <;> simp at h <;> (obtain ⟨rfl, _⟩ := h; rfl)
    · simp only [shiftM] at h; split at h
      · split at h <;> simp at h; obtain ⟨rfl, _⟩ := h; rfl
      all_goals simp at h
      obtain ⟨rfl, _⟩ := h; rfl
    · simp only [sumOp] at h; split at h <;> simp at h; obtain ⟨rfl, _⟩ := h; rfl
    · simp only [skipM] at h; split at h
      · split at h <;> simp at h
      all_goals simp at h
      obtain ⟨rfl, _⟩ := h; rfl
    · simp only [sink] at h; split at h <;> simp at h
    · simp at h
  · intro p l c k h
    simp only [msumNet] at h ⊢
    split at h
    · simp only [producer] at h; split at h <;> simp at h; obtain ⟨rfl, _⟩ := h; rfl
    · simp only [dup2] at h; split at h <;> simp at h <;> (obtain ⟨rfl, _⟩ := h; rfl)
    · simp only [shiftM] at h; split at h
      · split at h <;> simp at h
      all_goals simp at h
      obtain ⟨rfl, _⟩ := h; rfl
    · simp only [sumOp] at h; split at h <;> simp at h <;> (obtain ⟨rfl, _⟩ := h; rfl)
    · simp only [skipM] at h; split at h
      · split at h <;> simp at h
      all_goals simp at h
      obtain ⟨rfl, _⟩ := h; rfl
    · simp only [sink] at h; split at h <;> simp at h
    · simp at h

theorem msumInit_wf (cap buf : Nat) (xs : List Int) (p : Nat) : WF (msumNet cap buf) (msumInit xs p) := by
  intro q c h
  simp only [msumInit] at h
  split at h <;> simp at h

theorem msumNet_larger (cap buf p : Nat) (hb : p ≤ buf) : Larger (msumNet 0 p) (msumNet cap buf) := by
  constructor
  · rfl
  · intro c
    simp only [msumNet]
    split <;> omega

/-- the values the network delivers are the list semantics of the `movingSum` term (what C01/C02/C04 reason about) -/
theorem sums_eq_scan (s : Int) (q xs : List Int) (hq : q ≠ []) :
    sums s q xs = Sig.scanL2 Ind.sumStep s xs ((q ++ xs).take xs.length) := by
  induction xs generalizing s q with
  | nil => cases q <;> simp [sums, Sig.scanL2]
  | cons x rest ih =>
    cases q with
    | nil => exact absurd rfl hq
    | cons y q =>
      have e : ((y :: q) ++ x :: rest).take (x :: rest).length = y :: ((q ++ [x]) ++ rest).take rest.length := by
        simp [List.take_succ_cons]
      rw [e]
      simp only [sums, Sig.scanL2, Ind.sumStep]
      rw [ih (s + x - y) (q ++ [x]) (by simp)]

theorem sums_eq_movingSum (p : Nat) (hp : 1 ≤ p) (xs : List Int) :
    (sums 0 (List.replicate p 0) xs).drop (p - 1) = Sig.evalL [xs] (Ind.movingSum p (Sig.input 0)) := by
  rw [sums_eq_scan 0 (List.replicate p 0) xs (by cases p with | zero => omega | succ n => simp [List.replicate_succ])]
  simp [Ind.movingSum, Sig.evalL, Ind.zero, Arith.nat, Arith.ofNat]

/-- **`trend.MovingSum` terminates cleanly and computes the moving sums — for every input, every period `p ≥ 1`, every
    input-channel capacity, every Shift buffer ≥ p (the library: cap + p) and every schedule:** every execution has at
    most `bound` steps, and any execution that can go no further has every process finished, every channel closed and
    empty, and has delivered exactly the list semantics of the `movingSum` term to the independent reader. -/
theorem movingSum_terminates_cleanly (xs : List Int) (p cap buf : Nat) (hp : 1 ≤ p) (hb : p ≤ buf) :
    ∃ bound, ∀ t s2, run (msumNet cap buf) t (msumInit xs p) = some s2 →
      t.length ≤ bound ∧
      (Terminal (msumNet cap buf) s2 →
        AllHalted (msumNet cap buf) s2 ∧ (∀ c, s2.chans c = ([], true) ∨ 6 ≤ c) ∧
        (s2.procs 5).1.reg = Sig.evalL [xs] (Ind.movingSum p (Sig.input 0))) := by
  obtain ⟨t0, h0⟩ := msum_canonical xs p hp
  have hL := msumNet_larger cap buf p hb
  have hO := msumNet_owned cap buf
  have hW := msumInit_wf cap buf xs p
  obtain ⟨t', e', hr, hRe, hlen⟩ := capacity_mono _ _ hL t0 _ _ _ (rel_refl _) h0
  have hH' : AllHalted (msumNet cap buf) e' := rel_allHalted _ _ hL _ _ hRe (FM_allHalted 0 p _)
  refine ⟨t0.length, fun t s2 h2 => ⟨?_, fun hT => ?_⟩⟩
  · have := no_longer_schedule _ hO t' t _ e' s2 hW hr (allHalted_terminal _ _ hH') h2
    omega
  · obtain ⟨hA, hC, hP⟩ := clean_termination_for_larger_capacities _ _ hO hL t0 _ _ hW h0 (FM_allHalted 0 p _) t s2 h2 hT
    refine ⟨hA, fun c => ?_, ?_⟩
    · rw [hC]
      match c with
      | 0 | 1 | 2 | 3 | 4 | 5 => left; simp [FM]
      | n + 6 => right; omega
    · rw [hP 5, ← sums_eq_movingSum p hp xs]; simp [FM]

/-- the library's own buffering: `Shift` allocates `cap(input) + p` -/
theorem movingSum_library_buffers (xs : List Int) (p cap : Nat) (hp : 1 ≤ p) :
    ∃ bound, ∀ t s2, run (msumNet cap (cap + p)) t (msumInit xs p) = some s2 →
      t.length ≤ bound ∧ (Terminal (msumNet cap (cap + p)) s2 → AllHalted (msumNet cap (cap + p)) s2) := by
  obtain ⟨b, h⟩ := movingSum_terminates_cleanly xs p cap (cap + p) hp (by omega)
  exact ⟨b, fun t s2 h2 => ⟨(h t s2 h2).1, fun hT => ((h t s2 h2).2 hT).1⟩⟩

example : NetM.msumRun 0 3 3 [1, 2, 3, 4, 5, 6] = (true, true, [6, 9, 12, 15]) := by decide
/-- with a Shift buffer two short of the period the same pipeline deadlocks on unbuffered channels -/
example : NetM.msumRun 0 1 3 [1, 2, 3, 4, 5, 6] = (true, false, []) := by decide

end C03
