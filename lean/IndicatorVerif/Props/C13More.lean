import IndicatorVerif.Props.C13
import Mathlib.Order.Defs.LinearOrder
import Mathlib.Data.Real.Basic
/-
  C13 (continued) — rankings when an outcome can be undefined.

  In Go an outcome is a float64 and can be NaN (a buy at a close of 0 followed by a sell and a re-buy gives
  0/0).  The reports rank with `slices.SortFunc(results, func(a, b) int { return cmp.Compare(b.Outcome, a.Outcome) })`.
  `cmp.Compare` on floats is a total preorder: NaN equals NaN and is below every other value.

  Model: an outcome is `Option α` over any linear order `α` (`none` = NaN).  "Lawful" is the core notion
  `Std.TransCmp` (oriented: `cmp a b = (cmp b a).swap`; transitive: `isLE` composes), which is what
  `slices.SortFunc` demands of its argument (a strict weak ordering).  The consequences are stated for ANY list
  whose adjacent entries are in comparator order (`AdjSorted`), hence for the output of any correct sorting
  algorithm, and then for two concrete ones: the insertion sort of `C13.lean` (`sortCmp`, generalised) and
  the left-to-right insertion sort that `slices.SortFunc` really runs on fewer than 12 entries (`goSort`).
-/
namespace C13

/-! ### comparators and sortedness, generically -/

section generic
variable {β : Type*}

/-- the insertion sort of `C13.lean` for an `Ordering`-valued comparator (`x` goes before `y` iff `cmp x y < 0`) -/
def insertCmp (cmp : β → β → Ordering) (x : β) : List β → List β
  | [] => [x]
  | y :: t => if cmp x y = .lt then x :: y :: t else y :: insertCmp cmp x t
def sortCmp (cmp : β → β → Ordering) (l : List β) : List β := l.foldr (insertCmp cmp) []

/-- `insertionSortCmpFunc` of Go's `slices` (used by `SortFunc` below 12 entries): the prefix is kept sorted;
    the next entry moves left while it compares `< 0` with its predecessor.  `rev` is the prefix reversed. -/
def insertLeft (cmp : β → β → Ordering) (x : β) : List β → List β
  | [] => [x]
  | y :: rev => if cmp x y = .lt then y :: insertLeft cmp x rev else x :: y :: rev
def goSort (cmp : β → β → Ordering) (l : List β) : List β :=
  (l.foldl (fun rev x => insertLeft cmp x rev) []).reverse

/-- every adjacent pair is in comparator order (what a sorting algorithm can see by comparing neighbours) -/
def AdjSorted (cmp : β → β → Ordering) : List β → Prop
  | [] => True
  | [_] => True
  | a :: b :: t => cmp a b ≠ .gt ∧ AdjSorted cmp (b :: t)

theorem ne_gt_trans {cmp : β → β → Ordering} [Std.TransCmp cmp] {a b c : β}
    (h₁ : cmp a b ≠ .gt) (h₂ : cmp b c ≠ .gt) : cmp a c ≠ .gt := by
  exact Ordering.ne_gt_iff_isLE.mpr
    (Std.TransCmp.isLE_trans (Ordering.ne_gt_iff_isLE.mp h₁) (Ordering.ne_gt_iff_isLE.mp h₂))

theorem ne_lt_imp_swap_ne_gt {cmp : β → β → Ordering} [Std.OrientedCmp cmp] {a b : β}
    (h : cmp a b ≠ .lt) : cmp b a ≠ .gt := by
  rw [Std.OrientedCmp.eq_swap (cmp := cmp) (a := b) (b := a)]
  cases hc : cmp a b <;> simp_all [Ordering.swap]

/-- with a lawful comparator, neighbours in order means all pairs in order -/
theorem adjSorted_pairwise {cmp : β → β → Ordering} [Std.TransCmp cmp] :
    ∀ (l : List β), AdjSorted cmp l → l.Pairwise (fun a b => cmp a b ≠ .gt)
  | [], _ => List.Pairwise.nil
  | [a], _ => List.pairwise_singleton _ a
  | a :: b :: t, h => by
    have ih := adjSorted_pairwise (b :: t) h.2
    refine List.pairwise_cons.mpr ⟨?_, ih⟩
    intro z hz
    rcases List.mem_cons.mp hz with hz | hz
    · subst hz; exact h.1
    · exact ne_gt_trans h.1 ((List.pairwise_cons.mp ih).1 z hz)

theorem pairwise_adjSorted {cmp : β → β → Ordering} :
    ∀ (l : List β), l.Pairwise (fun a b => cmp a b ≠ .gt) → AdjSorted cmp l
  | [], _ => trivial
  | [_], _ => trivial
  | a :: b :: t, h => by
    have h' := List.pairwise_cons.mp h
    exact ⟨h'.1 b (by simp), pairwise_adjSorted (b :: t) h'.2⟩

theorem insertCmp_perm (cmp : β → β → Ordering) (x : β) : ∀ l : List β, (insertCmp cmp x l).Perm (x :: l)
  | [] => by simp [insertCmp]
  | y :: t => by
    simp only [insertCmp]; split
    · exact List.Perm.refl _
    · exact (List.Perm.cons y (insertCmp_perm cmp x t)).trans (List.Perm.swap x y t)

theorem sortCmp_perm (cmp : β → β → Ordering) : ∀ l : List β, (sortCmp cmp l).Perm l
  | [] => by simp [sortCmp]
  | x :: t => (insertCmp_perm cmp x _).trans (List.Perm.cons x (sortCmp_perm cmp t))

theorem insertCmp_sorted {cmp : β → β → Ordering} [Std.TransCmp cmp] (x : β) :
    ∀ l : List β, l.Pairwise (fun a b => cmp a b ≠ .gt) →
      (insertCmp cmp x l).Pairwise (fun a b => cmp a b ≠ .gt)
  | [], _ => by simp [insertCmp]
  | y :: t, h => by
    have h' := List.pairwise_cons.mp h
    simp only [insertCmp]
    split
    · rename_i hxy
      have hxy' : cmp x y ≠ .gt := by rw [hxy]; decide
      refine List.pairwise_cons.mpr ⟨?_, h⟩
      intro z hz
      rcases List.mem_cons.mp hz with hz | hz
      · subst hz; exact hxy'
      · exact ne_gt_trans hxy' (h'.1 z hz)
    · rename_i hxy
      refine List.pairwise_cons.mpr ⟨?_, insertCmp_sorted x t h'.2⟩
      intro z hz
      rcases List.mem_cons.mp ((insertCmp_perm cmp x t).mem_iff.mp hz) with hz | hz
      · subst hz; exact ne_lt_imp_swap_ne_gt hxy
      · exact h'.1 z hz

/-- **the insertion sort of `C13.lean` is correct for every lawful comparator** -/
theorem sortCmp_sorted {cmp : β → β → Ordering} [Std.TransCmp cmp] :
    ∀ l : List β, (sortCmp cmp l).Pairwise (fun a b => cmp a b ≠ .gt)
  | [] => by simp [sortCmp]
  | x :: t => insertCmp_sorted x _ (sortCmp_sorted t)

theorem insertLeft_perm (cmp : β → β → Ordering) (x : β) : ∀ l : List β, (insertLeft cmp x l).Perm (x :: l)
  | [] => by simp [insertLeft]
  | y :: t => by
    simp only [insertLeft]; split
    · exact (List.Perm.cons y (insertLeft_perm cmp x t)).trans (List.Perm.swap x y t)
    · exact List.Perm.refl _

/-- on the reversed prefix the invariant is "every earlier entry (further right in `rev`) is not after a later one" -/
theorem insertLeft_sorted {cmp : β → β → Ordering} [Std.TransCmp cmp] (x : β) :
    ∀ l : List β, l.Pairwise (fun a b => cmp b a ≠ .gt) →
      (insertLeft cmp x l).Pairwise (fun a b => cmp b a ≠ .gt)
  | [], _ => by simp [insertLeft]
  | y :: t, h => by
    have h' := List.pairwise_cons.mp h
    simp only [insertLeft]
    split
    · rename_i hxy
      have hxy' : cmp x y ≠ .gt := by rw [hxy]; decide
      refine List.pairwise_cons.mpr ⟨?_, insertLeft_sorted x t h'.2⟩
      intro z hz
      rcases List.mem_cons.mp ((insertLeft_perm cmp x t).mem_iff.mp hz) with hz | hz
      · subst hz; exact hxy'
      · exact h'.1 z hz
    · rename_i hxy
      have hyx : cmp y x ≠ .gt := ne_lt_imp_swap_ne_gt hxy
      refine List.pairwise_cons.mpr ⟨?_, h⟩
      intro z hz
      rcases List.mem_cons.mp hz with hz | hz
      · subst hz; exact hyx
      · exact ne_gt_trans (h'.1 z hz) hyx

theorem goSort_fold_sorted {cmp : β → β → Ordering} [Std.TransCmp cmp] :
    ∀ (l rev : List β), rev.Pairwise (fun a b => cmp b a ≠ .gt) →
      (l.foldl (fun rev x => insertLeft cmp x rev) rev).Pairwise (fun a b => cmp b a ≠ .gt)
  | [], _, h => h
  | x :: t, rev, h => goSort_fold_sorted t _ (insertLeft_sorted x rev h)

theorem goSort_fold_perm (cmp : β → β → Ordering) :
    ∀ (l rev : List β), (l.foldl (fun rev x => insertLeft cmp x rev) rev).Perm (l ++ rev)
  | [], _ => List.Perm.refl _
  | x :: t, rev => by
    refine (goSort_fold_perm cmp t _).trans ?_
    refine ((insertLeft_perm cmp x rev).append_left t).trans ?_
    simp

/-- **Go's small-slice insertion sort is correct for every lawful comparator** -/
theorem goSort_sorted {cmp : β → β → Ordering} [Std.TransCmp cmp] (l : List β) :
    (goSort cmp l).Pairwise (fun a b => cmp a b ≠ .gt) :=
  List.pairwise_reverse.mpr (goSort_fold_sorted l [] List.Pairwise.nil)

theorem goSort_perm (cmp : β → β → Ordering) (l : List β) : (goSort cmp l).Perm l :=
  (List.reverse_perm _).trans (by simpa using goSort_fold_perm cmp l [])

end generic

/-! ### Go's `cmp.Compare` on possibly undefined outcomes -/

section ranking
variable {α : Type*} [LinearOrder α]

/-- Go's `cmp.Compare` on floats, `none` = NaN: NaN equals NaN and is less than every number -/
def goCompare : Option α → Option α → Ordering
  | none, none => .eq
  | none, some _ => .lt
  | some _, none => .gt
  | some a, some b => compare a b

/-- the ranking comparator of both reports: `cmp.Compare(b.Outcome, a.Outcome)` -/
def rankCmp (a b : Option α) : Ordering := goCompare b a

instance goCompare_oriented : Std.OrientedCmp (goCompare (α := α)) where
  eq_swap := by
    intro a b
    cases a <;> cases b <;> simp only [goCompare, Ordering.swap]
    exact Std.OrientedCmp.eq_swap

/-- **`cmp.Compare` is lawful on outcomes that may be undefined** -/
instance goCompare_trans : Std.TransCmp (goCompare (α := α)) where
  isLE_trans := by
    intro a b c h₁ h₂
    cases a <;> cases b <;> cases c <;> simp_all [goCompare, Ordering.isLE]
    exact Std.TransCmp.isLE_trans h₁ h₂

instance rankCmp_oriented : Std.OrientedCmp (rankCmp (α := α)) where
  eq_swap := by intro a b; exact Std.OrientedCmp.eq_swap (cmp := goCompare)

/-- **the ranking comparator is lawful** (oriented and transitive, hence total and a strict weak ordering) -/
instance rankCmp_trans : Std.TransCmp (rankCmp (α := α)) where
  isLE_trans := by
    intro a b c h₁ h₂
    exact Std.TransCmp.isLE_trans (cmp := goCompare) h₂ h₁

theorem rankCmp_refl (a : Option α) : rankCmp a a = .eq := by
  cases a <;> simp [rankCmp, goCompare]

/-- total: of any two outcomes one may stand before the other -/
theorem rankCmp_total (a b : Option α) : rankCmp a b ≠ .gt ∨ rankCmp b a ≠ .gt := by
  rw [Std.OrientedCmp.eq_swap (cmp := rankCmp) (a := b) (b := a)]
  cases rankCmp a b <;> simp [Ordering.swap]

/-- what "`a` may stand before `b`" means: `b` is undefined, or both are defined and `b ≤ a` -/
theorem rankCmp_ne_gt_iff (a b : Option α) :
    rankCmp a b ≠ .gt ↔ b = none ∨ ∃ x y, a = some x ∧ b = some y ∧ y ≤ x := by
  cases a <;> cases b <;> simp [rankCmp, goCompare, compare_le_iff_le]

/-- equivalent outcomes are both undefined or equal: the comparator identifies nothing else -/
theorem rankCmp_eq_iff (a b : Option α) : rankCmp a b = .eq ↔ a = b := by
  cases a <;> cases b <;> simp [rankCmp, goCompare]
  exact eq_comm

/-- the two shapes of the conclusion: non-increasing on the defined outcomes, undefined ones last -/
def DefinedNonIncreasing (l : List (Option α)) : Prop :=
  l.Pairwise (fun a b => ∀ x y, a = some x → b = some y → y ≤ x)
def DefinedFirst (l : List (Option α)) : Prop :=
  l.Pairwise (fun a b => a = none → b = none)

theorem pairwise_rank_definedNonIncreasing {l : List (Option α)}
    (h : l.Pairwise (fun a b => rankCmp a b ≠ .gt)) : DefinedNonIncreasing l := by
  refine h.imp ?_
  intro a b hab x y hx hy
  subst hx; subst hy
  simpa using (rankCmp_ne_gt_iff (some x) (some y)).mp hab

theorem pairwise_rank_definedFirst {l : List (Option α)}
    (h : l.Pairwise (fun a b => rankCmp a b ≠ .gt)) : DefinedFirst l := by
  refine h.imp ?_
  intro a b hab ha
  subst ha
  simpa using (rankCmp_ne_gt_iff none b).mp hab

/-- **a ranked list is non-increasing on the defined outcomes** (any list whose neighbours are in order) -/
theorem ranking_defined_nonincreasing (l : List (Option α)) (h : AdjSorted rankCmp l) :
    DefinedNonIncreasing l :=
  pairwise_rank_definedNonIncreasing (adjSorted_pairwise l h)

/-- **no defined outcome comes after an undefined one** -/
theorem ranking_defined_first (l : List (Option α)) (h : AdjSorted rankCmp l) : DefinedFirst l :=
  pairwise_rank_definedFirst (adjSorted_pairwise l h)

/-- the same, with positions: an undefined entry at `i` forces every later entry to be undefined -/
theorem ranking_defined_first_idx (l : List (Option α)) (h : AdjSorted rankCmp l)
    (i j : Nat) (hij : i < j) (hj : j < l.length) (hi : l[i]'(by omega) = none) : l[j] = none :=
  (List.pairwise_iff_getElem.mp (ranking_defined_first l h)) i j (by omega) hj hij hi

/-- **the entry presented as best is maximal**: a defined head dominates every defined outcome of the list;
    an undefined head means that every outcome is undefined -/
theorem ranking_best_is_max (hd : Option α) (tl : List (Option α)) (h : AdjSorted rankCmp (hd :: tl)) :
    (∀ x, hd = some x → ∀ y, some y ∈ hd :: tl → y ≤ x) ∧
    (hd = none → ∀ o ∈ hd :: tl, o = none) := by
  have hp := List.pairwise_cons.mp (adjSorted_pairwise _ h)
  constructor
  · intro x hx y hy
    rcases List.mem_cons.mp hy with hy | hy
    · rw [hx] at hy; exact le_of_eq (Option.some.inj hy)
    · have := (rankCmp_ne_gt_iff hd (some y)).mp (hp.1 _ hy)
      subst hx
      simpa using this
  · intro hn o ho
    rcases List.mem_cons.mp ho with ho | ho
    · rw [ho]; exact hn
    · have := (rankCmp_ne_gt_iff hd o).mp (hp.1 _ ho)
      subst hn
      simpa using this

/-- the ranking as the reports compute it (both sorting algorithms), referring to the UNSORTED results:
    the presented best dominates every defined result, and is undefined only if all results are -/
theorem ranking_best_is_max_sortCmp (l : List (Option α)) (hd : Option α) (tl : List (Option α))
    (hs : sortCmp rankCmp l = hd :: tl) :
    hd ∈ l ∧ (∀ x, hd = some x → ∀ y, some y ∈ l → y ≤ x) ∧ (hd = none → ∀ o ∈ l, o = none) := by
  have hperm := sortCmp_perm (rankCmp (α := α)) l
  have hsorted := pairwise_adjSorted _ (sortCmp_sorted (cmp := rankCmp (α := α)) l)
  rw [hs] at hperm hsorted
  have hb := ranking_best_is_max hd tl hsorted
  refine ⟨hperm.mem_iff.mp (by simp), ?_, ?_⟩
  · intro x hx y hy; exact hb.1 x hx y (hperm.mem_iff.mpr hy)
  · intro hn o ho; exact hb.2 hn o (hperm.mem_iff.mpr ho)

theorem ranking_best_is_max_goSort (l : List (Option α)) (hd : Option α) (tl : List (Option α))
    (hs : goSort rankCmp l = hd :: tl) :
    hd ∈ l ∧ (∀ x, hd = some x → ∀ y, some y ∈ l → y ≤ x) ∧ (hd = none → ∀ o ∈ l, o = none) := by
  have hperm := goSort_perm (rankCmp (α := α)) l
  have hsorted := pairwise_adjSorted _ (goSort_sorted (cmp := rankCmp (α := α)) l)
  rw [hs] at hperm hsorted
  have hb := ranking_best_is_max hd tl hsorted
  refine ⟨hperm.mem_iff.mp (by simp), ?_, ?_⟩
  · intro x hx y hy; exact hb.1 x hx y (hperm.mem_iff.mpr hy)
  · intro hn o ho; exact hb.2 hn o (hperm.mem_iff.mpr ho)

theorem ranking_sortCmp (l : List (Option α)) :
    (sortCmp rankCmp l).Perm l ∧ DefinedNonIncreasing (sortCmp rankCmp l) ∧ DefinedFirst (sortCmp rankCmp l) :=
  ⟨sortCmp_perm _ l, pairwise_rank_definedNonIncreasing (sortCmp_sorted l),
    pairwise_rank_definedFirst (sortCmp_sorted l)⟩

theorem ranking_goSort (l : List (Option α)) :
    (goSort rankCmp l).Perm l ∧ DefinedNonIncreasing (goSort rankCmp l) ∧ DefinedFirst (goSort rankCmp l) :=
  ⟨goSort_perm _ l, pairwise_rank_definedNonIncreasing (goSort_sorted l),
    pairwise_rank_definedFirst (goSort_sorted l)⟩

end ranking

/-! ### the link with `C13.lean` (all outcomes defined, measured in `Int`) -/

theorem lawful_eq_rankCmp (a b : Int) : lawful a b = decide (rankCmp (some a) (some b) = .lt) := by
  simp [lawful, rankCmp, goCompare, compare_lt_iff_lt]

theorem insertBy_lawful_eq (x : Int) : ∀ l : List Int,
    (insertBy lawful x l).map some = insertCmp rankCmp (some x) (l.map some)
  | [] => rfl
  | y :: t => by
    simp only [insertBy, List.map_cons, insertCmp, lawful_eq_rankCmp, decide_eq_true_eq]
    split
    · rfl
    · simp [insertBy_lawful_eq x t]

/-- on defined outcomes the sort of `C13.lean` IS the generic sort with the ranking comparator -/
theorem sortBy_lawful_eq : ∀ l : List Int, (sortBy lawful l).map some = sortCmp rankCmp (l.map some)
  | [] => rfl
  | x :: t => by
    have ih := sortBy_lawful_eq t
    simp only [sortBy, sortCmp, List.foldr_cons, List.map_cons] at ih ⊢
    rw [← ih]; exact insertBy_lawful_eq x _

/-- `C13.ranking_sorted` is the all-defined instance of the theorems above -/
theorem ranking_sorted_of_general (l : List Int) : (sortBy lawful l).Pairwise (fun a b => b ≤ a) := by
  have h := (ranking_sortCmp (l.map some)).2.1
  rw [← sortBy_lawful_eq, DefinedNonIncreasing, List.pairwise_map] at h
  exact h.imp (fun hab => hab _ _ rfl rfl)

/-! ### the comparator for which "NaN equals everything" -/

/-- what a comparator written with `<` and `>` alone (`if b < a {-1} else if b > a {1} else {0}`) amounts to on
    floats: every comparison involving NaN is false, so NaN is reported "equal" to everything -/
def badCmp {α : Type*} [LinearOrder α] : Option α → Option α → Ordering
  | some x, some y => compare y x
  | _, _ => .eq

/-- `some 0 ~ none ~ some 1`, yet `some 0` must come after `some 1` -/
theorem badCmp_witness :
    badCmp (some (0 : Int)) none = .eq ∧ badCmp none (some (1 : Int)) = .eq ∧
    badCmp (some (0 : Int)) (some 1) = .gt := by decide

/-- **the NaN-equals-everything comparator is not lawful**: equivalence (and `≤`) is not transitive -/
theorem badCmp_not_transitive :
    (¬ ∀ a b c : Option Int, badCmp a b = .eq → badCmp b c = .eq → badCmp a c = .eq) ∧
    (¬ ∀ a b c : Option Int, badCmp a b ≠ .gt → badCmp b c ≠ .gt → badCmp a c ≠ .gt) ∧
    ¬ Std.TransCmp (badCmp (α := Int)) := by
  refine ⟨?_, ?_, ?_⟩
  · intro h
    exact absurd (h (some 0) none (some 1) (by decide) (by decide)) (by decide)
  · intro h
    exact h (some 0) none (some 1) (by decide) (by decide) (by decide)
  · intro h
    have := h.isLE_trans (a := some 0) (b := none) (c := some 1) (by decide) (by decide)
    exact absurd this (by decide)

/-- **`[some 0, none, some 1]` passes every adjacent comparison** although the defined outcomes increase,
    a defined outcome follows an undefined one, and the head is not the maximum -/
theorem badCmp_accepts_unsorted :
    AdjSorted badCmp [some (0 : Int), none, some 1] ∧
    ¬ DefinedNonIncreasing [some (0 : Int), none, some 1] ∧
    ¬ DefinedFirst [some (0 : Int), none, some 1] ∧
    ¬ (∀ y, some y ∈ [some (0 : Int), none, some 1] → y ≤ 0) := by
  refine ⟨⟨by decide, by decide, trivial⟩, ?_, ?_, ?_⟩
  · intro h
    have := (List.pairwise_cons.mp h).1 (some 1) (by simp) 0 1 rfl rfl
    omega
  · intro h
    have := (List.pairwise_cons.mp (List.pairwise_cons.mp h).2).1 (some 1) (by simp) rfl
    exact absurd this (by simp)
  · intro h
    have := h 1 (by simp)
    omega

/-- and Go's own insertion sort, run with that comparator, leaves exactly this list as it is:
    the report would present 0 as the best outcome while 1 is in the list -/
theorem badCmp_goSort_leaves_unsorted :
    goSort badCmp [some (0 : Int), none, some 1] = [some 0, none, some 1] := by decide

/-- the insertion sort of `C13.lean` with that comparator can present an undefined outcome as best although a
    defined one exists -/
theorem badCmp_sortCmp_undefined_best :
    sortCmp badCmp [some (0 : Int), none] = [none, some 0] := by decide

/-! ### non-vacuity and the instance at the reals -/

example : goSort rankCmp [some (0 : Int), none, some 1] = [some 1, some 0, none] := by decide
example : sortCmp rankCmp [none, some (0 : Int), none, some 1] = [some 1, some 0, none, none] := by decide
example : AdjSorted rankCmp [some (1 : Int), some 0, none] := ⟨by decide, by decide, trivial⟩
example : ¬ AdjSorted rankCmp [some (0 : Int), none, some 1] := by
  intro h; exact h.2.1 (by decide)

/-- the statement for real-valued outcomes (`none` = NaN) -/
theorem ranking_best_is_max_real (hd : Option ℝ) (tl : List (Option ℝ)) (h : AdjSorted rankCmp (hd :: tl)) :
    (∀ x, hd = some x → ∀ y, some y ∈ hd :: tl → y ≤ x) ∧ (hd = none → ∀ o ∈ hd :: tl, o = none) :=
  ranking_best_is_max hd tl h

theorem ranking_defined_first_real (l : List (Option ℝ)) (h : AdjSorted rankCmp l) : DefinedFirst l :=
  ranking_defined_first l h

end C13
