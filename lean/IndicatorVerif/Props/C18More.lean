import IndicatorVerif.Props.C18
/-
  C18 — scale covariance of the four indicators whose formulas are recurrences with a case distinction or contain a
  regression on internal abscissae: NVI, KAMA, SuperTrend, Projection Oscillator (hand-proved).
-/
noncomputable section
namespace C18
open PS Spec ArithReal

/-! ### recurrences -/

/-- two runs of a recursion whose seeds are related and whose steps preserve the relation stay related -/
theorem recG_rel {β : Type} (R : β → β → Prop) (f0 g0 : β) (fs gs : β → Nat → β)
    (h0 : R f0 g0) (hs : ∀ a b m, R a b → R (fs a m) (gs b m)) (m : Nat) : R (recG f0 fs m) (recG g0 gs m) := by
  induction m with
  | zero => exact h0
  | succ m ih => exact hs _ _ m ih

/-- a cumulative formula whose step is homogeneous of degree 1 in (accumulator, inputs) is scaled -/
theorem cumul_scaled (N s : Nat) (c init init' : ℝ) (f g : ℝ → Nat → ℝ)
    (h0 : g init' s = c * f init s) (hs : ∀ a i, s < i → g (c * a) i = c * f a i) :
    Scaled c (cumul N s init f) (cumul N s init' g) := by
  refine ⟨rfl, fun i => ?_⟩
  simp only [cumul, tabVal_eq]
  exact recG_rel (fun a b => b = c * a) _ _ _ _ h0 (fun a b m hab => by rw [hab]; exact hs a _ (by omega)) _

/-! ### NVI -/

/-- **NVI depends neither on the currency unit nor on the volume unit** (the starting value is a configured constant,
    every later value multiplies it by `1 + relative price change` on the bars whose volume did not increase) -/
theorem nvi_invariant (N : Nat) (fs : List ℝ) (k kv : ℝ) (hk : 0 < k) (hv : 0 < kv) (x : Nat → Nat → ℝ) :
    ∃ P1 Q1,
      formulas N "Nvi" [] fs x = some [P1] ∧
      formulas N "Nvi" [] fs (fun j i => (match j with | 1 => kv | _ => k) * x j i) = some [Q1] ∧
      Scaled 1 P1 Q1 := by
  refine ⟨_, _, rfl, rfl, ?_⟩
  have step : ∀ a i,
      (if Arith.gt (kv * x 1 i) (kv * x 1 (i - 1)) then a
        else a + ((k * x 0 i - k * x 0 (i - 1)) / (k * x 0 (i - 1))) * a)
      = (if Arith.gt (x 1 i) (x 1 (i - 1)) then a else a + ((x 0 i - x 0 (i - 1)) / x 0 (i - 1)) * a) := by
    intro a i
    rw [gt_scale kv hv]
    have e : (k * x 0 i - k * x 0 (i - 1)) / (k * x 0 (i - 1)) = (x 0 i - x 0 (i - 1)) / x 0 (i - 1) := by
      rw [← mul_sub, mul_div_mul_left _ _ hk.ne']
    rw [e]
  apply cumul_scaled
  · rw [one_mul]; exact step _ _
  · intro a i _; rw [one_mul, one_mul]; exact step a i

/-- non-vacuity: dollars → cents, shares → lots of 100; every reported NVI value is literally the same -/
example (x : Nat → Nat → ℝ) : ∃ P Q, formulas 0 "Nvi" [] [1000] x = some [P] ∧
    formulas 0 "Nvi" [] [1000] (fun j i => (match j with | 1 => 1 / 100 | _ => 100) * x j i) = some [Q] ∧
    Q.start = P.start ∧ ∀ i, Q.val i = P.val i := by
  obtain ⟨P, Q, hP, hQ, h⟩ := nvi_invariant 0 [1000] 100 (1 / 100) (by norm_num) (by norm_num) x
  exact ⟨P, Q, hP, hQ, h.start_eq, fun i => by rw [h.val_eq, one_mul]⟩

/-! ### Projection Oscillator -/

/-- the internal abscissae 1, 2, 3, … of the regression are not prices -/
theorem abscissae_same : Scaled 1 (⟨0, fun i => Arith.nat (i + 1)⟩ : PS ℝ) ⟨0, fun i => Arith.nat (i + 1)⟩ :=
  ⟨rfl, fun _ => by simp⟩

/-- the regression slope against unscaled abscissae scales with the ordinates -/
theorem mlsM_scaled (p : Nat) (k : ℝ) (X Y Y' : PS ℝ) (h : Scaled k Y Y') : Scaled k (mlsM p X Y) (mlsM p X Y') := by
  have hX : Scaled 1 X X := ⟨rfl, fun _ => by simp⟩
  have := Scaled.div
    (Scaled.sub (Scaled.scale (Arith.nat p) (Scaled.msum p (Scaled.mul hX h))) (Scaled.mul (Scaled.msum p hX) (Scaled.msum p h)))
    (Scaled.sub (Scaled.scale (Arith.nat p) (Scaled.msum p (Scaled.map_sq hX))) (Scaled.mul (Scaled.msum p hX) (Scaled.msum p hX)))
  exact this.cast (by norm_num)

/-- **The Projection Oscillator does not depend on the currency unit** -/
theorem po_scaled (N p1 : Nat) (fs : List ℝ) (k : ℝ) (hk : 0 < k) (x : Nat → Nat → ℝ) :
    ∃ P1 Q1,
      formulas N "Po" [p1] fs x = some [P1] ∧
      formulas N "Po" [p1] fs (fun j i => k * x j i) = some [Q1] ∧
      Scaled 1 P1 Q1 := by
  refine ⟨_, _, rfl, rfl, ?_⟩
  have h0 := Scaled.input k (x 0)
  have h1 := Scaled.input k (x 1)
  have h2 := Scaled.input k (x 2)
  have hpl := Scaled.mmin p1 hk.le (Scaled.add h0 (mlsM_scaled p1 k ⟨0, fun i => Arith.nat (i + 1)⟩ _ _ h0))
  have hph := Scaled.mmax p1 hk.le (Scaled.add h1 (mlsM_scaled p1 k ⟨0, fun i => Arith.nat (i + 1)⟩ _ _ h1))
  exact Scaled.scale _ ((Scaled.div (Scaled.sub h2 hpl) (Scaled.sub hph hpl)).cast (div_self hk.ne'))

/-- non-vacuity: dollars → cents with the default period -/
example (x : Nat → Nat → ℝ) : ∃ P Q, formulas 0 "Po" [14] [] x = some [P] ∧
    formulas 0 "Po" [14] [] (fun j i => 100 * x j i) = some [Q] ∧ Q.start = P.start ∧ ∀ i, Q.val i = P.val i := by
  obtain ⟨P, Q, hP, hQ, h⟩ := po_scaled 0 14 [] 100 (by norm_num) x
  exact ⟨P, Q, hP, hQ, h.start_eq, fun i => by rw [h.val_eq, one_mul]⟩

/-! ### KAMA -/

/-- Kaufman's recurrence with a scale-free smoothing constant: the average scales with the prices -/
theorem kama_core (N : Nat) (k : ℝ) (x : Nat → ℝ) (S S' : PS ℝ) (h : Scaled 1 S S') :
    Scaled k
      (cumul N S.start zero (fun acc i =>
        let prevK := if i = S.start then x (i - 1) else acc
        prevK + S.val i * (x i - prevK)))
      (cumul N S'.start zero (fun acc i =>
        let prevK := if i = S'.start then k * x (i - 1) else acc
        prevK + S'.val i * (k * x i - prevK))) := by
  rw [h.start_eq]
  apply cumul_scaled
  · simp only [if_true, h.val_eq]; ring
  · intro a i hi
    have hne : ¬ i = S.start := by omega
    simp only [hne, if_false, h.val_eq]; ring

/-- **KAMA scales with the prices** (the efficiency ratio |x_i − x_{i−er}| / Σ|x_j − x_{j−1}| and hence the smoothing
    constant are scale-free — also where the volatility is zero, since then the ratio is 0 for both) -/
theorem kama_scaled (N er fast slow : Nat) (fs : List ℝ) (k : ℝ) (hk : 0 < k) (x : Nat → Nat → ℝ) :
    ∃ P1 Q1,
      formulas N "Kama" [er, fast, slow] fs x = some [P1] ∧
      formulas N "Kama" [er, fast, slow] fs (fun j i => k * x j i) = some [Q1] ∧
      Scaled k P1 Q1 := by
  refine ⟨_, _, rfl, rfl, ?_⟩
  have h0 := Scaled.input k (x 0)
  have hdir := Scaled.map_abs hk.le (Scaled.sub h0 (Scaled.prev er h0))
  have hvol := Scaled.msum er (Scaled.map_abs hk.le (Scaled.sub h0 (Scaled.prev 1 h0)))
  have hsc := Scaled.map_one'
    (fun e => Arith.sq (e * ((two : ℝ) / Arith.nat (fast + 1) - two / Arith.nat (slow + 1)) + two / Arith.nat (slow + 1)))
    (Scaled.div hdir hvol) (div_self hk.ne')
  exact kama_core N k (x 0) _ _ hsc

/-- non-vacuity: dollars → cents with the default periods (10, 2, 30), also on a constant series (zero volatility) -/
example : ∃ P Q, formulas 0 "Kama" [10, 2, 30] [] (fun _ _ => (5 : ℝ)) = some [P] ∧
    formulas 0 "Kama" [10, 2, 30] [] (fun _ _ => 100 * (5 : ℝ)) = some [Q] ∧ Q.start = P.start ∧ ∀ i, Q.val i = 100 * P.val i := by
  obtain ⟨P, Q, hP, hQ, h⟩ := kama_scaled 0 10 2 30 [] 100 (by norm_num) (fun _ _ => (5 : ℝ))
  exact ⟨P, Q, hP, hQ, h.start_eq, h.val_eq⟩

/-! ### SuperTrend -/

theorem le_scale (k : ℝ) (hk : 0 < k) (a b : ℝ) : Arith.le (k * a) (k * b) = Arith.le a b := by
  have : k * a ≤ k * b ↔ a ≤ b := by constructor <;> intro h <;> nlinarith
  simp only [Arith.le, this]

/-- the documented step on the state (upTrend, finalUpper, finalLower, superTrend) -/
def stStep (bu bl pc cl : ℝ) (first : Bool) (st : Bool × ℝ × ℝ × ℝ) : Bool × ℝ × ℝ × ℝ :=
  if first then (false, bu, bl, bl) else
  let (up, fu, fl, _) := st
  let fu' := if Arith.lt bu fu || Arith.gt pc fu then bu else fu
  let fl' := if Arith.gt bl fl || Arith.lt pc fl then bl else fl
  if up then (if Arith.le cl fu' then (true, fu', fl', fu') else (false, fu', fl', fl'))
  else (if Arith.ge cl fl' then (false, fu', fl', fl') else (true, fu', fl', fu'))

/-- the same trend flag, every band multiplied by k -/
def scaleSt (k : ℝ) (s : Bool × ℝ × ℝ × ℝ) : Bool × ℝ × ℝ × ℝ := (s.1, k * s.2.1, k * s.2.2.1, k * s.2.2.2)

/-- every comparison of the step is between two prices: with all of them multiplied by k > 0 the step takes the same
    branch and its result is multiplied by k -/
theorem stStep_hom (k : ℝ) (hk : 0 < k) (bu bl pc cl : ℝ) (first : Bool) (st : Bool × ℝ × ℝ × ℝ) :
    stStep (k * bu) (k * bl) (k * pc) (k * cl) first (scaleSt k st) = scaleSt k (stStep bu bl pc cl first st) := by
  obtain ⟨up, fu, fl, sv⟩ := st
  cases first
  · simp only [stStep, scaleSt, lt_scale k hk, Bool.false_eq_true, if_false]
    generalize (Arith.lt bu fu || Arith.gt pc fu) = A
    generalize (Arith.gt bl fl || Arith.lt pc fl) = B
    cases A <;> cases B <;> cases up <;>
      simp only [Bool.false_eq_true, if_false, if_true, le_scale k hk] <;> split <;> rfl
  · simp only [stStep, scaleSt, if_true]

/-- the documented fold over positions -/
def stFold (N s : Nat) (mult : ℝ) (med a c : Nat → ℝ) : Nat → Bool × ℝ × ℝ × ℝ :=
  cumulState N s (false, (zero : ℝ), (zero : ℝ), (zero : ℝ)) (fun acc i =>
    stStep (med i + mult * a i) (med i - mult * a i) (c (i - 1)) (c i) (i == s) acc)

theorem superTrendFold_eq (N : Nat) (mult : ℝ) (m : Ma) (h l c : PS ℝ) :
    superTrendFold N mult m h l c = ⟨(atr N m h l c).start, fun i =>
      (stFold N (atr N m h l c).start mult (over two (h + l)).val (atr N m h l c).val c.val i).2.2.2⟩ := by
  simp only [superTrendFold, cache_start, cache_val]
  rfl

theorem stFold_scaled (N s : Nat) (mult k : ℝ) (hk : 0 < k) (med a c med' a' c' : Nat → ℝ)
    (hm : ∀ i, med' i = k * med i) (ha : ∀ i, a' i = k * a i) (hc : ∀ i, c' i = k * c i) (i : Nat) :
    stFold N s mult med' a' c' i = scaleSt k (stFold N s mult med a c i) := by
  have eu : ∀ i, med' i + mult * a' i = k * (med i + mult * a i) := fun i => by rw [hm, ha]; ring
  have el : ∀ i, med' i - mult * a' i = k * (med i - mult * a i) := fun i => by rw [hm, ha]; ring
  simp only [stFold, cumulState, tabVal_eq]
  apply recG_rel (fun a b => b = scaleSt k a)
  · simp only [beq_self_eq_true, stStep, if_true, scaleSt, eu, el]
  · intro st st' j hst
    rw [hst, eu, el, hc, hc, stStep_hom k hk]

/-- SuperTrend of rescaled high / low / closing streams -/
theorem superTrendFold_scaled (N : Nat) (mult k : ℝ) (hk : 0 < k) (m : Ma) {H L C H' L' C' : PS ℝ}
    (hh : Scaled k H H') (hl : Scaled k L L') (hc : Scaled k C C') :
    Scaled k (superTrendFold N mult m H L C) (superTrendFold N mult m H' L' C') := by
  have ha := Scaled.atr N m hk.le hh hl hc
  have hmed := Scaled.over (two : ℝ) (Scaled.add hh hl)
  rw [superTrendFold_eq, superTrendFold_eq]
  refine ⟨ha.start_eq, fun i => ?_⟩
  show (stFold N (atr N m H' L' C').start mult _ _ _ i).2.2.2 = k * (stFold N (atr N m H L C).start mult _ _ _ i).2.2.2
  rw [ha.start_eq, stFold_scaled N _ mult k hk _ _ _ _ _ _ hmed.val_eq ha.val_eq hc.val_eq i]
  rfl

/-- **SuperTrend scales with the prices** (the multiplier of the ATR is a configured constant; the band updates and the
    trend flips compare prices with prices, so the trend is the same and the reported band is multiplied by k) -/
theorem superTrend_scaled (N kind p : Nat) (fs : List ℝ) (k : ℝ) (hk : 0 < k) (x : Nat → Nat → ℝ) :
    ∃ P1 Q1,
      formulas N "SuperTrend" [kind, p] fs x = some [P1] ∧
      formulas N "SuperTrend" [kind, p] fs (fun j i => k * x j i) = some [Q1] ∧
      Scaled k P1 Q1 := by
  refine ⟨_, _, rfl, rfl, ?_⟩
  exact superTrendFold_scaled N _ k hk _ (Scaled.input k (x 0)) (Scaled.input k (x 1)) (Scaled.input k (x 2))

/-- non-vacuity: dollars → cents with the default configuration (HMA-smoothed ATR of period 14, multiplier 2.5) -/
example (x : Nat → Nat → ℝ) : ∃ P Q, formulas 0 "SuperTrend" [5, 14] [5 / 2] x = some [P] ∧
    formulas 0 "SuperTrend" [5, 14] [5 / 2] (fun j i => 100 * x j i) = some [Q] ∧
    Q.start = P.start ∧ ∀ i, Q.val i = 100 * P.val i := by
  obtain ⟨P, Q, hP, hQ, h⟩ := superTrend_scaled 0 5 14 [5 / 2] 100 (by norm_num) x
  exact ⟨P, Q, hP, hQ, h.start_eq, h.val_eq⟩

end C18
