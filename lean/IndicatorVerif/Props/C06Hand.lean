import IndicatorVerif.Props.C06
/- C06, hand-written part: strategies whose periods are defined by a case distinction -/
namespace C06
open Sig Ind Strat
variable {α : Type} [Arith α]

/-- TRIMA strategy: Buy when the short TRIMA is above the long TRIMA of the closing price, Sell when below -/
theorem trima_rule (sh lo : Nat) (fs : List α) (h0 : 1 ≤ sh) (h1 : sh ≤ lo) :
    ∃ e inner, lookupS "Trima" [sh, lo] fs = some e ∧ e.sig = shift e.idle hold inner ∧ Good inner e.idle 5 ∧
      ∀ (x : Nat → Nat → α) (i : Nat), den x inner i =
        (gtRule (den x (trima sh sClose) i) (den x (trima lo sClose) i)) := by
  unfold_strat
  refine ⟨_, _, rfl, rfl, ?_, ?_⟩
  · simp only [trimaS, trimaIdle, trima, trimaPeriods, List.getD_cons_zero, List.getD_cons_succ]
    by_cases hs : sh % 2 = 0 <;> by_cases hl : lo % 2 = 0 <;> simp only [hs, hl, if_true, if_false] <;>
      (unfold_ind; good_tac)
  · intro x i
    rfl

end C06
