import IndicatorVerif.Props.C03Dyn
import IndicatorVerif.Model.Sig
/-
  C03 — the hand-over of the input channel in `trend.Ema` / `Rma` / `Smma` (`NetM.recurNet`):

      before, ok := <-sma.Compute(helper.Head(c, period)); …; result <- before; for n := range c { … }

  `c` is read by `Head`'s goroutine and, later, by the indicator's own goroutine.  Proved here, for every input, every
  period ≥ 1, every seed function and update function (EMA, RMA, SMMA are instances), every channel capacity and every
  schedule:
    * `recur_safe`: in no reachable state are two processes about to use the same end of a channel — in particular the
      indicator's goroutine never reads `c` while `Head` may still read it (inductive invariant `J`: tokens between
      `Head` and the seed are counted; the seed can only appear after `Head` has taken its last value);
    * `recur_terminates_cleanly`: every execution is finite, and any execution that can go no further has every process
      finished, every channel closed and empty, and has delivered exactly `Sig.recurL p seed upd xs` — the list semantics
      the value theorems (C01, C02, C04) use for these indicators.
  Modelled, not verified: the Sma pipeline between `Head` and the seed is one sequential process (`seedBox`); its own
  network is `msumNet` (C03MovingSum).
-/
namespace C03
open Net NetM

variable (p : Nat) (seed : List Int → Int) (u : Int → Int → Int)

abbrev N0 := recurNet (fun _ => 0) p seed u

/-- filling: `rest` to be produced, `Head` still takes `r` values, the seed pipeline holds the window `w` -/
def E1 (rest : List Int) (r : Nat) (w : List Int) : St Loc Int :=
  ⟨P6 (⟨0, rest⟩, none) (⟨0, [(r : Int)]⟩, none) (⟨0, w⟩, none) (⟨0, []⟩, none) (⟨0, []⟩, none) (⟨0, []⟩, none),
   C6 ([], false) ([], false) ([], false) ([], false) ([], false) ([], false)⟩

/-- folding: `Head` and the seed pipeline have finished, the indicator's goroutine holds `b` and reads `c` itself -/
def E2 (rest : List Int) (b : Int) (out : List Int) : St Loc Int :=
  ⟨P6 (⟨0, rest⟩, none) (⟨3, []⟩, none) (⟨3, []⟩, none) (⟨2, [b]⟩, none) (⟨0, out⟩, none) (⟨0, []⟩, none),
   C6 ([], false) ([], true) ([], true) ([], false) ([], false) ([], false)⟩

/-- everything finished -/
def FE (out : List Int) : St Loc Int :=
  ⟨P6 (⟨1, []⟩, none) (⟨3, []⟩, none) (⟨3, []⟩, none) (⟨5, []⟩, none) (⟨1, out⟩, none) (⟨0, []⟩, none),
   C6 ([], true) ([], true) ([], true) ([], true) ([], false) ([], false)⟩

theorem recurInit_eq (xs : List Int) : recurInit xs p = E1 xs p [] := by
  simp only [recurInit, E1]
  congr 1
  · funext q
    match q with
    | 0 | 1 | 2 | 3 | 4 | 5 => simp [P6]
    | n + 6 => simp [P6]
  · funext c
    match c with
    | 0 | 1 | 2 | 3 | 4 | 5 => simp [C6]
    | n + 6 => simp [C6]

/-- a value of the first window that is not the last one: producer → Head → seed pipeline -/
def schedF : List Nat := [0, 1, 0, 1, 2, 1]

theorem roundF (x : Int) (rest : List Int) (r : Nat) (w : List Int) (hw : w.length + 1 < p) :
    run (N0 p seed u) schedF (E1 (x :: rest) (r + 1) w) = some (E1 rest r (w ++ [x])) := by
  have h2 : ¬ ((r : Int) + 1 ≤ 0) := by omega
  simp [schedF, run, E1, step, opOf, recurNet, producer, headM, seedBox, Op.chan, Op.fire, h2, hw]

/-- the value that completes the window: Head closes, the seed is computed, handed to the indicator's goroutine and
    delivered; the seed pipeline shuts down -/
def schedS : List Nat := [0, 1, 0, 1, 2, 1, 1, 2, 3, 2, 2, 2, 3, 4, 3]

theorem roundS (x : Int) (rest : List Int) (w : List Int) (hw : w.length + 1 = p) :
    run (N0 p seed u) schedS (E1 (x :: rest) 1 w) = some (E2 rest (seed (w ++ [x])) [seed (w ++ [x])]) := by
  have h1 : ¬ (w.length + 1 < p) := by omega
  have h3 : w.length + 1 - p = 0 := by omega
  simp [schedS, run, E1, E2, step, opOf, recurNet, producer, headM, seedBox, recurMain, sink, Op.chan, Op.fire, h1, h3]

/-- a value after the window: producer → the indicator's goroutine → reader -/
def schedG : List Nat := [0, 3, 0, 3, 4, 3]

theorem roundG (x b : Int) (rest out : List Int) :
    run (N0 p seed u) schedG (E2 (x :: rest) b out) = some (E2 rest (u b x) (out ++ [u b x])) := by
  simp [schedG, run, E2, step, opOf, recurNet, producer, recurMain, sink, Op.chan, Op.fire]

/-- the input ends after the window -/
theorem roundEnd2 (b : Int) (out : List Int) :
    run (N0 p seed u) [0, 3, 3, 4] (E2 [] b out) = some (FE out) := by
  simp [run, E2, FE, step, opOf, recurNet, producer, recurMain, sink, Op.chan, Op.fire]

/-- the input ends inside the first window: no seed, nothing is delivered, everything closes -/
theorem roundEnd1 (r : Nat) (w : List Int) :
    run (N0 p seed u) [0, 1, 1, 2, 2, 3, 3, 4] (E1 [] (r + 1) w) = some (FE []) := by
  have h2 : ¬ ((r : Int) + 1 ≤ 0) := by omega
  simp [run, E1, FE, step, opOf, recurNet, producer, headM, seedBox, recurMain, sink, Op.chan, Op.fire, h2]

theorem fold_canonical (xs : List Int) (b : Int) (out : List Int) :
    ∃ t, run (N0 p seed u) t (E2 xs b out) = some (FE (out ++ Sig.recurTail u b xs)) := by
  induction xs generalizing b out with
  | nil => exact ⟨[0, 3, 3, 4], by simpa [Sig.recurTail] using roundEnd2 p seed u b out⟩
  | cons x rest ih =>
    obtain ⟨t, ht⟩ := ih (u b x) (out ++ [u b x])
    refine ⟨schedG ++ t, ?_⟩
    rw [run_append, roundG]
    simpa [Sig.recurTail] using ht

theorem fill_canonical (xs : List Int) (r : Nat) (w : List Int) (hinv : w.length + (r + 1) = p) :
    ∃ t, run (N0 p seed u) t (E1 xs (r + 1) w)
      = some (FE (if xs.length < r + 1 then [] else
                    seed (w ++ xs.take (r + 1)) :: Sig.recurTail u (seed (w ++ xs.take (r + 1))) (xs.drop (r + 1)))) := by
  induction xs generalizing r w with
  | nil => exact ⟨_, by simpa using roundEnd1 p seed u r w⟩
  | cons x rest ih =>
    cases r with
    | zero =>
      obtain ⟨t, ht⟩ := fold_canonical p seed u rest (seed (w ++ [x])) [seed (w ++ [x])]
      refine ⟨schedS ++ t, ?_⟩
      rw [run_append, roundS p seed u x rest w (by omega)]
      simpa using ht
    | succ r =>
      obtain ⟨t, ht⟩ := ih r (w ++ [x]) (by simp; omega)
      refine ⟨schedF ++ t, ?_⟩
      rw [run_append, roundF p seed u x rest (r + 1) w (by omega)]
      simp only [Option.bind_some]
      rw [ht]
      simp [List.take_succ_cons]

/-- the canonical run delivers the list semantics of the `recur` term -/
theorem recur_canonical (hp : 1 ≤ p) (xs : List Int) :
    ∃ t, run (N0 p seed u) t (recurInit xs p) = some (FE (Sig.recurL p seed u xs)) := by
  rw [recurInit_eq]
  obtain ⟨r, rfl⟩ : ∃ r, p = r + 1 := ⟨p - 1, by omega⟩
  obtain ⟨t, ht⟩ := fill_canonical (r + 1) seed u xs r [] (by simp)
  refine ⟨t, ?_⟩
  rw [ht]
  simp [Sig.recurL]

end C03

/-! ### the hand-over is safe: no reachable state has two processes at the same end of a channel -/
namespace C03
open Net NetM

variable (caps : Nat → Nat) (p : Nat) (seed : List Int → Int) (u : Int → Int → Int)

abbrev NR := recurNet caps p seed u

/-- `Head` will not read the input again -/
def HeadDone (s : St Loc Int) : Prop :=
  2 ≤ (s.procs 1).1.pc ∨ ((s.procs 1).1.pc = 0 ∧ (s.procs 1).1.reg.headD 0 ≤ 0)

/-- the inductive invariant: hand-over waits only on a process's own output; the indicator's goroutine has left its
    first receive, or a seed (or the close of the seed channel) is on its way, only if `Head` is done; `Head`'s output
    is closed only by `Head`; and the values `Head` may still take + holds + has queued + the window never exceed `p` -/
structure J (s : St Loc Int) : Prop where
  wf : ∀ q c, (s.procs q).2 = some c → c = q ∧ q ≤ 3
  main : (s.procs 3).1.pc ≠ 0 → HeadDone s
  seed : ((s.chans 2).1 ≠ [] ∨ (s.chans 2).2 = true ∨ (s.procs 2).1.pc ≠ 0) → HeadDone s
  closed : (s.chans 1).2 = true → 3 ≤ (s.procs 1).1.pc
  count : (s.procs 1).1.pc ≤ 1 → 0 ≤ (s.procs 1).1.reg.headD 0 ∧
    (s.procs 1).1.reg.headD 0 + ((s.procs 1).1.pc : Int) + ((s.chans 1).1.length : Int) + ((s.procs 2).1.reg.length : Int) ≤ (p : Int)

theorem J_init (xs : List Int) : J p (recurInit xs p) := by
  constructor
  · intro q c hq
    simp only [recurInit] at hq
    split at hq <;> simp at hq
  all_goals simp [recurInit, HeadDone]

syntax "jfin " term:max term:max : tactic
macro_rules | `(tactic| jfin $hwf $n) => `(tactic| (
  refine ⟨?_, ?_, ?_, ?_, ?_⟩
  · intro q c hq
    by_cases hq1 : q = $n
    · subst hq1; simp [upd] at hq <;> omega
    · exact $hwf q c (by simpa [upd, hq1] using hq)
  all_goals (simp_all [upd, HeadDone] <;> try omega)))

theorem J_step1 (s a : St Loc Int) (h : J p s) (hs : step (NR caps p seed u) 1 s = some a) : J p a := by
  obtain ⟨c, ps', cs', hc, hf, rfl⟩ := step_some _ _ _ _ hs
  obtain ⟨hwf, hmain, hseed, hclosed, hcount⟩ := h
  rcases hps : s.procs 1 with ⟨⟨pc, reg⟩, w⟩
  simp only [hps, HeadDone] at hmain hseed hclosed hcount hc hf
  cases w with
  | some c0 =>
    obtain ⟨rfl, _⟩ := hwf 1 c0 (by simp [hps])
    simp only [opOf, Op.chan, Option.some.injEq] at hc; subst hc
    rcases hcs : s.chans 1 with ⟨qq, cl⟩
    cases qq with
    | cons x r => simp [opOf, Op.fire, hcs] at hf
    | nil =>
      simp only [opOf, Op.fire, hcs, Option.some.injEq, Prod.mk.injEq] at hf
      obtain ⟨rfl, rfl⟩ := hf
      jfin hwf 1
  | none =>
    match pc with
    | 0 =>
      by_cases hr : reg.head?.getD 0 ≤ 0
      · simp [opOf, recurNet, headM, hr, Op.chan] at hc; subst hc
        rcases hcs : s.chans 1 with ⟨qq, cl⟩
        cases cl <;> simp [opOf, recurNet, headM, hr, Op.fire, hcs] at hf
        obtain ⟨rfl, rfl⟩ := hf
        jfin hwf 1
      · simp [opOf, recurNet, headM, hr, Op.chan] at hc; subst hc
        rcases hcs : s.chans 0 with ⟨qq, cl⟩
        cases qq with
        | cons x r =>
          simp [opOf, recurNet, headM, hr, Op.fire, hcs] at hf
          obtain ⟨rfl, rfl⟩ := hf
          jfin hwf 1
        | nil =>
          cases cl <;> simp [opOf, recurNet, headM, hr, Op.fire, hcs] at hf
          obtain ⟨rfl, rfl⟩ := hf
          jfin hwf 1
    | 1 =>
      simp [opOf, recurNet, headM, Op.chan] at hc; subst hc
      rcases hcs : s.chans 1 with ⟨qq, cl⟩
      cases cl <;> simp [opOf, recurNet, headM, Op.fire, hcs] at hf
      obtain ⟨hlen, rfl, rfl⟩ := hf
      jfin hwf 1
    | 2 =>
      simp [opOf, recurNet, headM, Op.chan] at hc; subst hc
      rcases hcs : s.chans 1 with ⟨qq, cl⟩
      cases cl <;> simp [opOf, recurNet, headM, Op.fire, hcs] at hf
      obtain ⟨rfl, rfl⟩ := hf
      jfin hwf 1
    | n + 3 => simp [opOf, recurNet, headM, Op.chan] at hc

theorem J_step0 (s a : St Loc Int) (h : J p s) (hs : step (NR caps p seed u) 0 s = some a) : J p a := by
  obtain ⟨c, ps', cs', hc, hf, rfl⟩ := step_some _ _ _ _ hs
  obtain ⟨hwf, hmain, hseed, hclosed, hcount⟩ := h
  rcases hps : s.procs 0 with ⟨⟨pc, reg⟩, w⟩
  simp only [hps, HeadDone] at hmain hseed hclosed hcount hc hf
  cases w with
  | some c0 =>
    obtain ⟨rfl, _⟩ := hwf 0 c0 (by simp [hps])
    simp only [opOf, Op.chan, Option.some.injEq] at hc; subst hc
    rcases hcs : s.chans 0 with ⟨qq, cl⟩
    cases qq with
    | cons x r => simp [opOf, Op.fire, hcs] at hf
    | nil =>
      simp only [opOf, Op.fire, hcs, Option.some.injEq, Prod.mk.injEq] at hf
      obtain ⟨rfl, rfl⟩ := hf
      jfin hwf 0
  | none =>
    match pc, reg with
    | 0, v :: rest =>
      simp [opOf, recurNet, producer, Op.chan] at hc; subst hc
      rcases hcs : s.chans 0 with ⟨qq, cl⟩
      cases cl <;> simp [opOf, recurNet, producer, Op.fire, hcs] at hf
      obtain ⟨hlen, rfl, rfl⟩ := hf
      jfin hwf 0
    | 0, [] =>
      simp [opOf, recurNet, producer, Op.chan] at hc; subst hc
      rcases hcs : s.chans 0 with ⟨qq, cl⟩
      cases cl <;> simp [opOf, recurNet, producer, Op.fire, hcs] at hf
      obtain ⟨rfl, rfl⟩ := hf
      jfin hwf 0
    | n + 1, _ => simp [opOf, recurNet, producer, Op.chan] at hc

theorem J_step2 (s a : St Loc Int) (h : J p s) (hs : step (NR caps p seed u) 2 s = some a) : J p a := by
  obtain ⟨c, ps', cs', hc, hf, rfl⟩ := step_some _ _ _ _ hs
  obtain ⟨hwf, hmain, hseed, hclosed, hcount⟩ := h
  rcases hps : s.procs 2 with ⟨⟨pc, reg⟩, w⟩
  simp only [hps, HeadDone] at hmain hseed hclosed hcount hc hf
  cases w with
  | some c0 =>
    obtain ⟨rfl, _⟩ := hwf 2 c0 (by simp [hps])
    simp only [opOf, Op.chan, Option.some.injEq] at hc; subst hc
    rcases hcs : s.chans 2 with ⟨qq, cl⟩
    cases qq with
    | cons x r => simp [opOf, Op.fire, hcs] at hf
    | nil =>
      simp only [opOf, Op.fire, hcs, Option.some.injEq, Prod.mk.injEq] at hf
      obtain ⟨rfl, rfl⟩ := hf
      jfin hwf 2
  | none =>
    match pc with
    | 0 =>
      simp [opOf, recurNet, seedBox, Op.chan] at hc; subst hc
      rcases hcs : s.chans 1 with ⟨qq, cl⟩
      cases qq with
      | cons x r =>
        by_cases hlen : reg.length + 1 < p
        · simp [opOf, recurNet, seedBox, Op.fire, hcs, hlen] at hf
          obtain ⟨rfl, rfl⟩ := hf
          jfin hwf 2
        · simp [opOf, recurNet, seedBox, Op.fire, hcs, hlen] at hf
          obtain ⟨rfl, rfl⟩ := hf
          jfin hwf 2
      | nil =>
        cases cl <;> simp [opOf, recurNet, seedBox, Op.fire, hcs] at hf
        obtain ⟨rfl, rfl⟩ := hf
        jfin hwf 2
    | 1 =>
      simp [opOf, recurNet, seedBox, Op.chan] at hc; subst hc
      rcases hcs : s.chans 2 with ⟨qq, cl⟩
      cases cl <;> simp [opOf, recurNet, seedBox, Op.fire, hcs] at hf
      obtain ⟨hlen, rfl, rfl⟩ := hf
      jfin hwf 2
    | 2 =>
      simp [opOf, recurNet, seedBox, Op.chan] at hc; subst hc
      rcases hcs : s.chans 2 with ⟨qq, cl⟩
      cases cl <;> simp [opOf, recurNet, seedBox, Op.fire, hcs] at hf
      obtain ⟨rfl, rfl⟩ := hf
      jfin hwf 2
    | n + 3 => simp [opOf, recurNet, seedBox, Op.chan] at hc

theorem J_step3 (s a : St Loc Int) (h : J p s) (hs : step (NR caps p seed u) 3 s = some a) : J p a := by
  obtain ⟨c, ps', cs', hc, hf, rfl⟩ := step_some _ _ _ _ hs
  obtain ⟨hwf, hmain, hseed, hclosed, hcount⟩ := h
  rcases hps : s.procs 3 with ⟨⟨pc, reg⟩, w⟩
  simp only [hps, HeadDone] at hmain hseed hclosed hcount hc hf
  cases w with
  | some c0 =>
    obtain ⟨rfl, _⟩ := hwf 3 c0 (by simp [hps])
    simp only [opOf, Op.chan, Option.some.injEq] at hc; subst hc
    rcases hcs : s.chans 3 with ⟨qq, cl⟩
    cases qq with
    | cons x r => simp [opOf, Op.fire, hcs] at hf
    | nil =>
      simp only [opOf, Op.fire, hcs, Option.some.injEq, Prod.mk.injEq] at hf
      obtain ⟨rfl, rfl⟩ := hf
      jfin hwf 3
  | none =>
    match pc with
    | 0 =>
      simp [opOf, recurNet, recurMain, Op.chan] at hc; subst hc
      rcases hcs : s.chans 2 with ⟨qq, cl⟩
      cases qq with
      | cons x r =>
        simp [opOf, recurNet, recurMain, Op.fire, hcs] at hf
        obtain ⟨rfl, rfl⟩ := hf
        jfin hwf 3
      | nil =>
        cases cl <;> simp [opOf, recurNet, recurMain, Op.fire, hcs] at hf
        obtain ⟨rfl, rfl⟩ := hf
        jfin hwf 3
    | 1 =>
      simp [opOf, recurNet, recurMain, Op.chan] at hc; subst hc
      rcases hcs : s.chans 3 with ⟨qq, cl⟩
      cases cl <;> simp [opOf, recurNet, recurMain, Op.fire, hcs] at hf
      obtain ⟨hlen, rfl, rfl⟩ := hf
      jfin hwf 3
    | 2 =>
      simp [opOf, recurNet, recurMain, Op.chan] at hc; subst hc
      rcases hcs : s.chans 0 with ⟨qq, cl⟩
      cases qq with
      | cons x r =>
        simp [opOf, recurNet, recurMain, Op.fire, hcs] at hf
        obtain ⟨rfl, rfl⟩ := hf
        jfin hwf 3
      | nil =>
        cases cl <;> simp [opOf, recurNet, recurMain, Op.fire, hcs] at hf
        obtain ⟨rfl, rfl⟩ := hf
        jfin hwf 3
    | 3 => simp [opOf, recurNet, recurMain, Op.chan] at hc
    | 4 =>
      simp [opOf, recurNet, recurMain, Op.chan] at hc; subst hc
      rcases hcs : s.chans 3 with ⟨qq, cl⟩
      cases cl <;> simp [opOf, recurNet, recurMain, Op.fire, hcs] at hf
      obtain ⟨rfl, rfl⟩ := hf
      jfin hwf 3
    | n + 5 => simp [opOf, recurNet, recurMain, Op.chan] at hc

theorem J_step4 (s a : St Loc Int) (h : J p s) (hs : step (NR caps p seed u) 4 s = some a) : J p a := by
  obtain ⟨c, ps', cs', hc, hf, rfl⟩ := step_some _ _ _ _ hs
  obtain ⟨hwf, hmain, hseed, hclosed, hcount⟩ := h
  rcases hps : s.procs 4 with ⟨⟨pc, reg⟩, w⟩
  simp only [hps, HeadDone] at hmain hseed hclosed hcount hc hf
  cases w with
  | some c0 => have := hwf 4 c0 (by simp [hps]); omega
  | none =>
    match pc with
    | 0 =>
      simp [opOf, recurNet, sink, Op.chan] at hc; subst hc
      rcases hcs : s.chans 3 with ⟨qq, cl⟩
      cases qq with
      | cons x r =>
        simp [opOf, recurNet, sink, Op.fire, hcs] at hf
        obtain ⟨rfl, rfl⟩ := hf
        jfin hwf 4
      | nil =>
        cases cl <;> simp [opOf, recurNet, sink, Op.fire, hcs] at hf
        obtain ⟨rfl, rfl⟩ := hf
        jfin hwf 4
    | n + 1 => simp [opOf, recurNet, sink, Op.chan] at hc

theorem J_step (s a : St Loc Int) (q : Nat) (h : J p s) (hs : step (NR caps p seed u) q s = some a) : J p a := by
  match q with
  | 0 => exact J_step0 caps p seed u s a h hs
  | 1 => exact J_step1 caps p seed u s a h hs
  | 2 => exact J_step2 caps p seed u s a h hs
  | 3 => exact J_step3 caps p seed u s a h hs
  | 4 => exact J_step4 caps p seed u s a h hs
  | n + 5 =>
    obtain ⟨c, ps', cs', hc, hf, rfl⟩ := step_some _ _ _ _ hs
    rcases hps : s.procs (n + 5) with ⟨l, w⟩
    cases w with
    | some c0 => have := h.wf (n + 5) c0 (by simp [hps]); omega
    | none => simp [opOf, hps, recurNet, Op.chan] at hc

/-- who may be at which end of which channel: channel `x` is written by process `x`, read by process `x + 1`, and the
    input (channel 0) is also read by the indicator's goroutine (process 3), at its program point 2 only -/
theorem ops (s : St Loc Int) (h : J p s) (q x : Nat)
    (hc : (opOf (NR caps p seed u) q (s.procs q)).chan = some x) :
    ((opOf (NR caps p seed u) q (s.procs q)).isWriter = true ∧ x = q) ∨
    ((opOf (NR caps p seed u) q (s.procs q)).isReader = true ∧ x + 1 = q ∧
        (q = 1 → (s.procs 1).1.pc = 0 ∧ ¬ (s.procs 1).1.reg.headD 0 ≤ 0)) ∨
    ((opOf (NR caps p seed u) q (s.procs q)).isReader = true ∧ x = 0 ∧ q = 3 ∧ (s.procs 3).1.pc = 2) := by
  rcases hps : s.procs q with ⟨⟨pc, reg⟩, w⟩
  rw [hps] at hc
  cases w with
  | some c0 =>
    obtain ⟨rfl, _⟩ := h.wf q c0 (by simp [hps])
    simp only [opOf, Op.chan, Option.some.injEq] at hc
    left; simp [opOf, Op.isWriter, hc.symm]
  | none =>
    match q with
    | 0 =>
      match pc, reg with
      | 0, v :: rest => simp [opOf, recurNet, producer, Op.chan] at hc; simp [opOf, recurNet, producer, Op.isWriter, hc.symm]
      | 0, [] => simp [opOf, recurNet, producer, Op.chan] at hc; simp [opOf, recurNet, producer, Op.isWriter, hc.symm]
      | n + 1, _ => simp [opOf, recurNet, producer, Op.chan] at hc
    | 1 =>
      match pc with
      | 0 =>
        by_cases hr : reg.head?.getD 0 ≤ 0
        · simp [opOf, recurNet, headM, hr, Op.chan] at hc; simp [opOf, recurNet, headM, hr, Op.isWriter, hc.symm]
        · simp [opOf, recurNet, headM, hr, Op.chan] at hc
          right; left; simp [opOf, recurNet, headM, hr, Op.isReader, hc.symm, hps]
      | 1 => simp [opOf, recurNet, headM, Op.chan] at hc; simp [opOf, recurNet, headM, Op.isWriter, hc.symm]
      | 2 => simp [opOf, recurNet, headM, Op.chan] at hc; simp [opOf, recurNet, headM, Op.isWriter, hc.symm]
      | n + 3 => simp [opOf, recurNet, headM, Op.chan] at hc
    | 2 =>
      match pc with
      | 0 => simp [opOf, recurNet, seedBox, Op.chan] at hc; right; left; simp [opOf, recurNet, seedBox, Op.isReader, hc.symm]
      | 1 => simp [opOf, recurNet, seedBox, Op.chan] at hc; simp [opOf, recurNet, seedBox, Op.isWriter, hc.symm]
      | 2 => simp [opOf, recurNet, seedBox, Op.chan] at hc; simp [opOf, recurNet, seedBox, Op.isWriter, hc.symm]
      | n + 3 => simp [opOf, recurNet, seedBox, Op.chan] at hc
    | 3 =>
      match pc with
      | 0 => simp [opOf, recurNet, recurMain, Op.chan] at hc; right; left; simp [opOf, recurNet, recurMain, Op.isReader, hc.symm]
      | 1 => simp [opOf, recurNet, recurMain, Op.chan] at hc; simp [opOf, recurNet, recurMain, Op.isWriter, hc.symm]
      | 2 => simp [opOf, recurNet, recurMain, Op.chan] at hc; right; right; simp [opOf, recurNet, recurMain, Op.isReader, hc.symm, hps]
      | 3 => simp [opOf, recurNet, recurMain, Op.chan] at hc
      | 4 => simp [opOf, recurNet, recurMain, Op.chan] at hc; simp [opOf, recurNet, recurMain, Op.isWriter, hc.symm]
      | n + 5 => simp [opOf, recurNet, recurMain, Op.chan] at hc
    | 4 =>
      match pc with
      | 0 => simp [opOf, recurNet, sink, Op.chan] at hc; right; left; simp [opOf, recurNet, sink, Op.isReader, hc.symm]
      | n + 1 => simp [opOf, recurNet, sink, Op.chan] at hc
    | n + 5 => simp [opOf, recurNet, Op.chan] at hc

theorem J_noConflict (s : St Loc Int) (h : J p s) : NoConflict (NR caps p seed u) s := by
  intro a b c hab hca hcb
  have ha := ops caps p seed u s h a c hca
  have hb := ops caps p seed u s h b c hcb
  have hm := h.main
  simp only [HeadDone] at hm
  rcases ha with ⟨wa, ea⟩ | ⟨ra, ea, na⟩ | ⟨ra, e0, ea, pa⟩ <;>
  rcases hb with ⟨wb, eb⟩ | ⟨rb, eb, nb⟩ | ⟨rb, e0', eb, pb⟩
  · omega
  · exact Or.inr ⟨wa, rb⟩
  · exact Or.inr ⟨wa, rb⟩
  · exact Or.inl ⟨ra, wb⟩
  · omega
  · have := na (by omega); have := hm (by omega); omega
  · exact Or.inl ⟨ra, wb⟩
  · have := nb (by omega); have := hm (by omega); omega
  · omega

/-- **the hand-over is safe**: whatever the input, the period, the capacities and the schedule, no reachable state has two
    processes about to use the same end of a channel -/
theorem recur_safe (xs : List Int) : Safe (NR caps p seed u) (recurInit xs p) :=
  safe_of_invariant _ (J p) (fun s q a h hs => J_step caps p seed u s a q h hs) (J_noConflict caps p seed u) _ (J_init p xs)

theorem FE_allHalted (out : List Int) : AllHalted (NR caps p seed u) (FE out) := by
  intro q
  match q with
  | 0 | 1 | 2 | 3 | 4 => simp [FE, recurNet, producer, headM, seedBox, recurMain, sink]
  | 5 => simp [FE, P6, recurNet]
  | n + 6 => simp [FE, P6, recurNet]

theorem recurNet_larger : Larger (recurNet (fun _ => 0) p seed u) (recurNet caps p seed u) :=
  ⟨rfl, fun c => by simp [recurNet]⟩

/-- **`trend.Ema` / `Rma` / `Smma` (seed from `Sma(Head(c, p))`, then the indicator's own loop over `c`) terminate cleanly
    and deliver the recurrence — for every input, every period `p ≥ 1`, every seed and update function, every channel
    capacity and every schedule**: every execution has at most `bound` steps, and any execution that can go no further has
    every process finished, the four channels closed and empty, and has delivered exactly `Sig.recurL p seed u xs` (the
    list semantics of the `recur` term of the value theorems) to the independent reader. -/
theorem recur_terminates_cleanly (hp : 1 ≤ p) (xs : List Int) :
    ∃ bound, ∀ t s2, run (NR caps p seed u) t (recurInit xs p) = some s2 →
      t.length ≤ bound ∧
      (Terminal (NR caps p seed u) s2 →
        AllHalted (NR caps p seed u) s2 ∧ (∀ c, c < 4 → s2.chans c = ([], true)) ∧
        (s2.procs 4).1.reg = Sig.recurL p seed u xs) := by
  obtain ⟨t0, h0⟩ := recur_canonical p seed u hp xs
  have hL := recurNet_larger caps p seed u
  have hS := recur_safe caps p seed u xs
  obtain ⟨t', e', hr, hRe, hlen⟩ := capacity_mono _ _ hL t0 _ _ _ (rel_refl _) h0
  have hH' : AllHalted (NR caps p seed u) e' := rel_allHalted _ _ hL _ _ hRe (FE_allHalted (fun _ => 0) p seed u _)
  refine ⟨t0.length, fun t s2 h2 => ⟨?_, fun hT => ?_⟩⟩
  · have := no_longer_schedule' _ t' t _ e' s2 hS hr (allHalted_terminal _ _ hH') h2
    omega
  · obtain ⟨hA, hC, hP⟩ := clean_termination_for_larger_capacities' _ _ hL t0 _ _ hS h0
      (FE_allHalted (fun _ => 0) p seed u _) t s2 h2 hT
    refine ⟨hA, fun c hc => ?_, ?_⟩
    · rw [hC]
      match c with
      | 0 | 1 | 2 | 3 => simp [FE]
      | n + 4 => omega
    · rw [hP 4]; simp [FE]

/-- EMA as the registry term has it: `recur p (smaSeed p) (fun before n => (n − before)·m + before)` over ℤ -/
example : NetM.emaRun 0 3 2 [3, 6, 9, 12, 15] = (true, true, [6, 18, 12]) := by decide
/-- an input shorter than the period: no seed, nothing delivered, everything closes -/
example : NetM.emaRun 0 3 2 [3, 6] = (true, true, []) := by decide
example : Sig.recurL 3 (NetM.emaSeedZ 3) (NetM.emaUpdZ 2) [3, 6, 9, 12, 15] = [6, 18, 12] := by decide

end C03
