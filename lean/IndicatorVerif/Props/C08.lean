import IndicatorVerif.Proofs.ArithReal
import IndicatorVerif.Model.StrategyOps
/-
  C08 — Outcome is a faithful all-in/all-out portfolio simulation; normalised action streams
  alternate Buy/Sell starting with Buy; denormalise-then-normalise is the identity on them.
  All action words of any length, all positive value series (over ℝ), unequal lengths included.
-/
namespace C08
open Action StratOps

/-! ### lengths (any number type) -/
theorem outcomeFrom_length {α : Type} [Arith α] (b s : α) (v : List α) (a : List Action) :
    (outcomeFrom b s v a).length = min v.length a.length := by
  induction v generalizing b s a with
  | nil => simp [outcomeFrom]
  | cons x vt ih =>
    cases a with
    | nil => simp [outcomeFrom]
    | cons y at_ => simp only [outcomeFrom, List.length_cons, ih]; omega

/-- one entry per (value, action) pair -/
theorem outcome_length {α : Type} [Arith α] (v : List α) (a : List Action) :
    (outcome v a).length = min v.length a.length := outcomeFrom_length _ _ v a

/-! ### normalisation -/

/-- the non-Hold entries of a stream alternate, the first one differing from `last` -/
def Alt : Action → List Action → Prop
  | _, [] => True
  | last, a :: t => if a = hold then Alt last t else (a ≠ last ∧ Alt a t)

theorem normalizeFrom_alt (last : Action) (l : List Action) : Alt last (normalizeFrom last l) := by
  induction l generalizing last with
  | nil => simp [normalizeFrom, Alt]
  | cons a t ih =>
    simp only [normalizeFrom]
    by_cases h : a ≠ hold ∧ a ≠ last
    · rw [if_pos h]
      simp only [Alt, h.1, if_false]
      exact ⟨h.2, ih a⟩
    · rw [if_neg h]
      simp only [Alt, if_true]
      exact ih last

/-- normalised streams strictly alternate Buy and Sell, starting with Buy (the initial `last` is Sell) -/
theorem normalize_alternates (l : List Action) : Alt sell (normalize l) := normalizeFrom_alt sell l

theorem normalize_length (l : List Action) : (normalize l).length = l.length := by
  unfold normalize
  generalize sell = s
  induction l generalizing s with
  | nil => rfl
  | cons a t ih => simp only [normalizeFrom]; split <;> simp [ih]

theorem roundtrip_from (l : List Action) : ∀ (s d : Action), s ≠ hold → (d = hold ∨ d = s) →
    normalizeFrom s (denormalizeFrom d (normalizeFrom s l)) = normalizeFrom s l := by
  induction l with
  | nil => intro s d _ _; rfl
  | cons a t ih =>
    intro s d hs hd
    simp only [normalizeFrom]
    by_cases h : a ≠ hold ∧ a ≠ s
    · -- the normalised stream carries `a`
      rw [if_pos h]
      have hda : a ≠ d := by rcases hd with hd | hd <;> (rw [hd]; first | exact h.1 | exact h.2)
      have hd2 : a ≠ hold ∧ a ≠ d := ⟨h.1, hda⟩
      simp only [denormalizeFrom]
      rw [if_pos hd2]
      simp only [normalizeFrom]
      rw [if_pos h, ih a a h.1 (Or.inr rfl)]
    · -- the normalised stream carries Hold
      rw [if_neg h]
      have hh : ¬ (hold ≠ hold ∧ hold ≠ d) := fun hx => hx.1 rfl
      simp only [denormalizeFrom]
      rw [if_neg hh]
      rcases hd with hd | hd
      · subst hd
        have h2 : ¬ (hold ≠ hold ∧ hold ≠ s) := fun hx => hx.1 rfl
        simp only [normalizeFrom]
        rw [if_neg h2, ih s hold hs (Or.inl rfl)]
      · subst hd
        have h2 : ¬ (d ≠ hold ∧ d ≠ d) := fun hx => hx.2 rfl
        simp only [normalizeFrom]
        rw [if_neg h2, ih d d hs (Or.inr rfl)]

/-- denormalising then normalising is the identity on normalised streams -/
theorem normalize_denormalize_id (l : List Action) :
    normalize (denormalize (normalize l)) = normalize l :=
  roundtrip_from l sell hold (by decide) (Or.inl rfl)

/-! ### the portfolio (ℝ, positive values) -/

/-- portfolio state invariant: either all cash or all shares, both non-negative -/
def InCash (b s : ℝ) : Prop := 0 < b ∧ s = 0
def Invested (b s : ℝ) : Prop := b = 0 ∧ 0 < s

theorem outcome_ge_neg_one_from (v : List ℝ) (a : List Action) (hv : ∀ x ∈ v, 0 < x) :
    ∀ (b s : ℝ), (InCash b s ∨ Invested b s) → ∀ o ∈ outcomeFrom b s v a, -1 ≤ o := by
  induction v generalizing a with
  | nil => intro b s _ o ho; simp [outcomeFrom] at ho
  | cons x vt ih =>
    intro b s hst o ho
    cases a with
    | nil => simp [outcomeFrom] at ho
    | cons y at_ =>
      have hx : 0 < x := hv x (by simp)
      have hvt : ∀ z ∈ vt, 0 < z := fun z hz => hv z (by simp [hz])
      simp only [outcomeFrom, ArithReal.arith_gt, ArithReal.arith_nat, Nat.cast_zero, Nat.cast_one] at ho
      rcases hst with ⟨hb, hs⟩ | ⟨hb, hs⟩
      · subst hs
        by_cases hy : y = buy
        · simp only [hb, hy, and_self, if_true, List.mem_cons] at ho
          rcases ho with ho | ho
          · subst ho; simp; positivity
          · exact ih at_ hvt 0 (b / x) (Or.inr ⟨rfl, by positivity⟩) o ho
        · simp only [hy, and_false, if_false, lt_irrefl, false_and, List.mem_cons] at ho
          rcases ho with ho | ho
          · subst ho; simp; linarith
          · exact ih at_ hvt b 0 (Or.inl ⟨hb, rfl⟩) o ho
      · subst hb
        by_cases hy : y = sell
        · have hne : ¬ (y = buy) := by rw [hy]; decide
          simp only [lt_irrefl, false_and, if_false, hs, hy, and_self, if_true, List.mem_cons] at ho
          rcases ho with ho | ho
          · subst ho; simp; positivity
          · exact ih at_ hvt (s * x) 0 (Or.inl ⟨by positivity, rfl⟩) o ho
        · simp only [lt_irrefl, false_and, if_false, hy, and_false, List.mem_cons] at ho
          rcases ho with ho | ho
          · subst ho; simp; positivity
          · exact ih at_ hvt 0 s (Or.inr ⟨rfl, hs⟩) o ho

/-- the outcome is never below −100 % -/
theorem outcome_ge_neg_one (v : List ℝ) (a : List Action) (hv : ∀ x ∈ v, 0 < x) :
    ∀ o ∈ outcome v a, -1 ≤ o := by
  apply outcome_ge_neg_one_from v a hv
  left; exact ⟨by simp, by simp⟩

/-- the outcome is 0 until the first Buy -/
theorem outcome_zero_before_first_buy (v : List ℝ) (a pre rest : List Action) (ha : a = pre ++ rest)
    (hpre : ∀ y ∈ pre, y ≠ buy) : ∀ i, i < pre.length → i < v.length → (outcome v a)[i]? = some 0 := by
  subst ha
  unfold outcome
  have key : ∀ (pre : List Action) (v : List ℝ), (∀ y ∈ pre, y ≠ buy) → ∀ i, i < pre.length → i < v.length →
      (outcomeFrom (Arith.nat 1) (Arith.nat 0) v (pre ++ rest))[i]? = some (0 : ℝ) := by
    intro pre
    induction pre with
    | nil => intro v _ i hi; simp at hi
    | cons y pt ih =>
      intro v hp i hi hiv
      cases v with
      | nil => simp at hiv
      | cons x vt =>
        have hy : y ≠ buy := hp y (by simp)
        simp only [List.cons_append, outcomeFrom, ArithReal.arith_gt, ArithReal.arith_nat, Nat.cast_zero, Nat.cast_one,
          hy, and_false, if_false, lt_irrefl, false_and]
        cases i with
        | zero => simp
        | succ j =>
          simp only [List.getElem?_cons_succ]
          have := ih vt (fun z hz => hp z (by simp [hz])) j (by simpa using hi) (by simpa using hiv)
          simpa [ArithReal.arith_nat] using this
  exact key pre v hpre

/-- buy-and-hold: outcome_i = value_i / value_0 − 1 -/
theorem outcome_buy_and_hold (v0 : ℝ) (vt : List ℝ) (_h0 : 0 < v0) (_hv : ∀ x ∈ vt, 0 < x) (k : Nat) :
    outcome (v0 :: vt) (buy :: List.replicate k hold)
      = (v0 / v0 - 1) :: ((vt.take k).map (fun x => x / v0 - 1)) := by
  unfold outcome
  simp only [outcomeFrom, ArithReal.arith_gt, ArithReal.arith_nat, Nat.cast_zero, Nat.cast_one, zero_lt_one, and_self, if_true]
  congr 1
  · simp; ring
  · have key : ∀ (vt : List ℝ) (k : Nat), outcomeFrom (0 : ℝ) (1 / v0) vt (List.replicate k hold)
        = (vt.take k).map (fun x => x / v0 - 1) := by
      intro vt
      induction vt with
      | nil => intro k; cases k <;> simp [outcomeFrom]
      | cons x t ih =>
        intro k
        cases k with
        | zero => simp [outcomeFrom]
        | succ k =>
          have hne : ¬ (hold = buy) := by decide
          have hne2 : ¬ (hold = sell) := by decide
          simp only [List.replicate_succ, outcomeFrom, ArithReal.arith_gt, ArithReal.arith_nat, Nat.cast_zero, lt_irrefl,
            false_and, if_false, hne2, and_false, List.take_succ_cons, List.map_cons]
          rw [ih k]
          congr 1
          simp; ring
    simpa using key vt k

/-- removing redundant repeated actions (normalising) does not change the outcome -/
theorem outcome_normalize_from (v : List ℝ) (a : List Action) (hv : ∀ x ∈ v, 0 < x) :
    ∀ (b s : ℝ) (last : Action), ((InCash b s ∧ last = sell) ∨ (Invested b s ∧ last = buy)) →
      outcomeFrom b s v (normalizeFrom last a) = outcomeFrom b s v a := by
  induction v generalizing a with
  | nil => intro b s last _; cases a <;> simp [outcomeFrom, normalizeFrom] <;> (split <;> simp [outcomeFrom])
  | cons x vt ih =>
    intro b s last hst
    cases a with
    | nil => simp [outcomeFrom, normalizeFrom]
    | cons y at_ =>
      have hx : 0 < x := hv x (by simp)
      have hvt : ∀ z ∈ vt, 0 < z := fun z hz => hv z (by simp [hz])
      rcases hst with ⟨⟨hb, hs⟩, hl⟩ | ⟨⟨hb, hs⟩, hl⟩
      · subst hs; subst hl
        cases y with
        | buy =>
          simp only [normalizeFrom, ne_eq, reduceCtorEq, not_false_eq_true, and_self, if_true, outcomeFrom,
            ArithReal.arith_gt, ArithReal.arith_nat, Nat.cast_zero, hb]
          congr 1
          exact ih at_ hvt 0 (b / x) buy (Or.inr ⟨⟨rfl, by positivity⟩, rfl⟩)
        | sell =>
          simp only [normalizeFrom, ne_eq, not_true_eq_false, and_false, if_false, outcomeFrom, ArithReal.arith_gt,
            ArithReal.arith_nat, Nat.cast_zero, reduceCtorEq, lt_irrefl, false_and]
          congr 1
          exact ih at_ hvt b 0 sell (Or.inl ⟨⟨hb, rfl⟩, rfl⟩)
        | hold =>
          simp only [normalizeFrom, ne_eq, not_true_eq_false, false_and, if_false, outcomeFrom, ArithReal.arith_gt,
            ArithReal.arith_nat, Nat.cast_zero, reduceCtorEq, and_false, lt_irrefl]
          congr 1
          exact ih at_ hvt b 0 sell (Or.inl ⟨⟨hb, rfl⟩, rfl⟩)
      · subst hb; subst hl
        cases y with
        | buy =>
          simp only [normalizeFrom, ne_eq, not_true_eq_false, and_false, if_false, outcomeFrom, ArithReal.arith_gt,
            ArithReal.arith_nat, Nat.cast_zero, lt_irrefl, false_and, reduceCtorEq]
          congr 1
          exact ih at_ hvt 0 s buy (Or.inr ⟨⟨rfl, hs⟩, rfl⟩)
        | sell =>
          simp only [normalizeFrom, ne_eq, reduceCtorEq, not_false_eq_true, and_self, if_true, outcomeFrom,
            ArithReal.arith_gt, ArithReal.arith_nat, Nat.cast_zero, lt_irrefl, false_and, if_false, hs]
          congr 1
          exact ih at_ hvt (s * x) 0 sell (Or.inl ⟨⟨by positivity, rfl⟩, rfl⟩)
        | hold =>
          simp only [normalizeFrom, ne_eq, not_true_eq_false, false_and, if_false, outcomeFrom, ArithReal.arith_gt,
            ArithReal.arith_nat, Nat.cast_zero, lt_irrefl, reduceCtorEq, and_false]
          congr 1
          exact ih at_ hvt 0 s buy (Or.inr ⟨⟨rfl, hs⟩, rfl⟩)

theorem outcome_normalize (v : List ℝ) (a : List Action) (hv : ∀ x ∈ v, 0 < x) :
    outcome v (normalize a) = outcome v a := by
  unfold outcome normalize
  exact outcome_normalize_from v a hv _ _ sell (Or.inl ⟨⟨by simp, by simp⟩, rfl⟩)

/-! non-vacuity: a concrete history -/
example : normalize [hold, buy, buy, sell, sell, buy] = [hold, buy, hold, sell, hold, buy] := by decide
example : denormalize [hold, buy, hold, sell] = [hold, buy, buy, sell] := by decide

end C08
