import IndicatorVerif.Proofs.RangeReal
import Mathlib.Tactic.Positivity
import Mathlib.Tactic.GCongr
/-
  C15 — ranges and band orderings, proved over the reals on the documented formulas (Spec), for every valid
  OHLCV series, every position and every period ≥ 1.  Positions whose defining denominator is zero are exempt
  (explicit hypotheses), as the property says.  "Up to rounding" is the float side, covered by the oracle on the
  Go outputs; the theorems are exact over ℝ.
-/
noncomputable section
namespace C15
open PS Spec ArithReal

/-- a valid OHLCV series: low ≤ open, close ≤ high, positive prices, non-negative volume -/
structure Valid (o h l c v : Nat → ℝ) : Prop where
  low_pos : ∀ i, 0 < l i
  low_open : ∀ i, l i ≤ o i
  open_high : ∀ i, o i ≤ h i
  low_close : ∀ i, l i ≤ c i
  close_high : ∀ i, c i ≤ h i
  vol_nonneg : ∀ i, 0 ≤ v i

variable {o h l c v : Nat → ℝ}

theorem Valid.low_high (V : Valid o h l c v) (i : Nat) : l i ≤ h i := le_trans (V.low_close i) (V.close_high i)
theorem Valid.high_pos (V : Valid o h l c v) (i : Nat) : 0 < h i := lt_of_lt_of_le (V.low_pos i) (V.low_high i)
theorem Valid.close_pos (V : Valid o h l c v) (i : Nat) : 0 < c i := lt_of_lt_of_le (V.low_pos i) (V.low_close i)

/-! ### ratios of a value inside its range -/

theorem ratio_in_unit {x lo hi : ℝ} (h1 : lo ≤ x) (h2 : x ≤ hi) (h3 : lo < hi) : 0 ≤ (x - lo) / (hi - lo) ∧ (x - lo) / (hi - lo) ≤ 1 := by
  have hd : 0 < hi - lo := by linarith
  exact ⟨div_nonneg (by linarith) hd.le, by rw [div_le_one hd]; linarith⟩

/-- **BoP ∈ [-1, 1]** : (close − open) / (high − low) -/
theorem bop_range (V : Valid o h l c v) (i : Nat) (hd : h i ≠ l i) :
    -1 ≤ ((input c - input o) / (input h - input l)).val i ∧ ((input c - input o) / (input h - input l)).val i ≤ 1 := by
  simp only [div_val, sub_val, input_val, div_eq, sub_eq]
  have hlt : 0 < h i - l i := by have := V.low_high i; rcases lt_or_eq_of_le this with x | x; linarith; exact absurd x.symm hd
  have a1 := V.low_open i; have a2 := V.open_high i; have a3 := V.low_close i; have a4 := V.close_high i
  constructor
  · rw [le_div_iff₀ hlt]; linarith
  · rw [div_le_one hlt]; linarith

/-- **MFM ∈ [-1, 1]** : ((close − low) − (high − close)) / (high − low) -/
theorem mfm_range (V : Valid o h l c v) (i : Nat) (hd : h i ≠ l i) :
    -1 ≤ (mfm (input h) (input l) (input c)).val i ∧ (mfm (input h) (input l) (input c)).val i ≤ 1 := by
  simp only [mfm, div_val, sub_val, input_val, div_eq, sub_eq]
  have hlt : 0 < h i - l i := by have := V.low_high i; rcases lt_or_eq_of_le this with x | x; linarith; exact absurd x.symm hd
  have a3 := V.low_close i; have a4 := V.close_high i
  constructor
  · rw [le_div_iff₀ hlt]; linarith
  · rw [div_le_one hlt]; linarith

/-- |MFM| ≤ 1 at every position (where high = low the real quotient is 0) -/
theorem mfm_abs_le (V : Valid o h l c v) (i : Nat) : |(mfm (input h) (input l) (input c)).val i| ≤ 1 := by
  by_cases hd : h i = l i
  · simp [mfm, hd]
  · exact abs_le.mpr (mfm_range V i hd)

/-- **CMF ∈ [-1, 1]** : Σ MFV / Σ volume over the period, when the period's volume is not zero -/
theorem cmf_range (V : Valid o h l c v) (p i : Nat)
    (hv : sumL (window p v i) ≠ 0) :
    -1 ≤ (msum p (mfv (input h) (input l) (input c) (input v)) / msum p (input v)).val i ∧
    (msum p (mfv (input h) (input l) (input c) (input v)) / msum p (input v)).val i ≤ 1 := by
  simp only [div_val, msum_val, div_eq]
  have hvs : 0 ≤ sumL (window p (input v).val i) := sumL_nonneg _ (by
    intro x hx; obtain ⟨j, _, rfl⟩ := mem_window hx; exact V.vol_nonneg _)
  have hpos : 0 < sumL (window p (input v).val i) := lt_of_le_of_ne hvs (Ne.symm hv)
  have up : sumL (window p (mfv (input h) (input l) (input c) (input v)).val i) ≤ sumL (window p (input v).val i) := by
    apply sumL_le_sumL
    intro j _
    have := (abs_le.mp (mfm_abs_le V (i + 1 - p + j))).2
    have hv0 := V.vol_nonneg (i + 1 - p + j)
    simp only [mfv, mul_val, input_val, mul_eq]
    calc _ ≤ 1 * v (i + 1 - p + j) := mul_le_mul_of_nonneg_right this hv0
      _ = _ := one_mul _
  have lo : sumL (window p (fun k => -(input v).val k) i) ≤ sumL (window p (mfv (input h) (input l) (input c) (input v)).val i) := by
    apply sumL_le_sumL
    intro j _
    have := (abs_le.mp (mfm_abs_le V (i + 1 - p + j))).1
    have hv0 := V.vol_nonneg (i + 1 - p + j)
    simp only [mfv, mul_val, input_val, mul_eq]
    nlinarith
  have neg : sumL (window p (fun k => -(input v).val k) i) = -sumL (window p (input v).val i) := by
    rw [Sig.sumL_eq_sum, Sig.sumL_eq_sum]; simp only [window]
    induction (List.range p) with
    | nil => simp
    | cons a t ih => simp only [List.map_cons, List.sum_cons, ih]; ring
  rw [neg] at lo
  constructor
  · rw [le_div_iff₀ hpos]; linarith
  · rw [div_le_one hpos]; exact up

/-! ### moving extrema -/

/-- **moving min ≤ value ≤ moving max** -/
theorem moving_min_le_value_le_max (x : Nat → ℝ) (p i : Nat) (hp : 1 ≤ p) (hi : p - 1 ≤ i) :
    (mmin p (input x)).val i ≤ x i ∧ x i ≤ (mmax p (input x)).val i := by
  simp only [mmin_val, mmax_val, input_val]
  exact ⟨minL_le _ _ (cur_mem_window p hp x i hi), le_maxL _ _ (cur_mem_window p hp x i hi)⟩

/-- window of lows ≤ close ≤ window of highs -/
theorem close_between (V : Valid o h l c v) (p i : Nat) (hp : 1 ≤ p) (hi : p - 1 ≤ i) :
    minL (window p l i) ≤ c i ∧ c i ≤ maxL (window p h i) :=
  ⟨le_trans (minL_le _ _ (cur_mem_window p hp l i hi)) (V.low_close i),
   le_trans (V.close_high i) (le_maxL _ _ (cur_mem_window p hp h i hi))⟩

/-- **Stochastic %K ∈ [0, 100]** -/
theorem stochastic_k_range (V : Valid o h l c v) (p i : Nat) (hp : 1 ≤ p) (hi : p - 1 ≤ i)
    (hd : minL (window p l i) < maxL (window p h i)) :
    0 ≤ (scale hundred ((input c - mmin p (input l)) / (mmax p (input h) - mmin p (input l)))).val i ∧
    (scale hundred ((input c - mmin p (input l)) / (mmax p (input h) - mmin p (input l)))).val i ≤ 100 := by
  simp only [scale_val, div_val, sub_val, input_val, input_fun, mmin_val, mmax_val, div_eq, sub_eq, mul_eq, hundred, arith_nat]
  obtain ⟨h1, h2⟩ := close_between V p i hp hi
  obtain ⟨r1, r2⟩ := ratio_in_unit h1 h2 hd
  push_cast
  constructor <;> nlinarith

/-- %D (an average of %K values in [0,100]) stays in [0,100] -/
theorem sma_range (a : PS ℝ) (p i : Nat) (hp : 1 ≤ p) (lo hi : ℝ)
    (hb : ∀ j, j < p → lo ≤ a.val (i + 1 - p + j) ∧ a.val (i + 1 - p + j) ≤ hi) :
    lo ≤ (sma p a).val i ∧ (sma p a).val i ≤ hi := by
  rw [sma_val]
  have hp0 : (0 : ℝ) < p := by exact_mod_cast hp
  have c1 : sumL (window p (fun _ => lo) i) ≤ sumL (window p a.val i) := sumL_le_sumL p _ _ i (fun j hj => (hb j hj).1)
  have c2 : sumL (window p a.val i) ≤ sumL (window p (fun _ => hi) i) := sumL_le_sumL p _ _ i (fun j hj => (hb j hj).2)
  have cst : ∀ k : ℝ, sumL (window p (fun _ => k) i) = p * k := by
    intro k; rw [Sig.sumL_eq_sum]; simp [window]
  rw [cst] at c1 c2
  constructor
  · rw [le_div_iff₀ hp0]; linarith
  · rw [div_le_iff₀ hp0]; linarith

/-- **Williams %R ∈ [-100, 0]** -/
theorem williams_r_range (V : Valid o h l c v) (p i : Nat) (hp : 1 ≤ p) (hi : p - 1 ≤ i)
    (hd : minL (window p l i) < maxL (window p h i)) :
    -100 ≤ (scale (Arith.neg hundred) ((mmax p (input h) - input c) / (mmax p (input h) - mmin p (input l)))).val i ∧
    (scale (Arith.neg hundred) ((mmax p (input h) - input c) / (mmax p (input h) - mmin p (input l)))).val i ≤ 0 := by
  simp only [scale_val, div_val, sub_val, input_val, input_fun, mmin_val, mmax_val, div_eq, sub_eq, mul_eq, hundred, arith_nat, arith_neg]
  obtain ⟨h1, h2⟩ := close_between V p i hp hi
  have hdd : 0 < maxL (window p h i) - minL (window p l i) := by linarith
  have r1 : 0 ≤ (maxL (window p h i) - c i) / (maxL (window p h i) - minL (window p l i)) := div_nonneg (by linarith) hdd.le
  have r2 : (maxL (window p h i) - c i) / (maxL (window p h i) - minL (window p l i)) ≤ 1 := by rw [div_le_one hdd]; linarith
  push_cast
  constructor <;> nlinarith

/-- **Stochastic RSI ∈ [0, 1]** (for any underlying series `r`) -/
theorem stochastic_rsi_range (r : PS ℝ) (p i : Nat) (hp : 1 ≤ p) (hi : p - 1 ≤ i)
    (hd : (mmin p r).val i < (mmax p r).val i) :
    0 ≤ ((r - mmin p r) / (mmax p r - mmin p r)).val i ∧ ((r - mmin p r) / (mmax p r - mmin p r)).val i ≤ 1 := by
  simp only [div_val, sub_val, div_eq, sub_eq]
  simp only [mmin_val, mmax_val] at hd ⊢
  exact ratio_in_unit (minL_le _ _ (cur_mem_window p hp r.val i hi)) (le_maxL _ _ (cur_mem_window p hp r.val i hi)) hd

/-! ### 100 − 100/(1 + ratio) -/

theorem hundred_minus (q : ℝ) (hq : 0 ≤ q) : 0 ≤ 100 - 100 / (1 + q) ∧ 100 - 100 / (1 + q) ≤ 100 := by
  have h1 : 0 < 1 + q := by linarith
  have h2 : 100 / (1 + q) ≤ 100 := by rw [div_le_iff₀ h1]; nlinarith
  have h3 : 0 ≤ 100 / (1 + q) := by positivity
  constructor <;> linarith

/-- the recurrence of RMA keeps non-negative inputs non-negative -/
theorem recG_rma_nonneg (p : Nat) (f0 : ℝ) (a : Nat → ℝ) (h0 : 0 ≤ f0) (ha : ∀ k, 0 ≤ a k) (k : Nat) :
    0 ≤ recG f0 (fun prev k => ((prev * ((p - 1 : Nat) : ℝ)) + a k) / (p : ℝ)) k := by
  induction k with
  | zero => exact h0
  | succ k ih =>
    simp only [recG]
    apply div_nonneg
    · have : (0 : ℝ) ≤ ((p - 1 : Nat) : ℝ) := by positivity
      have := mul_nonneg ih this
      have := ha k
      linarith
    · positivity

theorem rma_nonneg (N p : Nat) (a : PS ℝ) (ha : ∀ k, 0 ≤ a.val k) (i : Nat) : 0 ≤ (rma N p a).val i := by
  simp only [rma, recAvg, tabVal_eq]
  have := recG_rma_nonneg p (sumL (window p a.val (a.start + (p - 1))) / (p : ℝ)) (fun k => a.val (a.start + (p - 1) + k + 1))
    (div_nonneg (sumL_nonneg _ (by intro x hx; obtain ⟨j, _, rfl⟩ := mem_window hx; exact ha _)) (by positivity))
    (fun k => ha _) (i - (a.start + (p - 1)))
  simpa [arith_nat, add_eq, mul_eq, div_eq] using this

/-- **RSI ∈ [0, 100]** wherever the average loss is not zero -/
theorem rsi_range (N p : Nat) (x : Nat → ℝ) (i : Nat)
    (_hl : (rma N p (map (fun v => if Arith.lt v zero then Arith.neg v else zero) (input x - prev 1 (input x)))).val i ≠ 0) :
    0 ≤ (rsi N p (input x)).val i ∧ (rsi N p (input x)).val i ≤ 100 := by
  simp only [rsi, map_val, div_val, div_eq, sub_eq, add_eq, hundred, one, arith_nat]
  push_cast
  refine hundred_minus _ (div_nonneg ?_ ?_)
  · apply rma_nonneg; intro k; simp only [map_val]; split
    · rename_i hgt
      have := (arith_gt _ _).mp hgt
      exact this.le
    · simp [zero, arith_nat]
  · apply rma_nonneg; intro k; simp only [map_val]; split
    · rename_i hlt
      have := (arith_lt _ _).mp hlt
      simp only [arith_neg]; linarith
    · simp [zero, arith_nat]

/-- **MFI ∈ [0, 100]** wherever the negative money flow of the period is not zero -/
theorem mfi_range (V : Valid o h l c v) (p i : Nat) :
    let raw := typicalPrice (input h) (input l) (input c) * input v
    let ch := raw - prev 1 raw
    let pos := msum p (map2 (fun d r => if Arith.gt d zero then r else zero) ch raw)
    let neg := msum p (map2 (fun d r => if Arith.lt d zero then r else zero) ch raw)
    neg.val i ≠ 0 →
    0 ≤ (map (fun mr => hundred - hundred / (one + mr)) (pos / neg)).val i ∧
    (map (fun mr => hundred - hundred / (one + mr)) (pos / neg)).val i ≤ 100 := by
  intro raw ch pos neg hn
  have raw0 : ∀ k, 0 ≤ raw.val k := by
    intro k
    simp only [raw, typicalPrice, mul_val, over_val, add_val, input_val, mul_eq, div_eq, add_eq, arith_nat]
    have := V.high_pos k; have := V.low_pos k; have := V.close_pos k; have := V.vol_nonneg k
    positivity
  have pos0 : 0 ≤ pos.val i := by
    simp only [pos, msum_val]
    apply sumL_nonneg; intro y hy; obtain ⟨j, _, rfl⟩ := mem_window hy
    simp only [map2_val]; split
    · exact raw0 _
    · simp [zero, arith_nat]
  have neg0 : 0 ≤ neg.val i := by
    simp only [neg, msum_val]
    apply sumL_nonneg; intro y hy; obtain ⟨j, _, rfl⟩ := mem_window hy
    simp only [map2_val]; split
    · exact raw0 _
    · simp [zero, arith_nat]
  have npos : 0 < neg.val i := lt_of_le_of_ne neg0 (Ne.symm hn)
  simp only [map_val, div_val, div_eq, sub_eq, add_eq, hundred, one, arith_nat]
  have := hundred_minus (pos.val i / neg.val i) (div_nonneg pos0 npos.le)
  push_cast
  exact this

/-! ### bands -/

/-- **Standard deviation ≥ 0** -/
theorem mstd_nonneg (p : Nat) (a : PS ℝ) (i : Nat) : 0 ≤ (mstd p a).val i := by
  simp only [mstd, arith_sqrt]; exact Real.sqrt_nonneg _

/-- **Bollinger: upper ≥ middle ≥ lower** -/
theorem bollinger_ordered (p : Nat) (x : Nat → ℝ) (i : Nat) :
    (bbLower p (input x)).val i ≤ (bbMiddle p (input x)).val i ∧ (bbMiddle p (input x)).val i ≤ (bbUpper p (input x)).val i := by
  have := mstd_nonneg p (input x) i
  simp only [bbLower, bbMiddle, bbUpper, sub_val, add_val, scale_val, sub_eq, add_eq, mul_eq, two, arith_nat]
  push_cast
  constructor <;> nlinarith

/-- **Bollinger band width ≥ 0** where the middle band is positive -/
theorem band_width_nonneg (p : Nat) (x : Nat → ℝ) (i : Nat) (hm : 0 < (bbMiddle p (input x)).val i) :
    0 ≤ ((bbUpper p (input x) - bbLower p (input x)) / bbMiddle p (input x)).val i := by
  obtain ⟨h1, h2⟩ := bollinger_ordered p x i
  simp only [div_val, sub_val, div_eq, sub_eq]
  exact div_nonneg (by linarith) hm.le

/-- **Donchian: upper ≥ middle ≥ lower** -/
theorem donchian_ordered (p : Nat) (hp : 1 ≤ p) (x : Nat → ℝ) (i : Nat) :
    (mmin p (input x)).val i ≤ (over two (mmax p (input x) + mmin p (input x))).val i ∧
    (over two (mmax p (input x) + mmin p (input x))).val i ≤ (mmax p (input x)).val i := by
  have := minL_le_maxL (window p x i) (window_ne_nil p hp x i)
  simp only [over_val, add_val, mmin_val, mmax_val, input_fun, div_eq, add_eq, two, arith_nat]
  push_cast
  constructor <;> linarith

/-- **Envelope: upper ≥ middle ≥ lower** for a non-negative moving average and percentage -/
theorem envelope_ordered (m : PS ℝ) (pct : ℝ) (i : Nat) (hm : 0 ≤ m.val i) (hp : 0 ≤ pct) :
    (scale (one - pct / hundred) m).val i ≤ m.val i ∧ m.val i ≤ (scale (one + pct / hundred) m).val i := by
  simp only [scale_val, mul_eq, sub_eq, add_eq, div_eq, one, hundred, arith_nat]
  have : 0 ≤ pct / 100 := by positivity
  push_cast
  constructor <;> nlinarith

/-- the simple moving average of positive prices is positive (so the Envelope hypothesis holds for SMA) -/
theorem sma_pos (p : Nat) (hp : 1 ≤ p) (x : Nat → ℝ) (hx : ∀ k, 0 < x k) (i : Nat) : 0 < (sma p (input x)).val i := by
  rw [sma_val]
  have hp0 : (0 : ℝ) < p := by exact_mod_cast hp
  apply div_pos _ hp0
  rw [Sig.sumL_eq_sum]
  apply List.sum_pos
  · intro y hy; obtain ⟨j, _, rfl⟩ := mem_window hy; exact hx _
  · exact window_ne_nil p hp _ i

/-- true range ≥ high − low ≥ 0 -/
theorem true_range_nonneg (V : Valid o h l c v) (i : Nat) : 0 ≤ (trueRange (input h) (input l) (input c)).val i := by
  simp only [trueRange, map3, input_val, prev, arith_max, sub_eq]
  exact le_trans (sub_nonneg.mpr (V.low_high i)) (le_max_left _ _)

/-- **ATR ≥ 0** (simple moving average of the true range) -/
theorem atr_sma_nonneg (V : Valid o h l c v) (N p : Nat) (i : Nat) : 0 ≤ (atr N (.sma p) (input h) (input l) (input c)).val i := by
  simp only [atr, ma]
  rw [sma_val]
  apply div_nonneg _ (by positivity)
  apply sumL_nonneg; intro y hy; obtain ⟨j, _, rfl⟩ := mem_window hy; exact true_range_nonneg V _

/-- **Keltner: upper ≥ middle ≥ lower** -/
theorem keltner_ordered (V : Valid o h l c v) (N p : Nat) (i : Nat) :
    let a := scale two (atr N (.sma p) (input h) (input l) (input c))
    let m := ema N p two (input c)
    (m - a).val i ≤ m.val i ∧ m.val i ≤ (m + a).val i := by
  intro a m
  have := atr_sma_nonneg V N p i
  simp only [a, sub_val, add_val, scale_val, sub_eq, add_eq, mul_eq, two, arith_nat]
  push_cast
  constructor <;> nlinarith

/-- **Keltner with separately configured components**: whenever the ATR (over any moving average) is non-negative at `i`,
    upper ≥ middle ≥ lower there, for an EMA of any period `ep` -/
theorem keltnerG_ordered_of_atr_nonneg (N : Nat) (k : Spec.Ma) (ep : Nat) (i : Nat)
    (ha : 0 ≤ (atr N k (input h) (input l) (input c)).val i) :
    let a := scale two (atr N k (input h) (input l) (input c))
    let m := ema N ep two (input c)
    (m - a).val i ≤ m.val i ∧ m.val i ≤ (m + a).val i := by
  intro a m
  simp only [a, sub_val, add_val, scale_val, sub_eq, add_eq, mul_eq, two, arith_nat]
  push_cast
  constructor <;> nlinarith

/-- the default ATR (simple moving average of the true range), any ATR period `ap` and EMA period `ep` -/
theorem keltnerG_sma_ordered (V : Valid o h l c v) (N ap ep : Nat) (i : Nat) :
    let a := scale two (atr N (.sma ap) (input h) (input l) (input c))
    let m := ema N ep two (input c)
    (m - a).val i ≤ m.val i ∧ m.val i ≤ (m + a).val i :=
  keltnerG_ordered_of_atr_nonneg N (.sma ap) ep i (atr_sma_nonneg V N ap i)

/-- **Acceleration bands: upper ≥ middle ≥ lower** -/
theorem acceleration_ordered (V : Valid o h l c v) (p i : Nat) (hp : 1 ≤ p) :
    let k := (input h - input l) / (input h + input l)
    (sma p (input l * map (fun v => one - Arith.nat 4 * v) k)).val i ≤ (sma p (input c)).val i ∧
    (sma p (input c)).val i ≤ (sma p (input h * plus one (scale (Arith.nat 4) k))).val i := by
  intro k
  have hp0 : (0 : ℝ) < p := by exact_mod_cast hp
  have kk : ∀ j, 0 ≤ k.val j := by
    intro j
    simp only [k, div_val, sub_val, add_val, input_val, div_eq, sub_eq, add_eq]
    have := V.low_high j; have := V.high_pos j; have := V.low_pos j
    exact div_nonneg (by linarith) (by linarith)
  simp only [sma_val]
  constructor
  · apply div_le_div_of_nonneg_right _ hp0.le
    apply sumL_le_sumL; intro j _
    simp only [mul_val, map_val, input_val, mul_eq, sub_eq, one, arith_nat]
    have := kk (i + 1 - p + j); have := V.low_pos (i + 1 - p + j); have := V.low_close (i + 1 - p + j)
    push_cast; nlinarith
  · apply div_le_div_of_nonneg_right _ hp0.le
    apply sumL_le_sumL; intro j _
    simp only [mul_val, plus_val, scale_val, input_val, mul_eq, add_eq, one, arith_nat]
    have := kk (i + 1 - p + j); have := V.high_pos (i + 1 - p + j); have := V.close_high (i + 1 - p + j)
    push_cast; nlinarith

/-- **Ulcer index ≥ 0** -/
theorem ulcer_nonneg (p : Nat) (x : Nat → ℝ) (i : Nat) :
    let hc := mmax p (input x)
    let pd := scale hundred ((input x - hc) / hc)
    0 ≤ (map Arith.sqrt (sma p (pd * pd))).val i := by
  intro hc pd; simp only [map_val, arith_sqrt]; exact Real.sqrt_nonneg _

/-! ### Aroon -/

/-- **Aroon ∈ [0, 100]** -/
theorem aroon_range (p : Nat) (hp : 1 ≤ p) (pick : List ℝ → ℝ) (x : Nat → ℝ) (i : Nat) :
    0 ≤ (aroonLine p pick (input x)).val i ∧ (aroonLine p pick (input x)).val i ≤ 100 := by
  simp only [aroonLine, scale_val, over_val, map_val, sinceExtreme, input_fun, mul_eq, div_eq, sub_eq, hundred, arith_nat]
  have hp0 : (0 : ℝ) < p := by exact_mod_cast hp
  set idx := ((List.range p).find? (fun d => Arith.beq (x (i - d)) (pick (window p x i)))).getD 0 with hidx
  have hlt : idx ≤ p := by
    rw [hidx]
    cases hf : (List.range p).find? (fun d => Arith.beq (x (i - d)) (pick (window p x i))) with
    | none => simp
    | some d => have := List.mem_range.mp (List.mem_of_find?_eq_some hf); simp; omega
  have hr : (idx : ℝ) ≤ p := by exact_mod_cast hlt
  have h0 : (0 : ℝ) ≤ idx := by positivity
  have q1 : 0 ≤ ((p : ℝ) - idx) / p := div_nonneg (by linarith) hp0.le
  have q2 : ((p : ℝ) - idx) / p ≤ 1 := by rw [div_le_one hp0]; linarith
  push_cast
  constructor <;> nlinarith

/-! non-vacuity: a valid series exists -/
example : Valid (fun _ => 2) (fun _ => 3) (fun _ => 1) (fun _ => 2) (fun _ => 5) :=
  ⟨by intro; norm_num, by intro; norm_num, by intro; norm_num, by intro; norm_num, by intro; norm_num, by intro; norm_num⟩

end C15
