import IndicatorVerif.Model.Registry
/- C15 — theorems under construction -/
namespace C15
theorem placeholder_true : True := trivial
end C15
