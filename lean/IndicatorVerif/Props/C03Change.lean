import IndicatorVerif.Props.C03
import IndicatorVerif.Model.Stream
/-
  C03 — clean termination PROVED for one re-converging pipeline of the library, for every input, every parameter,
  every buffering and every schedule: `helper.Change(c, k)`
      cs := Duplicate(c, 2); cs[0] = Buffered(cs[0], k); cs[1] = Skip(cs[1], k); Subtract(cs[1], cs[0])
  (the building block of Roc/Kama/Rsi/Tsi/… — `NetM.changeNet`, six processes: producer, Duplicate, Pipe into the
  buffered channel, Skip, Subtract, an independent reader).

  Method: ONE explicit schedule on the smallest admissible buffers (all channels unbuffered, the `Buffered` channel
  of capacity k) is run symbolically for every input list and every k ≥ 1 (`change_canonical_run`, induction over the
  input with the invariant "queue length + values still to skip = k"); it ends with every process halted, every
  channel closed and empty, and the reader holding exactly `changeS k xs`.  `determinacy` then makes that the end of
  EVERY schedule, `no_longer_schedule` bounds the length of every schedule (no infinite run), and
  `capacity_mono` / `clean_termination_for_larger_capacities` carry both to every larger buffering
  (any input capacity, any `Buffered` size ≥ k).
-/
namespace C03
open Net NetM

def P6 (l0 l1 l2 l3 l4 l5 : PS Loc) : Nat → PS Loc :=
  fun p => match p with | 0 => l0 | 1 => l1 | 2 => l2 | 3 => l3 | 4 => l4 | 5 => l5 | _ => (⟨0, []⟩, none)
def C6 (c0 c1 c2 c3 c4 c5 : CS Int) : Nat → CS Int :=
  fun c => match c with | 0 => c0 | 1 => c1 | 2 => c2 | 3 => c3 | 4 => c4 | 5 => c5 | _ => ([], false)
@[simp] theorem P6_0 (l0 l1 l2 l3 l4 l5 : PS Loc) : P6 l0 l1 l2 l3 l4 l5 0 = l0 := rfl
@[simp] theorem P6_u0 (l0 l1 l2 l3 l4 l5 v : PS Loc) : upd (P6 l0 l1 l2 l3 l4 l5) 0 v = P6 v l1 l2 l3 l4 l5 := by
  funext p
  match p with
  | 0 | 1 | 2 | 3 | 4 | 5 => simp [upd, P6]
  | n + 6 => simp [upd, P6]
@[simp] theorem P6_1 (l0 l1 l2 l3 l4 l5 : PS Loc) : P6 l0 l1 l2 l3 l4 l5 1 = l1 := rfl
@[simp] theorem P6_u1 (l0 l1 l2 l3 l4 l5 v : PS Loc) : upd (P6 l0 l1 l2 l3 l4 l5) 1 v = P6 l0 v l2 l3 l4 l5 := by
  funext p
  match p with
  | 0 | 1 | 2 | 3 | 4 | 5 => simp [upd, P6]
  | n + 6 => simp [upd, P6]
@[simp] theorem P6_2 (l0 l1 l2 l3 l4 l5 : PS Loc) : P6 l0 l1 l2 l3 l4 l5 2 = l2 := rfl
@[simp] theorem P6_u2 (l0 l1 l2 l3 l4 l5 v : PS Loc) : upd (P6 l0 l1 l2 l3 l4 l5) 2 v = P6 l0 l1 v l3 l4 l5 := by
  funext p
  match p with
  | 0 | 1 | 2 | 3 | 4 | 5 => simp [upd, P6]
  | n + 6 => simp [upd, P6]
@[simp] theorem P6_3 (l0 l1 l2 l3 l4 l5 : PS Loc) : P6 l0 l1 l2 l3 l4 l5 3 = l3 := rfl
@[simp] theorem P6_u3 (l0 l1 l2 l3 l4 l5 v : PS Loc) : upd (P6 l0 l1 l2 l3 l4 l5) 3 v = P6 l0 l1 l2 v l4 l5 := by
  funext p
  match p with
  | 0 | 1 | 2 | 3 | 4 | 5 => simp [upd, P6]
  | n + 6 => simp [upd, P6]
@[simp] theorem P6_4 (l0 l1 l2 l3 l4 l5 : PS Loc) : P6 l0 l1 l2 l3 l4 l5 4 = l4 := rfl
@[simp] theorem P6_u4 (l0 l1 l2 l3 l4 l5 v : PS Loc) : upd (P6 l0 l1 l2 l3 l4 l5) 4 v = P6 l0 l1 l2 l3 v l5 := by
  funext p
  match p with
  | 0 | 1 | 2 | 3 | 4 | 5 => simp [upd, P6]
  | n + 6 => simp [upd, P6]
@[simp] theorem P6_5 (l0 l1 l2 l3 l4 l5 : PS Loc) : P6 l0 l1 l2 l3 l4 l5 5 = l5 := rfl
@[simp] theorem P6_u5 (l0 l1 l2 l3 l4 l5 v : PS Loc) : upd (P6 l0 l1 l2 l3 l4 l5) 5 v = P6 l0 l1 l2 l3 l4 v := by
  funext p
  match p with
  | 0 | 1 | 2 | 3 | 4 | 5 => simp [upd, P6]
  | n + 6 => simp [upd, P6]
@[simp] theorem C6_0 (l0 l1 l2 l3 l4 l5 : CS Int) : C6 l0 l1 l2 l3 l4 l5 0 = l0 := rfl
@[simp] theorem C6_u0 (l0 l1 l2 l3 l4 l5 v : CS Int) : upd (C6 l0 l1 l2 l3 l4 l5) 0 v = C6 v l1 l2 l3 l4 l5 := by
  funext p
  match p with
  | 0 | 1 | 2 | 3 | 4 | 5 => simp [upd, C6]
  | n + 6 => simp [upd, C6]
@[simp] theorem C6_1 (l0 l1 l2 l3 l4 l5 : CS Int) : C6 l0 l1 l2 l3 l4 l5 1 = l1 := rfl
@[simp] theorem C6_u1 (l0 l1 l2 l3 l4 l5 v : CS Int) : upd (C6 l0 l1 l2 l3 l4 l5) 1 v = C6 l0 v l2 l3 l4 l5 := by
  funext p
  match p with
  | 0 | 1 | 2 | 3 | 4 | 5 => simp [upd, C6]
  | n + 6 => simp [upd, C6]
@[simp] theorem C6_2 (l0 l1 l2 l3 l4 l5 : CS Int) : C6 l0 l1 l2 l3 l4 l5 2 = l2 := rfl
@[simp] theorem C6_u2 (l0 l1 l2 l3 l4 l5 v : CS Int) : upd (C6 l0 l1 l2 l3 l4 l5) 2 v = C6 l0 l1 v l3 l4 l5 := by
  funext p
  match p with
  | 0 | 1 | 2 | 3 | 4 | 5 => simp [upd, C6]
  | n + 6 => simp [upd, C6]
@[simp] theorem C6_3 (l0 l1 l2 l3 l4 l5 : CS Int) : C6 l0 l1 l2 l3 l4 l5 3 = l3 := rfl
@[simp] theorem C6_u3 (l0 l1 l2 l3 l4 l5 v : CS Int) : upd (C6 l0 l1 l2 l3 l4 l5) 3 v = C6 l0 l1 l2 v l4 l5 := by
  funext p
  match p with
  | 0 | 1 | 2 | 3 | 4 | 5 => simp [upd, C6]
  | n + 6 => simp [upd, C6]
@[simp] theorem C6_4 (l0 l1 l2 l3 l4 l5 : CS Int) : C6 l0 l1 l2 l3 l4 l5 4 = l4 := rfl
@[simp] theorem C6_u4 (l0 l1 l2 l3 l4 l5 v : CS Int) : upd (C6 l0 l1 l2 l3 l4 l5) 4 v = C6 l0 l1 l2 l3 v l5 := by
  funext p
  match p with
  | 0 | 1 | 2 | 3 | 4 | 5 => simp [upd, C6]
  | n + 6 => simp [upd, C6]
@[simp] theorem C6_5 (l0 l1 l2 l3 l4 l5 : CS Int) : C6 l0 l1 l2 l3 l4 l5 5 = l5 := rfl
@[simp] theorem C6_u5 (l0 l1 l2 l3 l4 l5 v : CS Int) : upd (C6 l0 l1 l2 l3 l4 l5) 5 v = C6 l0 l1 l2 l3 l4 v := by
  funext p
  match p with
  | 0 | 1 | 2 | 3 | 4 | 5 => simp [upd, C6]
  | n + 6 => simp [upd, C6]

theorem run_append {L V : Type} (N : Network L V) (t1 t2 : List Nat) (s : St L V) :
    run N (t1 ++ t2) s = (run N t1 s).bind (run N t2) := by
  induction t1 generalizing s with
  | nil => simp [run]
  | cons p t ih =>
    simp only [List.cons_append, run]
    cases step N p s with
    | none => simp
    | some a => simp [ih]

/-- state at the start of a round: `rest` still to be produced, `q` waiting in the buffered channel, `r` values still
    to be skipped, `out` delivered to the reader; everything else idle and empty -/
def R (rest q : List Int) (r : Nat) (out : List Int) : St Loc Int :=
  ⟨P6 (⟨0, rest⟩, none) (⟨0, []⟩, none) (⟨0, []⟩, none) (⟨0, [(r : Int)]⟩, none) (⟨0, []⟩, none) (⟨0, out⟩, none),
   C6 ([], false) ([], false) ([], false) (q, false) ([], false) ([], false)⟩

/-- every process finished, every channel closed and empty, the reader holds `out` -/
def F (out : List Int) : St Loc Int :=
  ⟨P6 (⟨1, []⟩, none) (⟨5, []⟩, none) (⟨3, []⟩, none) (⟨3, []⟩, none) (⟨31, []⟩, none) (⟨1, out⟩, none),
   C6 ([], true) ([], true) ([], true) ([], true) ([], true) ([], true)⟩

/-- Subtract draining what is left in the buffered channel after it closed its output -/
def D (q out : List Int) : St Loc Int :=
  ⟨P6 (⟨1, []⟩, none) (⟨5, []⟩, none) (⟨3, []⟩, none) (⟨3, []⟩, none) (⟨10, []⟩, none) (⟨1, out⟩, none),
   C6 ([], true) ([], true) ([], true) (q, true) ([], true) ([], true)⟩

theorem changeInit_eq (xs : List Int) (k : Nat) : changeInit xs k = R xs [] k [] := by
  simp only [changeInit, R]
  congr 1
  · funext p
    match p with
    | 0 | 1 | 2 | 3 | 4 | 5 => simp [P6]
    | n + 6 => simp [P6]
  · funext c
    match c with
    | 0 | 1 | 2 | 3 | 4 | 5 => simp [C6]
    | n + 6 => simp [C6]

/-- a value that is still skipped: it goes through Duplicate into the buffer and into Skip, which drops it -/
def schedA : List Nat := [0, 1, 0, 1, 2, 1, 2, 1, 3, 1]

theorem roundA (k : Nat) (x : Int) (rest q : List Int) (r : Nat) (out : List Int) (hq : q.length < k) :
    run (changeNet 0 k) schedA (R (x :: rest) q (r + 1) out) = some (R rest (q ++ [x]) r out) := by
  have hk : k ≠ 0 := by omega
  have h1 : q.length < max 1 k := by omega
  have h2 : ¬ ((r : Int) + 1 ≤ 0) := by omega
  simp [schedA, run, R, step, opOf, changeNet, producer, dup2, pipe, skipM, Op.chan, Op.fire, hk, h1, h2]

/-- steady state: the new value passes Skip, Subtract pairs it with the oldest buffered value, the Pipe (which held
    the new value in hand while the buffer was full) refills the buffer, the reader takes the difference -/
def schedB : List Nat := [0, 1, 0, 1, 2, 1, 1, 3, 1, 3, 4, 3, 4, 2, 4, 5, 4]

theorem roundB (k : Nat) (x y : Int) (rest q : List Int) (out : List Int) (hq : q.length < k) :
    run (changeNet 0 k) schedB (R (x :: rest) (y :: q) 0 out) = some (R rest (q ++ [x]) 0 (out ++ [x - y])) := by
  have hk : k ≠ 0 := by omega
  have h1 : q.length < max 1 k := by omega
  simp [schedB, run, R, step, opOf, changeNet, producer, dup2, pipe, skipM, subtractNew, sink, Op.chan, Op.fire, hk, h1]

/-- the input is exhausted: closes propagate, Skip (still skipping or not) closes, Subtract closes its output first -/
def schedE (r : Nat) : List Nat := [0, 1, 1, 1, 2, 2] ++ (if r = 0 then [3, 3] else [3, 3, 3]) ++ [4, 4, 5]

theorem roundE (k : Nat) (q : List Int) (r : Nat) (out : List Int) :
    run (changeNet 0 k) (schedE r) (R [] q r out) = some (D q out) := by
  cases r with
  | zero =>
    simp [schedE, run, R, D, step, opOf, changeNet, producer, dup2, pipe, skipM, subtractNew, sink, Op.chan, Op.fire]
  | succ r =>
    have h2 : ¬ ((r : Int) + 1 ≤ 0) := by omega
    simp [schedE, run, R, D, step, opOf, changeNet, producer, dup2, pipe, skipM, subtractNew, sink, Op.chan, Op.fire, h2]

theorem drain (k : Nat) (q out : List Int) :
    run (changeNet 0 k) (List.replicate (q.length + 1) 4) (D q out) = some (F out) := by
  induction q with
  | nil => simp [run, D, F, step, opOf, changeNet, subtractNew, Op.chan, Op.fire]
  | cons y q ih =>
    have h : run (changeNet 0 k) [4] (D (y :: q) out) = some (D q out) := by
      simp [run, D, step, opOf, changeNet, subtractNew, Op.chan, Op.fire]
    have e : List.replicate ((y :: q).length + 1) 4 = [4] ++ List.replicate (q.length + 1) 4 := by
      simp [List.replicate_succ]
    rw [e, run_append, h]; simpa using ih

/-- **the canonical run**: from any round-start state that satisfies the invariant, an explicit schedule ends with
    everything halted and the reader holding the differences `x_{i} − x_{i−k}` of everything still to come -/
theorem change_canonical_run (k : Nat) (hk : 1 ≤ k) (xs q : List Int) (r : Nat) (out : List Int)
    (hinv : q.length + r = k) :
    ∃ t, run (changeNet 0 k) t (R xs q r out)
      = some (F (out ++ List.zipWith (fun a b => a - b) (xs.drop r) (q ++ xs))) := by
  induction xs generalizing q r out with
  | nil =>
    refine ⟨schedE r ++ List.replicate (q.length + 1) 4, ?_⟩
    rw [run_append, roundE]; simpa using drain k q out
  | cons x rest ih =>
    cases r with
    | zero =>
      cases q with
      | nil => simp at hinv; omega
      | cons y q =>
        obtain ⟨t, ht⟩ := ih (q ++ [x]) 0 (out ++ [x - y]) (by simp at hinv ⊢; omega)
        refine ⟨schedB ++ t, ?_⟩
        rw [run_append, roundB k x y rest q out (by simp at hinv; omega)]
        simpa using ht
    | succ r =>
      obtain ⟨t, ht⟩ := ih (q ++ [x]) r out (by simp; omega)
      refine ⟨schedA ++ t, ?_⟩
      rw [run_append, roundA k x rest q r out (by omega)]
      simpa using ht


/-- `k = 0` (nothing skipped, the `Buffered` channel is unbuffered too): the Pipe hands the value over to Subtract directly -/
def schedZ : List Nat := [0, 1, 0, 1, 2, 1, 1, 3, 1, 3, 4, 3, 2, 4, 2, 4, 5, 4]

theorem roundZ (x : Int) (rest : List Int) (out : List Int) :
    run (changeNet 0 0) schedZ (R (x :: rest) [] 0 out) = some (R rest [] 0 (out ++ [x - x])) := by
  simp [schedZ, run, R, step, opOf, changeNet, producer, dup2, pipe, skipM, subtractNew, sink, Op.chan, Op.fire]

theorem change_canonical_run_zero (xs : List Int) (out : List Int) :
    ∃ t, run (changeNet 0 0) t (R xs [] 0 out)
      = some (F (out ++ List.zipWith (fun a b => a - b) xs xs)) := by
  induction xs generalizing out with
  | nil =>
    refine ⟨schedE 0 ++ List.replicate 1 4, ?_⟩
    rw [run_append, roundE]; simpa using drain 0 [] out
  | cons x rest ih =>
    obtain ⟨t, ht⟩ := ih (out ++ [x - x])
    refine ⟨schedZ ++ t, ?_⟩
    rw [run_append, roundZ]
    simpa using ht

/-- the canonical run for every `k` -/
theorem change_canonical (xs : List Int) (k : Nat) :
    ∃ t, run (changeNet 0 k) t (changeInit xs k)
      = some (F (List.zipWith (fun a b => a - b) (xs.drop k) xs)) := by
  rw [changeInit_eq]
  rcases Nat.eq_zero_or_pos k with rfl | hk
  · simpa using change_canonical_run_zero xs []
  · simpa using change_canonical_run k hk xs [] k [] (by simp)

theorem F_allHalted (cap buf : Nat) (out : List Int) : AllHalted (changeNet cap buf) (F out) := by
  intro p
  match p with
  | 0 | 1 | 2 | 3 | 4 | 5 => simp [F, changeNet, producer, dup2, pipe, skipM, subtractNew, sink]
  | n + 6 => simp [F, P6, changeNet]

theorem changeNet_owned (cap buf : Nat) : Owned (changeNet cap buf) := by
  constructor
  · intro p l c k h
    simp only [changeNet] at h ⊢
    split at h
    · simp only [producer] at h; split at h <;> simp at h
    · simp only [dup2] at h; split at h <;> simp at h; obtain ⟨rfl, _⟩ := h; rfl
    · simp only [pipe] at h; split at h <;> simp at h; obtain ⟨rfl, _⟩ := h; rfl
    · simp only [skipM] at h; split at h
      · split at h <;> simp at h <;> (obtain ⟨rfl, _⟩ := h; rfl)
      all_goals simp at h
    · simp only [subtractNew] at h; split at h <;> simp at h <;> (obtain ⟨rfl, _⟩ := h; rfl)
    · simp only [sink] at h; split at h <;> simp at h; obtain ⟨rfl, _⟩ := h; rfl
    · simp at h
  · intro p l c v k h
    simp only [changeNet] at h ⊢
    split at h
    · simp only [producer] at h; split at h <;> simp at h; obtain ⟨rfl, _⟩ := h; rfl
    · simp only [dup2] at h; split at h <;> simp at h <;> (obtain ⟨rfl, _⟩ := h; rfl)
    · simp only [pipe] at h; split at h <;> simp at h; obtain ⟨rfl, _⟩ := h; rfl
    · simp only [skipM] at h; split at h
      · split at h <;> simp at h
      all_goals simp at h
      obtain ⟨rfl, _⟩ := h; rfl
    · simp only [subtractNew] at h; split at h <;> simp at h; obtain ⟨rfl, _⟩ := h; rfl
    · simp only [sink] at h; split at h <;> simp at h
    · simp at h
  · intro p l c k h
    simp only [changeNet] at h ⊢
    split at h
    · simp only [producer] at h; split at h <;> simp at h; obtain ⟨rfl, _⟩ := h; rfl
    · simp only [dup2] at h; split at h <;> simp at h <;> (obtain ⟨rfl, _⟩ := h; rfl)
    · simp only [pipe] at h; split at h <;> simp at h; obtain ⟨rfl, _⟩ := h; rfl
    · simp only [skipM] at h; split at h
      · split at h <;> simp at h
      all_goals simp at h
      obtain ⟨rfl, _⟩ := h; rfl
    · simp only [subtractNew] at h; split at h <;> simp at h <;> (obtain ⟨rfl, _⟩ := h; rfl)
    · simp only [sink] at h; split at h <;> simp at h
    · simp at h

theorem changeInit_wf (cap buf : Nat) (xs : List Int) (k : Nat) : WF (changeNet cap buf) (changeInit xs k) := by
  intro p c h
  simp only [changeInit] at h
  split at h <;> simp at h

theorem changeNet_larger (cap buf k : Nat) (hb : k ≤ buf) : Larger (changeNet 0 k) (changeNet cap buf) := by
  constructor
  · rfl
  · intro c
    simp only [changeNet]
    split <;> omega

/-- **`helper.Change` terminates cleanly and computes the k-step difference — for every input, every `k`, every
    input-channel capacity, every `Buffered` size ≥ k and every schedule (pacing, GOMAXPROCS):**
    there is a bound on the number of steps of any execution, and any execution that can go no further has every
    process finished (no deadlock, no goroutine left), every channel closed and empty, and has delivered to the
    independent reader exactly `changeS k xs`. -/
theorem change_terminates_cleanly (xs : List Int) (k cap buf : Nat) (hb : k ≤ buf) :
    ∃ bound, ∀ t s2, run (changeNet cap buf) t (changeInit xs k) = some s2 →
      t.length ≤ bound ∧
      (Terminal (changeNet cap buf) s2 →
        AllHalted (changeNet cap buf) s2 ∧ (∀ c, s2.chans c = ([], true) ∨ 6 ≤ c) ∧
        (s2.procs 5).1.reg = Stream.changeS (fun a b : Int => a - b) k xs) := by
  obtain ⟨t0, h0⟩ := change_canonical xs k
  have hL := changeNet_larger cap buf k hb
  have hO := changeNet_owned cap buf
  have hW := changeInit_wf cap buf xs k
  obtain ⟨t', e', hr, hRe, hlen⟩ := capacity_mono _ _ hL t0 _ _ _ (rel_refl _) h0
  have hH' : AllHalted (changeNet cap buf) e' := rel_allHalted _ _ hL _ _ hRe (F_allHalted 0 k _)
  refine ⟨t0.length, fun t s2 h2 => ⟨?_, fun hT => ?_⟩⟩
  · have := no_longer_schedule _ hO t' t _ e' s2 hW hr (allHalted_terminal _ _ hH') h2
    omega
  · obtain ⟨hA, hC, hP⟩ := clean_termination_for_larger_capacities _ _ hO hL t0 _ _ hW h0 (F_allHalted 0 k _) t s2 h2 hT
    refine ⟨hA, fun c => ?_, ?_⟩
    · rw [hC]
      match c with
      | 0 | 1 | 2 | 3 | 4 | 5 => left; simp [F]
      | n + 6 => right; omega
    · rw [hP 5]; simp [F, Stream.changeS]

/-- the statement is not vacuous: a run to a terminal state exists (the canonical one, transported) -/
theorem change_some_run_terminates (xs : List Int) (k cap buf : Nat) (hb : k ≤ buf) :
    ∃ t e, run (changeNet cap buf) t (changeInit xs k) = some e ∧ Terminal (changeNet cap buf) e := by
  obtain ⟨t0, h0⟩ := change_canonical xs k
  obtain ⟨t', e', hr, hRe, _⟩ := capacity_mono _ _ (changeNet_larger cap buf k hb) t0 _ _ _ (rel_refl _) h0
  exact ⟨t', e', hr, allHalted_terminal _ _ (rel_allHalted _ _ (changeNet_larger cap buf k hb) _ _ hRe (F_allHalted 0 k _))⟩

end C03
