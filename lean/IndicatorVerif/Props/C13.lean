import IndicatorVerif.Model.Assets
/-
  C13 — Backtest delivers one result per (asset, strategy) with notifications in protocol order, for
  any worker count; rankings are non-increasing with a lawful comparator.
  Model: every asset contributes the block `assetBegin a, write a s₁ … write a sₖ, assetEnd a`; with
  several workers the report sees an interleaving of the blocks (each block keeps its own order,
  since one worker executes it sequentially) between `begin` and `end`.
-/
namespace C13
open Backtest

/-- an interleaving contains exactly the events of its parts -/
theorem interleave_perm {ls : List (List Ev)} {l : List Ev} (h : Interleave ls l) : l.Perm ls.flatten := by
  induction h with
  | nil => exact List.Perm.nil
  | skipEmpty ls l _ ih => simpa using ih
  | take pre post e t l _ ih =>
    simp only [List.flatten_append, List.flatten_cons, List.flatten_nil, List.cons_append,
      List.append_assoc] at ih ⊢
    exact (List.Perm.cons e ih).trans (List.perm_middle.symm)

/-- every part survives as a subsequence: the order inside one asset's block is preserved -/
theorem interleave_sublist {ls : List (List Ev)} {l : List Ev} (h : Interleave ls l) :
    ∀ b ∈ ls, b.Sublist l := by
  induction h with
  | nil => intro b hb; simp at hb
  | skipEmpty ls l _ ih =>
    intro b hb
    rcases List.mem_cons.mp hb with hb | hb
    · subst hb; exact List.nil_sublist _
    · exact ih b hb
  | take pre post e t l _ ih =>
    intro b hb
    simp only [List.mem_append, List.mem_cons, List.not_mem_nil, or_false] at hb
    rcases hb with (hb | hb) | hb
    · exact (ih b (by simp [hb])).cons e
    · subst hb; exact (ih t (by simp)).cons_cons e
    · exact (ih b (by simp [hb])).cons e

/-- **Every pair exactly once, for any worker count**: whatever the interleaving of the asset blocks, the
    write notifications are a permutation of all (asset, strategy) pairs -/
theorem pairs_once (names strategies : List String) (l : List Ev)
    (h : Interleave (names.map (block strategies)) l) :
    (l.filter (fun e => match e with | .write _ _ => true | _ => false)).Perm
      ((names.map (fun a => strategies.map (Ev.write a))).flatten) := by
  have hp := (interleave_perm h).filter (fun e => match e with | .write _ _ => true | _ => false)
  refine hp.trans ?_
  have key : ∀ (names : List String),
      ((names.map (block strategies)).flatten).filter (fun e => match e with | .write _ _ => true | _ => false)
        = (names.map (fun a => strategies.map (Ev.write a))).flatten := by
    intro names
    induction names with
    | nil => rfl
    | cons a t ih =>
      simp only [List.map_cons, List.flatten_cons, List.filter_append, ih]
      congr 1
      simp only [block, List.filter_append, List.filter_cons, List.filter_nil]
      simp
  rw [key]

/-- **Protocol order inside an asset**: assetBegin a, then its writes in strategy order, then assetEnd a
    appear in that order in every interleaving -/
theorem block_order (names strategies : List String) (l : List Ev) (a : String) (ha : a ∈ names)
    (h : Interleave (names.map (block strategies)) l) : (block strategies a).Sublist l :=
  interleave_sublist h _ (List.mem_map.mpr ⟨a, ha, rfl⟩)

/-- one worker: the sequential trace is an interleaving (so everything above applies to it) -/
theorem seq_is_interleave (bs : List (List Ev)) : Interleave bs bs.flatten := by
  induction bs with
  | nil => exact Interleave.nil
  | cons b t ih =>
    induction b with
    | nil => exact Interleave.skipEmpty t _ ih
    | cons e r ihr =>
      have := Interleave.take [] t e r (r ++ t.flatten) (by simpa using ihr)
      simpa using this

/-! ### ranking -/

/-- insertion into a list kept in non-increasing order w.r.t. a "goes before" test -/
def insertBy (before : Int → Int → Bool) (x : Int) : List Int → List Int
  | [] => [x]
  | y :: t => if before x y then x :: y :: t else y :: insertBy before x t
def sortBy (before : Int → Int → Bool) (l : List Int) : List Int := l.foldr (insertBy before) []

/-- the fixed comparator: `cmp.Compare(b, a) < 0`, i.e. `a` goes before `b` iff `a > b` -/
def lawful (a b : Int) : Bool := decide (b < a)
/-- the old comparator `int(b.Outcome - a.Outcome) < 0` on outcomes measured in hundredths of a percentage
    point (`x / 100` truncates toward zero like Go's float→int conversion) -/
def truncating (a b : Int) : Bool := decide (Int.tdiv (b - a) 100 < 0)

theorem insertBy_sorted (x : Int) (l : List Int) (h : l.Pairwise (fun a b => b ≤ a)) :
    (insertBy lawful x l).Pairwise (fun a b => b ≤ a) := by
  induction l with
  | nil => simp [insertBy]
  | cons y t ih =>
    simp only [insertBy, lawful]
    by_cases hxy : y < x
    · simp only [hxy, decide_true, if_true]
      refine List.pairwise_cons.mpr ⟨?_, h⟩
      intro z hz
      rcases List.mem_cons.mp hz with hz | hz
      · subst hz; omega
      · have := (List.pairwise_cons.mp h).1 z hz; omega
    · simp only [hxy, decide_false, Bool.false_eq_true, if_false]
      refine List.pairwise_cons.mpr ⟨?_, ih (List.pairwise_cons.mp h).2⟩
      intro z hz
      have hperm : ∀ (l : List Int), (insertBy lawful x l).Perm (x :: l) := by
        intro l; induction l with
        | nil => simp [insertBy]
        | cons w u ihu =>
          simp only [insertBy]; split
          · exact List.Perm.refl _
          · exact (List.Perm.cons w ihu).trans (List.Perm.swap x w u)
      have hz' := (hperm t).mem_iff.mp hz
      rcases List.mem_cons.mp hz' with hz' | hz'
      · subst hz'; omega
      · exact (List.pairwise_cons.mp h).1 z hz'

/-- **Ranking with the lawful comparator is non-increasing**: the first entry has the maximal outcome -/
theorem ranking_sorted (l : List Int) : (sortBy lawful l).Pairwise (fun a b => b ≤ a) := by
  induction l with
  | nil => simp [sortBy]
  | cons x t ih => exact insertBy_sorted x _ ih

/-- the truncating comparator leaves outcomes less than one percentage point apart in arbitrary order
    (witness: 0.10 % listed before 0.90 %) -/
theorem ranking_truncating_cmp_unsorted : ¬ (sortBy truncating [90, 10]).Pairwise (fun a b => b ≤ a) := by
  decide

/-! non-vacuity -/
example : runSeq ["A"] ["s1", "s2"] = [.begin_, .assetBegin "A", .write "A" "s1", .write "A" "s2", .assetEnd "A", .end_] := by
  decide

end C13
