import IndicatorVerif.Model.Registry
/- C18 — theorems under construction -/
namespace C18
theorem placeholder_true : True := trivial
end C18
