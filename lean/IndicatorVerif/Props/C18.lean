import IndicatorVerif.Props.C18Tac
import IndicatorVerif.Model.StrategyOps
/-
  C18 — scale covariance, hand-proved part (the generated per-indicator theorems are in C18Gen.lean):
  * the indicators whose formulas contain sign tests (RSI, Stochastic RSI, MFI);
  * the decision rules of the strategies: every comparison a strategy makes is between two quantities of the same
    degree, or between a scale-free quantity and a constant, so it is unchanged by a positive factor.
-/
noncomputable section
namespace C18
open PS Spec ArithReal

theorem zero_eq : (zero : ℝ) = 0 := by simp [zero]

/-- positive part is positively homogeneous -/
theorem pos_part_hom (k : ℝ) (hk : 0 < k) (v : ℝ) :
    (if Arith.gt (k * v) zero then k * v else zero) = k * (if Arith.gt v zero then v else zero) := by
  by_cases h : 0 < v
  · have : 0 < k * v := mul_pos hk h
    simp [zero_eq, h, this]
  · have : ¬ 0 < k * v := by
      intro h'; exact h (by by_contra hv; push Not at hv; nlinarith)
    simp [zero_eq, h, this]

/-- negative part is positively homogeneous -/
theorem neg_part_hom (k : ℝ) (hk : 0 < k) (v : ℝ) :
    (if Arith.lt (k * v) zero then Arith.neg (k * v) else zero) = k * (if Arith.lt v zero then Arith.neg v else zero) := by
  by_cases h : v < 0
  · have : k * v < 0 := mul_neg_of_pos_of_neg hk h
    simp [zero_eq, h, this]
  · have : ¬ k * v < 0 := by
      intro h'; exact h (by by_contra hv; push Not at hv; nlinarith)
    simp [zero_eq, h, this]

/-- **RSI does not depend on the currency unit** -/
theorem rsi_invariant (N p : Nat) (k : ℝ) (hk : 0 < k) (x : Nat → ℝ) :
    Scaled 1 (rsi N p (input x)) (rsi N p (input (fun i => k * x i))) := by
  unfold rsi
  have hch : Scaled k (input x - prev 1 (input x)) (input (fun i => k * x i) - prev 1 (input (fun i => k * x i))) :=
    Scaled.sub (Scaled.input k x) (Scaled.prev 1 (Scaled.input k x))
  have hg := Scaled.rma N p (Scaled.map (fun v => if Arith.gt v zero then v else zero) k (pos_part_hom k hk) hch)
  have hl := Scaled.rma N p (Scaled.map (fun v => if Arith.lt v zero then Arith.neg v else zero) k (neg_part_hom k hk) hch)
  exact Scaled.map_one' _ (Scaled.div hg hl) (div_self hk.ne')

/-- **Stochastic RSI does not depend on the currency unit** -/
theorem stochasticRsi_invariant (N p : Nat) (k : ℝ) (hk : 0 < k) (x : Nat → ℝ) :
    let r := rsi N p (input x)
    let r' := rsi N p (input (fun i => k * x i))
    Scaled 1 ((r - mmin p r) / (mmax p r - mmin p r)) ((r' - mmin p r') / (mmax p r' - mmin p r')) := by
  intro r r'
  have h := rsi_invariant N p k hk x
  have := Scaled.div (Scaled.sub h (Scaled.mmin p zero_le_one h)) (Scaled.sub (Scaled.mmax p zero_le_one h) (Scaled.mmin p zero_le_one h))
  exact this.cast (by norm_num)

/-- selecting the raw money flow by the sign of its change is homogeneous in (price · volume) -/
theorem select_hom (c : ℝ) (hc : 0 < c) (d r : ℝ) :
    (if Arith.gt (c * d) zero then c * r else zero) = c * (if Arith.gt d zero then r else zero) ∧
    (if Arith.lt (c * d) zero then c * r else zero) = c * (if Arith.lt d zero then r else zero) := by
  constructor
  · by_cases h : 0 < d
    · have : 0 < c * d := mul_pos hc h
      simp [zero_eq, h, this]
    · have : ¬ 0 < c * d := by intro h'; exact h (by by_contra hv; push Not at hv; nlinarith)
      simp [zero_eq, h, this]
  · by_cases h : d < 0
    · have : c * d < 0 := mul_neg_of_pos_of_neg hc h
      simp [zero_eq, h, this]
    · have : ¬ c * d < 0 := by intro h'; exact h (by by_contra hv; push Not at hv; nlinarith)
      simp [zero_eq, h, this]

/-- **MFI does not depend on the currency unit nor on the volume unit** -/
theorem mfi_invariant (p : Nat) (k kv : ℝ) (hk : 0 < k) (hv : 0 < kv) (h l c v : Nat → ℝ) :
    let mfi := fun (h l c v : Nat → ℝ) =>
      let raw := typicalPrice (input h) (input l) (input c) * input v
      let ch := raw - prev 1 raw
      let pos := msum p (map2 (fun d r => if Arith.gt d zero then r else zero) ch raw)
      let neg := msum p (map2 (fun d r => if Arith.lt d zero then r else zero) ch raw)
      map (fun mr => hundred - hundred / (one + mr)) (pos / neg)
    Scaled 1 (mfi h l c v) (mfi (fun i => k * h i) (fun i => k * l i) (fun i => k * c i) (fun i => kv * v i)) := by
  intro mfi
  have hraw : Scaled (k * kv) (typicalPrice (input h) (input l) (input c) * input v)
      (typicalPrice (input fun i => k * h i) (input fun i => k * l i) (input fun i => k * c i) * input fun i => kv * v i) :=
    Scaled.mul (Scaled.over _ (Scaled.add (Scaled.add (Scaled.input k h) (Scaled.input k l)) (Scaled.input k c))) (Scaled.input kv v)
  have hch := Scaled.sub hraw (Scaled.prev 1 hraw)
  have hc : 0 < k * kv := mul_pos hk hv
  have hpos := Scaled.msum p (Scaled.map2_hom (fun d r => if Arith.gt d zero then r else zero) (fun a b => (select_hom (k * kv) hc a b).1) hch hraw)
  have hneg := Scaled.msum p (Scaled.map2_hom (fun d r => if Arith.lt d zero then r else zero) (fun a b => (select_hom (k * kv) hc a b).2) hch hraw)
  exact Scaled.map_one' _ (Scaled.div hpos hneg) (div_self hc.ne')

/-- **VPT scales with the volume unit and does not depend on the currency unit** -/
theorem vpt_scaled (N : Nat) (k kv : ℝ) (hk : 0 < k) (x : Nat → Nat → ℝ) :
    ∃ P Q, formulas N "Vpt" [] [] x = some [P] ∧
      formulas N "Vpt" [] [] (fun j i => (match j with | 1 => kv | _ => k) * x j i) = some [Q] ∧ Scaled kv P Q := by
  refine ⟨_, _, rfl, rfl, ?_⟩
  have hP : Scaled kv ⟨1, fun i => x 1 i * (x 0 i - x 0 (i - 1)) / x 0 (i - 1)⟩
      ⟨1, fun i => (kv * x 1 i) * (k * x 0 i - k * x 0 (i - 1)) / (k * x 0 (i - 1))⟩ := by
    refine ⟨rfl, fun i => ?_⟩
    show (kv * x 1 i) * (k * x 0 i - k * x 0 (i - 1)) / (k * x 0 (i - 1)) = kv * (x 1 i * (x 0 i - x 0 (i - 1)) / x 0 (i - 1))
    by_cases hb : x 0 (i - 1) = 0
    · simp [hb]
    · have hk' := hk.ne'
      field_simp
  exact Scaled.cumulSum N 1 hP

/-- the position of the window extreme does not change when the stream is multiplied by a positive factor -/
theorem sinceExtreme_invariant (p : Nat) (pick : List ℝ → ℝ) (k : ℝ) (hk : 0 < k)
    (hpick : ∀ l : List ℝ, pick (l.map (fun v => k * v)) = k * pick l) (P Q : PS ℝ) (h : Scaled k P Q) :
    Scaled 1 (sinceExtreme p pick P) (sinceExtreme p pick Q) := by
  refine ⟨by show Q.start + _ = P.start + _; rw [h.1], fun i => ?_⟩
  simp only [sinceExtreme, one_mul]
  rw [Scaled.window_scaled h, hpick]
  congr 2
  apply List.find?_congr
  intro d _
  simp only [h.2]
  have : (k * P.val (i - d) = k * pick (window p P.val i)) ↔ (P.val (i - d) = pick (window p P.val i)) :=
    ⟨fun e => mul_left_cancel₀ hk.ne' e, fun e => by rw [e]⟩
  simp only [Arith.beq, instArithReal, this]

/-- **Aroon does not depend on the currency unit** -/
theorem aroon_invariant (N p : Nat) (k : ℝ) (hk : 0 < k) (x : Nat → Nat → ℝ) :
    ∃ P1 P2 Q1 Q2, formulas N "Aroon" [p] [] x = some [P1, P2] ∧
      formulas N "Aroon" [p] [] (fun j i => k * x j i) = some [Q1, Q2] ∧ Scaled 1 P1 Q1 ∧ Scaled 1 P2 Q2 := by
  refine ⟨_, _, _, _, rfl, rfl, ?_, ?_⟩
  · have h := sinceExtreme_invariant p maxL k hk (fun l => Scaled.maxL_scaled hk.le l) _ _ (Scaled.input k (x 0))
    exact Scaled.scale _ (Scaled.over _ (Scaled.map_one _ h))
  · have h := sinceExtreme_invariant p minL k hk (fun l => Scaled.minL_scaled hk.le l) _ _ (Scaled.input k (x 1))
    exact Scaled.scale _ (Scaled.over _ (Scaled.map_one _ h))

/-! ### decisions -/

/-- a comparison between two quantities of the same degree is unchanged by a positive factor -/
theorem gt_scale (k : ℝ) (hk : 0 < k) (a b : ℝ) : Arith.gt (k * a) (k * b) = Arith.gt a b := by
  have : k * b < k * a ↔ b < a := by constructor <;> intro h <;> nlinarith
  simp only [Arith.gt, Arith.lt, this]
theorem lt_scale (k : ℝ) (hk : 0 < k) (a b : ℝ) : Arith.lt (k * a) (k * b) = Arith.lt a b := by
  have : k * a < k * b ↔ a < b := by constructor <;> intro h <;> nlinarith
  simp only [Arith.lt, this]
/-- the sign of a quantity of any degree is unchanged -/
theorem sign_scale (k : ℝ) (hk : 0 < k) (a : ℝ) : Arith.gt (k * a) 0 = Arith.gt a 0 ∧ Arith.lt (k * a) 0 = Arith.lt a 0 := by
  have := gt_scale k hk a 0; have := lt_scale k hk a 0
  simp_all

/-- the Stop-Loss test `closing ≤ purchase · (1 − pct)` is between two prices: unchanged by the currency unit -/
theorem stop_loss_test_scale (k : ℝ) (hk : 0 < k) (closing purchase pct : ℝ) :
    (k * closing ≤ (k * purchase) * (1 - pct)) ↔ (closing ≤ purchase * (1 - pct)) := by
  constructor <;> intro h <;> nlinarith

/-! ### outcome -/

/-- with every price multiplied by k > 0 the portfolio holds 1/k as many shares and is worth the same -/
theorem outcomeFrom_scale (k : ℝ) (hk : 0 < k) (values : List ℝ) (actions : List Action) (balance shares : ℝ) :
    StratOps.outcomeFrom balance (shares / k) (values.map (fun v => k * v)) actions
      = StratOps.outcomeFrom balance shares values actions := by
  induction values generalizing actions balance shares with
  | nil => simp [StratOps.outcomeFrom]
  | cons v vt ih =>
    cases actions with
    | nil => simp [StratOps.outcomeFrom]
    | cons a at_ =>
      have hk' := hk.ne'
      have hs : (0 < shares / k) ↔ (0 < shares) := by
        constructor
        · intro h; have := mul_pos h hk; rwa [div_mul_cancel₀ _ hk'] at this
        · intro h; exact div_pos h hk
      simp only [List.map_cons, StratOps.outcomeFrom, arith_gt, arith_nat, Nat.cast_zero, Nat.cast_one, div_eq, mul_eq, add_eq, sub_eq]
      by_cases h1 : 0 < balance ∧ a = Action.buy
      · simp only [h1, and_self, if_true]
        have e : balance / (k * v) = (balance / v) / k := by rw [div_div, mul_comm]
        rw [e, ih]
        congr 1
        by_cases hv : v = 0
        · simp [hv]
        · field_simp
      · simp only [h1, if_false]
        by_cases h2 : 0 < shares ∧ a = Action.sell
        · have h2' : 0 < shares / k ∧ a = Action.sell := ⟨hs.mpr h2.1, h2.2⟩
          simp only [h2, h2', and_self, if_true]
          have e : shares / k * (k * v) = shares * v := by field_simp
          rw [e]
          have := ih at_ (shares * v) 0
          simp only [zero_div] at this
          rw [this]
          simp
        · have h2' : ¬ (0 < shares / k ∧ a = Action.sell) := fun h => h2 ⟨hs.mp h.1, h.2⟩
          simp only [h2, h2', if_false]
          rw [ih]
          congr 1
          field_simp

/-- **The outcome of a recommendation stream does not depend on the currency unit** -/
theorem outcome_scale_invariant (k : ℝ) (hk : 0 < k) (values : List ℝ) (actions : List Action) :
    StratOps.outcome (values.map (fun v => k * v)) actions = StratOps.outcome values actions := by
  have := outcomeFrom_scale k hk values actions (Arith.nat 1) (Arith.nat 0)
  simpa [StratOps.outcome] using this

end C18
