import IndicatorVerif.Props.C18Tac
/-
  C18 — scale covariance, hand-proved part (the generated per-indicator theorems are in C18Gen.lean):
  * the indicators whose formulas contain sign tests (RSI, Stochastic RSI, MFI);
  * the decision rules of the strategies: every comparison a strategy makes is between two quantities of the same
    degree, or between a scale-free quantity and a constant, so it is unchanged by a positive factor.
-/
noncomputable section
namespace C18
open PS Spec ArithReal

theorem zero_eq : (zero : ℝ) = 0 := by simp [zero]

/-- positive part is positively homogeneous -/
theorem pos_part_hom (k : ℝ) (hk : 0 < k) (v : ℝ) :
    (if Arith.gt (k * v) zero then k * v else zero) = k * (if Arith.gt v zero then v else zero) := by
  by_cases h : 0 < v
  · have : 0 < k * v := mul_pos hk h
    simp [zero_eq, h, this]
  · have : ¬ 0 < k * v := by
      intro h'; exact h (by by_contra hv; push Not at hv; nlinarith)
    simp [zero_eq, h, this]

/-- negative part is positively homogeneous -/
theorem neg_part_hom (k : ℝ) (hk : 0 < k) (v : ℝ) :
    (if Arith.lt (k * v) zero then Arith.neg (k * v) else zero) = k * (if Arith.lt v zero then Arith.neg v else zero) := by
  by_cases h : v < 0
  · have : k * v < 0 := mul_neg_of_pos_of_neg hk h
    simp [zero_eq, h, this]
  · have : ¬ k * v < 0 := by
      intro h'; exact h (by by_contra hv; push Not at hv; nlinarith)
    simp [zero_eq, h, this]

/-- **RSI does not depend on the currency unit** -/
theorem rsi_invariant (N p : Nat) (k : ℝ) (hk : 0 < k) (x : Nat → ℝ) :
    Scaled 1 (rsi N p (input x)) (rsi N p (input (fun i => k * x i))) := by
  unfold rsi
  have hch : Scaled k (input x - prev 1 (input x)) (input (fun i => k * x i) - prev 1 (input (fun i => k * x i))) :=
    Scaled.sub (Scaled.input k x) (Scaled.prev 1 (Scaled.input k x))
  have hg := Scaled.rma N p (Scaled.map (fun v => if Arith.gt v zero then v else zero) k (pos_part_hom k hk) hch)
  have hl := Scaled.rma N p (Scaled.map (fun v => if Arith.lt v zero then Arith.neg v else zero) k (neg_part_hom k hk) hch)
  exact Scaled.map_one' _ (Scaled.div hg hl) (div_self hk.ne')

/-- **Stochastic RSI does not depend on the currency unit** -/
theorem stochasticRsi_invariant (N p : Nat) (k : ℝ) (hk : 0 < k) (x : Nat → ℝ) :
    let r := rsi N p (input x)
    let r' := rsi N p (input (fun i => k * x i))
    Scaled 1 ((r - mmin p r) / (mmax p r - mmin p r)) ((r' - mmin p r') / (mmax p r' - mmin p r')) := by
  intro r r'
  have h := rsi_invariant N p k hk x
  have := Scaled.div (Scaled.sub h (Scaled.mmin p zero_le_one h)) (Scaled.sub (Scaled.mmax p zero_le_one h) (Scaled.mmin p zero_le_one h))
  exact this.cast (by norm_num)

/-- selecting the raw money flow by the sign of its change is homogeneous in (price · volume) -/
theorem select_hom (c : ℝ) (hc : 0 < c) (d r : ℝ) :
    (if Arith.gt (c * d) zero then c * r else zero) = c * (if Arith.gt d zero then r else zero) ∧
    (if Arith.lt (c * d) zero then c * r else zero) = c * (if Arith.lt d zero then r else zero) := by
  constructor
  · by_cases h : 0 < d
    · have : 0 < c * d := mul_pos hc h
      simp [zero_eq, h, this]
    · have : ¬ 0 < c * d := by intro h'; exact h (by by_contra hv; push Not at hv; nlinarith)
      simp [zero_eq, h, this]
  · by_cases h : d < 0
    · have : c * d < 0 := mul_neg_of_pos_of_neg hc h
      simp [zero_eq, h, this]
    · have : ¬ c * d < 0 := by intro h'; exact h (by by_contra hv; push Not at hv; nlinarith)
      simp [zero_eq, h, this]

/-- **MFI does not depend on the currency unit nor on the volume unit** -/
theorem mfi_invariant (p : Nat) (k kv : ℝ) (hk : 0 < k) (hv : 0 < kv) (h l c v : Nat → ℝ) :
    let mfi := fun (h l c v : Nat → ℝ) =>
      let raw := typicalPrice (input h) (input l) (input c) * input v
      let ch := raw - prev 1 raw
      let pos := msum p (map2 (fun d r => if Arith.gt d zero then r else zero) ch raw)
      let neg := msum p (map2 (fun d r => if Arith.lt d zero then r else zero) ch raw)
      map (fun mr => hundred - hundred / (one + mr)) (pos / neg)
    Scaled 1 (mfi h l c v) (mfi (fun i => k * h i) (fun i => k * l i) (fun i => k * c i) (fun i => kv * v i)) := by
  intro mfi
  have hraw : Scaled (k * kv) (typicalPrice (input h) (input l) (input c) * input v)
      (typicalPrice (input fun i => k * h i) (input fun i => k * l i) (input fun i => k * c i) * input fun i => kv * v i) :=
    Scaled.mul (Scaled.over _ (Scaled.add (Scaled.add (Scaled.input k h) (Scaled.input k l)) (Scaled.input k c))) (Scaled.input kv v)
  have hch := Scaled.sub hraw (Scaled.prev 1 hraw)
  have hc : 0 < k * kv := mul_pos hk hv
  have hpos := Scaled.msum p (Scaled.map2_hom (fun d r => if Arith.gt d zero then r else zero) (fun a b => (select_hom (k * kv) hc a b).1) hch hraw)
  have hneg := Scaled.msum p (Scaled.map2_hom (fun d r => if Arith.lt d zero then r else zero) (fun a b => (select_hom (k * kv) hc a b).2) hch hraw)
  exact Scaled.map_one' _ (Scaled.div hpos hneg) (div_self hc.ne')

/-! ### decisions -/

/-- a comparison between two quantities of the same degree is unchanged by a positive factor -/
theorem gt_scale (k : ℝ) (hk : 0 < k) (a b : ℝ) : Arith.gt (k * a) (k * b) = Arith.gt a b := by
  have : k * b < k * a ↔ b < a := by constructor <;> intro h <;> nlinarith
  simp only [Arith.gt, Arith.lt, this]
theorem lt_scale (k : ℝ) (hk : 0 < k) (a b : ℝ) : Arith.lt (k * a) (k * b) = Arith.lt a b := by
  have : k * a < k * b ↔ a < b := by constructor <;> intro h <;> nlinarith
  simp only [Arith.lt, this]
/-- the sign of a quantity of any degree is unchanged -/
theorem sign_scale (k : ℝ) (hk : 0 < k) (a : ℝ) : Arith.gt (k * a) 0 = Arith.gt a 0 ∧ Arith.lt (k * a) 0 = Arith.lt a 0 := by
  have := gt_scale k hk a 0; have := lt_scale k hk a 0
  simp_all

/-- the Stop-Loss test `closing ≤ purchase · (1 − pct)` is between two prices: unchanged by the currency unit -/
theorem stop_loss_test_scale (k : ℝ) (hk : 0 < k) (closing purchase pct : ℝ) :
    (k * closing ≤ (k * purchase) * (1 - pct)) ↔ (closing ≤ purchase * (1 - pct)) := by
  constructor <;> intro h <;> nlinarith

end C18
