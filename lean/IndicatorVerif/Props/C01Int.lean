import Mathlib.Tactic.Ring
import IndicatorVerif.Model.Registry
import IndicatorVerif.Proofs.ExtremaGen
/-
  C01 at an integer element type.  The registry terms are generic over `Arith α`; with `instance : Arith Int`
  (exact ring operations, `/` = truncating `Int.tdiv`) the same model terms describe the library instantiated at
  `int`/`int64` (no overflow).  These theorems state, for every input family over ℤ, every period and every position
  past the warm-up, that the integer-safe indicators are the documented formula evaluated exactly with one
  truncating division at the end.  Tied to the Go code by the INDI (Go, `int64`) / INDZ (this model at `Int`) run.
-/
namespace C01
open Sig Ind

/-- prefix sums -/
def TZ (g : Nat → Int) (m : Nat) : Int := ((List.range m).map g).sum

theorem TZ_succ (g : Nat → Int) (m : Nat) : TZ g (m + 1) = TZ g m + g m := by
  simp [TZ, List.range_succ]

theorem window_sumZ (g : Nat → Int) (a p : Nat) :
    ((List.range p).map (fun j => g (a + j))).sum = TZ g (a + p) - TZ g a := by
  induction p with
  | zero => simp
  | succ p ih =>
    rw [List.range_succ, List.map_append, List.sum_append, ih, ← Nat.add_assoc, TZ_succ]
    simp
    ring

theorem iadd (a b : Int) : Arith.add a b = a + b := rfl
theorem isub (a b : Int) : Arith.sub a b = a - b := rfl
theorem idiv (a b : Int) : Arith.div a b = Int.tdiv a b := rfl
theorem inat (n : Nat) : (Arith.nat n : Int) = (n : Int) := rfl

/-- state of the running sum `sum = sum + c - b` after `m` steps, over ℤ -/
theorem running_stateZ (g : Nat → Int) (p : Nat) (m : Nat) :
    scanSt2 (sumStep (α := Int)) 0 g (fun k => if k < p then 0 else g (k - p)) m = TZ g m - TZ g (m - p) := by
  induction m with
  | zero => simp [scanSt2, TZ]
  | succ m ih =>
    simp only [scanSt2, sumStep, ih]
    show Arith.sub (Arith.add (TZ g m - TZ g (m - p)) (g m)) (if m < p then 0 else g (m - p)) = _
    rw [iadd, isub]
    by_cases h : m < p
    · have e1 : m - p = 0 := by omega
      have e2 : m + 1 - p = 0 := by omega
      simp only [h, e1, e2, if_true, TZ_succ]
      simp [TZ]
    · have e2 : m + 1 - p = (m - p) + 1 := by omega
      simp only [h, e2, if_false, TZ_succ]
      ring

/-- **MovingSum over ℤ**: the value for position i ≥ p − 1 is the exact sum of the window ending at i -/
theorem movingSum_int (x : Nat → Nat → Int) (p : Nat) (hp : 1 ≤ p) (i : Nat) (hi : p - 1 ≤ i) :
    den x (movingSum p (input 0)) i = ((List.range p).map (fun j => x 0 (i + 1 - p + j))).sum := by
  simp only [movingSum, den, Sig.offD, Sig.off, Option.getD_some, Nat.zero_add, Nat.sub_zero, scanOut2, sumStep]
  have hst := running_stateZ (fun m => x 0 m) p i
  have hf : (fun m => if m < p then (zero : Int) else x 0 (m - p)) = fun k => if k < p then 0 else x 0 (k - p) := rfl
  show Arith.sub (Arith.add (scanSt2 sumStep zero (fun m => x 0 m) (fun m => if m < p then zero else x 0 (m - p)) i) (x 0 i))
      (if i < p then zero else x 0 (i - p)) = _
  rw [hf]
  have hz : (zero : Int) = 0 := rfl
  rw [hz, hst, iadd, isub]
  have ws := window_sumZ (fun m => x 0 m) (i + 1 - p) p
  rw [ws]
  by_cases hlt : i < p
  · have e1 : i - p = 0 := by omega
    have e2 : i + 1 - p = 0 := by omega
    have e3 : 0 + p = i + 1 := by omega
    simp only [hlt, e1, e2, e3, if_true, TZ_succ]
    simp [TZ]
  · have e2 : i + 1 - p = (i - p) + 1 := by omega
    have e3 : i - p + 1 + p = i + 1 := by omega
    simp only [hlt, e2, e3, if_false, TZ_succ]
    ring

/-- **SMA over ℤ**: the window sum divided by the period, truncated toward zero -/
theorem sma_int (x : Nat → Nat → Int) (p : Nat) (hp : 1 ≤ p) (i : Nat) (hi : p - 1 ≤ i) :
    den x (sma p (input 0)) i = Int.tdiv (((List.range p).map (fun j => x 0 (i + 1 - p + j))).sum) p := by
  have h := movingSum_int x p hp i hi
  simp only [sma, den] at h ⊢
  rw [h]
  rfl

/-- **Typical price over ℤ** = (high + low + close) / 3 truncated -/
theorem typicalPrice_int (x : Nat → Nat → Int) (i : Nat) :
    den x (typicalPrice (input 0) (input 1) (input 2)) i = Int.tdiv (x 0 i + x 1 i + x 2 i) 3 := rfl

/-- **Weighted close over ℤ** = (high + low + 2·close) / 4 truncated -/
theorem weightedClose_int (x : Nat → Nat → Int) (i : Nat) :
    den x (weightedClose (input 0) (input 1) (input 2)) i = Int.tdiv (x 0 i + x 1 i + x 2 i * 2) 4 := rfl

/-! ### moving extrema over ℤ: the sliding search tree holds exactly the window -/

theorem cmpA_lawful_int : Bst.Lawful (Ind.cmpA : Cmp Int) :=
  ⟨fun a b => by simp [Ind.cmpA, Arith.le], fun a b => by simp [Ind.cmpA, Arith.lt], fun a b => by simp [Ind.cmpA, Arith.beq]⟩

/-- in a sorted list every element is below the last one -/
theorem sorted_le_getLastZ (l : List Int) (hs : l.Pairwise (· ≤ ·)) (z : Int) (hz : l.getLast? = some z) : ∀ a ∈ l, a ≤ z := by
  induction l with
  | nil => simp at hz
  | cons x t ih =>
    intro a ha
    cases t with
    | nil => simp at hz ha; subst hz; subst ha; exact le_refl _
    | cons y u =>
      rw [List.getLast?_cons_cons] at hz
      rcases List.mem_cons.mp ha with rfl | ha
      · have hz' : z ∈ y :: u := List.mem_of_getLast? hz
        exact (List.pairwise_cons.mp hs).1 z hz'
      · exact ih (List.pairwise_cons.mp hs).2 hz a ha

/-- **MovingMax over ℤ**: for i ≥ p − 1 the value is a member of the window ending at i and no member exceeds it -/
theorem movingMax_int (x : Nat → Nat → Int) (p : Nat) (hp : 1 ≤ p) (i : Nat) (hi : p - 1 ≤ i) :
    den x (movingMax p (input 0)) i ∈ SigG.windowG p (x 0) i ∧
    ∀ y ∈ SigG.windowG p (x 0) i, y ≤ den x (movingMax p (input 0)) i := by
  have hs := SigG.ext_state cmpA_lawful_int (Bst.maxD (zero : Int)) (fun m => x 0 m) p hp (i + 1)
  simp only [scanSt2] at hs
  obtain ⟨ho, hperm, _⟩ := hs
  rw [SigG.lastK_window (fun m => x 0 m) p i (by omega)] at hperm
  have hden : den x (movingMax p (input 0)) i =
      Bst.maxD zero (bstStep (Bst.maxD (zero : Int)) p
        (scanSt2 (bstStep (Bst.maxD (zero : Int)) p) (.nil, 0) (fun m => x 0 m) (fun k => if k < p then zero else x 0 (k - p)) i)
        (x 0 i) (if i < p then zero else x 0 (i - p))).1.1 := by
    simp only [movingMax, den, Sig.offD, Sig.off, Option.getD_some, Nat.zero_add, Nat.sub_zero, scanOut2]
    rfl
  rw [hden]
  set t := (bstStep (Bst.maxD (zero : Int)) p
        (scanSt2 (bstStep (Bst.maxD (zero : Int)) p) (.nil, 0) (fun m => x 0 m) (fun k => if k < p then zero else x 0 (k - p)) i)
        (x 0 i) (if i < p then zero else x 0 (i - p))).1.1 with ht
  have hsorted := (Bst.ordered_iff_sorted t).mp ho
  have hne : t.toList ≠ [] := by
    intro e
    have : (SigG.windowG p (x 0) i).length = 0 := by rw [← hperm.length_eq, e]; rfl
    simp [SigG.windowG] at this; omega
  obtain ⟨z, hz⟩ : ∃ z, t.toList.getLast? = some z := by
    cases h : t.toList.getLast? with
    | none => exact absurd (List.getLast?_eq_none_iff.mp h) hne
    | some z => exact ⟨z, rfl⟩
  have hmax : Bst.maxD zero t = z := by simp [Bst.maxD, Bst.max?_eq_getLast, hz]
  rw [hmax]
  refine ⟨hperm.mem_iff.mp (List.mem_of_getLast? hz), fun y hy => ?_⟩
  exact sorted_le_getLastZ _ hsorted z hz y (hperm.mem_iff.mpr hy)

/-- **MovingMin over ℤ**: a member of the window ending at i, below every member -/
theorem movingMin_int (x : Nat → Nat → Int) (p : Nat) (hp : 1 ≤ p) (i : Nat) (hi : p - 1 ≤ i) :
    den x (movingMin p (input 0)) i ∈ SigG.windowG p (x 0) i ∧
    ∀ y ∈ SigG.windowG p (x 0) i, den x (movingMin p (input 0)) i ≤ y := by
  have hs := SigG.ext_state cmpA_lawful_int (Bst.minD (zero : Int)) (fun m => x 0 m) p hp (i + 1)
  simp only [scanSt2] at hs
  obtain ⟨ho, hperm, _⟩ := hs
  rw [SigG.lastK_window (fun m => x 0 m) p i (by omega)] at hperm
  have hden : den x (movingMin p (input 0)) i =
      Bst.minD zero (bstStep (Bst.minD (zero : Int)) p
        (scanSt2 (bstStep (Bst.minD (zero : Int)) p) (.nil, 0) (fun m => x 0 m) (fun k => if k < p then zero else x 0 (k - p)) i)
        (x 0 i) (if i < p then zero else x 0 (i - p))).1.1 := by
    simp only [movingMin, den, Sig.offD, Sig.off, Option.getD_some, Nat.zero_add, Nat.sub_zero, scanOut2]
    rfl
  rw [hden]
  set t := (bstStep (Bst.minD (zero : Int)) p
        (scanSt2 (bstStep (Bst.minD (zero : Int)) p) (.nil, 0) (fun m => x 0 m) (fun k => if k < p then zero else x 0 (k - p)) i)
        (x 0 i) (if i < p then zero else x 0 (i - p))).1.1 with ht
  have hsorted := (Bst.ordered_iff_sorted t).mp ho
  cases hl : t.toList with
  | nil =>
    have : (SigG.windowG p (x 0) i).length = 0 := by rw [← hperm.length_eq, hl]; rfl
    simp [SigG.windowG] at this; omega
  | cons z u =>
    have hmin : Bst.minD zero t = z := by simp [Bst.minD, Bst.min?_eq_head, hl]
    rw [hmin]
    rw [hl] at hsorted hperm
    refine ⟨hperm.mem_iff.mp (by simp), fun y hy => ?_⟩
    rcases List.mem_cons.mp (hperm.mem_iff.mpr hy) with e | e
    · exact le_of_eq e.symm
    · exact (List.pairwise_cons.mp hsorted).1 _ e

/-- **Donchian channel over ℤ**: upper and lower are the window extrema, middle = (upper + lower) / 2 truncated, and
    upper ≥ middle ≥ lower for all integer inputs, negative ones included (C15 for the integer instantiation) -/
theorem donchian_int (x : Nat → Nat → Int) (p : Nat) (i : Nat) :
    donchianChannel p (input 0 : Sig Int) = [movingMax p (input 0), divBy two (add (movingMax p (input 0)) (movingMin p (input 0))), movingMin p (input 0)] ∧
    den x (divBy two (add (movingMax p (input 0)) (movingMin p (input 0)))) i =
      Int.tdiv (den x (movingMax p (input 0)) i + den x (movingMin p (input 0)) i) 2 :=
  ⟨rfl, rfl⟩

theorem donchian_ordered_int (x : Nat → Nat → Int) (p : Nat) (hp : 1 ≤ p) (i : Nat) (hi : p - 1 ≤ i) :
    den x (movingMin p (input 0)) i ≤ Int.tdiv (den x (movingMax p (input 0)) i + den x (movingMin p (input 0)) i) 2 ∧
    Int.tdiv (den x (movingMax p (input 0)) i + den x (movingMin p (input 0)) i) 2 ≤ den x (movingMax p (input 0)) i := by
  obtain ⟨hmaxmem, hmaxub⟩ := movingMax_int x p hp i hi
  obtain ⟨hminmem, hminlb⟩ := movingMin_int x p hp i hi
  have hle : den x (movingMin p (input 0)) i ≤ den x (movingMax p (input 0)) i := hmaxub _ hminmem
  generalize den x (movingMax p (input 0)) i = U at *
  generalize den x (movingMin p (input 0)) i = L at *
  by_cases h0 : 0 ≤ U + L
  · rw [Int.tdiv_eq_ediv_of_nonneg h0]
    omega
  · have h1 : 0 ≤ -(U + L) := by omega
    have e : Int.tdiv (U + L) 2 = -((-(U + L)) / 2) := by
      rw [← Int.tdiv_eq_ediv_of_nonneg h1, Int.neg_tdiv, Int.neg_neg]
    rw [e]
    omega

/-- the registry entries the INDI/INDZ run drives are these terms -/
example (p : Nat) : (lookup (α := Int) "Sma" [p] []).map (·.outs) = some [sma p (input 0)] := rfl

/-- non-vacuity / a worked value: SMA(3) of 1,2,4,7,11 at position 4 is ⌊22/3⌋ = 7 -/
example : den (fun _ i => ([1, 2, 4, 7, 11] : List Int).getD i 0) (sma 3 (input 0)) 4 = 7 := by decide

end C01
