import Lean
/-
  `#audit_module M` prints, for every theorem declared in module `M`, the axioms it depends on:
  one line `AUDIT <name> [ax1, ax2, …]`.
-/
open Lean Elab Command

elab "#audit_module " m:ident : command => do
  let env ← getEnv
  let some idx := env.getModuleIdx? m.getId | throwError "unknown module {m.getId}"
  let mut names : Array Name := #[]
  for (n, ci) in env.constants.map₁.toList do
    if env.getModuleIdxFor? n == some idx then
      match ci with
      | .thmInfo _ =>
        if !n.isInternal then names := names.push n
      | _ => pure ()
  let sorted := names.qsort (fun a b => a.toString < b.toString)
  for n in sorted do
    let axs ← collectAxioms n
    let axsS := ", ".intercalate (axs.toList.map toString)
    logInfo m!"AUDIT {n} [{axsS}]"
