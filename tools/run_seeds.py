#!/usr/bin/env python3
"""Re-validate the seeded changes: apply each /verif/seeded/<ID>_m<k>/patch.diff to /repo, run the check(s) of its property,
revert, and report which checks detect it.  /repo must be clean.  usage: run_seeds.py [ID-prefix ...]"""
import sys, os, json, subprocess, glob
ROOT = os.path.dirname(os.path.dirname(os.path.abspath(__file__)))
REPO = os.environ.get('VERIF_REPO', '/repo')
ENV = dict(os.environ, GOFLAGS='-mod=mod', GOPROXY='off', GOSUMDB='off', GOTOOLCHAIN='local')
EXTRA = {'C13_r6m2': ['C10'], 'C09_r5m3': ['C13'], 'C09_r5m2': ['C14'], 'C15_r5m1': ['C17'], 'C03_r5m1': ['C12'], 'C03_r5m2': ['C13'], 'C03_r5m3': ['C13'], 'C08_r5m1': ['C03', 'C16'], 'C10_r5m3': ['C11'], 'C01_r5m1': ['C16'], 'C01_r5m3': ['C16'], 'C12_r5m1': ['C19'], 'C12_r5m3': ['C10'], 'C07_m2': ['C09'], 'C05_m2': ['C07'], 'C02_r2m3': ['C09'], 'C04_r2m2': ['C05'], 'C01_r2m3': ['C02'], 'C09_r3m3': ['C11'], 'C18_r4m2': ['C11'], 'C18_r4m3': ['C11']}


def sh(cmd, cwd=ROOT, timeout=3600):
    p = subprocess.run(cmd, shell=True, cwd=cwd, env=ENV, capture_output=True, text=True, timeout=timeout)
    return p.returncode, p.stdout + p.stderr


def main():
    want = sys.argv[1:]
    rc, out = sh('git -C ' + REPO + ' status --porcelain')
    if out.strip():
        print(REPO + ' is not clean'); return 2
    rows = []
    for d in sorted(glob.glob(os.path.join(ROOT, 'seeded', '*'))):
        name = os.path.basename(d)
        if not os.path.isdir(d):
            continue
        if want and not any(name.startswith(w) for w in want):
            continue
        prop = name.split('_')[0]
        rc, out = sh(('git -C ' + REPO + ' apply %s') % os.path.join(d, 'patch.diff'))
        if rc != 0:
            rows.append((name, 'patch-does-not-apply')); continue
        try:
            res = {}
            for cid in [prop] + EXTRA.get(name, []):
                rc, out = sh('./check %s' % cid)
                v = [l for l in out.splitlines() if l.startswith('VIOLATION')]
                res[cid] = 'exit=%d violations=%d%s' % (rc, len(v), ' (no-failing-input-found only)' if v and all('no-failing-input-found' in l for l in v) else '')
        finally:
            sh('git -C ' + REPO + ' checkout -- .')
        rows.append((name, res))
        print(name, res, flush=True)
    missed = [n for n, r in rows if isinstance(r, dict) and not any(x.startswith('exit=1') for x in r.values())]
    missed += [n for n, r in rows if not isinstance(r, dict)]
    print('seeds:', len(rows), 'not detected:', missed)
    json.dump(rows, open(os.path.join(ROOT, 'seeded', 'LAST_RUN.json'), 'w'), indent=1)
    return 0


sys.exit(main())
