#!/bin/bash
# Build everything the checks need, offline, from files on disk.
set -e
cd "$(dirname "$0")/.."
export GOFLAGS=-mod=mod GOPROXY=off GOSUMDB=off GOTOOLCHAIN=local
(cd lean && lake build 2>&1 | tail -5)
mkdir -p harness/bin evidence replays
(cd harness && go build -tags verif -o bin/ivharness .)
echo setup-ok
