"""Catalog of the base strategies: configurations, the documented indicator + price fields, and the
documented decision rule (Python transcription of the doc comments, used as the C06 oracle)."""
from catalog import P, two_sorted, three_sorted, MA_KINDS

B, S, H = 1, -1, 0


def gt(a, b):
    return B if a > b else (S if b > a else H)


def sign(v):
    return B if v > 0 else (S if v < 0 else H)


def cross(prev, cur):
    if cur >= 0 and prev < 0:
        return B
    if cur <= 0 and prev > 0:
        return S
    return H


def trima_idle(p):
    p1, p2 = (p // 2, p // 2 + 1) if p % 2 == 0 else ((p + 1) // 2, (p + 1) // 2)
    return p1 + p2 - 2


# name: dict(cfg(rng,hi)->(ns,fs), default (ns,fs), idle(ns), inds: list of (IND name, ns-fn, fs-fn, fields),
#            rule(vals, snap, prevvals) -> action, where vals = flat list of indicator outputs at this position,
#            eps quantities for the "equal within rounding" exemption: margin(vals, snap, prevvals) -> smallest |difference| compared)
SCAT = {}


def reg(name, **kw):
    SCAT[name] = kw


def _margin_pairs(*pairs):
    return min([abs(a - b) for a, b in pairs] + [float('inf')])


reg('Alligator', cfg=lambda r, h: ([P(r, h), P(r, h), P(r, h)], []), default=([13, 8, 5], []),
    idle=lambda ns: max(ns),
    inds=[('Smma', lambda ns: [ns[0]], 'c'), ('Smma', lambda ns: [ns[1]], 'c'), ('Smma', lambda ns: [ns[2]], 'c')],
    rule=lambda v, s, pv: B if (v[2] > v[1] and v[2] > v[0]) else (S if (v[2] < v[1] and v[2] < v[0]) else H),
    margin=lambda v, s, pv: _margin_pairs((v[2], v[1]), (v[2], v[0])))
reg('Apo', cfg=lambda r, h: (list(two_sorted(r, h)), []), default=([14, 30], []), idle=lambda ns: ns[1],
    inds=[('Apo', lambda ns: ns, 'c')], needs_prev=True,
    rule=lambda v, s, pv: cross(pv[0], v[0]), margin=lambda v, s, pv: min(abs(v[0]), abs(pv[0])))
reg('Aroon', cfg=lambda r, h: ([P(r, h)], []), default=([25], []), idle=lambda ns: ns[0] - 1,
    inds=[('Aroon', lambda ns: ns, 'hl')], rule=lambda v, s, pv: gt(v[0], v[1]), margin=lambda v, s, pv: abs(v[0] - v[1]))
reg('Bop', cfg=lambda r, h: ([], []), default=([], []), idle=lambda ns: 0,
    inds=[('Bop', lambda ns: [], 'ohlc')], rule=lambda v, s, pv: sign(v[0]), margin=lambda v, s, pv: abs(v[0]))
reg('Cci', cfg=lambda r, h: ([P(r, h)], []), default=([20], []), idle=lambda ns: 2 * ns[0] - 2,
    inds=[('Cci', lambda ns: ns, 'hlc')],
    rule=lambda v, s, pv: B if v[0] >= 100 else (S if v[0] <= -100 else H),
    margin=lambda v, s, pv: min(abs(v[0] - 100), abs(v[0] + 100)))
def _dema_cfg(r, h):
    if r.random() < 0.5:
        return (list(two_sorted(r, h)), [])
    # each DEMA with its own two EMA periods [p1, p2, q1, q2]; the first DEMA warms up no later than the second
    p1, q1, p2, q2 = (P(r, h) for _ in range(4))
    if p1 + q1 > p2 + q2:
        p1, q1, p2, q2 = p2, q2, p1, q1
    return ([p1, p2, q1, q2], [])


reg('Dema', cfg=_dema_cfg, default=([5, 35], []),
    idle=lambda ns: ns[1] + (ns[3] if len(ns) > 3 else ns[1]) - 2,
    inds=[('Dema', lambda ns: [ns[0], ns[2] if len(ns) > 3 else ns[0]], 'c'), ('Dema', lambda ns: [ns[1], ns[3] if len(ns) > 3 else ns[1]], 'c')],
    rule=lambda v, s, pv: gt(v[0], v[1]), margin=lambda v, s, pv: abs(v[0] - v[1]))
reg('Envelope', cfg=lambda r, h: ([r.choice([0, 1]), P(r, h)], [r.choice([0.0, 5.0, 20.0, 2.5, 0.5, 0.25, 1.0, 0.99])]), default=([0, 20], [20.0]),
    idle=lambda ns: ns[1] - 1, inds=[('Envelope', lambda ns: ns, 'c')], pass_fs=True,
    rule=lambda v, s, pv: B if s['c'] < v[2] else (S if s['c'] > v[0] else H),
    margin=lambda v, s, pv: min(abs(s['c'] - v[2]), abs(s['c'] - v[0])))
reg('GoldenCross', cfg=lambda r, h: (list(two_sorted(r, h)), []), default=([50, 200], []), idle=lambda ns: ns[1] - 1,
    inds=[('Ema', lambda ns: [ns[0]], 'c'), ('Ema', lambda ns: [ns[1]], 'c')],
    rule=lambda v, s, pv: gt(v[0], v[1]), margin=lambda v, s, pv: abs(v[0] - v[1]))
reg('Kama', cfg=lambda r, h: ([P(r, h), P(r, 5), P(r, 30)], []), default=([10, 2, 30], []), idle=lambda ns: ns[0],
    inds=[('Kama', lambda ns: ns, 'c')], rule=lambda v, s, pv: gt(s['c'], v[0]), margin=lambda v, s, pv: abs(s['c'] - v[0]))
reg('Kdj', cfg=lambda r, h: ([P(r, h), P(r, 6), P(r, 6)], []), default=([9, 3, 3], []), idle=lambda ns: sum(ns) - 3,
    inds=[('Kdj', lambda ns: ns, 'hlc')],
    rule=lambda v, s, pv: B if (v[2] - v[0] > 0 and v[2] - v[1] > 0) else (S if (v[2] - v[0] < 0 and v[2] - v[1] < 0) else H),
    margin=lambda v, s, pv: min(abs(v[2] - v[0]), abs(v[2] - v[1])))
reg('Macd', cfg=lambda r, h: (lambda a: ([a[0], a[1], P(r, h)], []))(two_sorted(r, h)), default=([12, 26, 9], []),
    idle=lambda ns: ns[1] + ns[2] - 2, inds=[('Macd', lambda ns: ns, 'c')],
    rule=lambda v, s, pv: B if (v[0] > v[1] and v[0] < 0) else (S if (v[1] > v[0] and v[0] > 0) else H),
    margin=lambda v, s, pv: min(abs(v[0] - v[1]), abs(v[0])))
reg('Qstick', cfg=lambda r, h: ([P(r, h)], []), default=([20], []), idle=lambda ns: ns[0],
    inds=[('Qstick', lambda ns: ns, 'oc')], needs_prev=True,
    rule=lambda v, s, pv: cross(pv[0], v[0]), margin=lambda v, s, pv: min(abs(v[0]), abs(pv[0])))
# (the two periods in either order: the strategy aligns both averages to the longer one, whichever it is)
reg('Smma', cfg=lambda r, h: ((lambda p: p[::-1] if r.random() < 0.35 else p)(list(two_sorted(r, h))), []), default=([20, 50], []), idle=lambda ns: max(ns),
    inds=[('Smma', lambda ns: [ns[0]], 'c'), ('Smma', lambda ns: [ns[1]], 'c')],
    rule=lambda v, s, pv: gt(v[0], v[1]), margin=lambda v, s, pv: abs(v[0] - v[1]))
reg('Trima', cfg=lambda r, h: (list(two_sorted(r, h)), []), default=([20, 50], []), idle=lambda ns: trima_idle(ns[1]),
    inds=[('Trima', lambda ns: [ns[0]], 'c'), ('Trima', lambda ns: [ns[1]], 'c')],
    rule=lambda v, s, pv: gt(v[0], v[1]), margin=lambda v, s, pv: abs(v[0] - v[1]))
reg('TripleMovingAverageCrossover', cfg=lambda r, h: (list(three_sorted(r, h)), []), default=([21, 50, 200], []),
    idle=lambda ns: ns[2] - 1,
    inds=[('Ema', lambda ns: [ns[0]], 'c'), ('Ema', lambda ns: [ns[1]], 'c'), ('Ema', lambda ns: [ns[2]], 'c')],
    rule=lambda v, s, pv: B if (v[0] > v[1] and v[0] > v[2]) else (S if (v[0] < v[1] and v[0] < v[2]) else H),
    margin=lambda v, s, pv: _margin_pairs((v[0], v[1]), (v[0], v[2])))
reg('Trix', cfg=lambda r, h: ([P(r, h)], []), default=([15], []), idle=lambda ns: 3 * ns[0] - 2,
    inds=[('Trix', lambda ns: ns, 'c')], rule=lambda v, s, pv: sign(v[0]), margin=lambda v, s, pv: abs(v[0]))
reg('Tsi', cfg=lambda r, h: ([P(r, h), P(r, h), P(r, h)], []), default=([25, 13, 12], []),
    idle=lambda ns: (ns[0] - 1) + (ns[1] - 1) + 1 + (ns[2] - 1),
    inds=[('Tsi', lambda ns: ns[:2], 'c')], signal_ema=2,
    rule=lambda v, s, pv: B if (v[0] > 0 and v[0] > v[1]) else (S if (v[0] < 0 and v[0] < v[1]) else H),
    margin=lambda v, s, pv: min(abs(v[0]), abs(v[0] - v[1])))
reg('Vwma', cfg=lambda r, h: ([P(r, h)], []), default=([20], []), idle=lambda ns: ns[0] - 1,
    inds=[('Sma', lambda ns: ns, 'c'), ('Vwma', lambda ns: ns, 'cv')],
    rule=lambda v, s, pv: gt(v[1], v[0]), margin=lambda v, s, pv: abs(v[0] - v[1]))
reg('VwmaG', cfg=lambda r, h: ([P(r, h), P(r, h)], []), default=([20, 20], []), idle=lambda ns: max(ns[0], ns[1]) - 1,
    inds=[('Sma', lambda ns: [ns[0]], 'c'), ('Vwma', lambda ns: [ns[1]], 'cv')],
    rule=lambda v, s, pv: gt(v[1], v[0]), margin=lambda v, s, pv: abs(v[0] - v[1]))
reg('WeightedClose', cfg=lambda r, h: ([P(r, h)], []), default=([20], []), idle=lambda ns: ns[0] - 1,
    inds=[('WeightedClose', lambda ns: [], 'hlc')], sma_of_first=0,
    rule=lambda v, s, pv: B if v[0] > v[1] else S, margin=lambda v, s, pv: abs(v[0] - v[1]))
reg('AwesomeOscillator', cfg=lambda r, h: (list(two_sorted(r, h)), []), default=([5, 34], []), idle=lambda ns: ns[1] - 1,
    inds=[('AwesomeOscillator', lambda ns: ns, 'hl')], rule=lambda v, s, pv: sign(v[0]), margin=lambda v, s, pv: abs(v[0]))
reg('Rsi', cfg=lambda r, h: ([P(r, h)], r.choice([[30.0, 70.0], [45.0, 55.0], [50.0, 50.0], [20.0, 80.0], [60.0, 40.0], [0.0, 100.0], [0.0, 55.0], [45.0, 0.0], [100.0, 0.0], [-1.0, 101.0], [30.0, 101.0], [-1.0, 70.0], [100.0, 101.0], [-5.0, 0.0]])), default=([14], [30.0, 70.0]),
    idle=lambda ns: ns[0], inds=[('Rsi', lambda ns: ns, 'c')], uses_fs=True,
    rule=lambda v, s, pv, fs: B if v[0] <= fs[0] else (S if v[0] >= fs[1] else H),
    margin=lambda v, s, pv, fs: min(abs(v[0] - fs[0]), abs(v[0] - fs[1])))
reg('StochasticRsi', cfg=lambda r, h: ([P(r, h)], r.choice([[0.8, 0.2], [0.2, 0.8], [0.4, 0.6], [0.5, 0.5], [0.1, 0.3], [0.0, 1.0], [0.0, 0.9], [0.1, 0.0], [1.0, 0.0], [-0.5, 1.5], [0.2, 1.01], [-0.01, 0.8], [1.0, 1.5]])), default=([14], [0.8, 0.2]),
    idle=lambda ns: 2 * ns[0] - 1, inds=[('StochasticRsi', lambda ns: ns, 'c')], uses_fs=True,
    rule=lambda v, s, pv, fs: B if v[0] <= fs[0] else (S if v[0] >= fs[1] else H),
    margin=lambda v, s, pv, fs: min(abs(v[0] - fs[0]), abs(v[0] - fs[1])))
reg('BollingerBands', cfg=lambda r, h: ([P(r, h)], []), default=([20], []), idle=lambda ns: ns[0] - 1,
    inds=[('BollingerBands', lambda ns: ns, 'c')],
    rule=lambda v, s, pv: B if s['c'] > v[0] else (S if v[2] > s['c'] else H),
    margin=lambda v, s, pv: min(abs(s['c'] - v[0]), abs(s['c'] - v[2])))
reg('SuperTrend', cfg=lambda r, h: ([r.choice(MA_KINDS), P(r, h)], [r.choice([2.5, 1.0, 3.0])]), default=([5, 14], [2.5]),
    idle=None, inds=[('SuperTrend', lambda ns: ns, 'hlc')], pass_fs=True,
    rule=lambda v, s, pv: B if v[0] < s['c'] else (S if v[0] > s['c'] else H), margin=lambda v, s, pv: abs(v[0] - s['c']))
reg('ChaikinMoneyFlow', cfg=lambda r, h: ([P(r, h)], []), default=([20], []), idle=lambda ns: ns[0] - 1,
    inds=[('Cmf', lambda ns: ns, 'hlcv')], rule=lambda v, s, pv: sign(v[0]), margin=lambda v, s, pv: abs(v[0]))
reg('EaseOfMovement', cfg=lambda r, h: ([P(r, h)], []), default=([14], []), idle=lambda ns: ns[0],
    inds=[('Emv', lambda ns: ns, 'hlv')], rule=lambda v, s, pv: sign(v[0]), margin=lambda v, s, pv: abs(v[0]))
reg('ForceIndex', cfg=lambda r, h: ([P(r, h)], []), default=([13], []), idle=lambda ns: ns[0],
    inds=[('Fi', lambda ns: ns, 'cv')], rule=lambda v, s, pv: sign(v[0]), margin=lambda v, s, pv: abs(v[0]))
reg('MoneyFlowIndex', cfg=lambda r, h: ([P(r, h)], r.choice([[80.0, 20.0], [55.0, 45.0], [50.0, 50.0], [60.0, 40.0], [30.0, 70.0], [100.0, 0.0], [0.0, 45.0], [55.0, 0.0], [0.0, 100.0], [101.0, -1.0], [80.0, -1.0], [101.0, 20.0]])), default=([14], [80.0, 20.0]),
    idle=lambda ns: ns[0], inds=[('Mfi', lambda ns: ns, 'hlcv')], uses_fs=True,
    rule=lambda v, s, pv, fs: S if v[0] >= fs[0] else (B if v[0] <= fs[1] else H),
    margin=lambda v, s, pv, fs: min(abs(v[0] - fs[0]), abs(v[0] - fs[1])))
reg('NegativeVolumeIndex', cfg=lambda r, h: ([P(r, h)], [r.choice([1000.0, 100.0])]), default=([255], [1000.0]),
    idle=lambda ns: ns[0], inds=[('Nvi', lambda ns: [], 'cv')], pass_fs=True, signal_ema=0,
    rule=lambda v, s, pv: B if v[0] < v[1] else (S if v[0] > v[1] else H), margin=lambda v, s, pv: abs(v[0] - v[1]))
reg('WeightedAveragePrice', cfg=lambda r, h: ([P(r, h)], []), default=([14], []), idle=lambda ns: ns[0] - 1,
    inds=[('Vwap', lambda ns: ns, 'cv')], rule=lambda v, s, pv: gt(v[0], s['c']), margin=lambda v, s, pv: abs(v[0] - s['c']))
reg('BuyAndHold', cfg=lambda r, h: ([], []), default=([], []), idle=lambda ns: 0, inds=[], rule=None, margin=None)
# TripleRsi: the documented rule looks at the last DownDays RSI readings (window rule: `hist`)
def _triple_rsi(at, snap, fs, ns):
    """at(k) -> [rsi, sma] at position pos-k.  Documented: Sell when RSI is above SellAt; Buy when RSI is below BuyAt,
    the RSI reading is DOWN for the DownDays-th period in a row, the reading DownDays-1 periods ago was below BuySignalAt
    and the close is above the moving average."""
    dd = ns[2]
    rs = [at(k)[0] for k in range(dd - 1, -1, -1)]         # oldest … newest
    rsi, sma = at(0)
    if rsi > fs[2]:
        return S
    if rsi >= fs[1]:
        return H
    if any(not (rs[j] > rs[j + 1]) for j in range(dd - 1)):
        return H
    if rs[0] >= fs[0]:
        return H
    if snap['c'] <= sma:
        return H
    return B


def _triple_rsi_margin(at, snap, fs, ns):
    dd = ns[2]
    rs = [at(k)[0] for k in range(dd - 1, -1, -1)]
    rsi, sma = at(0)
    return min([abs(rsi - fs[2]), abs(rsi - fs[1]), abs(rs[0] - fs[0]), abs(snap['c'] - sma)] +
               [abs(rs[j] - rs[j + 1]) for j in range(dd - 1)])


reg('TripleRsi', cfg=lambda r, h: ((lambda p, sp: [p, max(sp, p + 1), 1 + r.randrange(0, 4)])(P(r, 6), P(r, h)),
                                    [r.choice([60.0, 70.0, 10.0, 35.0]), r.choice([30.0, 40.0, 55.0]), r.choice([50.0, 60.0, 20.0])]),
    default=([5, 200, 3], [60.0, 30.0, 50.0]), idle=lambda ns: ns[1] - 1,
    inds=[('Rsi', lambda ns: [ns[0]], 'c'), ('Sma', lambda ns: [ns[1]], 'c')],
    hist=lambda ns: ns[2], rule=_triple_rsi, margin=_triple_rsi_margin)
