"""C16 (stream helpers) and C17 (ring buffer, search tree)."""
import random, json, collections
import vlib
from vlib import il


# ------------------------------------------------------------------ C16
def py_helper(name, ps, ins):
    """Slice counterpart (the property's own oracle). Returns (outputs list-of-lists, consumed or None)."""
    p = lambda k: ps[k] if k < len(ps) else 0
    a = ins[0] if len(ins) > 0 else []
    b = ins[1] if len(ins) > 1 else []
    c = ins[2] if len(ins) > 2 else []
    full = [len(a)]
    if name in ('Pipe', 'Buffered', 'Waitable'):
        return [list(a)], full
    if name == 'Map':
        return [[x * p(0) + p(1) for x in a]], full
    if name == 'MapWithPrevious':
        out, prev = [], p(0)
        for x in a:
            prev = prev * p(1) + x
            out.append(prev)
        return [out], full
    if name == 'Filter':
        return [[x for x in a if x % 2 == 0]], full
    if name == 'Skip':
        return [a[p(0):]], full
    if name == 'Head':
        return [a[:p(0)]], [min(p(0), len(a))]
    if name == 'First':
        return [a[:p(0)]], full
    if name == 'Last':
        return [a[max(0, len(a) - p(0)):]], full
    if name == 'Shift':
        return [[p(1)] * p(0) + a], full
    if name == 'Count':
        return [[p(0) + i for i in range(len(a))]], full
    if name == 'Since':
        out, cnt = [], 0
        for i, x in enumerate(a):
            cnt = cnt + 1 if i > 0 and a[i - 1] == x else 0
            out.append(cnt)
        return [out], full
    if name == 'Echo':
        last, count = p(0), p(1)
        mem = a[-last:] if len(a) >= last else (a + [0] * last)[:last]
        return [a + mem * count], full
    if name == 'Seq':
        return [list(range(p(0), p(1), p(2)))], []
    if name == 'Duplicate':
        return [list(a) for _ in range(p(0))], full
    if name == 'Operate':
        return [[x * 3 + y for x, y in zip(a, b)]], [len(a), len(b)]
    if name == 'Operate3':
        return [[x * 5 + y * 3 + z for x, y, z in zip(a, b, c)]], [len(a), len(b), len(c)]
    if name == 'Add':
        return [[x + y for x, y in zip(a, b)]], [len(a), len(b)]
    if name == 'Subtract':
        return [[x - y for x, y in zip(a, b)]], [len(a), len(b)]
    if name == 'Multiply':
        return [[x * y for x, y in zip(a, b)]], [len(a), len(b)]
    if name == 'Change':
        k = p(0)
        return [[a[i + k] - a[i] for i in range(max(0, len(a) - k))]], full
    if name == 'IncrementBy':
        return [[x + p(0) for x in a]], full
    if name == 'DecrementBy':
        return [[x - p(0) for x in a]], full
    if name == 'MultiplyBy':
        return [[x * p(0) for x in a]], full
    if name == 'Abs':
        return [[abs(x) for x in a]], full
    if name == 'Sign':
        return [[(x > 0) - (x < 0) for x in a]], full
    if name == 'KeepPositives':
        return [[x if x > 0 else 0 for x in a]], full
    if name == 'KeepNegatives':
        return [[x if x < 0 else 0 for x in a]], full

    def tdiv(x, y):      # Go integer division truncates toward zero
        q = abs(x) // abs(y)
        return q if (x >= 0) == (y >= 0) else -q
    if name == 'DivideI':
        return [[tdiv(x, y) for x, y in zip(a, b)]], [len(a), len(b)]
    if name == 'DivideByI':
        return [[tdiv(x, p(0)) for x in a]], full
    if name in ('ChangeRatioI', 'ChangePercentI'):
        k = p(0)
        r = [tdiv(a[i + k] - a[i], a[i]) for i in range(max(0, len(a) - k))]
        return [[v * 100 for v in r] if name == 'ChangePercentI' else r], full
    if name == 'OperateShared':
        return [[x * 3 + x for x in a]], full
    if name == 'Operate3Shared':
        return [[x * 5 + x * 3 + z for x, z in zip(a, b)]], [len(a), len(b)]
    if name == 'Operate3SharedLast':
        return [[x * 5 + y * 3 + y for x, y in zip(a, b)]], [len(a), len(b)]
    raise KeyError(name)


ONE_IN = ['Pipe', 'Buffered', 'Waitable', 'Map', 'MapWithPrevious', 'Filter', 'Since', 'Abs', 'Sign',
          'KeepPositives', 'KeepNegatives', 'IncrementBy', 'DecrementBy', 'MultiplyBy', 'Count']
PARAM_IN = ['Skip', 'Head', 'First', 'Shift', 'Change']          # count >= 0
PARAM1_IN = ['Last', 'Duplicate']                                 # count >= 1
TWO_IN = ['Operate', 'Add', 'Subtract', 'Multiply']


def gen_vals(rng, n):
    mode = rng.randrange(4)
    if mode == 0:
        return [rng.randrange(-9, 10) for _ in range(n)]
    if mode == 1:   # runs of equal values (Since)
        out, v = [], rng.randrange(-3, 4)
        for _ in range(n):
            if rng.random() < 0.35:
                v = rng.randrange(-3, 4)
            out.append(v)
        return out
    if mode == 2:
        return [rng.randrange(-1000000, 1000000) for _ in range(n)]
    return [0] * n if rng.random() < 0.3 else list(range(1, n + 1))


def helper_case(name, ps, ins):
    return 'HELPER %s %s %s' % (name, il(ps), (';'.join(il(s) for s in ins) if ins else '_'))


def gen_c16(rng, tier):
    L = 7 if tier == 'quick' else 12
    P = 8 if tier == 'quick' else 14
    cases = []
    for name in ONE_IN:
        for n in range(L + 1):
            ps = [rng.randrange(-3, 4), rng.randrange(-3, 4)]
            if name == 'MapWithPrevious':
                ps[1] = rng.randrange(-1, 2)     # prev*k + x: |k| <= 1 keeps the fold inside int64
            cases.append((name, ps, [gen_vals(rng, n)]))
    for name in PARAM_IN:
        for n in range(L + 1):
            for k in range(P + 1):
                cases.append((name, [k, rng.randrange(-5, 6)], [gen_vals(rng, n)]))
    for name in PARAM1_IN:
        for n in range(L + 1):
            for k in range(1, P + 1):
                if name == 'Duplicate' and k > 5:
                    continue
                cases.append((name, [k], [gen_vals(rng, n)]))
    for n in range(L + 1):
        for last in range(1, 5):
            for count in range(0, 3):
                cases.append(('Echo', [last, count], [gen_vals(rng, n)]))
    for name in TWO_IN:
        for n in range(L + 1):
            for m in range(L + 1):
                cases.append((name, [], [gen_vals(rng, n), gen_vals(rng, m)]))
    lens3 = range(0, 5) if tier == 'quick' else range(0, 8)
    for n in lens3:
        for m in lens3:
            for q in lens3:
                cases.append(('Operate3', [], [gen_vals(rng, n), gen_vals(rng, m), gen_vals(rng, q)]))
    for f in range(-3, 4):
        for t in range(-3, 8):
            for inc in (1, 2, 3):
                cases.append(('Seq', [f, t, inc], []))
    # dividing helpers on an integer element type (non-zero divisors: integer division by zero panics in Go)
    def nz(n):
        return [v if v != 0 else 7 for v in (rng.choice([1, -1]) * rng.randrange(1, 400) for _ in range(n))]
    for n in range(L + 1):
        for m in range(L + 1):
            cases.append(('DivideI', [], [[rng.randrange(-5000, 5000) for _ in range(n)], nz(m)]))
        for k in (1, 2, 3, 7, -4):
            cases.append(('DivideByI', [k], [[rng.randrange(-5000, 5000) for _ in range(n)]]))
        for k in range(0, 4):
            cases.append(('ChangeRatioI', [k], [nz(n)]))
            cases.append(('ChangePercentI', [k], [nz(n)]))
    # integers that no float64 can hold (beyond 2^53): helpers that copy, compare, negate or add values must keep every bit
    def wide(n):
        return [rng.choice([1, -1]) * (2 ** rng.choice([53, 54, 60]) + rng.randrange(1, 1000)) if rng.random() < 0.8 else rng.randrange(-5, 6) for _ in range(n)]
    for name in ['Abs', 'Sign', 'KeepPositives', 'KeepNegatives', 'Pipe', 'Buffered', 'Since', 'IncrementBy', 'DecrementBy', 'MultiplyBy', 'Filter', 'Count']:
        for n in (1, 3, 6):
            cases.append((name, [rng.randrange(-3, 4), rng.randrange(-3, 4)], [wide(n)]))
    for name in ['Skip', 'First', 'Last', 'Shift', 'Change', 'Head']:
        for n in (2, 5):
            cases.append((name, [rng.randrange(1 if name == 'Last' else 0, 3), rng.randrange(-5, 6)], [wide(n)]))     # Last: count >= 1
    for name in ['Add', 'Subtract']:
        cases.append((name, [], [wide(4), wide(5)]))
    # inputs that share one Duplicate upstream
    for n in lens3:
        cases.append(('OperateShared', [], [gen_vals(rng, n)]))
        for m in lens3:
            cases.append(('Operate3Shared', [], [gen_vals(rng, n), gen_vals(rng, m)]))
            cases.append(('Operate3SharedLast', [], [gen_vals(rng, n), gen_vals(rng, m)]))
    # random larger cases
    nrand = 300 if tier == 'quick' else 10000
    allnames = ONE_IN + PARAM_IN + PARAM1_IN + TWO_IN + ['Operate3', 'Echo']
    for _ in range(nrand):
        name = rng.choice(allnames)
        n = rng.randrange(0, 60)
        ins = [gen_vals(rng, n)]
        if name in TWO_IN:
            ins.append(gen_vals(rng, rng.randrange(0, 60)))
        if name == 'Operate3':
            ins += [gen_vals(rng, rng.randrange(0, 60)), gen_vals(rng, rng.randrange(0, 60))]
        k = rng.randrange(1, 70) if name in PARAM1_IN + ['Echo'] else rng.randrange(0, 70)
        if name == 'Duplicate':
            k = rng.randrange(1, 6)
        ps = [k, rng.randrange(0, 4)] if name not in ONE_IN else [rng.randrange(-3, 4), rng.randrange(-3, 4)]
        if name == 'MapWithPrevious':
            ps[1] = rng.randrange(-1, 2)
        cases.append((name, ps, ins))
    return cases


FLOAT_HELPERS = ['ChangeRatio', 'ChangePercent', 'Divide', 'DivideBy', 'Sqrt', 'Pow2', 'PowInv', 'RoundDigits0']


def gen_c16_float(rng, tier):
    out = []
    L = 8 if tier == 'quick' else 14
    for name in FLOAT_HELPERS:
        for n in range(L + 1):
            for k in ([0, 1, 2, 3, 5] if name in ('ChangeRatio', 'ChangePercent') else [rng.randrange(1, 9)]):
                vals = [rng.randrange(1, 64000) / 64.0 * rng.choice([1, 1, 1, -1]) for _ in range(n)]
                if name == 'Sqrt':
                    vals = [abs(v) for v in vals]
                ins = [vals]
                if name == 'Divide':
                    ins.append([rng.randrange(1, 64000) / 64.0 for _ in range(rng.randrange(0, L + 1))])
                out.append((name, [k], ins))
    special = [float('nan'), float('inf'), float('-inf'), -0.0, 0.0, 5e-324, -5e-324, 1.7976931348623157e308]
    # dividing helpers on zero, signed-zero, infinite and NaN operands: IEEE results (±Inf, NaN), never a substituted value
    # … and every other mapping helper on the same operands (a square root of a negative number, of -Inf, of -0)
    for name in ('Divide', 'ChangeRatio', 'ChangePercent', 'PowInv', 'Pow2', 'DivideBy', 'Sqrt', 'RoundDigits0'):
        for n in range(1, L + 1):
            k = rng.choice([1, 1, 2, 3]) if name in ('ChangeRatio', 'ChangePercent') else rng.randrange(1, 9)
            mix = lambda: [rng.choice([0.0, 0.0, -0.0, float('inf'), float('-inf'), float('nan'), 5e-324]) if rng.random() < 0.45
                           else rng.randrange(-640, 640) / 64.0 for _ in range(n)]
            ins = [mix()]
            if name == 'Divide':
                ins.append(mix())
            out.append((name, [k], ins))
    for name in EXACT_FLOAT:
        for n in range(L + 1):
            vals = [rng.choice(special) if rng.random() < 0.4 else rng.randrange(-64000, 64000) / 64.0 for _ in range(n)]
            ps = [rng.choice([0, 1, 3, 7, 11, 25, 999]), rng.randrange(0, 2)] if name == 'CountF' else [0]
            out.append((name, ps, [vals]))
    return out


EXACT_FLOAT = ['CountF', 'KeepPositivesF', 'KeepNegativesF', 'AbsF', 'SignF']     # no rounding involved: compared exactly


def fdiv(x, y):
    """IEEE 754 division (Python raises on a zero divisor)"""
    import math
    try:
        return x / y
    except ZeroDivisionError:
        if x != x or x == 0:
            return float('nan')
        return math.copysign(float('inf'), math.copysign(1.0, x) * math.copysign(1.0, y))


def py_helper_float(name, ps, ins):
    import math
    a = ins[0]
    k = ps[0] if ps else 0
    if name == 'CountF':
        cur = k / 10.0 * (-1 if len(ps) > 1 and ps[1] == 1 else 1)
        out = []
        for _ in a:
            out.append(cur)
            cur = cur + 1.0
        return out
    if name == 'KeepPositivesF':
        return [x if x > 0 else 0.0 for x in a]
    if name == 'KeepNegativesF':
        return [x if x < 0 else 0.0 for x in a]
    if name == 'AbsF':
        return [(-x if x < 0 else (0.0 if x == 0 else x)) for x in a]
    if name == 'SignF':
        return [1.0 if x > 0 else (-1.0 if x < 0 else 0.0) for x in a]
    if name == 'ChangeRatio':
        return [fdiv(a[i + k] - a[i], a[i]) for i in range(max(0, len(a) - k))]
    if name == 'ChangePercent':
        return [fdiv(a[i + k] - a[i], a[i]) * 100 for i in range(max(0, len(a) - k))]
    if name == 'Divide':
        return [fdiv(x, y) for x, y in zip(a, ins[1])]
    if name == 'DivideBy':
        return [x / float(k) for x in a]
    if name == 'Sqrt':
        return [(float('nan') if (x != x or x < 0) else (x if x == float('inf') else math.sqrt(x))) for x in a]
    if name == 'Pow2':
        return [x * x for x in a]
    if name == 'PowInv':
        return [fdiv(1.0, x) for x in a]
    if name == 'RoundDigits0':
        return [(x if (x != x or abs(x) == float('inf')) else math.floor(abs(x) + 0.5) * (1 if x >= 0 else -1)) for x in a]
    raise KeyError(name)


def check_c16(res, tier, replay):
    rng = random.Random(vlib.seed())
    ob = vlib.apply_obligations(res, 'C16')
    if replay:
        rep = json.load(open(replay))
        cases = [(c['name'], c['params'], c['inputs']) for c in rep.get('cases', [rep.get('case')]) if c]
        fcases = []
    else:
        corpus = load_corpus('C16')
        cases = corpus + gen_c16(rng, tier)
        fcases = gen_c16_float(rng, tier)
    lines, meta = [], {}
    for i, (name, ps, ins) in enumerate(cases):
        cid = 'h%d' % i
        lines.append(cid + ' ' + helper_case(name, ps, ins))
        meta[cid] = (name, ps, ins)
    for i, (name, ps, ins) in enumerate(fcases):
        cid = 'f%d' % i
        lines.append('%s HELPERF %s %s %s' % (cid, name, il(ps), vlib.streams(ins)))
        meta[cid] = (name, ps, ins)
    go = vlib.run_go(lines)
    model = vlib.run_model(lines)
    mism = oracle_fail = 0
    cells = set()
    per_helper = collections.Counter()
    for cid, (name, ps, ins) in meta.items():
        g, m = go.get(cid, 'missing'), model.get(cid, 'missing')
        per_helper[name] += 1
        case = {'name': name, 'params': ps, 'inputs': ins}
        if cid.startswith('f'):
            # float helper: compare streams with the tolerance rule, oracle in Python floats
            try:
                gs = vlib.parse_hex_streams(g.split(' ', 1)[1].split(' | ')[0]) if g.startswith('ok') else None
                ms = vlib.parse_hex_streams(m.split(' ', 1)[1].split(' | ')[0]) if m.startswith('ok') else None
            except Exception:
                gs = ms = None
            exp = py_helper_float(name, ps, ins)
            bad_oracle = gs is None or len(gs) > 1 or (len(exp) != (len(gs[0]) if gs else 0))
            if not bad_oracle and gs:
                for x, y in zip(gs[0], exp):
                    okc, _ = vlib.close(x, vlib.f2h(y))
                    if name in EXACT_FLOAT:
                        xv = vlib.h2f(x)
                        okc = (xv != xv and y != y) or xv == y
                    if not okc:
                        bad_oracle = True
            if bad_oracle:
                oracle_fail += 1
                res.violation({'case': case, 'go_output': g, 'model_output': m, 'expected': exp,
                               'oracle': 'slice counterpart (float)', 'line': cid})
            elif gs is None or ms is None or vlib.cmp_streams(gs, ms)[0] is not None:
                mism += 1
                res.violation({'broken': 'correspondence', 'name': 'HELPERF ' + name, 'case': case,
                               'go_output': g, 'model_output': m}, True)
            cells.add((name, min(len(ins[0]), 9), ps[0] if ps else 0))
            continue
        exp_outs, exp_cons = py_helper(name, ps, ins)
        exp_line = 'ok ' + (';'.join(il(o) for o in exp_outs) if exp_outs else '_') + ' | consumed=' + il(exp_cons)
        lens = tuple(min(len(s), 13) for s in ins)
        k = ps[0] if ps else 0
        regime = 'k>n' if ins and k > len(ins[0]) else ('k=0' if k == 0 else 'k<=n')
        cells.add((name, lens, regime))
        if g != exp_line:
            oracle_fail += 1
            res.violation({'case': case, 'go_output': g, 'expected': exp_line, 'model_output': m,
                           'oracle': 'slice counterpart + consumption of the inputs',
                           'line': cid + ' ' + helper_case(name, ps, ins)})
        elif g != m:
            mism += 1
            res.violation({'broken': 'correspondence', 'name': 'HELPER ' + name, 'case': case,
                           'go_output': g, 'model_output': m,
                           'search': 'the Go output equals the slice counterpart on this case'}, True)
    res.samples = [{'case': lines[i], 'go': go.get(lines[i].split(' ')[0])} for i in (0, len(lines) // 3, len(lines) - 1)]
    res.coverage.update({
        'evaluations': len(lines), 'distinct_nontrivial': len(cells),
        'rule': 'helper x input-length tuple (capped at 13) x parameter regime (k=0 / k<=n / k>n); exhaustive over '
                'lengths and parameters up to the tier bound plus random larger cases; a case is compared on '
                'output AND on the number of values consumed from every input',
        'traces_validated_against_impl': len(lines) - mism,
        'per_helper_cases': dict(per_helper), 'go_vs_model_mismatches': mism, 'oracle_failures': oracle_fail,
        'trusted_base': vlib.TRUSTED + ['sequential-goroutine reading of each helper (Kahn determinism)'],
    })
    res.assumptions = ['each helper goroutine is modelled as a function of its complete input streams '
                       '(valid for deterministic blocking processes; schedules are C03)',
                       'element type int for exact comparison; float helpers compared bit-for-bit']
    return res.finish()


def load_corpus(prop):
    import os
    path = os.path.join(vlib.ROOT, 'corpus', prop + '.json')
    if not os.path.exists(path):
        return []
    data = json.load(open(path))
    return [(c['name'], c['params'], c['inputs']) for c in data]


# ------------------------------------------------------------------ C17
TYPES = {'int': (-2**63, 2**63 - 1), 'int8': (-128, 127), 'int16': (-2**15, 2**15 - 1), 'int32': (-2**31, 2**31 - 1),
         'int64': (-2**63, 2**63 - 1), 'float32': (-2**24, 2**24), 'float64': (-2**53, 2**53)}


def gen_value(rng, typ, pool):
    lo, hi = TYPES[typ]
    r = rng.random()
    if pool and r < 0.45:
        return rng.choice(pool)
    if r < 0.6:
        return rng.choice([lo, hi, lo + 1, hi - 1, 0, -1, 1])
    if r < 0.9:
        return rng.randrange(-6, 7)
    return rng.randrange(lo, hi + 1)


def gen_ring_history(rng, typ, n):
    cap = rng.choice([1, 1, 2, 3, 4, 7])
    ops, size = [], 0
    for _ in range(n):
        r = rng.random()
        if r < 0.5:
            ops.append('put:%d' % gen_value(rng, typ, []))
            size = min(cap, size + 1)
        elif r < 0.7:
            ops.append('get')
            size = max(0, size - 1)
        elif r < 0.85:
            # positional reads within the stored range (beyond it the value is unspecified but still compared
            # between Go and model), occasionally beyond
            ops.append('at:%d' % rng.randrange(0, max(1, size) if rng.random() < 0.8 else cap + 3))
        elif r < 0.93:
            ops.append('full')
        else:
            ops.append('empty')
    return cap, ops


def py_ring(cap, ops):
    """bounded FIFO oracle. Returns list of expected observations, None where the property leaves it open."""
    q, out = [], []
    for op in ops:
        f = op.split(':')
        if f[0] == 'put':
            if len(q) == cap:
                out.append(str(q.pop(0)))
            else:
                out.append(None)
            q.append(int(f[1]))
        elif f[0] == 'get':
            out.append(str(q.pop(0)) if q else 'none')
        elif f[0] == 'at':
            i = int(f[1])
            out.append(str(q[i]) if i < len(q) else None)
        elif f[0] == 'full':
            out.append('t' if len(q) == cap else 'f')
        elif f[0] == 'empty':
            out.append('t' if not q else 'f')
    return out


def gen_bst_history(rng, typ, n):
    ops, pool = [], []
    for _ in range(n):
        r = rng.random()
        if r < 0.4:
            v = gen_value(rng, typ, pool)
            ops.append('ins:%d' % v)
            pool.append(v)
        elif r < 0.65:
            v = gen_value(rng, typ, pool if rng.random() < 0.8 else [])
            ops.append('rem:%d' % v)
            if v in pool:
                pool.remove(v)
        elif r < 0.8:
            ops.append('has:%d' % gen_value(rng, typ, pool))
        elif r < 0.9:
            ops.append('min')
        else:
            ops.append('max')
    return ops


def py_bst(ops):
    ms, out = collections.Counter(), []
    for op in ops:
        f = op.split(':')
        if f[0] == 'ins':
            ms[int(f[1])] += 1
            out.append('-')
        elif f[0] == 'rem':
            v = int(f[1])
            if ms[v] > 0:
                ms[v] -= 1
                out.append('t')
            else:
                out.append('f')
        elif f[0] == 'has':
            out.append('t' if ms[int(f[1])] > 0 else 'f')
        elif f[0] in ('min', 'max'):
            live = [k for k, c in ms.items() if c > 0]
            out.append(str((min if f[0] == 'min' else max)(live)) if live else '0')
    return out


def gen_bstf_history(rng, n):
    """Bst[float64] over values that differ by little: neighbouring doubles, tiny fractions, subnormals, 0.1+0.2 vs 0.3"""
    import math
    base = rng.choice([1.0, 0.3, 1e-10, 100.25, 5e-324, 1e300, -1.0])
    pool_src = [base, math.nextafter(base, math.inf), math.nextafter(base, -math.inf), base * 3, 0.1 + 0.2, 0.3, 1e-10, 3e-10, 2e-10,
                5e-324, 1e-323, 0.0, -base, 1.0, math.nextafter(1.0, 2.0), 1.0 + 1e-12, 1.0 - 1e-12, 2.5, -2.5]
    ops, pool = [], []
    for _ in range(n):
        r = rng.random()
        v = rng.choice(pool if (pool and rng.random() < 0.6) else pool_src)
        if r < 0.4:
            ops.append('ins:' + vlib.f2h(v)); pool.append(v)
        elif r < 0.65:
            ops.append('rem:' + vlib.f2h(v))
            if v in pool:
                pool.remove(v)
        elif r < 0.8:
            ops.append('has:' + vlib.f2h(v))
        elif r < 0.9:
            ops.append('min')
        else:
            ops.append('max')
    return ops


def py_bstf(ops):
    ms, out = collections.Counter(), []
    for op in ops:
        f = op.split(':')
        v = vlib.h2f(f[1]) if len(f) == 2 else None
        if f[0] == 'ins':
            ms[v] += 1
            out.append('-')
        elif f[0] == 'rem':
            if ms[v] > 0:
                ms[v] -= 1
                out.append('t')
            else:
                out.append('f')
        elif f[0] == 'has':
            out.append('t' if ms[v] > 0 else 'f')
        else:
            live = [k for k, c in ms.items() if c > 0]
            out.append(vlib.f2h((min if f[0] == 'min' else max)(live)) if live else vlib.f2h(0.0))
    return out


def shrink_ops(prefix, ops, fails):
    """drop operations while the failure persists"""
    ops = list(ops)
    changed = True
    while changed and len(ops) > 1:
        changed = False
        for i in range(len(ops)):
            cand = ops[:i] + ops[i + 1:]
            if fails(cand):
                ops, changed = cand, True
                break
    return ops


def check_c17(res, tier, replay):
    rng = random.Random(vlib.seed())
    ob = vlib.apply_obligations(res, 'C17')
    nhist = 40 if tier == 'quick' else 1500
    hlen = 60 if tier == 'quick' else 400
    lines, meta = [], {}
    if replay:
        rep = json.load(open(replay))
        for i, ln in enumerate(rep.get('lines', [])):
            lines.append('r%d %s' % (i, ln))
            meta['r%d' % i] = ln
    else:
        import os
        cpath = os.path.join(vlib.ROOT, 'corpus', 'C17.json')
        if os.path.exists(cpath):
            for i, ln in enumerate(json.load(open(cpath))):
                lines.append('k%d %s' % (i, ln))
                meta['k%d' % i] = ln
        i = 0
        for typ in TYPES:
            for _ in range(nhist):
                cap, ops = gen_ring_history(rng, typ, rng.randrange(1, hlen))
                ln = 'RING %s %d %s' % (typ, cap, ','.join(ops))
                lines.append('g%d %s' % (i, ln)); meta['g%d' % i] = ln; i += 1
                ops = gen_bst_history(rng, typ, rng.randrange(1, hlen))
                cmd = 'BSTSHAPE' if tier == 'thorough' or i % 4 == 0 else 'BST'
                ln = '%s %s %s' % (cmd, typ, ','.join(ops))
                lines.append('g%d %s' % (i, ln)); meta['g%d' % i] = ln; i += 1
        for _ in range(nhist * 2):
            ln = 'BSTF %s' % ','.join(gen_bstf_history(rng, rng.randrange(1, hlen)))
            lines.append('g%d %s' % (i, ln)); meta['g%d' % i] = ln; i += 1
    go = vlib.run_go(lines)
    model = vlib.run_model(lines)
    mism = oracle_fail = nobs = 0
    cells = set()
    opcount = collections.Counter()

    def oracle(ln, goline):
        """None if fine, else (index, expected, got)"""
        f = ln.split(' ')
        if not goline.startswith('ok'):
            return (-1, 'ok', goline)
        obs = goline.split(' | ')[0].split(' ', 1)[1].split(',') if ' ' in goline.split(' | ')[0] else []
        if f[0] == 'RING':
            exp = py_ring(int(f[2]), f[3].split(','))
        elif f[0] == 'BSTF':
            exp = py_bstf(f[1].split(','))
        else:
            exp = py_bst(f[2].split(','))
        if len(obs) != len(exp):
            return (-1, len(exp), len(obs))
        for j, (e, o) in enumerate(zip(exp, obs)):
            if e is not None and e != o:
                return (j, e, o)
        return None

    for cid, ln in meta.items():
        g, m = go.get(cid, 'missing'), model.get(cid, 'missing')
        f = ln.split(' ')
        if f[0] == 'BSTF':
            f = ['BSTF', 'float64-fractions', f[1]]
        ops = (f[3] if f[0] == 'RING' else f[2]).split(',')
        for op in ops:
            opcount[f[0][:3] + ':' + op.split(':')[0]] += 1
        nobs += len(ops)
        cells.add((f[0][:3], f[1], min(len(ops) // 10, 12), f[2] if f[0] == 'RING' else ''))
        bad = oracle(ln, g)
        if bad is not None:
            oracle_fail += 1
            # shrink against the real code
            mk = lambda cand: (' '.join(f[:3] + [','.join(cand)]) if f[0] == 'RING' else
                               ('BSTF ' + ','.join(cand)) if f[0] == 'BSTF' else ' '.join(f[:2] + [','.join(cand)]))
            def fails(cand):
                l2 = mk(cand)
                out = vlib.run_go(['s ' + l2], nproc=1).get('s', 'missing')
                return oracle(l2, out) is not None
            small = shrink_ops(None, ops, fails) if len(ops) <= 400 else ops
            l2 = mk(small)
            res.violation({'lines': [l2], 'shrunk_from': len(ops), 'first_difference': bad,
                           'go_output': vlib.run_go(['s ' + l2], nproc=1).get('s'),
                           'oracle': 'bounded FIFO / multiset specification', 'type': f[1]})
        elif g != m:
            mism += 1
            res.violation({'broken': 'correspondence', 'name': f[0] + ' ' + f[1], 'lines': [ln],
                           'go_output': g, 'model_output': m,
                           'search': 'Go agrees with the FIFO/multiset oracle on this history'}, True)
    res.samples = [{'case': lines[i][:300], 'go': (go.get(lines[i].split(' ')[0]) or '')[:300]}
                   for i in (0, len(lines) // 2, len(lines) - 1)] if lines else []
    res.coverage.update({
        'evaluations': len(lines), 'distinct_nontrivial': len(cells),
        'rule': 'random operation histories per element type (int, int8..int64, float32, float64; integer-valued '
                'elements incl. the extremes of the type, duplicates, removes of present and absent keys); cell = '
                '(structure, type, history-length decile, capacity); every observation is compared Go vs model, and '
                'Go vs the FIFO/multiset oracle where the property determines it',
        'observations_compared': nobs, 'operation_mix': dict(opcount),
        'traces_validated_against_impl': len(lines) - mism,
        'go_vs_model_mismatches': mism, 'oracle_failures': oracle_fail,
        'trusted_base': vlib.TRUSTED + ['Bst model assumes a lawful linear order on the element type (NaN excluded)'],
    })
    res.assumptions = ['capacity >= 1 (NewRing(0) divides by zero, outside the property domain)',
                       'float element types: integer-valued floats and +-2^53 / +-2^24 bounds through BST, fractions, neighbouring doubles and subnormals through BSTF (float64); NaN excluded']
    return res.finish()
