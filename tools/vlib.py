"""Shared machinery of the /verif checks: building, running the Go harness and the Lean driver on
the same case lines, comparing, auditing the Lean obligations, evidence and replay files."""
import json, os, random, struct, subprocess, sys, time, hashlib, re, tempfile, shutil

ROOT = os.path.dirname(os.path.dirname(os.path.abspath(__file__)))
LEAN = os.path.join(ROOT, 'lean')
HARNESS = os.path.join(ROOT, 'harness')
REPO = os.environ.get('VERIF_REPO', '/repo')
DRIVER_BIN = os.path.join(LEAN, '.lake', 'build', 'bin', 'ivdriver')
_ALT = '' if REPO == '/repo' else '-' + hashlib.md5(REPO.encode()).hexdigest()[:8]     # a second tree can be checked concurrently
HARNESS_BIN = os.path.join(HARNESS, 'bin', 'ivharness' + _ALT)
NPROC = min(16, os.cpu_count() or 4)
ALLOWED_AXIOMS = {'propext', 'Classical.choice', 'Quot.sound'}

GOENV = dict(os.environ, GOFLAGS='-mod=mod', GOPROXY='off', GOSUMDB='off', GOTOOLCHAIN='local',
             CGO_ENABLED=os.environ.get('CGO_ENABLED', '1'))


class CheckError(Exception):
    pass


def seed():
    try:
        return int(os.environ.get('VERIF_SEED', '20260929'))
    except ValueError:
        return 20260929


def tier(argv=None):
    t = os.environ.get('VERIF_TIER', '')
    argv = argv if argv is not None else sys.argv
    if '--tier' in argv:
        t = argv[argv.index('--tier') + 1]
    return 'thorough' if t == 'thorough' else 'quick'


# ---------------------------------------------------------------- floats
def f2h(x):
    return '%016x' % struct.unpack('>Q', struct.pack('>d', float(x)))[0]


def h2f(s):
    return struct.unpack('>d', struct.pack('>Q', int(s, 16)))[0]


def fl(xs):
    return ','.join(f2h(x) for x in xs) if len(xs) else '-'


def streams(ss):
    """';'-separated streams, '-' for an empty stream, '_' for no stream at all"""
    return ';'.join(fl(s) for s in ss) if len(ss) else '_'


def il(xs):
    return ','.join(str(int(x)) for x in xs) if len(xs) else '-'


def parse_fl(s):
    return [] if s in ('-', '') else [h2f(x) for x in s.split(',')]


def parse_hex_streams(s):
    s = s.strip()
    return [] if s in ('_', '') else [([] if p == '-' else p.split(',')) for p in s.split(';')]


# ---------------------------------------------------------------- build
_built = {}


def build_harness(race=False, tags='verif'):
    """Rebuild the harness against the current /repo working tree. Returns (ok, message)."""
    key = ('h', race)
    if key in _built:
        return _built[key]
    os.makedirs(os.path.join(HARNESS, 'bin'), exist_ok=True)
    out = HARNESS_BIN + ('-race' if race else '')
    cmd = ['go', 'build', '-tags', tags, '-o', out]
    if race:
        cmd.append('-race')
    cmd.append('.')
    # go.mod replace points at /repo; honour VERIF_REPO by editing a scratch copy of go.mod
    env = dict(GOENV)
    if REPO != '/repo':
        env['GOFLAGS'] = '-mod=mod -modfile=' + _alt_modfile()
    p = subprocess.run(cmd, cwd=HARNESS, env=env, capture_output=True, text=True)
    res = (p.returncode == 0, (p.stdout + p.stderr).strip())
    _built[key] = res
    return res


def _alt_modfile():
    d = tempfile.mkdtemp(prefix='ivmod')
    src = open(os.path.join(HARNESS, 'go.mod')).read().replace('=> /repo', '=> ' + REPO)
    path = os.path.join(d, 'go.mod')
    open(path, 'w').write(src)
    return path


def build_lean(targets=('ivdriver',)):
    key = ('l',) + tuple(targets)
    if key in _built:
        return _built[key]
    p = subprocess.run(['lake', 'build'] + list(targets), cwd=LEAN, capture_output=True, text=True)
    res = (p.returncode == 0, (p.stdout + p.stderr).strip()[-4000:])
    _built[key] = res
    return res


# ---------------------------------------------------------------- running cases
def _run_chunks(binary, lines, env=None, timeout=900, nproc=None):
    nproc = nproc or NPROC
    if not lines:
        return {}
    k = max(1, min(nproc, len(lines) // 8 or 1))
    chunks = [lines[i::k] for i in range(k)]
    procs = []
    for ch in chunks:
        p = subprocess.Popen([binary], stdin=subprocess.PIPE, stdout=subprocess.PIPE, stderr=subprocess.PIPE,
                             text=True, env=env)
        procs.append((p, ch))
    # feed in threads to avoid pipe deadlocks
    import threading
    outs = [None] * len(procs)

    def work(i, p, ch):
        try:
            o, e = p.communicate('\n'.join(ch) + '\n', timeout=timeout)
            outs[i] = (o, e, p.returncode)
        except subprocess.TimeoutExpired:
            p.kill()
            o, e = p.communicate()
            outs[i] = (o, e + '\n<killed: timeout>', -9)

    ths = [threading.Thread(target=work, args=(i, p, ch)) for i, (p, ch) in enumerate(procs)]
    for t in ths:
        t.start()
    for t in ths:
        t.join()
    res = {}
    LAST_STDERR[:] = [e for (o, e, rc) in outs if e]
    for (o, e, rc), (_, ch) in zip(outs, procs):
        got = {}
        if o and not o.endswith('\n'):
            o = o[:o.rfind('\n') + 1]          # a killed process may leave a partial last line: drop it
        for ln in o.splitlines():
            sp = ln.split(' ', 1)
            if len(sp) == 2:
                got[sp[0]] = sp[1]
        for c in ch:
            cid = c.split(' ', 1)[0]
            if cid in got:
                res[cid] = got[cid]
            else:
                tail = (e or '').strip().splitlines()[-3:]
                res[cid] = 'crash rc=%s %s' % (rc, ' / '.join(tail)[:300])
    return res


LAST_STDERR = []


def race_reports():
    """DATA RACE reports printed to stderr by the processes of the most recent run"""
    reps = []
    for e in LAST_STDERR:
        for blk in e.split('=================='):
            if 'WARNING: DATA RACE' in blk:
                reps.append(blk.strip()[:4000])
    return reps


def run_go(lines, env_extra=None, race=False, timeout=900, nproc=None, confirm=6):
    """Run case lines on the Go harness.  A case that timed out inside the harness (3 s per case) or was lost in a crashed
    process is re-run alone with a 15 s limit before it is believed: on a loaded machine a slow case is not a hang."""
    env = dict(os.environ)
    if env_extra:
        env.update(env_extra)
    binary = HARNESS_BIN + ('-race' if race else '')
    res = _run_chunks(binary, lines, env=env, timeout=timeout, nproc=nproc)
    stderr_first = list(LAST_STDERR)
    cid = lambda l: l.split(' ', 1)[0]
    # a panic in a library goroutine kills the process and loses the rest of its chunk: give the lost cases fresh processes
    for _ in range(4):
        crashed = [l for l in lines if res.get(cid(l), '').startswith('crash')]
        if not crashed:
            break
        if len(crashed) <= 48:
            from concurrent.futures import ThreadPoolExecutor
            with ThreadPoolExecutor(max_workers=NPROC) as ex:
                for r in ex.map(lambda l: _run_chunks(binary, [l], env=env, timeout=180, nproc=1), crashed):
                    res.update(r)
            break
        res.update(_run_chunks(binary, crashed, env=env, timeout=timeout, nproc=nproc))
        stderr_first += list(LAST_STDERR)
    redo = [l for l in lines if res.get(cid(l), '').startswith('timeout')][:confirm]
    if redo:
        env2 = dict(env, IVH_TIMEOUT_MS='15000')
        from concurrent.futures import ThreadPoolExecutor
        with ThreadPoolExecutor(max_workers=len(redo)) as ex:      # side by side: a tree that stalls costs one limit, not six
            for r in ex.map(lambda l: _run_chunks(binary, [l], env=env2, timeout=180, nproc=1), redo):
                res.update(r)
        stderr_first += list(LAST_STDERR)
    LAST_STDERR[:] = stderr_first
    return res


def run_model(lines, timeout=2400):
    return _run_chunks(DRIVER_BIN, lines, timeout=timeout)


# ---------------------------------------------------------------- comparison of float streams
def close(a_hex, b_hex, rel=1e-9, scale=1.0):
    """bit-equal, or both NaN, or within rel of the local scale. Returns (ok, exact)."""
    if a_hex == b_hex:
        return True, True
    a, b = h2f(a_hex), h2f(b_hex)
    if a != a and b != b:
        return True, True
    if a != a or b != b:
        return False, False
    if a in (float('inf'), float('-inf')) or b in (float('inf'), float('-inf')):
        return a == b, a == b
    if a == b:  # +0 / -0
        return True, False
    tol = rel * max(abs(a), abs(b), scale)
    return abs(a - b) <= tol, False


def cmp_streams(go_streams, model_streams, scale=1.0):
    """Compare lists of hex streams. Returns (first_difference or None, n_values, n_inexact)."""
    nvals = inexact = 0
    if len(go_streams) != len(model_streams):
        return ('output-count go=%d model=%d' % (len(go_streams), len(model_streams))), 0, 0
    for si, (g, m) in enumerate(zip(go_streams, model_streams)):
        if len(g) != len(m):
            return ('stream %d length go=%d model=%d' % (si, len(g), len(m))), nvals, inexact
        for i, (x, y) in enumerate(zip(g, m)):
            ok, exact = close(x, y, scale=scale)
            nvals += 1
            if not ok:
                return ('stream %d index %d go=%r model=%r' % (si, i, h2f(x), h2f(y))), nvals, inexact
            if not exact:
                inexact += 1
    return None, nvals, inexact


# ---------------------------------------------------------------- Lean obligations
EXTRA_MODULES = {'C03': ['C03Change', 'C03MovingSum', 'C03Dyn', 'C03Ema', 'C03Compose', 'C03Sma', 'C03Chain', 'C03Window'], 'C01': ['C01Gen', 'C01Int'], 'C18': ['C18Gen', 'C18More'], 'C14': ['C14More'], 'C16': ['C16More'], 'C13': ['C13More'], 'C05': ['C05Hand', 'C06More', 'C06Vwma'], 'C06': ['C06Hand', 'C06More', 'C06Vwma']}


def lean_obligations(prop):
    """Build Props.<prop> (and its generated companions), list the theorems and their axioms."""
    mod = 'IndicatorVerif.Props.' + prop
    mods = [mod] + ['IndicatorVerif.Props.' + m for m in EXTRA_MODULES.get(prop, [])]
    t0 = time.time()
    ok, msg = build_lean(tuple(mods) + ('IndicatorVerif.Audit',))
    res = {'module': mod, 'build_ok': ok, 'theorems': [], 'bad': [], 'build_msg': '' if ok else msg,
           'checker_cmd': 'cd lean && lake build %s && lake env lean <audit of %s>' % (mod, mod)}
    if not ok:
        return res
    src = 'import IndicatorVerif.Audit\n' + ''.join('import %s\n' % m for m in mods) + ''.join('#audit_module %s\n' % m for m in mods)
    d = tempfile.mkdtemp(prefix='ivaudit')
    try:
        path = os.path.join(d, 'AuditRun.lean')
        open(path, 'w').write(src)
        p = subprocess.run(['lake', 'env', 'lean', path], cwd=LEAN, capture_output=True, text=True)
    finally:
        shutil.rmtree(d, ignore_errors=True)
    out = p.stdout + p.stderr
    for ln in out.splitlines():
        m = re.search(r'AUDIT (\S+) \[(.*)\]', ln)
        if m:
            name = m.group(1)
            if not name.startswith(prop + '.') or re.search(r'\.(eq_\d+|eq_def|match_\d+|proof_\d+)', name):
                continue
            axs = [a.strip() for a in m.group(2).split(',') if a.strip()]
            res['theorems'].append({'name': name, 'axioms': axs})
            if any(a not in ALLOWED_AXIOMS for a in axs):
                res['bad'].append(name)
    if p.returncode != 0 and not res['theorems']:
        res['build_ok'] = False
        res['build_msg'] = out[-2000:]
    # source scan for sorry/admit/axiom/native_decide in the whole development
    hits = []
    for dp, _, fs in os.walk(os.path.join(LEAN, 'IndicatorVerif')):
        for f in fs:
            if f.endswith('.lean'):
                txt = open(os.path.join(dp, f)).read()
                txt = re.sub(r'/-.*?-/', '', txt, flags=re.S)
                txt = re.sub(r'--.*', '', txt)
                for pat in (r'\bsorry\b', r'\badmit\b', r'^axiom\s', r'native_decide', r'bv_decide',
                            r'implemented_by', r'maxHeartbeats 0'):
                    if re.search(pat, txt, flags=re.M):
                        hits.append('%s: %s' % (f, pat))
    res['source_scan_hits'] = hits
    # thorough tier: re-check the compiled modules with the toolchain's independent checker
    if tier() == 'thorough':
        lc = subprocess.run(['lake', 'env', 'leanchecker'] + mods, cwd=LEAN, capture_output=True, text=True)
        res['leanchecker'] = 'ok' if lc.returncode == 0 else ('FAILED: ' + (lc.stdout + lc.stderr)[-600:])
        if lc.returncode != 0:
            res['bad'].append('leanchecker')
    res['wall_s'] = round(time.time() - t0, 2)
    return res


# ---------------------------------------------------------------- known findings
def known_findings(prop):
    path = os.path.join(ROOT, 'known_findings.json')
    if not os.path.exists(path):
        return []
    data = json.load(open(path))
    return [f for f in data.get('findings', []) if f.get('property') == prop and f.get('kind') == 'known']


# ---------------------------------------------------------------- results
class Result:
    def __init__(self, prop, tier_):
        self.prop = prop
        self.tier = tier_
        self.t0 = time.time()
        self.violations = []       # (replay dict, no_failing_input: bool)
        self.known_hit = []        # known-finding lines
        self.coverage = {}
        self.assumptions = []
        self.samples = []

    def violation(self, replay, no_failing_input=False):
        self.violations.append((replay, no_failing_input))

    def finish(self, level='proof'):
        os.makedirs(os.path.join(ROOT, 'evidence'), exist_ok=True)
        os.makedirs(os.path.join(ROOT, 'replays'), exist_ok=True)
        lines = []
        self.violations.sort(key=lambda v: v[1])      # concrete failing inputs first
        for i, (rep, nf) in enumerate(self.violations[:5]):
            path = os.path.join(ROOT, 'replays', '%s_%s_%d.json' % (self.prop, seed(), i))
            rep = dict(rep)
            rep.setdefault('property', self.prop)
            rep.setdefault('seed', seed())
            rep.setdefault('command', './check %s --replay %s' % (self.prop, path))
            json.dump(rep, open(path, 'w'), indent=1, default=str)
            lines.append('VIOLATION property=%s replay=%s%s' % (self.prop, path, ' no-failing-input-found' if nf else ''))
        for k in self.known_hit:
            print('KNOWN-FINDING: property=%s %s' % (self.prop, k))
        cov = dict(self.coverage)
        cov.setdefault('samples', self.samples[:6] or ['(none)'])
        ev = {'property_id': self.prop, 'tier': self.tier, 'seed': seed(), 'level': level, 'coverage': cov,
              'assumptions': self.assumptions, 'wall_s': round(time.time() - self.t0, 2),
              'violations': len(self.violations)}
        json.dump(ev, open(os.path.join(ROOT, 'evidence', self.prop + '.json'), 'w'), indent=1, default=str)
        for ln in lines:
            print(ln)
        sys.stdout.flush()
        return 1 if self.violations else 0


def apply_obligations(res, prop):
    """Run the Lean obligations for prop and record them in the Result."""
    ob = lean_obligations(prop)
    n = len(ob['theorems'])
    good = n - len(ob['bad'])
    res.coverage.update({'obligations': n, 'discharged': good if ob['build_ok'] else 0,
                         'checker_cmd': ob['checker_cmd'],
                         'theorems': [t['name'] for t in ob['theorems']][:400],
                         'axioms_used': sorted({a for t in ob['theorems'] for a in t['axioms']}),
                         'source_scan_hits': ob.get('source_scan_hits', [])})
    if 'leanchecker' in ob:
        res.coverage['leanchecker'] = ob['leanchecker']
    if not ob['build_ok'] or ob['bad'] or ob.get('source_scan_hits') or n == 0:
        res.violation({'broken': 'theorem', 'name': ob['module'], 'bad_axioms': ob['bad'],
                       'build_msg': ob['build_msg'], 'source_scan_hits': ob.get('source_scan_hits', []),
                       'note': 'Lean obligations for this property no longer check'}, no_failing_input=True)
    return ob


TRUSTED = [
    'Lean 4.33 kernel; axioms limited to propext, Classical.choice, Quot.sound (audited per theorem)',
    'hand-written Lean model tied to /repo by the Go-vs-model correspondence run on every invocation',
    'Go runtime implements blocking FIFO channels; Lean Float = IEEE binary64 like Go float64 on amd64',
]
