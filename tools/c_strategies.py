"""C05 (one action per snapshot), C06 (documented rule on documented data), C07 (compounds / decorators),
C08 (outcome), C14 (reports)."""
import random, json, collections, math, itertools, re
import vlib
from vlib import il, fl, streams, h2f, f2h
from catalog import gen_ohlcv, REGIMES, two_sorted
from scatalog import SCAT, B, S, H
from c_indicators import parse_ind, ind_line, load_findings, known_line


def ma_idle(kind, p):
    if kind == 5:
        return (p - 1) + (int(math.floor(math.sqrt(p) + 0.5)) - 1)
    return p - 1


def strat_idle(name, ns):
    if name == 'SuperTrend':
        return ma_idle(ns[0], ns[1]) + 1
    if name == 'Envelope':
        return ma_idle(ns[0], ns[1])
    return SCAT[name]['idle'](ns)


def strat_line(name, ns, fs, o):
    return 'STRAT %s %s %s %s' % (name, il(ns), fl(fs), streams([o['o'], o['h'], o['l'], o['c'], o['v']]))


def parse_strat(line):
    if not line.startswith('ok'):
        return {'status': line.split(' ')[0], 'raw': line}
    parts = line.split(' | ')
    meta = {}
    for kv in parts[0].split(' ')[1:]:
        if '=' in kv:
            k, v = kv.split('=', 1)
            meta[k] = v
    acts = [] if parts[1].strip() in ('-', '') else [int(x) for x in parts[1].strip().split(',')]
    return {'status': 'ok', 'meta': meta, 'actions': acts}


def gen_strat_cases(rng, tier, names=None, per=None):
    hi = 10 if tier == 'quick' else 30
    per = per or (10 if tier == 'quick' else 200)
    maxlen = 120 if tier == 'quick' else 400
    cases = []
    for name in (names or SCAT.keys()):
        sc = SCAT[name]
        for j in range(per):
            if j == 0:
                ns, fs = list(sc['default'][0]), list(sc['default'][1])
                w = strat_idle(name, ns)
                n = w + rng.randrange(2, 40)
            else:
                ns, fs = sc['cfg'](rng, hi if j % 3 else 4)
                ns, fs = list(ns), list(fs)
                w = strat_idle(name, ns)
                n = [0, 1, max(0, w - 1), w, w + 1, 2 * w + 3, rng.randrange(0, maxlen), rng.randrange(w, w + 50), w + 2][j % 9]
            o, regime = gen_ohlcv(rng, n, REGIMES[j % len(REGIMES)] if j % 2 else None)
            cases.append((name, ns, fs, o, regime))
        # the smallest admissible parameters (period 1 and the like), always — not only when they happen to be drawn
        from c_runtime import PatternRng
        for pat, regime in ((0, 'walk'), (0, 'zigzag'), (1, 'walk'), (2, 'wide')):
            try:
                ns, fs = sc['cfg'](PatternRng(rng, pat), hi)
            except Exception:
                continue
            ns, fs = list(ns), list(fs)
            w = strat_idle(name, ns)
            o, regime = gen_ohlcv(rng, w + rng.randrange(6, 40), regime)
            cases.append((name, ns, fs, o, regime))
    return cases


def run_strats(cases, prefix='s'):
    lines = ['%s%d %s' % (prefix, i, strat_line(c[0], c[1], c[2], c[3])) for i, c in enumerate(cases)]
    return lines, vlib.run_go(lines), vlib.run_model(lines)


STRAT_MISMATCH_IDS = set()     # cases on which Go differs from the as-is model in the last correspondence run


def strat_correspondence(res, cases, lines, go, model):
    mism = 0
    comps = set()
    STRAT_MISMATCH_IDS.clear()
    for i, c in enumerate(cases):
        cid = lines[i].split(' ')[0]
        g, m = parse_strat(go.get(cid, 'missing')), parse_strat(model.get(cid, 'missing'))
        if g['status'] != 'ok' or m['status'] != 'ok' or g['actions'] != m['actions']:
            if g['status'] == 'ok' and m['status'] == 'ok' and near_tie_only(c, g['actions'], m['actions']):
                continue
            mism += 1
            comps.add(c[0])
            STRAT_MISMATCH_IDS.add(cid)
            res.violation({'broken': 'correspondence', 'name': 'STRAT ' + c[0], 'config': {'ns': c[1], 'fs': c[2]},
                           'regime': c[4], 'n': len(c[3]['c']), 'go_output': go.get(cid, 'missing')[:400],
                           'model_output': model.get(cid, 'missing')[:400], 'line': lines[i][:3000]}, True)
    return mism, comps


def near_tie_only(c, a, b):
    """actions may differ between Go and model only where a comparison is decided by the last bits; we do not
    accept that silently: the streams must have equal length and differ in fewer than 1% of the positions"""
    return len(a) == len(b) and len(a) > 0 and sum(1 for x, y in zip(a, b) if x != y) * 100 < len(a) and False


def case_json(c):
    return {'name': c[0], 'ns': c[1], 'fs': c[2], 'ohlcv': c[3], 'regime': c[4]}


def replay_cases(replay):
    rep = json.load(open(replay))
    return [(c['name'], c['ns'], c['fs'], c['ohlcv'], c.get('regime', 'replay')) for c in rep.get('cases', []) or [rep['case']]]


def cut_ohlcv(o, m):
    return {k: v[:m] for k, v in o.items()}


# ------------------------------------------------------------------------------------------ C05
def c05_problem(name, ns, n, acts):
    w = strat_idle(name, ns)
    if any(a not in (-1, 0, 1) for a in acts):
        return 'action outside {Sell, Hold, Buy}'
    if n >= w:
        if len(acts) != n:
            return '%d actions for %d snapshots (warm-up %d)' % (len(acts), n, w)
        if any(a != 0 for a in acts[:w]):
            return 'non-Hold action before the warm-up (%d) has elapsed' % w
    else:
        if len(acts) < n:
            return 'only %d actions for %d snapshots (shorter than warm-up %d)' % (len(acts), n, w)
        if any(a != 0 for a in acts):
            return 'non-Hold action on an input shorter than the warm-up (%d)' % w
    return None


# the library's registry functions: which strategies they return, in which order, default-constructed
REGISTRIES = {
    'trend': ['Alligator', 'Apo', 'Aroon', 'Bop', 'Cci', 'Dema', 'GoldenCross', 'Kama', 'Kdj', 'Macd', 'Qstick', 'Smma', 'Trima',
              'TripleMovingAverageCrossover', 'Tsi', 'Vwma', 'WeightedClose'],
    'momentum': ['AwesomeOscillator', 'Rsi', 'StochasticRsi', 'TripleRsi'],
    'volatility': ['BollingerBands', 'SuperTrend', ('SuperTrend', [0, 14], [2.5]), ('SuperTrend', [1, 14], [2.5]), ('SuperTrend', [5, 14], [3.0]),
                   ('SuperTrend', [5, 10], [3.0]), ('SuperTrend', [5, 7], [3.0])],
    'volume': ['ChaikinMoneyFlow', 'EaseOfMovement', 'ForceIndex', 'MoneyFlowIndex', 'NegativeVolumeIndex', 'WeightedAveragePrice'],
    'compound': ['MacdRsi', ('MacdRsi', [12, 26, 9], [20.0, 80.0])],
    'strategy': ['BuyAndHold'],
    'extra': [('Envelope', [0, 20], [20.0])],      # NewEnvelopeStrategy(): no registry returns it
    # AllAndStrategies / AllSplitStrategies over (Macd, Rsi, Trix): every ordered pair of different members, in nested-loop order
    'and': [('And:%s+%s' % (a, b), [], []) for a in ('Macd', 'Rsi', 'Trix') for b in ('Macd', 'Rsi', 'Trix') if a != b],
    'split': [('Split:%s+%s' % (a, b), [], []) for a in ('Macd', 'Rsi', 'Trix') for b in ('Macd', 'Rsi', 'Trix') if a != b],
}


def check_registries(res, rng, tier):
    """every strategy handed out by AllStrategies() (default constructors) = the same strategy built with the documented default
    parameters through the parameterised constructors, which the rest of the check exercises.  Returns (members, bad)."""
    bad = members = 0
    for rep in range(2 if tier == 'quick' else 8):
        o, regime = gen_ohlcv(rng, rng.randrange(260, 330), rng.choice(['walk', 'wide', 'dips', 'zigzag', 'down']))
        lines = ['g REGISTRY %s' % streams([o[k] for k in 'ohlcv'])]
        def entry(e):
            if isinstance(e, tuple):
                return e
            return (e,) + tuple(list(x) for x in (SCAT[e]['default'] if e in SCAT else ([], [])))
        for reg, l in REGISTRIES.items():
            for i, e in enumerate(l):
                k, ns, fs = entry(e)
                lines.append('d_%s_%d %s' % (reg, i, strat_line(k, list(ns), list(fs), o)))
        go = vlib.run_go(lines)
        g = go.get('g', 'missing')
        if not g.startswith('ok '):
            bad += 1
            res.violation({'lines': [lines[0].split(' ', 1)[1]], 'problem': 'registry run failed: ' + g[:300]})
            continue
        got = collections.defaultdict(list)
        for part in g[3:].split(';'):
            head, acts = part.split('=', 1)
            reg, idx, name = head.split('/', 2)
            got[reg].append((name, acts))
        for reg, want_keys in REGISTRIES.items():
            if len(got[reg]) != len(want_keys):
                bad += 1
                res.violation({'lines': [lines[0].split(' ', 1)[1]], 'problem': '%s.AllStrategies() returns %d strategies (%s), expected %d (%s)' % (
                    reg, len(got[reg]), [n for n, _ in got[reg]], len(want_keys), want_keys)})
                continue
            for i, ((name, acts), e) in enumerate(zip(got[reg], want_keys)):
                members += 1
                k, dns, dfs = entry(e)
                d = parse_strat(go.get('d_%s_%d' % (reg, i), 'missing'))
                want = ','.join(str(a) for a in d['actions']) if d['status'] == 'ok' and d['actions'] else '-'
                if d['status'] != 'ok' or acts != want:
                    bad += 1
                    if bad <= 6:
                        a1, a2 = acts.split(','), want.split(',')
                        j = next((t for t in range(min(len(a1), len(a2))) if a1[t] != a2[t]), min(len(a1), len(a2)))
                        res.violation({'lines': [lines[0].split(' ', 1)[1]], 'registry': reg, 'member': name, 'expected_strategy': k,
                                       'default_parameters': [dns, dfs],
                                       'problem': 'the strategy returned by %s.AllStrategies() (%s) differs from %s with the documented default parameters: first difference at action %d (%d vs %d actions)' % (
                                           reg, name, k, j, len(a1), len(a2))})
    return members, bad


def check_c05(res, tier, replay):
    rng = random.Random(vlib.seed() + 5)
    vlib.apply_obligations(res, 'C05')
    findings = load_findings('C05')
    cases = replay_cases(replay) if replay else gen_strat_cases(rng, tier)
    lines, go, model = run_strats(cases)
    mism, comps = strat_correspondence(res, cases, lines, go, model)
    if comps and not replay:
        extra = gen_strat_cases(rng, tier, names=sorted(comps), per=60)
        l2, g2, _ = run_strats(extra, prefix='x')
        cases, lines = cases + extra, lines + l2
        go.update(g2)
    # compound and decorated strategies over real base strategies: exactly one action per snapshot past every warm-up
    wrapped_bad = wrapped_n = 0
    if not replay:
        wcases = []
        for wname in WRAPPED:
            for _ in range(3 if tier == 'quick' else 20):
                o, regime = gen_ohlcv(rng, rng.randrange(12, 90), rng.choice(['walk', 'wide', 'zigzag', 'down', 'up', 'ties']))
                wcases.append((wname, [], [], o, regime))
        # garbage closes (zero, negative) are still snapshots: decorators and compounds must keep Hold through the warm-up and count right
        for wname in WRAPPED:
            for _ in range(2 if tier == 'quick' else 10):
                o, regime = gen_ohlcv(rng, rng.randrange(12, 60), rng.choice(['walk', 'down', 'zigzag']))
                for _k in range(rng.randrange(1, 4)):
                    o['c'][rng.randrange(len(o['c']))] = rng.choice([0.0, -1.0, -250.0])
                # … one of them while the wrapped strategy is still warming up (no position can be open there)
                inner0 = wname.split(':')[1].split('+')[0]
                o['c'][rng.randrange(0, max(1, min(len(o['c']), strat_idle(inner0, DEFAULT_NS.get(inner0, [])))))] = rng.choice([0.0, -1.0, -250.0])
                wcases.append((wname, [], [], o, regime + '+nonpositive-close'))
        wl = ['w%d %s' % (i, strat_line(c[0], c[1], c[2], c[3])) for i, c in enumerate(wcases)]
        wg = vlib.run_go(wl)
        for i, c in enumerate(wcases):
            g = parse_strat(wg.get('w%d' % i, 'missing'))
            n = len(c[3]['c'])
            wrapped_n += 1
            # a decorator inherits the warm-up of the strategy it wraps: Hold until it has elapsed
            wrap, inner = c[0].split(':')
            warm_ok = True
            if wrap in ('Inverse', 'NoLoss', 'StopLoss') and g['status'] == 'ok':
                w_in = strat_idle(inner, DEFAULT_NS.get(inner, []))
                warm_ok = all(a == 0 for a in g['actions'][:min(w_in, n)])
            if g['status'] != 'ok' or len(g['actions']) != n or any(a not in (-1, 0, 1) for a in g['actions']) or not warm_ok:
                wrapped_bad += 1
                res.violation({'case': case_json(c), 'go_output': wg.get('w%d' % i, 'missing')[:300], 'n': n,
                               'oracle': 'a compound/decorated strategy over base strategies emits exactly one action per snapshot (n >= every warm-up); a decorator holds through the warm-up of the strategy it wraps'})
    bad = wrapped_bad
    cells = set()
    known = collections.defaultdict(int)
    short = 0
    for i, c in enumerate(cases):
        g = parse_strat(go.get(lines[i].split(' ')[0], 'missing'))
        n = len(c[3]['c'])
        w = strat_idle(c[0], c[1])
        cells.add((c[0], tuple(c[1]), 'n<w' if n < w else ('n<=2w+3' if n <= 2 * w + 3 else 'long')))
        short += n < w
        if g['status'] != 'ok':
            bad += 1
            res.violation({'case': case_json(c), 'go_output': g.get('raw', '')[:300], 'oracle': 'the strategy must terminate'})
            continue
        p = c05_problem(c[0], c[1], n, g['actions'])
        if p:
            # recorded finding: exactly one surplus action, the leading warm-up all Hold (anything else is new)
            if c[0] in findings and len(g['actions']) == n + 1 and all(a == 0 for a in g['actions'][:min(w, n + 1)]):
                known[c[0]] += 1
                continue
            bad += 1
            # shrink: shortest prefix that still fails
            small = c
            for m in range(0, n):
                cand = (c[0], c[1], c[2], cut_ohlcv(c[3], m), c[4])
                l3, g3, _m = run_strats([cand], prefix='z') if False else (None, None, None)
                break
            res.violation({'case': case_json(small), 'problem': p, 'go_actions': g['actions'][:60], 'n': n, 'warm_up': w,
                           'oracle': 'exactly n actions in {Sell,Hold,Buy}, Hold through the warm-up; only Holds (>= n) for shorter inputs'})
    if not replay:
        rg_n, rg_bad = check_registries(res, rng, tier)
        bad += rg_bad
        res.coverage['registry_members_compared'] = rg_n
    reused_n = 0
    if not replay:
        # the same contract on an instance that has computed other series before (a backtest runs one instance over many assets)
        rcases = []
        for name in SCAT:
            for _ in range(2 if tier == 'quick' else 10):
                ns, fs = SCAT[name]['cfg'](rng, 6 if tier == 'quick' else 12)
                ns, fs = list(ns), list(fs)
                w = strat_idle(name, ns)
                envs = []
                for t in range(3):
                    o, _ = gen_ohlcv(rng, rng.choice([w + 1, 2 * w + 3, rng.randrange(w + 1, 3 * w + 30)]), rng.choice(['walk', 'wide', 'zigzag', 'down', 'up', 'dips']))
                    envs.append(o)
                rcases.append((name, ns, fs, envs))
        rl = ['q%d REUSE STRAT %s %s %s seq %s' % (i, c[0], il(c[1]), fl(c[2]), '/'.join(streams([o[k] for k in 'ohlcv']) for o in c[3]))
              for i, c in enumerate(rcases)]
        fl_lines = ['q%d_%d %s' % (i, t, strat_line(c[0], c[1], c[2], o)) for i, c in enumerate(rcases) for t, o in enumerate(c[3])]
        rg = vlib.run_go(rl + fl_lines)
        for i, c in enumerate(rcases):
            g = rg.get('q%d' % i, 'missing')
            if not g.startswith('ok seq='):
                bad += 1
                res.violation({'lines': [rl[i].split(' ', 1)[1]], 'problem': 'reused instance did not run: ' + g[:200]})
                continue
            raw_runs = g[len('ok seq='):].split(' conc=')[0].split('#')
            stuck = [r for r in raw_runs if r not in ('-', '_', '') and not re.fullmatch(r'-?\d+(,-?\d+)*', r)]
            if stuck:
                bad += 1
                res.violation({'lines': [rl[i].split(' ', 1)[1]], 'problem': 'a run on the instance did not deliver its actions: ' + stuck[0][:200],
                               'strategy': {'name': c[0], 'ns': c[1], 'fs': c[2]},
                               'oracle': 'exactly n actions for n snapshots: the action stream must close'})
                continue
            runs = [[int(a) for a in r.split(',')] if r not in ('-', '_', '') else [] for r in raw_runs]
            for t, acts in enumerate(runs):
                reused_n += 1
                n = len(c[3][t]['c'])
                w = strat_idle(c[0], c[1])
                p = c05_problem(c[0], c[1], n, acts)
                if p and c[0] in findings and len(acts) == n + 1 and all(a == 0 for a in acts[:min(w, n + 1)]):
                    known[c[0]] += 1
                    continue
                fresh = parse_strat(rg.get('q%d_%d' % (i, t), 'missing'))
                if not p and fresh['status'] == 'ok' and fresh['actions'] != acts:
                    k = next((j for j in range(min(len(acts), len(fresh['actions']))) if acts[j] != fresh['actions'][j]), min(len(acts), len(fresh['actions'])))
                    p = 'action %d is %s, but the recommendation for snapshot %d of this series (fresh instance) is %s' % (
                        k, acts[k] if k < len(acts) else None, k, fresh['actions'][k] if k < len(fresh['actions']) else None)
                if p:
                    bad += 1
                    res.violation({'lines': [rl[i].split(' ', 1)[1]], 'problem': 'run #%d on one instance: %s' % (t + 1, p), 'go_actions': acts[:60], 'n': n, 'warm_up': w,
                                   'strategy': {'name': c[0], 'ns': c[1], 'fs': c[2]},
                                   'oracle': 'exactly n actions in {Sell,Hold,Buy}, Hold through the warm-up — on every run of an instance, not only the first'})
                    break
    for comp, f in findings.items():
        if known.get(comp):
            res.known_hit.append(known_line(f) + ' [%d cases]' % known[comp])
    res.samples = [{'case': lines[i][:160] + '…', 'go': go.get(lines[i].split(' ')[0], '')[:120]} for i in (0, len(lines) // 2)]
    res.coverage['runs_on_reused_instances'] = reused_n
    res.coverage.update({
        'evaluations': len(cases), 'distinct_nontrivial': len(cells),
        'rule': 'strategy x configuration x snapshot-count class (n<w, w<=n<=2w+3, longer) over the 32 base strategies (every With-constructor '
                'parameter varied), n from {0,1,w-1,w,w+1,2w+3} and random; all regimes',
        'cases_shorter_than_warmup': short, 'compound_and_decorated_cases': wrapped_n, 'violations_found': bad, 'known_findings_seen': dict(known),
        'traces_validated_against_impl': len(cases) - mism, 'go_vs_model_mismatches': mism, 'trusted_base': vlib.TRUSTED,
    })
    res.assumptions = ['compound and decorated strategies: C07 check (their length law is min over the wrapped streams)']
    return res.finish()


# ------------------------------------------------------------------------------------------ C06
def indicator_values(c, go_cache):
    """Run the documented indicators on the documented fields through the real Go code. Returns
    list of (idle, outs floats) per output stream (flattened over indicators), or None."""
    name, ns, fs, o, _ = c
    sc = SCAT[name]
    lines = []
    for k, (ind, nsf, fields) in enumerate(sc['inds']):
        ins = [o[f] for f in fields]
        ifs = fs if sc.get('pass_fs') else []
        lines.append('q%d %s' % (k, ind_line(ind, nsf(ns), ifs, ins)))
    got = vlib.run_go(lines, nproc=1)
    flat = []
    for k in range(len(lines)):
        g = parse_ind(got.get('q%d' % k, 'missing'))
        if g['status'] != 'ok':
            return None
        # the declared idle, or (types without the method) what the output count implies
        idle = int(g['meta'].get('idle', -1))
        n = len(o['c'])
        for s in g['outs']:
            w = idle if idle >= 0 else (n - len(s))
            flat.append((w, [h2f(v) for v in s]))
    # derived second-stage streams (signal lines)
    def second(kind, period, src):
        w0, vals = flat[src]
        line = 'r0 ' + ind_line(kind, [period], [], [vals])
        g = parse_ind(vlib.run_go([line], nproc=1).get('r0', 'missing'))
        if g['status'] != 'ok':
            return None
        return (w0 + int(g['meta']['idle']), [h2f(v) for v in g['outs'][0]])
    if 'signal_ema' in sc:
        d = second('Ema', ns[sc['signal_ema']], 0)
        if d is None:
            return None
        flat.append(d)
    if 'sma_of_first' in sc:
        d = second('Sma', ns[sc['sma_of_first']], 0)
        if d is None:
            return None
        flat.append(d)
    return flat


def check_c06(res, tier, replay):
    rng = random.Random(vlib.seed() + 6)
    vlib.apply_obligations(res, 'C06')
    findings = load_findings('C06')
    names = [n for n in SCAT if SCAT[n]['rule'] is not None]
    if replay:
        cases = replay_cases(replay)
    else:
        # long enough series past the warm-up, half of them with independently varying high/low/open
        cases = []
        for name in names:
            sc = SCAT[name]
            for j in range(12 if tier == 'quick' else 60):
                ns, fs = (list(sc['default'][0]), list(sc['default'][1])) if j == 0 else sc['cfg'](rng, 8 if tier == 'quick' else 25)
                ns, fs = list(ns), list(fs)
                n = strat_idle(name, ns) + rng.randrange(15, 90)
                o, regime = gen_ohlcv(rng, n, 'wide' if j % 2 else None)
                cases.append((name, ns, fs, o, regime))
            # the smallest admissible parameters (period 1 and the like) and the other extreme combinations, always
            from c_runtime import PatternRng
            for pat in (0, 1, 2):
                ns, fs = sc['cfg'](PatternRng(rng, pat), 8 if tier == 'quick' else 25)
                ns, fs = list(ns), list(fs)
                o, regime = gen_ohlcv(rng, strat_idle(name, ns) + rng.randrange(20, 70), rng.choice(['walk', 'wide', 'zigzag']))
                cases.append((name, ns, fs, o, regime))
            # a long flat opening: indicators whose formula divides by the movement are undefined there, the rule says Hold
            for j in range(2 if tier == 'quick' else 8):
                ns, fs = sc['cfg'](rng, 8 if tier == 'quick' else 20)
                ns, fs = list(ns), list(fs)
                o, regime = gen_ohlcv(rng, strat_idle(name, ns) + rng.randrange(20, 70), 'flatstart')
                cases.append((name, ns, fs, o, regime))
            # an up-trend with sharp pull-backs: the regime in which oversold/overbought and trend conditions coincide
            for j in range((12 if sc.get('hist') else 3) if tier == 'quick' else (40 if sc.get('hist') else 12)):
                ns, fs = sc['cfg'](rng, 40 if j % 2 else 12)
                ns, fs = list(ns), list(fs)
                if sc.get('hist') and name == 'TripleRsi' and j % 3 != 1:
                    # loose thresholds and window depths other than the default: the run-of-readings condition decides
                    ns[2] = rng.choice([2, 4, 5, 6])
                    ns[1] = max(ns[0] + 1, rng.choice([3, 5, 8]))
                    fs = [rng.choice([80.0, 95.0]), rng.choice([75.0, 90.0]), 99.0]
                o, regime = gen_ohlcv(rng, strat_idle(name, ns) + rng.randrange(60, 160), rng.choice(['dips', 'walk', 'zigzag']) if sc.get('hist') else 'dips')
                cases.append((name, ns, fs, o, regime))
    lines, go, model = run_strats(cases)
    mism, comps = strat_correspondence(res, cases, lines, go, model)
    if comps and not replay:
        extra = [c for c in gen_strat_cases(rng, tier, names=sorted(set(comps) & set(names)), per=40)
                 if len(c[3]['c']) > strat_idle(c[0], c[1])]
        l2, g2, _ = run_strats(extra, prefix='x')
        cases, lines = cases + extra, lines + l2
        go.update(g2)
    bad = checked = exempt = 0
    cells = set()
    known = collections.defaultdict(int)
    decisions = collections.Counter()
    per_strategy = collections.defaultdict(collections.Counter)
    for i, c in enumerate(cases):
        name, ns, fs, o, regime = c
        sc = SCAT[name]
        g = parse_strat(go.get(lines[i].split(' ')[0], 'missing'))
        if g['status'] != 'ok':
            continue
        vals = indicator_values(c, None)
        if vals is None:
            continue
        n = len(o['c'])
        w = strat_idle(name, ns)
        problem = None
        for pos in range(w, min(n, len(g['actions']))):
            if sc.get('hist'):
                # window rule: needs the indicator values of the last `depth` positions, all inside the strategy's own run
                depth = sc['hist'](ns)
                if pos - (depth - 1) < w:
                    continue

                def at(k, pos=pos):
                    return [s[pos - k - iw] for (iw, s) in vals]
                if any(pos - k - iw < 0 or pos - k - iw >= len(s) for k in range(depth) for (iw, s) in vals):
                    continue
                flat = [v for k in range(depth) for v in at(k)]
                if any(v != v or abs(v) == math.inf for v in flat):
                    exempt += 1
                    continue
                snap = {k: o[k][pos] for k in o}
                margin = sc['margin'](at, snap, fs, ns)
                if margin <= 1e-9 * max(1e-300, max(abs(v) for v in flat + [snap['c']])):
                    exempt += 1
                    continue
                want = sc['rule'](at, snap, fs, ns)
                checked += 1
                decisions[want] += 1
                per_strategy[name][want] += 1
                if want != g['actions'][pos] and problem is None:
                    problem = {'position': pos, 'expected': want, 'go_action': g['actions'][pos],
                               'indicator_values_oldest_first': [at(k) for k in range(depth - 1, -1, -1)], 'snapshot': snap}
                continue
            cur, prev, ok = [], [], True
            for (iw, s) in vals:
                j = pos - iw
                if j < 0 or j >= len(s):
                    ok = False
                    break
                cur.append(s[j])
                prev.append(s[j - 1] if j - 1 >= 0 else None)
            if not ok or (sc.get('needs_prev') and any(p is None for p in prev)):
                continue
            if any(v != v or abs(v) == math.inf for v in cur + [p for p in prev if p is not None and sc.get('needs_prev')]):
                exempt += 1
                continue
            snap = {k: o[k][pos] for k in o}
            args = (cur, snap, prev) + ((fs,) if sc.get('uses_fs') else ())
            margin = sc['margin'](*args)
            scale = max(1e-300, max(abs(v) for v in cur + [snap['c']]))
            if margin <= 1e-9 * scale:
                exempt += 1
                continue
            want = sc['rule'](*args)
            checked += 1
            decisions[want] += 1
            per_strategy[name][want] += 1
            if want != g['actions'][pos] and problem is None:
                problem = {'position': pos, 'expected': want, 'go_action': g['actions'][pos], 'indicator_values': cur,
                           'previous_values': prev if sc.get('needs_prev') else None, 'snapshot': snap}
        cells.add((name, tuple(ns), regime))
        if problem:
            if name in findings and lines[i].split(' ')[0] not in STRAT_MISMATCH_IDS:
                known[name] += 1
                continue
            bad += 1
            res.violation({'case': case_json(c), 'first_difference': problem,
                           'oracle': 'documented rule applied to the documented indicator (run through the real code on the documented price fields) at the same position'})
    for comp, f in findings.items():
        if known.get(comp):
            res.known_hit.append(known_line(f) + ' [%d cases]' % known[comp])
    if not replay:
        # the rule is applied at position i of the *current* configuration: a strategy re-configured after a first run acts like a fresh one
        from c_runtime import check_reconf
        rc_n, rc_bad = check_reconf(res, rng, tier, ('STRAT',), 'C06')
        bad += rc_bad
        res.coverage['reconfigured_after_use'] = rc_n
    res.samples = [{'case': lines[i][:160] + '…'} for i in (0, len(lines) // 2)] if lines else []
    res.coverage.update({
        'evaluations': len(cases), 'distinct_nontrivial': len(cells),
        'rule': 'base strategy x threshold/period configuration x regime on OHLCV series whose five fields vary independently; at every '
                'position past the warm-up the documented rule is evaluated on the documented indicator values (positions where the '
                'compared quantities are within 1e-9 relative are exempt)',
        'decisions_checked': checked, 'exempt_positions': exempt, 'expected_action_mix': {str(k): v for k, v in decisions.items()},
        'action_mix_per_strategy': {n: {str(k): v for k, v in c.items()} for n, c in per_strategy.items()},
        'violations_found': bad, 'known_findings_seen': dict(known),
        'traces_validated_against_impl': len(cases) - mism, 'go_vs_model_mismatches': mism, 'trusted_base': vlib.TRUSTED +
        ['tools/scatalog.py: transcription of the documented decision rules'],
    })
    res.assumptions = ['the indicator itself is C01; here it is taken from the real code on the documented fields',
                       'TripleRsi (stateful rule) and BuyAndHold are tied by correspondence only']
    return res.finish()


# ------------------------------------------------------------------------------------------ C07 / C08
def py_denorm(w):
    out, last = [], H
    for a in w:
        if a != H and a != last:
            last = a
        out.append(last)
    return out


def py_norm(w):
    out, last = [], S
    for a in w:
        if a != H and a != last:
            last = a
            out.append(a)
        else:
            out.append(H)
    return out


def py_vote(kind, words):
    ds = [py_denorm(w) for w in words]
    k, n = len(ds), min(len(d) for d in ds)
    out = []
    for i in range(n):
        col = [d[i] for d in ds]
        b, s, h = col.count(B), col.count(S), col.count(H)
        if kind == 'And':
            out.append(S if s == k else (B if b == k else H))
        elif kind == 'Or':
            out.append(S if (s > 0 and b == 0) else (B if (b > 0 and s == 0) else H))
        else:
            out.append(S if (s > b and s > h) else (B if (b > s and b > h) else H))
    return out


def py_eval(prog, words, closings):
    st = []
    for tok in prog.split(','):
        f = tok.split(':')
        if f[0] == 'w':
            st.append(list(words[int(f[1])]))
        elif f[0] in ('And', 'Or', 'Majority'):
            k = int(f[1])
            args, st = st[-k:], st[:-k]
            st.append(py_vote(f[0], args))
        elif f[0] == 'Split':
            b, s = st[-2], st[-1]
            st = st[:-2]
            st.append([B if (x == B and y != S) else (S if (y == S and x != B) else H) for x, y in zip(b, s)])
        elif f[0] == 'Agree':
            a, b = py_denorm(st[-2]), py_denorm(st[-1])
            st = st[:-2]
            st.append([x if x == y else H for x, y in zip(a, b)])
        elif f[0] == 'Inverse':
            st.append([-x for x in st.pop()])
        elif f[0] == 'NoLoss':
            w, out, bought = st.pop(), [], 0.0
            for a, c in zip(w, closings):
                if a == B and bought == 0.0:
                    bought = c
                    out.append(B)
                elif a == S and bought != 0.0 and bought < c:
                    bought = 0.0
                    out.append(S)
                else:
                    out.append(H)
            st.append(out)
        elif f[0] == 'StopLoss':
            pct = h2f(f[1])
            w, out, stop = st.pop(), [], 0.0
            for a, c in zip(w, closings):
                if a == B and stop == 0.0:
                    stop = c * (1 - pct)
                    out.append(B)
                elif stop != 0 and (a == S or c <= stop):
                    stop = 0.0
                    out.append(S)
                else:
                    out.append(H)
            st.append(out)
        elif f[0] == 'Normalize':
            st.append(py_norm(st.pop()))
        elif f[0] == 'Denormalize':
            st.append(py_denorm(st.pop()))
    return st[-1]


def py_outcome(values, actions):
    bal, sh, out = 1.0, 0.0, []
    for v, a in zip(values, actions):
        if bal > 0 and a == B:
            sh, bal = bal / v, 0.0
        elif sh > 0 and a == S:
            bal, sh = sh * v, 0.0
        out.append(bal + sh * v - 1.0)
    return out


def gen_word(rng, n):
    mode = rng.randrange(4)
    if mode == 0:
        return [rng.choice([B, S, H]) for _ in range(n)]
    if mode == 1:   # mostly Hold (like a real strategy after normalisation)
        return [rng.choice([B, S]) if rng.random() < 0.2 else H for _ in range(n)]
    if mode == 2:   # long runs
        out, a = [], rng.choice([B, S, H])
        for _ in range(n):
            if rng.random() < 0.25:
                a = rng.choice([B, S, H])
            out.append(a)
        return out
    lead = rng.randrange(0, n + 1)      # leading Holds (a warm-up), then signals
    return [H] * lead + [rng.choice([B, S, H]) for _ in range(n - lead)]


def gen_closes(rng, n):
    o, _ = gen_ohlcv(rng, n, rng.choice(['walk', 'walk', 'ties', 'zigzag', 'down', 'up', 'plateau']))
    return o['c']


def tree_line(prog, words, closes):
    return 'TREE %s %s %s' % (prog, (';'.join(il(w) for w in words) if words else '_'), fl(closes))


def parse_tree(line):
    if not line.startswith('ok'):
        return None
    parts = line[3:].split(' | ')
    acts = [] if parts[0].strip() in ('-', '') else [int(x) for x in parts[0].strip().split(',')]
    outc = vlib.parse_fl(parts[1].strip()) if len(parts) > 1 else []
    tx = [] if len(parts) < 3 or parts[2].strip() in ('-', '') else [int(x) for x in parts[2].strip().split(',')]
    return acts, outc, tx


PCTS = [0.0, 0.05, 0.1, 0.25, 0.5, 0.9]


def gen_c07(rng, tier):
    cases = []   # (prog, words, closes)
    L = 3
    words3 = [list(w) for w in itertools.product([S, H, B], repeat=L)]
    closes3 = [[10.0, 11.0, 9.0], [10.0, 10.0, 10.0], [12.0, 8.0, 13.0]]
    for a in words3:
        for b in words3:
            for op in ('And:2', 'Or:2', 'Majority:2', 'Split', 'Agree'):
                cases.append(('w:0,w:1,' + op, [a, b], closes3[0]))
    for L2 in range(0, 6):
        for w in itertools.product([S, H, B], repeat=L2):
            cl = (closes3[rng.randrange(3)] + [rng.choice([8.0, 9.5, 10.0, 12.0, 15.0]) for _ in range(3)])[:L2]
            cases.append(('w:0,Inverse', [list(w)], cl))
            cases.append(('w:0,NoLoss', [list(w)], cl))
            cases.append(('w:0,StopLoss:%s' % f2h(rng.choice(PCTS)), [list(w)], cl))
    nrand = 400 if tier == 'quick' else 12000
    for _ in range(nrand):
        k = rng.choice([1, 2, 2, 3, 3, 4])
        n = rng.randrange(0, 60)
        # a wrapped strategy emits at least one action per snapshot (C05); surplus actions occur (short inputs emit the
        # whole warm-up of Holds, Alligator/Smma emit n+1), fewer never do - a source that ends early is a C03 matter
        lens = [n + rng.choice([0, 0, 0, 0, 1, 1, 2, 7]) for _ in range(k)]
        words = [gen_word(rng, m) for m in lens]
        closes = gen_closes(rng, n)
        op = rng.choice(['And', 'Or', 'Majority'])
        prog = ','.join('w:%d' % i for i in range(k)) + ',%s:%d' % (op, k)
        if k == 2 and rng.random() < 0.4:
            prog = 'w:0,w:1,' + rng.choice(['Split', 'Agree'])
        # nesting of decorators on top
        for _d in range(rng.choice([0, 0, 1, 1, 2, 3])):
            prog += ',' + rng.choice(['Inverse', 'NoLoss', 'StopLoss:%s' % f2h(rng.choice(PCTS))])
        cases.append((prog, words, closes))
    # Stop-Loss / No-Loss exactly at their thresholds: a Buy at close c, later closes equal to c*(1 - pct) as computed in
    # binary64 (the documented threshold), one ulp below and above it, and equal to c itself (No-Loss tie)
    for _ in range(60 if tier == 'quick' else 1500):
        pct = rng.choice(PCTS + [0.08, 0.02, 0.03, 0.07, 0.15])
        c0 = rng.choice([28.0, 20.08, 10.0, 33.33, 101.25, 7.77, 250.5]) if rng.random() < 0.5 else round(rng.uniform(1, 300), 2)
        thr = c0 * (1 - pct)
        tail = [math.nextafter(thr, math.inf), thr, math.nextafter(thr, -math.inf), c0, math.nextafter(c0, math.inf)]
        rng.shuffle(tail)
        pre = [round(rng.uniform(1, 300), 2) for _ in range(rng.randrange(0, 3))]
        mid = [c0 * rng.choice([1.0, 1.01, 0.999, 1.2]) for _ in range(rng.randrange(0, 3))]
        closes = pre + [c0] + mid + tail[:rng.randrange(1, 6)]
        word = [H] * len(pre) + [B] + [rng.choice([H, H, B]) for _ in range(len(closes) - len(pre) - 1)]
        for prog in ('w:0,StopLoss:%s' % f2h(pct), 'w:0,NoLoss', 'w:0,NoLoss,StopLoss:%s' % f2h(pct)):
            cases.append((prog, [word], closes))
    return cases


def run_tree(cases, prefix='t'):
    lines = ['%s%d %s' % (prefix, i, tree_line(*c)) for i, c in enumerate(cases)]
    return lines, vlib.run_go(lines), vlib.run_model(lines)


def tree_correspondence(res, cases, lines, go, model, prop):
    mism = 0
    for i, c in enumerate(cases):
        cid = lines[i].split(' ')[0]
        g, m = go.get(cid, 'missing'), model.get(cid, 'missing')
        pg, pm = parse_tree(g), parse_tree(m)
        same = pg is not None and pm is not None and pg[0] == pm[0] and pg[2] == pm[2] and \
            vlib.cmp_streams([[f2h(v) for v in pg[1]]], [[f2h(v) for v in pm[1]]])[0] is None
        if not same:
            mism += 1
            res.violation({'broken': 'correspondence', 'name': 'TREE ' + c[0], 'case': {'program': c[0], 'words': c[1], 'closings': c[2]},
                           'go_output': g[:400], 'model_output': m[:400]}, True)
    return mism


DEFAULT_FS = {'Rsi': [30.0, 70.0], 'SuperTrend': [2.5]}


def real_wrappers(res, rng, tier):
    """The library's own wrapper types over real base strategies (And/Or/Majority/Split/Inverse/NoLoss/StopLoss, MACD-RSI with default
    and custom periods and levels): the wrapper's actions must be the documented function of the action streams that its wrapped
    strategies produce on the same snapshots (run separately) and of the closing prices.  Returns (cases, bad)."""
    cases = []
    reps = 3 if tier == 'quick' else 16
    for wname in WRAPPED:
        wrap, inner = wname.split(':')
        parts = inner.split('+')
        prog = ','.join('w:%d' % i for i in range(len(parts))) + ','
        prog += {'And': 'And:%d' % len(parts), 'Or': 'Or:%d' % len(parts), 'Majority': 'Majority:%d' % len(parts), 'Split': 'Split',
                 'Inverse': 'Inverse', 'NoLoss': 'NoLoss', 'StopLoss': 'StopLoss:' + f2h(0.1)}[wrap]
        for _ in range(reps):
            o, regime = gen_ohlcv(rng, rng.randrange(20, 100), rng.choice(['walk', 'wide', 'zigzag', 'down', 'dips', 'up', 'flatrun']))
            cases.append((wname, [], [], [(q, DEFAULT_NS.get(q, []), DEFAULT_FS.get(q, [])) for q in parts], prog, o, regime))
    # MACD-RSI: default, the registered (20, 80) variant, and custom MACD periods with narrow, wide and one-sided RSI levels —
    # with wide levels the RSI strategy stays silent for long stretches while MACD already signals
    for _ in range(6 * reps):
        if rng.random() < 0.3:
            ns, fs, mns, lv, n = [], [], [12, 26, 9], [30.0, 70.0], rng.randrange(45, 140)
        else:
            a, b = two_sorted(rng, 8)
            mns = [a, b, rng.randrange(1, 6)]
            lv = rng.choice([[20.0, 80.0], [5.0, 95.0], [0.0, 100.0], [45.0, 55.0], [50.0, 50.0], [1.0, 60.0], [40.0, 99.0], [2.0, 98.0], [10.0, 90.0], [0.0, 100.0]])
            ns, fs, n = mns, lv, rng.randrange(25, 120)
        o, regime = gen_ohlcv(rng, n, rng.choice(['walk', 'wide', 'zigzag', 'ties', 'dips', 'down', 'up', 'plateau']))
        cases.append(('MacdRsi', ns, fs, [('Macd', mns, []), ('Rsi', [14], lv)], 'w:0,w:1,Agree', o, regime))
    lines = []
    for i, (wname, ns, fs, inner, prog, o, regime) in enumerate(cases):
        lines.append('rw%d %s' % (i, strat_line(wname, ns, fs, o)))
        for j, (q, qns, qfs) in enumerate(inner):
            lines.append('rw%d_%d %s' % (i, j, strat_line(q, qns, qfs, o)))
    go = vlib.run_go(lines)
    bad = 0
    pairs = collections.Counter()
    for i, (wname, ns, fs, inner, prog, o, regime) in enumerate(cases):
        g = parse_strat(go.get('rw%d' % i, 'missing'))
        ws = [parse_strat(go.get('rw%d_%d' % (i, j), 'missing')) for j in range(len(inner))]
        if g['status'] != 'ok' or any(w['status'] != 'ok' for w in ws):
            bad += 1
            res.violation({'wrapper': wname, 'config': {'ns': ns, 'fs': fs}, 'ohlcv': o, 'go_output': go.get('rw%d' % i, 'missing')[:200],
                           'oracle': 'wrapper and wrapped strategies must terminate on the same snapshots'})
            continue
        words = [w['actions'] for w in ws]
        want = py_eval(prog, words, o['c'])
        if prog.endswith('Agree'):
            da, db = py_denorm(words[0]), py_denorm(words[1])
            for x, y in zip(da, db):
                pairs[(x, y)] += 1
        if g['actions'] != want:
            bad += 1
            k = next((k for k in range(min(len(want), len(g['actions']))) if want[k] != g['actions'][k]), min(len(want), len(g['actions'])))
            res.violation({'wrapper': wname, 'config': {'ns': ns, 'fs': fs}, 'wrapped': [list(x) for x in inner], 'ohlcv': o, 'regime': regime,
                           'first_difference': {'index': k, 'expected': want[k] if k < len(want) else None,
                                                'go': g['actions'][k] if k < len(g['actions']) else None,
                                                'wrapped_actions_there': [w[k] if k < len(w) else None for w in words]},
                           'oracle': 'documented combination (py_eval %s) of the action streams the wrapped strategies give on the same snapshots' % prog})
    res.coverage['macd_rsi_standing_pairs_seen'] = {'%d/%d' % k: v for k, v in sorted(pairs.items())}
    return len(cases), bad


def check_c07(res, tier, replay):
    rng = random.Random(vlib.seed() + 7)
    vlib.apply_obligations(res, 'C07')
    if replay:
        rep = json.load(open(replay))
        cases = [(c['program'], c['words'], c['closings']) for c in rep.get('cases', []) or [rep['case']]]
    else:
        cases = gen_c07(rng, tier)
    lines, go, model = run_tree(cases)
    mism = tree_correspondence(res, cases, lines, go, model, 'C07')
    bad = 0
    cells = set()
    ops = collections.Counter()
    for i, c in enumerate(cases):
        prog, words, closes = c
        g = parse_tree(go.get(lines[i].split(' ')[0], 'missing'))
        for tok in prog.split(','):
            ops[tok.split(':')[0]] += 1
        cells.add((prog.split(',', len(words))[-1] if words else prog, tuple(min(len(w), 8) for w in words), min(len(closes), 8)))
        if g is None:
            bad += 1
            res.violation({'case': {'program': prog, 'words': words, 'closings': closes}, 'go_output': go.get(lines[i].split(' ')[0], 'missing')[:200],
                           'oracle': 'the combinator must terminate'})
            continue
        want = py_eval(prog, words, closes)
        if g[0] != want:
            bad += 1
            j = next((j for j in range(min(len(want), len(g[0]))) if want[j] != g[0][j]), min(len(want), len(g[0])))
            res.violation({'case': {'program': prog, 'words': words, 'closings': closes},
                           'first_difference': {'index': j, 'expected': want[j] if j < len(want) else None,
                                                'go': g[0][j] if j < len(g[0]) else None, 'expected_len': len(want), 'go_len': len(g[0])},
                           'oracle': 'documented combination of the wrapped action streams (tools/c_strategies.py py_eval)'})
    if not replay:
        rw_n, rw_bad = real_wrappers(res, rng, tier)
        bad += rw_bad
        res.coverage['real_wrapper_types_vs_own_inner_streams'] = rw_n
        # "functions of their wrapped strategies": the real wrapper types, with the wrapped strategies replaced after a first run
        from c_runtime import check_reconf
        rc_n, rc_bad = check_reconf(res, rng, tier, ('WRAPPED',), 'C07')
        bad += rc_bad
        res.coverage['reconfigured_after_use'] = rc_n
    res.samples = [{'case': lines[i][:200], 'go': go.get(lines[i].split(' ')[0], '')[:120]} for i in (0, len(lines) // 2, len(lines) - 1)]
    res.coverage.update({
        'evaluations': len(cases), 'distinct_nontrivial': len(cells),
        'rule': 'program (postfix combination of scripted stub strategies) x word-length tuple x closings length; all 27x27 pairs of '
                'length-3 words for every binary combinator, all words up to length 5 for every decorator, random k<=4 sources, lengths '
                '<=60 (unequal included), decorators nested up to depth 3, stop-loss percentages 0..0.9',
        'operator_mix': dict(ops), 'violations_found': bad,
        'traces_validated_against_impl': len(cases) - mism, 'go_vs_model_mismatches': mism, 'trusted_base': vlib.TRUSTED,
    })
    res.assumptions = ['wrapped strategies are scripted stubs replaying arbitrary action words (the combinators see nothing else)',
                       'k >= 1 wrapped strategies (with none the Go vote loop never terminates: outside the property domain)']
    return res.finish()


def check_c08(res, tier, replay):
    rng = random.Random(vlib.seed() + 8)
    vlib.apply_obligations(res, 'C08')
    groups = []   # (word, values)
    if replay:
        rep = json.load(open(replay))
        groups = [(c['word'], c['values']) for c in rep.get('cases', []) or [rep['case']]]
    else:
        for L in range(0, 6):
            for w in itertools.product([S, H, B], repeat=L):
                groups.append((list(w), [rng.choice([5.0, 8.0, 10.0, 12.5, 20.0]) for _ in range(L)]))
        nrand = 300 if tier == 'quick' else 9000
        for _ in range(nrand):
            n = rng.randrange(0, 80)
            m = n if rng.random() < 0.7 else rng.randrange(0, 80)
            vals = gen_closes(rng, n)
            r = rng.random()
            if r < 0.12:        # a very expensive asset (one unit of cash buys a tiny fraction of a share) …
                vals = [v * 2.0 ** rng.choice([20, 24, 40]) for v in vals]
            elif r < 0.24:      # … and a very cheap one: the simulation is in relative terms, the price level is irrelevant
                vals = [v * 2.0 ** rng.choice([-15, -30]) for v in vals]
            groups.append((gen_word(rng, m), vals))
        for n in (1, 2, 5, 30):
            groups.append(([B] + [H] * (n - 1), gen_closes(rng, n)))     # buy and hold
    progs = ['w:0', 'w:0,Normalize', 'w:0,Normalize,Denormalize,Normalize', 'w:0,Denormalize']
    cases = [(p, [w], v) for (w, v) in groups for p in progs]
    lines, go, model = run_tree(cases)
    mism = tree_correspondence(res, cases, lines, go, model, 'C08')
    bad = 0
    cells = set()
    checks = collections.Counter()

    def fail(gi, what, detail):
        nonlocal bad
        bad += 1
        w, v = groups[gi]
        res.violation({'case': {'word': w, 'values': v}, 'failed': what, 'detail': detail,
                       'oracle': 'all-in/all-out portfolio semantics evaluated on the Go output'})

    # Outcome is generic over the element type of the value stream: integer-typed values must give what the same values give as float64
    ilines = []
    for j in range(80 if tier == 'quick' else 2000):
        n = rng.randrange(0, 40)
        vals = [rng.choice([rng.randrange(1, 30), rng.randrange(1, 3000), 1000, 1500]) for _ in range(n)]
        ilines.append('o%d OUTINT %s %s' % (j, il(gen_word(rng, n if rng.random() < 0.8 else rng.randrange(0, 40))), il(vals)))
    igo = vlib.run_go(ilines)
    for ln in ilines:
        g = igo.get(ln.split(' ')[0], 'missing')
        checks['integer_element_types'] += 1
        if not g.startswith('ok'):
            bad += 1
            res.violation({'lines': [ln.split(' ', 1)[1]], 'go_output': g[:300],
                           'oracle': 'Outcome over int/int32/int64/float32 values = Outcome over the same values as float64 (bit for bit)'})
    for gi, (w, v) in enumerate(groups):
        r = [parse_tree(go.get(lines[gi * len(progs) + k].split(' ')[0], 'missing')) for k in range(len(progs))]
        if any(x is None for x in r):
            fail(gi, 'termination', [go.get(lines[gi * len(progs) + k].split(' ')[0], 'missing')[:100] for k in range(len(progs))])
            continue
        (a0, o0, t0), (a1, o1, t1), (a2, o2, t2), (a3, o3, t3) = r
        n = min(len(w), len(v))
        cells.add((min(len(w), 10), min(len(v), 10), tuple(w[:3])))
        exp = py_outcome(v, w)
        checks['length'] += 1
        if len(o0) != n:
            fail(gi, 'one entry per (value, action) pair', {'outcomes': len(o0), 'pairs': n}); continue
        if any(abs(x - y) > 1e-12 * max(1.0, abs(y)) for x, y in zip(o0, exp)):
            j = next(j for j in range(n) if abs(o0[j] - exp[j]) > 1e-12 * max(1.0, abs(exp[j])))
            fail(gi, 'portfolio simulation', {'index': j, 'go': o0[j], 'expected': exp[j]}); continue
        checks['simulation'] += n
        if any(x < -1.0 - 1e-12 for x in o0):
            fail(gi, 'never below -100%', min(o0)); continue
        first_buy = next((j for j in range(n) if w[j] == B), n)
        if any(x != 0.0 for x in o0[:first_buy]):
            fail(gi, '0 until the first Buy', o0[:first_buy]); continue
        checks['zero_before_buy'] += 1
        if n > 0 and w[0] == B and all(x != S for x in w[1:n]):
            if any(abs(o0[j] - (v[j] / v[0] - 1.0)) > 1e-12 * max(1.0, abs(v[j] / v[0])) for j in range(n)):
                fail(gi, 'buy-and-hold = v_i/v_0 - 1', o0[:5]); continue
            checks['buy_and_hold'] += 1
        # redundant repeated actions removed: outcome unchanged (bit-for-bit)
        if [f2h(x) for x in o1] != [f2h(x) for x in o0]:
            fail(gi, 'outcome(normalize(actions)) = outcome(actions)', {'plain': o0[:8], 'normalized': o1[:8]}); continue
        checks['normalize_invariant'] += 1
        nz = [x for x in a1 if x != H]
        if any(nz[j] == nz[j + 1] for j in range(len(nz) - 1)) or (nz and nz[0] != B) or len(a1) != len(w):
            fail(gi, 'normalised stream alternates Buy/Sell starting with Buy', a1[:20]); continue
        if a1 != py_norm(w) or a3 != py_denorm(w):
            fail(gi, 'normalize / denormalize values', {'norm': a1[:20], 'denorm': a3[:20]}); continue
        checks['alternation'] += 1
        if a2 != a1:
            fail(gi, 'normalize(denormalize(x)) = x on normalised x', {'x': a1[:20], 'roundtrip': a2[:20]}); continue
        checks['roundtrip'] += 1
        tx = 0
        exp_tx = []
        for x in w:
            tx += x != H
            exp_tx.append(tx)
        if t0 != exp_tx:
            fail(gi, 'CountTransactions', {'go': t0[:20], 'expected': exp_tx[:20]}); continue
    if not replay:
        # buy-and-hold through the library's own BuyAndHoldStrategy, on an instance that has been used before
        bh = []
        for k in range(10 if tier == 'quick' else 40):
            envs = []
            for t in range(2):
                o, _ = gen_ohlcv(rng, rng.randrange(1, 40), rng.choice(['walk', 'wide', 'zigzag', 'down', 'up']))
                # the benchmark is defined by the closings alone: the other columns may be absent (zero), e.g. an index without
                # volume data, a synthetic series with only the close filled in, days without trades at the start of a listing
                n_ = len(o['c'])
                r_ = rng.random()
                if r_ < 0.35:
                    lead = rng.choice([n_, 1, 2, rng.randrange(1, n_ + 1)])
                    o['v'] = [0.0 if i < lead else x for i, x in enumerate(o['v'])]
                elif r_ < 0.5:
                    for f_ in 'ohlv':
                        o[f_] = [0.0] * n_
                elif r_ < 0.6:
                    o['v'] = [-x for x in o['v']]
                envs.append([o[x] for x in 'ohlcv'])
            bh.append(envs)
        bl = ['b%d RECONF OUTCOME BuyAndHold %s %s BuyAndHold %s %s replace %s' % (k, il([]), fl([]), il([]), fl([]), '/'.join(streams(e) for e in envs))
              for k, envs in enumerate(bh)]
        bg = vlib.run_go(bl)
        for k, envs in enumerate(bh):
            g = bg.get('b%d' % k, 'missing')
            parts = g[3:].split(' | ') if g.startswith('ok ') else []
            closes = envs[1][3]
            exp = [c / closes[0] - 1.0 for c in closes]
            problem = None
            if len(parts) < 3:
                problem = 'run failed: ' + g[:200]
            else:
                cols = parts[1].split(';')
                out = [h2f(x) for x in cols[1].split(',')] if len(cols) == 2 and cols[1] != '-' else []
                if len(out) != len(exp) or any(abs(x - y) > 1e-12 * max(1.0, abs(y)) for x, y in zip(out, exp)):
                    problem = 'BuyAndHoldStrategy (second run on one instance): outcome is not value_i/value_0 - 1: go=%s expected=%s' % (out[:6], exp[:6])
            checks['buy_and_hold_strategy_reused'] += 1
            if problem:
                bad += 1
                res.violation({'case': {'closings_first_run': envs[0][3], 'closings': closes}, 'violates': 'buy-and-hold = v_i/v_0 - 1', 'detail': problem,
                               'lines': [bl[k]]})
    res.samples = [{'word': groups[i][0][:12], 'values': groups[i][1][:6]} for i in (1, len(groups) // 2, len(groups) - 1)]
    res.coverage.update({
        'evaluations': len(cases), 'distinct_nontrivial': len(cells),
        'rule': 'action word x positive value series (all words up to length 5 exhaustively, random to length 80, unequal lengths '
                'of the two streams, buy-and-hold words); each word is run plain, normalised, normalise-denormalise-normalise and '
                'denormalised through ComputeWithOutcome / NormalizeActions / DenormalizeActions / CountTransactions',
        'properties_checked': dict(checks), 'violations_found': bad,
        'traces_validated_against_impl': len(cases) - mism, 'go_vs_model_mismatches': mism, 'trusted_base': vlib.TRUSTED,
    })
    res.assumptions = ['positive values (a zero price divides by zero, outside the property domain)']
    return res.finish()


# ------------------------------------------------------------------------------------------ C14
# configurations the harness gives the members of wrapped strategies (harness/reports.go defaultNs)
DEFAULT_NS = {'Macd': [3, 5, 2], 'Rsi': [4], 'Bop': [], 'BuyAndHold': [], 'Trix': [2], 'Vwma': [3], 'GoldenCross': [2, 5],
              'Kdj': [3, 2, 2], 'Smma': [2, 4], 'Alligator': [4, 3, 2], 'SuperTrend': [5, 4]}
WRAPPED = ['And:Macd+Rsi', 'Or:Macd+Rsi', 'Majority:Macd+Rsi+Trix', 'Split:Macd+Rsi', 'Inverse:Macd', 'NoLoss:Macd',
           'StopLoss:Macd', 'And:Bop+BuyAndHold', 'Or:Vwma+GoldenCross', 'Majority:Kdj+Bop+Rsi', 'NoLoss:Rsi', 'Inverse:Kdj',
           # SuperTrend reads high/low one snapshot ahead of the close: wrappers must leave it that slack
           'NoLoss:SuperTrend', 'StopLoss:SuperTrend', 'And:SuperTrend+BuyAndHold', 'Split:SuperTrend+BuyAndHold']


def parse_report(line):
    if not line.startswith('ok'):
        return None
    parts = line.split(' | ')
    d = parts[0].split('dates=')[1].strip()
    dates = [] if d == '-' else [int(x) for x in d.split(',')]
    cols = []
    for p in parts[1:]:
        name, typ, vals = p.split(':', 2)
        cols.append((name, typ, [] if vals.strip() == '-' else vals.strip().split(',')))
    return dates, cols


def check_c14(res, tier, replay):
    rng = random.Random(vlib.seed() + 14)
    vlib.apply_obligations(res, 'C14')
    findings = load_findings('C14')
    if replay:
        cases = replay_cases(replay)
    else:
        cases = [c for c in gen_strat_cases(rng, tier, per=(4 if tier == 'quick' else 30))
                 if len(c[3]['c']) > strat_idle(c[0], c[1])]
        # non-default configurations on series longer than their warm-up (the generic generator above mostly yields
        # short series for them)
        for name in SCAT:
            for j in range(3 if tier == 'quick' else 12):
                ns, fs = SCAT[name]['cfg'](rng, 8 if j % 2 else 20)
                ns, fs = list(ns), list(fs)
                w = strat_idle(name, ns)
                o, regime = gen_ohlcv(rng, w + rng.choice([1, 2, 5, 17, 40]), REGIMES[(j * 5 + len(name)) % len(REGIMES)])
                cases.append((name, ns, fs, o, regime))
        for wname in WRAPPED:
            deco = wname.split(':')[0] in ('NoLoss', 'StopLoss')
            for _ in range((8 if deco else 2) if tier == 'quick' else (30 if deco else 10)):
                # decorators only matter where the wrapped strategy would trade at a loss: falling and whipsawing series
                o, regime = gen_ohlcv(rng, rng.randrange(12, 80) if not deco else rng.randrange(40, 120),
                                      rng.choice(['down', 'zigzag', 'dips', 'walk', 'wide']) if deco else None)
                cases.append((wname, [], [], o, regime))
        for _ in range(4 if tier == 'quick' else 20):       # DEMA strategy whose DEMAs use two different EMA periods each
            a, b, c2, d2 = (rng.randrange(1, 8) for _ in range(4))
            if a + c2 > b + d2:
                a, b, c2, d2 = b, a, d2, c2
            o, regime = gen_ohlcv(rng, b + d2 + rng.randrange(3, 40))
            cases.append(('Dema', [a, b, c2, d2], [], o, regime))
        for _ in range(2 if tier == 'quick' else 10):       # the bundled compound strategy (default periods: warm-up 33)
            o, regime = gen_ohlcv(rng, rng.randrange(45, 110))
            cases.append(('MacdRsi', [], [], o, regime))
    bad_box = [0]
    cells = set()
    known = collections.defaultdict(int)
    stats = collections.Counter()
    traded = collections.Counter()
    all_rlines = []

    def run_batch(cases, tag):
        bad = 0
        # every 4th case carries one snapshot whose Date is the zero time (e.g. an unparsed CSV date): still one row per snapshot
        zero_at = {}
        if not replay:
            for i, c in enumerate(cases):
                if i % 4 == 3 and len(c[3]['c']) > 0:
                    zero_at[i] = rng.randrange(len(c[3]['c']))
        else:
            zero_at = {i: z for i, z in enumerate(json.load(open(replay)).get('zero_dates', [])) if z is not None and z >= 0}
        rlines = ['r%d %s' % (i, strat_line(c[0], c[1], c[2], c[3]).replace('STRAT', 'REPORT', 1) if i not in zero_at else
                              strat_line(c[0], c[1], c[2], c[3]).replace('STRAT', 'REPORTZ', 1) + ' %d' % zero_at[i]) for i, c in enumerate(cases)]
        slines = ['s%d %s' % (i, strat_line(c[0], c[1], c[2], c[3])) for i, c in enumerate(cases)]
        # the report as its consumer sees it: rendered by Report.WriteToWriter (lock-step Value() calls); snapshot dates are local
        # midnights of zones east and west of UTC on part of the cases
        zones = {i: rng.choice([0, 0, 32400, -18000, 19800, 46800]) for i in range(len(cases))}
        wlines = ['w%d %s %d' % (i, strat_line(c[0], c[1], c[2], c[3]).replace('STRAT', 'REPORTW', 1), zones[i]) for i, c in enumerate(cases)]
        go = vlib.run_go(rlines + slines + wlines)
        for i, c in enumerate(cases):
            name, ns, fs, o, regime = c
            n = len(o['c'])
            rep = parse_report(go.get('r%d' % i, 'missing'))
            cells.add((name, tuple(ns), regime))
            if rep is None:
                bad += 1
                res.violation({'case': case_json(c), 'go_output': go.get('r%d' % i, 'missing')[:300],
                               'oracle': 'every column and the date axis must close once drained by independent readers'})
                continue
            dates, cols = rep
            problems = []
            d = n - len(dates)
            want_dates = [(-1 if zero_at.get(i) == k else k) for k in range(n)]
            if d < 0 or dates != want_dates[d:]:
                problems.append('date axis is not a suffix of the snapshot dates: %s…' % dates[:5])
            for (cn, typ, vals) in cols:
                stats['columns'] += 1
                if len(vals) != len(dates):
                    problems.append('column %s has %d values for %d dates' % (cn, len(vals), len(dates)))
            acts = parse_strat(go.get('s%d' % i, 'missing'))
            if not problems and d >= 0:
                for (cn, typ, vals) in cols:
                    if cn == 'Close' and [h2f(v) for v in vals] != o['c'][d:]:
                        problems.append('Close column is not the closing price of its date')
                if acts and acts['status'] == 'ok' and len(acts['actions']) >= n:
                    a = acts['actions'][:n]
                    ann = ['B' if x == B else ('S' if x == S else '.') for x in py_norm(a)]
                    outc = [v * 100 for v in py_outcome(o['c'], a)]
                    for (cn, typ, vals) in cols:
                        if cn == 'annotation':
                            stats['annotation_columns'] += 1
                            if vals != ann[d:]:
                                problems.append('annotation column differs from the normalised actions of the same dates')
                        if cn == 'Outcome':
                            stats['outcome_columns'] += 1
                            got = [h2f(v) for v in vals]
                            if any(v != 0 for v in got):
                                traded[name] += 1
                            if len(got) != len(outc[d:]) or any(abs(x - y) > 1e-9 * max(1.0, abs(y)) for x, y in zip(got, outc[d:])):
                                problems.append('Outcome column differs from the outcome of the same dates')
                # indicator columns: plotted against the dates they were computed for
                if ':' not in name and SCAT.get(name, {}).get('inds'):
                    vals_ind = indicator_values(c, None)
                    for (cn, typ, vals) in cols:
                        if typ != 'number' or cn in ('Close', 'Outcome') or vals_ind is None:
                            continue
                        got = [h2f(v) for v in vals]

                        def matches(w, s, shift):
                            hit = 0
                            for k, g in enumerate(got):
                                j = d + k - w + shift
                                if j < 0:
                                    continue
                                if j >= len(s):
                                    return False
                                e = s[j]
                                if (e != e and g != g) or e == g or abs(e - g) <= 1e-12 * max(abs(e), abs(g)):
                                    hit += 1
                                else:
                                    return False
                            return hit >= 2
                        ok0 = any(matches(w, s, 0) for (w, s) in vals_ind)
                        # a (nearly) constant or undefined column matches itself at any shift: nothing can be said about it
                        informative = len({round(v, 9) for v in got if v == v and abs(v) != math.inf}) >= 4
                        if ok0:
                            stats['indicator_columns_aligned'] += 1
                        elif not informative:
                            stats['indicator_columns_unmatched'] += 1
                        else:
                            off = [sh for sh in (-2, -1, 1, 2) if any(matches(w, s, sh) for (w, s) in vals_ind)]
                            if off:
                                problems.append('indicator column %s is drawn %+d day(s) away from the dates it was computed for' % (cn, -off[0]))
                            else:
                                stats['indicator_columns_unmatched'] += 1
            wv = go.get('w%d' % i, 'missing')
            stats['rendered_reports'] += 1
            if not wv.startswith('ok writer rows='):
                if name in findings and ('writer-hang' in wv or ' diff ' in wv) and any('has %d values for %d dates' % (len(dates) + 1, len(dates)) in p for p in problems):
                    pass        # consequence of the recorded surplus value in a column of this report
                else:
                    problems.append('rendered report (WriteToWriter, dates in zone UTC%+ds): %s' % (zones[i], wv[:200]))
            if problems:
                def recorded_shape(p):
                    m = re.match(r'column \S+ has (\d+) values for (\d+) dates', p)
                    return (m and int(m.group(1)) == int(m.group(2)) + 1) or ('is drawn +1 day(s) away' in p)
                if name in findings and all(recorded_shape(p) for p in problems):
                    known[name] += 1
                    continue
                bad += 1
                res.violation({'case': case_json(c), 'cases': [case_json(c)], 'zero_dates': [zero_at.get(i, -1)], 'problems': problems, 'columns': [(cn, len(v)) for cn, _, v in cols], 'dates': len(dates),
                               'oracle': 'one value per date in every column; close / annotation / outcome / indicator values are those of the row date'})
        bad_box[0] += bad
        all_rlines.extend(rlines)

    run_batch(cases, '')
    if not replay:
        # a report whose strategy never trades shows nothing in its annotation and outcome columns: make sure every strategy has
        # reports with trades, by adding series and configurations for the ones that stayed flat in the first batch
        for rnd in range(3):
            flat = [nm for nm in list(SCAT) + list(WRAPPED) + ['MacdRsi'] if traded[nm] < 2 and nm != 'BuyAndHold']
            if not flat:
                break
            extra = []
            for nm in flat:
                for j in range(6):
                    if nm in SCAT:
                        ns, fs = SCAT[nm]['cfg'](rng, 6)
                        ns, fs = list(ns), list(fs)
                        w = strat_idle(nm, ns)
                    else:
                        ns, fs, w = [], [], 40
                    o, regime = gen_ohlcv(rng, w + rng.choice([30, 60, 90]), ['zigzag', 'walk', 'wide', 'dips', 'up', 'down'][(j + rnd) % 6])
                    extra.append((nm, ns, fs, o, regime))
            run_batch(extra, 'x%d' % rnd)
            cases = cases + extra
    bad = bad_box[0]
    rlines = all_rlines
    # strategy reports as the backtest writes them (HTMLReport with its own defaults, WriteStrategyReports on): every page has the
    # snapshots of the look-back window as its rows
    bt_cases = []
    if not replay:
        pool = ['bh', 'macd', 'rsi', 'trix', 'bop', 'vwma', 'kdjA']
        for _ in range(6 if tier == 'quick' else 60):
            bt_cases.append((rng.choice([1, 2, 4]), 'htmlfull', rng.choice([20, 45, 365]), ','.join(rng.sample(pool, rng.randrange(1, 4))),
                             rng.randrange(1 << 30), rng.randrange(1, 4), rng.choice([15, 40, 70])))
    else:
        bt_cases = [tuple(c) for c in json.load(open(replay)).get('bt_cases', [])]
    # reports built directly with the helper API (columns on the main chart before any AddChart), several times in one process
    if not replay:
        gp = vlib.run_go(['p0 REPORTPLAIN 3'], nproc=1).get('p0', 'missing')
        stats['plain_report_renderings'] += 6
        if not gp.startswith('ok same'):
            bad += 1
            res.violation({'cases': [], 'lines': ['REPORTPLAIN 3'], 'go_output': gp[:400],
                           'oracle': 'a report object starts from nothing but its arguments: the same report built again renders identically'})
    if bt_cases:
        gb = vlib.run_go(['b%d BT %s' % (i, ' '.join(map(str, c))) for i, c in enumerate(bt_cases)], nproc=4)
        for i, c in enumerate(bt_cases):
            g = gb.get('b%d' % i, 'missing')
            stats['backtest_report_runs'] += 1
            if not g.startswith('ok fine'):
                bad += 1
                res.violation({'bt_cases': [list(c)], 'cases': [], 'go_output': g[:400],
                               'oracle': 'every strategy report written by a backtest (HTMLReport defaults) has the snapshots of the look-back window as its date rows'})
    for comp, f in findings.items():
        if known.get(comp):
            res.known_hit.append(known_line(f) + ' [%d cases]' % known[comp])
    res.samples = [{'case': rlines[i][:160] + '…'} for i in (0, len(rlines) // 2)]
    res.coverage.update({
        'evaluations': len(cases), 'distinct_nontrivial': len(cells),
        'rule': 'strategy (32 base, 12 compound/decorated) x configuration x regime, series longer than the warm-up; the date channel and every '
                'column channel of the Report are drained by independent readers (reflection on the private `values` field) and compared',
        'column_statistics': dict(stats), 'reports_with_trades_per_strategy': dict(traded), 'violations_found': bad, 'known_findings_seen': dict(known),
        'traces_validated_against_impl': len(cases), 'trusted_base': vlib.TRUSTED +
        ['the template pulls one value per column per date (helper/report.tmpl: `range .Date` calling .Value on every column), so equal channel lengths = one value per row'],
    })
    res.assumptions = ['indicator columns are matched against the documented indicator run on the documented fields; a column that matches none '
                       '(e.g. KdjStrategy.Report computes KDJ from (high, high, close)) is counted as unmatched, not judged',
                       'HTML rendering itself (text/template) is trusted']
    return res.finish()
