#!/usr/bin/env python3
"""Generates lean/IndicatorVerif/Props/C06.lean: the action at position i >= idle is the documented
rule applied to the values the documented indicator (its C01/C02 model) takes at position i on the
documented price fields."""
import os, sys
sys.path.insert(0, os.path.dirname(os.path.abspath(__file__)))
from gen_c02 import ROOT

D = 'den x'
# name, params, hyps, cfg, rule expression (Lean) in terms of x and i
T = [
 ('Macd', ['p1', 'p2', 'p3'], ['1 ≤ p1', 'p1 ≤ p2', '1 ≤ p3'],
  '''let m := den x ((macd p1 p2 p3 sClose).getD 0 sClose) i
     let s := den x ((macd p1 p2 p3 sClose).getD 1 sClose) i
     if Arith.gt m s && Arith.lt m hold then buy else if Arith.gt s m && Arith.gt m hold then sell else hold'''),
 ('GoldenCross', ['f', 's'], ['1 ≤ f', 'f ≤ s'],
  '''let a := den x (ema f (Arith.nat 2) sClose) i
     let b := den x (ema s (Arith.nat 2) sClose) i
     if Arith.gt a b then buy else if Arith.lt a b then sell else hold'''),
 ('TripleMovingAverageCrossover', ['f', 'm', 's'], ['1 ≤ f', '1 ≤ m', 'f ≤ s', 'm ≤ s'],
  '''let a := den x (ema f (Arith.nat 2) sClose) i
     let b := den x (ema m (Arith.nat 2) sClose) i
     let c := den x (ema s (Arith.nat 2) sClose) i
     if Arith.gt a b && Arith.gt a c then buy else if Arith.lt a b && Arith.lt a c then sell else hold'''),
 ('Trix', ['p'], ['1 ≤ p'], 'signRule (den x (trix p sClose) i)'),
 ('Rsi', ['p'], ['1 ≤ p'],
  '''let v := den x (rsi p sClose) i
     if Arith.le v (fs.getD 0 zero) then buy else if Arith.ge v (fs.getD 1 zero) then sell else hold'''),
 ('StochasticRsi', ['p'], ['1 ≤ p'],
  '''let v := den x (stochasticRsi p sClose) i
     if Arith.le v (fs.getD 0 zero) then buy else if Arith.ge v (fs.getD 1 zero) then sell else hold'''),
 ('Kama', ['er', 'fast', 'slow'], ['1 ≤ er'],
  '''let k := den x (kama er fast slow sClose) i
     let c := x 3 i
     if Arith.gt c k then buy else if Arith.lt c k then sell else hold'''),
 ('Vwma', ['p'], ['1 ≤ p'],
  '''let a := den x (sma p sClose) i
     let v := den x (vwma p sClose sVol) i
     if Arith.gt v a then buy else if Arith.gt a v then sell else hold'''),
 ('WeightedAveragePrice', ['p'], ['1 ≤ p'],
  '''let c := x 3 i
     let v := den x (vwap p sClose sVol) i
     if Arith.gt v c then buy else if Arith.lt v c then sell else hold'''),
 ('BollingerBands', ['p'], ['1 ≤ p'],
  '''let upper := den x (bbUpper p sClose) i
     let lower := den x (bbLower p sClose) i
     let c := x 3 i
     if Arith.gt c upper then buy else if Arith.gt lower c then sell else hold'''),
 ('ChaikinMoneyFlow', ['p'], ['1 ≤ p'], 'signRule (den x (cmf p sHigh sLow sClose sVol) i)'),
 ('EaseOfMovement', ['p'], ['1 ≤ p'], 'signRule (den x (emv p sHigh sLow sVol) i)'),
 ('ForceIndex', ['p'], ['1 ≤ p'], 'signRule (den x (fi p sClose sVol) i)'),
 ('MoneyFlowIndex', ['p'], ['1 ≤ p'],
  '''let v := den x (mfi p sHigh sLow sClose sVol) i
     if Arith.ge v (fs.getD 0 zero) then sell else if Arith.le v (fs.getD 1 zero) then buy else hold'''),
 ('AwesomeOscillator', ['s', 'l'], ['1 ≤ s', 's ≤ l'],
  '''let v := den x (awesomeOscillator s l sHigh sLow) i
     if Arith.lt v hold then sell else if Arith.gt v hold then buy else hold'''),
 ('Aroon', ['p'], ['1 ≤ p'],
  'gtRule (den x (aroonLine p (movingMax p sHigh)) i) (den x (aroonLine p (movingMin p sLow)) i)'),
 ('Kdj', ['rp', 'kp', 'dp'], ['1 ≤ rp', '1 ≤ kp', '1 ≤ dp'],
  '''let k := den x ((kdj rp kp dp sHigh sLow sClose).getD 0 sClose) i
     let d := den x ((kdj rp kp dp sHigh sLow sClose).getD 1 sClose) i
     let j := den x ((kdj rp kp dp sHigh sLow sClose).getD 2 sClose) i
     if Arith.gt (j - k) hold && Arith.gt (j - d) hold then buy
     else if Arith.lt (j - k) hold && Arith.lt (j - d) hold then sell else hold'''),
 ('Apo', ['f', 's'], ['1 ≤ f', 'f ≤ s'],
  'crossRule (den x (apo f s sClose) (i - 1)) (den x (apo f s sClose) i)'),
 ('Qstick', ['p'], ['1 ≤ p'],
  'crossRule (den x (qstick p sOpen sClose) (i - 1)) (den x (qstick p sOpen sClose) i)'),
 ('WeightedClose', ['p'], ['1 ≤ p'],
  '''let wc := den x (weightedClose sHigh sLow sClose) i
     let ma := den x (sma p (weightedClose sHigh sLow sClose)) i
     if Arith.gt wc ma then buy else sell'''),
 ('NegativeVolumeIndex', ['ep'], ['1 ≤ ep'],
  '''let n := den x (nvi (fs.getD 0 zero) sClose sVol) i
     let e := den x (ema ep (Arith.nat 2) (nvi (fs.getD 0 zero) sClose sVol)) i
     if Arith.lt n e then buy else if Arith.gt n e then sell else hold'''),
 ('Tsi', ['f', 's', 'sig'], ['1 ≤ f', '1 ≤ s', '1 ≤ sig'],
  '''let t := den x (tsi f s sClose) i
     let g := den x (ema sig (Arith.nat 2) (tsi f s sClose)) i
     if Arith.gt t hold && Arith.gt t g then buy else if Arith.lt t hold && Arith.lt t g then sell else hold'''),
 # as written (known finding): the high price feeds all three CCI inputs
 ('Cci', ['p'], ['1 ≤ p'],
  '''let c := den x (cci p sHigh sHigh sHigh) i
     if Arith.ge c (Arith.nat 100) then buy else if Arith.le c (Arith.neg (Arith.nat 100)) then sell else hold'''),
]

HEAD = '''import IndicatorVerif.Props.C05
/-
  C06 — each base strategy applies its documented rule to the documented data.
  GENERATED by tools/gen/gen_c06.py.

  `X_rule`: the strategy body is `Shift(idle, Hold)` over an inner stream (C05) whose value for every
  position i is the documented decision rule applied to the value that the documented indicator —
  the very model term verified by C01/C02, on the documented snapshot fields
  (`sOpen … sVol` = inputs 0 … 4 = open, high, low, close, volume) — takes *at the same position i*.
  With `C05.action_is_decision` this is the action delivered for snapshot i, for every i ≥ idle.
  A wrong price field, an inverted comparison or a misplaced Skip in the model would make the
  statement unprovable; the model itself is tied to the Go code by the correspondence run.
  `cci_rule` records the as-is wiring of CciStrategy (high, high, high): known finding.
-/
namespace C06
open Sig Ind Strat
variable {α : Type} [Arith α]

/-- past the warm-up the shifted stream carries the inner decision for the same position -/
theorem den_shifted (e : SEntry α) (inner : Sig α) (hs : e.sig = shift e.idle hold inner)
    (hg : Good inner e.idle 5) (x : Nat → Nat → α) (i : Nat) (hi : e.idle ≤ i) :
    den x e.sig i = den x inner i := by
  rw [hs]
  simp only [den, Sig.offD, hg.1, Option.getD_some]
  have : ¬ (i < e.idle) := by omega
  simp [this]

'''

def thm(name, params, hyps, rule, cfg=None, suffix=''):
    binders = ' (' + ' '.join(params) + ' : Nat)' if params else ''
    binders += ' (fs : List α)'
    for k, h in enumerate(hyps):
        binders += ' (h%d : %s)' % (k, h)
    cfg = cfg or '[' + ', '.join(params) + ']'
    lname = name[0].lower() + name[1:] + suffix
    return ('''theorem %s_rule%s :
    ∃ e inner, lookupS "%s" %s fs = some e ∧ e.sig = shift e.idle hold inner ∧ Good inner e.idle 5 ∧
      ∀ (x : Nat → Nat → α) (i : Nat), den x inner i =
        (%s) := by
  unfold_strat
  refine ⟨_, _, rfl, rfl, ?_, ?_⟩
  · unfold_ind
    good_tac
  · intro x i
    rfl

''' % (lname, binders, name, cfg, rule))

def main():
    out = HEAD
    for name, params, hyps, rule in T:
        out += thm(name, params, hyps, rule)
    from gen_c02 import KINDS
    KNAME = {0: '.sma p', 1: '.ema p', 3: '.smma p', 4: '.wma p', 5: '.hma p'}
    for k, kn in KINDS:
        out += thm('Envelope', ['p'], ['1 ≤ p'],
                   '''let u := den x ((envelope (%s) (fs.getD 0 zero) sClose).getD 0 sClose) i
     let l := den x ((envelope (%s) (fs.getD 0 zero) sClose).getD 2 sClose) i
     let c := x 3 i
     if Arith.lt c l then buy else if Arith.gt c u then sell else hold''' % (KNAME[k], KNAME[k]), cfg='[%d, p]' % k, suffix='With' + kn)
    for k, kn in KINDS:
        out += thm('SuperTrend', ['p'], ['1 ≤ p'],
                   '''let st := den x (superTrend (%s) (fs.getD 0 zero) sHigh sLow sClose) i
     let c := x 3 i
     if Arith.lt st c then buy else if Arith.gt st c then sell else hold''' % KNAME[k], cfg='[%d, p]' % k, suffix='With' + kn)
    out += '''/-! non-vacuity -/
example : ∃ e, lookupS (α := Float) "Rsi" [14] [30.0, 70.0] = some e ∧ e.idle = 14 := ⟨_, rfl, rfl⟩

end C06
'''
    open(os.path.join(ROOT, 'lean', 'IndicatorVerif', 'Props', 'C06.lean'), 'w').write(out)
    print('generated', out.count('theorem '), 'theorems')

if __name__ == '__main__':
    main()
