"""C03 (no deadlock, no leak, schedule independence) and C09 (instances reusable, race-free)."""
import random, json, collections, itertools, os
import vlib
from catalog import CAT, make_inputs, gen_ohlcv
from scatalog import SCAT
from c_indicators import load_findings, known_line
from c_strategies import WRAPPED, strat_idle

KINDS_OF = 'ohlcv'


def ind_lengths(rng, ns):
    w = sum(ns) if ns else 1
    base = {0, 1, 2, w - 1, w, w + 1, w + 2, 2 * w + 3, 2 * w + 9}
    for p in ns:
        base.update({p - 1, p, p + 1, 2 * p})
    base.add(rng.randrange(0, 3 * w + 12))
    return sorted(x for x in base if x >= 0)


def sched_line(kind, name, ns, fs, streams, cap, pace):
    return 'SCHED %s %s %s %s %s %d %d' % (kind, name, vlib.il(ns), vlib.fl(fs), vlib.streams(streams), cap, pace)


class ExtremeRng:
    """draws periods at the ends of their range: re-converging branches that lag by a period difference need
    configurations with very different periods to show an insufficient buffer"""
    def __init__(self, rng):
        self.rng = rng

    def randrange(self, a, b=None):
        if b is None:
            a, b = 0, a
        return a if self.rng.random() < 0.5 else b - 1

    def choice(self, xs):
        return self.rng.choice(xs)

    def random(self):
        return self.rng.random()

    def sample(self, xs, k):
        return self.rng.sample(xs, k)


class PatternRng(ExtremeRng):
    """like ExtremeRng, but the k-th period drawn is the low or the high end according to bit k of `pattern`: enumerating the
    patterns gives every combination of extreme periods (short fast / long slow, long first / short second, …) on every run"""
    def __init__(self, rng, pattern):
        self.rng, self.pattern, self.k = rng, pattern, 0

    def randrange(self, a, b=None):
        if b is None:
            a, b = 0, a
        bit = (self.pattern >> self.k) & 1
        self.k += 1
        return b - 1 if bit else a


def gen_pipelines(rng, tier):
    """list of dict(kind, name, ns, fs, streams, lens, ref_line or None)"""
    cases = []
    hi = 6 if tier == 'quick' else 12
    cfgs = 4 if tier == 'quick' else 8
    xr = ExtremeRng(rng)
    for name, (kinds, cfg, default) in CAT.items():
        seen_ns = set()
        plan = list(range(cfgs)) + [('pattern', b) for b in range(1, 8)]
        for j in plan:
            if isinstance(j, tuple):
                # every combination of extreme periods for the first three period parameters (deterministic, not drawn)
                ns, fs = cfg(PatternRng(rng, j[1]), 2 * hi)
                if tuple(ns) in seen_ns:
                    continue
                j = 1
            elif j % 4 == 2:
                ns, fs = cfg(xr, 2 * hi)
            elif j % 4 == 3:
                ns, fs = cfg(rng, 3 * hi)
            else:
                ns, fs = cfg(rng, hi if j else 3)
            ns, fs = list(ns), list(fs)
            seen_ns.add(tuple(ns))
            lens = ind_lengths(rng, ns)
            if tier == 'quick':
                lens = sorted(set(rng.sample(lens, min(len(lens), 6)) + [0, 1]))
            for n in lens:
                streams, _, _ = make_inputs(rng, name, n)
                cases.append(dict(kind='IND', name=name, ns=ns, fs=fs, streams=streams, lens=[n] * len(streams), equal=True))
            # unequal input lengths
            if len(kinds) > 1:
                for _ in range(4 if tier == 'quick' else 8):
                    n = rng.choice(lens[2:] or [3]) + rng.choice([0, 0, 6, 15])
                    streams, _, _ = make_inputs(rng, name, n + 4)
                    # small and large differences: a stream that ends many elements early exhausts every internal buffer
                    cut = [max(0, n + rng.choice([-(n // 2 + 1), -8, -3, -1, 0, 0, 2, 4])) for _ in streams]
                    streams = [s[:c] for s, c in zip(streams, cut)]
                    cases.append(dict(kind='IND', name=name, ns=ns, fs=fs, streams=streams, lens=[len(s) for s in streams], equal=False))
                # each input in turn ends well before the others (which then have to be drained while still feeding one another)
                for idx in (range(len(kinds)) if (j == 0 or tier != 'quick') else [rng.randrange(len(kinds))]):
                    n = rng.choice(lens[2:] or [3]) + rng.choice([8, 15, 25])
                    streams, _, _ = make_inputs(rng, name, n)
                    streams = [s[:max(0, n - rng.choice([6, 12, n // 2 + 1]))] if k == idx else s for k, s in enumerate(streams)]
                    cases.append(dict(kind='IND', name=name, ns=ns, fs=fs, streams=streams, lens=[len(s) for s in streams], equal=False))
    snames = list(SCAT.keys())
    for name in snames:
        sc = SCAT[name]
        for j in range(cfgs):
            if j % 4 == 2:
                ns, fs = sc['cfg'](xr, 2 * hi)
            else:
                ns, fs = sc['cfg'](rng, hi if j else 3)
            ns, fs = list(ns), list(fs)
            w = strat_idle(name, ns)
            lens = sorted({0, 1, max(0, w - 1), w, w + 1, w + 2, 2 * w + 3, rng.randrange(0, 3 * w + 10)})
            if tier == 'quick':
                lens = sorted(set(rng.sample(lens, min(len(lens), 4)) + [0]))
            for n in lens:
                o, _ = gen_ohlcv(rng, n)
                streams = [o[k] for k in KINDS_OF]
                for kind in ('STRAT', 'REPORT', 'OUTCOME'):
                    if kind != 'STRAT' and tier == 'quick' and rng.random() < 0.5:
                        continue
                    cases.append(dict(kind=kind, name=name, ns=ns, fs=fs, streams=streams, lens=[n], equal=True))
    for wname in WRAPPED + ['MacdRsi']:
        for n in ([0, 1, 7, 30] if tier == 'quick' else [0, 1, 2, 5, 7, 8, 9, 12, 30, 61]):
            o, _ = gen_ohlcv(rng, n)
            streams = [o[k] for k in KINDS_OF]
            for kind in ('STRAT', 'REPORT', 'OUTCOME'):
                cases.append(dict(kind=kind, name=wname, ns=[], fs=[], streams=streams, lens=[n], equal=True))
    return cases


def settings(tier, rng):
    if tier == 'quick':
        return [(1, 0, 0), (2, 0, 1), (16, 1, 5), (16, 3, 3), (2, 0, 4), (16, 0, 7), (1, 64, 2), (2, 0, 6)]
    return list(itertools.product([1, 2, 16], [0, 1, 3, 64], range(9)))


def parse_sched(g):
    f = g.split(' | ')
    head = f[0].split(' ')
    d = {'status': head[0]}
    for kv in head[1:]:
        if '=' in kv:
            k, v = kv.split('=', 1)
            d[k] = v
    d['outs'] = f[1].strip() if len(f) > 1 else None
    return d


def model_line(c):
    if c['kind'] == 'IND':
        return 'INDM %s %s %s %s' % (c['name'], vlib.il(c['ns']), vlib.fl(c['fs']), vlib.streams(c['streams']))
    if c['kind'] == 'STRAT' and ':' not in c['name'] and c['name'] != 'MacdRsi':
        return 'STRAT %s %s %s %s' % (c['name'], vlib.il(c['ns']), vlib.fl(c['fs']), vlib.streams(c['streams']))
    return None


def model_outs(c, m):
    """canonical outs string of the Lean model's answer, or None"""
    if not m or not m.startswith('ok'):
        return None
    f = m.split(' | ')
    return f[1].strip() if len(f) > 1 else ''


def same_outs(kind, a, b):
    """a: Go outs, b: model outs; floats compared with the usual tolerance (NaN payloads, fused ops)"""
    if a == b:
        return True
    if kind != 'IND':
        return False
    sa, sb = vlib.parse_hex_streams(a), vlib.parse_hex_streams(b)
    diff, _, _ = vlib.cmp_streams(sa, sb)
    return diff is None


def check_c03(res, tier, replay):
    rng = random.Random(vlib.seed() + 3)
    vlib.apply_obligations(res, 'C03')
    findings = load_findings('C03')
    if replay:
        rp = json.load(open(replay))
        cases = rp.get('cases') or [rp['case']]
        setts = [tuple(s) for s in rp.get('settings', [])] or settings(tier, rng)
    else:
        cases = gen_pipelines(rng, tier)
        setts = settings(tier, rng)
    # model expectations (equal-length inputs: the list semantics; unequal lengths are compared Go-vs-Go)
    mlines = {}
    for i, c in enumerate(cases):
        ml = model_line(c)
        if ml and c['equal']:
            mlines[i] = 'p%d %s' % (i, ml)
    model = vlib.run_model(list(mlines.values())) if mlines else {}
    runs = 0
    verdicts = collections.Counter()
    known = collections.Counter()
    bad = 0
    ref = {}
    per_kind = collections.Counter()
    cells = set()
    model_cmp = 0
    for (procs, cap, pace) in setts:
        lines = ['p%d %s' % (i, sched_line(c['kind'], c['name'], c['ns'], c['fs'], c['streams'], cap, pace)) for i, c in enumerate(cases)]
        go = vlib.run_go(lines, env_extra={'GOMAXPROCS': str(procs)}, nproc=8 if procs > 2 else 16)
        for i, c in enumerate(cases):
            cid = 'p%d' % i
            g = go.get(cid, 'missing')
            if g.startswith('crash') or g == 'missing':
                g = vlib.run_go([lines[i]], env_extra={'GOMAXPROCS': str(procs)}, nproc=1).get(cid, 'crash')
            d = parse_sched(g)
            runs += 1
            verdicts[d['status']] += 1
            per_kind[c['kind']] += 1
            cells.add((c['kind'], c['name'], min(c['lens']) if c['lens'] else 0, c['equal']))
            problem = None
            if d['status'] != 'ok':
                problem = 'pipeline did not terminate: ' + g[:300]
            else:
                want = ','.join(str(x) for x in c['lens']) if c['kind'] == 'IND' else str(c['lens'][0])
                if d.get('consumed') != want and c['streams']:
                    problem = 'inputs not consumed: consumed=%s of %s' % (d.get('consumed'), want)
                elif not d.get('leak', '0:-').startswith('0:'):
                    problem = 'goroutines left after all outputs closed: ' + d.get('leak', '')
                else:
                    key = i
                    if key not in ref:
                        ref[key] = (d['outs'], (procs, cap, pace))
                    elif ref[key][0] != d['outs']:
                        problem = 'outputs differ between schedules %s and %s' % (ref[key][1], (procs, cap, pace))
                    if problem is None and i in mlines:
                        mo = model_outs(c, model.get(cid))
                        model_cmp += 1
                        if mo is None:
                            problem = 'model did not answer: %s' % str(model.get(cid))[:120]
                        elif not same_outs(c['kind'], d['outs'], mo):
                            problem = 'outputs differ from the model (list semantics): go=%s model=%s' % (d['outs'][:160], mo[:160])
            if problem:
                kf = findings.get(c['name'])
                if kf and kf.get('kinds', c['kind']).find(c['kind']) >= 0:
                    known[known_line(kf)] += 1
                    continue
                bad += 1
                res.coverage.setdefault('problems', collections.Counter())[(c['kind'], c['name'], c['equal'], problem.split(':')[0][:40])] += 1
                if bad <= 40:
                    res.violation({'case': c, 'settings': [[procs, cap, pace]], 'problem': problem, 'go_output': g[:400],
                                   'oracle': 'terminates (every output closed, every reader done), every input fully consumed, no library goroutine left, outputs identical for every schedule and equal to the Lean model'})
    # the machine-level model of one re-converging pipeline against the same pipeline built from the Go helpers
    net_runs, net_bad = net_correspondence(res, tier, rng)
    bad += net_bad
    for k, v in known.items():
        res.known_hit.append('%s [%d runs]' % (k, v))
    res.samples = [{'case': '%s %s ns=%s lens=%s' % (c['kind'], c['name'], c['ns'], c['lens'])} for c in cases[:3]]
    res.coverage.update({
        'evaluations': runs, 'distinct_nontrivial': len(cells),
        'rule': 'pipeline (61 indicators, 32 strategies as Compute / Report / ComputeWithOutcome, compound and decorated strategies) x configuration x input length '
                '(0, 1, around every period and the warm-up, unequal lengths for multi-input indicators) x schedule setting (GOMAXPROCS, input channel capacity, pacing mode)',
        'settings': [list(s) for s in setts], 'pipelines': len(cases), 'runs_per_kind': dict(per_kind), 'verdicts': dict(verdicts),
        'compared_with_model': model_cmp, 'network_model_runs': net_runs, 'violations_found': bad, 'problems': {str(k): v for k, v in res.coverage.get('problems', {}).items()}, 'traces_validated_against_impl': runs,
        'pacing_modes': '0 none, 1 Gosched per op, 2 slow producers, 3 slow consumers, 4 last reader starts late, 5 random sleeps/yields, 6 first reader starts late, 7 bursty readers, 8 producers start late',
        'trusted_base': vlib.TRUSTED + ['deadlock verdict: no progress and every goroutine of the process blocked on a channel/lock in two censuses (runtime.Stack)',
                                         'Go scheduler explored by GOMAXPROCS and pacing only; the schedule-independence theorem (C03.determinacy) is what extends one observed schedule to all'],
    })
    res.assumptions = ['the library stays inside the process class of the theorem (sequential goroutines, blocking channel operations only, one reader and one writer per channel): checked by the source scan in tools/c_runtime.py']
    scan_class(res)
    return res.finish()


def net_correspondence(res, tier, rng):
    """Duplicate -> Operate -> Operate (NetM.diamondNet, repaired Operate) in Lean vs helper.Add(helper.Add(d0, b), d1) in Go:
    verdict (clean termination / deadlock) and delivered values, for all small length pairs and capacities"""
    top = 4 if tier == 'quick' else 7
    cases = [(la, lb, cap) for la in range(top) for lb in range(top) for cap in (0, 1, 2)]
    glines, mlines = [], []
    for i, (la, lb, cap) in enumerate(cases):
        a = [float(k + 1) for k in range(la)]
        b = [float(10 * (k + 1)) for k in range(lb)]
        glines.append('n%d SCHED NET diamond - - %s %d %d' % (i, vlib.streams([a, b]), cap, i % 6))
        mlines.append('n%d NET diamond 1 %d %s %s' % (i, cap, vlib.il(a), vlib.il(b)))
    # helper.Change rebuilt from Duplicate / Buffered / Skip / Subtract with a buffer of b (b < k deadlocks on small capacities)
    ktop = 3 if tier == 'quick' else 5
    for n in range(0, 7 if tier == 'quick' else 10):
        for k in range(0, ktop + 1):
            for b in range(0, k + 2):
                for cap in (0, 1, 2):
                    i = len(cases)
                    cases.append((n, 'k=%d,b=%d' % (k, b), cap))
                    a = [float(2 ** j) for j in range(n)]
                    glines.append('n%d SCHED NET change - - %s %d %d' % (i, vlib.streams([a, [float(k), float(b)]]), cap, i % 6))
                    mlines.append('n%d NET change 1 %d %s %d,%d' % (i, cap, vlib.il(a), k, b))
    # trend.MovingSum as the library builds it (Duplicate / Shift / summing Operate / Skip): NetM.msumNet with buffer cap + p
    for n in range(0, 8 if tier == 'quick' else 14):
        for p in range(1, 5 if tier == 'quick' else 8):
            for cap in (0, 1, 2):
                i = len(cases)
                cases.append((n, 'p=%d' % p, cap))
                a = [float((7 * j * j + 3 * j) % 23 - 9) for j in range(n)]
                glines.append('n%d SCHED NET msum - - %s %d %d' % (i, vlib.streams([a, [float(p)]]), cap, i % 6))
                mlines.append('n%d NET msum 1 %d %s %d,%d' % (i, cap, vlib.il(a), p, cap + p))
    # trend.MovingMax / MovingMin: the MovingSum network with a search-tree closure (NetM.winNet), duplicates and zeros included
    for n in range(0, 8 if tier == 'quick' else 14):
        for p in range(1, 5 if tier == 'quick' else 8):
            for cap in (0, 2):
                for which in ('wmax', 'wmin'):
                    i = len(cases)
                    cases.append((n, '%s p=%d' % (which, p), cap))
                    a = [float((5 * j * j + 2 * j) % 7 - 3) for j in range(n)]
                    glines.append('n%d SCHED NET %s - - %s %d %d' % (i, which, vlib.streams([a, [float(p)]]), cap, i % 6))
                    mlines.append('n%d NET %s 1 %d %s %d,%d' % (i, which, cap, vlib.il(a), p, cap + p))
    # trend.Sma = MovingSum followed by the dividing Apply (NetM.smaNet); inputs are multiples of p so that every average is an integer
    for n in range(0, 8 if tier == 'quick' else 14):
        for p in range(1, 5 if tier == 'quick' else 8):
            for cap in (0, 1, 2):
                i = len(cases)
                cases.append((n, 'sma p=%d' % p, cap))
                a = [float(p * ((7 * j * j + 3 * j) % 23 - 9)) for j in range(n)]
                glines.append('n%d SCHED NET sma - - %s %d %d' % (i, vlib.streams([a, [float(p)]]), cap, i % 6))
                mlines.append('n%d NET sma 1 %d %s %d,%d' % (i, cap, vlib.il(a), p, cap + p))
    # trend.Ema: Head + Sma seed, then the indicator's goroutine reads the input itself (NetM.recurNet; inputs are multiples of p
    # and the multiplier is an integer so that Go's float64 values are exact integers)
    for n in range(0, 9 if tier == 'quick' else 16):
        for p in range(1, 5 if tier == 'quick' else 8):
            for cap in (0, 1, 2):
                for mul in ((2,) if tier == 'quick' else (2, -1)):
                    i = len(cases)
                    cases.append((n, 'p=%d,mul=%d' % (p, mul), cap))
                    a = [float(p * ((5 * j * j + j) % 11 - 4)) for j in range(n)]
                    glines.append('n%d SCHED NET ema - - %s %d %d' % (i, vlib.streams([a, [float(p), float(mul)]]), cap, i % 6))
                    mlines.append('n%d NET ema 1 %d %s %d,%d' % (i, cap, vlib.il(a), p, mul))
    go, model = vlib.run_go(glines), vlib.run_model(mlines)
    bad = 0
    for i, c in enumerate(cases):
        g, m = parse_sched(go.get('n%d' % i, 'missing')), model.get('n%d' % i, 'missing')
        mv, mo = (m.split(' | ') + [''])[:2]
        gv = [int(vlib.h2f(x)) for x in g['outs'].split(',')] if g.get('outs') not in (None, '-', '_') else []
        mvv = [int(x) for x in mo.split(',')] if mo.strip() not in ('', '-') else []
        if g['status'] != mv.strip() or (g['status'] == 'ok' and gv != mvv):
            bad += 1
            res.violation({'broken': 'correspondence', 'name': 'NET diamond', 'case': {'kind': 'NET', 'name': 'diamond/change', 'ns': [], 'fs': [], 'streams': [], 'lens': [str(v) for v in c[:2]], 'equal': False},
                           'go_output': go.get('n%d' % i, '')[:200], 'model_output': m[:200],
                           'note': 'the Go helpers no longer behave like the machines of the network model'}, no_failing_input=(g['status'] == 'ok'))
    return len(cases), bad


# ------------------------------------------------------------------------------------------ class scan
import re


def scan_class(res):
    """The determinacy theorem speaks about sequential processes that only block on single channel operations.
    Scan the non-test library sources of the pipeline packages for constructs outside that class."""
    pk = ['helper', 'trend', 'momentum', 'volatility', 'volume', 'strategy']
    hits = []
    nfiles = 0
    allow = load_class_allow()
    for p in pk:
        for dp, _, fs in os.walk(os.path.join(vlib.REPO, p)):
            for f in fs:
                if not f.endswith('.go') or f.endswith('_test.go'):
                    continue
                nfiles += 1
                path = os.path.join(dp, f)
                rel = os.path.relpath(path, vlib.REPO)
                txt = open(path).read()
                txt = re.sub(r'//.*', '', txt)
                txt = re.sub(r'/\*.*?\*/', '', txt, flags=re.S)
                for pat, what in ((r'\bselect\s*\{', 'select statement'), (r'\blen\(\s*\w*[cC]han\w*\s*\)', 'len() of a channel'),
                                  (r'\btime\.(After|Sleep|Tick|NewTimer)', 'timer'), (r'\bsync\.(Mutex|RWMutex|Cond|Once)', 'lock'),
                                  (r'\batomic\.', 'atomic'), (r'\bruntime\.Gosched', 'yield')):
                    for m in re.finditer(pat, txt):
                        key = '%s: %s' % (rel, what)
                        if key not in allow and key not in hits:
                            hits.append(key)
    res.coverage['class_scan'] = {'files': nfiles, 'constructs_outside_class': hits, 'allowed': sorted(allow)}
    if hits:
        res.violation({'broken': 'correspondence', 'name': 'process-class scan',
                       'hits': hits, 'note': 'the library now uses constructs outside the class the determinacy theorem covers; '
                       'schedule independence is no longer implied by the theorem'}, no_failing_input=True)


def load_class_allow():
    path = os.path.join(vlib.ROOT, 'tools', 'class_allow.json')
    return set(json.load(open(path))) if os.path.exists(path) else set()


# ------------------------------------------------------------------------------------------ C09
def check_c09(res, tier, replay):
    rng = random.Random(vlib.seed() + 9)
    vlib.apply_obligations(res, 'C09')
    ok, msg = vlib.build_harness(race=True)
    if not ok:
        res.violation({'broken': 'correspondence', 'name': 'race-detector build', 'build_msg': msg[-2000:]}, True)
        return res.finish()
    hi = 6 if tier == 'quick' else 12
    k_inputs = 6 if tier == 'quick' else 9
    cases = []
    if replay:
        cases = json.load(open(replay)).get('cases', [])
    else:
        for name, (kinds, cfg, default) in CAT.items():
            for j in range(1 if tier == 'quick' else 4):
                ns, fs = cfg(rng, hi)
                ns, fs = list(ns), list(fs)
                w = sum(ns) if ns else 1
                envs = []
                for t in range(k_inputs):
                    n = rng.choice([0, 1, w, w + 1, 2 * w + 3, rng.randrange(0, 3 * w + 20), 3 * w + 20])
                    streams, _, _ = make_inputs(rng, name, n)
                    envs.append(streams)
                cases.append(dict(kind='IND', name=name, ns=ns, fs=fs, envs=envs))
        for name in list(SCAT.keys()) + WRAPPED + ['MacdRsi']:
            for j in range(2 if tier == 'quick' else 4):
                if name in SCAT:
                    ns, fs = SCAT[name]['cfg'](rng, hi)
                    ns, fs = list(ns), list(fs)
                    w = strat_idle(name, ns)
                else:
                    ns, fs, w = [], [], 8
                envs = []
                for t in range(k_inputs):
                    n = rng.choice([0, 1, w, w + 1, 2 * w + 3, rng.randrange(0, 3 * w + 30), 3 * w + 30])
                    o, _ = gen_ohlcv(rng, n, rng.choice(['walk', 'wide', 'zigzag', 'down', 'up']))
                    envs.append([o[k] for k in KINDS_OF])
                for kind in ('STRAT', 'REPORT', 'OUTCOME'):
                    cases.append(dict(kind=kind, name=name, ns=ns, fs=fs, envs=envs))
    # reference: each input on a FRESH instance (plain SCHED run), and the Lean model where it has the pipeline
    fresh_lines, reuse_lines, mlines = [], [], []
    for i, c in enumerate(cases):
        for t, env in enumerate(c['envs']):
            fresh_lines.append('f%d_%d %s' % (i, t, sched_line(c['kind'], c['name'], c['ns'], c['fs'], env, 0, 0)))
            ml = model_line(dict(c, streams=env))
            if ml:
                mlines.append('f%d_%d %s' % (i, t, ml))
        reuse_lines.append('u%d REUSE %s %s %s %s both %s' % (i, c['kind'], c['name'], vlib.il(c['ns']), vlib.fl(c['fs']),
                                                           '/'.join(vlib.streams(e) for e in c['envs'])))
        # … and a fresh instance whose very first calls are concurrent (lazily initialised state races only then)
        reuse_lines.append('v%d REUSE %s %s %s %s conc %s' % (i, c['kind'], c['name'], vlib.il(c['ns']), vlib.fl(c['fs']),
                                                           '/'.join(vlib.streams(e) for e in c['envs'])))
    fresh = vlib.run_go(fresh_lines)
    model = vlib.run_model(mlines) if mlines else {}
    race_env = {'GORACE': 'halt_on_error=0 exitcode=0 log_path=stderr', 'GOMAXPROCS': '8'}
    reuse, race_reports = run_race(reuse_lines, race_env)
    bad = 0
    calls = 0
    model_cmp = 0
    for i, c in enumerate(cases):
        g = reuse.get('u%d' % i, 'missing')
        if not g.startswith('ok seq='):
            bad += 1
            res.violation({'cases': [c], 'problem': 'reuse run failed: ' + g[:300]})
            continue
        seq = g[len('ok seq='):].split(' conc=')[0].split('#')
        conc = g.split(' conc=')[1].split('#')
        g2 = reuse.get('v%d' % i, 'missing')
        conc_first = g2.split(' conc=')[1].split('#') if g2.startswith('ok seq=') else None
        if conc_first is None:
            bad += 1
            res.violation({'cases': [c], 'problem': 'concurrent first use failed: ' + g2[:300]})
            continue
        for t in range(len(c['envs'])):
            f = parse_sched(fresh.get('f%d_%d' % (i, t), 'missing'))
            want = f.get('outs')
            mo = model_outs(c, model.get('f%d_%d' % (i, t)))
            for how, got in (('sequential call #%d' % (t + 1), seq[t] if t < len(seq) else None),
                             ('concurrent call #%d' % (t + 1), conc[t] if t < len(conc) else None),
                             ('concurrent first use, call #%d' % (t + 1), conc_first[t] if t < len(conc_first) else None)):
                calls += 1
                problem = None
                if f['status'] != 'ok':
                    problem = 'fresh-instance reference did not terminate: %s' % f['status']
                elif got != want:
                    problem = '%s on a reused instance differs from a fresh instance: reused=%s fresh=%s' % (how, str(got)[:160], str(want)[:160])
                elif mo is not None:
                    model_cmp += 1
                    if not same_outs(c['kind'], got, mo):
                        problem = '%s differs from the model: go=%s model=%s' % (how, str(got)[:160], mo[:160])
                if problem:
                    bad += 1
                    if bad <= 30:
                        res.violation({'cases': [c], 'call': t, 'problem': problem,
                                       'oracle': 'every call on one instance (any order, also concurrently) = the same call on a fresh instance = the Lean model (a function of configuration and input only)'})
    # one instance on several sides of a compound (Split(m, m), And(m, m), Majority(m, m, x)): the wrapped strategy is then computed
    # concurrently on the same snapshots, and the compound must equal the one built from separate, equally configured instances
    same_n = 0
    if not replay:
        sl, pairs = [], []
        for wrap, tmpl in (('Split', '%s+%s'), ('And', '%s+%s'), ('Or', '%s+%s'), ('Majority', '%s+%s+Bop'), ('Majority', '%s+Bop+%s')):
            for base in ('Macd', 'Rsi', 'Kdj', 'SuperTrend', 'Trix', 'Vwma'):
                for j in range(1 if tier == 'quick' else 4):
                    o, _ = gen_ohlcv(rng, rng.choice([0, 3, 12, 30, 60]), rng.choice(['walk', 'wide', 'zigzag', 'down', 'up']))
                    env = [o[k] for k in KINDS_OF]
                    k = len(pairs)
                    ref_pos = '@0' if tmpl.index('%s', 3) == 3 else '@0'
                    shared_name = wrap + ':' + (tmpl % (base, '@0'))
                    separate_name = wrap + ':' + (tmpl % (base, base))
                    pairs.append((shared_name, separate_name, env))
                    sl.append('y%d_a %s' % (k, sched_line('STRAT', shared_name, [], [], env, 0, 0)))
                    sl.append('y%d_b %s' % (k, sched_line('STRAT', separate_name, [], [], env, 0, 0)))
        sg_ = vlib.run_go(sl)
        for k, (a, b, env) in enumerate(pairs):
            ga, gb = parse_sched(sg_.get('y%d_a' % k, 'missing')), parse_sched(sg_.get('y%d_b' % k, 'missing'))
            same_n += 1
            if ga.get('status') != gb.get('status') or ga.get('outs') != gb.get('outs'):
                bad += 1
                if bad <= 30:
                    res.violation({'problem': '%s (one instance on two sides) differs from %s (separate instances): shared=%s %s separate=%s %s'
                                   % (a, b, ga.get('status'), str(ga.get('outs'))[:120], gb.get('status'), str(gb.get('outs'))[:120]),
                                   'lines': [sl[2 * k].split(' ', 1)[1], sl[2 * k + 1].split(' ', 1)[1]],
                                   'oracle': 'an instance may be used concurrently: a compound over one instance twice = the compound over two equal instances'})
    res.coverage['one_instance_on_two_sides'] = same_n
    # instances handed out by the library are independent objects: overwriting the configuration of one set of registry / default
    # constructor instances in place must not change how other instances (built before or after) behave
    al = []
    for j in range(2 if tier == 'quick' else 8):
        o, _ = gen_ohlcv(rng, rng.choice([230, 260, 300]), rng.choice(['walk', 'wide', 'zigzag']))
        al.append('al%d ALIAS %s' % (j, vlib.streams([o[k] for k in KINDS_OF])))
    ag = vlib.run_go(al, nproc=2)
    for j, ln in enumerate(al):
        g = ag.get('al%d' % j, 'missing')
        if not g.startswith('ok independent'):
            bad += 1
            res.violation({'problem': 'instances returned by the registries / default constructors share state: ' + g[:400], 'lines': [ln.split(' ', 1)[1][:3000]],
                           'oracle': 'an instance holds its own configuration: re-configuring one instance in place leaves every other instance unchanged'})
    res.coverage['alias_runs'] = len(al)
    # shared instances: the library's own compound lists
    shared = vlib.run_go(['x0 SHARED %d' % (3 if tier == 'quick' else 8)], race=True, env_extra=race_env, nproc=1)
    sg = shared.get('x0', 'missing')
    if not sg.startswith('ok'):
        bad += 1
        res.violation({'problem': 'AllSplitStrategies/AllAndStrategies sharing instances, run concurrently: ' + sg[:300], 'lines': ['SHARED']})
    race_reports = list(race_reports) + [r for r in vlib.race_reports()]
    # reports rendered concurrently, as the first thing a fresh process does (lazy package-level initialisation races only then)
    wr = vlib.run_go(['x1 WRITERS %d' % (3 if tier == 'quick' else 6)], race=True, env_extra=race_env, nproc=1)
    wg_ = wr.get('x1', 'missing')
    if not wg_.startswith('ok writers='):
        bad += 1
        res.violation({'problem': 'strategy reports written concurrently: ' + wg_[:300], 'lines': ['WRITERS 3']})
    race_reports += [r for r in vlib.race_reports()]
    for rr in race_reports[:5]:
        bad += 1
        res.violation({'problem': 'data race reported by the Go race detector', 'report': rr[:3000], 'cases': 'see report (REUSE / SHARED / WRITERS batch)'})
    rc_n, rc_bad = check_reconf(res, rng, tier, ('IND', 'STRAT', 'WRAPPED'), 'C09')
    bad += rc_bad
    res.coverage['reconfigured_after_use'] = rc_n
    res.samples = [{'case': '%s %s ns=%s' % (c['kind'], c['name'], c['ns'])} for c in cases[:3]]
    res.coverage.update({
        'evaluations': calls, 'distinct_nontrivial': len(cases),
        'rule': 'instance (61 indicators; 32 base + 13 compound/decorated strategies as Compute, Report, ComputeWithOutcome) x %d inputs of different lengths, '
                'called one after another and then all at once on the same instance, race detector on; AllSplitStrategies/AllAndStrategies (shared sub-instances) run concurrently' % k_inputs,
        'instances': len(cases), 'compared_with_model': model_cmp, 'race_reports': len(race_reports), 'shared_instances_run': sg[:120],
        'violations_found': bad, 'traces_validated_against_impl': calls,
        'trusted_base': vlib.TRUSTED + ['Go race detector (happens-before) on the executions actually run; absence of races on other executions is not proved'],
    })
    res.assumptions = ['data races are a property of Go memory accesses, which the Lean model cannot exhibit: the race detector on reuse/concurrent runs is the witness',
                       'receiver-field writes inside Compute/Report are additionally looked for by the source scan (class_scan in C03 evidence)']
    scan_receiver_writes(res)
    return res.finish()


RECONF_WRAPPED = [('And:Macd+Rsi', 'And:Trix+Bop'), ('Or:Macd+Rsi', 'Or:Vwma+GoldenCross'), ('Majority:Macd+Rsi+Trix', 'Majority:Kdj+Bop+Rsi'),
                  ('Split:Macd+Rsi', 'Split:Trix+Kdj'), ('Inverse:Macd', 'Inverse:Kdj'), ('NoLoss:Macd', 'NoLoss:Rsi'), ('StopLoss:Macd', 'StopLoss:Trix')]


def check_reconf(res, rng, tier, which, prop, names=None, modes=('replace', 'inplace', 'literal')):
    """C09 "an instance holds configuration only": a used instance whose exported configuration is then overwritten
    with that of a fresh donor must behave like a fresh instance of the donor's configuration (RECONF in harness/reconf.go).
    Modes: 'replace' (exported fields assigned from the donor), 'inplace' (exported leaf fields assigned, sub-objects kept),
    'literal' (the instance is reset to its zero value first: a struct literal filled in field by field).
    which: subset of {'IND', 'STRAT', 'WRAPPED'}.  Returns (cases, bad)."""
    hi = 6 if tier == 'quick' else 12
    cases = []
    reps = 1 if tier == 'quick' else 4
    if 'IND' in which:
        for name, (kinds, cfg, default) in CAT.items():
            if names is not None and name not in names:
                continue
            for j in range(reps):
                a, b = cfg(rng, hi), cfg(rng, hi)
                for _ in range(6):
                    if list(b[0]) != list(a[0]):
                        break
                    b = cfg(rng, hi)
                w = max(sum(a[0]) if a[0] else 1, sum(b[0]) if b[0] else 1)
                envs = [make_inputs(rng, name, rng.randrange(w + 2, 3 * w + 25))[0] for _ in range(2)]
                cases.append(dict(kind='IND', a=name, b=name, nsA=list(a[0]), fsA=list(a[1]), nsB=list(b[0]), fsB=list(b[1]), envs=envs))
    if 'STRAT' in which:
        for name in SCAT.keys():
            for j in range(2 * reps):
                a, b = SCAT[name]['cfg'](rng, hi), SCAT[name]['cfg'](rng, hi)
                for _ in range(6):
                    if strat_idle(name, list(b[0])) != strat_idle(name, list(a[0])):
                        break
                    b = SCAT[name]['cfg'](rng, hi)
                w = max(strat_idle(name, list(a[0])), strat_idle(name, list(b[0])))
                envs = []
                for t in range(2):
                    o, _ = gen_ohlcv(rng, rng.randrange(w + 2, 3 * w + 30), rng.choice(['walk', 'wide', 'zigzag', 'down', 'up']))
                    envs.append([o[k] for k in KINDS_OF])
                cases.append(dict(kind='STRAT', a=name, b=name, nsA=list(a[0]), fsA=list(a[1]), nsB=list(b[0]), fsB=list(b[1]), envs=envs))
    if 'WRAPPED' in which:
        pairs = list(RECONF_WRAPPED) + [(b, a) for a, b in RECONF_WRAPPED]
        for a, b in pairs:
            envs = []
            for t in range(2):
                o, _ = gen_ohlcv(rng, rng.randrange(14, 70), rng.choice(['walk', 'wide', 'zigzag', 'down', 'up']))
                envs.append([o[k] for k in KINDS_OF])
            cases.append(dict(kind='STRAT', a=a, b=b, nsA=[], fsA=[], nsB=[], fsB=[], envs=envs))
        for j in range(2 * reps):
            p1 = rng.randrange(1, 6); p2 = p1 + rng.randrange(0, 6); p3 = rng.randrange(1, 6)
            envs = []
            for t in range(2):
                o, _ = gen_ohlcv(rng, rng.randrange(40, 110), rng.choice(['walk', 'wide', 'zigzag', 'down', 'up']))
                envs.append([o[k] for k in KINDS_OF])
            lv = [float(rng.choice([20, 30, 40, 45])), float(rng.choice([55, 60, 70, 80]))]
            if j % 2 == 0:
                cases.append(dict(kind='STRAT', a='MacdRsi', b='MacdRsi', nsA=[], fsA=[], nsB=[p1, p2, p3], fsB=lv, envs=envs))
            else:
                cases.append(dict(kind='STRAT', a='MacdRsi', b='MacdRsi', nsA=[p1, p2, p3], fsA=lv, nsB=[], fsB=[], envs=envs))
    lines = []
    for i, c in enumerate(cases):
        for m, mode in enumerate(modes):
            lines.append('r%d_%d RECONF %s %s %s %s %s %s %s %s %s' % (
                i, m, c['kind'], c['a'], vlib.il(c['nsA']), vlib.fl(c['fsA']), c['b'], vlib.il(c['nsB']), vlib.fl(c['fsB']), mode,
                '/'.join(vlib.streams(e) for e in c['envs'])))
    got = vlib.run_go(lines)
    bad = 0
    for i, c in enumerate(cases):
        for m, mode in enumerate(modes):
            g = got.get('r%d_%d' % (i, m), 'missing')
            problem = None
            if not g.startswith('ok '):
                problem = 'reconfigured run failed: ' + g[:300]
            else:
                parts = g[3:].split(' | ')
                if len(parts) != 4:
                    problem = 'unparsable: ' + g[:200]
                elif parts[3] != parts[0]:
                    problem = ('after another instance was re-configured (%s), a new instance of %s %s %s no longer behaves as the first one did: instances share state: first=%s now=%s'
                               % (mode, c['a'], c['nsA'], c['fsA'], parts[0][:160], parts[3][:160]))
                elif parts[1] != parts[2]:
                    problem = ('a used instance whose exported configuration was set (%s) to %s %s %s differs from a fresh instance of that configuration: reconfigured=%s fresh=%s'
                               % (mode, c['b'], c['nsB'], c['fsB'], parts[1][:160], parts[2][:160]))
            if problem:
                bad += 1
                if bad <= 10:
                    res.violation({'reconf_cases': [c], 'mode': mode, 'problem': problem, 'property': prop,
                                   'lines': [lines[len(modes) * i + m].split(' ', 1)[1]],
                                   'oracle': 'an instance holds configuration only: after any earlier Compute, its behaviour is that of a fresh instance with the same exported configuration'})
    return len(cases) * len(modes), bad


def run_race(lines, env):
    """run lines on the race build, collecting race reports from stderr"""
    import subprocess, threading
    binary = vlib.HARNESS_BIN + '-race'
    k = min(8, max(1, len(lines) // 4))
    chunks = [lines[i::k] for i in range(k)]
    outs = [None] * k

    def work(i):
        p = subprocess.run([binary], input='\n'.join(chunks[i]) + '\n', capture_output=True, text=True, env=dict(os.environ, **env), timeout=1800)
        outs[i] = (p.stdout, p.stderr)

    ths = [threading.Thread(target=work, args=(i,)) for i in range(k)]
    [t.start() for t in ths]
    [t.join() for t in ths]
    res, reports = {}, []
    for o, e in outs:
        for ln in o.splitlines():
            sp = ln.split(' ', 1)
            if len(sp) == 2:
                res[sp[0]] = sp[1]
        for blk in e.split('=================='):
            if 'WARNING: DATA RACE' in blk:
                reports.append(blk.strip())
    return res, reports


def scan_receiver_writes(res):
    """'An instance holds configuration only': look for assignments to receiver fields inside ANY method of the indicator and
    strategy types (the library has none: configuration is set through exported fields and constructors)."""
    pk = ['trend', 'momentum', 'volatility', 'volume', 'strategy']
    hits, nmeth = [], 0
    for p in pk:
        for dp, _, fs in os.walk(os.path.join(vlib.REPO, p)):
            for f in fs:
                if not f.endswith('.go') or f.endswith('_test.go'):
                    continue
                txt = open(os.path.join(dp, f)).read()
                for m in re.finditer(r'func \((\w+) \*?[\w\[\], ]+\) (\w+)\b[^{]*\{', txt):
                    nmeth += 1
                    recv = m.group(1)
                    # method body: up to the next top-level func
                    end = txt.find('\nfunc ', m.end())
                    body = txt[m.end(): end if end > 0 else len(txt)]
                    body = re.sub(r'//.*', '', body)
                    for w in re.finditer(r'\b%s\.(\w+(?:\.\w+)*)\s*(=[^=]|\+=|-=|\+\+|--)' % re.escape(recv), body):
                        hits.append('%s: %s.%s written in %s' % (os.path.relpath(os.path.join(dp, f), vlib.REPO), recv, w.group(1), m.group(2)))
    res.coverage['receiver_write_scan'] = {'methods': nmeth, 'writes_to_receiver_fields': hits}
    if hits:
        res.violation({'broken': 'correspondence', 'name': 'receiver-write scan', 'hits': hits,
                       'note': 'a method now assigns to a field of its receiver: the model (instance = configuration) no longer describes the code'},
                      no_failing_input=True)
