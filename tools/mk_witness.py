#!/usr/bin/env python3
"""Development-time helper (never run by a check): searches a small failing case for a component and
prints it as a witness entry for known_findings.json."""
import sys, random, json
sys.path.insert(0, '/verif/tools')
import vlib
from c_indicators import *

def find(name, prop, seedv=7):
    rng = random.Random(seedv)
    vlib.build_harness(); vlib.build_lean()
    for attempt in range(200):
        kinds, cfg, (dns, dfs) = CAT[name]
        ns, fs = cfg(rng, 4)
        ns, fs = list(ns), list(fs)
        n = idle_of(name, ns) + rng.randrange(2, 8)
        ins, regime, _ = make_inputs(rng, name, n, 'walk')
        ins = [[float(round(v)) if k != 'v' else v for v in s] for s, k in zip(ins, CAT[name][0])]
        c = (name, ns, fs, ins, 'witness')
        lines, go, model = run_both([c], spec=True)
        g, m = parse_ind(go['i0']), parse_ind(model['i0'])
        if g['status'] != 'ok' or m['status'] != 'ok':
            continue
        if prop == 'C01':
            bad = spec_compare(c, g, m)[0]
            if bad:
                def fails(cand):
                    l2, g2, m2 = run_both([cand], prefix='s', spec=True)
                    gg, mm = parse_ind(g2['s0']), parse_ind(m2['s0'])
                    return gg['status'] == 'ok' and spec_compare(cand, gg, mm)[0] is not None
                small = shrink_case(c, fails)
                l2, g2, m2 = run_both([small], prefix='s', spec=True)
                gg, mm = parse_ind(g2['s0']), parse_ind(m2['s0'])
                return small, spec_compare(small, gg, mm)[0], [[h2f(v) for v in s] for s in gg['outs']]
    return None

if __name__ == '__main__':
    for name in sys.argv[1:]:
        r = find(name, 'C01')
        print(json.dumps({'component': name, 'witness': case_json(r[0]), 'diff': r[1], 'go': r[2]}))
