#!/usr/bin/env python3
"""Confirm a seeded change in its scratch worktree and store it under /verif/seeded/<name>/.
usage: seed_confirm.py <PROP> <worktree> <mutation-dir-name> <seed-name> [check ids to run...]
Steps: clean worktree -> demo passes; apply patch -> build + full test suite pass, demo fails; revert.
Then (optionally) apply the patch to /repo, run the given checks, and revert /repo."""
import sys, os, re, subprocess, json, shutil, glob
REPO = os.environ.get('VERIF_REPO', '/repo')
ENV = dict(os.environ, GOFLAGS='-mod=mod', GOPROXY='off', GOSUMDB='off', GOTOOLCHAIN='local')

def sh(cmd, cwd, timeout=900):
    p = subprocess.run(cmd, shell=True, cwd=cwd, env=ENV, capture_output=True, text=True, timeout=timeout)
    return p.returncode, (p.stdout + p.stderr)

def main():
    prop, wt, mname, sname = sys.argv[1:5]
    checks = sys.argv[5:]
    mdir = os.path.join(wt, 'MUTATIONS', mname)
    notes = open(os.path.join(mdir, 'notes.md')).read()
    notes = notes.replace('&amp;', '&')
    m = re.search(r'cp\s+\S*MUTATIONS/%s/demo/(\S+)\s+([\w/.-]+?)/?[\s`&]' % re.escape(mname), notes)
    t = re.search(r'go test[^\n`]*?-run\s+[\'"]?([\w|^$.*]+)', notes[m.end():] if m else '')
    if not m or not t:
        print('cannot find demo command in notes.md'); return 2
    demo_file, pkg_dir = m.group(1), m.group(2)
    tg = re.search(r'-tags[ =](\w+)', notes)
    tags = ('-tags %s ' % tg.group(1)) if tg else ''
    seg = notes[m.end():m.end() + t.end()]
    if re.search(r'go test[^\n`]*-race', seg):
        tags = '-race ' + tags
    demo_cmd = 'cp MUTATIONS/%s/demo/%s %s/ && go test -count=1 -timeout 120s %s./%s -run \'%s\'' % (mname, demo_file, pkg_dir, tags, pkg_dir, t.group(1))
    copied = os.path.join(wt, pkg_dir, demo_file)
    def clean():
        sh('git checkout -- . && rm -f %s' % copied, wt)
    clean()
    rc_clean, out_clean = sh(demo_cmd, wt)
    os.path.exists(copied) and os.remove(copied)
    rc, out = sh('git apply MUTATIONS/%s/patch.diff' % mname, wt)
    if rc != 0:
        print('patch does not apply', out); clean(); return 2
    rc_build, out_build = sh('go build ./... && go test -count=1 ./... 2>&1 | tail -20', wt)
    suite_ok = rc_build == 0 and 'FAIL' not in out_build
    rc_mut, out_mut = sh(demo_cmd, wt)
    clean()
    result = {'demo_on_clean_tree': 'pass' if rc_clean == 0 else 'FAIL', 'suite_with_change': 'pass' if suite_ok else 'FAIL',
              'demo_with_change': 'fail (as required)' if rc_mut != 0 else 'PASSES (not a valid seed)'}
    print(json.dumps(result))
    valid = rc_clean == 0 and suite_ok and rc_mut != 0
    if not valid:
        print(out_clean[-500:], out_build[-800:], out_mut[-500:])
        return 1
    dest = os.path.join('/verif/seeded', sname)
    os.makedirs(dest, exist_ok=True)
    shutil.copy(os.path.join(mdir, 'patch.diff'), os.path.join(dest, 'patch.diff'))
    if os.path.isdir(os.path.join(dest, 'demo')):
        shutil.rmtree(os.path.join(dest, 'demo'))
    shutil.copytree(os.path.join(mdir, 'demo'), os.path.join(dest, 'demo'))
    shutil.copy(os.path.join(mdir, 'notes.md'), os.path.join(dest, 'notes.md'))
    detected = {}
    for cid in checks:
        rc, out = sh(('git -C ' + REPO + ' apply %s') % os.path.join(dest, 'patch.diff'), '/verif')
        if rc != 0:
            detected[cid] = 'patch-does-not-apply-to-/repo'
            continue
        try:
            rc, out = sh('./check %s' % cid, '/verif', timeout=1800)
        finally:
            sh('git -C ' + REPO + ' checkout -- .', '/verif')
        lines = [l for l in out.splitlines() if l.startswith('VIOLATION')]
        detected[cid] = {'exit': rc, 'violations': len(lines), 'first': lines[0] if lines else None,
                         'no_failing_input_found': bool(lines) and all('no-failing-input-found' in l for l in lines)}
        print(cid, detected[cid])
    meta = {'property': prop, 'seed': sname, 'source': 'independent sub-agent working from the property text only',
            'demo_command': demo_cmd.replace('MUTATIONS/%s/' % mname, ''), 'confirmed': result,
            'needs_to_manifest': re.sub(r'\s+', ' ', notes)[:1200], 'checks_run': detected}
    json.dump(meta, open(os.path.join(dest, 'meta.json'), 'w'), indent=1)
    return 0

sys.exit(main())
