"""C01 (formulas), C02 (warm-up), C04 (no look-ahead), C15 (ranges), C18 (unit independence)
for the 61 indicators."""
import random, json, collections, os, math
import vlib
from vlib import il, fl, streams, h2f, f2h
from catalog import CAT, NO_IDLE_METHOD, make_inputs, REGIMES


def ind_line(name, ns, fs, ins):
    return 'IND %s %s %s %s' % (name, il(ns), fl(fs), streams(ins))


def parse_ind(line):
    """-> dict(status, meta{}, outs[[hex]], spec[[hex]] or None)"""
    if not line.startswith('ok'):
        return {'status': line.split(' ')[0], 'raw': line}
    parts = line.split(' | ')
    meta = {}
    for kv in parts[0].split(' ')[1:]:
        if '=' in kv:
            k, v = kv.split('=', 1)
            meta[k] = v
    outs = vlib.parse_hex_streams(parts[1]) if len(parts) > 1 else []
    spec = vlib.parse_hex_streams(parts[2]) if len(parts) > 2 else None
    return {'status': 'ok', 'meta': meta, 'outs': outs, 'spec': spec}


def idle_of(name, ns):
    """warm-up as registered (computed the same way as the Lean Registry) — used only to pick lengths"""
    n = lambda k: ns[k] if k < len(ns) else 0
    try:
        return {
            'Apo': n(1) - 1, 'Aroon': n(0) - 1, 'Cci': 2 * n(0) - 2, 'Dema': n(0) + n(1) - 2, 'Kama': n(0),
            'Kdj': n(0) + n(1) + n(2) - 3, 'Macd': n(1) + n(2) - 2, 'MassIndex': n(0) + n(1) + n(2) - 3,
            'Tema': n(0) + n(1) + n(2) - 3, 'Trix': 3 * n(0) - 2, 'Tsi': n(0) + n(1) - 1,
            'IchimokuCloud': n(2) - 1, 'Ppo': n(1) + n(2) - 2, 'Pvo': n(1) + n(2) - 2,
            'AwesomeOscillator': n(1) - 1, 'ChaikinOscillator': n(1) - 1, 'StochasticOscillator': n(0) + n(1) - 2,
            'StochasticRsi': 2 * n(0) - 1, 'Po': 2 * n(0) - 2, 'UlcerIndex': 2 * n(0) - 2, 'Rsi': n(0), 'Emv': n(0),
            'Fi': n(0), 'Mfi': n(0), 'ChandelierExit': n(0), 'KeltnerChannel': n(0), 'Nvi': 1, 'Vpt': 1,
            'Atr': n(1) + 3, 'SuperTrend': n(1) + 3, 'Envelope': n(1), 'Hma': n(0) + 3,
        }.get(name, max(0, n(0) - 1) if ns else 0)
    except Exception:
        return 0


def gen_cases(rng, tier, names=None, per=None):
    """-> list of (name, ns, fs, ins, regime)"""
    hi = 12 if tier == 'quick' else 40
    per = per or (14 if tier == 'quick' else 120)
    maxlen = 120 if tier == 'quick' else 500
    cases = []
    for name in (names or CAT.keys()):
        kinds, cfg, (dns, dfs) = CAT[name]
        for j in range(per):
            if j == 0:
                ns, fs = list(dns), list(dfs)          # library defaults
                n = rng.randrange(idle_of(name, ns) + 2, idle_of(name, ns) + 60)
            else:
                ns, fs = cfg(rng, hi if j % 3 else 5)
                ns, fs = list(ns), list(fs)
                w = idle_of(name, ns)
                choices = [0, 1, 2, max(0, w - 1), w, w + 1, 2 * w + 2, rng.randrange(0, maxlen), rng.randrange(w, w + 40)]
                n = choices[j % len(choices)]
            ins, regime, _ = make_inputs(rng, name, n, REGIMES[j % len(REGIMES)] if j % 2 else None)
            cases.append((name, ns, fs, ins, regime))
    return cases


KNOWN_C01 = None


def run_both(cases, prefix='i'):
    lines = []
    for i, (name, ns, fs, ins, regime) in enumerate(cases):
        lines.append('%s%d %s' % (prefix, i, ind_line(name, ns, fs, ins)))
    go = vlib.run_go(lines)
    model = vlib.run_model(lines)
    return lines, go, model


def vals_close(a_hex, b_hex, scale):
    a, b = h2f(a_hex), h2f(b_hex)
    if a != a or b != b or a in (math.inf, -math.inf) or b in (math.inf, -math.inf):
        return None        # exempt: undefined at this position
    if a_hex == b_hex or a == b:
        return True
    return abs(a - b) <= 1e-9 * max(abs(a), abs(b)) + 1e-10 * scale


def correspondence(res, cases, lines, go, model, what):
    """Go vs model on every output of every case. Returns number of mismatching cases."""
    mism = 0
    for i, c in enumerate(cases):
        cid = lines[i].split(' ')[0]
        g, m = parse_ind(go.get(cid, 'missing')), parse_ind(model.get(cid, 'missing'))
        if g['status'] != 'ok' or m['status'] != 'ok':
            if g['status'] == m['status'] == 'ok':
                continue
            mism += 1
            res.violation({'broken': 'correspondence', 'name': 'IND ' + c[0], 'config': c[1:3], 'line': lines[i][:2000],
                           'go_output': go.get(cid, 'missing')[:500], 'model_output': model.get(cid, 'missing')[:500]},
                          no_failing_input=(what != 'own-oracle'))
            continue
        scale = max([1.0] + [abs(v) for s in c[3] for v in s])
        diff, nv, inex = vlib.cmp_streams(g['outs'], m['outs'], scale=scale * 1e-1)
        if diff is not None:
            mism += 1
            res.violation({'broken': 'correspondence', 'name': 'IND ' + c[0], 'config': {'ns': c[1], 'fs': c[2]},
                           'regime': c[4], 'first_difference': diff, 'line': lines[i][:4000]}, no_failing_input=True)
    return mism


def load_findings(prop):
    return {f['component']: f for f in vlib.known_findings(prop)}


# =====================================================================================
def spec_compare(c, g, m):
    """Go outputs vs the documented formula (spec streams printed by the driver).
    Aligns by position: Go output k of an indicator with declared idle w is position w+k; spec
    stream element k is position start+k.  Returns (bad, compared, exempt) where bad is None or a dict."""
    idle = int(m['meta']['idle'])
    starts = [int(s) for s in m['meta'].get('starts', '').split(',') if s not in ('', '-')]
    if m['spec'] is None or not starts:
        return None, 0, 0
    scale = max([1.0] + [abs(v) for s in c[3] for v in s])
    compared = exempt = 0
    for k, (o, s) in enumerate(zip(g['outs'], m['spec'])):
        st = starts[k] if k < len(starts) else idle
        if c[0] == 'Obv' and o and s:
            # the documented recurrence does not define OBV before the first bar: compare relative to the first value
            base_g, base_s = h2f(o[0]), h2f(s[0])
            o = [f2h(h2f(v) - base_g) for v in o]
            s = [f2h(h2f(v) - base_s) for v in s]
        for j, a in enumerate(o):
            pos = idle + j
            sj = pos - st
            if sj < 0 or sj >= len(s):
                continue
            r = vals_close(a, s[sj], scale)
            if r is None:
                exempt += 1
                continue
            compared += 1
            if r is False:
                return ({'output': k, 'position': pos, 'go': h2f(a), 'formula': h2f(s[sj])}, compared, exempt)
    return None, compared, exempt


def known_line(f):
    return '%s: %s' % (f['component'], f['text'])


def replay_cases(replay):
    rep = json.load(open(replay))
    out = []
    for c in rep.get('cases', []) or ([rep['case']] if 'case' in rep else []):
        out.append((c['name'], c['ns'], c['fs'], c['inputs'], c.get('regime', 'replay')))
    return out


def case_json(c):
    return {'name': c[0], 'ns': c[1], 'fs': c[2], 'inputs': c[3], 'regime': c[4]}


def shrink_case(c, fails):
    """shorten the series (suffix, then prefix) while the failure persists"""
    name, ns, fs, ins, reg = c
    n = len(ins[0]) if ins else 0
    best = c
    # drop suffix
    lo = 0
    for cut in range(n - 1, -1, -1):
        cand = (name, ns, fs, [s[:cut] for s in ins], reg)
        if fails(cand):
            best = cand
        else:
            break
    # drop prefix
    ins = best[3]
    while ins and len(ins[0]) > 1:
        cand = (name, ns, fs, [s[1:] for s in ins], reg)
        if fails(cand):
            best, ins = cand, cand[3]
        else:
            break
    return best


def witness_cases(prop):
    out = []
    for f in vlib.known_findings(prop):
        w = f.get('witness')
        if w:
            out.append(((w['name'], w['ns'], w['fs'], w['inputs'], 'witness'), f))
    return out


def check_c01(res, tier, replay):
    rng = random.Random(vlib.seed())
    vlib.apply_obligations(res, 'C01')
    findings = load_findings('C01')
    wit = [] if replay else witness_cases('C01')
    cases = replay_cases(replay) if replay else [w for w, _ in wit] + gen_cases(rng, tier)
    lines, go, model = run_both(cases)
    mism = correspondence(res, cases, lines, go, model, 'C01')
    compared = exempt = bad_cases = 0
    cells = set()
    known_seen = collections.defaultdict(int)
    known_fixed = set(findings)
    per = collections.Counter()
    for i, c in enumerate(cases):
        cid = lines[i].split(' ')[0]
        g, m = parse_ind(go.get(cid, 'missing')), parse_ind(model.get(cid, 'missing'))
        if g['status'] != 'ok' or m['status'] != 'ok':
            continue
        n = len(c[3][0]) if c[3] else 0
        bad, cmpd, ex = spec_compare(c, g, m)
        compared += cmpd
        exempt += ex
        per[c[0]] += cmpd
        if cmpd:
            cells.add((c[0], tuple(c[1]), min(n // 10, 12), c[4]))
        if bad is None:
            continue
        scale = max([1.0] + [abs(v) for s in c[3] for v in s])
        same_as_model = vlib.cmp_streams(g['outs'], m['outs'], scale=scale * 0.1)[0] is None
        if c[0] in findings and same_as_model:
            known_seen[c[0]] += 1
            known_fixed.discard(c[0])
            continue
        bad_cases += 1

        def fails(cand):
            l2, g2, m2 = run_both([cand], prefix='s')
            gg, mm = parse_ind(g2.get('s0', 'x')), parse_ind(m2.get('s0', 'x'))
            return gg['status'] == 'ok' and mm['status'] == 'ok' and spec_compare(cand, gg, mm)[0] is not None
        small = shrink_case(c, fails) if n <= 200 else c
        l2, g2, m2 = run_both([small], prefix='s')
        gg, mm = parse_ind(g2.get('s0', 'x')), parse_ind(m2.get('s0', 'x'))
        res.violation({'case': case_json(small), 'shrunk_from': n, 'first_difference': spec_compare(small, gg, mm)[0],
                       'go_output': [[h2f(v) for v in s] for s in gg.get('outs', [])],
                       'formula_output': [[h2f(v) for v in s] for s in (mm.get('spec') or [])],
                       'oracle': 'documented formula (Spec/Indicators.lean) evaluated at the same positions',
                       'note': 'Go output differs from the documented formula' +
                               ('' if same_as_model else ' and from the as-is model')})
    for comp, f in findings.items():
        if known_seen.get(comp):
            res.known_hit.append(known_line(f) + ' [witness and %d generated cases differ from the documented formula, equal to the as-is model]' % known_seen[comp])
    res.samples = [{'case': lines[i][:240] + '…', 'go': go.get(lines[i].split(' ')[0], '')[:200]} for i in (0, len(lines) // 2)] if lines else []
    res.coverage.update({
        'evaluations': len(cases), 'distinct_nontrivial': len(cells),
        'rule': 'indicator x configuration x length-decile x regime, counted when at least one non-exempt value was '
                'compared with the documented formula; lengths from {0,1,2,w-1,w,w+1,2w+2} and random; regimes walk, flat, '
                'up, down, zigzag, ties, plateau (+signed, zeros for plain numeric series); dyadic values k/64',
        'values_compared_with_formula': compared, 'exempt_positions': exempt, 'values_per_indicator': dict(per),
        'traces_validated_against_impl': len(cases) - mism, 'go_vs_model_mismatches': mism,
        'formula_violations': bad_cases, 'known_findings_seen': dict(known_seen),
        'known_findings_not_reproduced': sorted(known_fixed),
        'trusted_base': vlib.TRUSTED + ['Spec/Indicators.lean: my transcription of the doc comments (readings listed in Spec/Formulas.lean)',
                                        'formula evaluated in binary64 by the Lean driver; comparison tolerance 1e-9 relative + 1e-10 of the input scale; non-finite positions exempt'],
    })
    res.assumptions = ['floating-point rounding is not modelled by the theorems (stated over the reals); it is bounded by the tolerance comparison',
                       'positions where Go or the formula is non-finite (zero denominator) are exempt, as the property allows']
    return res.finish()


def check_c02(res, tier, replay):
    rng = random.Random(vlib.seed() + 2)
    vlib.apply_obligations(res, 'C02')
    findings = load_findings('C02')
    cases = replay_cases(replay) if replay else gen_cases(rng, tier)
    if not replay:
        # dense sweep of short lengths: n in [0, 2w+2]
        hi = 6 if tier == 'quick' else 12
        for name in CAT:
            kinds, cfg, (dns, dfs) = CAT[name]
            for rep in range(2 if tier == 'quick' else 6):
                ns, fs = cfg(rng, hi)
                w = idle_of(name, list(ns))
                for n in range(0, 2 * w + 3):
                    if tier == 'quick' and n > w + 2 and n % 3:
                        continue
                    ins, regime, _ = make_inputs(rng, name, n)
                    cases.append((name, list(ns), list(fs), ins, regime))
    lines, go, model = run_both(cases)
    mism = correspondence(res, cases, lines, go, model, 'C02')
    cells = set()
    bad_cases = 0
    known_seen = collections.defaultdict(int)
    short = 0
    for i, c in enumerate(cases):
        cid = lines[i].split(' ')[0]
        g, m = parse_ind(go.get(cid, 'missing')), parse_ind(model.get(cid, 'missing'))
        name = c[0]
        n = len(c[3][0]) if c[3] else 0
        if g['status'] != 'ok':
            bad_cases += 1
            res.violation({'case': case_json(c), 'go_output': go.get(cid, 'missing')[:300],
                           'oracle': 'the pipeline must terminate and emit n - idle values', 'n': n})
            continue
        if m['status'] != 'ok':
            continue
        reg_idle = int(m['meta']['idle'])
        go_idle = int(g['meta']['idle'])
        w = go_idle if go_idle >= 0 else reg_idle      # the period the type declares (or its formula implies)
        cells.add((name, tuple(c[1]), 'n<=w' if n <= w else ('n<=2w+2' if n <= 2 * w + 2 else 'long')))
        if n <= w:
            short += 1
        problems = []
        if go_idle >= 0 and go_idle != reg_idle:
            problems.append('IdlePeriod() returned %d, the registered expression gives %d' % (go_idle, reg_idle))
        for k, o in enumerate(g['outs']):
            if len(o) != max(0, n - w):
                problems.append('output %d has %d values for n=%d, idle=%d (expected %d)' % (k, len(o), n, w, max(0, n - w)))
        if not problems:
            continue
        if name in findings and all(p.startswith('output %d' % findings[name].get('output', -1)) for p in problems):
            known_seen[name] += 1
            continue
        bad_cases += 1

        def fails(cand):
            l2, g2, m2 = run_both([cand], prefix='s')
            gg = parse_ind(g2.get('s0', 'x'))
            nn = len(cand[3][0]) if cand[3] else 0
            return gg['status'] != 'ok' or any(len(o) != max(0, nn - w) for o in gg['outs'])
        small = shrink_case(c, fails) if n <= 200 else c
        res.violation({'case': case_json(small), 'shrunk_from': n, 'problems': problems, 'declared_idle': w,
                       'oracle': 'every output has exactly max(0, n - idle) values'})
    for comp, f in findings.items():
        if known_seen.get(comp):
            res.known_hit.append(known_line(f) + ' [%d cases]' % known_seen[comp])
    res.samples = [{'case': lines[i][:200] + '…', 'go': go.get(lines[i].split(' ')[0], '')[:160]} for i in (0, len(lines) // 2)] if lines else []
    res.coverage.update({
        'evaluations': len(cases), 'distinct_nontrivial': len(cells),
        'rule': 'indicator x configuration x length class (n<=w, w<n<=2w+2, longer); dense sweep of every n in [0, 2w+2] '
                'for random admissible configurations plus the C01 case mix; counts on every output vs n - IdlePeriod()',
        'cases_not_longer_than_warmup': short,
        'traces_validated_against_impl': len(cases) - mism, 'go_vs_model_mismatches': mism,
        'violations_found': bad_cases, 'known_findings_seen': dict(known_seen),
        'trusted_base': vlib.TRUSTED,
    })
    res.assumptions = ['multi-input indicators are fed streams of equal length n (unequal lengths: C03)']
    return res.finish()


def check_c04(res, tier, replay):
    rng = random.Random(vlib.seed() + 4)
    vlib.apply_obligations(res, 'C04')
    base = replay_cases(replay) if replay else gen_cases(rng, tier, per=(6 if tier == 'quick' else 40))
    # Go-vs-Go: prefixes and suffix rewrites of the same series
    derived = []   # (kind, base index, cut m, case)
    for bi, c in enumerate(base):
        n = len(c[3][0]) if c[3] else 0
        if n < 2:
            continue
        w = idle_of(c[0], c[1])
        cuts = {1, n - 1, max(1, w), min(n - 1, w + 1), rng.randrange(1, n)}
        if tier == 'thorough':
            cuts |= {rng.randrange(1, n) for _ in range(4)}
        for mcut in sorted(cuts):
            if not (0 < mcut < n):
                continue
            derived.append(('prefix', bi, mcut, (c[0], c[1], c[2], [s[:mcut] for s in c[3]], c[4])))
            # rewrite the suffix after mcut with fresh (valid) data of the same kind
            ins2, _, _ = make_inputs(rng, c[0], n)
            mixed = [s[:mcut] + t[mcut:] for s, t in zip(c[3], ins2)]
            if CAT[c[0]][0] in ('xn',):   # keep the abscissa
                mixed[0] = c[3][0]
            derived.append(('suffix', bi, mcut, (c[0], c[1], c[2], mixed, c[4])))
    allcases = base + [d[3] for d in derived]
    lines, go, model = run_both(allcases)
    mism = correspondence(res, allcases, lines, go, model, 'C04')
    bad = 0
    cells = set()
    checked = 0
    for di, (kind, bi, mcut, c) in enumerate(derived):
        gfull = parse_ind(go.get(lines[bi].split(' ')[0], 'missing'))
        gder = parse_ind(go.get(lines[len(base) + di].split(' ')[0], 'missing'))
        if gfull['status'] != 'ok' or gder['status'] != 'ok':
            continue
        name = c[0]
        n = len(base[bi][3][0])
        problem = None
        for k, (of, od) in enumerate(zip(gfull['outs'], gder['outs'])):
            if kind == 'prefix':
                # outputs of the prefix run must be a prefix of the full run (exact, Go vs Go)
                if od != of[:len(od)]:
                    j = next(j for j in range(len(od)) if j >= len(of) or od[j] != of[j])
                    problem = {'output': k, 'index': j, 'cut': mcut, 'prefix_run': h2f(od[j]),
                               'full_run': h2f(of[j]) if j < len(of) else None}
                    break
            else:
                # outputs for positions < mcut are unchanged: the number of such outputs is what the prefix run emits
                keep = max(0, len(of) - (n - mcut))
                if od[:keep] != of[:keep]:
                    j = next(j for j in range(keep) if od[j] != of[j])
                    problem = {'output': k, 'index': j, 'cut': mcut, 'after_suffix_rewrite': h2f(od[j]), 'before': h2f(of[j])}
                    break
        checked += 1
        cells.add((name, tuple(c[1]), kind, 'cut<=w' if mcut <= idle_of(name, c[1]) else 'cut>w'))
        if problem:
            bad += 1
            res.violation({'case': case_json(base[bi]), 'derived_case': case_json(c), 'kind': kind,
                           'first_difference': problem,
                           'oracle': 'run on a prefix = prefix of the run; later inputs never change earlier outputs (Go vs Go, bit-exact)'})
    res.samples = [{'kind': d[0], 'cut': d[2], 'name': d[3][0], 'ns': d[3][1], 'n': len(base[d[1]][3][0])} for d in derived[:3]]
    res.coverage.update({
        'evaluations': len(allcases), 'distinct_nontrivial': len(cells),
        'rule': 'indicator x configuration x {prefix run, suffix rewrite} x cut position class; each derived run is compared '
                'bit-for-bit with the run on the whole series (no reference implementation involved)',
        'relations_checked': checked, 'traces_validated_against_impl': len(allcases) - mism,
        'go_vs_model_mismatches': mism, 'violations_found': bad,
        'trusted_base': vlib.TRUSTED,
    })
    res.assumptions = ['indicators only here; strategies are covered by C05/C07 checks using the same relation']
    return res.finish()
